/-
  Hx.Spec.Completion — C11 (honest Partial): the finite completion set, the two stated
  exceptions as decidable predicates, and the witness function.
-/
import Hx.Obs
import Hx.Spec.Chk
namespace Hx

def strBytes (s : String) : List Byte := s.toUTF8.toList

/-- ways to finish a multi-byte UTF-8 sequence in progress -/
def utf8Completions : List (List Byte) :=
  [[], [0x80], [0x80, 0x80], [0x80, 0x80, 0x80], [0xA0, 0x80], [0x90, 0x80, 0x80]]

def headerTails : List (List Byte) :=
  [strBytes "\r\n", strBytes "\n", strBytes ":\r\n\r\n", strBytes "\r\n\r\n", strBytes "\n\r\n"]

def versionSuffixes : List (List Byte) :=
  ["HTTP/1.1", "TTP/1.1", "TP/1.1", "P/1.1", "/1.1", "1.1", ".1", "1"].map strBytes

/-- the finite completion set for requests -/
def reqTails : List (List Byte) :=
  headerTails ++
  [strBytes "GET / HTTP/1.1\r\n\r\n", strBytes "\nGET / HTTP/1.1\r\n\r\n", strBytes " / HTTP/1.1\r\n\r\n",
   strBytes "/ HTTP/1.1\r\n\r\n"] ++
  utf8Completions.map (· ++ strBytes " HTTP/1.1\r\n\r\n") ++
  versionSuffixes.map (· ++ strBytes "\r\n\r\n")

/-- the finite completion set for responses -/
def respTails : List (List Byte) :=
  headerTails ++
  [strBytes "HTTP/1.1 200 OK\r\n\r\n", strBytes "\nHTTP/1.1 200 OK\r\n\r\n"] ++
  versionSuffixes.map (· ++ strBytes " 200 OK\r\n\r\n") ++
  [strBytes " 200 OK\r\n\r\n", strBytes "200 OK\r\n\r\n", strBytes "00\r\n\r\n", strBytes "0\r\n\r\n"]

def chunkTails : List (List Byte) := [strBytes "0\r\n", strBytes "\r\n", strBytes "\n"]

def tailsFor : Kind → List (List Byte)
  | .req => reqTails | .resp => respTails | .hdrs => headerTails

/-- can `l` still be extended to valid UTF-8? (valid, possibly followed by a proper prefix of a
well-formed multi-byte sequence) -/
def utf8PrefixOk (l : List Byte) : Bool :=
  utf8Completions.any fun t => validUtf8 (l ++ t)

/-- Exception 1 (requests): the target in progress already contains a byte sequence that no
continuation can turn into valid UTF-8 (validity is only judged at the terminating SP).
The target in progress = the bytes after the method and its SP delimiter(s), when they are all
target bytes. -/
def badUtf8Target (cfg : Config) (buf : List Byte) (method : Sp) : Bool :=
  match method with
  | .at off len =>
    let after := buf.drop (off + len + 1)
    let t := if cfg.multiReq then after.dropWhile (· == SP) else after
    t.all isUri && !utf8PrefixOk t
  | _ => false

/-- Exception 2: the array is full (`cap` headers of this call stored) — header capacity is only
judged when a surplus header line completes -/
def overCapacity (cap : Nat) (o : Obs) : Bool :=
  (o.arrA.filter fun s => match s with | .hdr _ => true | _ => false).length == cap

end Hx
