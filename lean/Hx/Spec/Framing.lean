/-
  Hx.Spec.Framing — specification vocabulary for C03: independent linear scans that know
  nothing about HTTP beyond "lines end in LF".
-/
import Hx.Basic
namespace Hx

/-- Walks LF-terminated lines from a line start; returns the offset just past the first line
that is exactly `CR LF` or `LF`.  `off` = offset of the current line start. -/
def firstEmptyLineFrom : (off : Nat) → List Byte → Option Nat
  | _, [] => none
  | off, b :: r =>
    if b == LF then some (off + 1)
    else if b == CR then
      match r with
      | [] => none
      | b2 :: r2 =>
        if b2 == LF then some (off + 2)
        else skipLine (off + 2) r2 b2
    else skipLine (off + 1) r b
where
  /-- inside a non-empty line: skip to just past its LF (`last` = the byte just consumed) -/
  skipLine : (off : Nat) → List Byte → Byte → Option Nat
  | _, [], _ => none
  | off, b :: r, _ =>
    if b == LF then firstEmptyLineFrom (off + 1) r
    else skipLine (off + 1) r b

def firstEmptyLine (buf : List Byte) : Option Nat := firstEmptyLineFrom 0 buf

/-- Skips `(CR? LF)*`-style leading empty lines, then returns the offset just past the first LF
(the end of the start line). -/
def startLineEndFrom : (off : Nat) → List Byte → Option Nat
  | _, [] => none
  | off, b :: r =>
    if b == LF then startLineEndFrom (off + 1) r
    else if b == CR then
      match r with
      | [] => none
      | b2 :: r2 => if b2 == LF then startLineEndFrom (off + 2) r2 else pastLf (off + 2) r2
    else pastLf (off + 1) r
where
  pastLf : (off : Nat) → List Byte → Option Nat
  | _, [] => none
  | off, b :: r => if b == LF then some (off + 1) else pastLf (off + 1) r

def startLineEnd (buf : List Byte) : Option Nat := startLineEndFrom 0 buf

/-- offset just past the first `CR LF` -/
def firstCrlfFrom : (off : Nat) → List Byte → Option Nat
  | _, [] => none
  | _, [_] => none
  | off, b :: b2 :: r => if b == CR && b2 == LF then some (off + 2) else firstCrlfFrom (off + 1) (b2 :: r)

def firstCrlf (buf : List Byte) : Option Nat := firstCrlfFrom 0 buf

end Hx
