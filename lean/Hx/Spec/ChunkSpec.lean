/-
  Hx.Spec.ChunkSpec — declarative grammar of a chunk-size line (C09), written from RFC 7230
  §4.1 as relaxed by the property text; knows nothing about the parser's flags.
-/
import Hx.Basic
namespace Hx

/-- exact unsigned value of a run of hex digits (most significant first) -/
def hexVal (ds : List Byte) : Nat := ds.foldl (fun acc d => acc * 16 + hexDigitVal d) 0

/-- `digits ws ext` is the part of a chunk-size line before its CRLF:
1 to 16 hex digits, then optional SP/HTAB, then optionally `;` followed by bytes other than CR. -/
structure IsChunkLine (digits ws ext : List Byte) : Prop where
  digits_ne : digits ≠ []
  digits_le : digits.length ≤ 16
  digits_hex : ∀ d ∈ digits, isHex d = true
  ws_ws : ∀ w ∈ ws, isWs w = true
  ext_shape : ext = [] ∨ ∃ e, ext = SEMI :: e ∧ CR ∉ e

/-- `p` can still be extended to an accepted chunk-size line followed by CRLF
(a *viable prefix* of the language `digits ws ext CR LF`). -/
def ChunkViable (p : List Byte) : Prop :=
  ∃ digits ws ext tail, IsChunkLine digits ws ext ∧ p ++ tail = digits ++ ws ++ ext ++ [CR, LF]

end Hx
