/-
  Hx.Spec.Grammar — declarative grammars (written from the property texts and RFC 7230, not
  from the parser): request line (C06), status line (C07), header lines under the four header
  options (C08, C14; DESIGN Appendix B), header blocks.

  Everything here is a `Prop` about byte lists: existential decompositions, no parsing code.
-/
import Hx.Basic
import Hx.Utf8
import Hx.Parse.Headers
namespace Hx

/-- `(CR LF | LF)*` -/
inductive EmptyLines : List Byte → Prop where
  | nil : EmptyLines []
  | crlf {l : List Byte} : EmptyLines l → EmptyLines (CR :: LF :: l)
  | lf {l : List Byte} : EmptyLines l → EmptyLines (LF :: l)

/-- `CR LF | LF` -/
def IsEol (e : List Byte) : Prop := e = [CR, LF] ∨ e = [LF]

/-- one SP; with the multi-space option a non-empty run of SP -/
def IsDelim (multi : Bool) (sp : List Byte) : Prop :=
  sp = [SP] ∨ (multi = true ∧ sp ≠ [] ∧ ∀ b ∈ sp, b = SP)

def AllWs (l : List Byte) : Prop := ∀ b ∈ l, isWs b = true

/-- the literal `HTTP/1.` followed by the digit of minor version `v` -/
def versionBytes (v : Nat) : List Byte :=
  [0x48, 0x54, 0x54, 0x50, 0x2F, 0x31, 0x2E, UInt8.ofNat (0x30 + v)]

/-! ### C06 — request line -/

structure IsRequestLine (multi : Bool) (pre m sp₁ t sp₂ : List Byte) (v : Nat) (eol : List Byte) : Prop where
  pre_ok : EmptyLines pre
  m_ne : m ≠ []
  m_tchar : ∀ b ∈ m, isTchar b = true
  sp₁_ok : IsDelim multi sp₁
  t_ne : t ≠ []
  t_uri : ∀ b ∈ t, isUri b = true
  t_utf8 : validUtf8 t = true
  sp₂_ok : IsDelim multi sp₂
  v01 : v = 0 ∨ v = 1
  eol_ok : IsEol eol

def requestLineBytes (pre m sp₁ t sp₂ : List Byte) (v : Nat) (eol : List Byte) : List Byte :=
  pre ++ m ++ sp₁ ++ t ++ sp₂ ++ versionBytes v ++ eol

/-! ### C07 — status line -/

/-- what follows the three digits: a line end, or `SP sp₂ reason eol` (`sp₂` = further SPs, only
with the multi-space option; then the reason does not start with SP) -/
inductive StatusTail (multi : Bool) : (tail : List Byte) → (reasonOff : Nat) → (reason : Option (List Byte)) → Prop where
  | bare {eol : List Byte} : IsEol eol → StatusTail multi eol 0 none
  | reason {sp₂ r eol : List Byte} :
      (∀ b ∈ sp₂, b = SP) → (multi = false → sp₂ = []) → (multi = true → r.head? ≠ some SP) →
      (∀ b ∈ r, isReason b = true) → IsEol eol →
      StatusTail multi (SP :: sp₂ ++ r ++ eol) (1 + sp₂.length) (some r)

structure IsStatusLine (multi : Bool) (pre : List Byte) (v : Nat) (sp₁ : List Byte) (d₁ d₂ d₃ : Byte)
    (tail : List Byte) (reasonOff : Nat) (reason : Option (List Byte)) : Prop where
  pre_ok : EmptyLines pre
  v01 : v = 0 ∨ v = 1
  sp₁_ok : IsDelim multi sp₁
  d₁_ok : isDigit d₁ = true
  d₂_ok : isDigit d₂ = true
  d₃_ok : isDigit d₃ = true
  tail_ok : StatusTail multi tail reasonOff reason

def statusLineBytes (pre : List Byte) (v : Nat) (sp₁ : List Byte) (d₁ d₂ d₃ : Byte) (tail : List Byte) : List Byte :=
  pre ++ versionBytes v ++ sp₁ ++ [d₁, d₂, d₃] ++ tail

def codeValue (d₁ d₂ d₃ : Byte) : Nat :=
  (d₁.toNat - 0x30) * 100 + (d₂.toNat - 0x30) * 10 + (d₃.toNat - 0x30)

/-- the reason the parser reports: the bytes after the delimiter, or the static empty string when
absent or containing a byte ≥ 0x80 -/
def reportedReason (off : Nat) (reason : Option (List Byte)) : Str :=
  match reason with
  | none => .staticEmpty
  | some r => if r.any (fun b => 0x80 ≤ b) then .staticEmpty else .slice ⟨off, r⟩

/-! ### C08 / C14 — header lines (DESIGN Appendix B) -/

/-- `(SP | HTAB | eol (SP|HTAB))*` — whitespace after the colon, with obsolete folds -/
inductive FoldLead : List Byte → Prop where
  | nil : FoldLead []
  | ws {b : Byte} {l : List Byte} : isWs b = true → FoldLead l → FoldLead (b :: l)
  | fold {e : List Byte} {b : Byte} {l : List Byte} : IsEol e → isWs b = true → FoldLead l → FoldLead (e ++ b :: l)

/-- `(value-byte | eol (SP|HTAB))*` — the rest of a value, with obsolete folds -/
inductive FoldValue : List Byte → Prop where
  | nil : FoldValue []
  | ch {b : Byte} {l : List Byte} : isValue b = true → FoldValue l → FoldValue (b :: l)
  | fold {e : List Byte} {b : Byte} {l : List Byte} : IsEol e → isWs b = true → FoldValue l → FoldValue (e ++ b :: l)

/-- whitespace after the colon -/
def Lead (fold : Bool) (l : List Byte) : Prop := if fold then FoldLead l else AllWs l
/-- value bytes after the first visible one -/
def ValRest (fold : Bool) (l : List Byte) : Prop := if fold then FoldValue l else ∀ b ∈ l, isValue b = true
/-- under folding a line end is only final when the next byte is present and not SP/HTAB -/
def LookOk (fold : Bool) (after : List Byte) : Prop :=
  fold = true → ∃ x r, after = x :: r ∧ isWs x = false

/-- `name [OWS]ₛₐₙ ':'` -/
structure NamePart (san : Bool) (name ws₁ : List Byte) : Prop where
  name_ne : name ≠ []
  name_tchar : ∀ b ∈ name, isTchar b = true
  ws₁_ok : AllWs ws₁
  ws₁_san : san = false → ws₁ = []

/-- the part of a header line after the colon: `body`, the offset (relative to the byte after the
colon) and bytes of the untrimmed value -/
inductive BodySpec (fold : Bool) : (body : List Byte) → (valOff : Nat) → (value : List Byte) → Prop where
  | empty {lead eol : List Byte} : Lead fold lead → IsEol eol → BodySpec fold (lead ++ eol) lead.length []
  | value {lead rest eol : List Byte} {v : Byte} :
      Lead fold lead → isValue v = true → isWs v = false → ValRest fold rest → IsEol eol →
      BodySpec fold (lead ++ v :: rest ++ eol) lead.length (v :: rest)

/-- bytes that can be skipped over while dropping an invalid line -/
def NoCtl (l : List Byte) : Prop := ∀ b ∈ l, b ≠ CR ∧ b ≠ LF ∧ b ≠ NUL

/-- `good` is a part of a line that parsed so far, and `b` is the byte at which the header grammar
fails in a way `ignore_invalid_headers` may skip (`nStored` = headers stored so far) -/
inductive FailPoint (hc : HCfg) (nStored : Nat) : (good : List Byte) → (b : Byte) → Prop where
  | lineStart {b : Byte} : isTchar b = false → b ≠ CR → b ≠ LF →
      ¬ (hc.sbf = true ∧ nStored = 0 ∧ isWs b = true) → FailPoint hc nStored [] b
  | afterName {name : List Byte} {b : Byte} : name ≠ [] → (∀ x ∈ name, isTchar x = true) →
      isTchar b = false → b ≠ COLON → ¬ (hc.san = true ∧ isWs b = true) → FailPoint hc nStored name b
  | afterNameWs {name ws₁ : List Byte} {b : Byte} : hc.san = true → name ≠ [] → (∀ x ∈ name, isTchar x = true) →
      ws₁ ≠ [] → AllWs ws₁ → b ≠ COLON → isWs b = false → FailPoint hc nStored (name ++ ws₁) b
  | afterColon {name ws₁ lead : List Byte} {b : Byte} : NamePart hc.san name ws₁ → Lead hc.fold lead →
      isValue b = false → b ≠ CR → b ≠ LF → FailPoint hc nStored (name ++ ws₁ ++ COLON :: lead) b
  | inValue {name ws₁ lead rest : List Byte} {v b : Byte} : NamePart hc.san name ws₁ → Lead hc.fold lead →
      isValue v = true → isWs v = false → ValRest hc.fold rest →
      isValue b = false → b ≠ CR → b ≠ LF → FailPoint hc nStored (name ++ ws₁ ++ COLON :: lead ++ v :: rest) b

/-- What one iteration of the header loop may consume at offset `off` (the line start), given the
bytes `after` it, and what it produces.  `nStored` = headers stored so far. -/
inductive LineSpec (hc : HCfg) (nStored : Nat) (off : Nat) : (consumed after : List Byte) → Line → Prop where
  /-- the head-terminating line -/
  | eoh {e after : List Byte} : IsEol e → LineSpec hc nStored off e after .eoh
  /-- `allow_space_before_first_header_name`: a maximal SP/HTAB run at a line start while no header
  is stored; nothing else is consumed -/
  | leadingWs {ws after : List Byte} : hc.sbf = true → nStored = 0 → ws ≠ [] → AllWs ws →
      (∀ x r, after = x :: r → isWs x = false) → LineSpec hc nStored off ws after .skipped
  /-- a header line -/
  | header {name ws₁ body after : List Byte} {valOff : Nat} {value : List Byte} :
      NamePart hc.san name ws₁ → BodySpec hc.fold body valOff value → LookOk hc.fold after →
      LineSpec hc nStored off (name ++ ws₁ ++ COLON :: body) after
        (.header ⟨off, name⟩ ⟨off + name.length + ws₁.length + 1 + valOff, value⟩)
  /-- `ignore_invalid_headers`: a line that fails the header grammar at a skippable byte, free of
  NUL and of CR other than in its own line end, consumed through exactly its own LF -/
  | ignored {good junk eol after : List Byte} {b : Byte} : hc.ign = true → NoCtl junk → IsEol eol →
      (junk ++ eol).head? = some b → FailPoint hc nStored good b →
      LineSpec hc nStored off (good ++ junk ++ eol) after .skipped

/-- A header block: lines consumed one after another until the head terminator; `n` bytes consumed in
total, `hs` the headers stored (values trimmed), at most `cap` of them. `k` = headers stored before. -/
inductive BlockSpec (hc : HCfg) (cap : Nat) : (off k : Nat) → (input : List Byte) → (n : Nat) → List Hdr → Prop where
  | eoh {off k : Nat} {e after : List Byte} : LineSpec hc k off e after .eoh →
      BlockSpec hc cap off k (e ++ after) e.length []
  | skipped {off k n : Nat} {consumed after : List Byte} {hs : List Hdr} :
      LineSpec hc k off consumed after .skipped → BlockSpec hc cap (off + consumed.length) k after n hs →
      BlockSpec hc cap off k (consumed ++ after) (consumed.length + n) hs
  | header {off k n : Nat} {consumed after : List Byte} {name value : Slice} {hs : List Hdr} :
      LineSpec hc k off consumed after (.header name value) → k < cap →
      BlockSpec hc cap (off + consumed.length) (k + 1) after n hs →
      BlockSpec hc cap off k (consumed ++ after) (consumed.length + n) (⟨name, trimValue value⟩ :: hs)

/-! ### C08 — the default grammar, spelled out without options -/

/-- `name ':' OWS value OWS EOL` with the value trimmed -/
structure IsHeaderLine (name ows₁ value ows₂ eol : List Byte) : Prop where
  name_ne : name ≠ []
  name_tchar : ∀ b ∈ name, isTchar b = true
  ows₁_ok : AllWs ows₁
  value_bytes : ∀ b ∈ value, isValue b = true
  value_head : ∀ b, value.head? = some b → isWs b = false
  value_last : ∀ b, value.getLast? = some b → isWs b = false
  ows₂_ok : AllWs ows₂
  ows₂_empty : value = [] → ows₂ = []
  eol_ok : IsEol eol

def headerLineBytes (name ows₁ value ows₂ eol : List Byte) : List Byte :=
  name ++ COLON :: ows₁ ++ value ++ ows₂ ++ eol

/-- a parsed default-grammar line: its five pieces -/
structure HLine where
  name : List Byte
  ows₁ : List Byte
  value : List Byte
  ows₂ : List Byte
  eol : List Byte

def HLine.bytes (l : HLine) : List Byte := headerLineBytes l.name l.ows₁ l.value l.ows₂ l.eol
def HLine.ok (l : HLine) : Prop := IsHeaderLine l.name l.ows₁ l.value l.ows₂ l.eol

/-- the headers a sequence of default-grammar lines starting at offset `off` denotes: name exactly
the bytes before the colon, value the bytes after it without the surrounding OWS -/
def linesHeaders : (off : Nat) → List HLine → List Hdr
  | _, [] => []
  | off, l :: r =>
    ⟨⟨off, l.name⟩, ⟨off + l.name.length + 1 + l.ows₁.length, l.value⟩⟩ :: linesHeaders (off + l.bytes.length) r

end Hx
