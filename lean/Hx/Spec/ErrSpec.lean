/-
  Hx.Spec.ErrSpec — C10: which error kind belongs to which element of the message, stated
  declaratively: an input is rejected with kind `e` exactly when, reading left to right, the first
  byte that leaves the grammar lies in an element whose kind is `e`.

  Kinds: Token = method, target and their delimiters; Version = the HTTP-version literal and, in
  responses, the SP after it; NewLine = the request-line terminator, and a CR not followed by LF in
  leading empty lines or in the head-terminating line; Status = status code, reason phrase and
  their delimiters; HeaderName = from a header line's start up to and including the colon;
  HeaderValue = after the colon; TooManyHeaders = one more well-formed header line than the array
  can hold has been completely received.
-/
import Hx.Spec.Grammar
namespace Hx

/-- `p ++ [x]` leaves the literal `HTTP/1.0|1`: `p` is a proper prefix of it, `p ++ [x]` is not a
prefix of either spelling -/
def VersionMismatch (p : List Byte) (x : Byte) : Prop :=
  p.length < 8 ∧ (p <+: versionBytes 0 ∨ p <+: versionBytes 1) ∧
  ¬ ((p ++ [x]) <+: versionBytes 0) ∧ ¬ ((p ++ [x]) <+: versionBytes 1)

/-- `CR` followed by a byte other than `LF` -/
def CrNotLf (s : List Byte) : Prop := ∃ x r, s = CR :: x :: r ∧ x ≠ LF

/-- `s` (what follows an accepted `HTTP/1.x`) is not a line end: its first byte is neither CR nor
LF, or it is a CR not followed by LF -/
def BadEol (s : List Byte) : Prop := (∃ x r, s = x :: r ∧ x ≠ CR ∧ x ≠ LF) ∨ CrNotLf s

/-- The request line is rejected with kind `e` at the first offending byte.  `s` is the input after
the leading empty lines. -/
inductive ReqLineErr (multi : Bool) : (s : List Byte) → Error → Prop where
  /-- method: a byte that is neither tchar nor (after at least one tchar) the SP delimiter -/
  | method {m r : List Byte} {b : Byte} : (∀ x ∈ m, isTchar x = true) → isTchar b = false →
      (m = [] ∨ b ≠ SP) → ReqLineErr multi (m ++ b :: r) .token
  /-- target: empty, or ended by a byte that is neither a target byte nor SP (with the multi-space
  option the SP run `sp₁` is maximal: an SP right after it belongs to the delimiter, not to an empty target) -/
  | target {m sp₁ t r : List Byte} {b : Byte} : m ≠ [] → (∀ x ∈ m, isTchar x = true) → IsDelim multi sp₁ →
      (∀ x ∈ t, isUri x = true) → isUri b = false → (t = [] ∨ b ≠ SP) → (multi = true → t = [] → b ≠ SP) →
      ReqLineErr multi (m ++ sp₁ ++ t ++ b :: r) .token
  /-- target: not valid UTF-8 (judged at its terminating SP) -/
  | targetUtf8 {m sp₁ t r : List Byte} : m ≠ [] → (∀ x ∈ m, isTchar x = true) → IsDelim multi sp₁ →
      t ≠ [] → (∀ x ∈ t, isUri x = true) → validUtf8 t = false →
      ReqLineErr multi (m ++ sp₁ ++ t ++ SP :: r) .token
  /-- version literal (with the multi-space option the SP run `sp₂` is maximal) -/
  | version {m sp₁ t sp₂ p r : List Byte} {x : Byte} : m ≠ [] → (∀ y ∈ m, isTchar y = true) → IsDelim multi sp₁ →
      t ≠ [] → (∀ y ∈ t, isUri y = true) → validUtf8 t = true → IsDelim multi sp₂ → VersionMismatch p x →
      (multi = true → p = [] → x ≠ SP) →
      ReqLineErr multi (m ++ sp₁ ++ t ++ sp₂ ++ p ++ x :: r) .version
  /-- request-line terminator -/
  | eol {m sp₁ t sp₂ s : List Byte} {v : Nat} : m ≠ [] → (∀ y ∈ m, isTchar y = true) → IsDelim multi sp₁ →
      t ≠ [] → (∀ y ∈ t, isUri y = true) → validUtf8 t = true → IsDelim multi sp₂ → (v = 0 ∨ v = 1) → BadEol s →
      ReqLineErr multi (m ++ sp₁ ++ t ++ sp₂ ++ versionBytes v ++ s) .newLine

/-- The status line is rejected with kind `e` at the first offending byte.  `s` is the input after
the leading empty lines. -/
inductive RespLineErr (multi : Bool) : (s : List Byte) → Error → Prop where
  | version {p r : List Byte} {x : Byte} : VersionMismatch p x → RespLineErr multi (p ++ x :: r) .version
  /-- the SP after the version -/
  | versionSp {r : List Byte} {v : Nat} {x : Byte} : (v = 0 ∨ v = 1) → x ≠ SP →
      RespLineErr multi (versionBytes v ++ x :: r) .version
  /-- status code: fewer than three digits (with the multi-space option the SP run `sp₁` is maximal) -/
  | code {sp₁ ds r : List Byte} {v : Nat} {x : Byte} : (v = 0 ∨ v = 1) → IsDelim multi sp₁ →
      ds.length < 3 → (∀ d ∈ ds, isDigit d = true) → isDigit x = false → (multi = true → ds = [] → x ≠ SP) →
      RespLineErr multi (versionBytes v ++ sp₁ ++ ds ++ x :: r) .status
  /-- the byte after the code is neither SP, CR nor LF; or CR not followed by LF -/
  | afterCode {sp₁ s : List Byte} {v : Nat} {d₁ d₂ d₃ : Byte} : (v = 0 ∨ v = 1) → IsDelim multi sp₁ →
      isDigit d₁ = true → isDigit d₂ = true → isDigit d₃ = true →
      ((∃ x r, s = x :: r ∧ x ≠ SP ∧ x ≠ CR ∧ x ≠ LF) ∨ CrNotLf s) →
      RespLineErr multi (versionBytes v ++ sp₁ ++ [d₁, d₂, d₃] ++ s) .status
  /-- reason phrase: a byte outside HTAB / SP / 0x21–0x7E / 0x80–0xFF other than a line end, or a CR
  not followed by LF -/
  | reason {sp₁ sp₂ rs s : List Byte} {v : Nat} {d₁ d₂ d₃ : Byte} : (v = 0 ∨ v = 1) → IsDelim multi sp₁ →
      isDigit d₁ = true → isDigit d₂ = true → isDigit d₃ = true →
      (∀ b ∈ sp₂, b = SP) → (multi = false → sp₂ = []) → (∀ b ∈ rs, isReason b = true) →
      ((∃ x r, s = x :: r ∧ isReason x = false ∧ x ≠ CR ∧ x ≠ LF) ∨ CrNotLf s) →
      RespLineErr multi (versionBytes v ++ sp₁ ++ [d₁, d₂, d₃] ++ SP :: sp₂ ++ rs ++ s) .status

/-- a CR not followed by LF in the leading empty lines -/
def LeadingCrErr (buf : List Byte) : Prop := ∃ pre s, buf = pre ++ s ∧ EmptyLines pre ∧ CrNotLf s

/-! ### header lines -/

/-- dropping an invalid line (entered at the head of `s`) fails: before any LF it meets NUL, or a CR
that is not followed by LF -/
def DropFails (s : List Byte) : Prop :=
  ∃ junk x rest, s = junk ++ x :: rest ∧ NoCtl junk ∧ (x = NUL ∨ (x = CR ∧ ∃ y r, rest = y :: r ∧ y ≠ LF))

/-- the kind of a failure at a `FailPoint`: before or after the line's colon -/
def failKind (good : List Byte) : Error := if COLON ∈ good then .headerValue else .headerName

/-- One iteration of the header loop is rejected with kind `e` (`input` starts at a line start). -/
inductive LineErr (hc : HCfg) (nStored : Nat) : (input : List Byte) → Error → Prop where
  /-- head-terminating line: CR not followed by LF -/
  | crNotLf {s : List Byte} : CrNotLf s → LineErr hc nStored s .newLine
  /-- without `ignore_invalid_headers`: the first byte that leaves the header grammar -/
  | strict {good r : List Byte} {b : Byte} : hc.ign = false → FailPoint hc nStored good b →
      LineErr hc nStored (good ++ b :: r) (failKind good)
  /-- with it: NUL or a lone CR met while dropping the line; attributed to the part of the line in which
  the drop began -/
  | drop {good s : List Byte} {b : Byte} : hc.ign = true → FailPoint hc nStored good b → s.head? = some b →
      DropFails s → LineErr hc nStored (good ++ s) (failKind good)
  /-- after the colon a CR must be followed by LF, under every option set -/
  | valueCr {name ws₁ lead s : List Byte} : NamePart hc.san name ws₁ → Lead hc.fold lead → CrNotLf s →
      LineErr hc nStored (name ++ ws₁ ++ COLON :: lead ++ s) .headerValue
  | valueCr' {name ws₁ lead rest s : List Byte} {v : Byte} : NamePart hc.san name ws₁ → Lead hc.fold lead →
      isValue v = true → isWs v = false → ValRest hc.fold rest → CrNotLf s →
      LineErr hc nStored (name ++ ws₁ ++ COLON :: lead ++ v :: rest ++ s) .headerValue

/-- lines consumed one after another without reaching the head terminator: `n` bytes, `hs` headers
stored (values trimmed), starting with `k` stored -/
inductive BlockPrefix (hc : HCfg) (cap : Nat) : (off k : Nat) → (input : List Byte) → (n : Nat) → List Hdr → Prop where
  | nil {off k : Nat} {input : List Byte} : BlockPrefix hc cap off k input 0 []
  | skipped {off k n : Nat} {consumed after : List Byte} {hs : List Hdr} :
      LineSpec hc k off consumed after .skipped → BlockPrefix hc cap (off + consumed.length) k after n hs →
      BlockPrefix hc cap off k (consumed ++ after) (consumed.length + n) hs
  | header {off k n : Nat} {consumed after : List Byte} {name value : Slice} {hs : List Hdr} :
      LineSpec hc k off consumed after (.header name value) → k < cap →
      BlockPrefix hc cap (off + consumed.length) (k + 1) after n hs →
      BlockPrefix hc cap off k (consumed ++ after) (consumed.length + n) (⟨name, trimValue value⟩ :: hs)

/-- The header block is rejected with kind `e`: after some complete lines, either the next line is
rejected with `e`, or (`TooManyHeaders`) it is one more well-formed header line than fits. -/
def BlockErr (hc : HCfg) (cap off k : Nat) (input : List Byte) (e : Error) (hs : List Hdr) : Prop :=
  ∃ n, BlockPrefix hc cap off k input n hs ∧
    ((e ≠ .tooManyHeaders ∧ LineErr hc (k + hs.length) (input.drop n) e) ∨
     (e = .tooManyHeaders ∧ k + hs.length = cap ∧
        ∃ consumed after name value, input.drop n = consumed ++ after ∧
          LineSpec hc (k + hs.length) (off + n) consumed after (.header name value)))

end Hx
