/-
  Hx.Spec.Chk — the decidable predicates `chkCxx` (DESIGN §2.5).  Each is the restriction a
  property places on an observation.  The property theorems state `chkCxx … (model obs) = true`
  for all inputs; the driver evaluates the very same functions on the real code's observations.
-/
import Hx.Obs
import Hx.Utf8
import Hx.Spec.Framing
namespace Hx

/-- message kind of a call -/
inductive Kind where
  | req | resp | hdrs
  deriving DecidableEq, Repr, Inhabited

/-- the header options in force for a call -/
def Kind.hcfg (k : Kind) (cfg : Config) : HCfg :=
  match k with
  | .req => cfg.reqH
  | .resp => cfg.respH
  | .hdrs => HCfg.default

/-! ### C01 -/

/-- the call returned one of the three result shapes (no panic, signal, hang / no UB) -/
def chkC01 (o : Obs) : Bool := o.st != .crash

/-! ### C03 -/

/-- `ws* (CRLF | LF)` -/
def isWsEol (l : List Byte) : Bool :=
  let r := l.dropWhile isWs
  r == [LF] || r == [CR, LF]

/-- does some line start `p` (0 or just after an LF) of `hb` have `hb[p..n]` equal to a
whitespace-only line?  -/
def endsWithWsLine (hb : List Byte) (n : Nat) : Bool :=
  (List.range n).any fun p =>
    (p == 0 || hb[p - 1]? == some LF) && isWsEol ((hb.drop p).take (n - p))

/-- Walks LF-terminated lines from a line start; returns the offset just past the first line that is
`(SP|HTAB)* (CRLF|LF)` (a strictly empty line included) and STARTS before offset `limit`.
`ls` = start of the current line, `off` = current offset, `allWs` = only SP/HTAB seen so far in this
line, `cr` = the previous byte was the (single) CR. -/
def firstWsLineScan (limit : Nat) : (ls off : Nat) → (allWs cr : Bool) → List Byte → Option Nat
  | _, _, _, _, [] => none
  | ls, off, allWs, cr, b :: r =>
    if limit ≤ ls then none
    else if b == LF then
      if allWs then some (off + 1) else firstWsLineScan limit (off + 1) (off + 1) true false r
    else if b == CR then firstWsLineScan limit ls (off + 1) (allWs && !cr) true r
    else if isWs b then firstWsLineScan limit ls (off + 1) (allWs && !cr) false r
    else firstWsLineScan limit ls (off + 1) false false r

def firstWsLine (limit : Nat) (hb : List Byte) : Option Nat := firstWsLineScan limit 0 0 true false hb

/-- framing restriction on a header block `hb` (the bytes after the start line) for status `st`
whose offsets are relative to `hb`.  `firstHdr` = offset (relative to `hb`) of the first header this
call stored, if any.  Without `allow_space_before_first_header_name`: Complete(n) ⇔ `n` is just past
the first strictly empty line; Partial ⇒ there is none.  With it, a line of only SP/HTAB that starts
before the first stored header is empty too: the head ends at the first such line if there is one,
otherwise at the first strictly empty line.  `fold` = obsolete line folding enabled: then a
whitespace-led line after a header line is a continuation of that line, not an empty line, also when
the header line is later dropped by `ignore_invalid_headers` (`a:\n \n \x01\n\n` is one dropped line
and the terminator), so "the first such line" is not claimed; only: the head ends no later than the
first strictly empty line, and at it unless no header is stored and it ends at a whitespace-only
line. -/
def chkFrameBlock (sbf fold : Bool) (hb : List Byte) (firstHdr : Option Nat) : (st : St) → Bool
  | .c n =>
    n ≤ hb.length &&
    (if sbf then
       (if fold then
          (match firstEmptyLine hb with
           | some m => n ≤ m
           | none => true) &&
          (firstEmptyLine hb == some n || (firstHdr == none && endsWithWsLine hb n))
        else
          (match firstWsLine (firstHdr.getD (hb.length + 1)) hb with
           | some m => n == m
           | none => firstEmptyLine hb == some n))
     else firstEmptyLine hb == some n)
  | .p =>
    firstEmptyLine hb == none &&
    -- (with folding on, a whitespace-led line after a header line still in progress is a continuation,
    -- not an empty line, so the whitespace-line clause is only claimed without folding)
    (if sbf && !fold then firstWsLine (firstHdr.getD (hb.length + 1)) hb == none else true)
  | _ => true

/-- offset of the first header of this call found in the array (or among the exposed headers) -/
def Obs.firstHdrOff (o : Obs) : Option Nat :=
  (o.arrA ++ o.arrU).findSome? fun s => match s with
    | .hdr ⟨.at off _, _⟩ => some off
    | _ => none

def chkC03 (k : Kind) (cfg : Config) (buf : List Byte) (o : Obs) : Bool :=
  match k with
  | .hdrs => chkFrameBlock false false buf o.firstHdrOff o.st
  | _ =>
    match o.st with
    | .c n =>
      n ≤ buf.length &&
      (match startLineEnd buf with
       | some s => s ≤ n && chkFrameBlock cfg.spaceBeforeFirst (k.hcfg cfg).fold (buf.drop s) (o.firstHdrOff.map (· - s)) (.c (n - s))
       | none => false)
    | .p =>
      (match startLineEnd buf with
       | some s => chkFrameBlock cfg.spaceBeforeFirst (k.hcfg cfg).fold (buf.drop s) (o.firstHdrOff.map (· - s)) .p
       | none => true)
    | _ => true

def chkC03chunk (buf : List Byte) (o : ChunkObs) : Bool :=
  match o.st with
  | .c n => firstCrlf buf == some n
  | _ => true

/-! ### C04 -/

def Sp.inBuf (len : Nat) : Sp → Bool
  | .none => true | .empty => true | .at o l => o + l ≤ len | .ext => false

def Sp.inHead (n : Nat) : Sp → Bool
  | .none => true | .empty => true | .at o l => o + l ≤ n | .ext => false

/-- strictly ordered, pairwise disjoint: each non-empty span starts at or after the end of the
previous non-empty one -/
def orderedFrom : (lo : Nat) → List Sp → Bool
  | _, [] => true
  | lo, .at o l :: r => lo ≤ o && orderedFrom (o + l) r
  | _, .ext :: _ => false
  | lo, _ :: r => orderedFrom lo r

def Obs.allSpans (o : Obs) : List Sp :=
  o.spans ++ (o.hdrs.flatMap fun h => [h.name, h.value])

def SlotO.spans : SlotO → List Sp
  | .hdr h => [h.name, h.value] | _ => []

/-- every non-empty slice handed back lies inside the buffer (also on Partial/Err, also those
written into the array); on Complete(n) inside `buf[..n]` and in input order -/
def chkC04 (buf : List Byte) (o : Obs) : Bool :=
  o.spans.all (Sp.inBuf buf.length) &&
  (o.arrA ++ o.arrU).all (fun s => s.spans.all (Sp.inBuf buf.length)) &&
  (match o.st with
   | .c n => o.allSpans.all (Sp.inHead n) && orderedFrom 0 o.allSpans
   | _ => true)

/-! ### C05 -/

def allBytes (buf : List Byte) (s : Sp) (p : List Byte → Bool) : Bool :=
  match s.bytes buf with
  | some bs => p bs
  | none => s == .none

/-- value bytes: `isValue`, or (fold only) CR followed by LF, or LF followed by SP/HTAB -/
def valueBytesOk (fold : Bool) : List Byte → Bool
  | [] => true
  | b :: r =>
    (if isValue b then true
     else if fold && b == CR then r.head? == some LF
     else if fold && b == LF then (match r.head? with | some x => isWs x | none => false)
     else false) && valueBytesOk fold r

def valueOk (fold : Bool) (bs : List Byte) : Bool :=
  valueBytesOk fold bs &&
  (match bs.head? with | some b => !isWs b | none => true) &&
  (match bs.getLast? with | some b => !isWs b | none => true)

def isReasonStrict (b : Byte) : Bool := b == 0x09 || b == 0x20 || (0x21 ≤ b && b ≤ 0x7E)

/-- no NUL, and every CR immediately followed by LF, in `l` -/
def headClean : List Byte → Bool
  | [] => true
  | b :: r => b != NUL && (b != CR || r.head? == some LF) && headClean r

def chkC05 (k : Kind) (cfg : Config) (buf : List Byte) (o : Obs) : Bool :=
  let fold := (k.hcfg cfg).fold
  -- every &str handed out, on any outcome, is valid UTF-8
  (match k with
   | .req => o.spans.all fun s => allBytes buf s validUtf8
   | .resp => o.spans.all fun s => allBytes buf s validUtf8
   | .hdrs => true) &&
  (o.arrA ++ o.arrU).all (fun s => match s with
     | .hdr h => allBytes buf h.name validUtf8
     | _ => true) &&
  (match o.st with
   | .c n =>
     (match k with
      | .req =>
        allBytes buf (o.spans.getD 0 .none) (fun m => !m.isEmpty && m.all isTchar) &&
        allBytes buf (o.spans.getD 1 .none) (fun p => !p.isEmpty && p.all isUri && validUtf8 p) &&
        (o.spans.getD 0 .none != .none) && (o.spans.getD 1 .none != .none) &&
        (o.nums.getD 0 none == some 0 || o.nums.getD 0 none == some 1)
      | .resp =>
        allBytes buf (o.spans.getD 0 .none) (fun r => r.all isReasonStrict) &&
        (o.spans.getD 0 .none != .none) &&
        (o.nums.getD 0 none == some 0 || o.nums.getD 0 none == some 1) &&
        (match o.nums.getD 1 none with | some c => c < 1000 | none => false)
      | .hdrs => true) &&
     o.hdrs.all (fun h =>
       allBytes buf h.name (fun nm => !nm.isEmpty && nm.all isTchar) && h.name != .none &&
       allBytes buf h.value (valueOk fold) && h.value != .none) &&
     headClean (buf.take n)
   | _ => true)

/-! ### C17 -/

def SlotO.isSentOrHdr (base i : Nat) : SlotO → Bool
  | .sent k => k == base + i
  | .hdr _ => true
  | .unknown => false

/-- `idx`-indexed check of all slots -/
def slotsAll (p : Nat → SlotO → Bool) (l : List SlotO) : Bool :=
  (l.zipIdx).all fun (s, i) => p i s

/-- header storage law on one call over a sentinel-filled array `A` of `acap` slots (init entry
point: `ucap = 0`; uninit entry point: parses into `U`, sentinels numbered from 1000) -/
def chkC17 (isInit : Bool) (acap ucap : Nat) (o : Obs) : Bool :=
  let tgt := if isInit then o.arrA else o.arrU
  let base := if isInit then 0 else 1000
  o.arrA.length == acap && o.arrU.length == ucap &&
  -- nothing is ever "unknown", every slot holds its previous content or a header of this call
  slotsAll (fun i s => s.isSentOrHdr 0 i) o.arrA &&
  slotsAll (fun i s => s.isSentOrHdr 1000 i) o.arrU &&
  (match o.st with
   | .c _ =>
     -- view = the headers accepted; slots below are headers, slots beyond keep their content
     o.viewLen == o.hdrs.length &&
     (o.viewLen == 0 || o.viewAt == (if isInit then .a 0 else .u 0)) &&
     slotsAll (fun i s => if i < o.viewLen then (match s with | .hdr h => some h == o.hdrs[i]? | _ => false)
                          else s == .sent (base + i)) tgt &&
     (isInit || slotsAll (fun i s => s == .sent i) o.arrA)
   | .crash => false
   | _ =>
     -- `headers` still refers to the caller's whole initialised array
     o.viewLen == acap && (acap == 0 || o.viewAt == .a 0) &&
     (isInit || slotsAll (fun i s => s == .sent i) o.arrA))

/-- number of headers of this call written into the array -/
def Obs.stored (o : Obs) : Nat :=
  (o.arrA.filter fun s => match s with | .hdr _ => true | _ => false).length

/-- capacity law on a pair: `small` = observation with capacity `cap`, `big` = observation of the same
call with a larger capacity.  If the larger run stores at most `cap` headers the outcomes are the same,
otherwise the smaller one is Err(TooManyHeaders). -/
def chkC17cap (cap : Nat) (small big : Obs) : Bool :=
  if big.stored ≤ cap then
    small.st == big.st && small.spans == big.spans && small.nums == big.nums && small.hdrs == big.hdrs &&
    small.stored == big.stored
  else small.st == .e .tooManyHeaders && small.stored == cap

/-! ### C20 -/

/-- forward-only: the distance travelled by the cursor is at most the buffer length, and equals
the reported offset on Complete -/
def chkC20 (bufLen : Nat) (st : St) (adv : Nat) : Bool :=
  adv ≤ bufLen && (match st with | .c n => adv == n | _ => true)

end Hx

namespace Hx

/-! ### C02 — streaming consistency, on a pair (observation of a buffer, observation of an
extension of that buffer), same configuration and capacity -/

/-- a field reported with the shorter buffer has the same value with the longer one -/
def fieldKept {α : Type} [BEq α] (isNone : α → Bool) (short long : α) : Bool :=
  isNone short || short == long

def chkC02 (short long : Obs) : Bool :=
  match short.st with
  | .c _ => long.st == short.st && long.spans == short.spans && long.nums == short.nums &&
            long.hdrs == short.hdrs
  | .e _ => long.st == short.st
  | .p =>
    (List.zip short.spans long.spans).all (fun (a, b) => fieldKept (· == Sp.none) a b) &&
    (List.zip short.nums long.nums).all (fun (a, b) => fieldKept (· == none) a b) &&
    short.spans.length == long.spans.length && short.nums.length == long.nums.length
  | .crash => true      -- not C02's business (C01)

def chkC02chunk (short long : ChunkObs) : Bool :=
  match short.st with
  | .c _ => long == short
  | .e _ => long.st == short.st
  | .p => true
  | .crash => true

/-! ### C15 — conservative extension / kind separation, on a pair of configurations -/

/-- the options a message kind reads -/
def Config.relevant (k : Kind) (c : Config) : List Bool :=
  match k with
  | .req => [c.multiReq, c.spaceBeforeFirst, c.ignReq]
  | .resp => [c.spacesAfterNameResp, c.foldResp, c.multiResp, c.spaceBeforeFirst, c.ignResp]
  | .hdrs => []

/-- `b` is `a` with leading SPs dropped (as spans of the same buffer) -/
def reasonStripped (buf : List Byte) (a b : Sp) : Bool :=
  match a.bytes buf, b.bytes buf with
  | some x, some y =>
    y == x.dropWhile (· == SP) &&
    (match a, b with
     | .at oa la, .at ob lb => oa + la == ob + lb
     | _, _ => true)
  | _, _ => false

/-- observations of the same call under configurations `ca` and `cb` -/
def chkC15 (k : Kind) (buf : List Byte) (ca cb : Config) (oa ob : Obs) : Bool :=
  -- kind separation: configurations that agree on the options this kind reads give identical results
  (if ca.relevant k == cb.relevant k then
     oa.st == ob.st && oa.spans == ob.spans && oa.nums == ob.nums && oa.hdrs == ob.hdrs
   else true) &&
  -- conservative extension: what the default configuration accepts, every configuration accepts
  -- identically (responses: the reason may lose leading SPs under the multi-space option)
  (if ca == Config.default && oa.st.isC then
     ob.st == oa.st && ob.nums == oa.nums && ob.hdrs == oa.hdrs &&
     (match k with
      | .resp =>
        if cb.multiResp then reasonStripped buf (oa.spans.getD 0 .none) (ob.spans.getD 0 .none)
        else ob.spans == oa.spans
      | _ => ob.spans == oa.spans)
   else true)

/-! ### C16 — entry points agree -/

/-- status, fields and exposed headers are the same -/
def sameResult (a b : Obs) : Bool :=
  a.st == b.st && a.spans == b.spans && a.nums == b.nums && a.hdrs == b.hdrs

def chkC16 (obs : List Obs) : Bool :=
  match obs with
  | [] => true
  | o :: r => r.all (sameResult o)

def Sp.shift (d : Nat) : Sp → Sp
  | .at o l => .at (o + d) l
  | s => s

/-- `parse_headers(h)` agrees with the header part of a message `line ++ h` whose start line has
length `d`: same status up to the offset shift, same headers up to the shift -/
def chkC16rel (d : Nat) (h msg : Obs) : Bool :=
  (match h.st, msg.st with
   | .c n, .c m => m == n + d
   | .p, .p => true
   | .e a, .e b => a == b
   | _, _ => false) &&
  msg.hdrs == h.hdrs.map (fun x => ⟨x.name.shift d, x.value.shift d⟩)

/-! ### C18 — history independence: probe on a reused value vs. on a fresh one -/

def chkC18 (reused fresh : Obs) : Bool :=
  reused.st == fresh.st &&
  (if fresh.st.isC then reused.spans == fresh.spans && reused.nums == fresh.nums && reused.hdrs == fresh.hdrs
   else true)

end Hx
