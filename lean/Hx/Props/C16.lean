/-
  C16 — All entry points agree: parse, with-config, uninit variants, parse_headers.

  In the model `Request::parse` is `parse_with_config` at the default configuration by definition
  (as in the Rust source), the initialised-array entry points are `callInit core`, the
  `*_with_uninit_headers` ones `callUninit core`, with one `core` per message kind.

  * `c16_request_init_uninit` / `c16_response_init_uninit`: same status, fields and exposed headers
    whether the headers go into the value's own array or into a separate uninitialised one — for
    every buffer, configuration and capacity.
  * `c16_wrappers_any_core`: this holds for ANY core (it is a statement about the wrappers).
  * `c16_headers_request` / `c16_headers_response`: `parse_headers(h)` agrees with the header part of
    a request / response whose start line (any line of the grammar) is followed by `h`: same status
    with the offset shifted by the start-line length, same headers shifted.
-/
import Hx.Obs
import Hx.Spec.Chk
import Hx.Spec.Grammar
import Hx.Lemmas.Wrappers
namespace Hx

theorem c16_request_init_uninit (be : Backend) (cfg : Config) (acap cap : Nat) (buf : List Byte) :
    sameResult (reqObs be cfg cap buf) (reqObsU be cfg acap cap buf) = true :=
  req_init_uninit be cfg acap cap buf

theorem c16_response_init_uninit (be : Backend) (cfg : Config) (acap cap : Nat) (buf : List Byte) :
    sameResult (respObs be cfg cap buf) (respObsU be cfg acap cap buf) = true :=
  resp_init_uninit be cfg acap cap buf

theorem c16_wrappers_any_core {V : Type} (core : Nat → V → Res V) (v : V) (acap cap : Nat) (arr uarr : Arr) :
    let a := callInit core ⟨v, cap⟩ arr
    let b := callUninit core ⟨v, acap⟩ cap uarr
    a.status = b.status ∧ a.val = b.val ∧
    (∀ n, a.status = .ok n → a.viewLen = b.viewLen ∧ (a.arr.take a.viewLen) = (b.arr.take b.viewLen)) :=
  wrappers_any_core core v acap cap arr uarr

theorem c16_headers_request (be : Backend) (hbe : be.Exact) (cap : Nat) (h : List Byte)
    {pre mb sp₁ t sp₂ eol : List Byte} {v : Nat} (hl : IsRequestLine false pre mb sp₁ t sp₂ v eol) :
    chkC16rel (requestLineBytes pre mb sp₁ t sp₂ v eol).length (hdrsObs be cap h)
      (reqObs be Config.default cap (requestLineBytes pre mb sp₁ t sp₂ v eol ++ h)) = true :=
  hdrs_rel_request be hbe cap h hl

theorem c16_headers_response (be : Backend) (hbe : be.Exact) (cap : Nat) (h : List Byte)
    {pre sp₁ tail : List Byte} {v ro : Nat} {d₁ d₂ d₃ : Byte} {reason : Option (List Byte)}
    (hl : IsStatusLine false pre v sp₁ d₁ d₂ d₃ tail ro reason) :
    chkC16rel (statusLineBytes pre v sp₁ d₁ d₂ d₃ tail).length (hdrsObs be cap h)
      (respObs be Config.default cap (statusLineBytes pre v sp₁ d₁ d₂ d₃ tail ++ h)) = true :=
  hdrs_rel_response be hbe cap h hl

end Hx
