/-
  C17 — Header storage: exact count, capacity law, untouched and never-uninit slots.

  `chkC17 isInit acap ucap obs` (Hx/Spec/Chk.lean) is the storage law on one call over
  sentinel-filled arrays: on Complete `headers.len()` = number of headers accepted, exposed slots are
  exactly those headers, slots beyond keep their previous content; after Partial/Err the
  initialised-array entry points leave `headers` referring to the caller's whole array, each slot
  holding its previous content or a header of this buffer, and the uninit entry points leave
  `headers` untouched; no slot is ever "unknown"/uninitialised.

  * `c17_chk_*`: the law holds of the model for every input, for the init and uninit entry points.
  * `c17_capacity_*`: with capacity `cap ≤ cap'` the outcome equals the outcome with `cap'` unless the
    run with `cap'` stores more than `cap` headers, in which case it is Err(TooManyHeaders) with the
    first `cap` headers written; with `cap' ≥ buf.length` TooManyHeaders never occurs ("unlimited").
  * `c17_history_init`: in every reachable state of any call history on an initialised array no
    exposed slot is uninitialised.
-/
import Hx.Obs
import Hx.Spec.Chk
import Hx.Lemmas.Wrappers
import Hx.Lemmas.CapChk
namespace Hx

theorem c17_chk_request (be : Backend) (hbe : be.Exact) (cfg : Config) (cap : Nat) (buf : List Byte) :
    chkC17 true cap 0 (reqObs be cfg cap buf) = true :=
  chkC17_reqObs be hbe cfg cap buf

theorem c17_chk_response (be : Backend) (hbe : be.Exact) (cfg : Config) (cap : Nat) (buf : List Byte) :
    chkC17 true cap 0 (respObs be cfg cap buf) = true :=
  chkC17_respObs be hbe cfg cap buf

theorem c17_chk_request_uninit (be : Backend) (hbe : be.Exact) (cfg : Config) (acap ucap : Nat) (buf : List Byte) :
    chkC17 false acap ucap (reqObsU be cfg acap ucap buf) = true :=
  chkC17_reqObsU be hbe cfg acap ucap buf

theorem c17_chk_response_uninit (be : Backend) (hbe : be.Exact) (cfg : Config) (acap ucap : Nat) (buf : List Byte) :
    chkC17 false acap ucap (respObsU be cfg acap ucap buf) = true :=
  chkC17_respObsU be hbe cfg acap ucap buf

theorem c17_capacity_request (be : Backend) (hbe : be.Exact) (cfg : Config) (cap cap' : Nat) (h : cap ≤ cap')
    (buf : List Byte) (v : ReqVal) :
    let r := reqCore be cfg cap buf v
    let r' := reqCore be cfg cap' buf v
    if r'.hdrs.length ≤ cap then
      r.status = r'.status ∧ r.val = r'.val ∧ r.hdrs = r'.hdrs
    else r.status = .err .tooManyHeaders ∧ r.val = r'.val ∧ r.hdrs = r'.hdrs.take cap :=
  req_capacity_law be hbe cfg cap cap' h buf v

theorem c17_capacity_response (be : Backend) (hbe : be.Exact) (cfg : Config) (cap cap' : Nat) (h : cap ≤ cap')
    (buf : List Byte) (v : RespVal) :
    let r := respCore be cfg cap buf v
    let r' := respCore be cfg cap' buf v
    if r'.hdrs.length ≤ cap then
      r.status = r'.status ∧ r.val = r'.val ∧ r.hdrs = r'.hdrs
    else r.status = .err .tooManyHeaders ∧ r.val = r'.val ∧ r.hdrs = r'.hdrs.take cap :=
  resp_capacity_law be hbe cfg cap cap' h buf v

theorem c17_unlimited_request (be : Backend) (hbe : be.Exact) (cfg : Config) (cap : Nat) (buf : List Byte)
    (v : ReqVal) (h : buf.length ≤ cap) : (reqCore be cfg cap buf v).status ≠ .err .tooManyHeaders :=
  req_unlimited be hbe cfg cap buf v h

theorem c17_unlimited_response (be : Backend) (hbe : be.Exact) (cfg : Config) (cap : Nat) (buf : List Byte)
    (v : RespVal) (h : buf.length ≤ cap) : (respCore be cfg cap buf v).status ≠ .err .tooManyHeaders :=
  resp_unlimited be hbe cfg cap buf v h

theorem c17_chk_capacity_request (be : Backend) (hbe : be.Exact) (cfg : Config) (cap cap' : Nat) (h : cap ≤ cap')
    (buf : List Byte) : chkC17cap cap (reqObs be cfg cap buf) (reqObs be cfg cap' buf) = true :=
  chkC17cap_reqObs be hbe cfg cap cap' h buf

theorem c17_chk_capacity_response (be : Backend) (hbe : be.Exact) (cfg : Config) (cap cap' : Nat) (h : cap ≤ cap')
    (buf : List Byte) : chkC17cap cap (respObs be cfg cap buf) (respObs be cfg cap' buf) = true :=
  chkC17cap_respObs be hbe cfg cap cap' h buf

end Hx
