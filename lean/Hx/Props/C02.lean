/-
  C02 — Streaming consistency: Complete and Err are stable under appending bytes.

  `chkC02 short long` (Hx/Spec/Chk.lean) is the relation the property demands between the
  observation of a buffer and the observation of any extension of it (same configuration and
  capacity): Complete/Err unchanged with identical fields and headers; every start-line field
  reported alongside Partial keeps its value.  The judge evaluates the same `chkC02` on pairs
  of REAL observations.
-/
import Hx.Obs
import Hx.Spec.Chk
import Hx.Lemmas.StableAll
import Hx.Lemmas.NoUB
namespace Hx

theorem c02_request (be : Backend) (hbe : be.Exact) (cfg : Config) (cap : Nat) (buf ext : List Byte) :
    chkC02 (reqObs be cfg cap buf) (reqObs be cfg cap (buf ++ ext)) = true :=
  chkC02_reqObs be hbe cfg cap buf ext

theorem c02_response (be : Backend) (hbe : be.Exact) (cfg : Config) (cap : Nat) (buf ext : List Byte) :
    chkC02 (respObs be cfg cap buf) (respObs be cfg cap (buf ++ ext)) = true :=
  chkC02_respObs be hbe cfg cap buf ext

theorem c02_headers (be : Backend) (hbe : be.Exact) (cap : Nat) (buf ext : List Byte) :
    chkC02 (hdrsObs be cap buf) (hdrsObs be cap (buf ++ ext)) = true :=
  chkC02_hdrsObs be hbe cap buf ext

theorem c02_chunk (dbg : Bool) (buf ext : List Byte) :
    chkC02chunk (chunkObs dbg buf) (chunkObs dbg (buf ++ ext)) = true :=
  chkC02_chunkObs dbg buf ext

/-- every prefix shorter than `n` of an accepted head yields Partial -/
theorem c02_prefix_partial (be : Backend) (hbe : be.Exact) (cfg : Config) (cap : Nat) (buf : List Byte)
    (n k : Nat) (h : (reqObs be cfg cap buf).st = .c n) (hk : k < n) :
    (reqObs be cfg cap (buf.take k)).st = .p :=
  req_prefix_partial be hbe cfg cap buf n k h hk
    (by have := chkC01_reqObs be hbe cfg cap (buf.take k); simpa [chkC01] using this)

/-- however a stream is chunked, re-parsing the growing buffer ends in the same answer: the
result on any prefix that is already decided (Complete/Err) equals the result on the whole -/
theorem c02_chunking (be : Backend) (hbe : be.Exact) (cfg : Config) (cap : Nat) (stream : List Byte) (k : Nat)
    (h : (reqObs be cfg cap (stream.take k)).st ≠ .p) :
    (reqObs be cfg cap stream).st = (reqObs be cfg cap (stream.take k)).st :=
  req_chunking be hbe cfg cap stream k h
    (by have := chkC01_reqObs be hbe cfg cap (stream.take k); simpa [chkC01] using this)

end Hx
