/-
  C03 — Head framing: Complete(n) ends exactly at the first empty line.

  `firstEmptyLine`, `startLineEnd`, `firstCrlf` (Hx/Spec/Framing.lean) are independent linear scans
  that know nothing about HTTP beyond "lines end in LF".  `chkC03` (Hx/Spec/Chk.lean): Complete(n) ⇒
  `n ≤ buf.length` and `n` is just past the first empty line (CRLF or LF alone) after the start line
  (for `parse_headers`: the first empty line); Partial ⇒ no such line is in the buffer.  With
  `allow_space_before_first_header_name` a line of only SP/HTAB also terminates, but only while no
  header is stored, a strictly empty line always terminates, and Partial still implies that no
  strictly empty line is present.  For `parse_chunk_size`, `n` is just past the first CRLF.
  The judge evaluates the same `chkC03` on the real observations.
-/
import Hx.Obs
import Hx.Spec.Chk
import Hx.Lemmas.Framing
namespace Hx

theorem c03_request (be : Backend) (hbe : be.Exact) (cfg : Config) (cap : Nat) (buf : List Byte) :
    chkC03 .req cfg buf (reqObs be cfg cap buf) = true :=
  chkC03_reqObs be hbe cfg cap buf

theorem c03_response (be : Backend) (hbe : be.Exact) (cfg : Config) (cap : Nat) (buf : List Byte) :
    chkC03 .resp cfg buf (respObs be cfg cap buf) = true :=
  chkC03_respObs be hbe cfg cap buf

theorem c03_headers (be : Backend) (hbe : be.Exact) (cap : Nat) (buf : List Byte) :
    chkC03 .hdrs Config.default buf (hdrsObs be cap buf) = true :=
  chkC03_hdrsObs be hbe cap buf

theorem c03_chunk (dbg : Bool) (buf : List Byte) : chkC03chunk buf (chunkObs dbg buf) = true :=
  chkC03_chunkObs dbg buf

/-- non-vacuity of the scans: the first empty line of `A: b\r\n\r\nX` ends at offset 8 -/
example : firstEmptyLine [0x41, 0x3A, 0x20, 0x62, 0x0D, 0x0A, 0x0D, 0x0A, 0x58] = some 8 := by decide

end Hx
