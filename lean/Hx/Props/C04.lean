/-
  C04 — Zero-copy: every returned slice lies inside the caller's buffer, in order
  (dynamic half; the static lifetime half is rustc's and is not claimed here).

  `chkC04 buf obs`: every non-empty slice of the observation (fields on any outcome, and what was
  written into the array) is a sub-slice of `buf`; on Complete(n) all lie inside `buf[..n]`, in
  input order, pairwise disjoint.  `c04_*_bytes`: a model slice carries exactly the buffer's
  bytes at its offset (so "offset+length" and "content" are the same thing).
-/
import Hx.Obs
import Hx.Spec.Chk
import Hx.Lemmas.FwdAll
namespace Hx

theorem c04_request (be : Backend) (hbe : be.Exact) (cfg : Config) (cap : Nat) (buf : List Byte) :
    chkC04 buf (reqObs be cfg cap buf) = true :=
  chkC04_reqObs be hbe cfg cap buf

theorem c04_response (be : Backend) (hbe : be.Exact) (cfg : Config) (cap : Nat) (buf : List Byte) :
    chkC04 buf (respObs be cfg cap buf) = true :=
  chkC04_respObs be hbe cfg cap buf

theorem c04_headers (be : Backend) (hbe : be.Exact) (cap : Nat) (buf : List Byte) :
    chkC04 buf (hdrsObs be cap buf) = true :=
  chkC04_hdrsObs be hbe cap buf

/-- the slices of a request result (fields and every header written) are slices of `buf` -/
theorem c04_request_bytes (be : Backend) (hbe : be.Exact) (cfg : Config) (cap : Nat) (buf : List Byte)
    (v : ReqVal) (hv : v = ReqVal.fresh) :
    let r := reqCore be cfg cap buf v
    (∀ s, r.val.method = some s → Slice.In buf 0 buf.length s) ∧
    (∀ s, r.val.path = some s → Slice.In buf 0 buf.length s) ∧
    (∀ h ∈ r.hdrs, Slice.In buf 0 buf.length h.name ∧ Slice.In buf 0 buf.length h.value) :=
  reqCore_slices_in be hbe cfg cap buf v hv

theorem c04_response_bytes (be : Backend) (hbe : be.Exact) (cfg : Config) (cap : Nat) (buf : List Byte)
    (v : RespVal) (hv : v = RespVal.fresh) :
    let r := respCore be cfg cap buf v
    (∀ s, r.val.reason = some (.slice s) → Slice.In buf 0 buf.length s) ∧
    (∀ h ∈ r.hdrs, Slice.In buf 0 buf.length h.name ∧ Slice.In buf 0 buf.length h.value) :=
  respCore_slices_in be hbe cfg cap buf v hv

end Hx
