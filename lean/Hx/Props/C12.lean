/-
  C12 — Every byte-class scanner stops exactly at the first out-of-class byte.

  `Scanner.Exact cls s` : `∀ l, s l = some (l.takeWhile cls).length` — the scanner returns the
  length of the longest in-class prefix (stops at the first out-of-class byte, or at the end), and
  never leaves defined behaviour (`none` = a vector load past the end / `unreachable!()` / advance
  past the end).  Classes are the RFC predicates of Hx/Basic.lean (`isUri`, `isValue`, `isTchar`);
  their agreement with the Rust tables is checked exhaustively (all 256 values) on every run.

  Backends: SWAR for 8- and 4-byte words on little- and big-endian targets (`Hx.Swar`), SSE4.2 and
  AVX2 (`Hx.X86`), NEON (`Hx.Gen.Neon`, GENERATED from src/simd/neon.rs on every run), and the
  runtime dispatch for every possible value of the feature cache (`Hx.Runtime.backendFor`).
-/
import Hx.Lemmas.SwarProof
import Hx.Lemmas.SwarGen
import Hx.Lemmas.X86Proof
import Hx.Lemmas.NeonProof
import Hx.Scan.Dispatch
namespace Hx

theorem c12_swar (w : Nat) (hw : w = 8 ∨ w = 4) (le : Bool) : (Swar.backend w le).Exact :=
  ⟨Swar.uriScanner_exact w hw le, Swar.valueScanner_exact w hw le, Swar.nameScanner_exact w (by omega)⟩

/-- SWAR, on the range kernels regenerated from the current `src/simd/swar.rs` (every word size and
endianness, i.e. also the targets that cannot be run in the sandbox): the translator accepted the source
(`sourceOk`), the generated backend is exact, and it is the backend the rest of the model uses -/
theorem c12_swar_generated (w : Nat) (hw : w = 8 ∨ w = 4) (le : Bool) :
    Gen.Swar.sourceOk = true ∧ (Gen.Swar.backend w le).Exact ∧ Gen.Swar.backend w le = Swar.backend w le :=
  ⟨rfl, Gen.Swar.backend_eq w le ▸ c12_swar w hw le, Gen.Swar.backend_eq w le⟩

theorem c12_sse42 (w : Nat) (hw : w = 8 ∨ w = 4) : (X86.sse42Backend w).Exact :=
  ⟨X86.sse42Uri_exact (Swar.uriScanner_exact w hw true), X86.sse42Value_exact (Swar.valueScanner_exact w hw true),
   Swar.nameScanner_exact w (by omega)⟩

theorem c12_avx2 (w : Nat) (hw : w = 8 ∨ w = 4) : (X86.avx2Backend w).Exact :=
  ⟨X86.avx2Uri_exact (Swar.uriScanner_exact w hw true), X86.avx2Value_exact (Swar.valueScanner_exact w hw true),
   Swar.nameScanner_exact w (by omega)⟩

/-- NEON, on the model regenerated from the current `src/simd/neon.rs` -/
theorem c12_neon (le : Bool) : (Gen.Neon.backend 8 le).Exact :=
  ⟨Gen.Neon.uri_exact (Swar.uriScanner_exact 8 (Or.inl rfl) le),
   Gen.Neon.value_exact (Swar.valueScanner_exact 8 (Or.inl rfl) le),
   Gen.Neon.name_exact (le := le) (Swar.nameScanner_exact 8 (by omega))⟩

/-- every value the runtime feature cache can hold selects an exact backend -/
theorem c12_dispatch (w : Nat) (hw : w = 8 ∨ w = 4) (f : Nat) : (Runtime.backendFor w f).Exact := by
  unfold Runtime.backendFor
  split
  · exact c12_avx2 w hw
  · split
    · exact c12_sse42 w hw
    · exact c12_swar w hw true

/-- the scanner backends a build of the crate can end up with -/
inductive ConcreteBackend : Backend → Prop where
  | swar (w : Nat) (hw : w = 8 ∨ w = 4) (le : Bool) : ConcreteBackend (Swar.backend w le)
  | sse42 (w : Nat) (hw : w = 8 ∨ w = 4) : ConcreteBackend (X86.sse42Backend w)
  | avx2 (w : Nat) (hw : w = 8 ∨ w = 4) : ConcreteBackend (X86.avx2Backend w)
  | neon (le : Bool) : ConcreteBackend (Gen.Neon.backend 8 le)
  | runtime (w : Nat) (hw : w = 8 ∨ w = 4) (cached : Nat) : ConcreteBackend (Runtime.backendFor w cached)

/-- every concrete backend is exact — the hypothesis `be.Exact` of the parsing theorems
(C01–C11, C14–C20) is discharged for each of them -/
theorem c12_concrete_exact {b : Backend} (h : ConcreteBackend b) : b.Exact := by
  cases h with
  | swar w hw le => exact c12_swar w hw le
  | sse42 w hw => exact c12_sse42 w hw
  | avx2 w hw => exact c12_avx2 w hw
  | neon le => exact c12_neon le
  | runtime w hw f => exact c12_dispatch w hw f

/-- the NEON loops load 16 bytes only while at least 16 remain (obligation on the GENERATED loop
parameters) -/
theorem c12_neon_thresholds :
    16 ≤ Gen.Neon.match_uri_vectored_threshold ∧ 16 ≤ Gen.Neon.match_header_value_vectored_threshold ∧
    16 ≤ Gen.Neon.match_header_name_vectored_threshold ∧ Gen.Neon.sourceOk = true := by decide

/-- non-vacuity: a scanner result on a concrete buffer with an out-of-class byte in the 20th lane -/
example : X86.sse42Uri 8 true ((List.replicate 19 0x61) ++ [0x20, 0x61]) = some 19 := by decide

end Hx
