/-
  C10 — Error classification names the element of the first offending byte.

  `ReqLineErr`, `RespLineErr`, `LineErr`, `BlockErr` (Hx/Spec/ErrSpec.lean) say declaratively where
  an input first leaves the grammar and which element that byte belongs to.  Theorems: the model
  rejects with kind `e` exactly in those situations — for the request line, the status line, one
  header line under every option set, the header block (incl. TooManyHeaders exactly when one more
  well-formed header line than the array can hold has been completely received), and whole
  requests / responses.
-/
import Hx.Spec.ErrSpec
import Hx.Parse.Lines
import Hx.Lemmas.ErrKinds
namespace Hx

/-- the first byte of `s` (if any) is neither CR nor LF -/
def HeadNotCrLf (s : List Byte) : Prop := ∀ x r, s = x :: r → x ≠ CR ∧ x ≠ LF

theorem c10_request_line (be : Backend) (hbe : be.Exact) (multi : Bool) (buf : List Byte) (e : Error) :
    (reqLineP be multi).run (Cur.new buf) = .err e ↔
      (e = .newLine ∧ LeadingCrErr buf) ∨
      ∃ pre s, buf = pre ++ s ∧ EmptyLines pre ∧ HeadNotCrLf s ∧ ReqLineErr multi s e :=
  reqLine_err_iff be hbe multi buf e

theorem c10_response_line (multi : Bool) (buf : List Byte) (e : Error) :
    (respLineP multi).run (Cur.new buf) = .err e ↔
      (e = .newLine ∧ LeadingCrErr buf) ∨
      ∃ pre s, buf = pre ++ s ∧ EmptyLines pre ∧ HeadNotCrLf s ∧ RespLineErr multi s e :=
  respLine_err_iff multi buf e

theorem c10_header_line (be : Backend) (hbe : be.Exact) (hc : HCfg) (k off : Nat) (input : List Byte) (e : Error) :
    (headerLine be hc k).run ⟨off, [], input⟩ = .err e ↔ LineErr hc k input e :=
  headerLine_err_iff be hbe hc k off input e

/-- `hk`: the headers already stored fit the array (the loop's invariant; it starts with none) -/
theorem c10_block (be : Backend) (hbe : be.Exact) (hc : HCfg) (cap off : Nat) (input : List Byte)
    (hs₀ hs' : List Hdr) (hk : hs₀.length ≤ cap) (fuel : Nat) (hf : input.length < fuel) (e : Error) :
    headersLoop be hc cap fuel ⟨off, [], input⟩ hs₀ = (.err e, hs') ↔
      ∃ hs, BlockErr hc cap off hs₀.length input e hs ∧ hs' = hs₀ ++ hs :=
  headersLoop_err_iff be hbe hc cap off input hs₀ hs' hk fuel hf e

theorem c10_request (be : Backend) (hbe : be.Exact) (cfg : Config) (cap : Nat) (buf : List Byte) (v₀ : ReqVal) (e : Error) :
    (reqCore be cfg cap buf v₀).status = .err e ↔
      (reqLineP be cfg.multiReq).run (Cur.new buf) = .err e ∨
      ∃ pre mb sp₁ t sp₂ v eol hb hs, IsRequestLine cfg.multiReq pre mb sp₁ t sp₂ v eol ∧
        buf = requestLineBytes pre mb sp₁ t sp₂ v eol ++ hb ∧
        BlockErr cfg.reqH cap (requestLineBytes pre mb sp₁ t sp₂ v eol).length 0 hb e hs :=
  reqCore_err_iff be hbe cfg cap buf v₀ e

theorem c10_response (be : Backend) (hbe : be.Exact) (cfg : Config) (cap : Nat) (buf : List Byte) (v₀ : RespVal) (e : Error) :
    (respCore be cfg cap buf v₀).status = .err e ↔
      (respLineP cfg.multiResp).run (Cur.new buf) = .err e ∨
      ∃ pre v sp₁ d₁ d₂ d₃ tail ro reason hb hs, IsStatusLine cfg.multiResp pre v sp₁ d₁ d₂ d₃ tail ro reason ∧
        buf = statusLineBytes pre v sp₁ d₁ d₂ d₃ tail ++ hb ∧
        BlockErr cfg.respH cap (statusLineBytes pre v sp₁ d₁ d₂ d₃ tail).length 0 hb e hs :=
  respCore_err_iff be hbe cfg cap buf v₀ e

/-- the kinds each part can produce -/
theorem c10_kinds_request_line (multi : Bool) (s : List Byte) (e : Error) (h : ReqLineErr multi s e) :
    e = .token ∨ e = .version ∨ e = .newLine := by
  cases h <;> simp

theorem c10_kinds_response_line (multi : Bool) (s : List Byte) (e : Error) (h : RespLineErr multi s e) :
    e = .version ∨ e = .status := by
  cases h <;> simp

theorem c10_kinds_header_line (hc : HCfg) (k : Nat) (s : List Byte) (e : Error) (h : LineErr hc k s e) :
    e = .newLine ∨ e = .headerName ∨ e = .headerValue := by
  cases h
  case crNotLf => simp
  case valueCr => simp
  case valueCr' => simp
  all_goals (unfold failKind; split <;> simp)

end Hx
