/-
  C14 — Leniency options widen the grammar exactly as documented, never past NUL/CR.

  `LineSpec hc nStored off consumed after result` (Hx/Spec/Grammar.lean, DESIGN Appendix B) is the
  declarative line grammar under the four header options (`san` spaces after the name, `fold`
  obsolete line folding, `sbf` whitespace before the first header, `ign` ignore invalid lines).

  * `c14_line_iff`: one iteration of the header loop completes ⇔ the input starts with a line of
    that grammar; the result (end of head / skipped / header with these name and value slices) and
    the bytes consumed are exactly the grammar's — the options widen the language to this and no
    further.  The cursor afterwards stands after the line; a header or skipped line is committed
    (`tok = []`), the head-terminating empty line is left uncommitted (`tok` = that line end), as
    in the Rust code, which only reads the position there.
  * `c14_block_iff`: the header loop completes after `n` bytes ⇔ `BlockSpec` (lines one after another,
    at most `cap` headers kept, values trimmed), at any offset and with any number of headers already
    stored.  `c14_block_cursor`: every completed run is of that form, its final cursor standing
    `n` bytes after the entry with the terminating line end in `tok`.
  * `c14_no_nul`, `c14_no_lone_cr`: whatever a completed line consumed contains no NUL and no CR that
    is not immediately followed by LF — also for dropped lines, under every option set.
  * `c14_options_only_widen`: a line of the default grammar is a line of every option set's grammar
    with the same result (up to the look-ahead byte folding needs).
-/
import Hx.Spec.Grammar
import Hx.Spec.Chk
import Hx.Lemmas.BlockGrammar
namespace Hx

theorem c14_line_iff (be : Backend) (hbe : be.Exact) (hc : HCfg) (k off : Nat) (input : List Byte)
    (res : Line) (c' : Cur) :
    (headerLine be hc k).run ⟨off, [], input⟩ = .ok (res, c') ↔
      ∃ consumed after, input = consumed ++ after ∧
        c' = (if res = .eoh then ⟨off, consumed, after⟩ else ⟨off + consumed.length, [], after⟩) ∧
        LineSpec hc k off consumed after res :=
  headerLine_iff be hbe hc k off input res c'

theorem c14_block_iff (be : Backend) (hbe : be.Exact) (hc : HCfg) (cap off : Nat) (input : List Byte)
    (hs₀ hs' : List Hdr) (fuel : Nat) (hf : input.length < fuel) (n : Nat) :
    (∃ c', headersLoop be hc cap fuel ⟨off, [], input⟩ hs₀ = (.ok c', hs') ∧ c'.pos = off + n ∧
        c'.rest = input.drop n) ↔
      ∃ hs, BlockSpec hc cap off hs₀.length input n hs ∧ hs' = hs₀ ++ hs :=
  headersLoop_iff be hbe hc cap off input hs₀ hs' fuel hf n

theorem c14_block_cursor (be : Backend) (hbe : be.Exact) (hc : HCfg) (cap off : Nat) (input : List Byte)
    (hs₀ hs' : List Hdr) (fuel : Nat) (c' : Cur)
    (h : headersLoop be hc cap fuel ⟨off, [], input⟩ hs₀ = (.ok c', hs')) :
    ∃ n hs, BlockSpec hc cap off hs₀.length input n hs ∧ hs' = hs₀ ++ hs ∧
      c'.pos = off + n ∧ c'.rest = input.drop n ∧ IsEol c'.tok :=
  headersLoop_sound hbe hc cap fuel off input hs₀ hs' c' h

theorem c14_no_nul (hc : HCfg) (k off : Nat) (consumed after : List Byte) (res : Line)
    (h : LineSpec hc k off consumed after res) : ∀ b ∈ consumed, b ≠ NUL :=
  lineSpec_no_nul hc k off consumed after res h

theorem c14_no_lone_cr (hc : HCfg) (k off : Nat) (consumed after : List Byte) (res : Line)
    (h : LineSpec hc k off consumed after res) : headClean consumed = true :=
  lineSpec_headClean hc k off consumed after res h

theorem c14_options_only_widen (hc : HCfg) (k off : Nat) (consumed after : List Byte) (res : Line)
    (h : LineSpec HCfg.default k off consumed after res) (hl : LookOk hc.fold after) :
    LineSpec hc k off consumed after res :=
  lineSpec_default_widen hc k off consumed after res h hl

/-- non-vacuity: with folding, `a: b\r\n c\r\n` followed by `X` is one header whose value keeps the
interior line break -/
example : LineSpec ⟨false, true, false, false⟩ 0 0
    ([0x61] ++ [] ++ COLON :: ([SP] ++ 0x62 :: ([CR, LF] ++ SP :: [0x63]) ++ [CR, LF])) [0x58]
    (.header ⟨0, [0x61]⟩ ⟨0 + 1 + 0 + 1 + 1, 0x62 :: ([CR, LF] ++ SP :: [0x63])⟩) := by
  refine LineSpec.header ⟨by decide, by decide, by simp [AllWs], by simp⟩ ?_ (fun _ => ⟨0x58, [], rfl, by decide⟩)
  exact BodySpec.value (lead := [SP]) (rest := [CR, LF] ++ SP :: [0x63]) (eol := [CR, LF])
    (by simp only [Lead]; exact FoldLead.ws (by decide) FoldLead.nil) (by decide) (by decide)
    (by simp only [ValRest]; exact FoldValue.fold (Or.inl rfl) (by decide) (FoldValue.ch (by decide) FoldValue.nil))
    (Or.inl rfl)

end Hx
