/-
  C01 — Total and memory-safe on every input, config, capacity and alignment.

  In the model every `unsafe` precondition, indexing/arithmetic panic site and `debug_assert!`
  of the Rust code is an explicit `Outcome.ub _` (see `UB` in Hx/Basic.lean); non-termination is
  `ub .fuel`.  Totality itself is Lean's termination check of the model's definitions.

  * `c01_request` / `c01_response` / `c01_headers` / `c01_chunk`: no `ub` outcome is reachable,
    for every buffer, configuration, capacity (including 0), previous field values and every
    exact scanner backend (C12 proves each concrete backend exact).
  * `c01_*_slots`: the number of headers written never exceeds the capacity (slot writes stay
    inside the caller's array; `get_unchecked_mut(..k)` has `k ≤ len`).
  * `c01_chk_*`: the same, as the predicate the judge evaluates on real observations.
-/
import Hx.Obs
import Hx.Spec.Chk
import Hx.Lemmas.NoUB
import Hx.Props.C12
namespace Hx

theorem c01_request (be : Backend) (hbe : be.Exact) (cfg : Config) (cap : Nat) (buf : List Byte)
    (v : ReqVal) (u : UB) : (reqCore be cfg cap buf v).status ≠ .ub u :=
  reqCore_no_ub be hbe cfg cap buf v u

theorem c01_response (be : Backend) (hbe : be.Exact) (cfg : Config) (cap : Nat) (buf : List Byte)
    (v : RespVal) (u : UB) : (respCore be cfg cap buf v).status ≠ .ub u :=
  respCore_no_ub be hbe cfg cap buf v u

theorem c01_headers (be : Backend) (hbe : be.Exact) (cap : Nat) (buf : List Byte) (u : UB) :
    (parseHeaders be cap buf).1 ≠ .ub u :=
  parseHeaders_no_ub be hbe cap buf u

theorem c01_chunk (dbg : Bool) (buf : List Byte) (u : UB) : parseChunkSize dbg buf ≠ .ub u :=
  parseChunkSize_no_ub dbg buf u

theorem c01_request_slots (be : Backend) (cfg : Config) (cap : Nat) (buf : List Byte) (v : ReqVal) :
    (reqCore be cfg cap buf v).hdrs.length ≤ cap :=
  reqCore_hdrs_le be cfg cap buf v

theorem c01_response_slots (be : Backend) (cfg : Config) (cap : Nat) (buf : List Byte) (v : RespVal) :
    (respCore be cfg cap buf v).hdrs.length ≤ cap :=
  respCore_hdrs_le be cfg cap buf v

theorem c01_headers_slots (be : Backend) (cap : Nat) (buf : List Byte) :
    (parseHeaders be cap buf).2.length ≤ cap :=
  parseHeaders_hdrs_le be cap buf

theorem c01_chk_request (be : Backend) (hbe : be.Exact) (cfg : Config) (cap : Nat) (buf : List Byte) :
    chkC01 (reqObs be cfg cap buf) = true :=
  chkC01_reqObs be hbe cfg cap buf

theorem c01_chk_response (be : Backend) (hbe : be.Exact) (cfg : Config) (cap : Nat) (buf : List Byte) :
    chkC01 (respObs be cfg cap buf) = true :=
  chkC01_respObs be hbe cfg cap buf

theorem c01_chk_headers (be : Backend) (hbe : be.Exact) (cap : Nat) (buf : List Byte) :
    chkC01 (hdrsObs be cap buf) = true :=
  chkC01_hdrsObs be hbe cap buf

/-- C01 for every concrete backend (C12 discharges exactness): SWAR, SSE4.2, AVX2, NEON (generated
model), runtime dispatch with any cached feature value -/
theorem c01_request_concrete {b : Backend} (hb : ConcreteBackend b) (cfg : Config) (cap : Nat) (buf : List Byte)
    (v : ReqVal) (u : UB) : (reqCore b cfg cap buf v).status ≠ .ub u :=
  c01_request b (c12_concrete_exact hb) cfg cap buf v u

theorem c01_response_concrete {b : Backend} (hb : ConcreteBackend b) (cfg : Config) (cap : Nat) (buf : List Byte)
    (v : RespVal) (u : UB) : (respCore b cfg cap buf v).status ≠ .ub u :=
  c01_response b (c12_concrete_exact hb) cfg cap buf v u

theorem c01_headers_concrete {b : Backend} (hb : ConcreteBackend b) (cap : Nat) (buf : List Byte) (u : UB) :
    (parseHeaders b cap buf).1 ≠ .ub u :=
  c01_headers b (c12_concrete_exact hb) cap buf u

/-- non-vacuity: the reference backend is exact, and the model really runs to Complete on a
concrete request through every stage -/
example : specBackend.Exact := ⟨fun _ => rfl, fun _ => rfl, fun _ => rfl⟩

end Hx
