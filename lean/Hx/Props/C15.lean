/-
  C15 — Options are conservative extensions and affect only their own message kind.

  `chkC15 kind buf ca cb obsA obsB` (Hx/Spec/Chk.lean): (i) configurations that agree on the
  options the kind reads give identical results (all inputs, accepted or not); (ii) whatever the
  default configuration parses to Complete, every configuration parses to the identical result —
  with the sole exception that `allow_multiple_spaces_in_response_status_delimiters` strips leading
  SPs from the reason phrase (stated exactly: same end, bytes = the default reason without its
  leading SPs).  The judge evaluates the same predicate on pairs of real observations.
-/
import Hx.Obs
import Hx.Spec.Chk
import Hx.Lemmas.Conservative
namespace Hx

theorem c15_request (be : Backend) (hbe : be.Exact) (ca cb : Config) (cap : Nat) (buf : List Byte) :
    chkC15 .req buf ca cb (reqObs be ca cap buf) (reqObs be cb cap buf) = true :=
  chkC15_reqObs be hbe ca cb cap buf

theorem c15_response (be : Backend) (hbe : be.Exact) (ca cb : Config) (cap : Nat) (buf : List Byte) :
    chkC15 .resp buf ca cb (respObs be ca cap buf) (respObs be cb cap buf) = true :=
  chkC15_respObs be hbe ca cb cap buf

/-- response-only options have no effect on request parsing (as functions of everything else) -/
theorem c15_request_reads_only (be : Backend) (ca cb : Config) (h : ca.relevant .req = cb.relevant .req) :
    reqCore be ca = reqCore be cb :=
  reqCore_relevant be ca cb h

/-- request-only options have no effect on response parsing -/
theorem c15_response_reads_only (be : Backend) (ca cb : Config) (h : ca.relevant .resp = cb.relevant .resp) :
    respCore be ca = respCore be cb :=
  respCore_relevant be ca cb h

end Hx
