/-
  C11 — Honest Partial: returned only while the input can still become valid.

  For every buffer on which the model returns Partial there is a continuation from a FINITE
  completion set (`reqTails` / `respTails` / `headerTails` / `chunkTails`, Hx/Spec/Completion.lean)
  after which it returns Complete — except in the two cases the property names: the request target
  in progress already contains a byte sequence no continuation can make valid UTF-8
  (`badUtf8Target`; validity is judged at the terminating SP), or the header array is full
  (`overCapacity`; capacity is judged when the surplus header line completes).  `parse_chunk_size`
  has no exception.  The judge replays the same witness on the real code: for every Partial real
  result the model's witness is appended and the real parser must return Complete.
-/
import Hx.Obs
import Hx.Spec.Completion
import Hx.Lemmas.Completable
namespace Hx

theorem c11_request (be : Backend) (hbe : be.Exact) (cfg : Config) (cap : Nat) (buf : List Byte)
    (h : (reqObs be cfg cap buf).st = .p) :
    (∃ w ∈ reqTails, (reqObs be cfg cap (buf ++ w)).st.isC = true) ∨
    badUtf8Target cfg buf ((reqObs be cfg cap buf).spans.getD 0 .none) = true ∨
    overCapacity cap (reqObs be cfg cap buf) = true :=
  req_partial_completable be hbe cfg cap buf h

theorem c11_response (be : Backend) (hbe : be.Exact) (cfg : Config) (cap : Nat) (buf : List Byte)
    (h : (respObs be cfg cap buf).st = .p) :
    (∃ w ∈ respTails, (respObs be cfg cap (buf ++ w)).st.isC = true) ∨
    overCapacity cap (respObs be cfg cap buf) = true :=
  resp_partial_completable be hbe cfg cap buf h

theorem c11_headers (be : Backend) (hbe : be.Exact) (cap : Nat) (buf : List Byte)
    (h : (hdrsObs be cap buf).st = .p) :
    (∃ w ∈ headerTails, (hdrsObs be cap (buf ++ w)).st.isC = true) ∨
    overCapacity cap (hdrsObs be cap buf) = true :=
  hdrs_partial_completable be hbe cap buf h

theorem c11_chunk (dbg : Bool) (buf : List Byte) (h : parseChunkSize dbg buf = .part) :
    ∃ w ∈ chunkTails, ∃ n size, parseChunkSize dbg (buf ++ w) = .ok (n, size) :=
  chunk_partial_completable dbg buf h

/-- with room for every header the capacity exception never applies -/
theorem c11_request_unlimited (be : Backend) (hbe : be.Exact) (cfg : Config) (cap : Nat) (buf : List Byte)
    (hcap : buf.length + 8 ≤ cap) (h : (reqObs be cfg cap buf).st = .p) :
    (∃ w ∈ reqTails, (reqObs be cfg cap (buf ++ w)).st.isC = true) ∨
    badUtf8Target cfg buf ((reqObs be cfg cap buf).spans.getD 0 .none) = true :=
  req_partial_completable_unlimited be hbe cfg cap buf hcap h

/-- contrapositive reading: a byte that can no longer lead to an accepted head is reported as Err by
the call that first sees it — if no tail completes and no exception applies, the result is not
Partial -/
theorem c11_wrong_byte_is_err (be : Backend) (hbe : be.Exact) (cfg : Config) (cap : Nat) (buf : List Byte)
    (hno : ∀ w ∈ respTails, (respObs be cfg cap (buf ++ w)).st.isC = false)
    (hcap : overCapacity cap (respObs be cfg cap buf) = false) :
    (respObs be cfg cap buf).st ≠ .p := by
  intro hp
  rcases c11_response be hbe cfg cap buf hp with ⟨w, hw, hc⟩ | ho
  · rw [hno w hw] at hc; cases hc
  · rw [hcap] at ho; cases ho

end Hx
