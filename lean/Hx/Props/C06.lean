/-
  C06 — Request line: accepted language and reported method/path/version.

  `IsRequestLine multi pre m sp₁ t sp₂ v eol` (Hx/Spec/Grammar.lean) is the declarative grammar:
  leading empty lines, method = tchar+, one SP (a run with the multi-space option), target = bytes
  0x21–0x7E / 0x80–0xFF forming valid UTF-8, SP, `HTTP/1.0|1`, CRLF or LF.

  * `c06_line_iff`: the request-line stages of the model complete ⇔ the buffer starts with such a
    line; method and path are exactly those byte runs at their offsets, version the final digit; the
    cursor stands right after the line.
  * `c06_core`: `reqCore` is those stages followed by the header block; the fields are assigned
    exactly when the line completes, whatever happens afterwards.
  * `c06_line_unique`: the decomposition is unique.
  * `c06_accept_iff`: a request is accepted ⇔ request line ⧺ a header block accepted by the block
    grammar (`BlockSpec`, C08/C14), with `n` the total length consumed and the headers those of
    the block.
-/
import Hx.Spec.Grammar
import Hx.Parse.Lines
import Hx.Lemmas.StartGrammar
namespace Hx

theorem c06_line_iff (be : Backend) (hbe : be.Exact) (multi : Bool) (buf : List Byte)
    (m p : Slice) (v : Nat) (c : Cur) :
    (reqLineP be multi).run (Cur.new buf) = .ok ((m, p, v), c) ↔
      ∃ pre mb sp₁ t sp₂ eol rest, IsRequestLine multi pre mb sp₁ t sp₂ v eol ∧
        buf = requestLineBytes pre mb sp₁ t sp₂ v eol ++ rest ∧
        m = ⟨pre.length, mb⟩ ∧ p = ⟨pre.length + mb.length + sp₁.length, t⟩ ∧
        c = ⟨(requestLineBytes pre mb sp₁ t sp₂ v eol).length, [], rest⟩ :=
  reqLine_iff be hbe multi buf m p v c

theorem c06_core (be : Backend) (cfg : Config) (cap : Nat) (buf : List Byte) (v₀ : ReqVal) :
    (∀ m p v c, (reqLineP be cfg.multiReq).run (Cur.new buf) = .ok ((m, p, v), c) →
        reqCore be cfg cap buf v₀ = finishHeaders be cfg.reqH cap buf c ⟨some m, some p, some v⟩) ∧
    (∀ e, (reqLineP be cfg.multiReq).run (Cur.new buf) = .err e → (reqCore be cfg cap buf v₀).status = .err e) ∧
    ((reqLineP be cfg.multiReq).run (Cur.new buf) = .part → (reqCore be cfg cap buf v₀).status = .part) :=
  reqCore_via_line be cfg cap buf v₀

theorem c06_line_unique (multi : Bool) {pre mb sp₁ t sp₂ eol rest pre' mb' sp₁' t' sp₂' eol' rest' : List Byte} {v v' : Nat}
    (h : IsRequestLine multi pre mb sp₁ t sp₂ v eol) (h' : IsRequestLine multi pre' mb' sp₁' t' sp₂' v' eol')
    (e : requestLineBytes pre mb sp₁ t sp₂ v eol ++ rest = requestLineBytes pre' mb' sp₁' t' sp₂' v' eol' ++ rest') :
    pre = pre' ∧ mb = mb' ∧ sp₁ = sp₁' ∧ t = t' ∧ sp₂ = sp₂' ∧ v = v' ∧ eol = eol' ∧ rest = rest' :=
  requestLine_unique multi h h' e

/-- non-vacuity: a concrete request line in the grammar -/
example : IsRequestLine false [] [0x47, 0x45, 0x54] [SP] [0x2F] [SP] 1 [CR, LF] :=
  ⟨.nil, by decide, by decide, Or.inl rfl, by decide, by decide, by decide, Or.inl rfl, Or.inr rfl, Or.inl rfl⟩

end Hx
