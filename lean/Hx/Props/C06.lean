/-
  C06 — Request line: accepted language and reported method/path/version.

  `IsRequestLine multi pre m sp₁ t sp₂ v eol` (Hx/Spec/Grammar.lean) is the declarative grammar:
  leading empty lines, method = tchar+, one SP (a run with the multi-space option), target = bytes
  0x21–0x7E / 0x80–0xFF forming valid UTF-8, SP, `HTTP/1.0|1`, CRLF or LF.

  * `c06_line_iff`: the request-line stages of the model complete ⇔ the buffer starts with such a
    line; method and path are exactly those byte runs at their offsets, version the final digit; the
    cursor stands right after the line.
  * `c06_core`: `reqCore` is those stages followed by the header block; the fields are assigned
    exactly when the line completes, whatever happens afterwards.
  * `c06_line_unique`: the decomposition is unique.
  * `c06_accept_iff`: a request is accepted ⇔ request line ⧺ a header block accepted by the block
    grammar (`BlockSpec`, C08/C14), with `n` the total length consumed and the headers those of
    the block.
-/
import Hx.Spec.Grammar
import Hx.Parse.Lines
import Hx.Lemmas.StartGrammar
import Hx.Lemmas.BlockGrammar
namespace Hx

theorem c06_line_iff (be : Backend) (hbe : be.Exact) (multi : Bool) (buf : List Byte)
    (m p : Slice) (v : Nat) (c : Cur) :
    (reqLineP be multi).run (Cur.new buf) = .ok ((m, p, v), c) ↔
      ∃ pre mb sp₁ t sp₂ eol rest, IsRequestLine multi pre mb sp₁ t sp₂ v eol ∧
        buf = requestLineBytes pre mb sp₁ t sp₂ v eol ++ rest ∧
        m = ⟨pre.length, mb⟩ ∧ p = ⟨pre.length + mb.length + sp₁.length, t⟩ ∧
        c = ⟨(requestLineBytes pre mb sp₁ t sp₂ v eol).length, [], rest⟩ :=
  reqLine_iff be hbe multi buf m p v c

theorem c06_core (be : Backend) (cfg : Config) (cap : Nat) (buf : List Byte) (v₀ : ReqVal) :
    (∀ m p v c, (reqLineP be cfg.multiReq).run (Cur.new buf) = .ok ((m, p, v), c) →
        reqCore be cfg cap buf v₀ = finishHeaders be cfg.reqH cap buf c ⟨some m, some p, some v⟩) ∧
    (∀ e, (reqLineP be cfg.multiReq).run (Cur.new buf) = .err e → (reqCore be cfg cap buf v₀).status = .err e) ∧
    ((reqLineP be cfg.multiReq).run (Cur.new buf) = .part → (reqCore be cfg cap buf v₀).status = .part) :=
  reqCore_via_line be cfg cap buf v₀

theorem c06_line_unique (multi : Bool) {pre mb sp₁ t sp₂ eol rest pre' mb' sp₁' t' sp₂' eol' rest' : List Byte} {v v' : Nat}
    (h : IsRequestLine multi pre mb sp₁ t sp₂ v eol) (h' : IsRequestLine multi pre' mb' sp₁' t' sp₂' v' eol')
    (e : requestLineBytes pre mb sp₁ t sp₂ v eol ++ rest = requestLineBytes pre' mb' sp₁' t' sp₂' v' eol' ++ rest') :
    pre = pre' ∧ mb = mb' ∧ sp₁ = sp₁' ∧ t = t' ∧ sp₂ = sp₂' ∧ v = v' ∧ eol = eol' ∧ rest = rest' :=
  requestLine_unique multi h h' e

theorem c06_accept_iff (be : Backend) (hbe : be.Exact) (cfg : Config) (cap : Nat) (buf : List Byte)
    (v₀ : ReqVal) (n : Nat) :
    (reqCore be cfg cap buf v₀).status = .ok n ↔
      ∃ pre mb sp₁ t sp₂ v eol hb k hs, IsRequestLine cfg.multiReq pre mb sp₁ t sp₂ v eol ∧
        buf = requestLineBytes pre mb sp₁ t sp₂ v eol ++ hb ∧
        BlockSpec cfg.reqH cap (requestLineBytes pre mb sp₁ t sp₂ v eol).length 0 hb k hs ∧
        n = (requestLineBytes pre mb sp₁ t sp₂ v eol).length + k ∧
        (reqCore be cfg cap buf v₀).hdrs = hs ∧
        (reqCore be cfg cap buf v₀).val =
          ⟨some ⟨pre.length, mb⟩, some ⟨pre.length + mb.length + sp₁.length, t⟩, some v⟩ := by
  constructor
  · intro h
    cases hl : (reqLineP be cfg.multiReq).run (Cur.new buf) with
    | ok r =>
      obtain ⟨⟨m, p, v⟩, c⟩ := r
      have hc := (c06_core be cfg cap buf v₀).1 m p v c hl
      obtain ⟨pre, mb, sp₁, t, sp₂, eol, rest, hline, hbuf, hm, hp, hcur⟩ := (c06_line_iff be hbe cfg.multiReq buf m p v c).1 hl
      rw [hc] at h
      obtain ⟨k, hs, hb, hn, hh⟩ := (finishHeaders_ok_iff be hbe cfg.reqH cap buf c _ n
        (by subst hcur; subst hbuf; exact ⟨_, rfl, by simp⟩)).1 h
      subst hcur
      refine ⟨pre, mb, sp₁, t, sp₂, v, eol, rest, k, hs, hline, hbuf, hb, hn, ?_, ?_⟩
      · rw [hc]; exact hh.1
      · rw [hc, hh.2, hm, hp]
    | part => have := (c06_core be cfg cap buf v₀).2.2 hl; rw [this] at h; cases h
    | err e => have := (c06_core be cfg cap buf v₀).2.1 e hl; rw [this] at h; cases h
    | ub u => exact absurd hl (reqLine_no_ub be hbe cfg.multiReq buf u)
  · rintro ⟨pre, mb, sp₁, t, sp₂, v, eol, hb, k, hs, hline, hbuf, hblk, hn, _, _⟩
    have hl := (c06_line_iff be hbe cfg.multiReq buf ⟨pre.length, mb⟩ ⟨pre.length + mb.length + sp₁.length, t⟩ v
      ⟨(requestLineBytes pre mb sp₁ t sp₂ v eol).length, [], hb⟩).2 ⟨pre, mb, sp₁, t, sp₂, eol, hb, hline, hbuf, rfl, rfl, rfl⟩
    rw [(c06_core be cfg cap buf v₀).1 _ _ _ _ hl]
    exact (finishHeaders_ok_iff be hbe cfg.reqH cap buf _ _ n (by subst hbuf; exact ⟨_, rfl, by simp⟩)).2
      ⟨k, _, hblk, hn, rfl, rfl⟩ |> fun h => h

/-- non-vacuity: a concrete request line in the grammar -/
example : IsRequestLine false [] [0x47, 0x45, 0x54] [SP] [0x2F] [SP] 1 [CR, LF] :=
  ⟨.nil, by decide, by decide, Or.inl rfl, by decide, by decide, by decide, Or.inl rfl, Or.inr rfl, Or.inl rfl⟩

end Hx
