/-
  C06 — Request line: accepted language and reported method/path/version.

  `IsRequestLine multi pre m sp₁ t sp₂ v eol` (Hx/Spec/Grammar.lean) is the declarative grammar:
  leading empty lines, method = tchar+, one SP (a run with the multi-space option), target = bytes
  0x21–0x7E / 0x80–0xFF forming valid UTF-8, SP, `HTTP/1.0|1`, CRLF or LF.

  * `c06_line_iff`: the request-line stages of the model complete ⇔ the buffer starts with such a
    line; method and path are exactly those byte runs at their offsets, version the final digit; the
    cursor stands right after the line.
  * `c06_core`: `reqCore` is those stages followed by the header block; the fields are assigned
    exactly when the line completes, whatever happens afterwards.
  * `c06_line_unique`: the decomposition is unique.
  * `c06_accept_iff`: a request is accepted ⇔ request line ⧺ a header block accepted by the block
    grammar (`BlockSpec`, C08/C14), with `n` the total length consumed and the headers those of
    the block.
  * `c06_request_default_iff` / `c06_request_default_result`: under the default configuration the
    block is a list of at most `cap` header lines of the default grammar (`HLine.ok`, C08) and an
    empty line; the fields and headers are those of the decomposition.
-/
import Hx.Spec.Grammar
import Hx.Parse.Lines
import Hx.Lemmas.StartGrammar
import Hx.Lemmas.BlockGrammar
import Hx.Lemmas.WholeMessage
import Hx.Lemmas.EndToEnd
namespace Hx

theorem c06_line_iff (be : Backend) (hbe : be.Exact) (multi : Bool) (buf : List Byte)
    (m p : Slice) (v : Nat) (c : Cur) :
    (reqLineP be multi).run (Cur.new buf) = .ok ((m, p, v), c) ↔
      ∃ pre mb sp₁ t sp₂ eol rest, IsRequestLine multi pre mb sp₁ t sp₂ v eol ∧
        buf = requestLineBytes pre mb sp₁ t sp₂ v eol ++ rest ∧
        m = ⟨pre.length, mb⟩ ∧ p = ⟨pre.length + mb.length + sp₁.length, t⟩ ∧
        c = ⟨(requestLineBytes pre mb sp₁ t sp₂ v eol).length, [], rest⟩ :=
  reqLine_iff be hbe multi buf m p v c

theorem c06_core (be : Backend) (cfg : Config) (cap : Nat) (buf : List Byte) (v₀ : ReqVal) :
    (∀ m p v c, (reqLineP be cfg.multiReq).run (Cur.new buf) = .ok ((m, p, v), c) →
        reqCore be cfg cap buf v₀ = finishHeaders be cfg.reqH cap buf c ⟨some m, some p, some v⟩) ∧
    (∀ e, (reqLineP be cfg.multiReq).run (Cur.new buf) = .err e → (reqCore be cfg cap buf v₀).status = .err e) ∧
    ((reqLineP be cfg.multiReq).run (Cur.new buf) = .part → (reqCore be cfg cap buf v₀).status = .part) :=
  reqCore_via_line be cfg cap buf v₀

theorem c06_line_unique (multi : Bool) {pre mb sp₁ t sp₂ eol rest pre' mb' sp₁' t' sp₂' eol' rest' : List Byte} {v v' : Nat}
    (h : IsRequestLine multi pre mb sp₁ t sp₂ v eol) (h' : IsRequestLine multi pre' mb' sp₁' t' sp₂' v' eol')
    (e : requestLineBytes pre mb sp₁ t sp₂ v eol ++ rest = requestLineBytes pre' mb' sp₁' t' sp₂' v' eol' ++ rest') :
    pre = pre' ∧ mb = mb' ∧ sp₁ = sp₁' ∧ t = t' ∧ sp₂ = sp₂' ∧ v = v' ∧ eol = eol' ∧ rest = rest' :=
  requestLine_unique multi h h' e

/-- a request is accepted ⇔ request line ⧺ a header block of the block grammar; `n` is the total
length consumed -/
theorem c06_accept_iff (be : Backend) (hbe : be.Exact) (cfg : Config) (cap : Nat) (buf : List Byte)
    (v₀ : ReqVal) (n : Nat) :
    (reqCore be cfg cap buf v₀).status = .ok n ↔
      ∃ pre mb sp₁ t sp₂ v eol hb k hs, IsRequestLine cfg.multiReq pre mb sp₁ t sp₂ v eol ∧
        buf = requestLineBytes pre mb sp₁ t sp₂ v eol ++ hb ∧
        BlockSpec cfg.reqH cap (requestLineBytes pre mb sp₁ t sp₂ v eol).length 0 hb k hs ∧
        n = (requestLineBytes pre mb sp₁ t sp₂ v eol).length + k :=
  reqCore_ok_iff be hbe cfg cap buf v₀ n

/-- and then the fields and headers are exactly those of the decomposition -/
theorem c06_accept_fields (be : Backend) (hbe : be.Exact) (cfg : Config) (cap : Nat) (buf : List Byte)
    (v₀ : ReqVal) {pre mb sp₁ t sp₂ eol hb : List Byte} {v k : Nat} {hs : List Hdr}
    (hl : IsRequestLine cfg.multiReq pre mb sp₁ t sp₂ v eol)
    (hb' : buf = requestLineBytes pre mb sp₁ t sp₂ v eol ++ hb)
    (hblk : BlockSpec cfg.reqH cap (requestLineBytes pre mb sp₁ t sp₂ v eol).length 0 hb k hs) :
    (reqCore be cfg cap buf v₀).hdrs = hs ∧
    (reqCore be cfg cap buf v₀).val =
      ⟨some ⟨pre.length, mb⟩, some ⟨pre.length + mb.length + sp₁.length, t⟩, some v⟩ :=
  reqCore_ok_fields be hbe cfg cap buf v₀ hl hb' hblk

/-- default configuration, whole request: accepted ⇔ request line of the grammar, then at most `cap`
header lines of the default grammar, then an empty line; `n` is the total length -/
theorem c06_request_default_iff (be : Backend) (hbe : be.Exact) (cap : Nat) (buf : List Byte) (v₀ : ReqVal)
    (n : Nat) :
    (reqCore be Config.default cap buf v₀).status = .ok n ↔
      ∃ (pre mb sp₁ t sp₂ : List Byte) (v : Nat) (eol : List Byte) (lines : List HLine) (eol' rest : List Byte),
        IsRequestLine false pre mb sp₁ t sp₂ v eol ∧ (∀ l ∈ lines, l.ok) ∧ IsEol eol' ∧
        lines.length ≤ cap ∧
        buf = requestLineBytes pre mb sp₁ t sp₂ v eol ++ (lines.map HLine.bytes).flatten ++ eol' ++ rest ∧
        n = (requestLineBytes pre mb sp₁ t sp₂ v eol ++ (lines.map HLine.bytes).flatten ++ eol').length :=
  reqCore_default_iff be hbe cap buf v₀ n

/-- and then method/path/version/headers are exactly those of the decomposition -/
theorem c06_request_default_result (be : Backend) (hbe : be.Exact) (cap : Nat) (buf : List Byte) (v₀ : ReqVal)
    {pre mb sp₁ t sp₂ eol eol' rest : List Byte} {v : Nat} {lines : List HLine}
    (hl : IsRequestLine false pre mb sp₁ t sp₂ v eol) (hok : ∀ l ∈ lines, l.ok) (he : IsEol eol')
    (hcap : lines.length ≤ cap)
    (hbuf : buf = requestLineBytes pre mb sp₁ t sp₂ v eol ++ (lines.map HLine.bytes).flatten ++ eol' ++ rest) :
    (reqCore be Config.default cap buf v₀).val =
      ⟨some ⟨pre.length, mb⟩, some ⟨pre.length + mb.length + sp₁.length, t⟩, some v⟩ ∧
    (reqCore be Config.default cap buf v₀).hdrs =
      linesHeaders (requestLineBytes pre mb sp₁ t sp₂ v eol).length lines :=
  reqCore_default_result be hbe cap buf v₀ hl hok he hcap hbuf

/-- non-vacuity: a concrete request line in the grammar -/
example : IsRequestLine false [] [0x47, 0x45, 0x54] [SP] [0x2F] [SP] 1 [CR, LF] :=
  ⟨.nil, by decide, by decide, Or.inl rfl, by decide, by decide, by decide, Or.inl rfl, Or.inr rfl, Or.inl rfl⟩

end Hx
