/-
  C05 — Field hygiene: valid UTF-8, class-clean fields, no NUL or bare CR accepted.

  `chkC05 kind cfg buf obs` (Hx/Spec/Chk.lean), under every configuration: on Complete — method and
  header names non-empty tchar runs, path a non-empty valid-UTF-8 run of 0x21–0x7E/0x80–0xFF bytes,
  version 0 or 1, code < 1000 (three digits), reason only HTAB/SP/0x21–0x7E, every header value only
  HTAB/SP/0x21–0x7E/0x80–0xFF (with folding also CRLF or LF immediately followed by SP/HTAB) and
  neither starting nor ending with SP/HTAB, and the consumed head `buf[..n]` free of NUL and of CR
  not followed by LF; on every outcome each `&str` handed out is valid UTF-8.
  The judge evaluates the same `chkC05` on the bytes the real code hands back.
-/
import Hx.Obs
import Hx.Spec.Chk
import Hx.Lemmas.Hygiene
namespace Hx

theorem c05_request (be : Backend) (hbe : be.Exact) (cfg : Config) (cap : Nat) (buf : List Byte) :
    chkC05 .req cfg buf (reqObs be cfg cap buf) = true :=
  chkC05_reqObs be hbe cfg cap buf

theorem c05_response (be : Backend) (hbe : be.Exact) (cfg : Config) (cap : Nat) (buf : List Byte) :
    chkC05 .resp cfg buf (respObs be cfg cap buf) = true :=
  chkC05_respObs be hbe cfg cap buf

theorem c05_headers (be : Backend) (hbe : be.Exact) (cap : Nat) (buf : List Byte) :
    chkC05 .hdrs Config.default buf (hdrsObs be cap buf) = true :=
  chkC05_hdrsObs be hbe cap buf

/-- ASCII-only byte runs are valid UTF-8 (why tchar / reason `&str`s are sound) -/
theorem c05_ascii_utf8 (l : List Byte) (h : ∀ b ∈ l, b < 0x80) : validUtf8 l = true :=
  validUtf8_of_ascii l h

end Hx
