/-
  C13 — Results independent of backend, build profile, alignment and thread timing.

  (a) backend / profile: the whole observation of every entry point is the same for any two exact
      backends (C12 shows every concrete backend exact) and `parse_chunk_size` is the same in both
      profiles.  The model has no alignment input at all: every load in the crate is an unaligned
      load or a byte-array copy; `c13_core_sites` pins the complete list of profile/arch dependent
      constructs in the parser core (GENERATED from the source on every run).
  (b) cfg lattice (GENERATED from src/simd/mod.rs): for EVERY assignment of the cfg flags and
      architecture exactly one provider of the three scanner entry points is exported, and every
      module that provider refers to is compiled; the `runtime` provider (which needs `std`) is only
      selected when `build.rs` saw the `std` feature.
  (c) thread timing: for every number of threads and every schedule of their atomic steps on the
      feature cache, every thread that finishes obtains the detected feature `d`, and the cache only
      ever holds 0 or `d`.
-/
import Hx.Obs
import Hx.Build
import Hx.Scan.Dispatch
import Hx.Lemmas.Indep
import Hx.Props.C12
import Hx.Lemmas.Chunk
namespace Hx
open Hx.Gen.Cfg

theorem c13_backend_request (b₁ b₂ : Backend) (h₁ : b₁.Exact) (h₂ : b₂.Exact) (cfg : Config) (cap : Nat)
    (buf : List Byte) : reqObs b₁ cfg cap buf = reqObs b₂ cfg cap buf :=
  reqObs_backend_indep b₁ b₂ h₁ h₂ cfg cap buf

theorem c13_backend_response (b₁ b₂ : Backend) (h₁ : b₁.Exact) (h₂ : b₂.Exact) (cfg : Config) (cap : Nat)
    (buf : List Byte) : respObs b₁ cfg cap buf = respObs b₂ cfg cap buf :=
  respObs_backend_indep b₁ b₂ h₁ h₂ cfg cap buf

theorem c13_backend_headers (b₁ b₂ : Backend) (h₁ : b₁.Exact) (h₂ : b₂.Exact) (cap : Nat)
    (buf : List Byte) : hdrsObs b₁ cap buf = hdrsObs b₂ cap buf :=
  hdrsObs_backend_indep b₁ b₂ h₁ h₂ cap buf

theorem c13_allFlags_complete (f : Flags) : f ∈ allFlags := allFlags_complete f

/-- exactly one provider under every flag assignment, and its dependencies are compiled -/
theorem c13_lattice (f : Flags) :
    providerCount f = 1 ∧
    ∀ p ∈ providers, p.2 f = true →
      ∀ d ∈ (deps.lookup p.1).getD [], ∃ m ∈ modules, m.1 = d ∧ m.2 f = true :=
  lattice_ok f

/-- the provider that needs `std` (`runtime`) is selected only when build.rs saw the std feature -/
theorem c13_runtime_needs_std (e : Build.BuildEnv) (a : Arch) (h : use_runtime (Build.flags e a) = true) :
    e.stdFeature = true :=
  runtime_needs_std e a h

/-- thread timing -/
theorem c13_race (d : Nat) (hd : d ≠ 0) (n : Nat) (c₀ : Nat) (hc : c₀ = 0 ∨ c₀ = d) (sched : List Nat) :
    let s := Runtime.run d ⟨c₀, List.replicate n .start⟩ sched
    (s.cell = 0 ∨ s.cell = d) ∧ ∀ pc ∈ s.threads, ∀ f, pc = .done f → f = d :=
  race_ok d hd n c₀ hc sched

theorem c13_generated_ok : Gen.Cfg.sourceOk = true := by decide

/-- the complete list of profile/architecture dependent constructs of the parser core: the three
`cfg!(debug_assertions)` of `parse_chunk_size` (modelled by `dbg`, shown irrelevant by C09), the six
`debug_assert!`s of iter.rs (modelled as `Outcome.ub`, shown unreachable by C01), and the crate
attributes -/
theorem c13_core_sites : coreCfgSites =
    [("src/lib.rs", "attr", "not(feature = 'std'), no_std"), ("src/lib.rs", "attr", "test, deny(warnings)"),
     ("src/lib.rs", "attr", "feature = 'std'"), ("src/lib.rs", "cfg!", "debug_assertions"),
     ("src/lib.rs", "cfg!", "debug_assertions"), ("src/lib.rs", "cfg!", "debug_assertions"),
     ("src/iter.rs", "debug_assert", ""), ("src/iter.rs", "debug_assert", ""), ("src/iter.rs", "debug_assert", ""),
     ("src/iter.rs", "debug_assert", ""), ("src/iter.rs", "debug_assert", ""), ("src/iter.rs", "debug_assert", "")] := by
  decide

example : use_runtime ⟨true, false, false, true, Arch.x86_64⟩ = true := by decide


/-- with C12: the observation is the same under ANY two concrete backends (SWAR 32/64-bit LE/BE, SSE4.2,
AVX2, NEON, runtime dispatch with any cached value) -/
theorem c13_concrete_request {b₁ b₂ : Backend} (h₁ : ConcreteBackend b₁) (h₂ : ConcreteBackend b₂)
    (cfg : Config) (cap : Nat) (buf : List Byte) : reqObs b₁ cfg cap buf = reqObs b₂ cfg cap buf :=
  c13_backend_request b₁ b₂ (c12_concrete_exact h₁) (c12_concrete_exact h₂) cfg cap buf

theorem c13_concrete_response {b₁ b₂ : Backend} (h₁ : ConcreteBackend b₁) (h₂ : ConcreteBackend b₂)
    (cfg : Config) (cap : Nat) (buf : List Byte) : respObs b₁ cfg cap buf = respObs b₂ cfg cap buf :=
  c13_backend_response b₁ b₂ (c12_concrete_exact h₁) (c12_concrete_exact h₂) cfg cap buf

theorem c13_concrete_headers {b₁ b₂ : Backend} (h₁ : ConcreteBackend b₁) (h₂ : ConcreteBackend b₂)
    (cap : Nat) (buf : List Byte) : hdrsObs b₁ cap buf = hdrsObs b₂ cap buf :=
  c13_backend_headers b₁ b₂ (c12_concrete_exact h₁) (c12_concrete_exact h₂) cap buf

/-- and `parse_chunk_size` is the same in debug and release builds (C09) -/
theorem c13_chunk_profile (buf : List Byte) : parseChunkSize true buf = parseChunkSize false buf :=
  chunk_profile buf

end Hx
