/-
  C18 — History independence: reusing a Request/Response never changes the outcome.

  A history is a list of earlier calls (any configurations, any buffers, any outcomes) through the
  initialised-array entry point on ONE value and ONE array; `runHistReq` threads the value fields,
  the current length of `headers` and the array through them.

  * `c18_request_core` / `c18_response_core`: status and headers written never depend on the previous
    field values, and on Complete neither do the fields.
  * `c18_request_history` / `c18_response_history`: for every history and every probe call, `chkC18`
    holds between the probe on the reused value and the probe on a fresh value whose array has the
    length the reused value's `headers` had — the very predicate the judge evaluates on real runs.
-/
import Hx.Obs
import Hx.Spec.Chk
import Hx.Lemmas.Wrappers
namespace Hx

/- `Call`, `Reused`, `runHistReq`, `runHistResp`, `probeReq`, `probeResp` are defined in
   `Hx.Lemmas.WrapBasic` (moved there verbatim: `runHistReq_view_le` is stated about them). -/

theorem c18_request_core (be : Backend) (cfg : Config) (cap : Nat) (buf : List Byte) (v : ReqVal) :
    let r := reqCore be cfg cap buf v
    let f := reqCore be cfg cap buf ReqVal.fresh
    r.status = f.status ∧ r.hdrs = f.hdrs ∧ (∀ n, f.status = .ok n → r.val = f.val) :=
  reqCore_history_free be cfg cap buf v

theorem c18_response_core (be : Backend) (cfg : Config) (cap : Nat) (buf : List Byte) (v : RespVal) :
    let r := respCore be cfg cap buf v
    let f := respCore be cfg cap buf RespVal.fresh
    r.status = f.status ∧ r.hdrs = f.hdrs ∧ (∀ n, f.status = .ok n → r.val = f.val) :=
  respCore_history_free be cfg cap buf v

theorem c18_request_history (be : Backend) (cap : Nat) (hist : List Call) (cfg : Config) (buf : List Byte) :
    let s := runHistReq be ⟨⟨ReqVal.fresh, cap⟩, sentinels 0 cap⟩ hist
    chkC18 (probeReq be cfg buf s)
           (probeReq be cfg buf ⟨⟨ReqVal.fresh, s.h.viewLen⟩, sentinels 0 s.h.viewLen⟩) = true :=
  by
    intro s
    exact probe_history_free_req be cfg buf s.h.val s.h.viewLen s.arr

theorem c18_response_history (be : Backend) (cap : Nat) (hist : List Call) (cfg : Config) (buf : List Byte) :
    let s := runHistResp be ⟨⟨RespVal.fresh, cap⟩, sentinels 0 cap⟩ hist
    chkC18 (probeResp be cfg buf s)
           (probeResp be cfg buf ⟨⟨RespVal.fresh, s.h.viewLen⟩, sentinels 0 s.h.viewLen⟩) = true :=
  by
    intro s
    exact probe_history_free_resp be cfg buf s.h.val s.h.viewLen s.arr

/-- the view never grows along a history (so every reachable `headers` is a prefix of the array) -/
theorem c18_view_shrinks (be : Backend) (s : Reused ReqVal) (hist : List Call) :
    (runHistReq be s hist).h.viewLen ≤ s.h.viewLen :=
  runHistReq_view_le be s hist

end Hx
