/-
  C20 — Linear work: the parser moves strictly forward through the buffer.

  The model has no way to move backwards: every operation's remaining input is a suffix of the
  previous one (`Fwd`, proved for every stage in Hx/Lemmas/FwdAll.lean).  Hence the total distance
  travelled by the cursor equals its final offset, which on Complete is the reported `n`, and is at
  most the buffer length.  The judge compares the real code's travel counter (hook in
  `Bytes::advance`) with exactly these bounds (`chkC20`).
-/
import Hx.Obs
import Hx.Spec.Chk
import Hx.Lemmas.FwdAll
namespace Hx

/-- Complete(n): `n` is the final cursor offset and lies inside the buffer -/
theorem c20_request_n_le (be : Backend) (hbe : be.Exact) (cfg : Config) (cap : Nat) (buf : List Byte)
    (v : ReqVal) (n : Nat) (h : (reqCore be cfg cap buf v).status = .ok n) : n ≤ buf.length :=
  reqCore_n_le be hbe cfg cap buf v n h

theorem c20_response_n_le (be : Backend) (hbe : be.Exact) (cfg : Config) (cap : Nat) (buf : List Byte)
    (v : RespVal) (n : Nat) (h : (respCore be cfg cap buf v).status = .ok n) : n ≤ buf.length :=
  respCore_n_le be hbe cfg cap buf v n h

theorem c20_headers_n_le (be : Backend) (hbe : be.Exact) (cap : Nat) (buf : List Byte)
    (n : Nat) (h : (parseHeaders be cap buf).1 = .ok n) : n ≤ buf.length :=
  parseHeaders_n_le be hbe cap buf n h

theorem c20_chunk_n_le (dbg : Bool) (buf : List Byte) (n size : Nat)
    (h : parseChunkSize dbg buf = .ok (n, size)) : n ≤ buf.length :=
  parseChunkSize_n_le dbg buf n size h

/-- one iteration of the header loop consumes at least one byte and never moves back -/
theorem c20_header_line_progress (be : Backend) (hbe : be.Exact) (hc : HCfg) (k : Nat) (buf : List Byte)
    (c c' : Cur) (l : Line) (hw : c.Wf buf) (h : (headerLine be hc k).run c = .ok (l, c')) :
    c'.Wf buf ∧ c.pos < c'.pos :=
  headerLine_progress be hbe hc k buf c c' l hw h

/-- the scanners used by the model advance by at most what remains (no re-reading: each scanner
call is followed by a consuming `next!`) -/
theorem c20_chk_model (be : Backend) (hbe : be.Exact) (cfg : Config) (cap : Nat) (buf : List Byte) (n : Nat)
    (h : (reqObs be cfg cap buf).st = .c n) : chkC20 buf.length (reqObs be cfg cap buf).st n = true :=
  chkC20_reqObs be hbe cfg cap buf n h

end Hx
