/-
  C08 — Header block (default config): exact lines in, exact name/value pairs out.

  `IsHeaderLine name ows₁ value ows₂ eol`: `name ':' OWS value OWS EOL` with name = tchar+, value a
  possibly empty run of HTAB/SP/0x21–0x7E/0x80–0xFF bytes not starting or ending with SP/HTAB.

  * `c08_accept_iff`: `parse_headers` completes with `(n, hs)` ⇔ the buffer is a sequence of at most
    `cap` such lines followed by an empty line (CRLF or LF); `n` is the length consumed and `hs` is,
    in order, one header per line with name exactly the bytes before the colon and value exactly
    the bytes after it without the surrounding SP/HTAB — nothing dropped, merged, split, reordered.
  * `c08_block_default`: the same for the header part of requests/responses under the default
    header options, at any offset (`BlockSpec` with `HCfg.default`), with `k ≤ cap` headers stored
    before.
  * `c08_lines_unique`: the decomposition into lines is unique.
-/
import Hx.Spec.Grammar
import Hx.Lemmas.BlockGrammar
namespace Hx

theorem c08_accept_iff (be : Backend) (hbe : be.Exact) (cap : Nat) (buf : List Byte) (n : Nat) (hs : List Hdr) :
    parseHeaders be cap buf = (.ok n, hs) ↔
      ∃ (lines : List HLine) (eol rest : List Byte), (∀ l ∈ lines, l.ok) ∧ IsEol eol ∧
        buf = (lines.map HLine.bytes).flatten ++ eol ++ rest ∧ lines.length ≤ cap ∧
        n = ((lines.map HLine.bytes).flatten ++ eol).length ∧ hs = linesHeaders 0 lines :=
  parseHeaders_iff be hbe cap buf n hs

theorem c08_block_default (cap off k : Nat) (input : List Byte) (n : Nat) (hs : List Hdr) (hk : k ≤ cap) :
    BlockSpec HCfg.default cap off k input n hs ↔
      ∃ (lines : List HLine) (eol rest : List Byte), (∀ l ∈ lines, l.ok) ∧ IsEol eol ∧
        input = (lines.map HLine.bytes).flatten ++ eol ++ rest ∧ k + lines.length ≤ cap ∧
        n = ((lines.map HLine.bytes).flatten ++ eol).length ∧ hs = linesHeaders off lines :=
  blockSpec_default_iff cap off k input n hs hk

theorem c08_lines_unique {lines lines' : List HLine} {eol eol' rest rest' : List Byte}
    (h : ∀ l ∈ lines, l.ok) (h' : ∀ l ∈ lines', l.ok) (he : IsEol eol) (he' : IsEol eol')
    (e : (lines.map HLine.bytes).flatten ++ eol ++ rest = (lines'.map HLine.bytes).flatten ++ eol' ++ rest') :
    lines.map (fun l => (l.name, l.value)) = lines'.map (fun l => (l.name, l.value)) ∧
    ((lines.map HLine.bytes).flatten ++ eol).length = ((lines'.map HLine.bytes).flatten ++ eol').length :=
  headerLines_unique h h' he he' e

/-- non-vacuity: `Host: a \r\n` -/
example : HLine.ok ⟨[0x48, 0x6F, 0x73, 0x74], [SP], [0x61], [SP], [CR, LF]⟩ :=
  ⟨by decide, by decide, by unfold AllWs; decide, by decide, by decide, by decide, by unfold AllWs; decide, by simp,
    Or.inl rfl⟩

end Hx
