/-
  C09 — Chunk size: exact value, no overflow, exact accepted language.

  `parseChunkSize dbg buf` is the model of `httparse::parse_chunk_size` (Hx/Parse/Chunk.lean),
  `dbg` = `cfg!(debug_assertions)`.  Theorems:

  * `c09_complete_iff`  acceptance ⇔ the declarative grammar; `n` = offset just past the first
                        CRLF, `size` = exact value of the digits (in ℕ, hence never wrapped).
  * `c09_size_lt`       the reported size is `< 2^64` — it fits `u64` without wrapping.
  * `c09_profile`       the result is the same in debug and release builds.
  * `c09_no_ub`         no overflow panic / wrap is reachable.
  * `c09_err_iff`       Err ⇔ some prefix is a viable *proper* prefix of a chunk line while the next byte
                        makes it non-viable (17th digit, no digit, non-hex before the extension,
                        digit after whitespace, CR not followed by LF, bare LF outside the ext).
  * `c09_partial_iff`   Partial ⇔ the whole buffer is a viable proper prefix.
-/
import Hx.Parse.Chunk
import Hx.Spec.ChunkSpec
import Hx.Spec.Framing
import Hx.Lemmas.Chunk
namespace Hx

theorem c09_complete_iff (dbg : Bool) (buf : List Byte) (n size : Nat) :
    parseChunkSize dbg buf = .ok (n, size) ↔
      ∃ digits ws ext rest, buf = digits ++ ws ++ ext ++ CR :: LF :: rest ∧ IsChunkLine digits ws ext ∧
        n = digits.length + ws.length + ext.length + 2 ∧ size = hexVal digits :=
  chunk_complete_iff dbg buf n size

theorem c09_size_lt (dbg : Bool) (buf : List Byte) (n size : Nat)
    (h : parseChunkSize dbg buf = .ok (n, size)) : size < 2 ^ 64 :=
  chunk_size_lt dbg buf n size h

theorem c09_profile (buf : List Byte) : parseChunkSize true buf = parseChunkSize false buf :=
  chunk_profile buf

theorem c09_no_ub (dbg : Bool) (buf : List Byte) (u : UB) : parseChunkSize dbg buf ≠ .ub u :=
  chunk_no_ub dbg buf u

/-- `p` must be a *proper* viable prefix (`tail ≠ []`, the same shape as in `c09_partial_iff`):
with plain `ChunkViable p` the right-hand side also holds for an accepted buffer with trailing
bytes, e.g. `"0\r\nX"` with `p = "0\r\n"`, `b = 'X'`
(`chunk_err_iff_unrestricted_false` in `Hx/Lemmas/Chunk.lean`). -/
theorem c09_err_iff (dbg : Bool) (buf : List Byte) :
    (∃ e, parseChunkSize dbg buf = .err e) ↔
      ∃ p b t, buf = p ++ b :: t ∧
        (∃ digits ws ext tail, IsChunkLine digits ws ext ∧ tail ≠ [] ∧
          p ++ tail = digits ++ ws ++ ext ++ [CR, LF]) ∧
        ¬ ChunkViable (p ++ [b]) :=
  chunk_err_iff dbg buf

theorem c09_err_kind (dbg : Bool) (buf : List Byte) (e : Error)
    (h : parseChunkSize dbg buf = .err e) : e = .chunkSize :=
  chunk_err_kind dbg buf e h

theorem c09_partial_iff (dbg : Bool) (buf : List Byte) :
    parseChunkSize dbg buf = .part ↔
      ∃ digits ws ext tail, IsChunkLine digits ws ext ∧ tail ≠ [] ∧
        buf ++ tail = digits ++ ws ++ ext ++ [CR, LF] :=
  chunk_partial_iff dbg buf

/-- `n` is the offset just past the first CRLF (framing clause of C03 for chunk sizes). -/
theorem c09_first_crlf (dbg : Bool) (buf : List Byte) (n size : Nat)
    (h : parseChunkSize dbg buf = .ok (n, size)) : firstCrlf buf = some n :=
  chunk_first_crlf dbg buf n size h

/-! non-vacuity: concrete accepted / rejected / partial inputs -/
example : parseChunkSize false [0x31, 0x61, 0x46, 0x20, 0x3B, 0x78, 0x0D, 0x0A, 0x7A] = .ok (8, 431) := by decide
example : parseChunkSize true [0x0D, 0x0A] = .err .chunkSize := by decide
example : parseChunkSize true [0x46, 0x46] = .part := by decide
example : IsChunkLine [0x31, 0x61, 0x46] [0x20] [0x3B, 0x78] :=
  ⟨by decide, by decide, by decide, by decide, Or.inr ⟨[0x78], rfl, by decide⟩⟩

end Hx
