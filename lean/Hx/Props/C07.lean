/-
  C07 — Status line: accepted language and reported version/code/reason.

  `IsStatusLine multi pre v sp₁ d₁ d₂ d₃ tail reasonOff reason` (Hx/Spec/Grammar.lean): leading empty
  lines, `HTTP/1.0|1`, one SP (a run with the multi-space option), three digits, then either a
  line end or SP [SP* with the option] reason-bytes (HTAB / SP / 0x21–0x7E / 0x80–0xFF) line end.

  * `c07_line_iff`: the status-line stages complete ⇔ the buffer starts with such a line; version =
    the digit, code = decimal value of the three digits, reason = the bytes after the delimiter, or
    the static empty string when absent or containing a byte ≥ 0x80; cursor right after the line.
  * `c07_core`: `respCore` is those stages followed by the header block.
  * `c07_line_unique`: the decomposition is unique.
  * `c07_accept_iff` / `c07_accept_fields`: a response is accepted ⇔ status line ⧺ a header block of
    the block grammar.
  * `c07_response_default_iff` / `c07_response_default_result`: under the default configuration the
    block is a list of at most `cap` header lines of the default grammar (`HLine.ok`, C08) and an
    empty line; the fields and headers are those of the decomposition.
-/
import Hx.Spec.Grammar
import Hx.Parse.Lines
import Hx.Lemmas.StartGrammar
import Hx.Lemmas.BlockGrammar
import Hx.Lemmas.WholeMessage
import Hx.Lemmas.EndToEnd
namespace Hx

theorem c07_line_iff (multi : Bool) (buf : List Byte) (v code : Nat) (r : Str) (c : Cur) :
    (respLineP multi).run (Cur.new buf) = .ok ((v, code, r), c) ↔
      ∃ pre sp₁ d₁ d₂ d₃ tail reasonOff reason rest,
        IsStatusLine multi pre v sp₁ d₁ d₂ d₃ tail reasonOff reason ∧
        buf = statusLineBytes pre v sp₁ d₁ d₂ d₃ tail ++ rest ∧
        code = codeValue d₁ d₂ d₃ ∧
        r = reportedReason (pre.length + 8 + sp₁.length + 3 + reasonOff) reason ∧
        c = ⟨(statusLineBytes pre v sp₁ d₁ d₂ d₃ tail).length, [], rest⟩ :=
  respLine_iff multi buf v code r c

theorem c07_core (be : Backend) (cfg : Config) (cap : Nat) (buf : List Byte) (v₀ : RespVal) :
    (∀ v code r c, (respLineP cfg.multiResp).run (Cur.new buf) = .ok ((v, code, r), c) →
        respCore be cfg cap buf v₀ = finishHeaders be cfg.respH cap buf c ⟨some v, some code, some r⟩) ∧
    (∀ e, (respLineP cfg.multiResp).run (Cur.new buf) = .err e → (respCore be cfg cap buf v₀).status = .err e) ∧
    ((respLineP cfg.multiResp).run (Cur.new buf) = .part → (respCore be cfg cap buf v₀).status = .part) :=
  respCore_via_line be cfg cap buf v₀

theorem c07_code_lt (d₁ d₂ d₃ : Byte) (h₁ : isDigit d₁ = true) (h₂ : isDigit d₂ = true) (h₃ : isDigit d₃ = true) :
    codeValue d₁ d₂ d₃ < 1000 :=
  codeValue_lt d₁ d₂ d₃ h₁ h₂ h₃

theorem c07_line_unique (multi : Bool) {pre sp₁ tail rest pre' sp₁' tail' rest' : List Byte} {v v' ro ro' : Nat}
    {d₁ d₂ d₃ d₁' d₂' d₃' : Byte} {reason reason' : Option (List Byte)}
    (h : IsStatusLine multi pre v sp₁ d₁ d₂ d₃ tail ro reason)
    (h' : IsStatusLine multi pre' v' sp₁' d₁' d₂' d₃' tail' ro' reason')
    (e : statusLineBytes pre v sp₁ d₁ d₂ d₃ tail ++ rest = statusLineBytes pre' v' sp₁' d₁' d₂' d₃' tail' ++ rest') :
    pre = pre' ∧ v = v' ∧ sp₁ = sp₁' ∧ d₁ = d₁' ∧ d₂ = d₂' ∧ d₃ = d₃' ∧ tail = tail' ∧ ro = ro' ∧ reason = reason' ∧ rest = rest' :=
  statusLine_unique multi h h' e

/-- a response is accepted ⇔ status line ⧺ a header block of the block grammar -/
theorem c07_accept_iff (be : Backend) (hbe : be.Exact) (cfg : Config) (cap : Nat) (buf : List Byte)
    (v₀ : RespVal) (n : Nat) :
    (respCore be cfg cap buf v₀).status = .ok n ↔
      ∃ pre v sp₁ d₁ d₂ d₃ tail ro reason hb k hs, IsStatusLine cfg.multiResp pre v sp₁ d₁ d₂ d₃ tail ro reason ∧
        buf = statusLineBytes pre v sp₁ d₁ d₂ d₃ tail ++ hb ∧
        BlockSpec cfg.respH cap (statusLineBytes pre v sp₁ d₁ d₂ d₃ tail).length 0 hb k hs ∧
        n = (statusLineBytes pre v sp₁ d₁ d₂ d₃ tail).length + k :=
  respCore_ok_iff be hbe cfg cap buf v₀ n

theorem c07_accept_fields (be : Backend) (hbe : be.Exact) (cfg : Config) (cap : Nat) (buf : List Byte)
    (v₀ : RespVal) {pre sp₁ tail hb : List Byte} {v ro k : Nat} {d₁ d₂ d₃ : Byte} {reason : Option (List Byte)} {hs : List Hdr}
    (hl : IsStatusLine cfg.multiResp pre v sp₁ d₁ d₂ d₃ tail ro reason)
    (hb' : buf = statusLineBytes pre v sp₁ d₁ d₂ d₃ tail ++ hb)
    (hblk : BlockSpec cfg.respH cap (statusLineBytes pre v sp₁ d₁ d₂ d₃ tail).length 0 hb k hs) :
    (respCore be cfg cap buf v₀).hdrs = hs ∧
    (respCore be cfg cap buf v₀).val =
      ⟨some v, some (codeValue d₁ d₂ d₃), some (reportedReason (pre.length + 8 + sp₁.length + 3 + ro) reason)⟩ :=
  respCore_ok_fields be hbe cfg cap buf v₀ hl hb' hblk

/-- default configuration, whole response: accepted ⇔ status line of the grammar, then at most `cap`
header lines of the default grammar, then an empty line; `n` is the total length -/
theorem c07_response_default_iff (be : Backend) (hbe : be.Exact) (cap : Nat) (buf : List Byte) (v₀ : RespVal)
    (n : Nat) :
    (respCore be Config.default cap buf v₀).status = .ok n ↔
      ∃ (pre : List Byte) (v : Nat) (sp₁ : List Byte) (d₁ d₂ d₃ : Byte) (tail : List Byte) (ro : Nat)
        (reason : Option (List Byte)) (lines : List HLine) (eol' rest : List Byte),
        IsStatusLine false pre v sp₁ d₁ d₂ d₃ tail ro reason ∧ (∀ l ∈ lines, l.ok) ∧ IsEol eol' ∧
        lines.length ≤ cap ∧
        buf = statusLineBytes pre v sp₁ d₁ d₂ d₃ tail ++ (lines.map HLine.bytes).flatten ++ eol' ++ rest ∧
        n = (statusLineBytes pre v sp₁ d₁ d₂ d₃ tail ++ (lines.map HLine.bytes).flatten ++ eol').length :=
  respCore_default_iff be hbe cap buf v₀ n

/-- and then version/code/reason/headers are exactly those of the decomposition -/
theorem c07_response_default_result (be : Backend) (hbe : be.Exact) (cap : Nat) (buf : List Byte) (v₀ : RespVal)
    {pre sp₁ tail eol' rest : List Byte} {v ro : Nat} {d₁ d₂ d₃ : Byte} {reason : Option (List Byte)}
    {lines : List HLine}
    (hl : IsStatusLine false pre v sp₁ d₁ d₂ d₃ tail ro reason) (hok : ∀ l ∈ lines, l.ok) (he : IsEol eol')
    (hcap : lines.length ≤ cap)
    (hbuf : buf = statusLineBytes pre v sp₁ d₁ d₂ d₃ tail ++ (lines.map HLine.bytes).flatten ++ eol' ++ rest) :
    (respCore be Config.default cap buf v₀).val =
      ⟨some v, some (codeValue d₁ d₂ d₃), some (reportedReason (pre.length + 8 + sp₁.length + 3 + ro) reason)⟩ ∧
    (respCore be Config.default cap buf v₀).hdrs =
      linesHeaders (statusLineBytes pre v sp₁ d₁ d₂ d₃ tail).length lines :=
  respCore_default_result be hbe cap buf v₀ hl hok he hcap hbuf

/-- non-vacuity: `HTTP/1.1 200 OK\r\n` -/
example : IsStatusLine false [] 1 [SP] 0x32 0x30 0x30 (SP :: [] ++ [0x4F, 0x4B] ++ [CR, LF]) 1 (some [0x4F, 0x4B]) :=
  ⟨.nil, Or.inr rfl, Or.inl rfl, by decide, by decide, by decide,
   .reason (by simp) (by simp) (by simp) (by decide) (Or.inl rfl)⟩

end Hx
