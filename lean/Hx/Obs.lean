/-
  Hx.Obs — the canonical observation of one parse call (DESIGN §2.4), as a structure.
  The model's results are converted to it (`ofReq`, `ofResp`, …); the driver parses the
  harness's text into the same structure; the `chk…` predicates of `Hx.Spec.Chk` and the
  property theorems speak about this structure.
-/
import Hx.Parse.Entry
namespace Hx

/-- status of a call -/
inductive St where
  | c (n : Nat)        -- Ok(Complete(n))
  | p                  -- Ok(Partial)
  | e (k : Error)      -- Err(k)
  | crash              -- panic / signal / hang (real code), `Outcome.ub` (model)
  deriving DecidableEq, Repr, Inhabited

def St.ofOutcome : Outcome Nat → St
  | .ok n => .c n | .part => .p | .err k => .e k | .ub _ => .crash

def St.kind : St → Nat | .c _ => 0 | .p => 1 | .e _ => 2 | .crash => 3
def St.isC : St → Bool | .c _ => true | _ => false
def St.isP : St → Bool | .p => true | _ => false
def St.isE : St → Bool | .e _ => true | _ => false

/-- an `Option<&[u8]>`/`Option<&str>` as observed: absent, zero-length (address irrelevant),
a non-empty sub-slice of the buffer, or a non-empty slice outside the buffer -/
inductive Sp where
  | none
  | empty
  | at (off len : Nat)
  | ext
  deriving DecidableEq, Repr, Inhabited

def Sp.ofSlice (s : Slice) : Sp := if s.bytes.isEmpty then .empty else .at s.off s.bytes.length
def Sp.ofStr : Str → Sp | .slice s => Sp.ofSlice s | .staticEmpty => .empty
def Sp.ofOptSlice : Option Slice → Sp | some s => Sp.ofSlice s | .none => .none
def Sp.ofOptStr : Option Str → Sp | some s => Sp.ofStr s | .none => .none

/-- the bytes a span denotes in `buf` (`none` when absent/ext/out of range) -/
def Sp.bytes (buf : List Byte) : Sp → Option (List Byte)
  | .none => Option.none
  | .empty => some []
  | .at off len => if off + len ≤ buf.length then some ((buf.drop off).take len) else Option.none
  | .ext => Option.none

structure HdrO where
  name : Sp
  value : Sp
  deriving DecidableEq, Repr, Inhabited

def HdrO.ofHdr (h : Hdr) : HdrO := ⟨Sp.ofSlice h.name, Sp.ofSlice h.value⟩

inductive SlotO where
  | sent (k : Nat)       -- the k-th sentinel (previous content)
  | hdr (h : HdrO)       -- a header pointing into the buffer
  | unknown
  deriving DecidableEq, Repr, Inhabited

def SlotO.ofSlot : Slot → SlotO
  | .old i => .sent i | .hdr h => .hdr (HdrO.ofHdr h) | .uninit => .unknown

/-- where `headers` points after the call: into the initialised array `A` at a slot offset, into
the uninit array `U`, zero-length, or elsewhere -/
inductive ViewAt where
  | a (off : Nat) | u (off : Nat) | e | x
  deriving DecidableEq, Repr, Inhabited

/-- observation of one request / response / parse_headers call -/
structure Obs where
  st : St
  /-- request: method, path; response: reason; headers: none -/
  spans : List Sp
  /-- request: version; response: version, code -/
  nums : List (Option Nat)
  viewLen : Nat
  viewAt : ViewAt
  /-- exposed headers (Complete only) -/
  hdrs : List HdrO
  arrA : List SlotO
  arrU : List SlotO
  deriving DecidableEq, Repr, Inhabited

def sentinels (base n : Nat) : Arr := (List.range n).map fun k => Slot.old (base + k)

/-- Observation the model predicts for `ParserConfig::parse_request` (and `Request::parse`) on a
fresh value over an array of `cap` sentinels. -/
def Obs.ofCall {V : Type} (spans : V → List Sp) (nums : V → List (Option Nat))
    (r : CallRes V) (isInit : Bool) (other : Arr) : Obs :=
  let st := St.ofOutcome r.status
  { st := st
    spans := spans r.val
    nums := nums r.val
    viewLen := r.viewLen
    viewAt := if r.viewLen == 0 then .e else if isInit || !st.isC then .a 0 else .u 0
    hdrs := if st.isC then (r.arr.take r.viewLen).map SlotO.ofSlot |>.filterMap (fun s => match s with | .hdr h => some h | _ => none) else []
    arrA := if isInit then r.arr.map SlotO.ofSlot else other.map SlotO.ofSlot
    arrU := if isInit then other.map SlotO.ofSlot else r.arr.map SlotO.ofSlot }

def ReqVal.spans (v : ReqVal) : List Sp := [Sp.ofOptSlice v.method, Sp.ofOptSlice v.path]
def ReqVal.nums (v : ReqVal) : List (Option Nat) := [v.version]
def RespVal.spans (v : RespVal) : List Sp := [Sp.ofOptStr v.reason]
def RespVal.nums (v : RespVal) : List (Option Nat) := [v.version, v.code]

/-- `ParserConfig::parse_request` on a fresh `Request` over `acap` sentinels -/
def reqObs (be : Backend) (cfg : Config) (cap : Nat) (buf : List Byte) : Obs :=
  Obs.ofCall ReqVal.spans ReqVal.nums
    (callInit (fun n v => reqCore be cfg n buf v) ⟨ReqVal.fresh, cap⟩ (sentinels 0 cap)) true []

/-- `ParserConfig::parse_request_with_uninit_headers` on a fresh `Request` over `acap` sentinels,
parsing into a separate array of `ucap` slots -/
def reqObsU (be : Backend) (cfg : Config) (acap ucap : Nat) (buf : List Byte) : Obs :=
  Obs.ofCall ReqVal.spans ReqVal.nums
    (callUninit (fun n v => reqCore be cfg n buf v) ⟨ReqVal.fresh, acap⟩ ucap (sentinels 1000 ucap))
    false (sentinels 0 acap)

def respObs (be : Backend) (cfg : Config) (cap : Nat) (buf : List Byte) : Obs :=
  Obs.ofCall RespVal.spans RespVal.nums
    (callInit (fun n v => respCore be cfg n buf v) ⟨RespVal.fresh, cap⟩ (sentinels 0 cap)) true []

def respObsU (be : Backend) (cfg : Config) (acap ucap : Nat) (buf : List Byte) : Obs :=
  Obs.ofCall RespVal.spans RespVal.nums
    (callUninit (fun n v => respCore be cfg n buf v) ⟨RespVal.fresh, acap⟩ ucap (sentinels 1000 ucap))
    false (sentinels 0 acap)

/-- `parse_headers(buf, dst)` with `dst` = `cap` sentinels -/
def hdrsObs (be : Backend) (cap : Nat) (buf : List Byte) : Obs :=
  let (o, hs) := parseHeaders be cap buf
  let st := St.ofOutcome o
  let vl := if st.isC then hs.length else cap
  { st := st, spans := [], nums := [], viewLen := vl, viewAt := if vl == 0 then .e else .a 0
    hdrs := if st.isC then hs.map HdrO.ofHdr else []
    arrA := (Arr.write (sentinels 0 cap) hs).map SlotO.ofSlot
    arrU := [] }

/-- observation of `parse_chunk_size`: status and, on Complete, the size -/
structure ChunkObs where
  st : St
  size : Nat
  deriving DecidableEq, Repr, Inhabited

def chunkObs (dbg : Bool) (buf : List Byte) : ChunkObs :=
  match parseChunkSize dbg buf with
  | .ok (n, size) => ⟨.c n, size⟩
  | .part => ⟨.p, 0⟩
  | .err k => ⟨.e k, 0⟩
  | .ub _ => ⟨.crash, 0⟩

/-! ### Text form (the same as the harness prints) -/

def Error.name : Error → String
  | .headerName => "HeaderName" | .headerValue => "HeaderValue" | .newLine => "NewLine"
  | .status => "Status" | .token => "Token" | .tooManyHeaders => "TooManyHeaders"
  | .version => "Version" | .chunkSize => "ChunkSize"

def Error.ofName? : String → Option Error
  | "HeaderName" => some .headerName | "HeaderValue" => some .headerValue
  | "NewLine" => some .newLine | "Status" => some .status | "Token" => some .token
  | "TooManyHeaders" => some .tooManyHeaders | "Version" => some .version
  | "ChunkSize" => some .chunkSize | _ => none

def St.text : St → String
  | .c n => s!"C:{n}" | .p => "P" | .e k => s!"E:{k.name}" | .crash => "CRASH"

def Sp.text : Sp → String
  | .none => "-" | .empty => "e" | .at o l => s!"{o}+{l}" | .ext => "x"

def HdrO.text (h : HdrO) : String := s!"{h.name.text}:{h.value.text}"

def SlotO.text : SlotO → String
  | .sent k => s!"s{k}" | .hdr h => h.text | .unknown => "?"

def listText {α : Type} (f : α → String) (l : List α) : String :=
  if l.isEmpty then "-" else ",".intercalate (l.map f)

def ViewAt.text : ViewAt → String
  | .a o => s!"A{o}" | .u o => s!"U{o}" | .e => "e" | .x => "x"

def optNatText : Option Nat → String | some n => toString n | none => "-"

/-- request observation text: `C:36 m=0+3 p=4+2 v=1 view=2@A0 h=… A=… U=…` -/
def Obs.reqText (o : Obs) : String :=
  s!"{o.st.text} m={(o.spans.getD 0 .none).text} p={(o.spans.getD 1 .none).text} v={optNatText ((o.nums.getD 0 none))} view={o.viewLen}@{o.viewAt.text} h={listText HdrO.text o.hdrs} A={listText SlotO.text o.arrA} U={listText SlotO.text o.arrU}"

def Obs.respText (o : Obs) : String :=
  s!"{o.st.text} v={optNatText ((o.nums.getD 0 none))} c={optNatText ((o.nums.getD 1 none))} r={(o.spans.getD 0 .none).text} view={o.viewLen}@{o.viewAt.text} h={listText HdrO.text o.hdrs} A={listText SlotO.text o.arrA} U={listText SlotO.text o.arrU}"

def Obs.hdrsText (o : Obs) : String :=
  s!"{o.st.text} h={listText HdrO.text o.hdrs} A={listText SlotO.text o.arrA}"

def ChunkObs.text (o : ChunkObs) : String :=
  match o.st with
  | .c n => s!"C:{n}:{o.size}"
  | s => s.text

end Hx
