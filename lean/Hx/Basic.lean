/-
  Hx.Basic — bytes, byte classes (written from the RFC ranges, not from the Rust tables),
  errors, outcomes.  Import-free (core Lean only) so the driver links as a `lean_exe`.
-/
namespace Hx

abbrev Byte := UInt8

/-- The seven error kinds of `httparse::Error`, plus `chunkSize` standing for the separate
unit struct `httparse::InvalidChunkSize` (only `parse_chunk_size` produces it). -/
inductive Error where
  | headerName | headerValue | newLine | status | token | tooManyHeaders | version | chunkSize
  deriving DecidableEq, Repr, Inhabited

/-- Every way the Rust code could leave defined behaviour (or panic).  `C01` proves none is
reachable.  Each constructor names the Rust precondition that would be violated. -/
inductive UB where
  | advance        -- `Bytes::advance(n)` with `n > len()`
  | peekAhead      -- `Bytes::peek_ahead(n)` with `n > len()`
  | sliceSkip      -- `Bytes::slice_skip(k)` with `k > cursor - start`
  | simdLoad       -- 16/32-byte vector load with fewer bytes left
  | scanOverrun    -- a scanner reports more bytes than were present
  | unreachable    -- `unreachable!()` in `offsetnz`
  | overflow       -- integer overflow (panic in debug, wrap in release)
  | slotIndex      -- `get_unchecked_mut(..k)` with `k > len`
  | fuel           -- a loop failed to make progress (non-termination)
  deriving DecidableEq, Repr, Inhabited

/-- Result of a parsing step: `ok` = `Ok(Status::Complete(_))`, `part` = `Ok(Status::Partial)`,
`err` = `Err(_)`, `ub` = undefined behaviour / panic. -/
inductive Outcome (α : Type) where
  | ok (a : α)
  | part
  | err (e : Error)
  | ub (u : UB)
  deriving Repr, DecidableEq

namespace Outcome
def map {α β : Type} (f : α → β) : Outcome α → Outcome β
  | ok a => ok (f a) | part => part | err e => err e | ub u => ub u
def isOk {α : Type} : Outcome α → Bool | ok _ => true | _ => false
def isPart {α : Type} : Outcome α → Bool | part => true | _ => false
def isErr {α : Type} : Outcome α → Bool | err _ => true | _ => false
def isUb {α : Type} : Outcome α → Bool | ub _ => true | _ => false
end Outcome

/-! ### Byte constants -/
@[inline] def SP : Byte := 0x20
@[inline] def HTAB : Byte := 0x09
@[inline] def CR : Byte := 0x0D
@[inline] def LF : Byte := 0x0A
@[inline] def NUL : Byte := 0x00
@[inline] def DEL : Byte := 0x7F
@[inline] def COLON : Byte := 0x3A
@[inline] def SEMI : Byte := 0x3B

/-! ### Byte classes, from RFC 7230 / RFC 3986 ranges -/

def isDigit (b : Byte) : Bool := 0x30 ≤ b && b ≤ 0x39
def isAlpha (b : Byte) : Bool := (0x41 ≤ b && b ≤ 0x5A) || (0x61 ≤ b && b ≤ 0x7A)

/-- RFC 7230 `tchar`: `"!" / "#" / "$" / "%" / "&" / "'" / "*" / "+" / "-" / "." / "^" / "_" /
"`" / "|" / "~" / DIGIT / ALPHA`. -/
def isTchar (b : Byte) : Bool :=
  isDigit b || isAlpha b ||
  b == 0x21 || b == 0x23 || b == 0x24 || b == 0x25 || b == 0x26 || b == 0x27 ||
  b == 0x2A || b == 0x2B || b == 0x2D || b == 0x2E || b == 0x5E || b == 0x5F ||
  b == 0x60 || b == 0x7C || b == 0x7E

/-- request-target bytes accepted: `0x21–0x7E` and `0x80–0xFF`. -/
def isUri (b : Byte) : Bool := (0x21 ≤ b && b ≤ 0x7E) || 0x80 ≤ b

/-- header-value bytes: HTAB, `0x20–0x7E`, `0x80–0xFF`. -/
def isValue (b : Byte) : Bool := b == 0x09 || (0x20 ≤ b && b ≤ 0x7E) || 0x80 ≤ b

/-- reason-phrase bytes: HTAB, SP, VCHAR, obs-text. -/
def isReason (b : Byte) : Bool := b == 0x09 || b == 0x20 || (0x21 ≤ b && b ≤ 0x7E) || 0x80 ≤ b

def isWs (b : Byte) : Bool := b == 0x20 || b == 0x09

/-- bytes stripped from the end of a header value: SP, HTAB, CR, LF. -/
def isTrimWs (b : Byte) : Bool := b == 0x20 || b == 0x09 || b == 0x0D || b == 0x0A

def isHex (b : Byte) : Bool :=
  isDigit b || (0x61 ≤ b && b ≤ 0x66) || (0x41 ≤ b && b ≤ 0x46)

/-- value of a hex digit (0 for other bytes). -/
def hexDigitVal (b : Byte) : Nat :=
  if isDigit b then b.toNat - 0x30
  else if 0x61 ≤ b && b ≤ 0x66 then b.toNat - 0x61 + 10
  else if 0x41 ≤ b && b ≤ 0x46 then b.toNat - 0x41 + 10
  else 0

/-- A sub-slice of the buffer handed to a call: its offset and its bytes. -/
structure Slice where
  off : Nat
  bytes : List Byte
  deriving DecidableEq, Repr, Inhabited

def Slice.len (s : Slice) : Nat := s.bytes.length
def Slice.stop (s : Slice) : Nat := s.off + s.bytes.length

/-- A `&str` result that may be the static empty string rather than a slice of the buffer. -/
inductive Str where
  | slice (s : Slice)
  | staticEmpty
  deriving DecidableEq, Repr, Inhabited

def Str.bytes : Str → List Byte
  | .slice s => s.bytes
  | .staticEmpty => []

structure Hdr where
  name : Slice
  value : Slice
  deriving DecidableEq, Repr, Inhabited

end Hx
