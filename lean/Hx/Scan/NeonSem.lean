/-
  Hx.Scan.NeonSem — lane semantics of the NEON intrinsics used by `src/simd/neon.rs`
  (hand-written from the Arm Architecture Reference Manual; NOT executable in this sandbox —
  part of the trusted base), plus the hand-modelled helper functions of that file whose Rust text
  the translator pins verbatim (`build_bitmap`, `offsetz`, `offsetnz`).
  A `uint8x16_t` is the list of its 16 byte lanes (lane 0 = lowest address).
-/
import Hx.Bytes
namespace Hx.Neon
open Hx

abbrev Vec := List Byte

/-- `vld1q_u8(ptr)`: loads 16 bytes; undefined behaviour (`none`) if fewer are readable -/
def vld1q_u8 (mem : List Byte) : Option Vec := if 16 ≤ mem.length then some (mem.take 16) else none
def vdupq_n_u8 (x : Byte) : Vec := List.replicate 16 x
def vandq_u8 (a b : Vec) : Vec := List.zipWith (· &&& ·) a b
def vorrq_u8 (a b : Vec) : Vec := List.zipWith (· ||| ·) a b
def veorq_u8 (a b : Vec) : Vec := List.zipWith (· ^^^ ·) a b
/-- `vbicq_u8(a, b)` = `a & !b` -/
def vbicq_u8 (a b : Vec) : Vec := List.zipWith (fun x y => x &&& ~~~y) a b
def vmvnq_u8 (a : Vec) : Vec := a.map (~~~ ·)
def vceqq_u8 (a b : Vec) : Vec := List.zipWith (fun x y => if x == y then 0xFF else 0x00) a b
/-- `vcleq_u8(a, b)`: lane is all ones iff `a ≤ b` (unsigned) -/
def vcleq_u8 (a b : Vec) : Vec := List.zipWith (fun x y => if x ≤ y then 0xFF else 0x00) a b
def vcgeq_u8 (a b : Vec) : Vec := List.zipWith (fun x y => if y ≤ x then 0xFF else 0x00) a b
def vcltq_u8 (a b : Vec) : Vec := List.zipWith (fun x y => if x < y then 0xFF else 0x00) a b
def vcgtq_u8 (a b : Vec) : Vec := List.zipWith (fun x y => if y < x then 0xFF else 0x00) a b
/-- `vshrq_n_u8::<n>(a)` -/
def vshrq_n_u8 (a : Vec) (n : Nat) : Vec := a.map fun x => UInt8.ofNat (x.toNat >>> n)
/-- `vqtbl1q_u8(t, idx)`: table lookup; an index ≥ 16 yields 0 -/
def vqtbl1q_u8 (t idx : Vec) : Vec := idx.map fun i => if i.toNat < 16 then t.getD i.toNat 0 else 0

/-- `offsetnz(x)` of neon.rs: reinterpret as two u64 (little-endian lanes), return the index of
the first non-zero byte, 16 if none. (`clz` in the Rust text is "first non-zero byte of
`to_ne_bytes()`, else 8".) -/
def offsetnz (x : Vec) : Nat :=
  let low := x.take 8
  let high := (x.drop 8).take 8
  let clz (l : List Byte) : Nat := (l.takeWhile (· == 0)).length
  if low.any (· != 0) then clz low
  else if high.any (· != 0) then 8 + clz high
  else 16

/-- `offsetz(x)` = `offsetnz(vmvnq_u8(x))` -/
def offsetz (x : Vec) : Nat := offsetnz (vmvnq_u8 x)

/-- `build_bitmap()` of neon.rs for a given `bit_set`: `bitmap_0_7[lo] |= 1 << hi` for every byte
`i < 128` in the set, `bitmap_8_15[lo] |= 1 << (i >> 4)` (as `u8`, i.e. shifted out) for `i ≥ 128`. -/
def buildBitmap (bitSet : Byte → Bool) : Vec × Vec :=
  let row (base : Nat) (lo : Nat) : Byte :=
    (List.range 8).foldl (fun acc hi =>
      if bitSet (UInt8.ofNat (base + hi * 16 + lo)) then acc ||| UInt8.ofNat (1 <<< (hi + base / 16)) else acc) 0
  ((List.range 16).map (row 0), (List.range 16).map (row 128))

/-- the generic loop shape of the three `match_*_vectored` functions of neon.rs:
`while bytes.len() >= threshold { adv = kernel(ptr); advance(adv); if adv != stop { return } }`
then the fallback. -/
def blockLoop (threshold stop : Nat) (kernel : List Byte → Option Nat) (fallback : Scanner) :
    Nat → List Byte → Option Nat
  | 0, _ => none
  | fuel + 1, l =>
    if threshold ≤ l.length ∧ 0 < stop then
      match kernel l with
      | none => none
      | some adv =>
        if l.length < adv then none
        else if adv != stop then some adv
        else (blockLoop threshold stop kernel fallback fuel (l.drop adv)).map (· + adv)
    else fallback l

end Hx.Neon
