/-
  Hx.Scan.Dispatch — `src/simd/runtime.rs`: the cached runtime feature and the dispatch on it.
-/
import Hx.Scan.X86
namespace Hx.Runtime
open Hx

def AVX2 : Nat := 1
def SSE42 : Nat := 2
def NOP : Nat := 3

/-- `detect_runtime_feature()` given what the CPU supports -/
def detect (hasAvx2 hasSse42 : Bool) : Nat :=
  if hasAvx2 then AVX2 else if hasSse42 then SSE42 else NOP

/-- the `match get_runtime_feature() { AVX2 => …, SSE42 => …, _ => swar }` of
`match_uri_vectored` / `match_header_value_vectored`, for a feature value `f` -/
def backendFor (w : Nat) (f : Nat) : Backend :=
  if f == AVX2 then ⟨X86.avx2Uri w true, X86.avx2Value w true, Swar.nameScanner w⟩
  else if f == SSE42 then ⟨X86.sse42Uri w true, X86.sse42Value w true, Swar.nameScanner w⟩
  else Swar.backend w true

/-! ### the cache as a step machine (C13, thread timing)

`RUNTIME_FEATURE` is one `AtomicU8` (0 = unset).  A thread executing `get_runtime_feature()`
performs `load`, and if it read 0, `detect` and `store`.  A schedule is a list of thread ids;
each occurrence lets that thread take its next atomic step. -/

inductive Pc where
  | start               -- before the load
  | loaded (v : Nat)    -- read `v`; if `v = 0` the store is still to come
  | done (feature : Nat)
  deriving DecidableEq, Repr, Inhabited

structure Sys where
  cell : Nat
  threads : List Pc
  deriving Repr

def stepThread (d : Nat) (cell : Nat) : Pc → Nat × Pc
  | .start => (cell, .loaded cell)
  | .loaded v => if v == 0 then (d, .done d) else (cell, .done v)
  | .done f => (cell, .done f)

/-- thread `i` takes one step (`d` = what `detect` returns on this machine) -/
def step (d : Nat) (s : Sys) (i : Nat) : Sys :=
  match s.threads[i]? with
  | none => s
  | some pc =>
    let (cell', pc') := stepThread d s.cell pc
    { cell := cell', threads := s.threads.set i pc' }

def run (d : Nat) (s : Sys) (sched : List Nat) : Sys := sched.foldl (step d) s

end Hx.Runtime
