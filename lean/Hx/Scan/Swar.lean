/-
  Hx.Scan.Swar — `src/simd/swar.rs`: the word-at-a-time ("SWAR") scanners.

  `w` = BLOCK_SIZE = `size_of::<usize>()` (8 on 64-bit targets, 4 on 32-bit), `le` = target
  endianness (`from_ne_bytes` / `to_ne_bytes`).  Words are `BitVec (8*w)`.
-/
import Hx.Bytes
namespace Hx.Swar
open Hx

/-- `usize::from_ne_bytes(block)` -/
def wordOfBytes (w : Nat) (le : Bool) (block : List Byte) : BitVec (8 * w) :=
  let l := if le then block else block.reverse
  BitVec.ofNat (8 * w) (l.foldr (fun b acc => b.toNat + 256 * acc) 0)

/-- `x.to_ne_bytes()` -/
def bytesOfWord (w : Nat) (le : Bool) (x : BitVec (8 * w)) : List Byte :=
  let l := (List.range w).map fun i => UInt8.ofNat (x.toNat / 256 ^ i % 256)
  if le then l else l.reverse

/-- `uniform_block(b)`: a word whose bytes are all `b` -/
def uniform (w : Nat) (b : Byte) : BitVec (8 * w) :=
  BitVec.ofNat (8 * w) ((List.replicate w b).foldr (fun b acc => b.toNat + 256 * acc) 0)

/-- `offsetnz(block)`: `BLOCK_SIZE` if zero, else index of the first non-zero byte in memory
order; the trailing `unreachable!()` is `none`. -/
def offsetnz (w : Nat) (le : Bool) (x : BitVec (8 * w)) : Option Nat :=
  if x == 0 then some w
  else
    match (bytesOfWord w le x).findIdx? (· != 0) with
    | some i => some i
    | none => none

/-- the shared body of `match_uri_char_8_swar` (`m = 0x21`) and
`match_header_value_char_8_swar` (`m = 0x20`) -/
def rangeKernel (w : Nat) (le : Bool) (m : Byte) (block : List Byte) : Option Nat :=
  let BM := uniform w m
  let ONE := uniform w 0x01
  let DELW := uniform w 0x7f
  let M128 := uniform w 128
  let x := wordOfBytes w le block
  let lt := (x - BM) &&& ~~~x              -- x.wrapping_sub(BM) & !x
  let xorDel := x ^^^ DELW
  let eqDel := (xorDel - ONE) &&& ~~~xorDel
  offsetnz w le ((lt ||| eqDel) &&& M128)

def uriKernel (w : Nat) (le : Bool) : List Byte → Option Nat := rangeKernel w le 0x21
def valueKernel (w : Nat) (le : Bool) : List Byte → Option Nat := rangeKernel w le 0x20

/-- `match_block(f, block)` -/
def matchBlock (cls : Byte → Bool) (block : List Byte) : Option Nat :=
  some (block.takeWhile cls).length

/-- `match_tail(f, bytes)` -/
def matchTail (cls : Byte → Bool) (bytes : List Byte) : Nat := (bytes.takeWhile cls).length

/-- `match_uri_vectored` / `match_header_value_vectored` of swar.rs:
```
loop {
  if let Some(block) = peek_n(BLOCK) { let n = kernel(block); advance(n); if n == BLOCK { continue } }
  if let Some(b) = peek() { if cls(b) { advance(1); continue } }
  break
}
```
Fuel stands for the loop (each `continue` advanced ≥ 1 byte). Result: bytes advanced. -/
def rangeLoop (w : Nat) (kernel : List Byte → Option Nat) (cls : Byte → Bool) : Nat → List Byte → Option Nat
  | 0, _ => none
  | fuel + 1, l =>
    if w ≤ l.length ∧ 0 < w then
      match kernel (l.take w) with
      | none => none
      | some n =>
        if w < n then none                       -- `advance(n)` beyond what `peek_n` proved present
        else if n == w then (rangeLoop w kernel cls fuel (l.drop n)).map (· + n)
        else
          match l.drop n with
          | b :: r => if cls b then (rangeLoop w kernel cls fuel r).map (· + (n + 1)) else some n
          | [] => some n
    else
      match l with
      | b :: r => if cls b then (rangeLoop w kernel cls fuel r).map (· + 1) else some 0
      | [] => some 0

/-- `match_header_name_vectored` of swar.rs:
`while let Some(block) = peek_n(BLOCK) { n = match_block(..); advance(n); if n != BLOCK { return } }`
then `advance(match_tail(..))`. -/
def nameLoop (w : Nat) (cls : Byte → Bool) : Nat → List Byte → Option Nat
  | 0, _ => none
  | fuel + 1, l =>
    if w ≤ l.length ∧ 0 < w then
      match matchBlock cls (l.take w) with
      | none => none
      | some n =>
        if w < n then none
        else if n != w then some n
        else (nameLoop w cls fuel (l.drop n)).map (· + n)
    else some (matchTail cls l)

def uriScanner (w : Nat) (le : Bool) : Scanner := fun l => rangeLoop w (uriKernel w le) isUri (l.length + 1) l
def valueScanner (w : Nat) (le : Bool) : Scanner := fun l => rangeLoop w (valueKernel w le) isValue (l.length + 1) l
def nameScanner (w : Nat) : Scanner := fun l => nameLoop w isTchar (l.length + 1) l

/-- the SWAR backend for a `w`-byte word target of the given endianness -/
def backend (w : Nat) (le : Bool) : Backend := ⟨uriScanner w le, valueScanner w le, nameScanner w⟩

end Hx.Swar
