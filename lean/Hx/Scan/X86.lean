/-
  Hx.Scan.X86 — `src/simd/sse42.rs` and `src/simd/avx2.rs`.

  A vector register is the list of its byte lanes (lane 0 = lowest address).  The seven intrinsics
  used are lane-wise (or `movemask`); their semantics here are hand-written from the Intel
  Intrinsics Guide and validated against the real instructions by the `scan` correspondence family.
-/
import Hx.Bytes
import Hx.Scan.Swar
namespace Hx.X86
open Hx

abbrev Vec := List Byte

/-- `_mm_set1_epi8` / `_mm256_set1_epi8` -/
def set1 (lanes : Nat) (x : Byte) : Vec := List.replicate lanes x
/-- `_mm_lddqu_si128` / `_mm256_lddqu_si256`: unaligned load of `lanes` bytes; undefined
behaviour (`none`) when fewer bytes are readable -/
def lddqu (lanes : Nat) (mem : List Byte) : Option Vec :=
  if lanes ≤ mem.length then some (mem.take lanes) else none
/-- `_mm_max_epu8` -/
def maxEpu8 (a b : Vec) : Vec := List.zipWith (fun x y => if x ≤ y then y else x) a b
/-- `_mm_cmpeq_epi8` -/
def cmpeqEpi8 (a b : Vec) : Vec := List.zipWith (fun x y => if x == y then 0xFF else 0x00) a b
/-- `_mm_andnot_si128(a, b)` = `(!a) & b` -/
def andnot (a b : Vec) : Vec := List.zipWith (fun x y => (~~~x) &&& y) a b
/-- `_mm_or_si128` -/
def or (a b : Vec) : Vec := List.zipWith (fun x y => x ||| y) a b
/-- `_mm_movemask_epi8`: bit `i` = most significant bit of lane `i` -/
def movemask (v : Vec) : List Bool := v.map fun x => 0x80 ≤ x
/-- `trailing_ones()` of the mask read as an integer (bit 0 first) -/
def trailingOnes (m : List Bool) : Nat := (m.takeWhile id).length

/-- `match_url_char_16_sse` / `match_url_char_32_avx` -/
def uriKernel (lanes : Nat) (buf : List Byte) : Option Nat :=
  match lddqu lanes buf with
  | none => none
  | some dat =>
    let DELV := set1 lanes 0x7f
    let LOW := set1 lanes 0x21
    let low := cmpeqEpi8 (maxEpu8 dat LOW) dat
    let del := cmpeqEpi8 dat DELV
    let bit := andnot del low
    some (trailingOnes (movemask bit))

/-- `match_header_value_char_16_sse` / `match_header_value_char_32_avx` -/
def valueKernel (lanes : Nat) (buf : List Byte) : Option Nat :=
  match lddqu lanes buf with
  | none => none
  | some dat =>
    let TAB := set1 lanes 0x09
    let DELV := set1 lanes 0x7f
    let LOW := set1 lanes 0x20
    let low := cmpeqEpi8 (maxEpu8 dat LOW) dat
    let tab := cmpeqEpi8 dat TAB
    let del := cmpeqEpi8 dat DELV
    let bit := andnot del (or low tab)
    some (trailingOnes (movemask bit))

/-- `while bytes.len() >= LANES { adv = kernel(bytes); advance(adv); if adv != LANES { return } }`
then the fallback scanner (`super::swar::…`).  The kernel is handed the whole remaining slice, as
in the Rust code.  `threshold` is the loop bound (`>= 16` / `>= 32`). -/
def blockLoop (threshold lanes : Nat) (kernel : List Byte → Option Nat) (fallback : Scanner) :
    Nat → List Byte → Option Nat
  | 0, _ => none
  | fuel + 1, l =>
    if threshold ≤ l.length ∧ 0 < lanes then
      match kernel l with
      | none => none
      | some adv =>
        if l.length < adv then none                       -- `advance(adv)` past the end
        else if adv != lanes then some adv
        else (blockLoop threshold lanes kernel fallback fuel (l.drop adv)).map (· + adv)
    else fallback l

def sse42Uri (w : Nat) (le : Bool) : Scanner := fun l =>
  blockLoop 16 16 (uriKernel 16) (Swar.uriScanner w le) (l.length + 1) l
def sse42Value (w : Nat) (le : Bool) : Scanner := fun l =>
  blockLoop 16 16 (valueKernel 16) (Swar.valueScanner w le) (l.length + 1) l
def avx2Uri (w : Nat) (le : Bool) : Scanner := fun l =>
  blockLoop 32 32 (uriKernel 32) (Swar.uriScanner w le) (l.length + 1) l
def avx2Value (w : Nat) (le : Bool) : Scanner := fun l =>
  blockLoop 32 32 (valueKernel 32) (Swar.valueScanner w le) (l.length + 1) l

/-- x86 backends: header names always go through SWAR (`sse42_compile_time`, `avx2_compile_time`
and `runtime` all call `swar::match_header_name_vectored`) -/
def sse42Backend (w : Nat) : Backend := ⟨sse42Uri w true, sse42Value w true, Swar.nameScanner w⟩
def avx2Backend (w : Nat) : Backend := ⟨avx2Uri w true, avx2Value w true, Swar.nameScanner w⟩

end Hx.X86
