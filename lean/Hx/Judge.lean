/-
  Hx.Judge — parsing of harness observation lines and the per-case judgement.
  For every case the judge (a) evaluates the `chk…` predicates of `Hx.Spec.Chk` on the REAL
  observation ("hard" failures: the real code violates the property on this input), and
  (b) compares the property's projection of the real observation with the model's ("model"
  failures: the correspondence the theorems rest on is broken for this input).
-/
import Std.Data.HashMap
import Hx.Spec.Chk
import Hx.Scan.Dispatch
import Hx.Build
import Hx.Spec.Completion
namespace Hx

/-! ### text → structure -/

def hexVal? (c : Char) : Option Nat :=
  if '0' ≤ c ∧ c ≤ '9' then some (c.toNat - '0'.toNat)
  else if 'a' ≤ c ∧ c ≤ 'f' then some (c.toNat - 'a'.toNat + 10)
  else if 'A' ≤ c ∧ c ≤ 'F' then some (c.toNat - 'A'.toNat + 10)
  else none

def unhexChars : List Char → Option (List Byte)
  | [] => some []
  | [_] => none
  | a :: b :: r => do
    let x ← hexVal? a
    let y ← hexVal? b
    let t ← unhexChars r
    pure (UInt8.ofNat (x * 16 + y) :: t)

def unhex? (s : String) : Option (List Byte) :=
  if s == "-" then some [] else unhexChars s.toList

def hexDigit (n : Nat) : Char :=
  if n < 10 then Char.ofNat (n + 48) else Char.ofNat (n - 10 + 97)

def hexOf (l : List Byte) : String :=
  if l.isEmpty then "-" else
  String.ofList (l.flatMap fun b => [hexDigit (b.toNat / 16), hexDigit (b.toNat % 16)])

def parseSp (s : String) : Option Sp :=
  if s == "-" then some .none
  else if s == "e" then some .empty
  else if s == "x" then some .ext
  else match s.splitOn "+" with
    | [a, b] => do let o ← a.toNat?; let l ← b.toNat?; pure (.at o l)
    | _ => none

def parseHdrO (s : String) : Option HdrO :=
  match s.splitOn ":" with
  | [a, b] => do let n ← parseSp a; let v ← parseSp b; pure ⟨n, v⟩
  | _ => none

/-- an exposed header that is a sentinel (previous content) is a header that is not from this buffer -/
def parseHdrOExposed (s : String) : Option HdrO :=
  if s.startsWith "s" || s == "?" then some ⟨.ext, .ext⟩ else parseHdrO s

def parseSlot (s : String) : Option SlotO :=
  if s == "?" then some .unknown
  else if s.startsWith "s" then (s.drop 1).toString.toNat?.map SlotO.sent
  else (parseHdrO s).map SlotO.hdr

def parseListOf {α : Type} (f : String → Option α) (s : String) : Option (List α) :=
  if s == "-" then some [] else (s.splitOn ",").mapM f

def parseSt (s : String) : Option St :=
  if s == "P" then some .p
  else if s == "PANIC" || s == "CRASH" || s == "TIMEOUT" then some .crash
  else match s.splitOn ":" with
    | "C" :: n :: _ => n.toNat?.map St.c
    | ["E", k] => (Error.ofName? k).map St.e
    | _ => none

def parseOptNat (s : String) : Option (Option Nat) :=
  if s == "-" then some none else s.toNat?.map some

def parseViewAt (s : String) : Option ViewAt :=
  if s == "e" then some .e
  else if s == "x" then some .x
  else if s.startsWith "A" then (s.drop 1).toString.toNat?.map ViewAt.a
  else if s.startsWith "U" then (s.drop 1).toString.toNat?.map ViewAt.u
  else none

/-- `key=value` lookup among observation tokens -/
def kv (toks : List String) (key : String) : Option String :=
  toks.findSome? fun t =>
    if t.startsWith (key ++ "=") then some (t.drop (key.length + 1)).toString else none

def kvNat (toks : List String) (key : String) : Nat :=
  ((kv toks key).bind String.toNat?).getD 0

/-- parse a request / response / headers observation -/
def parseObs (k : Kind) (toks : List String) : Option Obs := do
  let st ← parseSt (toks.headD "")
  if st == .crash then
    return { st := .crash, spans := [], nums := [], viewLen := 0, viewAt := .e, hdrs := [], arrA := [], arrU := [] }
  let hdrs ← parseListOf parseHdrOExposed ((kv toks "h").getD "-")
  let arrA ← parseListOf parseSlot ((kv toks "A").getD "-")
  let arrU ← parseListOf parseSlot ((kv toks "U").getD "-")
  let (viewLen, viewAt) ← (match kv toks "view" with
    | some v => (match v.splitOn "@" with
       | [n, a] => do let n ← n.toNat?; let a ← parseViewAt a; pure (n, a)
       | [n] => do let n ← n.toNat?; pure (n, ViewAt.e)
       | _ => none)
    | none => some (0, ViewAt.e))
  match k with
  | .req =>
    let m ← parseSp (← kv toks "m")
    let p ← parseSp (← kv toks "p")
    let v ← parseOptNat (← kv toks "v")
    pure { st, spans := [m, p], nums := [v], viewLen, viewAt, hdrs, arrA, arrU }
  | .resp =>
    let r ← parseSp (← kv toks "r")
    let v ← parseOptNat (← kv toks "v")
    let c ← parseOptNat (← kv toks "c")
    pure { st, spans := [r], nums := [v, c], viewLen, viewAt, hdrs, arrA, arrU }
  | .hdrs =>
    -- `parse_headers` has no persistent view; use the returned slice on Complete and the whole
    -- array otherwise, so that the storage law (C17) reads the same as for Request/Response
    let vl := if st.isC then hdrs.length else arrA.length
    pure { st, spans := [], nums := [], viewLen := vl, viewAt := if vl == 0 then .e else .a 0, hdrs, arrA, arrU }

def parseChunkObs (toks : List String) : Option ChunkObs :=
  match (toks.headD "").splitOn ":" with
  | ["C", n, s] => do let n ← n.toNat?; let s ← s.toNat?; pure ⟨.c n, s⟩
  | ["P"] => some ⟨.p, 0⟩
  | ["E", _] => some ⟨.e .chunkSize, 0⟩
  | ["PANIC"] => some ⟨.crash, 0⟩
  | ["CRASH"] => some ⟨.crash, 0⟩
  | ["TIMEOUT"] => some ⟨.crash, 0⟩
  | _ => none

def configOfBits (n : Nat) : Config :=
  { spacesAfterNameResp := n.testBit 0, foldResp := n.testBit 1, multiReq := n.testBit 2,
    multiResp := n.testBit 3, spaceBeforeFirst := n.testBit 4, ignResp := n.testBit 5,
    ignReq := n.testBit 6 }

/-! ### judgement -/

/-- one finding: property, `hard` (the real observation fails the property's own predicate) or
`model` (the real observation differs from the model on the property's projection), note -/
structure Finding where
  prop : String
  hard : Bool
  note : String

structure JState where
  stats : Std.HashMap String Nat
  samples : Std.HashMap String String

def JState.init : JState := ⟨{}, {}⟩

def JState.bump (s : JState) (k : String) (n : Nat := 1) : JState :=
  { s with stats := s.stats.insert k (s.stats.getD k 0 + n) }

def JState.sample (s : JState) (k : String) (v : String) : JState :=
  if s.samples.contains k then s else { s with samples := s.samples.insert k v }

def JState.statLines (s : JState) : List String :=
  (s.stats.toList.map fun (k, v) => s!"STAT {k} {v}") ++
  (s.samples.toList.map fun (k, v) => s!"SAMPLE {k} {v}")

def St.tag : St → String
  | .c _ => "C" | .p => "P" | .e k => s!"E:{k.name}" | .crash => "CRASH"

/-- did the model's start line complete (so that the header block was entered)? -/
def startLineDone (k : Kind) (m : Obs) : Bool :=
  match k with
  | .hdrs => true
  | .req => (m.nums.getD 0 none).isSome && m.st != .e .version && m.st != .e .newLine &&
            !(m.st == .p && false)
  | .resp => (m.spans.getD 0 .none) != .none

/-- Findings for one request / response / parse_headers call. -/
def judgeMsg (k : Kind) (cfg : Config) (cap : Nat) (buf : List Byte) (real model : Obs) (adv : Nat)
    (hdrBlockEntered : Bool) : List Finding :=
  let hc := k.hcfg cfg
  let hard (p : String) (ok : Bool) (note : String) : List Finding :=
    if ok then [] else [⟨p, true, note⟩]
  let mdl (p : String) (same : Bool) (note : String) : List Finding :=
    if same then [] else [⟨p, false, note⟩]
  let bothC := real.st.isC && model.st.isC
  let kindSame := real.st.kind == model.st.kind
  -- hard checks on the real observation
  hard "C01" (chkC01 real) "call did not return normally" ++
  hard "C03" (chkC03 k cfg buf real) "framing: n / Partial disagrees with the independent empty-line scan" ++
  hard "C04" (chkC04 buf real) "a returned slice is outside the buffer / consumed head or out of order" ++
  hard "C05" (chkC05 k cfg buf real) "field hygiene violated" ++
  hard "C17" (real.st == .crash || chkC17 true cap 0 real) "header storage law violated" ++
  hard "C20" (real.st == .crash || chkC20 buf.length real.st adv) "cursor travel exceeds buffer length / differs from n" ++
  -- model correspondence, per projection
  mdl "C01" (!(real.st == .crash) || model.st == .crash) "status: real crashed, model did not" ++
  mdl "C03" (if bothC then real.st == model.st else !((real.st.isC && model.st.isP) || (real.st.isP && model.st.isC)))
      "framing projection (n / Complete-vs-Partial) differs from model" ++
  mdl "C04" (!bothC || real.allSpans == model.allSpans) "spans on Complete differ from model" ++
  mdl "C05" (!bothC || (real.spans == model.spans && real.nums == model.nums && real.hdrs == model.hdrs))
      "fields on Complete differ from model" ++
  (match k with
   | .req =>
     mdl "C06" ((if hdrBlockEntered then true else kindSame) &&
                (real.st == .crash || (real.spans == model.spans && real.nums == model.nums)))
       "request line: status kind / method / path / version differ from model"
   | .resp =>
     mdl "C07" ((if hdrBlockEntered then true else kindSame) &&
                (real.st == .crash || (real.spans == model.spans && real.nums == model.nums)))
       "status line: status kind / version / code / reason differ from model"
   | .hdrs => []) ++
  (if hdrBlockEntered then
     mdl (if hc == HCfg.default then "C08" else "C14")
       (kindSame && (!bothC || real.hdrs == model.hdrs))
       "header block: status kind / reported headers differ from model"
   else []) ++
  mdl "C10" (!(real.st.isE && model.st.isE) || real.st == model.st) "error kind differs from model" ++
  -- "TooManyHeaders is returned exactly when …": model and code must agree on WHEN it is returned
  mdl "C10" ((real.st == .e .tooManyHeaders) == (model.st == .e .tooManyHeaders) || real.st == .crash)
      "TooManyHeaders returned by exactly one of code and model" ++
  mdl "C17" (real.st == .crash || !kindSame ||
             (real.viewLen == model.viewLen && real.viewAt == model.viewAt &&
              (if real.st.isC then real.arrA == model.arrA else true)))
      "view / array after the call differ from model" ++
  mdl "C20" (real.st == .crash || !bothC || adv == (match model.st with | .c n => n | _ => 0))
      "travel differs from model's final offset"

def kindOfString : String → Option Kind
  | "req" => some .req | "resp" => some .resp | "hdrs" => some .hdrs | _ => none

def Obs.textFor (k : Kind) (o : Obs) : String :=
  match k with | .req => o.reqText | .resp => o.respText | .hdrs => o.hdrsText

def modelObs (k : Kind) (cfg : Config) (cap : Nat) (buf : List Byte) : Obs :=
  match k with
  | .req => reqObs specBackend cfg cap buf
  | .resp => respObs specBackend cfg cap buf
  | .hdrs => hdrsObs specBackend cap buf

/-- has the model's parse entered the header block?  (request: `newline!` completed; response: the
reason branch completed).  Computed on the model only. -/
def modelEnteredHeaders (k : Kind) (cfg : Config) (buf : List Byte) : Bool :=
  match k with
  | .hdrs => true
  | .req =>
    match (do skipEmptyLines; let _ ← parseMethod; optSkipSpaces cfg.multiReq; let _ ← parseUri specBackend
              optSkipSpaces cfg.multiReq; let _ ← parseVersion; newline : P Unit).run (Cur.new buf) with
    | .ok _ => true | _ => false
  | .resp =>
    match (do skipEmptyLines; let _ ← parseVersion; space .version; optSkipSpaces cfg.multiResp
              let _ ← parseCode; let _ ← reasonBranch cfg.multiResp; pure () : P Unit).run (Cur.new buf) with
    | .ok _ => true | _ => false

def fmtFinding (f : Finding) (caseLine real model : String) : String :=
  s!"FAIL {f.prop} {if f.hard then "hard" else "model"} | {f.note} | {caseLine} | real: {real} | model: {model}"

def splitArrow (l : String) : Option (String × String) :=
  match l.splitOn " => " with
  | [a, b] => some (a, b)
  | [a] => if a.endsWith " =>" then some ((a.dropEnd 3).toString, "") else none
  | _ => none

def words (s : String) : List String := (s.splitOn " ").filter (· != "")

def judgeBasic (st : JState) (caseLine : String) (ctoks otoks : List String) (tagPrefix : String := "") :
    JState × List String :=
  match ctoks with
  | "chunk" :: hex :: _ =>
    match unhex? hex, parseChunkObs otoks with
    | some buf, some real =>
      let model := chunkObs false buf
      let adv := kvNat otoks "adv"
      let fs : List Finding :=
        (if real.st == .crash then [⟨"C01", true, "call did not return normally"⟩] else []) ++
        (if real == model then [] else [⟨"C09", false, "chunk size result differs from model"⟩]) ++
        (if chkC03chunk buf real then [] else [⟨"C03", true, "n is not just past the first CRLF"⟩]) ++
        (if real.st == .crash || chkC20 buf.length real.st adv then [] else [⟨"C20", true, "travel"⟩])
      let st := (st.bump s!"{tagPrefix}cases.chunk").bump s!"{tagPrefix}status.chunk.{real.st.tag}"
      let st := if real.st.isC || real.st.isP || adv > 1 then st.bump "nontrivial.chunk" else st
      let st := st.sample s!"chunk.{real.st.tag}" caseLine
      (st, fs.map fun f => fmtFinding f caseLine (" ".intercalate otoks) model.text)
    | _, _ => (st.bump "badline", [s!"BADLINE {caseLine}"])
  | kind :: rest =>
    match kindOfString kind with
    | none => (st.bump "badline", [s!"BADLINE {caseLine}"])
    | some k =>
      let (cfgS, capS, hexS) := match k, rest with
        | .hdrs, cap :: hex :: _ => ("0", cap, hex)
        | _, cfg :: cap :: hex :: _ => (cfg, cap, hex)
        | _, _ => ("", "", "")
      match cfgS.toNat?, capS.toNat?, unhex? hexS, parseObs k otoks with
      | some cfgN, some cap, some buf, some real =>
        let cfg := configOfBits cfgN
        let model := modelObs k cfg cap buf
        let adv := kvNat otoks "adv"
        let entered := modelEnteredHeaders k cfg buf
        let fs := judgeMsg k cfg cap buf real model adv entered
        let fs := if real == model then fs else fs ++ [⟨"MODEL", false, "full observation differs from model"⟩]
        -- a call that did not return within the watchdog limit is also a violation of linear work (C20)
        let fs := if otoks.headD "" == "TIMEOUT" then fs ++ [⟨"C20", true, "the call did not return within the watchdog limit (no forward progress)"⟩] else fs
        let st := (st.bump s!"{tagPrefix}cases.{kind}").bump s!"{tagPrefix}status.{kind}.{real.st.tag}"
        let st := if entered then st.bump s!"{tagPrefix}entered_headers.{kind}" else st
        let st := if real.st.isC || real.st.isP || adv > 1 then st.bump s!"nontrivial.{kind}" else st
        let st := if real.hdrs.length > 0 then st.bump s!"{tagPrefix}with_headers.{kind}" else st
        let st := st.sample s!"{kind}.{real.st.tag}" caseLine
        (st, fs.map fun f => fmtFinding f caseLine (" ".intercalate otoks) (model.textFor k))
      | _, _, _, _ => (st.bump "badline", [s!"BADLINE {caseLine}"])
  | [] => (st, [])

def splitObs (obsS : String) : List (List String) := (obsS.splitOn " ;; ").map words

def clsOf (c : Nat) : Byte → Bool :=
  if c == 0 then isUri else if c == 1 then isValue else isTchar

def mkFail (prop : String) (hard : Bool) (note caseLine detail : String) : String :=
  s!"FAIL {prop} {if hard then "hard" else "model"} | {note} | {caseLine} | {detail}"

/-- compare a real basic observation with the model on (status, fields, headers) -/
def sameAsModel (k : Kind) (cfg : Config) (cap : Nat) (buf : List Byte) (real : Obs) : Bool :=
  sameResult real (modelObs k cfg cap buf)

def judgeMulti (st : JState) (caseLine : String) (ctoks : List String) (obsS : String) : JState × List String :=
  let parts := splitObs obsS
  match ctoks with
  | "split" :: "chunk" :: hex :: _ =>
    match unhex? hex, parts.mapM parseChunkObs with
    | some buf, some os =>
      let pairs := List.zip os (os.drop 1)
      let bad := (List.zip (List.range pairs.length) pairs).filter fun (_, (a, b)) => !chkC02chunk a b
      let badM := (List.zip (List.range os.length) os).filter fun (i, o) => !o.st.isP && o != chunkObs false (buf.take i)
      let st := (st.bump "cases.split.chunk").bump "pairs.split" pairs.length
      (st, (bad.map fun (i, (a, b)) => mkFail "C02" true "result changed after appending a byte" caseLine s!"prefix {i}: {a.text} then {b.text}") ++
           (badM.map fun (i, o) => mkFail "C09" false "chunk prefix result differs from model" caseLine s!"prefix {i}: {o.text}"))
    | _, _ => (st.bump "badline", [s!"BADLINE {caseLine}"])
  | "split" :: kind :: rest =>
    match kindOfString kind with
    | none => (st.bump "badline", [s!"BADLINE {caseLine}"])
    | some k =>
      let (cfgS, capS, hexS) := match k, rest with
        | .hdrs, cap :: hex :: _ => ("0", cap, hex)
        | _, cfg :: cap :: hex :: _ => (cfg, cap, hex)
        | _, _ => ("", "", "")
      match cfgS.toNat?, capS.toNat?, unhex? hexS, parts.mapM (parseObs k) with
      | some cfgN, some cap, some buf, some os =>
        let cfg := configOfBits cfgN
        let pairs := List.zip os (os.drop 1)
        let bad := (List.zip (List.range pairs.length) pairs).filter fun (_, (a, b)) => !chkC02 a b
        -- C02 speaks about decided (Complete/Err) results; a Partial that the model does not predict is C11's business
        let badM := (List.zip (List.range os.length) os).filter fun (i, o) => !o.st.isP && !sameAsModel k cfg cap (buf.take i) o
        let nontriv := (pairs.filter fun (a, _) => !a.st.isP).length
        let st := (((st.bump s!"cases.split.{kind}").bump "pairs.split" pairs.length).bump "pairs.split.nonpartial" nontriv).bump "nontrivial.split"
        let st := st.sample s!"split.{kind}" caseLine
        (st, (bad.map fun (i, (a, b)) => mkFail "C02" true "result changed after appending a byte" caseLine s!"prefix {i}: [{a.textFor k}] then [{b.textFor k}]") ++
             (badM.map fun (i, o) => mkFail "C02" false "prefix result differs from model" caseLine s!"prefix {i}: real [{o.textFor k}] model [{(modelObs k cfg cap (buf.take i)).textFor k}]"))
      | _, _, _, _ => (st.bump "badline", [s!"BADLINE {caseLine}"])
  | "capsweep" :: kind :: cfgS :: _ :: hex :: _ =>
    match kindOfString kind, cfgS.toNat?, unhex? hex with
    | some k, some _, some _ =>
      match parts.mapM (parseObs k) with
      | some os =>
        match os.getLast? with
        | none => (st, [])
        | some big =>
          let bad := (List.zip (List.range os.length) os).filter fun (cap, o) => !chkC17cap cap o big
          let st := ((st.bump "cases.capsweep").bump "nontrivial.capsweep").bump "pairs.capsweep" os.length
          let st := if big.stored > 0 then st.bump "capsweep.with_headers" else st
          let st := st.sample s!"capsweep.{kind}.{big.st.tag}" caseLine
          (st, bad.map fun (cap, o) => mkFail "C17" true s!"capacity law: outcome with capacity {cap} is neither the outcome with a larger capacity nor TooManyHeaders after exactly {cap} headers" caseLine s!"cap {cap}: [{o.textFor k}] largest: [{big.textFor k}]")
      | none => (st.bump "badline", [s!"BADLINE {caseLine}"])
    | _, _, _ => (st.bump "badline", [s!"BADLINE {caseLine}"])
  | "cfgpair" :: kind :: ca :: cb :: capS :: hex :: _ =>
    match kindOfString kind, ca.toNat?, cb.toNat?, capS.toNat?, unhex? hex with
    | some k, some ca, some cb, some cap, some buf =>
      match parts.mapM (parseObs k) with
      | some [oa, ob] =>
        let cA := configOfBits ca
        let cB := configOfBits cb
        let ok := chkC15 k buf cA cB oa ob
        let mOk := sameAsModel k cA cap buf oa && sameAsModel k cB cap buf ob
        let st := st.bump s!"cases.cfgpair.{kind}"
        let st := if oa.st.isC || oa.st.isP || ob.st.isC || ob.st.isP then st.bump "nontrivial.cfgpair" else st
        let st := if cA.relevant k == cB.relevant k && ca != cb then st.bump "cfgpair.same_relevant" else st
        let st := if ca == 0 && oa.st.isC then st.bump "cfgpair.default_complete" else st
        let st := st.sample s!"cfgpair.{kind}.{oa.st.tag}" caseLine
        (st, (if ok then [] else [mkFail "C15" true "configurations disagree where they must not" caseLine s!"A [{oa.textFor k}] B [{ob.textFor k}]"]) ++
             (if mOk then [] else [mkFail "C15" false "observation under a configuration differs from model" caseLine s!"A [{oa.textFor k}] B [{ob.textFor k}]"]))
      | _ => (st.bump "badline", [s!"BADLINE {caseLine}"])
    | _, _, _, _, _ => (st.bump "badline", [s!"BADLINE {caseLine}"])
  | "hrel" :: capS :: hex :: _ =>
    match capS.toNat?, unhex? hex, parts with
    | some _, some _, [h, rq, rs] =>
      match parseObs .hdrs h, parseObs .req rq, parseObs .resp rs with
      | some oh, some oq, some os =>
        let ok := chkC16rel 16 oh oq && chkC16rel 17 oh os
        let st := ((st.bump "cases.hrel").bump s!"status.hrel.{oh.st.tag}").bump "nontrivial.hrel"
        let st := st.sample s!"hrel.{oh.st.tag}" caseLine
        (st, if ok then [] else [mkFail "C16" true "parse_headers disagrees with the header part of a request/response" caseLine s!"hdrs [{oh.hdrsText}] req [{oq.reqText}] resp [{os.respText}]"])
      | _, _, _ => (st.bump "badline", [s!"BADLINE {caseLine}"])
    | _, _, _ => (st.bump "badline", [s!"BADLINE {caseLine}"])
  | allk :: cfgS :: capS :: hex :: _ =>
    if allk == "reqall" || allk == "respall" then
      let k := if allk == "reqall" then Kind.req else Kind.resp
      match cfgS.toNat?, capS.toNat?, unhex? hex with
      | some cfgN, some cap, some buf =>
        let cfg := configOfBits cfgN
        let os := parts.map fun p => if p == ["NA"] then none else parseObs k p
        match os with
        | [plain, withCfg, plainU, cfgU] =>
          -- `plain` / `plainU` run the default configuration whatever `cfg` says
          let group := [withCfg, cfgU] ++ (if cfgN == 0 then [plain, plainU] else [])
          let present := group.filterMap id
          let ok16 := chkC16 present
          let ok16d := chkC16 ([plain, plainU].filterMap id)
          let ok17 := (match plain with | some o => chkC17 true cap 0 o | none => true) &&
                      (match withCfg with | some o => chkC17 true cap 0 o | none => true) &&
                      (match plainU with | some o => chkC17 false 2 cap o | none => true) &&
                      (match cfgU with | some o => chkC17 false 2 cap o | none => true)
          let mU := match cfgU with
            | some o => o == (if k == .req then reqObsU specBackend cfg 2 cap buf else respObsU specBackend cfg 2 cap buf)
            | none => true
          let mP := match plain with
            | some o => o == modelObs k Config.default cap buf
            | none => true
          let st := ((st.bump s!"cases.{allk}").bump s!"status.{allk}.{(withCfg.map (·.st.tag)).getD "?"}").bump "nontrivial.entries"
          let st := st.sample s!"{allk}.{(withCfg.map (·.st.tag)).getD "?"}" caseLine
          (st, (if ok16 && ok16d then [] else [mkFail "C16" true "entry points disagree" caseLine obsS]) ++
               (if ok17 then [] else [mkFail "C17" true "header storage law violated at an entry point" caseLine obsS]) ++
               (if mU && mP then [] else [mkFail "C16" false "entry-point observation differs from model" caseLine obsS]) ++
               (if mU && mP then [] else [mkFail "C17" false "entry-point observation differs from model" caseLine obsS]))
        | _ => (st.bump "badline", [s!"BADLINE {caseLine}"])
      | _, _, _ => (st.bump "badline", [s!"BADLINE {caseLine}"])
    else (st.bump "badline", [s!"BADLINE {caseLine}"])
  | _ => (st.bump "badline", [s!"BADLINE {caseLine}"])

def judgeHist (st : JState) (caseLine : String) (ctoks : List String) (obsS : String) : JState × List String :=
  match ctoks with
  | "hist" :: kind :: _ =>
    match kindOfString kind, splitObs obsS with
    | some k, [reused, fresh, metaT] =>
      match parseObs k reused, parseObs k fresh with
      | some r, some f =>
        let ok := chkC18 r f
        let st := ((st.bump s!"cases.hist.{kind}").bump s!"status.hist.{f.st.tag}").bump "nontrivial.hist"
        let st := if (kv metaT "vb").bind String.toNat? != ((ctoks.getD 2 "").toNat?) then st.bump "hist.view_shrunk_before_probe" else st
        let st := st.sample s!"hist.{kind}.{f.st.tag}" caseLine
        (st, if ok then [] else [mkFail "C18" true "probe on a reused value differs from the probe on a fresh value" caseLine obsS])
      | _, _ => (st.bump "badline", [s!"BADLINE {caseLine}"])
    | _, _ => (st.bump "badline", [s!"BADLINE {caseLine}"])
  | _ => (st.bump "badline", [s!"BADLINE {caseLine}"])

def judgeScan (st : JState) (caseLine : String) (ctoks otoks : List String) : JState × List String :=
  match ctoks with
  | ["scan", be, cl, _, hex] =>
    if otoks == ["NA"] then (st.bump s!"scan.na.{be}", []) else
    match cl.toNat?, unhex? hex, (otoks.headD "").toNat? with
    | some c, some buf, some n =>
      let want := (buf.takeWhile (clsOf c)).length
      -- the hand-written model of this backend's scanner (tie between Hx/Scan/* and the code)
      let pick (b : Backend) : Scanner := if c == 0 then b.uri else if c == 1 then b.value else b.name
      let mdl : Option Nat :=
        if be == "0" then pick (Swar.backend 8 true) buf
        else if be == "1" then pick (X86.sse42Backend 8) buf
        else if be == "2" then pick (X86.avx2Backend 8) buf
        else some want
      let st := ((st.bump s!"cases.scan.b{be}.c{cl}")).bump "nontrivial.scan"
      let st := if want < buf.length then st.bump "scan.stops_inside" else st
      let st := st.sample s!"scan.b{be}.c{cl}" caseLine
      (st, (if n == want then [] else
        [mkFail "C12" true "scanner did not stop at the first out-of-class byte" caseLine s!"real {n} expected {want}"]) ++
        (if mdl == some n then [] else
        [mkFail "C12" false "scanner model (Hx/Scan) disagrees with the real backend" caseLine s!"real {n} model {mdl}"]))
    | _, _, _ =>
      if otoks.headD "" == "PANIC" then (st, [mkFail "C12" true "scanner panicked" caseLine "PANIC"]) else
      (st.bump "badline", [s!"BADLINE {caseLine}"])
  | ["scanat", be, cl, skipS, hex] =>
    if otoks == ["NA"] then (st.bump s!"scan.na.{be}", []) else
    match cl.toNat?, skipS.toNat?, unhex? hex, (otoks.headD "").toNat? with
    | some c, some skip, some buf, some n =>
      let rest := buf.drop skip
      let want := (rest.takeWhile (clsOf c)).length
      let pick (b : Backend) : Scanner := if c == 0 then b.uri else if c == 1 then b.value else b.name
      let mdl : Option Nat := if be == "0" then pick (Swar.backend 8 true) rest else some want
      let st := ((st.bump s!"cases.scanat.b{be}.c{cl}")).bump "nontrivial.scan"
      let st := st.sample s!"scanat.b{be}.c{cl}" caseLine
      (st, (if n == want then [] else
        [mkFail "C12" true "scanner entered with an uncommitted prefix did not stop at the first out-of-class byte" caseLine s!"real {n} expected {want}"]) ++
        (if mdl == some n then [] else
        [mkFail "C12" false "scanner model (Hx/Scan) disagrees with the real backend" caseLine s!"real {n} model {mdl}"]))
    | _, _, _, _ =>
      if otoks.headD "" == "PANIC" then (st, [mkFail "C12" true "scanner panicked" caseLine "PANIC"]) else
      (st.bump "badline", [s!"BADLINE {caseLine}"])
  | ["swar", cl, hex] =>
    if otoks == ["NA"] then (st.bump "swar.na", []) else
    match cl.toNat?, unhex? hex, (otoks.headD "").toNat? with
    | some c, some blk, some n =>
      let want := (blk.takeWhile (clsOf c)).length
      let mdl : Option Nat := if c == 0 then Swar.uriKernel 8 true blk else if c == 1 then Swar.valueKernel 8 true blk
                              else Swar.matchBlock isTchar blk
      let st := (st.bump s!"cases.swar.c{cl}").bump "nontrivial.swar"
      let st := if n < want then st.bump "swar.conservative" else st
      -- the block kernels may stop early (the loop re-examines byte-wise) but never late
      (st, (if n ≤ want && (c != 2 || n == want) then [] else
        [mkFail "C12" true "SWAR block kernel ran past an out-of-class byte" caseLine s!"real {n} exact {want}"]) ++
        (if mdl == some n then [] else
        [mkFail "C12" false "SWAR kernel model (Hx/Scan/Swar) disagrees with the real kernel" caseLine s!"real {n} model {mdl}"]))
    | _, _, _ => (st.bump "badline", [s!"BADLINE {caseLine}"])
  | ["classes"] =>
    let want (c : Nat) : String := String.ofList ((List.range 256).map fun i => if clsOf c (UInt8.ofNat i) then '1' else '0')
    let got (key : String) : String := (kv otoks key).getD ""
    let ok := got "c0" == want 0 && got "c1" == want 1 && got "c2" == want 2 && got "c3" == want 2
    (st.bump "cases.classes" 1024, if ok then [] else
      [mkFail "C12" true "a class table differs from the RFC class" caseLine (" ".intercalate otoks)])
  | ["errtext"] =>
    -- the text each error prints (`Display` / `Error::description`) names the element the kind stands for
    let want : List (String × String) :=
      [("HeaderName", "invalid_header_name"), ("HeaderValue", "invalid_header_value"), ("NewLine", "invalid_new_line"),
       ("Status", "invalid_response_status"), ("Token", "invalid_token"), ("TooManyHeaders", "too_many_headers"),
       ("Version", "invalid_HTTP_version"), ("ChunkSize", "invalid_chunk_size")]
    let bad := want.filter fun (k, v) => (kv otoks k).getD "" != v || (kv otoks (k ++ ".dbg")).getD "" != k
    (st.bump "cases.errtext" 8, bad.map fun (k, v) =>
      mkFail "C10" true s!"the text / Debug name printed for error kind {k} does not name that kind's element (expected '{v}')" caseLine (" ".intercalate otoks))
  | ["utf8", hex] =>
    match unhex? hex with
    | some buf =>
      let want := if validUtf8 buf then "1" else "0"
      let st := ((st.bump "cases.utf8").bump s!"utf8.valid.{want}").bump "nontrivial.utf8"
      (st, if otoks.headD "" == want then [] else
        [mkFail "C05" false "validUtf8 differs from core::str::from_utf8" caseLine s!"real {otoks.headD ""} model {want}",
         mkFail "C06" false "validUtf8 differs from core::str::from_utf8" caseLine s!"real {otoks.headD ""} model {want}"])
    | none => (st.bump "badline", [s!"BADLINE {caseLine}"])
  | _ => (st.bump "badline", [s!"BADLINE {caseLine}"])

/-- `buildenv <9 bits: std miri disable ge159 parsed disct flok sse42 avx2> <arch>` → the flags
`Hx.Build.flags` predicts and the provider the generated cfg lattice selects -/
def buildFlagsLine (l : String) : String :=
  match words l with
  | ["buildenv", bits, arch] =>
    let b (i : Nat) : Bool := (bits.toList.getD i '0') == '1'
    let a := if arch == "x86_64" then Gen.Cfg.Arch.x86_64 else if arch == "x86" then Gen.Cfg.Arch.x86
             else if arch == "aarch64" then Gen.Cfg.Arch.aarch64 else Gen.Cfg.Arch.other
    let env : Build.BuildEnv := ⟨b 0, b 1, b 2, b 3, b 4, b 5, b 6, b 7, b 8⟩
    let f := Build.flags env a
    let provs := (Gen.Cfg.providers.filter fun p => p.2 f).map (·.1)
    s!"{l} => simd={f.simd} sse42={f.sse42} avx2={f.avx2} neon_intrinsics={f.neonIntr} providers={provs}"
  | _ => s!"BADLINE {l}"

/-- `driver witness`: for an observed Partial case print the case `wit …` whose buffer is the
original one extended by the model's completion witness (the first tail of the finite completion
set after which the MODEL completes), or a `nowit` line saying which stated exception applies. -/
def witnessLine (l : String) : List String :=
  match splitArrow l with
  | none => []
  | some (caseLine, obsS) =>
    let ctoks := words caseLine
    let otoks := words obsS
    if otoks.headD "" != "P" then [] else
    match ctoks with
    | ["chunk", hex] =>
      match unhex? hex with
      | some buf =>
        match chunkTails.find? (fun t => (chunkObs false (buf ++ t)).st.isC) with
        | some t => [s!"wit {buf.length} chunk {hexOf (buf ++ t)}"]
        | none => [s!"nowit none {caseLine}"]
      | none => []
    | kind :: rest =>
      match kindOfString kind with
      | none => []
      | some k =>
        let (cfgS, capS, hexS) := match k, rest with
          | .hdrs, cap :: hex :: _ => ("0", cap, hex)
          | _, cfg :: cap :: hex :: _ => (cfg, cap, hex)
          | _, _ => ("", "", "")
        match cfgS.toNat?, capS.toNat?, unhex? hexS, parseObs k otoks with
        | some cfgN, some cap, some buf, some real =>
          let cfg := configOfBits cfgN
          match (tailsFor k).find? (fun t => (modelObs k cfg cap (buf ++ t)).st.isC) with
          | some t =>
            if k == .hdrs then [s!"wit {buf.length} hdrs {cap} {hexOf (buf ++ t)}"]
            else [s!"wit {buf.length} {kind} {cfgN} {cap} {hexOf (buf ++ t)}"]
          | none =>
            let why := if k == .req && badUtf8Target cfg buf (real.spans.getD 0 .none) then "badutf8"
                       else if overCapacity cap real then "overcap" else "none"
            [s!"nowit {why} {caseLine}"]
        | _, _, _, _ => []
    | [] => []

def judgeLine (st : JState) (l : String) : JState × List String :=
  match splitArrow l with
  | none => (st.bump "badline", [s!"BADLINE {l}"])
  | some (caseLine, obsS) =>
    let ctoks := words caseLine
    let otoks := words obsS
    match ctoks with
    | "place" :: _ :: rest => judgeBasic st caseLine rest otoks "place."
    | "force" :: f :: rest =>
      if otoks == ["NA"] then (st.bump "na", []) else
      let (st, outs) := judgeBasic st caseLine rest otoks "force."
      -- which backend ran?  a cached feature must only ever select code that feature licenses:
      -- SSE42 (2) must not execute 32-byte AVX2 loads, NOP (≥3) no vector loads at all
      let l16 := kvNat otoks "l16"
      let l32 := kvNat otoks "l32"
      let bad := (f == "2" && l32 > 0) || (f != "1" && f != "2" && (l16 > 0 || l32 > 0))
      let st := if l16 > 0 || l32 > 0 then st.bump "force.vector_loads_seen" else st
      (st, outs ++ (if bad then
        [mkFail "C13" true "a cached runtime feature selected a backend that feature does not license" caseLine s!"feature {f}: l16={l16} l32={l32}",
         mkFail "C01" true "a cached runtime feature selected a backend that feature does not license (UB on such a CPU)" caseLine s!"feature {f}: l16={l16} l32={l32}"]
        else []))
    | "split" :: _ => judgeMulti st caseLine ctoks obsS
    | "cfgpair" :: _ => judgeMulti st caseLine ctoks obsS
    | "capsweep" :: _ => judgeMulti st caseLine ctoks obsS
    -- the same sweep with buffer and header array touching in memory (the reference capacity apart)
    | "capsweepj" :: _ :: rest => judgeMulti st caseLine ("capsweep" :: rest) obsS
    | "hrel" :: _ => judgeMulti st caseLine ctoks obsS
    | "reqall" :: _ => judgeMulti st caseLine ctoks obsS
    | "respall" :: _ => judgeMulti st caseLine ctoks obsS
    | "hist" :: _ => judgeHist st caseLine ctoks obsS
    | "scan" :: _ => judgeScan st caseLine ctoks otoks
    | "swar" :: _ => judgeScan st caseLine ctoks otoks
    | "scanat" :: _ => judgeScan st caseLine ctoks otoks
    | "classes" :: _ => judgeScan st caseLine ctoks otoks
    | "errtext" :: _ => judgeScan st caseLine ctoks otoks
    | "utf8" :: _ => judgeScan st caseLine ctoks otoks
    | "info" :: _ => (st.sample "info" obsS, [])
    | "wit" :: origLen :: rest =>
      -- pass 2 of C11: the buffer is a Partial buffer extended by the model's witness; the real
      -- parser must complete
      let ok := (otoks.headD "").startsWith "C:"
      let st := (st.bump "cases.wit").bump "nontrivial.wit"
      let st := st.sample s!"wit.{rest.headD ""}" caseLine
      (st, if ok then [] else [mkFail "C11" true s!"Partial was returned on the first {origLen} bytes, but the completion witness is not accepted" caseLine obsS])
    | "nowit" :: why :: _ =>
      let st := st.bump s!"nowit.{why}"
      (st, if why == "none" then [mkFail "C11" true "Partial, but no tail of the finite completion set completes it and no stated exception applies (model)" caseLine obsS] else [])
    | _ => judgeBasic st caseLine ctoks otoks

def modelLine (st : JState) (l : String) : JState × List String :=
  let ctoks := words l
  match ctoks with
  | "chunk" :: hex :: _ =>
    match unhex? hex with
    | some buf => (st, [s!"{l} => {(chunkObs false buf).text}"])
    | none => (st, [s!"BADLINE {l}"])
  | kind :: rest =>
    match kindOfString kind with
    | none => (st, [s!"BADLINE {l}"])
    | some k =>
      let (cfgS, capS, hexS) := match k, rest with
        | .hdrs, cap :: hex :: _ => ("0", cap, hex)
        | _, cfg :: cap :: hex :: _ => (cfg, cap, hex)
        | _, _ => ("", "", "")
      match cfgS.toNat?, capS.toNat?, unhex? hexS with
      | some cfgN, some cap, some buf =>
        (st, [s!"{l} => {(modelObs k (configOfBits cfgN) cap buf).textFor k}"])
      | _, _, _ => (st, [s!"BADLINE {l}"])
  | [] => (st, [])

end Hx
