/-
  Hx.Parse.Chunk — `parse_chunk_size` of `src/lib.rs`, with the build profile
  (`cfg!(debug_assertions)`) and `u64` overflow made explicit.
-/
import Hx.Bytes
namespace Hx

def U64_MAX : Nat := 2^64 - 1

/-- the body shared by the three digit arms; `d` is the digit value.
Debug builds carry overflow checks, so `size * 16 + d > u64::MAX` is a panic (`ub .overflow`);
release builds wrap. -/
def chunkDigit (dbg : Bool) (count size d : Nat) : Outcome (Nat × Nat) :=
  if count > 15 then .err .chunkSize                       -- `InvalidChunkSize`
  else
    let count := count + 1
    if dbg && size > U64_MAX / 16 then .err .chunkSize     -- `cfg!(debug_assertions) && size > MAX/RADIX`
    else
      let size' := size * 16 + d
      if size' > U64_MAX then
        (if dbg then .ub .overflow else .ok (count, size' % 2^64))
      else .ok (count, size')

/-- the `loop` of `parse_chunk_size`; `pos` = bytes consumed so far (`bytes.pos()`; the function
never commits).  The only error is `InvalidChunkSize`, represented as `err .chunkSize`. -/
def chunkLoop (dbg : Bool) : (pos size count : Nat) → (inSize inExt : Bool) → List Byte → Outcome (Nat × Nat)
  | _, _, _, _, _, [] => .part
  | pos, size, count, inSize, inExt, b :: r =>
    if isDigit b && inSize then
      match chunkDigit dbg count size (b.toNat - 0x30) with
      | .ok (count, size) => chunkLoop dbg (pos + 1) size count inSize inExt r
      | .part => .part | .err e => .err e | .ub u => .ub u
    else if (0x61 ≤ b && b ≤ 0x66) && inSize then
      match chunkDigit dbg count size (b.toNat + 10 - 0x61) with
      | .ok (count, size) => chunkLoop dbg (pos + 1) size count inSize inExt r
      | .part => .part | .err e => .err e | .ub u => .ub u
    else if (0x41 ≤ b && b ≤ 0x46) && inSize then
      match chunkDigit dbg count size (b.toNat + 10 - 0x41) with
      | .ok (count, size) => chunkLoop dbg (pos + 1) size count inSize inExt r
      | .part => .part | .err e => .err e | .ub u => .ub u
    else if count == 0 then .err .chunkSize                -- `_ if count == 0` (the C09 repair)
    else if b == CR then
      match r with
      | [] => .part
      | b2 :: _ => if b2 == LF then .ok (pos + 2, size) else .err .chunkSize
    else if b == SEMI && !inExt then chunkLoop dbg (pos + 1) size count false true r
    else if isWs b && !inExt && !inSize then chunkLoop dbg (pos + 1) size count inSize inExt r
    else if isWs b && inSize then chunkLoop dbg (pos + 1) size count false inExt r
    else if inExt then chunkLoop dbg (pos + 1) size count inSize inExt r
    else .err .chunkSize

/-- `parse_chunk_size(buf)`: `ok (n, size)`, `part`, or `err _` (= `InvalidChunkSize`). -/
def parseChunkSize (dbg : Bool) (buf : List Byte) : Outcome (Nat × Nat) :=
  chunkLoop dbg 0 0 0 true false buf

end Hx
