/-
  Hx.Parse.Headers — `parse_headers_iter_uninit` of `src/lib.rs`.

  `headerLine` is exactly one iteration of `'headers: loop` (up to, not including, the slot
  acquisition); `headersLoop` iterates it over the slot iterator.
-/
import Hx.Bytes
namespace Hx

/-- `HeaderParserConfig` -/
structure HCfg where
  san : Bool    -- allow_spaces_after_header_name
  fold : Bool   -- allow_obsolete_multiline_headers
  sbf : Bool    -- allow_space_before_first_header_name
  ign : Bool    -- ignore_invalid_headers
  deriving DecidableEq, Repr, Inhabited

def HCfg.default : HCfg := ⟨false, false, false, false⟩

/-- What one iteration of `'headers` produced. -/
inductive Line where
  | eoh                                   -- head terminator: `result = Complete(..); break`
  | skipped                               -- `continue 'headers` without a header
  | header (name : Slice) (value : Slice) -- name and untrimmed value slice
  deriving DecidableEq, Repr, Inhabited

/-- the loop of `handle_invalid_char!` (after the `ignore_invalid_headers` test): find the end
of the current line; NUL and a CR not followed by LF stay fatal.  `b` is the current byte
(already consumed). -/
def invalidLoop (e : Error) (start : Nat) : (b : Byte) → (tok rest : List Byte) → Outcome (Unit × Cur)
  | b, tok, rest =>
    if b == CR then
      match rest with
      | [] => .part
      | b2 :: r2 =>
        if b2 == LF then .ok ((), ⟨start + (tok ++ [b2]).length, [], r2⟩)   -- break; slice()
        else .err e
    else if b == LF then .ok ((), ⟨start + tok.length, [], rest⟩)          -- break; slice()
    else if b == NUL then .err e
    else
      match rest with
      | [] => .part
      | b2 :: r2 => invalidLoop e start b2 (tok ++ [b2]) r2

/-- `handle_invalid_char!(bytes, b, err)`; completes with the line dropped (`continue 'headers`). -/
def handleInvalid (hc : HCfg) (e : Error) (b : Byte) : P Unit :=
  if !hc.ign then P.fail e
  else ⟨fun c => invalidLoop e c.start b c.tok c.rest⟩

/-- `while let Some(peek) = bytes.peek() { if peek is SP/HTAB { next!(bytes) } else { break } }` —
never Partial. -/
def skipWsRun : P Unit := ⟨fun c =>
  .ok ((), { c with tok := c.tok ++ c.rest.takeWhile isWs, rest := c.rest.dropWhile isWs })⟩

/-- the `while b == b' ' || b == b'\t'` loop under `allow_spaces_after_header_name`, entered with
a whitespace `b`.  Result `none`: a colon was found (`bytes.slice(); break 'name name`);
`some b`: the first byte that is neither whitespace nor colon. -/
def sanLoop (start : Nat) : (tok rest : List Byte) → Outcome (Option Byte × Cur)
  | _, [] => .part
  | tok, b :: r =>
    if b == COLON then .ok (none, ⟨start + (tok ++ [b]).length, [], r⟩)
    else if isWs b then sanLoop start (tok ++ [b]) r
    else .ok (some b, ⟨start, tok ++ [b], r⟩)

/-- `'name: loop { … }`: `some name` when the colon was reached, `none` when the line was
dropped by `handle_invalid_char!`. -/
def nameStage (be : Backend) (hc : HCfg) : P (Option Slice) := do
  let (_, b) ← scanNext be.name
  let name ← sliceSkip 1
  if b == COLON then pure (some name)
  else if hc.san && isWs b then
    let r ← (⟨fun c => sanLoop c.start c.tok c.rest⟩ : P (Option Byte))
    match r with
    | none => pure (some name)
    | some b' => do handleInvalid hc .headerName b'; pure none
  else do handleInvalid hc .headerName b; pure none

/-- outcome of the `'whitespace_after_colon` loop -/
inductive WsRes where
  | value                -- first value byte consumed (`break 'whitespace_after_colon`)
  | empty (v : Slice)    -- `break 'value &whitespace_slice[0..0]`
  | skipped              -- line dropped by `handle_invalid_char!`
  deriving DecidableEq, Repr, Inhabited

/-- `'whitespace_after_colon: loop { … }` -/
def wsAfterColon (hc : HCfg) : (start : Nat) → (tok rest : List Byte) → Outcome (WsRes × Cur)
  | _, _, [] => .part
  | start, tok, b :: r =>
    if isWs b then wsAfterColon hc (start + (tok ++ [b]).length) [] r   -- slice(); continue
    else if isValue b then .ok (.value, ⟨start, tok ++ [b], r⟩)
    else if b == CR then
      match r with
      | [] => .part
      | b2 :: r2 =>
        if b2 == LF then
          -- maybe_continue_after_obsolete_line_folding!
          if hc.fold then
            match r2 with
            | [] => .part
            | p :: _ =>
              if isWs p then wsAfterColon hc start (tok ++ [b, b2]) r2
              else .ok (.empty ⟨start, []⟩, ⟨start + (tok ++ [b, b2]).length, [], r2⟩)
          else .ok (.empty ⟨start, []⟩, ⟨start + (tok ++ [b, b2]).length, [], r2⟩)
        else .err .headerValue
    else if b == LF then
      if hc.fold then
        match r with
        | [] => .part
        | p :: _ =>
          if isWs p then wsAfterColon hc start (tok ++ [b]) r
          else .ok (.empty ⟨start, []⟩, ⟨start + (tok ++ [b]).length, [], r⟩)
      else .ok (.empty ⟨start, []⟩, ⟨start + (tok ++ [b]).length, [], r⟩)
    else
      match (handleInvalid hc .headerValue b).run ⟨start, tok ++ [b], r⟩ with
      | .ok (_, c) => .ok (.skipped, c)
      | .part => .part
      | .err e => .err e
      | .ub u => .ub u

/-- `'value_lines: loop { … }`; `some v`: the untrimmed value slice, `none`: line dropped.
Fuel stands for the loop; each iteration consumes at least one byte, so `rest.length + 1`
suffices (`Outcome.ub .fuel` is proved unreachable in C01). -/
def valueLines (be : Backend) (hc : HCfg) : Nat → P (Option Slice)
  | 0 => P.undefined .fuel
  | fuel + 1 => do
    let (_, b) ← scanNext be.value
    if b == CR then
      let _ ← expect (· == LF) .headerValue
      if hc.fold then
        ⟨fun c => match c.rest with
          | [] => .part
          | p :: _ => if isWs p then (valueLines be hc fuel).run c
                      else (do let s ← sliceSkip 2; pure (some s) : P (Option Slice)).run c⟩
      else do let s ← sliceSkip 2; pure (some s)
    else if b == LF then
      if hc.fold then
        ⟨fun c => match c.rest with
          | [] => .part
          | p :: _ => if isWs p then (valueLines be hc fuel).run c
                      else (do let s ← sliceSkip 1; pure (some s) : P (Option Slice)).run c⟩
      else do let s ← sliceSkip 1; pure (some s)
    else do handleInvalid hc .headerValue b; pure none

/-- One iteration of `'headers: loop`, up to the point where a slot is requested. -/
def headerLine (be : Backend) (hc : HCfg) (nStored : Nat) : P Line := do
  let b ← next
  if b == CR then
    let _ ← expect (· == LF) .newLine
    pure .eoh
  else if b == LF then pure .eoh
  else if !isTchar b then
    if hc.sbf && nStored == 0 && isWs b then
      skipWsRun
      let _ ← slice
      pure .skipped
    else do handleInvalid hc .headerName b; pure .skipped
  else
    let nm ← nameStage be hc
    match nm with
    | none => pure .skipped
    | some name =>
      let w ← (⟨fun c => wsAfterColon hc c.start c.tok c.rest⟩ : P WsRes)
      match w with
      | .skipped => pure .skipped
      | .empty v => pure (.header name v)
      | .value =>
        let v ← (⟨fun c => (valueLines be hc (c.rest.length + 1)).run c⟩ : P (Option Slice))
        match v with
        | none => pure .skipped
        | some v => pure (.header name v)

/-- the trim after a slot was obtained: up to and including the last byte that is not SP, HTAB,
CR or LF (`rposition`); if there is none the slice is kept as it is. -/
def trimValue (v : Slice) : Slice :=
  if v.bytes.all isTrimWs then v
  else ⟨v.off, (v.bytes.reverse.dropWhile isTrimWs).reverse⟩

/-- `'headers: loop` with the slot iterator over an array of `cap` slots; `hs` are the headers
written so far (slot `i` holds `hs[i]`).  Returns the outcome (`ok c` = cursor after the head
terminator) and the headers written. -/
def headersLoop (be : Backend) (hc : HCfg) (cap : Nat) : Nat → Cur → List Hdr → Outcome Cur × List Hdr
  | 0, _, hs => (.ub .fuel, hs)
  | fuel + 1, c, hs =>
    match (headerLine be hc hs.length).run c with
    | .ok (.eoh, c') => (.ok c', hs)
    | .ok (.skipped, c') => headersLoop be hc cap fuel c' hs
    | .ok (.header n v, c') =>
      if hs.length < cap then headersLoop be hc cap fuel c' (hs ++ [⟨n, trimValue v⟩])
      else (.err .tooManyHeaders, hs)         -- `iter.next()` is `None`: `break 'headers`
    | .part => (.part, hs)
    | .err e => (.err e, hs)
    | .ub u => (.ub u, hs)

/-- `parse_headers_iter_uninit`: status is `Complete(end - start)`; the drop guard shrinks the
slice to the headers written. -/
def parseHeadersIter (be : Backend) (hc : HCfg) (cap : Nat) (c : Cur) : Outcome (Nat × Cur) × List Hdr :=
  match headersLoop be hc cap (c.rest.length + 1) c [] with
  | (.ok c', hs) => (.ok (c'.pos - c.pos, c'), hs)
  | (.part, hs) => (.part, hs)
  | (.err e, hs) => (.err e, hs)
  | (.ub u, hs) => (.ub u, hs)

end Hx
