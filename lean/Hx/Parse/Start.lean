/-
  Hx.Parse.Start — the start-line functions of `src/lib.rs`, mirrored one by one:
  `skip_empty_lines`, `skip_spaces`, `parse_version`, `parse_method`, `parse_token`,
  `parse_uri`, `parse_code`, `parse_reason`.

  Byte loops are structural recursions over the remaining bytes (`rest`), carrying the
  uncommitted bytes (`tok`) — one recursive call per loop iteration.
-/
import Hx.Bytes
import Hx.Utf8
namespace Hx

/-- `skip_empty_lines`: `(CR LF | LF)*`, stops at a peeked other byte, then `slice()`. -/
def skipEmptyLinesGo (start : Nat) : (tok rest : List Byte) → Outcome (Unit × Cur)
  | _, [] => .part                                   -- `None => return Ok(Partial)`
  | tok, b :: r =>
    if b == CR then
      match r with
      | [] => .part                                  -- `next!` inside `expect!`
      | b2 :: r2 =>
        if b2 == LF then skipEmptyLinesGo start (tok ++ [b, b2]) r2
        else .err .newLine
    else if b == LF then skipEmptyLinesGo start (tok ++ [b]) r
    else .ok ((), ⟨start + tok.length, [], b :: r⟩)  -- `bytes.slice(); Complete(())`

def skipEmptyLines : P Unit := ⟨fun c => skipEmptyLinesGo c.start c.tok c.rest⟩

/-- `skip_spaces`: `SP*`, stops at a peeked non-SP, then `slice()`. -/
def skipSpacesGo (start : Nat) : (tok rest : List Byte) → Outcome (Unit × Cur)
  | _, [] => .part
  | tok, b :: r =>
    if b == SP then skipSpacesGo start (tok ++ [b]) r
    else .ok ((), ⟨start + tok.length, [], b :: r⟩)

def skipSpaces : P Unit := ⟨fun c => skipSpacesGo c.start c.tok c.rest⟩

/-- `if config.allow_multiple_spaces… { complete!(skip_spaces(bytes)) }` -/
def optSkipSpaces (on : Bool) : P Unit := if on then skipSpaces else pure ()

def H10 : List Byte := [0x48, 0x54, 0x54, 0x50, 0x2F, 0x31, 0x2E, 0x30]  -- "HTTP/1.0"
def H11 : List Byte := [0x48, 0x54, 0x54, 0x50, 0x2F, 0x31, 0x2E, 0x31]  -- "HTTP/1.1"

/-- `parse_version`: with ≥ 8 bytes, advance 8 and compare (the `u64::from_ne_bytes`
comparison is byte-wise equality on either endianness); with fewer, match `HTTP/1.` byte by
byte and then return Partial even if all 7 matched. -/
def parseVersion : P Nat := ⟨fun c =>
  match c.peekN 8 with
  | some eight =>
    (do advance 8
        if eight == H10 then pure 0
        else if eight == H11 then pure 1
        else P.fail .version : P Nat).run c
  | none =>
    (do let _ ← expect (· == 0x48) .version   -- H
        let _ ← expect (· == 0x54) .version   -- T
        let _ ← expect (· == 0x54) .version   -- T
        let _ ← expect (· == 0x50) .version   -- P
        let _ ← expect (· == 0x2F) .version   -- /
        let _ ← expect (· == 0x31) .version   -- 1
        let _ ← expect (· == 0x2E) .version   -- .
        P.partial_ : P Nat).run c⟩

/-- the loop of `parse_token` (after the first byte) -/
def tokenLoop (start : Nat) : (tok rest : List Byte) → Outcome (Slice × Cur)
  | _, [] => .part
  | tok, b :: r =>
    if b == SP then (sliceSkip 1).run ⟨start, tok ++ [b], r⟩
    else if !isTchar b then .err .token
    else tokenLoop start (tok ++ [b]) r

/-- `parse_token` -/
def parseToken : P Slice := do
  let b ← next
  if !isTchar b then P.fail .token
  else ⟨fun c => tokenLoop c.start c.tok c.rest⟩

def GET_ : List Byte := [0x47, 0x45, 0x54, 0x20]   -- "GET "
def POST : List Byte := [0x50, 0x4F, 0x53, 0x54]   -- "POST"

/-- `parse_method`: the two fast paths, else `parse_token`. -/
def parseMethod : P Slice := ⟨fun c =>
  match c.peekN 4 with
  | some four =>
    if four == GET_ then
      (do advance 4; sliceSkip 1 : P Slice).run c
    else if four == POST then
      match (peekAhead 4).run c with
      | .ok (pb, _) =>
        if pb == some SP then (do advance 5; sliceSkip 1 : P Slice).run c
        else parseToken.run c
      | .part => .part
      | .err e => .err e
      | .ub u => .ub u
    else parseToken.run c
  | none => parseToken.run c⟩

/-- `parse_uri` -/
def parseUri (be : Backend) : P Slice := do
  let (n, b) ← scanNext be.uri
  if b == SP then
    if n == 0 then P.fail .token            -- `end == start`: URI must have at least one char
    else do
      let s ← sliceSkip 1
      if validUtf8 s.bytes then pure s else P.fail .token
  else P.fail .token

/-- `parse_code`.  The `u8`/`u16` arithmetic cannot overflow: each digit is `≤ 9`, the value
`≤ 999`. -/
def parseCode : P Nat := do
  let h ← expect isDigit .status
  let t ← expect isDigit .status
  let o ← expect isDigit .status
  pure ((h.toNat - 0x30) * 100 + (t.toNat - 0x30) * 10 + (o.toNat - 0x30))

/-- the result expression of `parse_reason`: `slice_skip(k)`, replaced by the static `""`
when obs-text was seen -/
def reasonFinish (seen : Bool) (k : Nat) : P Str := do
  let s ← sliceSkip k
  if seen then pure .staticEmpty else pure (.slice s)

/-- the loop of `parse_reason` -/
def reasonLoop (start : Nat) : (seen : Bool) → (tok rest : List Byte) → Outcome (Str × Cur)
  | _, _, [] => .part
  | seen, tok, b :: r =>
    if b == CR then
      match r with
      | [] => .part
      | b2 :: r2 =>
        if b2 == LF then (reasonFinish seen 2).run ⟨start, tok ++ [b, b2], r2⟩
        else .err .status
    else if b == LF then (reasonFinish seen 1).run ⟨start, tok ++ [b], r⟩
    else if !isReason b then .err .status
    else reasonLoop start (seen || 0x80 ≤ b) (tok ++ [b]) r

/-- `parse_reason` -/
def parseReason : P Str := ⟨fun c => reasonLoop c.start false c.tok c.rest⟩

end Hx
