/-
  Hx.Parse.Entry — `Request`/`Response` values, the caller's header array, and the public
  entry points of `src/lib.rs` (4 request, 4 response, `parse_headers`), with the `mem::take`
  / restore glue of the initialised-array wrappers.
-/
import Hx.Parse.Start
import Hx.Parse.Headers
import Hx.Parse.Chunk
namespace Hx

/-- `ParserConfig` (7 switches) -/
structure Config where
  spacesAfterNameResp : Bool      -- allow_spaces_after_header_name_in_responses
  foldResp : Bool                 -- allow_obsolete_multiline_headers_in_responses
  multiReq : Bool                 -- allow_multiple_spaces_in_request_line_delimiters
  multiResp : Bool                -- allow_multiple_spaces_in_response_status_delimiters
  spaceBeforeFirst : Bool         -- allow_space_before_first_header_name
  ignResp : Bool                  -- ignore_invalid_headers_in_responses
  ignReq : Bool                   -- ignore_invalid_headers_in_requests
  deriving DecidableEq, Repr, Inhabited

def Config.default : Config := ⟨false, false, false, false, false, false, false⟩

/-- the `HeaderParserConfig` a request parse builds -/
def Config.reqH (cfg : Config) : HCfg := ⟨false, false, cfg.spaceBeforeFirst, cfg.ignReq⟩
/-- the `HeaderParserConfig` a response parse builds -/
def Config.respH (cfg : Config) : HCfg :=
  ⟨cfg.spacesAfterNameResp, cfg.foldResp, cfg.spaceBeforeFirst, cfg.ignResp⟩

/-- the public non-`headers` fields of `Request` -/
structure ReqVal where
  method : Option Slice
  path : Option Slice
  version : Option Nat
  deriving DecidableEq, Repr, Inhabited

/-- the public non-`headers` fields of `Response` -/
structure RespVal where
  version : Option Nat
  code : Option Nat
  reason : Option Str
  deriving DecidableEq, Repr, Inhabited

def ReqVal.fresh : ReqVal := ⟨none, none, none⟩
def RespVal.fresh : RespVal := ⟨none, none, none⟩

/-- Result of a core parse (`parse_with_config_and_uninit_headers`): status, the fields after
the call, and the headers written into slots `0..hdrs.length`. -/
structure Res (V : Type) where
  status : Outcome Nat
  val : V
  hdrs : List Hdr
  deriving Repr

/-- `complete!(stage)`: continue on `Complete`, otherwise return with the fields as they are. -/
@[inline] def step {α V : Type} (o : Outcome (α × Cur)) (v : V) (k : α → Cur → Res V) : Res V :=
  match o with
  | .ok (a, c) => k a c
  | .part => ⟨.part, v, []⟩
  | .err e => ⟨.err e, v, []⟩
  | .ub u => ⟨.ub u, v, []⟩

/-- tail shared by both message kinds: `len`, the header block, `Complete(len + headers_len)` -/
def finishHeaders {V : Type} (be : Backend) (hc : HCfg) (cap : Nat) (buf : List Byte) (c : Cur) (v : V) : Res V :=
  let len := buf.length - c.len                       -- `orig_len - bytes.len()`
  match parseHeadersIter be hc cap c with
  | (.ok (hl, _), hs) => ⟨.ok (len + hl), v, hs⟩
  | (.part, hs) => ⟨.part, v, hs⟩
  | (.err e, hs) => ⟨.err e, v, hs⟩
  | (.ub u, hs) => ⟨.ub u, v, hs⟩

/-- `Request::parse_with_config_and_uninit_headers` -/
def reqCore (be : Backend) (cfg : Config) (cap : Nat) (buf : List Byte) (v : ReqVal) : Res ReqVal :=
  step ((skipEmptyLines).run (Cur.new buf)) v fun _ c =>
  step ((parseMethod).run c) v fun m c =>
  let v := { v with method := some m }
  step ((optSkipSpaces cfg.multiReq).run c) v fun _ c =>
  step ((parseUri be).run c) v fun p c =>
  let v := { v with path := some p }
  step ((optSkipSpaces cfg.multiReq).run c) v fun _ c =>
  step ((parseVersion).run c) v fun ver c =>
  let v := { v with version := some ver }
  step ((newline).run c) v fun _ c =>
  finishHeaders be cfg.reqH cap buf c v

/-- the `match next!(bytes) { b' ' => …, b'\r' => …, b'\n' => …, _ => Err(Status) }` of the
response parser -/
def reasonBranch (multi : Bool) : P Str := do
  let b ← next
  if b == SP then
    optSkipSpaces multi
    let _ ← slice
    parseReason
  else if b == CR then
    let _ ← expect (· == LF) .status
    let _ ← slice
    pure .staticEmpty
  else if b == LF then
    let _ ← slice
    pure .staticEmpty
  else P.fail .status

/-- `Response::parse_with_config_and_uninit_headers` -/
def respCore (be : Backend) (cfg : Config) (cap : Nat) (buf : List Byte) (v : RespVal) : Res RespVal :=
  step ((skipEmptyLines).run (Cur.new buf)) v fun _ c =>
  step ((parseVersion).run c) v fun ver c =>
  let v := { v with version := some ver }
  step ((space .version).run c) v fun _ c =>
  step ((optSkipSpaces cfg.multiResp).run c) v fun _ c =>
  step ((parseCode).run c) v fun code c =>
  let v := { v with code := some code }
  step ((reasonBranch cfg.multiResp).run c) v fun reason c =>
  let v := { v with reason := some reason }
  finishHeaders be cfg.respH cap buf c v

/-- `parse_headers(src, dst)` with `dst.len() = cap`: status and the returned (shrunk) slice. -/
def parseHeaders (be : Backend) (cap : Nat) (buf : List Byte) : Outcome Nat × List Hdr :=
  match parseHeadersIter be HCfg.default cap (Cur.new buf) with
  | (.ok (n, _), hs) => (.ok n, hs)
  | (.part, hs) => (.part, hs)
  | (.err e, hs) => (.err e, hs)
  | (.ub u, hs) => (.ub u, hs)

/-! ### The caller's array and the wrappers -/

/-- content of one slot of the caller's header array -/
inductive Slot where
  | old (i : Nat)      -- whatever was there before (the `i`-th sentinel)
  | hdr (h : Hdr)      -- a header written by a parse call
  | uninit             -- `MaybeUninit::uninit()`
  deriving DecidableEq, Repr, Inhabited

abbrev Arr := List Slot

/-- slots `0..hs.length` overwritten by the headers written, the rest untouched -/
def Arr.write (a : Arr) (hs : List Hdr) : Arr := hs.map Slot.hdr ++ a.drop hs.length

/-- A `Request`/`Response` as the caller sees it: the value fields, and `headers` as a view
(`viewOff`, `viewLen`) into an array. -/
structure Handle (V : Type) where
  val : V
  viewLen : Nat
  deriving Repr

/-- result of a wrapper call: status, the value afterwards, `headers.len()` afterwards, and the
array afterwards -/
structure CallRes (V : Type) where
  status : Outcome Nat
  val : V
  viewLen : Nat
  arr : Arr
  deriving Repr

/-- `Request::parse_with_config(buf, config)` (and `Request::parse` with the default config,
`ParserConfig::parse_request`): `mem::take(&mut self.headers)`, run the core on the whole
current `headers` slice, keep the shrunk slice on Complete, otherwise put the original back. -/
def callInit {V : Type} (core : Nat → V → Res V) (h : Handle V) (arr : Arr) : CallRes V :=
  let r := core h.viewLen h.val
  let arr' := Arr.write arr r.hdrs
  match r.status with
  | .ok n => ⟨.ok n, r.val, r.hdrs.length, arr'⟩            -- `self.headers = assume_init_slice(headers)`
  | o => ⟨o, r.val, h.viewLen, arr'⟩                        -- `self.headers = original`

/-- the `*_with_uninit_headers` entry points: parse into a separate uninitialised array of
`cap` slots; `self.headers` is assigned only on Complete. -/
def callUninit {V : Type} (core : Nat → V → Res V) (h : Handle V) (cap : Nat) (uarr : Arr) : CallRes V :=
  let r := core cap h.val
  let uarr' := Arr.write uarr r.hdrs
  match r.status with
  | .ok n => ⟨.ok n, r.val, r.hdrs.length, uarr'⟩
  | o => ⟨o, r.val, h.viewLen, uarr'⟩

end Hx
