/-
  Hx.Parse.Lines — the start-line part of `reqCore` / `respCore` as single parsing steps
  (the same stages in the same order; used to state the grammar theorems C06/C07).
-/
import Hx.Parse.Entry
namespace Hx

/-- the request line: `skip_empty_lines`, method, [SP*], target, [SP*], version, `newline!` -/
def reqLineP (be : Backend) (multi : Bool) : P (Slice × Slice × Nat) := do
  skipEmptyLines
  let m ← parseMethod
  optSkipSpaces multi
  let p ← parseUri be
  optSkipSpaces multi
  let v ← parseVersion
  newline
  pure (m, p, v)

/-- the status line: `skip_empty_lines`, version, `space!`, [SP*], code, reason branch -/
def respLineP (multi : Bool) : P (Nat × Nat × Str) := do
  skipEmptyLines
  let v ← parseVersion
  space .version
  optSkipSpaces multi
  let c ← parseCode
  let r ← reasonBranch multi
  pure (v, c, r)

end Hx
