/-
  Hx.Lemmas.StableHeaders — S1 for the header-block stages, the header loop and
  `parse_headers_iter_uninit`.
-/
import Hx.Lemmas.StableStart
namespace Hx
namespace SA

/-! ### relating two stages (the same stage run with different fuel) -/

/-- `g` on the extended buffer reproduces every Complete/Err outcome of `f` -/
def Ext {α : Type} (f g : P α) : Prop := ∀ c ext, SE ext (f.run c) (g.run (c.shift ext))

theorem Ext.of_stable {α : Type} {f : P α} (h : Stable f) : Ext f f := fun c ext => se_of h c ext

theorem Ext.stable {α : Type} {f : P α} (h : Ext f f) : Stable f := stable_of_se h

theorem Ext.bind {α β : Type} {f f' : P α} {g g' : α → P β} (hf : Ext f f') (hg : ∀ a, Ext (g a) (g' a)) :
    Ext (f >>= g) (f' >>= g') := by
  intro c ext
  have h1 := hf c ext
  simp only [run_bind]
  cases hr : f.run c with
  | ok p =>
    obtain ⟨a, c1⟩ := p
    rw [hr] at h1; simp only [SE_ok] at h1
    rw [h1]; exact hg a c1 ext
  | part => simp
  | err e => rw [hr] at h1; simp only [SE_err] at h1; rw [h1]; simp
  | ub u => simp

theorem Ext.dite {α : Type} {p : Prop} [Decidable p] {f f' g g' : P α} (hf : Ext f f') (hg : Ext g g') :
    Ext (if p then f else g) (if p then f' else g') := by
  split <;> assumption

/-- the look-ahead of `maybe_continue_after_obsolete_line_folding!` -/
theorem Ext.peek {α : Type} (q : Byte → Bool) {f f' g g' : P α} (hf : Ext f f') (hg : Ext g g') :
    Ext (⟨fun c => match c.rest with
            | [] => .part
            | p :: _ => if q p then f.run c else g.run c⟩ : P α)
        (⟨fun c => match c.rest with
            | [] => .part
            | p :: _ => if q p then f'.run c else g'.run c⟩ : P α) := by
  intro c ext
  simp only [shift_rest]
  cases hr : c.rest with
  | nil => simp
  | cons p r =>
    simp only [List.cons_append]
    split
    · exact hf c ext
    · exact hg c ext

theorem Ext.pure {α : Type} (a : α) : Ext (pure a : P α) (pure a) := Ext.of_stable (Stable.pure a)
theorem Ext.fail {α : Type} (e : Error) : Ext (P.fail e : P α) (P.fail e) := Ext.of_stable (Stable.fail e)

/-! ### `handle_invalid_char!` -/

theorem invalidLoop_unfold (e : Error) (start : Nat) (b : Byte) (tok rest : List Byte) :
    invalidLoop e start b tok rest =
      if b == CR then
        match rest with
        | [] => .part
        | b2 :: r2 =>
          if b2 == LF then .ok ((), ⟨start + (tok ++ [b2]).length, [], r2⟩)
          else .err e
      else if b == LF then .ok ((), ⟨start + tok.length, [], rest⟩)
      else if b == NUL then .err e
      else
        match rest with
        | [] => .part
        | b2 :: r2 => invalidLoop e start b2 (tok ++ [b2]) r2 := by
  rw [invalidLoop.eq_def]; rfl

theorem invalidLoop_se (e : Error) (start : Nat) (ext : List Byte) : ∀ (rest : List Byte) (b : Byte) (tok : List Byte),
    SE ext (invalidLoop e start b tok rest) (invalidLoop e start b tok (rest ++ ext))
  | rest, b, tok => by
    rw [invalidLoop_unfold e start b tok rest, invalidLoop_unfold e start b tok (rest ++ ext)]
    split
    · cases rest with
      | nil => simp
      | cons b2 r2 => simp only [List.cons_append]; split <;> simp
    · split
      · simp
      · split
        · simp
        · cases rest with
          | nil => simp
          | cons b2 r2 => simp only [List.cons_append]; exact invalidLoop_se e start ext r2 b2 _
termination_by rest => rest.length

theorem handleInvalid_stable (hc : HCfg) (e : Error) (b : Byte) : Stable (handleInvalid hc e b) := by
  unfold handleInvalid
  apply Stable.dite
  · exact Stable.fail _
  · exact stable_of_loop (fun start tok rest => invalidLoop e start b tok rest)
      fun start tok rest ext => invalidLoop_se e start ext rest b tok

/-! ### header name -/

theorem sanLoop_se (start : Nat) (ext : List Byte) : ∀ (rest tok : List Byte),
    SE ext (sanLoop start tok rest) (sanLoop start tok (rest ++ ext))
  | [], tok => by simp [sanLoop]
  | b :: r, tok => by
    rw [List.cons_append, sanLoop, sanLoop]
    split
    · simp
    · split
      · exact sanLoop_se start ext r _
      · simp

theorem nameStage_stable {be : Backend} (hbe : be.Exact) (hc : HCfg) : Stable (nameStage be hc) := by
  unfold nameStage
  apply Stable.bind (scanNext_stable hbe.name)
  rintro ⟨n, b⟩
  dsimp only
  apply Stable.bind (sliceSkip_stable 1); intro name
  apply Stable.dite
  · exact Stable.pure _
  · apply Stable.dite
    · apply Stable.bind (stable_of_loop _ fun start tok rest ext => sanLoop_se start ext rest tok)
      intro r
      cases r with
      | none => exact Stable.pure _
      | some b' =>
        dsimp only
        apply Stable.bind (handleInvalid_stable _ _ _); intro _
        exact Stable.pure _
    · apply Stable.bind (handleInvalid_stable _ _ _); intro _
      exact Stable.pure _

/-! ### whitespace after the colon -/

theorem wsAfterColon_cons (hc : HCfg) (start : Nat) (tok : List Byte) (b : Byte) (r : List Byte) :
    wsAfterColon hc start tok (b :: r) =
      if isWs b then wsAfterColon hc (start + (tok ++ [b]).length) [] r
      else if isValue b then .ok (.value, ⟨start, tok ++ [b], r⟩)
      else if b == CR then
        match r with
        | [] => .part
        | b2 :: r2 =>
          if b2 == LF then
            if hc.fold then
              match r2 with
              | [] => .part
              | p :: _ =>
                if isWs p then wsAfterColon hc start (tok ++ [b, b2]) r2
                else .ok (.empty ⟨start, []⟩, ⟨start + (tok ++ [b, b2]).length, [], r2⟩)
            else .ok (.empty ⟨start, []⟩, ⟨start + (tok ++ [b, b2]).length, [], r2⟩)
          else .err .headerValue
      else if b == LF then
        if hc.fold then
          match r with
          | [] => .part
          | p :: _ =>
            if isWs p then wsAfterColon hc start (tok ++ [b]) r
            else .ok (.empty ⟨start, []⟩, ⟨start + (tok ++ [b]).length, [], r⟩)
        else .ok (.empty ⟨start, []⟩, ⟨start + (tok ++ [b]).length, [], r⟩)
      else
        match (handleInvalid hc .headerValue b).run ⟨start, tok ++ [b], r⟩ with
        | .ok (_, c) => .ok (.skipped, c)
        | .part => .part
        | .err e => .err e
        | .ub u => .ub u := by
  rw [wsAfterColon.eq_def]; rfl

theorem wsAfterColon_se (hc : HCfg) (ext : List Byte) : ∀ (rest : List Byte) (start : Nat) (tok : List Byte),
    SE ext (wsAfterColon hc start tok rest) (wsAfterColon hc start tok (rest ++ ext))
  | [], start, tok => by simp [wsAfterColon]
  | b :: r, start, tok => by
    rw [List.cons_append, wsAfterColon_cons hc start tok b r, wsAfterColon_cons hc start tok b (r ++ ext)]
    split
    · exact wsAfterColon_se hc ext r _ _
    · split
      · simp
      · split
        · cases r with
          | nil => simp
          | cons b2 r2 =>
            simp only [List.cons_append]
            split
            · split
              · cases r2 with
                | nil => simp
                | cons p r3 =>
                  simp only [List.cons_append]
                  split
                  · exact wsAfterColon_se hc ext (p :: r3) _ _
                  · simp
              · simp
            · simp
        · split
          · split
            · cases r with
              | nil => simp
              | cons p r3 =>
                simp only [List.cons_append]
                split
                · exact wsAfterColon_se hc ext (p :: r3) _ _
                · simp
            · simp
          · have h := se_of (handleInvalid_stable hc .headerValue b) ⟨start, tok ++ [b], r⟩ ext
            simp only [shift_mk] at h
            cases hr : (handleInvalid hc .headerValue b).run ⟨start, tok ++ [b], r⟩ with
            | ok p => obtain ⟨u, c1⟩ := p; rw [hr] at h; simp only [SE_ok] at h; rw [h]; simp
            | part => simp
            | err e => rw [hr] at h; simp only [SE_err] at h; rw [h]; simp
            | ub u => simp
termination_by rest => rest.length

theorem wsStage_stable (hc : HCfg) : Stable (⟨fun c => wsAfterColon hc c.start c.tok c.rest⟩ : P WsRes) :=
  stable_of_loop (fun start tok rest => wsAfterColon hc start tok rest)
    fun start tok rest ext => wsAfterColon_se hc ext rest start tok

/-! ### value lines -/

theorem valueLines_ext {be : Backend} (hbe : be.Exact) (hc : HCfg) : ∀ (fuel k : Nat),
    Ext (valueLines be hc fuel) (valueLines be hc (fuel + k))
  | 0, k => by intro c ext; simp [valueLines]
  | fuel + 1, k => by
    have ih := valueLines_ext hbe hc fuel k
    have e1 : fuel + 1 + k = (fuel + k) + 1 := by omega
    rw [e1]
    unfold valueLines
    apply Ext.bind (Ext.of_stable (scanNext_stable hbe.value))
    rintro ⟨n, b⟩
    dsimp only
    apply Ext.dite
    · apply Ext.bind (Ext.of_stable (expect_stable _ _)); intro _
      apply Ext.dite
      · apply Ext.peek isWs ih
        apply Ext.of_stable
        apply Stable.bind (sliceSkip_stable 2); intro s
        exact Stable.pure _
      · apply Ext.of_stable
        apply Stable.bind (sliceSkip_stable 2); intro s
        exact Stable.pure _
    · apply Ext.dite
      · apply Ext.dite
        · apply Ext.peek isWs ih
          apply Ext.of_stable
          apply Stable.bind (sliceSkip_stable 1); intro s
          exact Stable.pure _
        · apply Ext.of_stable
          apply Stable.bind (sliceSkip_stable 1); intro s
          exact Stable.pure _
      · apply Ext.of_stable
        apply Stable.bind (handleInvalid_stable _ _ _); intro _
        exact Stable.pure _

/-- the `'value_lines` loop as `headerLine` calls it (fuel taken from the remaining length) -/
theorem valueStage_stable {be : Backend} (hbe : be.Exact) (hc : HCfg) :
    Stable (⟨fun c => (valueLines be hc (c.rest.length + 1)).run c⟩ : P (Option Slice)) := by
  apply stable_of_se
  intro c ext
  simp only [shift_rest, List.length_append]
  have e1 : c.rest.length + ext.length + 1 = (c.rest.length + 1) + ext.length := by omega
  rw [e1]
  exact valueLines_ext hbe hc (c.rest.length + 1) ext.length c ext

/-! ### one header line: stable unless it is a skipped whitespace line reaching the end -/

/-- like `SE`, but a Complete outcome is only claimed to persist when `Q` holds of it -/
def SEQ {α : Type} (Q : α → Cur → Prop) (ext : List Byte) (short long : Outcome (α × Cur)) : Prop :=
  match short with
  | .ok (a, c) => Q a c → long = .ok (a, c.shift ext)
  | .err e => long = .err e
  | _ => True

def StableQ {α : Type} (Q : α → Cur → Prop) (f : P α) : Prop :=
  ∀ c ext, SEQ Q ext (f.run c) (f.run (c.shift ext))

theorem SEQ.of_se {α : Type} {Q : α → Cur → Prop} {ext : List Byte} {s l : Outcome (α × Cur)}
    (h : SE ext s l) : SEQ Q ext s l := by
  cases s with
  | ok p => obtain ⟨a, c⟩ := p; intro _; exact h
  | part => trivial
  | err e => exact h
  | ub u => trivial

theorem StableQ.of_stable {α : Type} {Q : α → Cur → Prop} {f : P α} (h : Stable f) : StableQ Q f :=
  fun c ext => SEQ.of_se (se_of h c ext)

theorem StableQ.bind {α β : Type} {Q : β → Cur → Prop} {f : P α} {g : α → P β}
    (hf : Stable f) (hg : ∀ a, StableQ Q (g a)) : StableQ Q (f >>= g) := by
  intro c ext
  have h1 := se_of hf c ext
  simp only [run_bind]
  cases hr : f.run c with
  | ok p =>
    obtain ⟨a, c1⟩ := p
    rw [hr] at h1; simp only [SE_ok] at h1
    rw [h1]; exact hg a c1 ext
  | part => trivial
  | err e => rw [hr] at h1; simp only [SE_err] at h1; rw [h1]; rfl
  | ub u => trivial

theorem StableQ.dite {α : Type} {Q : α → Cur → Prop} {p : Prop} [Decidable p] {f g : P α}
    (hf : StableQ Q f) (hg : StableQ Q g) : StableQ Q (if p then f else g) := by
  split <;> assumption

/-- the condition under which a header line's Complete outcome persists -/
def LineQ (l : Line) (c : Cur) : Prop := l = .skipped → c.rest ≠ []

theorem wsLine_stableQ : StableQ LineQ (do skipWsRun; let _ ← slice; pure Line.skipped : P Line) := by
  intro c ext
  simp only [skipWsRun, slice, run_bind, run_pure, shift_rest, shift_start, shift_tok]
  intro hq
  have hne : c.rest.dropWhile isWs ≠ [] := hq rfl
  cases hd : c.rest.dropWhile isWs with
  | nil => exact absurd hd hne
  | cons b r =>
    have := dw_append ext c.rest hd
    simp [this.1, this.2]

theorem headerLine_stableQ {be : Backend} (hbe : be.Exact) (hc : HCfg) (n : Nat) :
    StableQ LineQ (headerLine be hc n) := by
  unfold headerLine
  apply StableQ.bind next_stable; intro b
  apply StableQ.dite
  · apply StableQ.of_stable
    apply Stable.bind (expect_stable _ _); intro _
    exact Stable.pure _
  · apply StableQ.dite
    · exact StableQ.of_stable (Stable.pure _)
    · apply StableQ.dite
      · apply StableQ.dite
        · exact wsLine_stableQ
        · apply StableQ.of_stable
          apply Stable.bind (handleInvalid_stable _ _ _); intro _
          exact Stable.pure _
      · apply StableQ.of_stable
        apply Stable.bind (nameStage_stable hbe hc); intro nm
        cases nm with
        | none => exact Stable.pure _
        | some name =>
          dsimp only
          apply Stable.bind (wsStage_stable hc); intro w
          cases w with
          | skipped => exact Stable.pure _
          | empty v => exact Stable.pure _
          | value =>
            dsimp only
            apply Stable.bind (valueStage_stable hbe hc); intro v
            cases v with
            | none => exact Stable.pure _
            | some v => exact Stable.pure _

/-! ### the header loop -/

/-- what the header loop on the extended buffer must return -/
def SEH (ext : List Byte) (short long : Outcome Cur × List Hdr) : Prop :=
  match short with
  | (.ok c, hs) => long = (.ok (c.shift ext), hs)
  | (.err e, hs) => long = (.err e, hs)
  | _ => True

theorem headerLine_nil (be : Backend) (hc : HCfg) (n : Nat) (c : Cur) (h : c.rest = []) :
    (headerLine be hc n).run c = .part := by
  simp [headerLine, next, h]

theorem headersLoop_nil (be : Backend) (hc : HCfg) (cap : Nat) (c : Cur) (hs : List Hdr) (h : c.rest = []) :
    ∀ fuel, headersLoop be hc cap fuel c hs = (.ub .fuel, hs) ∨ headersLoop be hc cap fuel c hs = (.part, hs)
  | 0 => Or.inl rfl
  | fuel + 1 => by
    right
    rw [headersLoop, headerLine_nil be hc _ c h]

theorem headersLoop_ext {be : Backend} (hbe : be.Exact) (hc : HCfg) (cap : Nat) (ext : List Byte) (k : Nat) :
    ∀ (fuel : Nat) (c : Cur) (hs : List Hdr),
      SEH ext (headersLoop be hc cap fuel c hs) (headersLoop be hc cap (fuel + k) (c.shift ext) hs)
  | 0, c, hs => by simp [headersLoop, SEH]
  | fuel + 1, c, hs => by
    have e1 : fuel + 1 + k = (fuel + k) + 1 := by omega
    rw [e1, headersLoop, headersLoop]
    have hl := headerLine_stableQ hbe hc hs.length c ext
    cases hr : (headerLine be hc hs.length).run c with
    | ok p =>
      obtain ⟨l, c1⟩ := p
      rw [hr] at hl
      simp only [SEQ, LineQ] at hl
      cases l with
      | eoh =>
        rw [hl (by simp)]
        simp [SEH]
      | skipped =>
        by_cases hn : c1.rest = []
        · rcases headersLoop_nil be hc cap c1 hs hn fuel with h | h <;> simp [h, SEH]
        · rw [hl (fun _ => hn)]
          exact headersLoop_ext hbe hc cap ext k fuel c1 hs
      | header nm v =>
        rw [hl (by simp)]
        simp only
        split
        · exact headersLoop_ext hbe hc cap ext k fuel c1 _
        · simp [SEH]
    | part => simp [SEH]
    | err e =>
      rw [hr] at hl
      simp only [SEQ] at hl
      rw [hl]; simp [SEH]
    | ub u => simp [SEH]

/-- what `parse_headers_iter_uninit` on the extended buffer must return -/
def SEI (ext : List Byte) (short long : Outcome (Nat × Cur) × List Hdr) : Prop :=
  match short with
  | (.ok (n, c), hs) => long = (.ok (n, c.shift ext), hs)
  | (.err e, hs) => long = (.err e, hs)
  | _ => True

theorem parseHeadersIter_ext {be : Backend} (hbe : be.Exact) (hc : HCfg) (cap : Nat) (c : Cur) (ext : List Byte) :
    SEI ext (parseHeadersIter be hc cap c) (parseHeadersIter be hc cap (c.shift ext)) := by
  have h := headersLoop_ext hbe hc cap ext ext.length (c.rest.length + 1) c []
  have e1 : (c.shift ext).rest.length + 1 = c.rest.length + 1 + ext.length := by simp; omega
  unfold parseHeadersIter
  rw [e1]
  generalize headersLoop be hc cap (c.rest.length + 1) c [] = s at h
  obtain ⟨o, hs⟩ := s
  cases o with
  | ok c' => simp only [SEH] at h; rw [h]; simp [SEI, Cur.pos]
  | part => simp [SEI]
  | err e => simp only [SEH] at h; rw [h]; simp [SEI]
  | ub u => simp [SEI]

end SA
end Hx
