/-
  Hx.Lemmas.CompStart — C11 for the start-line stages: each stage returning Partial is completed
  by a tail of `reqTails` / `respTails`, after which the remaining stages complete.
-/
import Hx.Lemmas.CompHeaders
import Hx.Lemmas.StartGrammar
namespace Hx
namespace Comp
open SA

/-! ### the tails as byte lists -/

def RV0 : List Byte := H11 ++ T1                 -- "HTTP/1.1\r\n\r\n"
def RD : List Byte := 0x2F :: SP :: RV0          -- "/ HTTP/1.1\r\n\r\n"
def RC : List Byte := SP :: RD                   -- " / HTTP/1.1\r\n\r\n"
def RA : List Byte := 0x47 :: 0x45 :: 0x54 :: RC -- "GET / HTTP/1.1\r\n\r\n"

def SD : List Byte := 0x20 :: 0x4F :: 0x4B :: T1               -- " OK\r\n\r\n"
def SC : List Byte := 0x32 :: 0x30 :: 0x30 :: SD               -- "200 OK\r\n\r\n"
def SB : List Byte := SP :: SC                                 -- " 200 OK\r\n\r\n"
def SA' : List Byte := H11 ++ SB                               -- "HTTP/1.1 200 OK\r\n\r\n"

theorem reqTails_eq : reqTails =
    [CRLF, [LF], T3, T1, T2, RA, LF :: RA, RC, RD] ++ utf8Completions.map (fun u => u ++ SP :: RV0) ++
      (List.range 8).map (fun k => H11.drop k ++ T1) := by decide +kernel

theorem respTails_eq : respTails =
    [CRLF, [LF], T3, T1, T2, SA', LF :: SA'] ++ (List.range 8).map (fun k => H11.drop k ++ SB) ++
      [SB, SC, 0x30 :: 0x30 :: T1, 0x30 :: T1] := by decide +kernel

theorem headerTails_sub_req {w : List Byte} (h : w ∈ headerTails) : w ∈ reqTails := by
  rw [headerTails_eq] at h
  rw [reqTails_eq]
  simp only [List.mem_cons, List.not_mem_nil, or_false] at h
  simp only [List.cons_append, List.nil_append, List.mem_cons]
  rcases h with rfl | rfl | rfl | rfl | rfl <;> simp

theorem headerTails_sub_resp {w : List Byte} (h : w ∈ headerTails) : w ∈ respTails := by
  rw [headerTails_eq] at h
  rw [respTails_eq]
  simp only [List.mem_cons, List.not_mem_nil, or_false] at h
  simp only [List.cons_append, List.nil_append, List.mem_cons]
  rcases h with rfl | rfl | rfl | rfl | rfl <;> simp

/-- the usual postcondition: a committed cursor in front of a known remainder -/
def AtRest {α : Type} (X : List Byte) : α → Cur → Prop := fun _ c => c.tok = [] ∧ c.rest = X

/-- postcondition when uncommitted bytes are irrelevant -/
def RestIs {α : Type} (X : List Byte) : α → Cur → Prop := fun _ c => c.rest = X

/-! ### `skip_empty_lines` -/

theorem skipEmptyLinesGo_part (s : Nat) (x : Byte) (X : List Byte) (h1 : (x == CR) = false) (h2 : (x == LF) = false) :
    ∀ (rest tok : List Byte), skipEmptyLinesGo s tok rest = .part →
      (∃ s', skipEmptyLinesGo s tok (rest ++ x :: X) = .ok ((), ⟨s', [], x :: X⟩)) ∨
      (∃ s', skipEmptyLinesGo s tok (rest ++ LF :: x :: X) = .ok ((), ⟨s', [], x :: X⟩))
  | [], tok, _ => by
    left
    simp only [List.nil_append, skipEmptyLinesGo_cons, h1, h2]
    exact ⟨_, rfl⟩
  | b :: r, tok, h => by
    rw [skipEmptyLinesGo_cons] at h
    simp only [List.cons_append, skipEmptyLinesGo_cons s tok b]
    split at h
    · rename_i hb
      simp only [hb, if_true]
      cases r with
      | nil =>
        right
        simp only [List.nil_append, beq_self_eq_true, if_true, skipEmptyLinesGo_cons, h1, h2]
        exact ⟨_, rfl⟩
      | cons b2 r2 =>
        simp only [List.cons_append] at h ⊢
        split at h
        · rename_i hb2
          simp only [hb2, if_true]
          exact skipEmptyLinesGo_part s x X h1 h2 r2 _ h
        · cases h
    · rename_i hb
      simp only [hb]
      split at h
      · rename_i hb2
        simp only [hb2, if_true]
        exact skipEmptyLinesGo_part s x X h1 h2 r _ h
      · cases h
termination_by rest => rest.length

theorem skipEmptyLines_part {W : List (List Byte)} (x : Byte) (X : List Byte)
    (h1 : (x == CR) = false) (h2 : (x == LF) = false) (hw1 : (x :: X) ∈ W) (hw2 : (LF :: x :: X) ∈ W) :
    PartC W NoE (AtRest (x :: X)) skipEmptyLines := by
  intro c h
  right
  rcases skipEmptyLinesGo_part c.start x X h1 h2 c.rest c.tok h with ⟨s', hr⟩ | ⟨s', hr⟩
  · exact ⟨_, hw1, (), _, hr, rfl, rfl⟩
  · exact ⟨_, hw2, (), _, hr, rfl, rfl⟩

/-! ### `skip_spaces` -/

theorem skipSpacesGo_part (s : Nat) (x : Byte) (X : List Byte) (h1 : (x == SP) = false) :
    ∀ (rest tok : List Byte), skipSpacesGo s tok rest = .part →
      ∃ s', skipSpacesGo s tok (rest ++ x :: X) = .ok ((), ⟨s', [], x :: X⟩)
  | [], tok, _ => by
    simp only [List.nil_append, skipSpacesGo, h1]
    exact ⟨_, rfl⟩
  | b :: r, tok, h => by
    rw [skipSpacesGo] at h
    simp only [List.cons_append, skipSpacesGo]
    split at h
    · rename_i hb
      simp only [hb, if_true]
      exact skipSpacesGo_part s x X h1 r _ h
    · cases h

theorem optSkipSpaces_part {W : List (List Byte)} (on : Bool) (x : Byte) (X : List Byte)
    (h1 : (x == SP) = false) (hw : (x :: X) ∈ W) :
    PartC W NoE (AtRest (x :: X)) (optSkipSpaces on) := by
  intro c h
  cases on with
  | false => simp [optSkipSpaces] at h
  | true =>
    right
    simp only [optSkipSpaces, if_true] at h ⊢
    obtain ⟨s', hr⟩ := skipSpacesGo_part c.start x X h1 c.rest c.tok h
    exact ⟨_, hw, (), _, hr, rfl, rfl⟩

/-- on a committed cursor in front of a non-SP byte the optional space run is a no-op -/
theorem optSkipSpaces_noop (on : Bool) (s : Nat) (x : Byte) (X : List Byte) (h1 : x ≠ SP) :
    (optSkipSpaces on).run ⟨s, [], x :: X⟩ = .ok ((), ⟨s, [], x :: X⟩) := by
  apply (optSkipSpaces_ok on s (x :: X) _).2
  exact ⟨[], x :: X, rfl, by simp, fun _ => rfl, fun _ => ⟨x, X, rfl, h1⟩, rfl⟩

/-! ### `newline!` -/

theorem newline_part {W : List (List Byte)} (hw1 : T1 ∈ W) (hw2 : T2 ∈ W) :
    PartC W NoE (AtRest CRLF) newline := by
  intro c h
  right
  obtain ⟨s, tok, r⟩ := c
  rw [newline_run] at h
  cases r with
  | nil =>
    refine ⟨T1, hw1, (), ⟨s + tok.length + 2, [], CRLF⟩, ?_, rfl, rfl⟩
    simp [newline_run, T1, CRLF]
  | cons b r1 =>
    simp only at h
    split at h
    · rename_i hb
      simp only [beq_iff_eq] at hb
      subst hb
      cases r1 with
      | nil =>
        refine ⟨T2, hw2, (), ⟨s + tok.length + 2, [], CRLF⟩, ?_, rfl, rfl⟩
        simp [newline_run, T2, CRLF]
      | cons b2 r2 => simp only at h; split at h <;> cases h
    · split at h <;> cases h

theorem newline_T1 (c : Cur) (h : c.rest = T1) :
    ∃ c', newline.run c = .ok ((), c') ∧ c'.tok = [] ∧ c'.rest = CRLF := by
  obtain ⟨s, tok, r⟩ := c
  simp only at h
  subst h
  exact ⟨⟨s + tok.length + 2, [], CRLF⟩, by simp [newline_run, T1, CRLF], rfl, rfl⟩

/-! ### `parse_version` -/

def bwFrom : List Byte → P Nat
  | [] => P.partial_
  | x :: xs => do let _ ← expect (· == x) .version; bwFrom xs

theorem bwVersion_eq : bwVersion = bwFrom (H11.take 7) := rfl

theorem bwFrom_part : ∀ (l r : List Byte) (s : Nat) (tok : List Byte),
    (bwFrom l).run ⟨s, tok, r⟩ = .part → r.length ≤ l.length → r = l.take r.length
  | [], r, s, tok, _, hl => by
    cases r with
    | nil => rfl
    | cons b r' => simp at hl
  | x :: xs, [], s, tok, _, _ => by simp
  | x :: xs, b :: r', s, tok, h, hl => by
    simp only [bwFrom, run_bind, expect, next] at h
    by_cases hb : (b == x) = true
    · simp only [hb, if_true, run_pure] at h
      have := bwFrom_part xs r' s _ h (by simpa using hl)
      simp only [beq_iff_eq] at hb
      subst hb
      simp only [List.length_cons, List.take_succ_cons]
      rw [← this]
    · simp [hb] at h

theorem parseVersion_part {W : List (List Byte)} (X : List Byte) (hw : ∀ k, k < 8 → H11.drop k ++ X ∈ W) :
    PartC W NoE (RestIs X) parseVersion := by
  intro c h
  right
  by_cases h8 : 8 ≤ c.rest.length
  · rw [parseVersion_long c h8] at h
    split at h
    · cases h
    · split at h <;> cases h
  · have h8' : c.rest.length < 8 := by omega
    rw [parseVersion_short c h8', bwVersion_eq] at h
    obtain ⟨s, tok, r⟩ := c
    simp only at h8'
    have hr := bwFrom_part _ r s tok h (by simp [H11]; omega)
    refine ⟨H11.drop r.length ++ X, hw _ h8', 1, ⟨s, tok ++ H11, X⟩, ?_, rfl⟩
    apply (parseVersion_ok s tok _ 1 _).2
    refine ⟨Or.inr rfl, X, ?_, rfl⟩
    simp only [shift_mk, versionBytes_one]
    rw [← List.append_assoc]
    congr 1
    have e : (H11.take 7).take r.length = H11.take r.length := by
      rw [List.take_take]; congr 1; omega
    rw [e] at hr
    conv => lhs; lhs; rw [hr]
    exact List.take_append_drop _ _

theorem parseVersion_H11 (c : Cur) (X : List Byte) (h : c.rest = H11 ++ X) :
    ∃ c', parseVersion.run c = .ok (1, c') ∧ c'.rest = X := by
  obtain ⟨s, tok, r⟩ := c
  simp only at h
  subst h
  exact ⟨⟨s, tok ++ H11, X⟩, (parseVersion_ok s tok _ 1 _).2 ⟨Or.inr rfl, X, rfl, rfl⟩, rfl⟩

/-! ### `parse_token` / `parse_method` -/

theorem tokenLoop_part (s : Nat) : ∀ (rest tok : List Byte), tokenLoop s tok rest = .part →
    rest.all isTchar = true
  | [], _, _ => rfl
  | b :: r, tok, h => by
    rw [tokenLoop] at h
    split at h
    · simp only [sliceSkip, run_mk] at h; split at h <;> cases h
    · split at h
      · cases h
      · rename_i hb
        simp only [Bool.not_eq_true, Bool.not_eq_false'] at hb
        simp only [List.all_cons, hb, Bool.true_and]
        exact tokenLoop_part s r _ h

theorem sliceSkip_one (s : Nat) (tok r : List Byte) :
    (sliceSkip 1).run ⟨s, tok ++ [SP], r⟩ = .ok (⟨s, tok⟩, ⟨s + tok.length + 1, [], r⟩) :=
  sliceSkip_app s tok [SP] r

theorem parseToken_part {W : List (List Byte)} (hw1 : RA ∈ W) (hw2 : RC ∈ W) :
    PartC W NoE (AtRest RD) parseToken := by
  intro c h
  right
  obtain ⟨s, tok, r⟩ := c
  rw [parseToken_run] at h
  cases r with
  | nil =>
    refine ⟨RA, hw1, ⟨s, tok ++ [0x47, 0x45, 0x54]⟩, ⟨s + (tok ++ [0x47, 0x45, 0x54]).length + 1, [], RD⟩, ?_, rfl, rfl⟩
    have := parseToken_word s tok 0x47 [0x45, 0x54] RD (by decide) (by decide)
    simp only [shift_mk, List.nil_append]
    rw [show RA = 0x47 :: ([0x45, 0x54] ++ SP :: RD) from rfl, this]
    exact sliceSkip_one s _ RD
  | cons b r' =>
    simp only at h
    split at h
    · cases h
    · rename_i hb
      simp only [Bool.not_eq_true, Bool.not_eq_false'] at hb
      have hall := tokenLoop_part s r' _ h
      refine ⟨RC, hw2, ⟨s, tok ++ b :: r'⟩, ⟨s + (tok ++ b :: r').length + 1, [], RD⟩, ?_, rfl, rfl⟩
      simp only [shift_mk, List.cons_append]
      rw [show RC = SP :: RD from rfl, parseToken_word s tok b r' RD hb hall]
      exact sliceSkip_one s _ RD

theorem parseMethod_part {W : List (List Byte)} (hw1 : RA ∈ W) (hw2 : RC ∈ W) :
    PartC W NoE (AtRest RD) parseMethod := by
  rw [parseMethod_eq]; exact parseToken_part hw1 hw2

/-! ### `parse_uri` -/

/-- the exception of the target stage: uncommitted bytes in front (never the case in the cores),
or a target in progress that no continuation makes valid UTF-8 -/
def Euri (c : Cur) : Prop :=
  c.tok ≠ [] ∨ (c.rest.all isUri = true ∧ utf8PrefixOk c.rest = false)

theorem utf8Completions_uri : ∀ u ∈ utf8Completions, ∀ b ∈ u, isUri b = true := by decide

theorem parseUri_part_all {be : Backend} (hbe : be.Exact) (c : Cur) (h : (parseUri be).run c = .part) :
    c.rest.all isUri = true := by
  unfold parseUri at h
  rcases bind_part.1 h with h1 | ⟨⟨n, b⟩, c1, _, h2⟩
  · rw [scanNext_run hbe.uri] at h1
    cases hd : c.rest.dropWhile isUri with
    | nil => exact dropWhile_nil_all _ hd
    | cons b r2 => rw [hd] at h1; cases h1
  · simp only at h2
    split at h2
    · split at h2
      · simp at h2
      · rcases bind_part.1 h2 with h3 | ⟨sl, c2, _, h4⟩
        · exact absurd h3 (sliceSkip_ne_part _ _)
        · split at h4 <;> simp at h4
    · simp at h2

theorem parseUri_part {be : Backend} (hbe : be.Exact) {W : List (List Byte)} (hw1 : RD ∈ W)
    (hw2 : ∀ u ∈ utf8Completions, u ++ SP :: RV0 ∈ W) :
    PartC W Euri (AtRest RV0) (parseUri be) := by
  intro c h
  have hall := parseUri_part_all hbe c h
  obtain ⟨s, tok, r⟩ := c
  by_cases ht : tok ≠ []
  · exact Or.inl (Or.inl ht)
  have ht : tok = [] := by simpa using ht
  subst ht
  simp only at hall
  cases r with
  | nil =>
    right
    refine ⟨RD, hw1, ⟨s, [0x2F]⟩, ⟨s + 1 + 1, [], RV0⟩, ?_, rfl, rfl⟩
    apply (parseUri_ok hbe s _ _ _).2
    exact ⟨[0x2F], RV0, rfl, by simp, by decide, by decide, rfl, rfl⟩
  | cons b r' =>
    cases hu : utf8PrefixOk (b :: r') with
    | false => exact Or.inl (Or.inr ⟨hall, hu⟩)
    | true =>
      right
      simp only [utf8PrefixOk, List.any_eq_true] at hu
      obtain ⟨u, hu1, hu2⟩ := hu
      refine ⟨u ++ SP :: RV0, hw2 u hu1, ⟨s, b :: r' ++ u⟩, ⟨s + (b :: r' ++ u).length + 1, [], RV0⟩, ?_, rfl, rfl⟩
      apply (parseUri_ok hbe s _ _ _).2
      refine ⟨b :: r' ++ u, RV0, by simp, by simp, ?_, hu2, rfl, rfl⟩
      intro x hx
      rcases List.mem_append.1 hx with hx | hx
      · exact List.all_eq_true.1 hall x hx
      · exact utf8Completions_uri u hu1 x hx

/-! ### the request line -/

def rq7 (m p : Slice) (v : Nat) : P (Slice × Slice × Nat) := do newline; pure (m, p, v)
def rq6 (m p : Slice) : P (Slice × Slice × Nat) := do let v ← parseVersion; rq7 m p v
def rq5 (multi : Bool) (m p : Slice) : P (Slice × Slice × Nat) := do optSkipSpaces multi; rq6 m p
def rq4 (be : Backend) (multi : Bool) (m : Slice) : P (Slice × Slice × Nat) := do
  let p ← parseUri be; rq5 multi m p
def rq3 (be : Backend) (multi : Bool) (m : Slice) : P (Slice × Slice × Nat) := do
  optSkipSpaces multi; rq4 be multi m
def rq2 (be : Backend) (multi : Bool) : P (Slice × Slice × Nat) := do
  let m ← parseMethod; rq3 be multi m

theorem reqLineP_eq (be : Backend) (multi : Bool) :
    reqLineP be multi = (do skipEmptyLines; rq2 be multi) := rfl

/-- the stage completes on this cursor, ending in front of the final CRLF -/
def Fin {α : Type} (f : P α) (c : Cur) : Prop := ∃ a c', f.run c = .ok (a, c') ∧ RestIs CRLF a c'

theorem rq7_fin (m p : Slice) (v : Nat) (c : Cur) (h : c.rest = T1) : Fin (rq7 m p v) c := by
  obtain ⟨c', h1, _, h3⟩ := newline_T1 c h
  exact ⟨(m, p, v), c', by simp [rq7, h1], h3⟩

theorem rq6_fin (m p : Slice) (c : Cur) (h : c.rest = RV0) : Fin (rq6 m p) c := by
  obtain ⟨c', h1, h2⟩ := parseVersion_H11 c T1 h
  obtain ⟨a, c'', h3, h4⟩ := rq7_fin m p 1 c' h2
  exact ⟨a, c'', by simp only [rq6, run_bind, h1]; exact h3, h4⟩

theorem rq5_fin (multi : Bool) (m p : Slice) (c : Cur) (ht : c.tok = []) (h : c.rest = RV0) :
    Fin (rq5 multi m p) c := by
  obtain ⟨s, tok, r⟩ := c
  simp only at ht h
  subst ht h
  have h1 := optSkipSpaces_noop multi s 0x48 ([0x54, 0x54, 0x50, 0x2F, 0x31, 0x2E, 0x31] ++ T1) (by decide)
  obtain ⟨a, c'', h3, h4⟩ := rq6_fin m p ⟨s, [], RV0⟩ rfl
  refine ⟨a, c'', ?_, h4⟩
  simp only [rq5, run_bind]
  rw [show RV0 = 0x48 :: ([0x54, 0x54, 0x50, 0x2F, 0x31, 0x2E, 0x31] ++ T1) from rfl, h1]
  exact h3

theorem rq4_fin {be : Backend} (hbe : be.Exact) (multi : Bool) (m : Slice) (c : Cur) (ht : c.tok = [])
    (h : c.rest = RD) : Fin (rq4 be multi m) c := by
  obtain ⟨s, tok, r⟩ := c
  simp only at ht h
  subst ht h
  have h1 : (parseUri be).run ⟨s, [], RD⟩ = .ok (⟨s, [0x2F]⟩, ⟨s + 1 + 1, [], RV0⟩) :=
    (parseUri_ok hbe s _ _ _).2 ⟨[0x2F], RV0, rfl, by simp, by decide, by decide, rfl, rfl⟩
  obtain ⟨a, c'', h3, h4⟩ := rq5_fin multi m ⟨s, [0x2F]⟩ ⟨s + 1 + 1, [], RV0⟩ rfl rfl
  exact ⟨a, c'', by simp only [rq4, run_bind, h1]; exact h3, h4⟩

theorem rq3_fin {be : Backend} (hbe : be.Exact) (multi : Bool) (m : Slice) (c : Cur) (ht : c.tok = [])
    (h : c.rest = RD) : Fin (rq3 be multi m) c := by
  obtain ⟨s, tok, r⟩ := c
  simp only at ht h
  subst ht h
  have h1 := optSkipSpaces_noop multi s 0x2F (SP :: RV0) (by decide)
  obtain ⟨a, c'', h3, h4⟩ := rq4_fin hbe multi m ⟨s, [], RD⟩ rfl rfl
  refine ⟨a, c'', ?_, h4⟩
  simp only [rq3, run_bind]
  rw [show RD = 0x2F :: (SP :: RV0) from rfl, h1]
  exact h3

theorem rq2_fin {be : Backend} (hbe : be.Exact) (multi : Bool) (c : Cur) (ht : c.tok = [])
    (h : c.rest = RA) : Fin (rq2 be multi) c := by
  obtain ⟨s, tok, r⟩ := c
  simp only at ht h
  subst ht h
  have h1 : parseMethod.run ⟨s, [], RA⟩ = .ok (⟨s, [0x47, 0x45, 0x54]⟩, ⟨s + 3 + 1, [], RD⟩) :=
    (parseMethod_ok s _ _ _).2 ⟨[0x47, 0x45, 0x54], RD, rfl, by simp, by decide, rfl, rfl⟩
  obtain ⟨a, c'', h3, h4⟩ := rq3_fin hbe multi ⟨s, [0x47, 0x45, 0x54]⟩ ⟨s + 3 + 1, [], RD⟩ rfl rfl
  exact ⟨a, c'', by simp only [rq2, run_bind, h1]; exact h3, h4⟩

theorem ra_mem : RA ∈ reqTails := by rw [reqTails_eq]; simp
theorem lfra_mem : (LF :: RA) ∈ reqTails := by rw [reqTails_eq]; simp
theorem rc_mem : RC ∈ reqTails := by rw [reqTails_eq]; simp
theorem rd_mem : RD ∈ reqTails := by rw [reqTails_eq]; simp
theorem ru_mem : ∀ u ∈ utf8Completions, u ++ SP :: RV0 ∈ reqTails := by
  intro u hu
  rw [reqTails_eq]
  apply List.mem_append_left
  apply List.mem_append_right
  exact List.mem_map.2 ⟨u, hu, rfl⟩
theorem rv_mem : ∀ k, k < 8 → H11.drop k ++ T1 ∈ reqTails := by
  intro k hk
  rw [reqTails_eq]
  apply List.mem_append_right
  exact List.mem_map.2 ⟨k, List.mem_range.2 hk, rfl⟩

theorem rq7_part (m p : Slice) (v : Nat) : PartC reqTails NoE (RestIs CRLF) (rq7 m p v) := by
  refine PartC.bind0 newline_stable (newline_part (headerTails_sub_req t1_mem) (headerTails_sub_req t2_mem))
    (fun _ => PartC.pure _) ?_
  rintro a c ⟨_, hr⟩
  exact ⟨_, c, rfl, hr⟩

theorem rq6_part (m p : Slice) : PartC reqTails NoE (RestIs CRLF) (rq6 m p) :=
  PartC.bind0 parseVersion_stable (parseVersion_part T1 rv_mem) (fun v => rq7_part m p v)
    (fun v c h => rq7_fin m p v c h)

theorem rq5_part (multi : Bool) (m p : Slice) : PartC reqTails NoE (RestIs CRLF) (rq5 multi m p) :=
  PartC.bind0 (optSkipSpaces_stable multi)
    (optSkipSpaces_part multi 0x48 ([0x54, 0x54, 0x50, 0x2F, 0x31, 0x2E, 0x31] ++ T1) (by decide)
      (show (0x48 :: ([0x54, 0x54, 0x50, 0x2F, 0x31, 0x2E, 0x31] ++ T1) : List Byte) ∈ reqTails from rv_mem 0 (by decide)))
    (fun _ => rq6_part m p) (fun _ c h => rq6_fin m p c (show c.rest = RV0 from h.2))

theorem rq4_part {be : Backend} (hbe : be.Exact) (multi : Bool) (m : Slice) :
    PartC reqTails Euri (RestIs CRLF) (rq4 be multi m) :=
  PartC.bind (Eg := fun _ => NoE) (parseUri_stable hbe) (parseUri_part hbe rd_mem ru_mem)
    (fun p => rq5_part multi m p) (fun p c h => rq5_fin multi m p c h.1 h.2) (fun _ h => h)
    (fun _ _ _ _ h => h.elim)

def E3 (multi : Bool) (c : Cur) : Prop := ∃ c3, (optSkipSpaces multi).run c = .ok ((), c3) ∧ Euri c3
def E2 (multi : Bool) (c : Cur) : Prop := ∃ m c2, parseMethod.run c = .ok (m, c2) ∧ E3 multi c2
def E1 (multi : Bool) (c : Cur) : Prop := ∃ c1, skipEmptyLines.run c = .ok ((), c1) ∧ E2 multi c1

theorem rq3_part {be : Backend} (hbe : be.Exact) (multi : Bool) (m : Slice) :
    PartC reqTails (E3 multi) (RestIs CRLF) (rq3 be multi m) :=
  PartC.bind (Ef := NoE) (Eg := fun _ => Euri) (optSkipSpaces_stable multi)
    (optSkipSpaces_part multi 0x2F (SP :: RV0) (by decide) rd_mem)
    (fun _ => rq4_part hbe multi m) (fun _ c h => rq4_fin hbe multi m c h.1 h.2) (fun _ h => h.elim)
    (fun _ _ c1 hr he => ⟨c1, hr, he⟩)

theorem rq2_part {be : Backend} (hbe : be.Exact) (multi : Bool) :
    PartC reqTails (E2 multi) (RestIs CRLF) (rq2 be multi) :=
  PartC.bind (Ef := NoE) (Eg := fun _ => E3 multi) parseMethod_stable
    (parseMethod_part ra_mem rc_mem)
    (fun m => rq3_part hbe multi m) (fun m c h => rq3_fin hbe multi m c h.1 h.2) (fun _ h => h.elim)
    (fun _ m c1 hr he => ⟨m, c1, hr, he⟩)

theorem reqLineP_part {be : Backend} (hbe : be.Exact) (multi : Bool) :
    PartC reqTails (E1 multi) (RestIs CRLF) (reqLineP be multi) := by
  rw [reqLineP_eq]
  exact PartC.bind (Ef := NoE) (Eg := fun _ => E2 multi) skipEmptyLines_stable
    (skipEmptyLines_part 0x47 (0x45 :: 0x54 :: RC) (by decide) (by decide) ra_mem lfra_mem)
    (fun _ => rq2_part hbe multi) (fun _ c h => rq2_fin hbe multi c h.1 h.2) (fun _ h => h.elim)
    (fun _ _ c1 hr he => ⟨c1, hr, he⟩)

theorem reqLineP_stable {be : Backend} (hbe : be.Exact) (multi : Bool) : Stable (reqLineP be multi) := by
  unfold reqLineP
  apply Stable.bind skipEmptyLines_stable; intro _
  apply Stable.bind parseMethod_stable; intro m
  apply Stable.bind (optSkipSpaces_stable _); intro _
  apply Stable.bind (parseUri_stable hbe); intro p
  apply Stable.bind (optSkipSpaces_stable _); intro _
  apply Stable.bind parseVersion_stable; intro v
  apply Stable.bind newline_stable; intro _
  exact Stable.pure _

/-! ### the status line: `space!`, `parse_code`, the reason branch -/

theorem space_part {W : List (List Byte)} (e : Error) (X : List Byte) (hw : (SP :: X) ∈ W) :
    PartC W NoE (AtRest X) (space e) := by
  intro c h
  right
  obtain ⟨s, tok, r⟩ := c
  cases r with
  | nil =>
    exact ⟨SP :: X, hw, (), ⟨s + tok.length + 1, [], X⟩, (space_ok e s tok _ _).2 ⟨X, rfl, rfl⟩, rfl, rfl⟩
  | cons b r' =>
    simp only [space, expect, next, run_bind] at h
    by_cases hb : (b == SP) = true <;> simp [hb, slice] at h

theorem expect_cons (p : Byte → Bool) (e : Error) (s : Nat) (tok : List Byte) (x : Byte) (r : List Byte)
    (hx : p x = true) : (expect p e).run ⟨s, tok, x :: r⟩ = .ok (x, ⟨s, tok ++ [x], r⟩) := by
  simp [expect, next, hx]

def CodeDone : Nat → Cur → Prop := fun _ c => c.rest = SD ∨ c.rest = T1

theorem parseCode_part {W : List (List Byte)} (hw1 : SC ∈ W) (hw2 : (0x30 :: 0x30 :: T1) ∈ W)
    (hw3 : (0x30 :: T1) ∈ W) : PartC W NoE CodeDone parseCode := by
  unfold parseCode
  refine PartC.bind0 (expect_stable _ _) (expect_part isDigit .status 0x32 (0x30 :: 0x30 :: SD) hw1 (by decide)) ?_ ?_
  · intro h
    refine PartC.bind0 (expect_stable _ _) (expect_part isDigit .status 0x30 (0x30 :: T1) hw2 (by decide)) ?_ ?_
    · intro t
      refine PartC.bind0 (expect_stable _ _) (expect_part isDigit .status 0x30 T1 hw3 (by decide))
        (fun _ => PartC.pure _) ?_
      rintro o c ⟨_, hr⟩
      exact ⟨_, c, rfl, Or.inr hr⟩
    · rintro t c ⟨_, hr⟩
      obtain ⟨s, tok, r⟩ := c
      simp only at hr; subst hr
      simp only [run_bind, expect_cons isDigit .status s tok 0x30 T1 (by decide)]
      exact ⟨_, _, rfl, Or.inr rfl⟩
  · rintro t c ⟨_, hr⟩
    obtain ⟨s, tok, r⟩ := c
    simp only at hr; subst hr
    simp only [run_bind, expect_cons isDigit .status s tok 0x30 (0x30 :: SD) (by decide),
      expect_cons isDigit .status s (tok ++ [0x30]) 0x30 SD (by decide)]
    exact ⟨_, _, rfl, Or.inl rfl⟩

theorem reasonFinish_two (seen : Bool) (s : Nat) (tok r : List Byte) :
    (reasonFinish seen 2).run ⟨s, tok ++ [CR, LF], r⟩ =
      .ok (reasonStr seen s tok, ⟨s + tok.length + 2, [], r⟩) :=
  reasonFinish_app seen s tok [CR, LF] r

theorem reasonLoop_part (s : Nat) : ∀ (rest : List Byte) (seen : Bool) (tok : List Byte),
    reasonLoop s seen tok rest = .part →
    ∃ w, (w = T1 ∨ w = T2) ∧ ∃ str c', c'.rest = CRLF ∧ reasonLoop s seen tok (rest ++ w) = .ok (str, c')
  | [], seen, tok, _ => by
    refine ⟨T1, Or.inl rfl, reasonStr seen s tok, ⟨s + tok.length + 2, [], CRLF⟩, rfl, ?_⟩
    simp only [List.nil_append, T1, reasonLoop_cons, beq_self_eq_true, if_true]
    exact reasonFinish_two seen s tok CRLF
  | b :: r, seen, tok, h => by
    rw [reasonLoop_cons] at h
    simp only [List.cons_append, reasonLoop_cons s seen tok b]
    split at h
    · rename_i hb
      simp only [hb, if_true]
      cases r with
      | nil =>
        refine ⟨T2, Or.inr rfl, reasonStr seen s tok, ⟨s + tok.length + 2, [], CRLF⟩, rfl, ?_⟩
        simp only [List.nil_append, T2, beq_self_eq_true, if_true]
        simp only [beq_iff_eq] at hb
        subst hb
        exact reasonFinish_two seen s tok CRLF
      | cons b2 r2 =>
        simp only at h
        split at h
        · have := reasonFinish_app seen s tok [b, b2] r2
          simp only [List.length_cons, List.length_nil] at this
          rw [this] at h; cases h
        · cases h
    · rename_i hb
      simp only [hb]
      split at h
      · have := reasonFinish_app seen s tok [b] r
        simp only [List.length_cons, List.length_nil] at this
        rw [this] at h; cases h
      · rename_i hb2
        simp only [hb2]
        split at h
        · cases h
        · rename_i hb3
          simp only [hb3]
          exact reasonLoop_part s r _ _ h
termination_by rest => rest.length

theorem parseReason_part {W : List (List Byte)} (hw1 : T1 ∈ W) (hw2 : T2 ∈ W) :
    PartC W NoE (RestIs CRLF) parseReason := by
  intro c h
  right
  obtain ⟨w, hw, str, c', hr, hrun⟩ := reasonLoop_part c.start c.rest false c.tok h
  refine ⟨w, ?_, str, c', hrun, hr⟩
  rcases hw with rfl | rfl
  · exact hw1
  · exact hw2

theorem parseReason_T1 (c : Cur) (h : c.rest = T1) :
    ∃ str c', parseReason.run c = .ok (str, c') ∧ c'.rest = CRLF := by
  obtain ⟨s, tok, r⟩ := c
  simp only at h; subst h
  refine ⟨reasonStr false s tok, ⟨s + tok.length + 2, [], CRLF⟩, ?_, rfl⟩
  simp only [parseReason, run_mk, T1, reasonLoop_cons, beq_self_eq_true, if_true]
  exact reasonFinish_two false s tok CRLF

theorem slice_run (c : Cur) : slice.run c = .ok (⟨c.start, c.tok⟩, ⟨c.start + c.tok.length, [], c.rest⟩) := rfl

theorem reasonBranch_part {W : List (List Byte)} (multi : Bool) (hw1 : T1 ∈ W) (hw2 : T2 ∈ W) :
    PartC W NoE (RestIs CRLF) (reasonBranch multi) := by
  unfold reasonBranch
  refine PartC.bind0 next_stable (next_part CR T2 hw1) ?_ ?_
  · intro b
    apply PartC.dite
    · refine PartC.bind0 (optSkipSpaces_stable multi) (optSkipSpaces_part multi CR T2 (by decide) hw1) ?_ ?_
      · intro _
        refine PartC.bind0 (Qf := fun _ _ => False) slice_stable (PartC.of_never ?_)
          (fun _ => parseReason_part hw1 hw2) (fun _ _ h => h.elim)
        intro c; simp [slice]
      · rintro _ c ⟨_, hr⟩
        obtain ⟨str, c', h1, h2⟩ := parseReason_T1 ⟨c.start + c.tok.length, [], c.rest⟩ hr
        exact ⟨str, c', by simp only [run_bind, slice_run]; exact h1, h2⟩
    · apply PartC.dite
      · refine PartC.bind0 (expect_stable _ _) (expect_part (fun x => x == LF) .status LF CRLF hw2 (by decide)) ?_ ?_
        · intro _
          apply PartC.of_never
          intro c; simp [slice]
        · rintro _ c ⟨_, hr⟩
          exact ⟨.staticEmpty, ⟨c.start + c.tok.length, [], c.rest⟩, by simp [slice], hr⟩
      · apply PartC.dite
        · apply PartC.of_never
          intro c; simp [slice]
        · exact PartC.fail _
  · rintro b c ⟨rfl, hr⟩
    obtain ⟨s, tok, r⟩ := c
    simp only at hr; subst hr
    refine ⟨.staticEmpty, ⟨s + (tok ++ [LF]).length, [], CRLF⟩, ?_, rfl⟩
    simp only [show (CR == SP) = false from by decide, Bool.false_eq_true, if_false, beq_self_eq_true, if_true,
      run_bind, T2, expect_cons (fun x => x == LF) .status s tok LF [CR, LF] (by decide), slice_run, run_pure]
    rfl

theorem reasonBranch_cons (multi : Bool) (s : Nat) (tok : List Byte) (b : Byte) (r : List Byte) :
    (reasonBranch multi).run ⟨s, tok, b :: r⟩ =
      (if b == SP then do
          optSkipSpaces multi
          let _ ← slice
          parseReason
        else if b == CR then do
          let _ ← expect (· == LF) .status
          let _ ← slice
          pure .staticEmpty
        else if b == LF then do
          let _ ← slice
          pure .staticEmpty
        else P.fail .status : P Str).run ⟨s, tok ++ [b], r⟩ := rfl

theorem parseReason_OK (s : Nat) :
    ∃ str c', parseReason.run ⟨s, [], 0x4F :: 0x4B :: T1⟩ = .ok (str, c') ∧ c'.rest = CRLF := by
  refine ⟨reportedReason s (some [0x4F, 0x4B]), ⟨s + 2 + 2, [], CRLF⟩, ?_, rfl⟩
  apply (parseReason_ok _ _ _ _).2
  exact ⟨[0x4F, 0x4B], [CR, LF], CRLF, rfl, by decide, Or.inl rfl, rfl, rfl⟩

/-- on " OK\r\n\r\n" or "\r\n\r\n" the reason branch completes in front of the final CRLF -/
theorem reasonBranch_fin (multi : Bool) (c : Cur) (h : c.rest = SD ∨ c.rest = T1) :
    Fin (reasonBranch multi) c := by
  obtain ⟨s, tok, r⟩ := c
  simp only at h
  unfold Fin
  rcases h with rfl | rfl
  · have h1 : (optSkipSpaces multi).run ⟨s, tok ++ [SP], 0x4F :: 0x4B :: T1⟩ =
        .ok ((), ⟨s, tok ++ [SP], 0x4F :: 0x4B :: T1⟩) ∨
        (optSkipSpaces multi).run ⟨s, tok ++ [SP], 0x4F :: 0x4B :: T1⟩ =
        .ok ((), ⟨s + (tok ++ [SP]).length, [], 0x4F :: 0x4B :: T1⟩) := by
      cases multi
      · left; rfl
      · right; simp [optSkipSpaces, skipSpaces, skipSpacesGo, show ((79 : Byte) == SP) = false from by decide]
    rw [show SD = SP :: 0x4F :: 0x4B :: T1 from rfl, reasonBranch_cons]
    simp only [beq_self_eq_true, if_true, run_bind]
    rcases h1 with h1 | h1
    · rw [h1]
      simp only [slice_run]
      exact parseReason_OK _
    · rw [h1]
      simp only [slice_run]
      exact parseReason_OK _
  · rw [show T1 = CR :: T2 from rfl, reasonBranch_cons]
    refine ⟨.staticEmpty, ⟨s + (tok ++ [CR] ++ [LF]).length, [], CRLF⟩, ?_, rfl⟩
    simp only [show (CR == SP) = false from by decide, Bool.false_eq_true, if_false, beq_self_eq_true, if_true,
      run_bind, T2, expect_cons (fun x => x == LF) .status s (tok ++ [CR]) LF [CR, LF] (by decide), slice_run, run_pure]
    rfl

/-! ### the status line -/

def rs6 (multi : Bool) (v code : Nat) : P (Nat × Nat × Str) := do
  let r ← reasonBranch multi; pure (v, code, r)
def rs5 (multi : Bool) (v : Nat) : P (Nat × Nat × Str) := do let code ← parseCode; rs6 multi v code
def rs4 (multi : Bool) (v : Nat) : P (Nat × Nat × Str) := do optSkipSpaces multi; rs5 multi v
def rs3 (multi : Bool) (v : Nat) : P (Nat × Nat × Str) := do space .version; rs4 multi v
def rs2 (multi : Bool) : P (Nat × Nat × Str) := do let v ← parseVersion; rs3 multi v

theorem respLineP_eq (multi : Bool) : respLineP multi = (do skipEmptyLines; rs2 multi) := rfl

theorem rs6_fin (multi : Bool) (v code : Nat) (c : Cur) (h : c.rest = SD ∨ c.rest = T1) :
    Fin (rs6 multi v code) c := by
  obtain ⟨str, c', h1, h2⟩ := reasonBranch_fin multi c h
  exact ⟨(v, code, str), c', by simp [rs6, h1], h2⟩

theorem rs5_fin (multi : Bool) (v : Nat) (c : Cur) (h : c.rest = SC) : Fin (rs5 multi v) c := by
  obtain ⟨s, tok, r⟩ := c
  simp only at h; subst h
  obtain ⟨a, c', h1, h2⟩ := rs6_fin multi v 200 ⟨s, tok ++ [0x32] ++ [0x30] ++ [0x30], SD⟩ (Or.inl rfl)
  refine ⟨a, c', ?_, h2⟩
  simp only [rs5, parseCode, run_bind, SC,
    expect_cons isDigit .status s tok 0x32 (0x30 :: 0x30 :: SD) (by decide),
    expect_cons isDigit .status s (tok ++ [0x32]) 0x30 (0x30 :: SD) (by decide),
    expect_cons isDigit .status s (tok ++ [0x32] ++ [0x30]) 0x30 SD (by decide), run_pure]
  exact h1

theorem rs4_fin (multi : Bool) (v : Nat) (c : Cur) (ht : c.tok = []) (h : c.rest = SC) :
    Fin (rs4 multi v) c := by
  obtain ⟨s, tok, r⟩ := c
  simp only at ht h
  subst ht h
  have h1 := optSkipSpaces_noop multi s 0x32 (0x30 :: 0x30 :: SD) (by decide)
  obtain ⟨a, c'', h3, h4⟩ := rs5_fin multi v ⟨s, [], SC⟩ rfl
  refine ⟨a, c'', ?_, h4⟩
  simp only [rs4, run_bind]
  rw [show SC = 0x32 :: (0x30 :: 0x30 :: SD) from rfl, h1]
  exact h3

theorem rs3_fin (multi : Bool) (v : Nat) (c : Cur) (h : c.rest = SB) : Fin (rs3 multi v) c := by
  obtain ⟨s, tok, r⟩ := c
  simp only at h; subst h
  have h1 : (space .version).run ⟨s, tok, SB⟩ = .ok ((), ⟨s + tok.length + 1, [], SC⟩) :=
    (space_ok _ s tok _ _).2 ⟨SC, rfl, rfl⟩
  obtain ⟨a, c'', h3, h4⟩ := rs4_fin multi v ⟨s + tok.length + 1, [], SC⟩ rfl rfl
  exact ⟨a, c'', by simp only [rs3, run_bind, h1]; exact h3, h4⟩

theorem rs2_fin (multi : Bool) (c : Cur) (h : c.rest = SA') : Fin (rs2 multi) c := by
  obtain ⟨c', h1, h2⟩ := parseVersion_H11 c SB h
  obtain ⟨a, c'', h3, h4⟩ := rs3_fin multi 1 c' h2
  exact ⟨a, c'', by simp only [rs2, run_bind, h1]; exact h3, h4⟩

theorem sa_mem : SA' ∈ respTails := by rw [respTails_eq]; simp
theorem lfsa_mem : (LF :: SA') ∈ respTails := by rw [respTails_eq]; simp
theorem sb_mem : SB ∈ respTails := by rw [respTails_eq]; simp
theorem sc_mem : SC ∈ respTails := by rw [respTails_eq]; simp
theorem s00_mem : (0x30 :: 0x30 :: T1) ∈ respTails := by rw [respTails_eq]; simp
theorem s0_mem : (0x30 :: T1) ∈ respTails := by rw [respTails_eq]; simp
theorem sv_mem : ∀ k, k < 8 → H11.drop k ++ SB ∈ respTails := by
  intro k hk
  rw [respTails_eq]
  apply List.mem_append_left
  apply List.mem_append_right
  exact List.mem_map.2 ⟨k, List.mem_range.2 hk, rfl⟩

theorem rs6_part (multi : Bool) (v code : Nat) : PartC respTails NoE (RestIs CRLF) (rs6 multi v code) := by
  refine PartC.bind0 (reasonBranch_stable multi)
    (reasonBranch_part multi (headerTails_sub_resp t1_mem) (headerTails_sub_resp t2_mem))
    (fun _ => PartC.pure _) ?_
  intro a c hr
  exact ⟨_, c, rfl, hr⟩

theorem rs5_part (multi : Bool) (v : Nat) : PartC respTails NoE (RestIs CRLF) (rs5 multi v) :=
  PartC.bind0 parseCode_stable (parseCode_part sc_mem s00_mem s0_mem) (fun code => rs6_part multi v code)
    (fun code c h => rs6_fin multi v code c h)

theorem rs4_part (multi : Bool) (v : Nat) : PartC respTails NoE (RestIs CRLF) (rs4 multi v) :=
  PartC.bind0 (optSkipSpaces_stable multi)
    (optSkipSpaces_part multi 0x32 (0x30 :: 0x30 :: SD) (by decide) sc_mem)
    (fun _ => rs5_part multi v) (fun _ c h => rs5_fin multi v c h.2)

theorem rs3_part (multi : Bool) (v : Nat) : PartC respTails NoE (RestIs CRLF) (rs3 multi v) :=
  PartC.bind0 (space_stable _) (space_part .version SC sb_mem)
    (fun _ => rs4_part multi v) (fun _ c h => rs4_fin multi v c h.1 h.2)

theorem rs2_part (multi : Bool) : PartC respTails NoE (RestIs CRLF) (rs2 multi) :=
  PartC.bind0 parseVersion_stable (parseVersion_part SB sv_mem)
    (fun v => rs3_part multi v) (fun v c h => rs3_fin multi v c h)

theorem respLineP_part (multi : Bool) : PartC respTails NoE (RestIs CRLF) (respLineP multi) := by
  rw [respLineP_eq]
  exact PartC.bind0 skipEmptyLines_stable
    (skipEmptyLines_part 0x48 ([0x54, 0x54, 0x50, 0x2F, 0x31, 0x2E, 0x31] ++ SB) (by decide) (by decide)
      (show (0x48 :: ([0x54, 0x54, 0x50, 0x2F, 0x31, 0x2E, 0x31] ++ SB) : List Byte) ∈ respTails from sa_mem)
      (show (LF :: 0x48 :: ([0x54, 0x54, 0x50, 0x2F, 0x31, 0x2E, 0x31] ++ SB) : List Byte) ∈ respTails from lfsa_mem))
    (fun _ => rs2_part multi) (fun _ c h => rs2_fin multi c (show c.rest = SA' from h.2))

theorem respLineP_stable (multi : Bool) : Stable (respLineP multi) := by
  unfold respLineP
  apply Stable.bind skipEmptyLines_stable; intro _
  apply Stable.bind parseVersion_stable; intro v
  apply Stable.bind (space_stable _); intro _
  apply Stable.bind (optSkipSpaces_stable _); intro _
  apply Stable.bind parseCode_stable; intro code
  apply Stable.bind (reasonBranch_stable _); intro r
  exact Stable.pure _

end Comp
end Hx
