/-
  Hx.Lemmas.StableBound — `Complete(n)` implies `n ≤ buf.length`, by the conservation of
  `start + |tok| + |rest|` through every stage.  Used for `req_prefix_partial` only.
-/
import Hx.Lemmas.StableHeaders
namespace Hx
namespace SA

/-- the buffer length as seen from a cursor -/
def Cur.tot (c : Cur) : Nat := c.start + c.tok.length + c.rest.length

/-- a Complete outcome leaves a cursor of total `n` -/
def OT {α : Type} (n : Nat) (o : Outcome (α × Cur)) : Prop :=
  match o with
  | .ok (_, c) => Cur.tot c = n
  | _ => True

@[simp] theorem OT_ok {α : Type} (n : Nat) (a : α) (c : Cur) : OT n (.ok (a, c)) ↔ Cur.tot c = n := Iff.rfl
@[simp] theorem OT_part {α : Type} (n : Nat) : OT n (.part : Outcome (α × Cur)) ↔ True := Iff.rfl
@[simp] theorem OT_err {α : Type} (n : Nat) (e : Error) : OT n (.err e : Outcome (α × Cur)) ↔ True := Iff.rfl
@[simp] theorem OT_ub {α : Type} (n : Nat) (u : UB) : OT n (.ub u : Outcome (α × Cur)) ↔ True := Iff.rfl

theorem OT.cast {α : Type} {n m : Nat} {o : Outcome (α × Cur)} (h : OT n o) (e : n = m) : OT m o := e ▸ h

/-- `f` conserves the total -/
def Tot {α : Type} (f : P α) : Prop := ∀ c, OT (Cur.tot c) (f.run c)

theorem Tot.pure {α : Type} (a : α) : Tot (pure a : P α) := fun c => by simp
theorem Tot.fail {α : Type} (e : Error) : Tot (P.fail e : P α) := fun c => by simp
theorem Tot.partial_ {α : Type} : Tot (P.partial_ : P α) := fun c => by simp
theorem Tot.undefined {α : Type} (u : UB) : Tot (P.undefined u : P α) := fun c => by simp

theorem Tot.bind {α β : Type} {f : P α} {g : α → P β} (hf : Tot f) (hg : ∀ a, Tot (g a)) : Tot (f >>= g) := by
  intro c
  have h1 := hf c
  simp only [run_bind]
  cases hr : f.run c with
  | ok p =>
    obtain ⟨a, c1⟩ := p
    rw [hr] at h1; simp only [OT_ok] at h1
    rw [← h1]; exact hg a c1
  | part => simp
  | err e => simp
  | ub u => simp

theorem Tot.dite {α : Type} {p : Prop} [Decidable p] {f g : P α} (hf : Tot f) (hg : Tot g) :
    Tot (if p then f else g) := by
  split <;> assumption

theorem Tot.peek {α : Type} (q : Byte → Bool) {f g : P α} (hf : Tot f) (hg : Tot g) :
    Tot (⟨fun c => match c.rest with
            | [] => .part
            | p :: _ => if q p then f.run c else g.run c⟩ : P α) := by
  intro c
  simp only
  split
  · simp
  · split
    · exact hf c
    · exact hg c

theorem tot_of_loop {α : Type} (g : Nat → List Byte → List Byte → Outcome (α × Cur))
    (h : ∀ start tok rest, OT (start + tok.length + rest.length) (g start tok rest)) :
    Tot (⟨fun c => g c.start c.tok c.rest⟩ : P α) := fun c => h c.start c.tok c.rest

/-! ### primitives -/

theorem next_tot : Tot next := by
  intro c
  simp only [next, run_mk]
  cases hr : c.rest with
  | nil => simp
  | cons b r => simp [Cur.tot, hr]; omega

theorem slice_tot : Tot slice := by
  intro c; simp [slice, Cur.tot]

theorem sliceSkip_tot (k : Nat) : Tot (sliceSkip k) := by
  intro c
  simp only [sliceSkip, run_mk]
  split <;> simp [Cur.tot]

theorem expect_tot (p : Byte → Bool) (e : Error) : Tot (expect p e) := by
  unfold expect
  apply Tot.bind next_tot; intro b
  apply Tot.dite
  · exact Tot.pure _
  · exact Tot.fail _

theorem scan_tot (s : Scanner) : Tot (scan s) := by
  intro c
  simp only [scan, run_mk]
  split
  · simp
  · split
    · rename_i n _ hn
      simp only [OT_ok, Cur.tot, List.length_append, List.length_take, List.length_drop]
      omega
    · simp

theorem scanNext_tot (s : Scanner) : Tot (scanNext s) := by
  unfold scanNext
  apply Tot.bind (scan_tot s); intro n
  apply Tot.bind next_tot; intro b
  exact Tot.pure _

theorem skipWsRun_tot : Tot skipWsRun := by
  intro c
  simp only [skipWsRun, run_mk, OT_ok, Cur.tot, List.length_append]
  have := congrArg List.length (List.takeWhile_append_dropWhile (p := isWs) (l := c.rest))
  simp only [List.length_append] at this
  omega

/-! ### start line -/

theorem skipEmptyLinesGo_ot (start : Nat) : ∀ (rest tok : List Byte),
    OT (start + tok.length + rest.length) (skipEmptyLinesGo start tok rest)
  | [], tok => by simp [skipEmptyLinesGo]
  | b :: r, tok => by
    rw [skipEmptyLinesGo_cons]
    split
    · cases r with
      | nil => simp
      | cons b2 r2 =>
        simp only
        split
        · exact (skipEmptyLinesGo_ot start r2 _).cast (by simp; omega)
        · simp
    · split
      · exact (skipEmptyLinesGo_ot start r _).cast (by simp; omega)
      · simp [Cur.tot]
termination_by rest => rest.length

theorem skipEmptyLines_tot : Tot skipEmptyLines :=
  tot_of_loop _ fun start tok rest => skipEmptyLinesGo_ot start rest tok

theorem skipSpacesGo_ot (start : Nat) : ∀ (rest tok : List Byte),
    OT (start + tok.length + rest.length) (skipSpacesGo start tok rest)
  | [], tok => by simp [skipSpacesGo]
  | b :: r, tok => by
    rw [skipSpacesGo]
    split
    · exact (skipSpacesGo_ot start r _).cast (by simp; omega)
    · simp [Cur.tot]

theorem optSkipSpaces_tot (on : Bool) : Tot (optSkipSpaces on) := by
  unfold optSkipSpaces
  cases on
  · exact Tot.pure _
  · exact tot_of_loop _ fun start tok rest => skipSpacesGo_ot start rest tok

theorem tokenLoop_ot (start : Nat) : ∀ (rest tok : List Byte),
    OT (start + tok.length + rest.length) (tokenLoop start tok rest)
  | [], tok => by simp [tokenLoop]
  | b :: r, tok => by
    rw [tokenLoop]
    split
    · exact (sliceSkip_tot 1 ⟨start, tok ++ [b], r⟩).cast (by simp [Cur.tot]; omega)
    · split
      · simp
      · exact (tokenLoop_ot start r _).cast (by simp; omega)

theorem parseToken_tot : Tot parseToken := by
  unfold parseToken
  apply Tot.bind next_tot; intro b
  apply Tot.dite
  · exact Tot.fail _
  · exact tot_of_loop _ fun start tok rest => tokenLoop_ot start rest tok

theorem parseMethod_tot : Tot parseMethod := by
  rw [parseMethod_eq]; exact parseToken_tot

theorem parseUri_tot (be : Backend) : Tot (parseUri be) := by
  unfold parseUri
  apply Tot.bind (scanNext_tot _)
  rintro ⟨n, b⟩
  dsimp only
  apply Tot.dite
  · apply Tot.dite
    · exact Tot.fail _
    · apply Tot.bind (sliceSkip_tot 1); intro s
      apply Tot.dite
      · exact Tot.pure _
      · exact Tot.fail _
  · exact Tot.fail _

theorem parseVersion_tot : Tot parseVersion := by
  intro c
  by_cases h8 : 8 ≤ c.rest.length
  · rw [parseVersion_long c h8]
    have : Cur.tot ⟨c.start, c.tok ++ c.rest.take 8, c.rest.drop 8⟩ = Cur.tot c := by
      simp only [Cur.tot, List.length_append, List.length_take, List.length_drop]; omega
    split
    · simpa using this
    · split
      · simpa using this
      · simp
  · rw [parseVersion_short c (by omega)]
    cases hr : bwVersion.run c with
    | ok p => exact absurd hr (bwVersion_neverOk _ _ _)
    | part => simp
    | err e => simp
    | ub u => simp

theorem newline_tot : Tot newline := by
  unfold newline
  apply Tot.bind next_tot; intro b
  apply Tot.dite
  · apply Tot.bind (expect_tot _ _); intro _
    apply Tot.bind slice_tot; intro _
    exact Tot.pure _
  · apply Tot.dite
    · apply Tot.bind slice_tot; intro _
      exact Tot.pure _
    · exact Tot.fail _

/-! ### header block -/

theorem invalidLoop_ot (e : Error) (start : Nat) : ∀ (rest : List Byte) (b : Byte) (tok : List Byte),
    OT (start + tok.length + rest.length) (invalidLoop e start b tok rest)
  | rest, b, tok => by
    rw [invalidLoop_unfold]
    split
    · cases rest with
      | nil => simp
      | cons b2 r2 => simp only; split <;> simp [Cur.tot]; omega
    · split
      · simp [Cur.tot]
      · split
        · simp
        · cases rest with
          | nil => simp
          | cons b2 r2 => simp only; exact (invalidLoop_ot e start r2 b2 _).cast (by simp; omega)
termination_by rest => rest.length

theorem handleInvalid_tot (hc : HCfg) (e : Error) (b : Byte) : Tot (handleInvalid hc e b) := by
  unfold handleInvalid
  apply Tot.dite
  · exact Tot.fail _
  · exact tot_of_loop (fun start tok rest => invalidLoop e start b tok rest)
      fun start tok rest => invalidLoop_ot e start rest b tok

theorem sanLoop_ot (start : Nat) : ∀ (rest tok : List Byte),
    OT (start + tok.length + rest.length) (sanLoop start tok rest)
  | [], tok => by simp [sanLoop]
  | b :: r, tok => by
    rw [sanLoop]
    split
    · simp [Cur.tot]; omega
    · split
      · exact (sanLoop_ot start r _).cast (by simp; omega)
      · simp [Cur.tot]; omega

theorem nameStage_tot (be : Backend) (hc : HCfg) : Tot (nameStage be hc) := by
  unfold nameStage
  apply Tot.bind (scanNext_tot _)
  rintro ⟨n, b⟩
  dsimp only
  apply Tot.bind (sliceSkip_tot 1); intro name
  apply Tot.dite
  · exact Tot.pure _
  · apply Tot.dite
    · apply Tot.bind (tot_of_loop _ fun start tok rest => sanLoop_ot start rest tok)
      intro r
      cases r with
      | none => exact Tot.pure _
      | some b' =>
        dsimp only
        apply Tot.bind (handleInvalid_tot _ _ _); intro _
        exact Tot.pure _
    · apply Tot.bind (handleInvalid_tot _ _ _); intro _
      exact Tot.pure _

theorem wsAfterColon_ot (hc : HCfg) : ∀ (rest : List Byte) (start : Nat) (tok : List Byte),
    OT (start + tok.length + rest.length) (wsAfterColon hc start tok rest)
  | [], start, tok => by simp [wsAfterColon]
  | b :: r, start, tok => by
    rw [wsAfterColon_cons]
    split
    · exact (wsAfterColon_ot hc r _ _).cast (by simp; omega)
    · split
      · simp [Cur.tot]; omega
      · split
        · cases r with
          | nil => simp
          | cons b2 r2 =>
            simp only
            split
            · split
              · cases r2 with
                | nil => simp
                | cons p r3 =>
                  simp only
                  split
                  · exact (wsAfterColon_ot hc (p :: r3) _ _).cast (by simp; omega)
                  · simp [Cur.tot]; omega
              · simp [Cur.tot]; omega
            · simp
        · split
          · split
            · cases r with
              | nil => simp
              | cons p r3 =>
                simp only
                split
                · exact (wsAfterColon_ot hc (p :: r3) _ _).cast (by simp; omega)
                · simp [Cur.tot]; omega
            · simp [Cur.tot]; omega
          · have h := handleInvalid_tot hc .headerValue b ⟨start, tok ++ [b], r⟩
            cases hr : (handleInvalid hc .headerValue b).run ⟨start, tok ++ [b], r⟩ with
            | ok p =>
              obtain ⟨u, c1⟩ := p; rw [hr] at h
              simp only [OT_ok, Cur.tot, List.length_append, List.length_cons, List.length_nil] at h ⊢
              omega
            | part => simp
            | err e => simp
            | ub u => simp
termination_by rest => rest.length

theorem valueLines_tot (be : Backend) (hc : HCfg) : ∀ fuel, Tot (valueLines be hc fuel)
  | 0 => by unfold valueLines; exact Tot.undefined _
  | fuel + 1 => by
    have ih := valueLines_tot be hc fuel
    unfold valueLines
    apply Tot.bind (scanNext_tot _)
    rintro ⟨n, b⟩
    dsimp only
    apply Tot.dite
    · apply Tot.bind (expect_tot _ _); intro _
      apply Tot.dite
      · apply Tot.peek isWs ih
        apply Tot.bind (sliceSkip_tot 2); intro s
        exact Tot.pure _
      · apply Tot.bind (sliceSkip_tot 2); intro s
        exact Tot.pure _
    · apply Tot.dite
      · apply Tot.dite
        · apply Tot.peek isWs ih
          apply Tot.bind (sliceSkip_tot 1); intro s
          exact Tot.pure _
        · apply Tot.bind (sliceSkip_tot 1); intro s
          exact Tot.pure _
      · apply Tot.bind (handleInvalid_tot _ _ _); intro _
        exact Tot.pure _

theorem headerLine_tot (be : Backend) (hc : HCfg) (n : Nat) : Tot (headerLine be hc n) := by
  unfold headerLine
  apply Tot.bind next_tot; intro b
  apply Tot.dite
  · apply Tot.bind (expect_tot _ _); intro _
    exact Tot.pure _
  · apply Tot.dite
    · exact Tot.pure _
    · apply Tot.dite
      · apply Tot.dite
        · apply Tot.bind skipWsRun_tot; intro _
          apply Tot.bind slice_tot; intro _
          exact Tot.pure _
        · apply Tot.bind (handleInvalid_tot _ _ _); intro _
          exact Tot.pure _
      · apply Tot.bind (nameStage_tot be hc); intro nm
        cases nm with
        | none => exact Tot.pure _
        | some name =>
          dsimp only
          apply Tot.bind (tot_of_loop (fun start tok rest => wsAfterColon hc start tok rest)
            fun start tok rest => wsAfterColon_ot hc rest start tok)
          intro w
          cases w with
          | skipped => exact Tot.pure _
          | empty v => exact Tot.pure _
          | value =>
            dsimp only
            apply Tot.bind (fun c => valueLines_tot be hc (c.rest.length + 1) c); intro v
            cases v with
            | none => exact Tot.pure _
            | some v => exact Tot.pure _

theorem headersLoop_tot (be : Backend) (hc : HCfg) (cap : Nat) : ∀ (fuel : Nat) (c : Cur) (hs : List Hdr)
    (c' : Cur) (hs' : List Hdr), headersLoop be hc cap fuel c hs = (.ok c', hs') → Cur.tot c' = Cur.tot c
  | 0, c, hs, c', hs', h => by simp [headersLoop] at h
  | fuel + 1, c, hs, c', hs', h => by
    rw [headersLoop] at h
    have hl := headerLine_tot be hc hs.length c
    cases hr : (headerLine be hc hs.length).run c with
    | ok p =>
      obtain ⟨l, c1⟩ := p
      rw [hr] at hl h
      simp only [OT_ok] at hl
      cases l with
      | eoh => simp at h; rw [← h.1]; exact hl
      | skipped =>
        simp only at h
        rw [← hl]; exact headersLoop_tot be hc cap fuel c1 hs c' hs' h
      | header nm v =>
        simp only at h
        split at h
        · rw [← hl]; exact headersLoop_tot be hc cap fuel c1 _ c' hs' h
        · simp at h
    | part => rw [hr] at h; simp at h
    | err e => rw [hr] at h; simp at h
    | ub u => rw [hr] at h; simp at h

/-! ### the bound -/

/-- `Complete(n)` stays inside the buffer -/
def Bound {V : Type} (N : Nat) (r : Res V) : Prop := ∀ n, r.status = .ok n → n ≤ N

theorem step_bound {α V : Type} {f : P α} (hf : Tot f) (N : Nat) (c : Cur) (hc : Cur.tot c = N) (v : V)
    (k : α → Cur → Res V) (hk : ∀ a c1, Cur.tot c1 = N → Bound N (k a c1)) :
    Bound N (step (f.run c) v k) := by
  have h := hf c
  unfold step
  cases hr : f.run c with
  | ok p =>
    obtain ⟨a, c1⟩ := p
    rw [hr] at h; simp only [OT_ok] at h
    exact hk a c1 (h.trans hc)
  | part => intro n hn; simp at hn
  | err e => intro n hn; simp at hn
  | ub u => intro n hn; simp at hn

theorem finishHeaders_bound {V : Type} (be : Backend) (hc : HCfg) (cap : Nat) (buf : List Byte) (c : Cur) (v : V)
    (htot : Cur.tot c = buf.length) : Bound buf.length (finishHeaders be hc cap buf c v) := by
  intro n hn
  unfold finishHeaders parseHeadersIter at hn
  have hl := headersLoop_tot be hc cap (c.rest.length + 1) c []
  generalize headersLoop be hc cap (c.rest.length + 1) c [] = s at hn hl
  obtain ⟨o, hs⟩ := s
  cases o with
  | ok c' =>
    have := hl c' hs rfl
    simp only [Outcome.ok.injEq] at hn
    simp only [Cur.tot, Cur.pos, Cur.len] at *
    omega
  | part => simp at hn
  | err e => simp at hn
  | ub u => simp at hn

theorem reqCore_bound (be : Backend) (cfg : Config) (cap : Nat) (buf : List Byte) (v : ReqVal) :
    Bound buf.length (reqCore be cfg cap buf v) := by
  unfold reqCore
  refine step_bound skipEmptyLines_tot _ _ (by simp [Cur.tot, Cur.new]) _ _ ?_
  intro _ c hc; try dsimp only
  refine step_bound parseMethod_tot _ c hc _ _ ?_
  intro _ c hc; try dsimp only
  refine step_bound (optSkipSpaces_tot _) _ c hc _ _ ?_
  intro _ c hc; try dsimp only
  refine step_bound (parseUri_tot be) _ c hc _ _ ?_
  intro _ c hc; try dsimp only
  refine step_bound (optSkipSpaces_tot _) _ c hc _ _ ?_
  intro _ c hc; try dsimp only
  refine step_bound parseVersion_tot _ c hc _ _ ?_
  intro _ c hc; try dsimp only
  refine step_bound newline_tot _ c hc _ _ ?_
  intro _ c hc; try dsimp only
  exact finishHeaders_bound be _ cap buf c _ hc

end SA
end Hx
