/-
  Hx.Lemmas.CompChunk — C11 for `parse_chunk_size`: every Partial buffer is completed by one of
  `"0\r\n"`, `"\r\n"`, `"\n"`.
-/
import Hx.Lemmas.Chunk
import Hx.Spec.Completion
namespace Hx
namespace Comp

theorem chunkDigit_count {dbg : Bool} {count size d c' s' : Nat}
    (h : chunkDigit dbg count size d = .ok (c', s')) : c' = count + 1 := by
  unfold chunkDigit at h
  split at h
  · cases h
  · simp only at h
    split at h
    · cases h
    · split at h
      · split at h
        · cases h
        · cases h; rfl
      · cases h; rfl

theorem chunkDigit_ne_part (dbg : Bool) (count size d : Nat) : chunkDigit dbg count size d ≠ .part := by
  unfold chunkDigit
  split
  · simp
  · simp only
    split
    · simp
    · split
      · split <;> simp
      · simp

/-- the completion claim for one loop state -/
def ChunkDone (dbg : Bool) (pos size count : Nat) (i e : Bool) (l : List Byte) : Prop :=
  (∃ n s, chunkLoop dbg pos size count i e (l ++ [CR, LF]) = .ok (n, s)) ∨
  (∃ n s, chunkLoop dbg pos size count i e (l ++ [LF]) = .ok (n, s))

theorem digitK_part (dbg : Bool) (pos : Nat) (i e : Bool) (r : List Byte)
    (count size d : Nat)
    (ih : ∀ pos size count, chunkLoop dbg pos size count i e r = .part → (0 < count ∨ r ≠ []) →
        ChunkDone dbg pos size count i e r)
    (h : digitK dbg pos i e r (chunkDigit dbg count size d) = .part) :
    (∃ n s, digitK dbg pos i e (r ++ [CR, LF]) (chunkDigit dbg count size d) = .ok (n, s)) ∨
    (∃ n s, digitK dbg pos i e (r ++ [LF]) (chunkDigit dbg count size d) = .ok (n, s)) := by
  cases ho : chunkDigit dbg count size d with
  | ok p =>
    obtain ⟨c', s'⟩ := p
    have := chunkDigit_count ho
    rw [ho] at h
    simp only [digitK] at h ⊢
    exact ih _ _ _ h (Or.inl (by omega))
  | part => exact absurd ho (chunkDigit_ne_part _ _ _ _)
  | err e => rw [ho] at h; simp [digitK] at h
  | ub u => rw [ho] at h; simp [digitK] at h

theorem chunkLoop_part (dbg : Bool) : ∀ (l : List Byte) (pos size count : Nat) (i e : Bool),
    chunkLoop dbg pos size count i e l = .part → (0 < count ∨ l ≠ []) →
    ChunkDone dbg pos size count i e l := by
  intro l
  induction l with
  | nil =>
    intro pos size count i e _ hc
    have hc : 0 < count := by rcases hc with h | h; exact h; exact absurd rfl h
    have h0 : (count == 0) = false := by simp; omega
    left
    refine ⟨pos + 2, size, ?_⟩
    rw [List.nil_append, loop_cons]
    have : isDigit CR = false := by decide
    have h2 : ¬ ((97 : Byte) ≤ CR ∧ CR ≤ 102) := by decide
    have h3 : ¬ ((65 : Byte) ≤ CR ∧ CR ≤ 70) := by decide
    simp [this, h0, afterCr, h2, h3]
  | cons b r ih =>
    intro pos size count i e h hc
    rw [loop_cons] at h
    unfold ChunkDone
    rw [List.cons_append, List.cons_append, loop_cons, loop_cons]
    have ih' : ∀ i e pos size count, chunkLoop dbg pos size count i e r = .part → (0 < count ∨ r ≠ []) →
        ChunkDone dbg pos size count i e r := fun i e pos size count => ih pos size count i e
    split at h
    · rename_i h1; simp only [h1, if_true]
      exact digitK_part dbg pos i e r count size _ (ih' i e) h
    · rename_i h1; simp only [h1, if_false]
      split at h
      · rename_i h2; simp only [h2, if_true]
        exact digitK_part dbg pos i e r count size _ (ih' i e) h
      · rename_i h2; simp only [h2, if_false]
        split at h
        · rename_i h3; simp only [h3, if_true]
          exact digitK_part dbg pos i e r count size _ (ih' i e) h
        · rename_i h3; simp only [h3, if_false]
          split at h
          · cases h
          · rename_i h4
            have hcount : 0 < count := by
              cases count with
              | zero => simp at h4
              | succ n => omega
            simp only [h4]
            split at h
            · rename_i h5; simp only [h5, if_true]
              rw [afterCr_part] at h
              subst h
              right; exact ⟨pos + 2, size, by simp [afterCr]⟩
            · rename_i h5; simp only [h5]
              split at h
              · rename_i h6; simp only [h6, if_true]; exact ih' _ _ _ _ _ h (Or.inl hcount)
              · rename_i h6; simp only [h6]
                split at h
                · rename_i h7; simp only [h7, if_true]; exact ih' _ _ _ _ _ h (Or.inl hcount)
                · rename_i h7; simp only [h7]
                  split at h
                  · rename_i h8; simp only [h8, if_true]; exact ih' _ _ _ _ _ h (Or.inl hcount)
                  · rename_i h8; simp only [h8]
                    split at h
                    · rename_i h9; subst h9; simp only [if_true]; exact ih' _ _ _ _ _ h (Or.inl hcount)
                    · cases h

end Comp

private theorem strBytes_crlf : strBytes "\r\n" = [CR, LF] := by decide +kernel
private theorem strBytes_lf : strBytes "\n" = [LF] := by decide +kernel

theorem chunk_partial_completable (dbg : Bool) (buf : List Byte) (h : parseChunkSize dbg buf = .part) :
    ∃ w ∈ chunkTails, ∃ n size, parseChunkSize dbg (buf ++ w) = .ok (n, size) := by
  cases buf with
  | nil =>
    refine ⟨strBytes "0\r\n", by simp [chunkTails], 3, 0, ?_⟩
    cases dbg <;> decide +kernel
  | cons b r =>
    rcases Comp.chunkLoop_part dbg (b :: r) 0 0 0 true false h (Or.inr (by simp)) with ⟨n, s, hh⟩ | ⟨n, s, hh⟩
    · exact ⟨strBytes "\r\n", by simp [chunkTails], n, s, by rw [strBytes_crlf]; exact hh⟩
    · exact ⟨strBytes "\n", by simp [chunkTails], n, s, by rw [strBytes_lf]; exact hh⟩

end Hx
