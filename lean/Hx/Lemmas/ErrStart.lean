/-
  Hx.Lemmas.ErrStart — C10 for the start lines: the request line / status line is rejected with
  kind `e` exactly when `ReqLineErr` / `RespLineErr` (Hx/Spec/ErrSpec.lean) says so.

  One lemma per stage: `f.run c = .err e` ⇔ a decomposition of `c.rest` up to the first offending
  byte; then the composition along `reqLineP` / `respLineP`.
-/
import Hx.Spec.ErrSpec
import Hx.Parse.Lines
import Hx.Lemmas.StartGrammar
import Hx.Lemmas.LineGrammar
namespace Hx
open SA

/- the auxiliary lemmas live in `Hx.ES`; only the two C10 theorems are stated in `Hx` -/
namespace ES

/-! ### generic helpers -/

theorem bind_err {α β : Type} {f : P α} {g : α → P β} {c : Cur} {e : Error} :
    (f >>= g).run c = .err e ↔
      f.run c = .err e ∨ ∃ a c', f.run c = .ok (a, c') ∧ (g a).run c' = .err e := by
  simp only [run_bind]
  cases h : f.run c with
  | ok r =>
    obtain ⟨a, c'⟩ := r
    constructor
    · intro h'; exact Or.inr ⟨a, c', rfl, h'⟩
    · rintro (h' | ⟨a', c1, e', h'⟩)
      · cases h'
      · cases e'; exact h'
  | part => simp
  | err e' => simp
  | ub u => simp

/-! ### `skip_empty_lines` -/

theorem skipEmptyLinesGo_err_fwd (s : Nat) (tok r : List Byte) (e : Error)
    (h : skipEmptyLinesGo s tok r = .err e) :
    e = .newLine ∧ ∃ pre s', r = pre ++ s' ∧ EmptyLines pre ∧ CrNotLf s' := by
  fun_induction skipEmptyLinesGo s tok r with
  | case1 tok => simp at h
  | case2 tok b hb => simp at h
  | case3 tok b hb b2 r2 hb2 ih =>
    obtain ⟨he, pre, s', rfl, hp, hc⟩ := ih h
    simp only [beq_iff_eq] at hb hb2; subst hb; subst hb2
    exact ⟨he, CR :: LF :: pre, s', by simp, .crlf hp, hc⟩
  | case4 tok b hb b2 r2 hb2 =>
    simp only [beq_iff_eq] at hb; subst hb
    simp only [Outcome.err.injEq] at h
    exact ⟨h.symm, [], CR :: b2 :: r2, by simp, .nil, ⟨b2, r2, rfl, by simpa using hb2⟩⟩
  | case5 tok b r hb hb2 ih =>
    obtain ⟨he, pre, s', rfl, hp, hc⟩ := ih h
    simp only [beq_iff_eq] at hb2; subst hb2
    exact ⟨he, LF :: pre, s', by simp, .lf hp, hc⟩
  | case6 tok b r hb hb2 => simp at h

theorem skipEmptyLinesGo_err_bwd (s : Nat) {pre : List Byte} (hp : EmptyLines pre) (x : Byte) (t : List Byte)
    (hx : x ≠ LF) : ∀ tok : List Byte,
    skipEmptyLinesGo s tok (pre ++ CR :: x :: t) = .err .newLine := by
  induction hp with
  | nil => intro tok; simp [skipEmptyLinesGo_cons, beq_false_of_ne hx]
  | crlf _ ih =>
    intro tok
    rw [List.cons_append, List.cons_append, skipEmptyLinesGo_cons]
    simp only [beq_self_eq_true, if_true]
    rw [ih]
  | lf _ ih =>
    intro tok
    rw [List.cons_append, skipEmptyLinesGo_cons]
    have : (LF == CR) = false := by decide
    simp only [this, beq_self_eq_true, if_true, Bool.false_eq_true, if_false]
    rw [ih]

theorem skipEmptyLines_err (s : Nat) (tok r : List Byte) (e : Error) :
    skipEmptyLines.run ⟨s, tok, r⟩ = .err e ↔
      e = .newLine ∧ ∃ pre s', r = pre ++ s' ∧ EmptyLines pre ∧ CrNotLf s' := by
  constructor
  · intro h; exact skipEmptyLinesGo_err_fwd s tok r e h
  · rintro ⟨rfl, pre, s', rfl, hp, x, t, rfl, hx⟩
    exact skipEmptyLinesGo_err_bwd s hp x t hx tok

/-! ### `skip_spaces` never fails -/

theorem skipSpacesGo_noErr (s : Nat) (tok r : List Byte) (e : Error) :
    skipSpacesGo s tok r ≠ .err e := by
  fun_induction skipSpacesGo s tok r with
  | case1 tok => simp
  | case2 tok b r hb ih => exact ih
  | case3 tok b r hb => simp

theorem skipSpaces_noErr (c : Cur) (e : Error) : skipSpaces.run c ≠ .err e :=
  skipSpacesGo_noErr _ _ _ e

theorem optSkipSpaces_noErr (multi : Bool) (c : Cur) (e : Error) : (optSkipSpaces multi).run c ≠ .err e := by
  cases multi with
  | false => simp [optSkipSpaces]
  | true => simpa [optSkipSpaces] using skipSpaces_noErr c e

/-! ### `parse_token`, `parse_method` -/

theorem tokenLoop_err_fwd (s : Nat) (tok r : List Byte) (e : Error) (h : tokenLoop s tok r = .err e) :
    e = .token ∧ ∃ w b r', r = w ++ b :: r' ∧ (∀ x ∈ w, isTchar x = true) ∧ isTchar b = false ∧ b ≠ SP := by
  fun_induction tokenLoop s tok r with
  | case1 tok => simp at h
  | case2 tok b r hb =>
    have := sliceSkip_app s tok [b] r
    simp only [List.length_cons, List.length_nil, Nat.zero_add] at this
    rw [this] at h; simp at h
  | case3 tok b r hb hnt =>
    simp only [Outcome.err.injEq] at h
    exact ⟨h.symm, [], b, r, by simp, by simp, by simpa using hnt, by simpa using hb⟩
  | case4 tok b r hb ht ih =>
    obtain ⟨he, w, b', r', rfl, hw, hb', hsp⟩ := ih h
    refine ⟨he, b :: w, b', r', by simp, ?_, hb', hsp⟩
    intro x hx
    simp only [List.mem_cons] at hx
    rcases hx with rfl | hx
    · simpa using ht
    · exact hw x hx

theorem tokenLoop_err_bwd (s : Nat) (b : Byte) (r' : List Byte) (hb : isTchar b = false) (hsp : b ≠ SP) :
    ∀ (w : List Byte), (∀ x ∈ w, isTchar x = true) → ∀ tok : List Byte,
    tokenLoop s tok (w ++ b :: r') = .err .token
  | [], _, tok => by simp [tokenLoop, beq_false_of_ne hsp, hb]
  | y :: w, h, tok => by
    have hy : isTchar y = true := h y (by simp)
    rw [List.cons_append, tokenLoop]
    simp only [beq_false_of_ne (tchar_ne_sp hy), hy, Bool.false_eq_true, if_false, Bool.not_true]
    exact tokenLoop_err_bwd s b r' hb hsp w (fun x hx => h x (by simp [hx])) _

theorem parseToken_err (s : Nat) (tok r : List Byte) (e : Error) :
    parseToken.run ⟨s, tok, r⟩ = .err e ↔
      e = .token ∧ ∃ m b r', r = m ++ b :: r' ∧ (∀ x ∈ m, isTchar x = true) ∧ isTchar b = false ∧
        (m = [] ∨ b ≠ SP) := by
  rw [parseToken_run]
  constructor
  · intro h
    cases r with
    | nil => simp at h
    | cons b r1 =>
      simp only at h
      split at h
      · rename_i hb
        simp only [Outcome.err.injEq] at h
        exact ⟨h.symm, [], b, r1, by simp, by simp, by simpa using hb, Or.inl rfl⟩
      · rename_i hb
        obtain ⟨he, w, b', r', rfl, hw, hb', hsp⟩ := tokenLoop_err_fwd _ _ _ _ h
        refine ⟨he, b :: w, b', r', by simp, ?_, hb', Or.inr hsp⟩
        intro x hx
        simp only [List.mem_cons] at hx
        rcases hx with rfl | hx
        · simpa using hb
        · exact hw x hx
  · rintro ⟨rfl, m, b, r', rfl, hm, hb, hor⟩
    cases m with
    | nil => simp [hb]
    | cons y w =>
      have hy : isTchar y = true := hm y (by simp)
      have hsp : b ≠ SP := by
        rcases hor with h | h
        · cases h
        · exact h
      simp only [List.cons_append, hy, Bool.not_true, Bool.false_eq_true, if_false]
      exact tokenLoop_err_bwd s b r' hb hsp w (fun x hx => hm x (by simp [hx])) _

theorem parseMethod_err (s : Nat) (tok r : List Byte) (e : Error) :
    parseMethod.run ⟨s, tok, r⟩ = .err e ↔
      e = .token ∧ ∃ m b r', r = m ++ b :: r' ∧ (∀ x ∈ m, isTchar x = true) ∧ isTchar b = false ∧
        (m = [] ∨ b ≠ SP) := by
  rw [parseMethod_run]; exact parseToken_err s tok r e

/-! ### `parse_uri` -/

theorem scanNext_noErr {cls : Byte → Bool} {sc : Scanner} (hs : Scanner.Exact cls sc) (c : Cur) (e : Error) :
    (scanNext sc).run c ≠ .err e := by
  rw [scanNext_run hs]; split <;> simp

theorem sliceSkip_noErr (k : Nat) (c : Cur) (e : Error) : (sliceSkip k).run c ≠ .err e := by
  simp only [sliceSkip, run_mk]; split <;> simp

theorem parseUri_err {be : Backend} (hbe : be.Exact) (s : Nat) (r : List Byte) (e : Error) :
    (parseUri be).run ⟨s, [], r⟩ = .err e ↔
      e = .token ∧ ∃ t b r', r = t ++ b :: r' ∧ (∀ x ∈ t, isUri x = true) ∧ isUri b = false ∧
        (b ≠ SP ∨ t = [] ∨ validUtf8 t = false) := by
  simp only [parseUri]
  constructor
  · intro h
    rcases bind_err.1 h with h | ⟨⟨n, b⟩, c1, h1, h⟩
    · exact absurd h (scanNext_noErr hbe.uri _ _)
    · obtain ⟨l, r', rfl, hl, hb, rfl, rfl⟩ := (scanNext_ok_iff hbe.uri).1 h1
      simp only at h
      split at h
      · rename_i hsp
        simp only [beq_iff_eq] at hsp; subst hsp
        split at h
        · rename_i hn
          simp only [beq_iff_eq, List.length_eq_zero_iff] at hn; subst hn
          simp only [run_fail, Outcome.err.injEq] at h
          exact ⟨h.symm, [], SP, r', rfl, hl, hb, Or.inr (Or.inl rfl)⟩
        · rcases bind_err.1 h with h | ⟨sl, c2, h2, h⟩
          · exact absurd h (sliceSkip_noErr _ _ _)
          · have h3 := sliceSkip_app s l [SP] r'
            simp only [List.length_cons, List.length_nil, Nat.zero_add] at h3
            simp only [List.nil_append] at h2
            rw [h3] at h2
            simp only [Outcome.ok.injEq, Prod.mk.injEq] at h2
            obtain ⟨rfl, rfl⟩ := h2
            split at h
            · simp at h
            · rename_i hu
              simp only [run_fail, Outcome.err.injEq] at h
              exact ⟨h.symm, l, SP, r', rfl, hl, hb, Or.inr (Or.inr (by simpa using hu))⟩
      · rename_i hsp
        simp only [run_fail, Outcome.err.injEq] at h
        exact ⟨h.symm, l, b, r', rfl, hl, hb, Or.inl (by simpa using hsp)⟩
  · rintro ⟨rfl, t, b, r', rfl, ht, hb, hor⟩
    refine bind_err.2 (Or.inr ⟨(t.length, b), ⟨s, [] ++ t ++ [b], r'⟩,
      (scanNext_ok_iff hbe.uri).2 ⟨t, r', rfl, ht, hb, rfl, rfl⟩, ?_⟩)
    simp only
    by_cases hsp : b = SP
    · subst hsp
      simp only [beq_self_eq_true, if_true]
      by_cases hn : t = []
      · subst hn; simp
      · have hn' : ¬ t.length = 0 := fun h0 => hn (List.length_eq_zero_iff.1 h0)
        simp only [beq_iff_eq, hn', if_false]
        have hu : validUtf8 t = false := by
          rcases hor with h | h | h
          · exact absurd rfl h
          · exact absurd h hn
          · exact h
        have h3 := sliceSkip_app s t [SP] r'
        simp only [List.length_cons, List.length_nil, Nat.zero_add] at h3
        refine bind_err.2 (Or.inr ⟨_, _, by simpa using h3, ?_⟩)
        simp [hu]
    · simp [hsp]

/-! ### `parse_version` -/

/-- the part of the version literal common to both spellings: `HTTP/1.` -/
def L7 : List Byte := [0x48, 0x54, 0x54, 0x50, 0x2F, 0x31, 0x2E]

theorem vb0 : versionBytes 0 = L7 ++ [0x30] := rfl
theorem vb1 : versionBytes 1 = L7 ++ [0x31] := rfl
theorem L7_length : L7.length = 7 := rfl

theorem L7_prefix {v : Nat} (hv : v = 0 ∨ v = 1) : L7 <+: versionBytes v := by
  rcases hv with rfl | rfl
  · exact ⟨[0x30], vb0.symm⟩
  · exact ⟨[0x31], vb1.symm⟩

/-- against a literal `L`, an input is a prefix of it, starts with it, or leaves it at a first byte -/
theorem prefix_tri : ∀ (L r : List Byte), r <+: L ∨ L <+: r ∨
    ∃ p x r', r = p ++ x :: r' ∧ p <+: L ∧ p.length < L.length ∧ ¬ (p ++ [x]) <+: L
  | [], _ => Or.inr (Or.inl List.nil_prefix)
  | _ :: _, [] => Or.inl List.nil_prefix
  | a :: L, b :: r => by
    by_cases h : b = a
    · subst h
      rcases prefix_tri L r with h | h | ⟨p, x, r', rfl, hp, hl, hn⟩
      · left; simpa using h
      · right; left; simpa using h
      · right; right
        exact ⟨b :: p, x, r', by simp, by simpa using hp, by simpa using hl, by simpa using hn⟩
    · right; right
      exact ⟨[], b, r, by simp, List.nil_prefix, by simp, by simpa using h⟩

theorem mismatch_of_L7 {p : List Byte} {x : Byte} (hp : p <+: L7) (hl : p.length < 7)
    (hn : ¬ (p ++ [x]) <+: L7) : VersionMismatch p x := by
  have key : ∀ v, (v = 0 ∨ v = 1) → ¬ (p ++ [x]) <+: versionBytes v := by
    intro v hv h
    exact hn (List.prefix_of_prefix_length_le h (L7_prefix hv) (by simp [L7_length]; omega))
  exact ⟨by omega, Or.inl (hp.trans (L7_prefix (Or.inl rfl))), key 0 (Or.inl rfl), key 1 (Or.inr rfl)⟩

theorem mismatch_to_L7 {p : List Byte} {x : Byte} (h : VersionMismatch p x) (hl : p.length < 7) :
    p <+: L7 ∧ ¬ (p ++ [x]) <+: L7 := by
  obtain ⟨-, hp, hn0, -⟩ := h
  refine ⟨?_, fun hh => hn0 (hh.trans (L7_prefix (Or.inl rfl)))⟩
  rcases hp with hp | hp
  · exact List.prefix_of_prefix_length_le hp (L7_prefix (Or.inl rfl)) (by rw [L7_length]; omega)
  · exact List.prefix_of_prefix_length_le hp (L7_prefix (Or.inr rfl)) (by rw [L7_length]; omega)

/-- every input is a prefix of a version literal, starts with one, or leaves both at a first byte -/
theorem version_cases (r : List Byte) :
    (r <+: versionBytes 0 ∨ r <+: versionBytes 1 ∨ versionBytes 0 <+: r ∨ versionBytes 1 <+: r) ∨
      ∃ p x r', r = p ++ x :: r' ∧ VersionMismatch p x := by
  rcases prefix_tri L7 r with h | ⟨r2, rfl⟩ | ⟨p, x, r', rfl, hp, hl, hn⟩
  · exact Or.inl (Or.inl (h.trans (L7_prefix (Or.inl rfl))))
  · cases r2 with
    | nil => exact Or.inl (Or.inl (by simpa using L7_prefix (Or.inl rfl)))
    | cons y r3 =>
      by_cases h0 : y = 0x30
      · subst h0; exact Or.inl (Or.inr (Or.inr (Or.inl ⟨r3, by rw [vb0]; simp⟩)))
      · by_cases h1 : y = 0x31
        · subst h1; exact Or.inl (Or.inr (Or.inr (Or.inr ⟨r3, by rw [vb1]; simp⟩)))
        · refine Or.inr ⟨L7, y, r3, rfl, by simp [L7_length], Or.inl (L7_prefix (Or.inl rfl)), ?_, ?_⟩
          · rw [vb0, List.prefix_append_right_inj]; simpa using h0
          · rw [vb1, List.prefix_append_right_inj]; simpa using h1
  · exact Or.inr ⟨p, x, r', rfl, mismatch_of_L7 hp (by rw [L7_length] at hl; exact hl) hn⟩

/-- a mismatch excludes the prefix cases -/
theorem mismatch_excl {p : List Byte} {x : Byte} (h : VersionMismatch p x) (r' : List Byte) {v : Nat}
    (hv : v = 0 ∨ v = 1) :
    ¬ (p ++ x :: r') <+: versionBytes v ∧ ¬ versionBytes v <+: (p ++ x :: r') := by
  obtain ⟨hl, -, hn0, hn1⟩ := h
  have hpx : (p ++ [x]) <+: (p ++ x :: r') := ⟨r', by simp⟩
  have hn : ¬ (p ++ [x]) <+: versionBytes v := by rcases hv with rfl | rfl <;> assumption
  refine ⟨fun hh => hn (hpx.trans hh), fun hh => hn ?_⟩
  exact List.prefix_of_prefix_length_le hpx hh (by simp [versionBytes_length]; omega)

/-- a chain of `expect`s of the bytes of a literal, then `k` -/
def expChain {α : Type} (e : Error) (k : P α) : List Byte → P α
  | [] => k
  | a :: as => expect (· == a) e >>= fun _ => expChain e k as

theorem bwVersion_chain : bwVersion = expChain .version P.partial_ L7 := rfl

theorem expChain_err {α : Type} (e : Error) (k : P α) (x : Byte) (r' : List Byte) (s : Nat) :
    ∀ (L p t : List Byte), p <+: L → p.length < L.length → ¬ (p ++ [x]) <+: L →
      (expChain e k L).run ⟨s, t, p ++ x :: r'⟩ = .err e
  | [], p, _, _, hl, _ => by simp at hl
  | a :: L, [], t, _, _, hn => by
    have hx : x ≠ a := by
      intro hh; subst hh; exact hn (by simp)
    simp [expChain, expect, next, hx]
  | a :: L, b :: p, t, hp, hl, hn => by
    simp only [List.cons_prefix_cons] at hp
    obtain ⟨rfl, hp⟩ := hp
    have ih := expChain_err e k x r' s L p (t ++ [b]) hp (by simpa using hl)
      (by simpa using hn)
    simp only [expChain]
    refine bind_err.2 (Or.inr ⟨b, _, (expect_ok _ _ _ _ _ _ _).2 ⟨_, rfl, by simp, rfl⟩, ih⟩)

theorem parseVersion_noErr_of_prefix (s : Nat) (tok r : List Byte)
    (h : r <+: versionBytes 0 ∨ r <+: versionBytes 1 ∨ versionBytes 0 <+: r ∨ versionBytes 1 <+: r)
    (e : Error) : parseVersion.run ⟨s, tok, r⟩ ≠ .err e := by
  have full : ∀ v, (v = 0 ∨ v = 1) → versionBytes v <+: r → parseVersion.run ⟨s, tok, r⟩ ≠ .err e := by
    rintro v hv ⟨r', rfl⟩
    rw [(parseVersion_ok s tok _ v _).2 ⟨hv, r', rfl, rfl⟩]; simp
  have part : ∀ v, (v = 0 ∨ v = 1) → r <+: versionBytes v → parseVersion.run ⟨s, tok, r⟩ ≠ .err e := by
    intro v hv hp
    by_cases h8 : r.length = 8
    · have := hp.eq_of_length (by rw [h8, versionBytes_length])
      subst this; exact full v hv (List.prefix_refl _)
    · have hle := hp.length_le
      rw [versionBytes_length] at hle
      have hr : r = (versionBytes v).take r.length := List.prefix_iff_eq_take.1 hp
      rw [parseVersion_short _ (by simp only; omega)]
      have := bwVersion_prefix s tok r.length (by omega)
      rcases hv with rfl | rfl
      · rw [hr, versionBytes_zero, this.1]; simp
      · rw [hr, versionBytes_one, this.2]; simp
  rcases h with h | h | h | h
  · exact part 0 (Or.inl rfl) h
  · exact part 1 (Or.inr rfl) h
  · exact full 0 (Or.inl rfl) h
  · exact full 1 (Or.inr rfl) h

theorem parseVersion_err_of_mismatch (s : Nat) (tok p : List Byte) (x : Byte) (r' : List Byte)
    (h : VersionMismatch p x) : parseVersion.run ⟨s, tok, p ++ x :: r'⟩ = .err .version := by
  by_cases h8 : 8 ≤ (p ++ x :: r').length
  · rw [parseVersion_long _ h8]
    simp only
    have e0 := (mismatch_excl h r' (Or.inl rfl)).2
    have e1 := (mismatch_excl h r' (Or.inr rfl)).2
    rw [if_neg, if_neg]
    · intro hh
      simp only [beq_iff_eq] at hh
      exact e1 ⟨(p ++ x :: r').drop 8, by rw [versionBytes_one, ← hh]; simp⟩
    · intro hh
      simp only [beq_iff_eq] at hh
      exact e0 ⟨(p ++ x :: r').drop 8, by rw [versionBytes_zero, ← hh]; simp⟩
  · have hl : p.length < 7 := by simp at h8; omega
    obtain ⟨hp, hn⟩ := mismatch_to_L7 h hl
    rw [parseVersion_short _ (by simp only; omega), bwVersion_chain]
    exact expChain_err _ _ x r' s L7 p tok hp (by rw [L7_length]; exact hl) hn

theorem parseVersion_err (s : Nat) (tok r : List Byte) (e : Error) :
    parseVersion.run ⟨s, tok, r⟩ = .err e ↔
      e = .version ∧ ∃ p x r', r = p ++ x :: r' ∧ VersionMismatch p x := by
  constructor
  · intro h
    rcases version_cases r with hc | ⟨p, x, r', rfl, hm⟩
    · exact absurd h (parseVersion_noErr_of_prefix s tok r hc e)
    · rw [parseVersion_err_of_mismatch s tok p x r' hm] at h
      simp only [Outcome.err.injEq] at h
      exact ⟨h.symm, p, x, r', rfl, hm⟩
  · rintro ⟨rfl, p, x, r', rfl, hm⟩
    exact parseVersion_err_of_mismatch s tok p x r' hm

/-! ### `newline!`, `expect!`, `space!`, `parse_code` -/

theorem newline_err (s : Nat) (tok r : List Byte) (e : Error) :
    newline.run ⟨s, tok, r⟩ = .err e ↔ e = .newLine ∧ BadEol r := by
  rw [newline_run]
  constructor
  · intro h
    split at h
    · simp at h
    · rename_i b r1
      split at h
      · rename_i hb
        simp only [beq_iff_eq] at hb; subst hb
        split at h
        · simp at h
        · rename_i b2 r2
          split at h
          · simp at h
          · rename_i hb2
            simp only [Outcome.err.injEq] at h
            exact ⟨h.symm, Or.inr ⟨b2, r2, rfl, by simpa using hb2⟩⟩
      · rename_i hb
        split at h
        · simp at h
        · rename_i hb2
          simp only [Outcome.err.injEq] at h
          exact ⟨h.symm, Or.inl ⟨b, r1, rfl, by simpa using hb, by simpa using hb2⟩⟩
  · rintro ⟨rfl, ⟨x, r', rfl, hcr, hlf⟩ | ⟨x, r', rfl, hx⟩⟩
    · simp [beq_false_of_ne hcr, beq_false_of_ne hlf]
    · simp [beq_false_of_ne hx]

theorem expect_err (p : Byte → Bool) (e0 : Error) (s : Nat) (tok r : List Byte) (e : Error) :
    (expect p e0).run ⟨s, tok, r⟩ = .err e ↔ e = e0 ∧ ∃ x r', r = x :: r' ∧ p x = false := by
  cases r with
  | nil => simp [expect, next]
  | cons x r1 =>
    simp only [expect, next, run_bind]
    cases hx : p x
    · simp only [Bool.false_eq_true, if_false, run_fail, Outcome.err.injEq, List.cons.injEq]
      constructor
      · rintro rfl; exact ⟨rfl, x, r1, ⟨rfl, rfl⟩, hx⟩
      · rintro ⟨rfl, -⟩; rfl
    · simp only [if_true, run_pure, List.cons.injEq]
      constructor
      · intro h; cases h
      · rintro ⟨-, x', r', ⟨rfl, rfl⟩, hx'⟩; rw [hx] at hx'; cases hx'

theorem slice_noErr (c : Cur) (e : Error) : slice.run c ≠ .err e := by simp [slice]

theorem space_err (e0 : Error) (s : Nat) (tok r : List Byte) (e : Error) :
    (space e0).run ⟨s, tok, r⟩ = .err e ↔ e = e0 ∧ ∃ x r', r = x :: r' ∧ x ≠ SP := by
  unfold space
  constructor
  · intro h
    rcases bind_err.1 h with h | ⟨b, c1, -, h⟩
    · obtain ⟨he, x, r', hr, hx⟩ := (expect_err _ _ _ _ _ _).1 h
      exact ⟨he, x, r', hr, by simpa using hx⟩
    · rcases bind_err.1 h with h | ⟨sl, c2, -, h⟩
      · exact absurd h (slice_noErr _ _)
      · simp at h
  · rintro ⟨rfl, x, r', rfl, hx⟩
    exact bind_err.2 (Or.inl ((expect_err _ _ _ _ _ _).2 ⟨rfl, x, r', rfl, by simpa using hx⟩))

theorem parseCode_err (s : Nat) (tok r : List Byte) (e : Error) :
    parseCode.run ⟨s, tok, r⟩ = .err e ↔
      e = .status ∧ ∃ ds x r', r = ds ++ x :: r' ∧ ds.length < 3 ∧ (∀ d ∈ ds, isDigit d = true) ∧
        isDigit x = false := by
  unfold parseCode
  constructor
  · intro h
    rcases bind_err.1 h with h | ⟨d₁, c1, h1, h⟩
    · obtain ⟨he, x, r', rfl, hx⟩ := (expect_err _ _ _ _ _ _).1 h
      exact ⟨he, [], x, r', rfl, by simp, by simp, hx⟩
    obtain ⟨r1, rfl, hd1, rfl⟩ := (expect_ok _ _ _ _ _ _ _).1 h1
    rcases bind_err.1 h with h | ⟨d₂, c2, h2, h⟩
    · obtain ⟨he, x, r', rfl, hx⟩ := (expect_err _ _ _ _ _ _).1 h
      exact ⟨he, [d₁], x, r', rfl, by simp, by simpa using hd1, hx⟩
    obtain ⟨r2, rfl, hd2, rfl⟩ := (expect_ok _ _ _ _ _ _ _).1 h2
    rcases bind_err.1 h with h | ⟨d₃, c3, h3, h⟩
    · obtain ⟨he, x, r', rfl, hx⟩ := (expect_err _ _ _ _ _ _).1 h
      exact ⟨he, [d₁, d₂], x, r', rfl, by simp, by simp [hd1, hd2], hx⟩
    simp at h
  · rintro ⟨rfl, ds, x, r', rfl, hl, hds, hx⟩
    have hfail : ∀ t, (expect isDigit .status).run ⟨s, t, x :: r'⟩ = .err .status :=
      fun t => (expect_err _ _ _ _ _ _).2 ⟨rfl, x, r', rfl, hx⟩
    rcases ds with _ | ⟨d₁, _ | ⟨d₂, _ | ⟨d₃, ds⟩⟩⟩
    · exact bind_err.2 (Or.inl (hfail _))
    · have hd1 : isDigit d₁ = true := hds d₁ (by simp)
      refine bind_err.2 (Or.inr ⟨d₁, _, (expect_ok _ _ _ _ _ _ _).2 ⟨_, rfl, hd1, rfl⟩, ?_⟩)
      exact bind_err.2 (Or.inl (hfail _))
    · have hd1 : isDigit d₁ = true := hds d₁ (by simp)
      have hd2 : isDigit d₂ = true := hds d₂ (by simp)
      refine bind_err.2 (Or.inr ⟨d₁, _, (expect_ok _ _ _ _ _ _ _).2 ⟨_, rfl, hd1, rfl⟩, ?_⟩)
      refine bind_err.2 (Or.inr ⟨d₂, _, (expect_ok _ _ _ _ _ _ _).2 ⟨_, rfl, hd2, rfl⟩, ?_⟩)
      exact bind_err.2 (Or.inl (hfail _))
    · simp at hl; omega

/-! ### `parse_reason` -/

/-- what stops the reason phrase with an error: a byte outside the class other than a line end,
or a CR not followed by LF -/
def BadReasonEnd (s' : List Byte) : Prop :=
  (∃ x r', s' = x :: r' ∧ isReason x = false ∧ x ≠ CR ∧ x ≠ LF) ∨ CrNotLf s'

theorem reasonFinish_noErr (seen : Bool) (s : Nat) (tok suf r : List Byte) (e : Error) :
    (reasonFinish seen suf.length).run ⟨s, tok ++ suf, r⟩ ≠ .err e := by
  rw [reasonFinish_app]; simp

theorem reasonLoop_err_fwd (s : Nat) (seen : Bool) (tok r : List Byte) (e : Error)
    (h : reasonLoop s seen tok r = .err e) :
    e = .status ∧ ∃ w s', r = w ++ s' ∧ (∀ b ∈ w, isReason b = true) ∧ BadReasonEnd s' := by
  fun_induction reasonLoop s seen tok r with
  | case1 seen tok => simp at h
  | case2 seen tok b hb => simp at h
  | case3 seen tok b hb b2 r2 hb2 =>
    exact absurd h (reasonFinish_noErr seen s tok [b, b2] r2 e)
  | case4 seen tok b hb b2 r2 hb2 =>
    simp only [beq_iff_eq] at hb; subst hb
    simp only [Outcome.err.injEq] at h
    exact ⟨h.symm, [], CR :: b2 :: r2, by simp, by simp, Or.inr ⟨b2, r2, rfl, by simpa using hb2⟩⟩
  | case5 seen tok b r hb hb2 =>
    exact absurd h (reasonFinish_noErr seen s tok [b] r e)
  | case6 seen tok b r hb hb2 hnr =>
    simp only [Outcome.err.injEq] at h
    exact ⟨h.symm, [], b :: r, by simp, by simp,
      Or.inl ⟨b, r, rfl, by simpa using hnr, by simpa using hb, by simpa using hb2⟩⟩
  | case7 seen tok b r hb hb2 hr ih =>
    obtain ⟨he, w, s', rfl, hw, hbad⟩ := ih h
    refine ⟨he, b :: w, s', by simp, ?_, hbad⟩
    intro x hx
    simp only [List.mem_cons] at hx
    rcases hx with rfl | hx
    · simpa using hr
    · exact hw x hx

theorem reasonLoop_err_bwd (s : Nat) (s' : List Byte) (hbad : BadReasonEnd s') :
    ∀ (w : List Byte), (∀ b ∈ w, isReason b = true) → ∀ (seen : Bool) (tok : List Byte),
    reasonLoop s seen tok (w ++ s') = .err .status
  | [], _, seen, tok => by
    rcases hbad with ⟨x, r', rfl, hx, hcr, hlf⟩ | ⟨x, r', rfl, hx⟩
    · simp [reasonLoop_cons, beq_false_of_ne hcr, beq_false_of_ne hlf, hx]
    · simp [reasonLoop_cons, beq_false_of_ne hx]
  | b :: w, h, seen, tok => by
    have hb : isReason b = true := h b (by simp)
    rw [List.cons_append, reasonLoop_cons]
    simp only [beq_false_of_ne (reason_ne_cr hb), beq_false_of_ne (reason_ne_lf hb), hb,
      Bool.false_eq_true, if_false, Bool.not_true]
    exact reasonLoop_err_bwd s s' hbad w (fun x hx => h x (by simp [hx])) _ _

theorem parseReason_err (s : Nat) (tok r : List Byte) (e : Error) :
    parseReason.run ⟨s, tok, r⟩ = .err e ↔
      e = .status ∧ ∃ w s', r = w ++ s' ∧ (∀ b ∈ w, isReason b = true) ∧ BadReasonEnd s' := by
  constructor
  · intro h; exact reasonLoop_err_fwd s false tok r e h
  · rintro ⟨rfl, w, s', rfl, hw, hbad⟩
    exact reasonLoop_err_bwd s s' hbad w hw false tok

/-! ### the reason branch of the status line -/

theorem next_noErr (c : Cur) (e : Error) : next.run c ≠ .err e := by
  simp only [next, run_mk]; split <;> simp

/-- the SP run the parser skips may extend into the reason bytes: move the leading SPs of `rs` over -/
theorem reason_split (s' : List Byte) (hbad : BadReasonEnd s') :
    ∀ rs : List Byte, (∀ b ∈ rs, isReason b = true) →
      ∃ sp rs', rs ++ s' = sp ++ (rs' ++ s') ∧ (∀ b ∈ sp, b = SP) ∧ (∀ b ∈ rs', isReason b = true) ∧
        ∃ y t, rs' ++ s' = y :: t ∧ y ≠ SP
  | [], _ => by
    refine ⟨[], [], rfl, by simp, by simp, ?_⟩
    rcases hbad with ⟨x, r', rfl, hx, -, -⟩ | ⟨x, r', rfl, -⟩
    · exact ⟨x, r', rfl, by intro h; subst h; revert hx; decide⟩
    · exact ⟨CR, _, rfl, by decide⟩
  | b :: rs, h => by
    by_cases hb : b = SP
    · subst hb
      obtain ⟨sp, rs', he, hsp, hrs', hy⟩ := reason_split s' hbad rs (fun x hx => h x (by simp [hx]))
      exact ⟨SP :: sp, rs', by simp [he], by simpa using hsp, hrs', hy⟩
    · exact ⟨[], b :: rs, rfl, by simp, h, b, rs ++ s', rfl, hb⟩

theorem reasonBranch_err (multi : Bool) (s : Nat) (tok r : List Byte) (e : Error) :
    (reasonBranch multi).run ⟨s, tok, r⟩ = .err e ↔
      e = .status ∧
        (((∃ x r', r = x :: r' ∧ x ≠ SP ∧ x ≠ CR ∧ x ≠ LF) ∨ CrNotLf r) ∨
         ∃ sp₂ rs s', r = SP :: sp₂ ++ rs ++ s' ∧ (∀ b ∈ sp₂, b = SP) ∧ (multi = false → sp₂ = []) ∧
           (∀ b ∈ rs, isReason b = true) ∧ BadReasonEnd s') := by
  unfold reasonBranch
  constructor
  · intro h
    rcases bind_err.1 h with h | ⟨b, c1, h1, h⟩
    · exact absurd h (next_noErr _ _)
    obtain ⟨r1, rfl, rfl⟩ := (next_ok _ _ _ _ _).1 h1
    split at h
    · rename_i hb
      simp only [beq_iff_eq] at hb; subst hb
      rcases bind_err.1 h with h | ⟨⟨⟩, c2, h2, h⟩
      · exact absurd h (optSkipSpaces_noErr _ _ _)
      rcases bind_err.1 h with h | ⟨sl, c3, h3, h⟩
      · exact absurd h (slice_noErr _ _)
      cases multi with
      | false =>
        simp only [optSkipSpaces, Bool.false_eq_true, if_false, run_pure, Outcome.ok.injEq, Prod.mk.injEq, true_and] at h2
        subst h2
        obtain ⟨-, rfl⟩ := (slice_ok _ _ _ _ _).1 h3
        obtain ⟨he, w, s', rfl, hw, hbad⟩ := (parseReason_err _ _ _ _).1 h
        exact ⟨he, Or.inr ⟨[], w, s', by simp, by simp, by simp, hw, hbad⟩⟩
      | true =>
        simp only [optSkipSpaces, if_true] at h2
        obtain ⟨sp, r2, rfl, hsp, -, rfl⟩ := (skipSpaces_ok _ _ _ _).1 h2
        obtain ⟨-, rfl⟩ := (slice_ok _ _ _ _ _).1 h3
        obtain ⟨he, w, s', rfl, hw, hbad⟩ := (parseReason_err _ _ _ _).1 h
        exact ⟨he, Or.inr ⟨sp, w, s', by simp, hsp, by simp, hw, hbad⟩⟩
    · rename_i hsp
      split at h
      · rename_i hb
        simp only [beq_iff_eq] at hb; subst hb
        rcases bind_err.1 h with h | ⟨b2, c2, h2, h⟩
        · obtain ⟨he, x, r', rfl, hx⟩ := (expect_err _ _ _ _ _ _).1 h
          exact ⟨he, Or.inl (Or.inr ⟨x, r', rfl, by simpa using hx⟩)⟩
        rcases bind_err.1 h with h | ⟨sl, c3, h3, h⟩
        · exact absurd h (slice_noErr _ _)
        simp at h
      · rename_i hcr
        split at h
        · rcases bind_err.1 h with h | ⟨sl, c3, h3, h⟩
          · exact absurd h (slice_noErr _ _)
          simp at h
        · rename_i hlf
          simp only [run_fail, Outcome.err.injEq] at h
          exact ⟨h.symm, Or.inl (Or.inl ⟨b, r1, rfl, by simpa using hsp, by simpa using hcr, by simpa using hlf⟩)⟩
  · rintro ⟨rfl, (⟨x, r', rfl, hsp, hcr, hlf⟩ | ⟨x, r', rfl, hx⟩) | ⟨sp₂, rs, s', rfl, hsp₂, hm, hrs, hbad⟩⟩
    · refine bind_err.2 (Or.inr ⟨x, _, (next_ok _ _ _ _ _).2 ⟨_, rfl, rfl⟩, ?_⟩)
      simp [beq_false_of_ne hsp, beq_false_of_ne hcr, beq_false_of_ne hlf]
    · refine bind_err.2 (Or.inr ⟨CR, _, (next_ok _ _ _ _ _).2 ⟨_, rfl, rfl⟩, ?_⟩)
      have h1 : (CR == SP) = false := by decide
      simp only [h1, Bool.false_eq_true, if_false, beq_self_eq_true, if_true]
      exact bind_err.2 (Or.inl ((expect_err _ _ _ _ _ _).2 ⟨rfl, x, r', rfl, by simpa using hx⟩))
    · refine bind_err.2 (Or.inr ⟨SP, _, (next_ok _ _ _ _ _).2 ⟨sp₂ ++ rs ++ s', by simp, rfl⟩, ?_⟩)
      simp only [beq_self_eq_true, if_true]
      cases multi with
      | false =>
        have := hm rfl; subst this
        refine bind_err.2 (Or.inr ⟨(), ⟨s, tok ++ [SP], rs ++ s'⟩, by simp [optSkipSpaces], ?_⟩)
        refine bind_err.2 (Or.inr ⟨_, _, (slice_ok _ _ _ _ _).2 ⟨rfl, rfl⟩, ?_⟩)
        exact (parseReason_err _ _ _ _).2 ⟨rfl, rs, s', rfl, hrs, hbad⟩
      | true =>
        obtain ⟨sp, rs', he, hsp, hrs', hy⟩ := reason_split s' hbad rs hrs
        refine bind_err.2 (Or.inr ⟨(), ⟨s + (tok ++ [SP]).length + (sp₂ ++ sp).length, [], rs' ++ s'⟩, ?_, ?_⟩)
        · simp only [optSkipSpaces, if_true]
          refine (skipSpaces_ok _ _ _ _).2 ⟨sp₂ ++ sp, rs' ++ s', by simp [he], ?_, hy, rfl⟩
          intro b hb
          rcases List.mem_append.1 hb with hb | hb
          · exact hsp₂ b hb
          · exact hsp b hb
        refine bind_err.2 (Or.inr ⟨_, _, (slice_ok _ _ _ _ _).2 ⟨rfl, rfl⟩, ?_⟩)
        exact (parseReason_err _ _ _ _).2 ⟨rfl, rs', s', rfl, hrs', hbad⟩

/-! ### running the completed stages of a line -/

theorem bind_run_ok {α β : Type} {f : P α} {g : α → P β} {c c' : Cur} {a : α}
    (h : f.run c = .ok (a, c')) : (f >>= g).run c = (g a).run c' := by
  simp only [run_bind, h]

/-- a word stage (`parse_method` / `parse_uri`) followed by the optional SP run -/
theorem run_method_delim {β : Type} {multi : Bool} {k : Slice → P β} {n : Nat} {m sp₁ rest : List Byte}
    {o : Outcome (β × Cur)} (hmne : m ≠ []) (hm : ∀ x ∈ m, isTchar x = true) (hd : IsDelim multi sp₁)
    (hns : multi = true → ∃ y t, rest = y :: t ∧ y ≠ SP)
    (hk : ∀ n', (k ⟨n, m⟩).run ⟨n', [], rest⟩ = o) :
    (parseMethod >>= fun a => optSkipSpaces multi >>= fun _ => k a).run ⟨n, [], m ++ (sp₁ ++ rest)⟩ = o := by
  obtain ⟨spa, rfl, hspa, hma⟩ := (isDelim_iff _ _).1 hd
  rw [bind_run_ok ((parseMethod_ok n (m ++ (SP :: spa ++ rest)) _ _).2
    ⟨m, spa ++ rest, by simp, hmne, hm, rfl, rfl⟩)]
  rw [bind_run_ok ((optSkipSpaces_ok _ _ _ _).2 ⟨spa, rest, rfl, hspa, hma, hns, rfl⟩)]
  exact hk _

theorem run_uri_delim {β : Type} {be : Backend} (hbe : be.Exact) {multi : Bool} {k : Slice → P β} {n : Nat}
    {t sp₂ rest : List Byte} {o : Outcome (β × Cur)} (htne : t ≠ []) (ht : ∀ x ∈ t, isUri x = true)
    (hu : validUtf8 t = true) (hd : IsDelim multi sp₂)
    (hns : multi = true → ∃ y t, rest = y :: t ∧ y ≠ SP)
    (hk : ∀ n', (k ⟨n, t⟩).run ⟨n', [], rest⟩ = o) :
    (parseUri be >>= fun a => optSkipSpaces multi >>= fun _ => k a).run ⟨n, [], t ++ (sp₂ ++ rest)⟩ = o := by
  obtain ⟨spa, rfl, hspa, hma⟩ := (isDelim_iff _ _).1 hd
  rw [bind_run_ok ((parseUri_ok hbe n (t ++ (SP :: spa ++ rest)) _ _).2
    ⟨t, spa ++ rest, by simp, htne, ht, hu, rfl, rfl⟩)]
  rw [bind_run_ok ((optSkipSpaces_ok _ _ _ _).2 ⟨spa, rest, rfl, hspa, hma, hns, rfl⟩)]
  exact hk _

theorem run_version {β : Type} {k : Nat → P β} {n : Nat} {tok rest : List Byte} {v : Nat}
    (hv : v = 0 ∨ v = 1) :
    (parseVersion >>= k).run ⟨n, tok, versionBytes v ++ rest⟩ = (k v).run ⟨n, tok ++ versionBytes v, rest⟩ :=
  bind_run_ok ((parseVersion_ok _ _ _ _ _).2 ⟨hv, rest, rfl, rfl⟩)

/-- `HTTP/1.x`, `space!`, the optional SP run -/
theorem run_version_delim {β : Type} {multi : Bool} {k : Nat → P β} {n : Nat} {sp₁ rest : List Byte} {v : Nat}
    {o : Outcome (β × Cur)} (hv : v = 0 ∨ v = 1) (hd : IsDelim multi sp₁)
    (hns : multi = true → ∃ y t, rest = y :: t ∧ y ≠ SP)
    (hk : ∀ n', (k v).run ⟨n', [], rest⟩ = o) :
    (parseVersion >>= fun a => space .version >>= fun _ => optSkipSpaces multi >>= fun _ => k a).run
      ⟨n, [], versionBytes v ++ (sp₁ ++ rest)⟩ = o := by
  obtain ⟨spa, rfl, hspa, hma⟩ := (isDelim_iff _ _).1 hd
  rw [run_version hv]
  rw [bind_run_ok ((space_ok _ _ _ (SP :: spa ++ rest) _).2 ⟨spa ++ rest, by simp, rfl⟩)]
  rw [bind_run_ok ((optSkipSpaces_ok _ _ _ _).2 ⟨spa, rest, rfl, hspa, hma, hns, rfl⟩)]
  exact hk _

theorem run_code {β : Type} {k : Nat → P β} {n : Nat} {tok rest : List Byte} {d₁ d₂ d₃ : Byte}
    (h1 : isDigit d₁ = true) (h2 : isDigit d₂ = true) (h3 : isDigit d₃ = true) :
    (parseCode >>= k).run ⟨n, tok, [d₁, d₂, d₃] ++ rest⟩ =
      (k (codeValue d₁ d₂ d₃)).run ⟨n, tok ++ [d₁, d₂, d₃], rest⟩ :=
  bind_run_ok ((parseCode_ok _ _ _ _ _).2 ⟨d₁, d₂, d₃, rest, rfl, h1, h2, h3, rfl, rfl⟩)

/-- the head of a non-empty list that is followed by anything -/
theorem head_ne_sp_of {l rest : List Byte} (hne : l ≠ []) (h : ∀ x ∈ l, x ≠ SP) :
    ∃ y t, l ++ rest = y :: t ∧ y ≠ SP := by
  cases l with
  | nil => exact absurd rfl hne
  | cons y l => exact ⟨y, l ++ rest, rfl, h y (by simp)⟩

/-- the head of `p ++ x :: r`, where `x ≠ SP` if `p` is empty -/
theorem head_ne_sp_of' {p r : List Byte} {x : Byte} (h : ∀ y ∈ p, y ≠ SP) (hx : p = [] → x ≠ SP) :
    ∃ y t, p ++ x :: r = y :: t ∧ y ≠ SP := by
  cases p with
  | nil => exact ⟨x, r, rfl, hx rfl⟩
  | cons y p => exact ⟨y, p ++ x :: r, rfl, h y (by simp)⟩

theorem mismatch_ne_sp {p : List Byte} {x : Byte} (h : VersionMismatch p x) : ∀ y ∈ p, y ≠ SP := by
  obtain ⟨-, hp, -, -⟩ := h
  have key : ∀ v, (v = 0 ∨ v = 1) → p <+: versionBytes v → ∀ y ∈ p, y ≠ SP := by
    intro v hv hp y hy
    have hmem : y ∈ versionBytes v := hp.subset hy
    rcases hv with rfl | rfl <;> (intro he; subst he; revert hmem; decide)
  rcases hp with hp | hp
  · exact key 0 (Or.inl rfl) hp
  · exact key 1 (Or.inr rfl) hp

/-! ### C10 — the request line -/

/-- the request line after the leading empty lines -/
def reqTail (be : Backend) (multi : Bool) : P (Slice × Slice × Nat) := do
  let m ← parseMethod
  optSkipSpaces multi
  let p ← parseUri be
  optSkipSpaces multi
  let v ← parseVersion
  newline
  pure (m, p, v)

theorem reqLineP_eq (be : Backend) (multi : Bool) :
    reqLineP be multi = skipEmptyLines >>= fun _ => reqTail be multi := rfl

theorem reqTail_err_fwd (be : Backend) (hbe : be.Exact) (multi : Bool) (n : Nat) (s : List Byte) (e : Error)
    (h : (reqTail be multi).run ⟨n, [], s⟩ = .err e) : ReqLineErr multi s e := by
  unfold reqTail at h
  rcases bind_err.1 h with h | ⟨m', c2, h2, h⟩
  · obtain ⟨rfl, m, b, r', rfl, hm, hb, hor⟩ := (parseMethod_err _ _ _ _).1 h
    exact .method hm hb hor
  obtain ⟨mb, r2, rfl, hmne, hmb, rfl, rfl⟩ := (parseMethod_ok _ _ _ _).1 h2
  rcases bind_err.1 h with h | ⟨⟨⟩, c3, h3, h⟩
  · exact absurd h (optSkipSpaces_noErr _ _ _)
  obtain ⟨spa, r3, rfl, hspa, hma, hnsp, rfl⟩ := (optSkipSpaces_ok _ _ _ _).1 h3
  have hd1 : IsDelim multi (SP :: spa) := (isDelim_iff _ _).2 ⟨spa, rfl, hspa, hma⟩
  rcases bind_err.1 h with h | ⟨p', c4, h4, h⟩
  · obtain ⟨rfl, t, b, r', rfl, ht, hb, hor⟩ := (parseUri_err hbe _ _ _).1 h
    have hmul : multi = true → t = [] → b ≠ SP := by
      intro hm1 ht0; subst ht0
      obtain ⟨y, t', hy, hysp⟩ := hnsp hm1
      simp only [List.nil_append, List.cons.injEq] at hy
      rw [hy.1]; exact hysp
    have hs : mb ++ SP :: (spa ++ (t ++ b :: r')) = mb ++ (SP :: spa) ++ t ++ b :: r' := by simp
    rw [hs]
    by_cases hbsp : b = SP
    · subst hbsp
      by_cases ht0 : t = []
      · exact .target hmne hmb hd1 ht hb (Or.inl ht0) hmul
      · rcases hor with h | h | h
        · exact absurd rfl h
        · exact absurd h ht0
        · exact .targetUtf8 hmne hmb hd1 ht0 ht h
    · exact .target hmne hmb hd1 ht hb (Or.inr hbsp) hmul
  obtain ⟨t, r4, rfl, htne, ht, hu, rfl, rfl⟩ := (parseUri_ok hbe _ _ _ _).1 h4
  rcases bind_err.1 h with h | ⟨⟨⟩, c5, h5, h⟩
  · exact absurd h (optSkipSpaces_noErr _ _ _)
  obtain ⟨spb, r5, rfl, hspb, hmb', hnsp2, rfl⟩ := (optSkipSpaces_ok _ _ _ _).1 h5
  have hd2 : IsDelim multi (SP :: spb) := (isDelim_iff _ _).2 ⟨spb, rfl, hspb, hmb'⟩
  rcases bind_err.1 h with h | ⟨v, c6, h6, h⟩
  · obtain ⟨rfl, p, x, r', rfl, hmis⟩ := (parseVersion_err _ _ _ _).1 h
    have hmul : multi = true → p = [] → x ≠ SP := by
      intro hm1 hp0; subst hp0
      obtain ⟨y, t', hy, hysp⟩ := hnsp2 hm1
      simp only [List.nil_append, List.cons.injEq] at hy
      rw [hy.1]; exact hysp
    have hs : mb ++ SP :: (spa ++ (t ++ SP :: (spb ++ (p ++ x :: r')))) =
        mb ++ (SP :: spa) ++ t ++ (SP :: spb) ++ p ++ x :: r' := by simp
    rw [hs]
    exact .version hmne hmb hd1 htne ht hu hd2 hmis hmul
  obtain ⟨hv, r6, rfl, rfl⟩ := (parseVersion_ok _ _ _ _ _).1 h6
  rcases bind_err.1 h with h | ⟨⟨⟩, c7, h7, h⟩
  · obtain ⟨rfl, hbad⟩ := (newline_err _ _ _ _).1 h
    have hs : mb ++ SP :: (spa ++ (t ++ SP :: (spb ++ (versionBytes v ++ r6)))) =
        mb ++ (SP :: spa) ++ t ++ (SP :: spb) ++ versionBytes v ++ r6 := by simp
    rw [hs]
    exact .eol hmne hmb hd1 htne ht hu hd2 hv hbad
  simp at h

theorem versionBytes_head {v : Nat} (hv : v = 0 ∨ v = 1) (rest : List Byte) :
    ∃ y t, versionBytes v ++ rest = y :: t ∧ y ≠ SP := by
  rcases hv with rfl | rfl
  · exact ⟨0x48, _, rfl, by decide⟩
  · exact ⟨0x48, _, rfl, by decide⟩

theorem uri_ne_sp' {t : List Byte} (ht : ∀ x ∈ t, isUri x = true) : ∀ x ∈ t, x ≠ SP :=
  fun x hx => uri_ne_sp (ht x hx)

theorem reqTail_err_bwd (be : Backend) (hbe : be.Exact) (multi : Bool) (n : Nat) (s : List Byte) (e : Error)
    (h : ReqLineErr multi s e) : (reqTail be multi).run ⟨n, [], s⟩ = .err e := by
  unfold reqTail
  cases h with
  | method hm hb hor =>
    exact bind_err.2 (Or.inl ((parseMethod_err _ _ _ _).2 ⟨rfl, _, _, _, rfl, hm, hb, hor⟩))
  | @target m sp₁ t r b hmne hm hd1 ht hb hor hmul =>
    simp only [List.append_assoc]
    refine run_method_delim hmne hm hd1
      (fun h1 => head_ne_sp_of' (uri_ne_sp' ht) (hmul h1)) fun n' => ?_
    refine bind_err.2 (Or.inl ((parseUri_err hbe _ _ _).2 ⟨rfl, t, b, r, rfl, ht, hb, ?_⟩))
    rcases hor with h | h
    · exact Or.inr (Or.inl h)
    · exact Or.inl h
  | @targetUtf8 m sp₁ t r hmne hm hd1 htne ht hu =>
    simp only [List.append_assoc]
    refine run_method_delim hmne hm hd1
      (fun _ => head_ne_sp_of htne (uri_ne_sp' ht)) fun n' => ?_
    exact bind_err.2 (Or.inl ((parseUri_err hbe _ _ _).2
      ⟨rfl, t, SP, r, rfl, ht, by decide, Or.inr (Or.inr hu)⟩))
  | @version m sp₁ t sp₂ p r x hmne hm hd1 htne ht hu hd2 hmis hmul =>
    simp only [List.append_assoc]
    refine run_method_delim hmne hm hd1
      (fun _ => head_ne_sp_of htne (uri_ne_sp' ht)) fun n' => ?_
    refine run_uri_delim hbe htne ht hu hd2
      (fun h1 => head_ne_sp_of' (mismatch_ne_sp hmis) (hmul h1)) fun n'' => ?_
    exact bind_err.2 (Or.inl ((parseVersion_err _ _ _ _).2 ⟨rfl, p, x, r, rfl, hmis⟩))
  | @eol m sp₁ t sp₂ s' v hmne hm hd1 htne ht hu hd2 hv hbad =>
    simp only [List.append_assoc]
    refine run_method_delim hmne hm hd1
      (fun _ => head_ne_sp_of htne (uri_ne_sp' ht)) fun n' => ?_
    refine run_uri_delim hbe htne ht hu hd2
      (fun _ => versionBytes_head hv s') fun n'' => ?_
    rw [run_version hv]
    exact bind_err.2 (Or.inl ((newline_err _ _ _ _).2 ⟨rfl, hbad⟩))

theorem reqLineErr_ne_nil {multi : Bool} {s : List Byte} {e : Error} (h : ReqLineErr multi s e) :
    ∃ x t, s = x :: t := by
  have key : ∀ (m rest : List Byte), m ≠ [] → ∃ x t, m ++ rest = x :: t := by
    intro m rest hm
    cases m with
    | nil => exact absurd rfl hm
    | cons y m => exact ⟨y, m ++ rest, rfl⟩
  cases h with
  | @method m r b hm hb hor =>
    cases m with
    | nil => exact ⟨b, r, rfl⟩
    | cons y m => exact ⟨y, m ++ b :: r, rfl⟩
  | target hmne => simp only [List.append_assoc]; exact key _ _ hmne
  | targetUtf8 hmne => simp only [List.append_assoc]; exact key _ _ hmne
  | version hmne => simp only [List.append_assoc]; exact key _ _ hmne
  | eol hmne => simp only [List.append_assoc]; exact key _ _ hmne

end ES
open ES

theorem reqLine_err_iff (be : Backend) (hbe : be.Exact) (multi : Bool) (buf : List Byte) (e : Error) :
    (reqLineP be multi).run (Cur.new buf) = .err e ↔
      (e = .newLine ∧ LeadingCrErr buf) ∨
      ∃ pre s, buf = pre ++ s ∧ EmptyLines pre ∧ (∀ x r, s = x :: r → x ≠ CR ∧ x ≠ LF) ∧ ReqLineErr multi s e := by
  rw [reqLineP_eq]
  unfold Cur.new
  constructor
  · intro h
    rcases bind_err.1 h with h | ⟨⟨⟩, c1, h1, h⟩
    · exact Or.inl ((skipEmptyLines_err _ _ _ _).1 h)
    · obtain ⟨pre, s, rfl, hpre, ⟨b, t, rfl, hcr, hlf⟩, rfl⟩ := (skipEmptyLines_ok _ _ _).1 h1
      refine Or.inr ⟨pre, b :: t, rfl, hpre, ?_, reqTail_err_fwd be hbe multi _ _ e h⟩
      intro x r hx
      simp only [List.cons.injEq] at hx
      rw [← hx.1]; exact ⟨hcr, hlf⟩
  · rintro (⟨rfl, hl⟩ | ⟨pre, s, rfl, hpre, hhead, hl⟩)
    · exact bind_err.2 (Or.inl ((skipEmptyLines_err _ _ _ _).2 ⟨rfl, hl⟩))
    · obtain ⟨x, t, hs⟩ := reqLineErr_ne_nil hl
      refine bind_err.2 (Or.inr ⟨(), _, (skipEmptyLines_ok _ _ _).2
        ⟨pre, s, rfl, hpre, ⟨x, t, hs, hhead x t hs⟩, rfl⟩, ?_⟩)
      exact reqTail_err_bwd be hbe multi _ s e hl

namespace ES

/-! ### C10 — the status line -/

/-- the status line after the leading empty lines -/
def respTail (multi : Bool) : P (Nat × Nat × Str) := do
  let v ← parseVersion
  space .version
  optSkipSpaces multi
  let c ← parseCode
  let r ← reasonBranch multi
  pure (v, c, r)

theorem respLineP_eq (multi : Bool) :
    respLineP multi = skipEmptyLines >>= fun _ => respTail multi := rfl

theorem respTail_err_fwd (multi : Bool) (n : Nat) (s : List Byte) (e : Error)
    (h : (respTail multi).run ⟨n, [], s⟩ = .err e) : RespLineErr multi s e := by
  unfold respTail at h
  rcases bind_err.1 h with h | ⟨v, c2, h2, h⟩
  · obtain ⟨rfl, p, x, r', rfl, hmis⟩ := (parseVersion_err _ _ _ _).1 h
    exact .version hmis
  obtain ⟨hv, r2, rfl, rfl⟩ := (parseVersion_ok _ _ _ _ _).1 h2
  rcases bind_err.1 h with h | ⟨⟨⟩, c3, h3, h⟩
  · obtain ⟨rfl, x, r', rfl, hx⟩ := (space_err _ _ _ _ _).1 h
    exact .versionSp hv hx
  obtain ⟨r3, rfl, rfl⟩ := (space_ok _ _ _ _ _).1 h3
  rcases bind_err.1 h with h | ⟨⟨⟩, c4, h4, h⟩
  · exact absurd h (optSkipSpaces_noErr _ _ _)
  obtain ⟨spa, r4, rfl, hspa, hma, hnsp, rfl⟩ := (optSkipSpaces_ok _ _ _ _).1 h4
  have hd : IsDelim multi (SP :: spa) := (isDelim_iff _ _).2 ⟨spa, rfl, hspa, hma⟩
  rcases bind_err.1 h with h | ⟨code, c5, h5, h⟩
  · obtain ⟨rfl, ds, x, r', rfl, hl, hds, hx⟩ := (parseCode_err _ _ _ _).1 h
    have hmul : multi = true → ds = [] → x ≠ SP := by
      intro hm1 hd0; subst hd0
      obtain ⟨y, t', hy, hysp⟩ := hnsp hm1
      simp only [List.nil_append, List.cons.injEq] at hy
      rw [hy.1]; exact hysp
    have hs : versionBytes v ++ SP :: (spa ++ (ds ++ x :: r')) =
        versionBytes v ++ (SP :: spa) ++ ds ++ x :: r' := by simp
    rw [hs]
    exact .code hv hd hl hds hx hmul
  obtain ⟨d₁, d₂, d₃, r5, rfl, hd1, hd2, hd3, rfl, rfl⟩ := (parseCode_ok _ _ _ _ _).1 h5
  rcases bind_err.1 h with h | ⟨str, c6, h6, h⟩
  · obtain ⟨rfl, hcase⟩ := (reasonBranch_err _ _ _ _ _).1 h
    rcases hcase with hbad | ⟨sp₂, rs, s', rfl, hsp₂, hm, hrs, hbad⟩
    · have hs : versionBytes v ++ SP :: (spa ++ d₁ :: d₂ :: d₃ :: r5) =
          versionBytes v ++ (SP :: spa) ++ [d₁, d₂, d₃] ++ r5 := by simp
      rw [hs]
      exact .afterCode hv hd hd1 hd2 hd3 hbad
    · have hs : versionBytes v ++ SP :: (spa ++ d₁ :: d₂ :: d₃ :: (SP :: sp₂ ++ rs ++ s')) =
          versionBytes v ++ (SP :: spa) ++ [d₁, d₂, d₃] ++ SP :: sp₂ ++ rs ++ s' := by simp
      rw [hs]
      exact .reason hv hd hd1 hd2 hd3 hsp₂ hm hrs hbad
  simp at h

theorem respTail_err_bwd (multi : Bool) (n : Nat) (s : List Byte) (e : Error)
    (h : RespLineErr multi s e) : (respTail multi).run ⟨n, [], s⟩ = .err e := by
  unfold respTail
  cases h with
  | version hmis =>
    exact bind_err.2 (Or.inl ((parseVersion_err _ _ _ _).2 ⟨rfl, _, _, _, rfl, hmis⟩))
  | @versionSp r v x hv hx =>
    rw [run_version hv]
    exact bind_err.2 (Or.inl ((space_err _ _ _ _ _).2 ⟨rfl, x, r, rfl, hx⟩))
  | @code sp₁ ds r v x hv hd hl hds hx hmul =>
    simp only [List.append_assoc]
    refine run_version_delim hv hd
      (fun h1 => head_ne_sp_of' (fun y hy => digit_ne_sp (hds y hy)) (hmul h1)) fun n' => ?_
    exact bind_err.2 (Or.inl ((parseCode_err _ _ _ _).2 ⟨rfl, ds, x, r, rfl, hl, hds, hx⟩))
  | @afterCode sp₁ s' v d₁ d₂ d₃ hv hd hd1 hd2 hd3 hbad =>
    simp only [List.append_assoc]
    refine run_version_delim hv hd (fun _ => ⟨d₁, _, rfl, digit_ne_sp hd1⟩) fun n' => ?_
    rw [run_code hd1 hd2 hd3]
    exact bind_err.2 (Or.inl ((reasonBranch_err _ _ _ _ _).2 ⟨rfl, Or.inl hbad⟩))
  | @reason sp₁ sp₂ rs s' v d₁ d₂ d₃ hv hd hd1 hd2 hd3 hsp₂ hm hrs hbad =>
    simp only [List.append_assoc]
    refine run_version_delim hv hd (fun _ => ⟨d₁, _, rfl, digit_ne_sp hd1⟩) fun n' => ?_
    rw [run_code hd1 hd2 hd3]
    exact bind_err.2 (Or.inl ((reasonBranch_err _ _ _ _ _).2
      ⟨rfl, Or.inr ⟨sp₂, rs, s', by simp, hsp₂, hm, hrs, hbad⟩⟩))

theorem respLineErr_ne_nil {multi : Bool} {s : List Byte} {e : Error} (h : RespLineErr multi s e) :
    ∃ x t, s = x :: t := by
  have key : ∀ (v : Nat) (rest : List Byte), ∃ x t, versionBytes v ++ rest = x :: t :=
    fun v rest => ⟨0x48, _, rfl⟩
  cases h with
  | @version p r x hmis =>
    cases p with
    | nil => exact ⟨x, r, rfl⟩
    | cons y p => exact ⟨y, p ++ x :: r, rfl⟩
  | versionSp => exact key _ _
  | code => simp only [List.append_assoc]; exact key _ _
  | afterCode => simp only [List.append_assoc]; exact key _ _
  | reason => simp only [List.append_assoc]; exact key _ _

end ES

theorem respLine_err_iff (multi : Bool) (buf : List Byte) (e : Error) :
    (respLineP multi).run (Cur.new buf) = .err e ↔
      (e = .newLine ∧ LeadingCrErr buf) ∨
      ∃ pre s, buf = pre ++ s ∧ EmptyLines pre ∧ (∀ x r, s = x :: r → x ≠ CR ∧ x ≠ LF) ∧ RespLineErr multi s e := by
  rw [respLineP_eq]
  unfold Cur.new
  constructor
  · intro h
    rcases bind_err.1 h with h | ⟨⟨⟩, c1, h1, h⟩
    · exact Or.inl ((skipEmptyLines_err _ _ _ _).1 h)
    · obtain ⟨pre, s, rfl, hpre, ⟨b, t, rfl, hcr, hlf⟩, rfl⟩ := (skipEmptyLines_ok _ _ _).1 h1
      refine Or.inr ⟨pre, b :: t, rfl, hpre, ?_, respTail_err_fwd multi _ _ e h⟩
      intro x r hx
      simp only [List.cons.injEq] at hx
      rw [← hx.1]; exact ⟨hcr, hlf⟩
  · rintro (⟨rfl, hl⟩ | ⟨pre, s, rfl, hpre, hhead, hl⟩)
    · exact bind_err.2 (Or.inl ((skipEmptyLines_err _ _ _ _).2 ⟨rfl, hl⟩))
    · obtain ⟨x, t, hs⟩ := respLineErr_ne_nil hl
      refine bind_err.2 (Or.inr ⟨(), _, (skipEmptyLines_ok _ _ _).2
        ⟨pre, s, rfl, hpre, ⟨x, t, hs, hhead x t hs⟩, rfl⟩, ?_⟩)
      exact respTail_err_bwd multi _ s e hl

end Hx
