/-
  Hx.Lemmas.EndToEnd — default configuration, whole message: `accept_iff` (WholeMessage) composed
  with `blockSpec_default_iff` (BlockGrammar): start line ⧺ header lines ⧺ empty line.
-/
import Hx.Lemmas.WholeMessage
namespace Hx

theorem Config.default_reqH : Config.default.reqH = HCfg.default := rfl
theorem Config.default_respH : Config.default.respH = HCfg.default := rfl
theorem Config.default_multiReq : Config.default.multiReq = false := rfl
theorem Config.default_multiResp : Config.default.multiResp = false := rfl

/-- the block of the default grammar built from a list of lines, at the committed offset -/
theorem blockSpec_default_lines (cap off : Nat) {lines : List HLine} {eol' rest : List Byte}
    (hok : ∀ l ∈ lines, l.ok) (he : IsEol eol') (hcap : lines.length ≤ cap) :
    BlockSpec HCfg.default cap off 0 ((lines.map HLine.bytes).flatten ++ eol' ++ rest)
      ((lines.map HLine.bytes).flatten ++ eol').length (linesHeaders off lines) :=
  blockSpec_default_complete cap lines off 0 eol' rest hok he (by omega)

/-! ### requests -/

theorem reqCore_default_iff (be : Backend) (hbe : be.Exact) (cap : Nat) (buf : List Byte) (v₀ : ReqVal)
    (n : Nat) :
    (reqCore be Config.default cap buf v₀).status = .ok n ↔
      ∃ (pre mb sp₁ t sp₂ : List Byte) (v : Nat) (eol : List Byte) (lines : List HLine) (eol' rest : List Byte),
        IsRequestLine false pre mb sp₁ t sp₂ v eol ∧ (∀ l ∈ lines, l.ok) ∧ IsEol eol' ∧
        lines.length ≤ cap ∧
        buf = requestLineBytes pre mb sp₁ t sp₂ v eol ++ (lines.map HLine.bytes).flatten ++ eol' ++ rest ∧
        n = (requestLineBytes pre mb sp₁ t sp₂ v eol ++ (lines.map HLine.bytes).flatten ++ eol').length := by
  rw [reqCore_ok_iff be hbe]
  constructor
  · rintro ⟨pre, mb, sp₁, t, sp₂, v, eol, hb, k, hs, hl, rfl, hblk, rfl⟩
    rw [Config.default_reqH] at hblk
    obtain ⟨lines, eol', rest, hok, he, rfl, hcap, rfl, -⟩ :=
      (blockSpec_default_iff cap _ 0 hb k hs (Nat.zero_le _)).mp hblk
    refine ⟨pre, mb, sp₁, t, sp₂, v, eol, lines, eol', rest, hl, hok, he, by omega, ?_, ?_⟩
    · simp only [List.append_assoc]
    · simp only [List.append_assoc, List.length_append]
  · rintro ⟨pre, mb, sp₁, t, sp₂, v, eol, lines, eol', rest, hl, hok, he, hcap, rfl, rfl⟩
    refine ⟨pre, mb, sp₁, t, sp₂, v, eol, (lines.map HLine.bytes).flatten ++ eol' ++ rest, _, _, hl, ?_,
      blockSpec_default_lines cap _ hok he hcap, ?_⟩
    · simp only [List.append_assoc]
    · simp only [List.append_assoc, List.length_append]

theorem reqCore_default_result (be : Backend) (hbe : be.Exact) (cap : Nat) (buf : List Byte) (v₀ : ReqVal)
    {pre mb sp₁ t sp₂ eol eol' rest : List Byte} {v : Nat} {lines : List HLine}
    (hl : IsRequestLine false pre mb sp₁ t sp₂ v eol) (hok : ∀ l ∈ lines, l.ok) (he : IsEol eol')
    (hcap : lines.length ≤ cap)
    (hbuf : buf = requestLineBytes pre mb sp₁ t sp₂ v eol ++ (lines.map HLine.bytes).flatten ++ eol' ++ rest) :
    (reqCore be Config.default cap buf v₀).val =
      ⟨some ⟨pre.length, mb⟩, some ⟨pre.length + mb.length + sp₁.length, t⟩, some v⟩ ∧
    (reqCore be Config.default cap buf v₀).hdrs =
      linesHeaders (requestLineBytes pre mb sp₁ t sp₂ v eol).length lines := by
  have hb' : buf = requestLineBytes pre mb sp₁ t sp₂ v eol ++ ((lines.map HLine.bytes).flatten ++ eol' ++ rest) := by
    rw [hbuf]; simp only [List.append_assoc]
  obtain ⟨h1, h2⟩ := reqCore_ok_fields be hbe Config.default cap buf v₀ (k := _) (hs := _) hl hb'
    (blockSpec_default_lines cap _ hok he hcap)
  exact ⟨h2, h1⟩

/-! ### responses -/

theorem respCore_default_iff (be : Backend) (hbe : be.Exact) (cap : Nat) (buf : List Byte) (v₀ : RespVal)
    (n : Nat) :
    (respCore be Config.default cap buf v₀).status = .ok n ↔
      ∃ (pre : List Byte) (v : Nat) (sp₁ : List Byte) (d₁ d₂ d₃ : Byte) (tail : List Byte) (ro : Nat)
        (reason : Option (List Byte)) (lines : List HLine) (eol' rest : List Byte),
        IsStatusLine false pre v sp₁ d₁ d₂ d₃ tail ro reason ∧ (∀ l ∈ lines, l.ok) ∧ IsEol eol' ∧
        lines.length ≤ cap ∧
        buf = statusLineBytes pre v sp₁ d₁ d₂ d₃ tail ++ (lines.map HLine.bytes).flatten ++ eol' ++ rest ∧
        n = (statusLineBytes pre v sp₁ d₁ d₂ d₃ tail ++ (lines.map HLine.bytes).flatten ++ eol').length := by
  rw [respCore_ok_iff be hbe]
  constructor
  · rintro ⟨pre, v, sp₁, d₁, d₂, d₃, tail, ro, reason, hb, k, hs, hl, rfl, hblk, rfl⟩
    rw [Config.default_respH] at hblk
    obtain ⟨lines, eol', rest, hok, he, rfl, hcap, rfl, -⟩ :=
      (blockSpec_default_iff cap _ 0 hb k hs (Nat.zero_le _)).mp hblk
    refine ⟨pre, v, sp₁, d₁, d₂, d₃, tail, ro, reason, lines, eol', rest, hl, hok, he, by omega, ?_, ?_⟩
    · simp only [List.append_assoc]
    · simp only [List.append_assoc, List.length_append]
  · rintro ⟨pre, v, sp₁, d₁, d₂, d₃, tail, ro, reason, lines, eol', rest, hl, hok, he, hcap, rfl, rfl⟩
    refine ⟨pre, v, sp₁, d₁, d₂, d₃, tail, ro, reason, (lines.map HLine.bytes).flatten ++ eol' ++ rest, _, _,
      hl, ?_, blockSpec_default_lines cap _ hok he hcap, ?_⟩
    · simp only [List.append_assoc]
    · simp only [List.append_assoc, List.length_append]

theorem respCore_default_result (be : Backend) (hbe : be.Exact) (cap : Nat) (buf : List Byte) (v₀ : RespVal)
    {pre sp₁ tail eol' rest : List Byte} {v ro : Nat} {d₁ d₂ d₃ : Byte} {reason : Option (List Byte)}
    {lines : List HLine}
    (hl : IsStatusLine false pre v sp₁ d₁ d₂ d₃ tail ro reason) (hok : ∀ l ∈ lines, l.ok) (he : IsEol eol')
    (hcap : lines.length ≤ cap)
    (hbuf : buf = statusLineBytes pre v sp₁ d₁ d₂ d₃ tail ++ (lines.map HLine.bytes).flatten ++ eol' ++ rest) :
    (respCore be Config.default cap buf v₀).val =
      ⟨some v, some (codeValue d₁ d₂ d₃), some (reportedReason (pre.length + 8 + sp₁.length + 3 + ro) reason)⟩ ∧
    (respCore be Config.default cap buf v₀).hdrs =
      linesHeaders (statusLineBytes pre v sp₁ d₁ d₂ d₃ tail).length lines := by
  have hb' : buf = statusLineBytes pre v sp₁ d₁ d₂ d₃ tail ++ ((lines.map HLine.bytes).flatten ++ eol' ++ rest) := by
    rw [hbuf]; simp only [List.append_assoc]
  obtain ⟨h1, h2⟩ := respCore_ok_fields be hbe Config.default cap buf v₀ (k := _) (hs := _) hl hb'
    (blockSpec_default_lines cap _ hok he hcap)
  exact ⟨h2, h1⟩

end Hx
