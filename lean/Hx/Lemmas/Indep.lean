/-
  Hx.Lemmas.Indep — lemmas behind C13: independence of backend, cfg lattice, thread timing.
-/
import Hx.Obs
import Hx.Build
import Hx.Scan.Dispatch
namespace Hx
open Hx.Gen.Cfg

/-! ### (a) backend independence -/

theorem Scanner.Exact.eq_spec {cls : Byte → Bool} {s : Scanner} (h : Scanner.Exact cls s) :
    s = specScanner cls := funext h

theorem Backend.Exact.eq_spec {b : Backend} (h : b.Exact) : b = specBackend := by
  cases b with
  | mk u v n =>
    have hu : u = specScanner isUri := h.uri.eq_spec
    have hv : v = specScanner isValue := h.value.eq_spec
    have hn : n = specScanner isTchar := h.name.eq_spec
    subst hu hv hn
    rfl

theorem Backend.Exact.unique {b₁ b₂ : Backend} (h₁ : b₁.Exact) (h₂ : b₂.Exact) : b₁ = b₂ := by
  rw [h₁.eq_spec, h₂.eq_spec]

theorem reqObs_backend_indep (b₁ b₂ : Backend) (h₁ : b₁.Exact) (h₂ : b₂.Exact) (cfg : Config)
    (cap : Nat) (buf : List Byte) : reqObs b₁ cfg cap buf = reqObs b₂ cfg cap buf := by
  rw [Backend.Exact.unique h₁ h₂]

theorem respObs_backend_indep (b₁ b₂ : Backend) (h₁ : b₁.Exact) (h₂ : b₂.Exact) (cfg : Config)
    (cap : Nat) (buf : List Byte) : respObs b₁ cfg cap buf = respObs b₂ cfg cap buf := by
  rw [Backend.Exact.unique h₁ h₂]

theorem hdrsObs_backend_indep (b₁ b₂ : Backend) (h₁ : b₁.Exact) (h₂ : b₂.Exact)
    (cap : Nat) (buf : List Byte) : hdrsObs b₁ cap buf = hdrsObs b₂ cap buf := by
  rw [Backend.Exact.unique h₁ h₂]

/-! ### (b) cfg lattice -/

/-- the count of providers exported under flags `f` -/
def providerCount (f : Flags) : Nat := (providers.filter fun p => p.2 f).length

/-- all flag assignments -/
def allFlags : List Flags :=
  [Arch.x86, Arch.x86_64, Arch.aarch64, Arch.other].flatMap fun a =>
  [true, false].flatMap fun s => [true, false].flatMap fun s4 => [true, false].flatMap fun a2 =>
  [true, false].map fun n => ⟨s, s4, a2, n, a⟩

theorem allFlags_complete (f : Flags) : f ∈ allFlags := by
  cases f with
  | mk s s4 a2 n a =>
    cases s <;> cases s4 <;> cases a2 <;> cases n <;> cases a <;> decide

/-- the lattice property, as a decidable predicate on one flag assignment -/
def LatticeOk (f : Flags) : Prop :=
  providerCount f = 1 ∧
    ∀ p ∈ providers, p.2 f = true →
      ∀ d ∈ (deps.lookup p.1).getD [], ∃ m ∈ modules, m.1 = d ∧ m.2 f = true

instance (f : Flags) : Decidable (LatticeOk f) := by unfold LatticeOk; infer_instance

theorem lattice_all : ∀ f ∈ allFlags, LatticeOk f := by decide

theorem lattice_ok (f : Flags) :
    providerCount f = 1 ∧
    ∀ p ∈ providers, p.2 f = true →
      ∀ d ∈ (deps.lookup p.1).getD [], ∃ m ∈ modules, m.1 = d ∧ m.2 f = true :=
  lattice_all f (allFlags_complete f)

/-- without the `std` feature `build.rs` emits no flag at all -/
theorem Build.flags_no_std (e : Build.BuildEnv) (a : Arch) (h : e.stdFeature = false) :
    Build.flags e a = ⟨false, false, false, false, a⟩ := by
  unfold Build.flags
  cases hv : e.versionParsed <;> simp [h]

theorem use_runtime_no_flags (a : Arch) : use_runtime ⟨false, false, false, false, a⟩ = false := by
  cases a <;> decide

theorem runtime_needs_std (e : Build.BuildEnv) (a : Arch)
    (h : use_runtime (Build.flags e a) = true) : e.stdFeature = true := by
  cases hs : e.stdFeature with
  | true => rfl
  | false =>
    rw [Build.flags_no_std e a hs, use_runtime_no_flags] at h
    cases h

/-! ### (c) thread timing -/

namespace Runtime

/-- a thread's pc is consistent with a cache that only ever held 0 or `d` -/
def PcOk (d : Nat) : Pc → Prop
  | .start => True
  | .loaded v => v = 0 ∨ v = d
  | .done f => f = d

/-- the invariant of the feature cache -/
def Inv (d : Nat) (s : Sys) : Prop :=
  (s.cell = 0 ∨ s.cell = d) ∧ ∀ pc ∈ s.threads, PcOk d pc

theorem stepThread_ok (d : Nat) (hd : d ≠ 0) (cell : Nat) (hc : cell = 0 ∨ cell = d) (pc : Pc)
    (hp : PcOk d pc) :
    ((stepThread d cell pc).1 = 0 ∨ (stepThread d cell pc).1 = d) ∧ PcOk d (stepThread d cell pc).2 := by
  cases pc with
  | start => exact ⟨hc, hc⟩
  | loaded v =>
    simp only [stepThread]
    by_cases hv : v = 0
    · subst hv; simp [PcOk]
    · have hvd : v = d := by
        cases hp with
        | inl h => exact absurd h hv
        | inr h => exact h
      subst hvd
      simp only [beq_iff_eq, if_neg hv]
      exact ⟨hc, rfl⟩
  | done f => exact ⟨hc, hp⟩

theorem step_inv (d : Nat) (hd : d ≠ 0) (s : Sys) (i : Nat) (h : Inv d s) : Inv d (step d s i) := by
  unfold step
  cases hi : s.threads[i]? with
  | none => exact h
  | some pc =>
    have hpc : PcOk d pc := h.2 pc (List.mem_of_getElem? hi)
    have hs := stepThread_ok d hd s.cell h.1 pc hpc
    refine ⟨hs.1, ?_⟩
    intro q hq
    cases List.mem_or_eq_of_mem_set hq with
    | inl hm => exact h.2 q hm
    | inr he => exact he ▸ hs.2

theorem run_inv (d : Nat) (hd : d ≠ 0) (sched : List Nat) :
    ∀ s, Inv d s → Inv d (run d s sched) := by
  induction sched with
  | nil => intro s h; exact h
  | cons i is ih => intro s h; exact ih _ (step_inv d hd s i h)

end Runtime

theorem race_ok (d : Nat) (hd : d ≠ 0) (n : Nat) (c₀ : Nat) (hc : c₀ = 0 ∨ c₀ = d)
    (sched : List Nat) :
    let s := Runtime.run d ⟨c₀, List.replicate n .start⟩ sched
    (s.cell = 0 ∨ s.cell = d) ∧ ∀ pc ∈ s.threads, ∀ f, pc = .done f → f = d := by
  intro s
  have h0 : Runtime.Inv d ⟨c₀, List.replicate n .start⟩ := by
    refine ⟨hc, ?_⟩
    intro pc hpc
    rw [List.eq_of_mem_replicate hpc]
    exact True.intro
  have h : Runtime.Inv d s := Runtime.run_inv d hd sched _ h0
  refine ⟨h.1, ?_⟩
  intro pc hpc f hf
  have := h.2 pc hpc
  rw [hf] at this
  exact this

end Hx
