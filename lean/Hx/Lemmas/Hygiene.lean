/-
  Hx.Lemmas.Hygiene — C05: field hygiene.  Every `&str` handed out is valid UTF-8 (on any outcome);
  on Complete the fields are class-clean and the consumed head contains no NUL and no bare CR.
-/
import Hx.Obs
import Hx.Spec.Chk
import Hx.Lemmas.FwdAll
import Hx.Lemmas.StartGrammar
import Hx.Lemmas.BlockGrammar
namespace Hx

/-! ### bytes -/

theorem validUtf8_of_ascii (l : List Byte) (h : ∀ b ∈ l, b < 0x80) : validUtf8 l = true := by
  induction l with
  | nil => rfl
  | cons b l ih =>
    have hb : b < 0x80 := h b (by simp)
    rw [validUtf8.eq_def]
    simp only [if_pos hb]
    exact ih fun x hx => h x (by simp [hx])

theorem tchar_ascii {b : Byte} (h : isTchar b = true) : b < 0x80 := by
  have := allBytesB_spec (f := fun b => !isTchar b || decide (b < 0x80)) (by decide +kernel) b
  simpa [h] using this

theorem strict_ascii {b : Byte} (h : isReasonStrict b = true) : b < 0x80 := by
  have := allBytesB_spec (f := fun b => !isReasonStrict b || decide (b < 0x80)) (by decide +kernel) b
  simpa [h] using this

theorem reason_strict {b : Byte} (h : isReason b = true) (h2 : (0x80 ≤ b) = False) :
    isReasonStrict b = true := by
  have := allBytesB_spec (f := fun b => !(isReason b && !decide (0x80 ≤ b)) || isReasonStrict b)
    (by decide +kernel) b
  simp only [h, Bool.true_and, Bool.or_eq_true, Bool.not_eq_true', Bool.not_eq_false',
    decide_eq_true_eq] at this
  rcases this with h3 | h3
  · rw [h2] at h3; exact h3.elim
  · exact h3

theorem uri_facts {b : Byte} (h : isUri b = true) : b ≠ NUL ∧ b ≠ CR := by
  have := allBytesB_spec (f := fun b => !isUri b || (b != NUL && b != CR)) (by decide +kernel) b
  simpa [h] using this

theorem reason_facts {b : Byte} (h : isReason b = true) : b ≠ NUL ∧ b ≠ CR := by
  have := allBytesB_spec (f := fun b => !isReason b || (b != NUL && b != CR)) (by decide +kernel) b
  simpa [h] using this

theorem digit_facts {b : Byte} (h : isDigit b = true) : b ≠ NUL ∧ b ≠ CR := by
  have := allBytesB_spec (f := fun b => !isDigit b || (b != NUL && b != CR)) (by decide +kernel) b
  simpa [h] using this

theorem trim_not_crlf {b : Byte} (h : isTrimWs b = false) : b ≠ CR ∧ b ≠ LF ∧ isWs b = false := by
  have := allBytesB_spec (f := fun b => isTrimWs b || (b != CR && b != LF && !isWs b)) (by decide +kernel) b
  simpa [h, and_assoc] using this

theorem tchars_utf8 {l : List Byte} (h : ∀ b ∈ l, isTchar b = true) : validUtf8 l = true :=
  validUtf8_of_ascii l fun b hb => tchar_ascii (h b hb)

/-! ### spans denote the slice bytes -/

theorem Sp.bytes_ofSlice {buf : List Byte} {lo hi : Nat} {s : Slice} (h : Slice.In buf lo hi s)
    (hh : hi ≤ buf.length) : (Sp.ofSlice s).bytes buf = some s.bytes := by
  unfold Sp.ofSlice
  split
  · rename_i he
    have : s.bytes = [] := by simpa using he
    simp [Sp.bytes, this]
  · have h1 := h.2.1
    have h2 := h.2.2
    simp only [Sp.bytes]
    rw [if_pos (by omega), ← h2]

theorem allBytes_ofSlice {buf : List Byte} {lo hi : Nat} {s : Slice} (h : Slice.In buf lo hi s)
    (hh : hi ≤ buf.length) (p : List Byte → Bool) : allBytes buf (Sp.ofSlice s) p = p s.bytes := by
  simp [allBytes, Sp.bytes_ofSlice h hh]

theorem Sp.ofSlice_ne_none (s : Slice) : (Sp.ofSlice s != Sp.none) = true := by
  rcases Sp.ofSlice_cases s with e | e <;> rw [e] <;> rfl

/-! ### header values -/

theorem valueBytesOk_valRest {fold : Bool} {l : List Byte} (h : ValRestI fold l) :
    valueBytesOk fold l = true := by
  induction h with
  | nil => rfl
  | ch hb _ ih => simp [valueBytesOk, hb, ih]
  | @fold e b l hf he hb _ ih =>
    have hvb : isValue b = true := (ws_facts hb).1
    subst hf
    rcases he with rfl | rfl
    · simp [valueBytesOk, isValue_CR, isValue_LF, hb, hvb, ih, LF_ne_CR]
    · simp [valueBytesOk, isValue_LF, hb, hvb, ih, LF_ne_CR]

/-- a prefix that does not end in CR / LF keeps `valueBytesOk` -/
theorem valueBytesOk_prefix (fold : Bool) : ∀ (p q : List Byte), valueBytesOk fold (p ++ q) = true →
    (∀ b, p.getLast? = some b → b ≠ CR ∧ b ≠ LF) → valueBytesOk fold p = true
  | [], _, _, _ => rfl
  | [b], q, h, hl => by
    obtain ⟨h1, h2⟩ := hl b rfl
    simp only [List.cons_append, List.nil_append, valueBytesOk, Bool.and_eq_true] at h
    have h' := h.1
    simp only [valueBytesOk, List.head?_nil, Bool.and_true]
    by_cases hv : isValue b = true
    · simp [hv]
    · simp [hv, h1, h2] at h'
  | b :: b' :: p, q, h, hl => by
    simp only [List.cons_append, valueBytesOk, Bool.and_eq_true] at h
    have ih := valueBytesOk_prefix fold (b' :: p) q (by simpa [valueBytesOk] using h.2)
      (fun x hx => hl x (by simpa [List.getLast?_cons_cons] using hx))
    simp only [valueBytesOk, Bool.and_eq_true]
    simp only [valueBytesOk, Bool.and_eq_true] at ih
    exact ⟨by simpa using h.1, ih⟩

/-- the trimmed value of a header line satisfies `valueOk` -/
theorem valueOk_trim (fold : Bool) (o : Nat) (u : List Byte)
    (hu : u = [] ∨ ∃ v rest, u = v :: rest ∧ isValue v = true ∧ isWs v = false ∧ ValRestI fold rest) :
    valueOk fold (trimValue ⟨o, u⟩).bytes = true := by
  rcases hu with rfl | ⟨v, rest, rfl, hv, hw, hrest⟩
  · simp [trimValue, valueOk, valueBytesOk]
  · have hvt : isTrimWs v = false := by
      cases ht : isTrimWs v with
      | false => rfl
      | true => rw [value_trim_ws hv ht] at hw; cases hw
    have hall : (v :: rest).all isTrimWs = false := by simp [hvt]
    obtain ⟨value, ows, hsplit, hne, hlast, _, htrim⟩ := trim_split (v :: rest) hall
    rw [htrim o]
    have hfull : valueBytesOk fold (value ++ ows) = true := by
      rw [← hsplit]; exact valueBytesOk_valRest (.ch hv hrest)
    have h1 := valueBytesOk_prefix fold value ows hfull fun b hb =>
      ⟨(trim_not_crlf (hlast b hb)).1, (trim_not_crlf (hlast b hb)).2.1⟩
    have h2 : value.head? = some v := by
      cases value with
      | nil => exact absurd rfl hne
      | cons x t => simp only [List.cons_append, List.cons.injEq] at hsplit; simp [hsplit.1]
    have h3 : (match value.getLast? with | some b => !isWs b | none => true) = true := by
      cases hl : value.getLast? with
      | none => rfl
      | some b => simp [(trim_not_crlf (hlast b hl)).2.2]
    simp only [valueOk, h1, h2, hw, Bool.and_true, Bool.not_false, Bool.true_and]
    exact h3

/-! ### stored headers -/

/-- what C05 asks of a stored header -/
def HdrOk (fold : Bool) (h : Hdr) : Prop :=
  h.name.bytes ≠ [] ∧ (∀ b ∈ h.name.bytes, isTchar b = true) ∧ valueOk fold h.value.bytes = true

theorem LineSpec.hdrOk {hc : HCfg} {k off : Nat} {consumed after : List Byte} {name value : Slice}
    (h : LineSpec hc k off consumed after (.header name value)) :
    HdrOk hc.fold ⟨name, trimValue value⟩ := by
  cases h with
  | header hnp hbody _ =>
    refine ⟨hnp.name_ne, hnp.name_tchar, ?_⟩
    apply valueOk_trim
    cases hbody with
    | empty => exact Or.inl rfl
    | value hlead hv hw hrest heol => exact Or.inr ⟨_, _, rfl, hv, hw, (valRest_iff _ _).mp hrest⟩

/-- every header the loop has written — on any outcome — comes from a completed header line -/
theorem headersLoop_hdrOk {be : Backend} (hbe : be.Exact) (hc : HCfg) (cap : Nat) :
    ∀ (fuel off : Nat) (input : List Byte) (hs : List Hdr), (∀ h ∈ hs, HdrOk hc.fold h) →
      ∀ h ∈ (headersLoop be hc cap fuel ⟨off, [], input⟩ hs).2, HdrOk hc.fold h := by
  intro fuel
  induction fuel with
  | zero => intro off input hs hh; simpa [headersLoop] using hh
  | succ fuel ih =>
    intro off input hs hh
    unfold headersLoop
    split
    · exact hh
    · rename_i c' hrun
      obtain ⟨consumed, after, rfl, rfl, hls⟩ := (headerLine_iff be hbe hc _ off input _ _).mp hrun
      simp only [reduceCtorEq, if_false]
      exact ih _ _ _ hh
    · rename_i nm v c' hrun
      obtain ⟨consumed, after, rfl, rfl, hls⟩ := (headerLine_iff be hbe hc _ off input _ _).mp hrun
      simp only [reduceCtorEq, if_false]
      split
      · refine ih _ _ _ fun h hm => ?_
        rcases List.mem_append.mp hm with hm | hm
        · exact hh h hm
        · simp only [List.mem_singleton] at hm; subst hm; exact hls.hdrOk
      · exact hh
    · exact hh
    · exact hh
    · exact hh

theorem parseHeadersIter_snd (be : Backend) (hc : HCfg) (cap : Nat) (c : Cur) :
    (parseHeadersIter be hc cap c).2 = (headersLoop be hc cap (c.rest.length + 1) c []).2 := by
  unfold parseHeadersIter
  split <;> rename_i heq <;> rw [heq]

theorem finishHeaders_hdrs {V : Type} (be : Backend) (hc : HCfg) (cap : Nat) (buf : List Byte) (c : Cur) (v : V) :
    (finishHeaders be hc cap buf c v).hdrs = (parseHeadersIter be hc cap c).2 := by
  unfold finishHeaders
  dsimp only
  split <;> rename_i heq <;> rw [heq]

theorem finishHeaders_val {V : Type} (be : Backend) (hc : HCfg) (cap : Nat) (buf : List Byte) (c : Cur) (v : V) :
    (finishHeaders be hc cap buf c v).val = v := by
  unfold finishHeaders
  dsimp only
  split <;> rfl

theorem parseHeaders_snd (be : Backend) (cap : Nat) (buf : List Byte) :
    (parseHeaders be cap buf).2 = (parseHeadersIter be HCfg.default cap (Cur.new buf)).2 := by
  unfold parseHeaders
  split <;> rename_i heq <;> rw [heq]

theorem finishHeaders_hdrOk {V : Type} {be : Backend} (hbe : be.Exact) (hc : HCfg) (cap : Nat) (buf : List Byte)
    (off : Nat) (input : List Byte) (v : V) :
    ∀ h ∈ (finishHeaders be hc cap buf ⟨off, [], input⟩ v).hdrs, HdrOk hc.fold h := by
  rw [finishHeaders_hdrs, parseHeadersIter_snd]
  exact headersLoop_hdrOk hbe hc cap _ off input [] (by simp)

theorem parseHeaders_hdrOk {be : Backend} (hbe : be.Exact) (cap : Nat) (buf : List Byte) :
    ∀ h ∈ (parseHeaders be cap buf).2, HdrOk false h := by
  rw [parseHeaders_snd, parseHeadersIter_snd]
  exact headersLoop_hdrOk hbe HCfg.default cap _ 0 buf [] (by simp)

/-! ### the consumed head is clean -/

theorem BlockSpec.pre {hc : HCfg} {cap off k : Nat} {input : List Byte} {n : Nat} {hs : List Hdr}
    (h : BlockSpec hc cap off k input n hs) : Pre (input.take n) := by
  induction h with
  | eoh hls => simpa using Pre.lineSpec hls
  | skipped hls _ ih => rw [List.take_length_add_append]; exact (Pre.lineSpec hls).append ih
  | header hls _ _ ih => rw [List.take_length_add_append]; exact (Pre.lineSpec hls).append ih

theorem Pre.emptyLines {pre : List Byte} (h : EmptyLines pre) : Pre pre := by
  induction h with
  | nil => exact .nil
  | crlf _ ih => exact (Pre.eol (Or.inl rfl)).append ih
  | lf _ ih => exact .cons LF_ne_NUL LF_ne_CR ih

theorem Pre.sps {l : List Byte} (h : ∀ b ∈ l, b = SP) : Pre l :=
  .of_all fun b hb => by rw [h b hb]; decide

theorem Pre.delim {multi : Bool} {sp : List Byte} (h : IsDelim multi sp) : Pre sp := by
  rcases h with rfl | ⟨_, _, h⟩
  · exact .sps (by simp)
  · exact .sps h

theorem Pre.version {v : Nat} (hv : v = 0 ∨ v = 1) : Pre (versionBytes v) := by
  rcases hv with rfl | rfl <;> exact .of_all (by decide)

theorem Pre.requestLine {multi : Bool} {pre m sp₁ t sp₂ eol : List Byte} {v : Nat}
    (h : IsRequestLine multi pre m sp₁ t sp₂ v eol) : Pre (requestLineBytes pre m sp₁ t sp₂ v eol) := by
  unfold requestLineBytes
  exact ((((((Pre.emptyLines h.pre_ok).append (.tchars h.m_tchar)).append (.delim h.sp₁_ok)).append
    (.of_all fun b hb => uri_facts (h.t_uri b hb))).append (.delim h.sp₂_ok)).append (.version h.v01)).append
    (.eol h.eol_ok)

theorem Pre.statusTail {multi : Bool} {tail : List Byte} {ro : Nat} {reason : Option (List Byte)}
    (h : StatusTail multi tail ro reason) : Pre tail := by
  cases h with
  | bare he => exact .eol he
  | reason hsp _ _ hr he =>
    exact ((Pre.cons (b := SP) (by decide) (by decide) (.sps hsp)).append
      (.of_all fun b hb => reason_facts (hr b hb))).append (.eol he)

theorem Pre.statusLine {multi : Bool} {pre sp₁ tail : List Byte} {v ro : Nat} {d₁ d₂ d₃ : Byte}
    {reason : Option (List Byte)} (h : IsStatusLine multi pre v sp₁ d₁ d₂ d₃ tail ro reason) :
    Pre (statusLineBytes pre v sp₁ d₁ d₂ d₃ tail) := by
  unfold statusLineBytes
  refine ((((Pre.emptyLines h.pre_ok).append (.version h.v01)).append (.delim h.sp₁_ok)).append
    (.of_all fun b hb => ?_)).append (.statusTail h.tail_ok)
  simp only [List.mem_cons, List.not_mem_nil, or_false] at hb
  rcases hb with rfl | rfl | rfl
  · exact digit_facts h.d₁_ok
  · exact digit_facts h.d₂_ok
  · exact digit_facts h.d₃_ok

/-- a start line followed by `k` bytes of a header block -/
theorem headClean_line_block {hc : HCfg} {cap off j k : Nat} {line rest : List Byte} {hs : List Hdr}
    (hl : Pre line) (hb : BlockSpec hc cap off j rest k hs) :
    headClean ((line ++ rest).take (line.length + k)) = true := by
  rw [List.take_length_add_append]
  simpa using hl _ (hb.pre [] rfl)

/-! ### the request parser: fields on every outcome -/

def MethodOk (o : Option Slice) : Prop := ∀ s, o = some s → s.bytes ≠ [] ∧ ∀ b ∈ s.bytes, isTchar b = true
def PathOk (o : Option Slice) : Prop :=
  ∀ s, o = some s → s.bytes ≠ [] ∧ (∀ b ∈ s.bytes, isUri b = true) ∧ validUtf8 s.bytes = true

theorem MethodOk.none : MethodOk none := fun _ h => by cases h
theorem PathOk.none : PathOk none := fun _ h => by cases h

def ReqHyg (fold : Bool) (r : Res ReqVal) : Prop :=
  MethodOk r.val.method ∧ PathOk r.val.path ∧ ∀ h ∈ r.hdrs, HdrOk fold h

theorem ReqHyg.fail {fold : Bool} {st : Outcome Nat} {v : ReqVal} (h1 : MethodOk v.method) (h2 : PathOk v.path) :
    ReqHyg fold ⟨st, v, []⟩ := ⟨h1, h2, by simp⟩

theorem reqCore_hyg (be : Backend) (hbe : be.Exact) (cfg : Config) (cap : Nat) (buf : List Byte) :
    ReqHyg cfg.reqH.fold (reqCore be cfg cap buf ReqVal.fresh) := by
  unfold reqCore
  refine step_ind (Q := ReqHyg _) (fun st _ => .fail .none .none) fun _ c1 e1 => ?_
  obtain ⟨pre, r1, -, -, -, rfl⟩ := (skipEmptyLines_ok 0 buf c1).mp e1
  refine step_ind (Q := ReqHyg _) (fun st _ => .fail .none .none) fun m c2 e2 => ?_
  obtain ⟨mb, r2, -, hmne, hmt, rfl, rfl⟩ := (parseMethod_ok _ _ m c2).mp e2
  have hM : MethodOk (some (⟨0 + pre.length, mb⟩ : Slice)) := fun s h => by
    simp only [Option.some.injEq] at h; subst h; exact ⟨hmne, hmt⟩
  try dsimp only
  refine step_ind (Q := ReqHyg _) (fun st _ => .fail hM .none) fun _ c3 e3 => ?_
  obtain ⟨sp, r3, -, -, -, -, rfl⟩ := (optSkipSpaces_ok _ _ _ c3).mp e3
  refine step_ind (Q := ReqHyg _) (fun st _ => .fail hM .none) fun p c4 e4 => ?_
  obtain ⟨t, r4, -, htne, htu, htv, rfl, rfl⟩ := (parseUri_ok hbe _ _ p c4).mp e4
  have hP : PathOk (some (⟨0 + pre.length + mb.length + 1 + sp.length, t⟩ : Slice)) := fun s h => by
    simp only [Option.some.injEq] at h; subst h; exact ⟨htne, htu, htv⟩
  try dsimp only
  refine step_ind (Q := ReqHyg _) (fun st _ => .fail hM hP) fun _ c5 e5 => ?_
  obtain ⟨sp2, r5, -, -, -, -, rfl⟩ := (optSkipSpaces_ok _ _ _ c5).mp e5
  refine step_ind (Q := ReqHyg _) (fun st _ => .fail hM hP) fun ver c6 e6 => ?_
  obtain ⟨-, r6, -, rfl⟩ := (parseVersion_ok _ _ _ ver c6).mp e6
  try dsimp only
  refine step_ind (Q := ReqHyg _) (fun st _ => .fail hM hP) fun _ c7 e7 => ?_
  obtain ⟨eol, r7, -, -, rfl⟩ := (newline_ok _ _ _ c7).mp e7
  refine ⟨?_, ?_, finishHeaders_hdrOk hbe _ _ _ _ _ _⟩
  · rw [finishHeaders_val]; exact hM
  · rw [finishHeaders_val]; exact hP

/-- on Complete: the fields are set, the version is 0 or 1, the consumed head is clean -/
theorem reqCore_complete (be : Backend) (hbe : be.Exact) (cfg : Config) (cap : Nat) (buf : List Byte) (n : Nat)
    (h : (reqCore be cfg cap buf ReqVal.fresh).status = .ok n) :
    (reqCore be cfg cap buf ReqVal.fresh).val.method.isSome = true ∧
    (reqCore be cfg cap buf ReqVal.fresh).val.path.isSome = true ∧
    ((reqCore be cfg cap buf ReqVal.fresh).val.version = some 0 ∨
      (reqCore be cfg cap buf ReqVal.fresh).val.version = some 1) ∧
    headClean (buf.take n) = true := by
  obtain ⟨v1, v2, v3⟩ := reqCore_via_line be cfg cap buf ReqVal.fresh
  cases hl : (reqLineP be cfg.multiReq).run (Cur.new buf) with
  | ok r =>
    obtain ⟨⟨m, p, v⟩, c⟩ := r
    rw [v1 m p v c hl] at h ⊢
    obtain ⟨pre, mb, sp₁, t, sp₂, eol, rest, hline, rfl, -, -, rfl⟩ :=
      (reqLine_iff be hbe cfg.multiReq buf m p v c).mp hl
    have hw : (⟨(requestLineBytes pre mb sp₁ t sp₂ v eol).length, [], rest⟩ : Cur).Wf
        (requestLineBytes pre mb sp₁ t sp₂ v eol ++ rest) := ⟨_, rfl, by simp⟩
    obtain ⟨k, hs, hb, rfl, -, -⟩ := (finishHeaders_ok_iff be hbe cfg.reqH cap _ _ _ n hw rfl).mp h
    rw [finishHeaders_val]
    refine ⟨rfl, rfl, ?_, headClean_line_block (Pre.requestLine hline) hb⟩
    rcases hline.v01 with rfl | rfl
    · exact Or.inl rfl
    · exact Or.inr rfl
  | part => rw [v3 hl] at h; cases h
  | err e => rw [v2 e hl] at h; cases h
  | ub u => exact absurd hl (reqLine_no_ub be hbe cfg.multiReq buf u)

/-! ### the response parser -/

def ReasonOk (o : Option Str) : Prop := ∀ s, o = some (.slice s) → ∀ b ∈ s.bytes, isReasonStrict b = true

theorem ReasonOk.none : ReasonOk none := fun _ h => by cases h

theorem ReasonOk.reported (off : Nat) (reason : Option (List Byte)) (h : ∀ r, reason = some r → ∀ b ∈ r, isReason b = true) :
    ReasonOk (some (reportedReason off reason)) := by
  intro s hs
  simp only [Option.some.injEq] at hs
  unfold reportedReason at hs
  split at hs
  · cases hs
  · rename_i r
    split at hs
    · cases hs
    · rename_i hany
      simp only [Str.slice.injEq] at hs
      subst hs
      intro b hb
      refine reason_strict (h r rfl b hb) ?_
      simp only [List.any_eq_true, not_exists, not_and, decide_eq_true_eq] at hany
      exact eq_false (hany b hb)

theorem StatusTail.reason_ok {multi : Bool} {tail : List Byte} {ro : Nat} {reason : Option (List Byte)}
    (h : StatusTail multi tail ro reason) : ∀ r, reason = some r → ∀ b ∈ r, isReason b = true := by
  cases h with
  | bare => intro r hr; cases hr
  | reason _ _ _ hr _ => intro r h; simp only [Option.some.injEq] at h; subst h; exact hr

def RespHyg (fold : Bool) (r : Res RespVal) : Prop :=
  ReasonOk r.val.reason ∧ ∀ h ∈ r.hdrs, HdrOk fold h

theorem RespHyg.fail {fold : Bool} {st : Outcome Nat} {v : RespVal} (h1 : ReasonOk v.reason) :
    RespHyg fold ⟨st, v, []⟩ := ⟨h1, by simp⟩

theorem respCore_hyg (be : Backend) (hbe : be.Exact) (cfg : Config) (cap : Nat) (buf : List Byte) :
    RespHyg cfg.respH.fold (respCore be cfg cap buf RespVal.fresh) := by
  unfold respCore
  refine step_ind (Q := RespHyg _) (fun st _ => .fail .none) fun _ c1 e1 => ?_
  refine step_ind (Q := RespHyg _) (fun st _ => .fail .none) fun ver c2 e2 => ?_
  try dsimp only
  refine step_ind (Q := RespHyg _) (fun st _ => .fail .none) fun _ c3 e3 => ?_
  refine step_ind (Q := RespHyg _) (fun st _ => .fail .none) fun _ c4 e4 => ?_
  refine step_ind (Q := RespHyg _) (fun st _ => .fail .none) fun code c5 e5 => ?_
  try dsimp only
  refine step_ind (Q := RespHyg _) (fun st _ => .fail .none) fun reason c6 e6 => ?_
  obtain ⟨s5, t5, r5⟩ := c5
  obtain ⟨tail, ro, rs, r6, htail, -, rfl, rfl⟩ := (reasonBranch_ok _ _ _ _ reason c6).mp e6
  refine ⟨?_, finishHeaders_hdrOk hbe _ _ _ _ _ _⟩
  rw [finishHeaders_val]
  exact ReasonOk.reported _ _ htail.reason_ok

theorem respCore_complete (be : Backend) (hbe : be.Exact) (cfg : Config) (cap : Nat) (buf : List Byte) (n : Nat)
    (h : (respCore be cfg cap buf RespVal.fresh).status = .ok n) :
    (respCore be cfg cap buf RespVal.fresh).val.reason.isSome = true ∧
    ((respCore be cfg cap buf RespVal.fresh).val.version = some 0 ∨
      (respCore be cfg cap buf RespVal.fresh).val.version = some 1) ∧
    (∃ c, (respCore be cfg cap buf RespVal.fresh).val.code = some c ∧ c < 1000) ∧
    headClean (buf.take n) = true := by
  obtain ⟨v1, v2, v3⟩ := respCore_via_line be cfg cap buf RespVal.fresh
  cases hl : (respLineP cfg.multiResp).run (Cur.new buf) with
  | ok r =>
    obtain ⟨⟨v, code, rs⟩, c⟩ := r
    rw [v1 v code rs c hl] at h ⊢
    obtain ⟨pre, sp₁, d₁, d₂, d₃, tail, ro, reason, rest, hline, rfl, rfl, -, rfl⟩ :=
      (respLine_iff cfg.multiResp buf v code rs c).mp hl
    have hw : (⟨(statusLineBytes pre v sp₁ d₁ d₂ d₃ tail).length, [], rest⟩ : Cur).Wf
        (statusLineBytes pre v sp₁ d₁ d₂ d₃ tail ++ rest) := ⟨_, rfl, by simp⟩
    obtain ⟨k, hs, hb, rfl, -, -⟩ := (finishHeaders_ok_iff be hbe cfg.respH cap _ _ _ n hw rfl).mp h
    rw [finishHeaders_val]
    refine ⟨rfl, ?_, ⟨_, rfl, codeValue_lt _ _ _ hline.d₁_ok hline.d₂_ok hline.d₃_ok⟩,
      headClean_line_block (Pre.statusLine hline) hb⟩
    rcases hline.v01 with rfl | rfl
    · exact Or.inl rfl
    · exact Or.inr rfl
  | part => rw [v3 hl] at h; cases h
  | err e => rw [v2 e hl] at h; cases h
  | ub u => exact absurd hl (respLine_no_ub cfg.multiResp buf u)

/-! ### assembling `chkC05` -/

/-- the per-kind field check of `chkC05` on Complete -/
def fieldsChk (k : Kind) (buf : List Byte) (spans : List Sp) (nums : List (Option Nat)) : Bool :=
  match k with
  | .req =>
    allBytes buf (spans.getD 0 .none) (fun m => !m.isEmpty && m.all isTchar) &&
    allBytes buf (spans.getD 1 .none) (fun p => !p.isEmpty && p.all isUri && validUtf8 p) &&
    (spans.getD 0 .none != .none) && (spans.getD 1 .none != .none) &&
    (nums.getD 0 none == some 0 || nums.getD 0 none == some 1)
  | .resp =>
    allBytes buf (spans.getD 0 .none) (fun r => r.all isReasonStrict) &&
    (spans.getD 0 .none != .none) &&
    (nums.getD 0 none == some 0 || nums.getD 0 none == some 1) &&
    (match nums.getD 1 none with | some c => c < 1000 | none => false)
  | .hdrs => true

/-- the per-header check of `chkC05` on Complete -/
def hdrChk (fold : Bool) (buf : List Byte) (h : HdrO) : Bool :=
  allBytes buf h.name (fun nm => !nm.isEmpty && nm.all isTchar) && h.name != .none &&
  allBytes buf h.value (valueOk fold) && h.value != .none

theorem chkC05_intro (k : Kind) (cfg : Config) (buf : List Byte) (o : Obs)
    (h1 : ∀ s ∈ o.spans, allBytes buf s validUtf8 = true)
    (h2 : ∀ h, SlotO.hdr h ∈ o.arrA ++ o.arrU → allBytes buf h.name validUtf8 = true)
    (h3 : ∀ n, o.st = .c n → fieldsChk k buf o.spans o.nums = true ∧ (∀ h ∈ o.hdrs, hdrChk (k.hcfg cfg).fold buf h = true) ∧
      headClean (buf.take n) = true) : chkC05 k cfg buf o = true := by
  unfold chkC05
  simp only [Bool.and_eq_true]
  refine ⟨⟨?_, ?_⟩, ?_⟩
  · cases k
    · exact List.all_eq_true.mpr h1
    · exact List.all_eq_true.mpr h1
    · rfl
  · rw [List.all_eq_true]
    intro s hs
    cases s with
    | hdr h => exact h2 h hs
    | sent _ => rfl
    | unknown => rfl
  · cases hst : o.st with
    | c n =>
      obtain ⟨g1, g2, g3⟩ := h3 n hst
      simp only [Bool.and_eq_true]
      exact ⟨⟨g1, List.all_eq_true.mpr g2⟩, g3⟩
    | p => rfl
    | e _ => rfl
    | crash => rfl

theorem hdrChk_ofHdr {fold : Bool} {buf : List Byte} {h : Hdr}
    (hin : Slice.In buf 0 buf.length h.name ∧ Slice.In buf 0 buf.length h.value) (hok : HdrOk fold h) :
    hdrChk fold buf (HdrO.ofHdr h) = true := by
  obtain ⟨g1, g2, g3⟩ := hok
  have e1 : (!h.name.bytes.isEmpty) = true := by
    cases hb : h.name.bytes with
    | nil => exact absurd hb g1
    | cons _ _ => rfl
  simp only [hdrChk, HdrO.ofHdr, allBytes_ofSlice hin.1 (Nat.le_refl _), allBytes_ofSlice hin.2 (Nat.le_refl _),
    Sp.ofSlice_ne_none, g3, e1, List.all_eq_true.mpr g2, Bool.and_self]

theorem name_utf8_ofHdr {fold : Bool} {buf : List Byte} {h : Hdr}
    (hin : Slice.In buf 0 buf.length h.name) (hok : HdrOk fold h) :
    allBytes buf (Sp.ofSlice h.name) validUtf8 = true := by
  rw [allBytes_ofSlice hin (Nat.le_refl _)]
  exact tchars_utf8 hok.2.1

theorem arr_hdr_mem {base cap : Nat} {hs : List Hdr} {h : HdrO}
    (hm : SlotO.hdr h ∈ (Arr.write (sentinels base cap) hs).map SlotO.ofSlot) :
    ∃ hd ∈ hs, h = HdrO.ofHdr hd := by
  obtain ⟨slot, hm, he⟩ := List.mem_map.1 hm
  unfold Arr.write at hm
  rcases List.mem_append.1 hm with hm | hm
  · obtain ⟨hd, hdm, rfl⟩ := List.mem_map.1 hm
    simp only [SlotO.ofSlot, SlotO.hdr.injEq] at he
    exact ⟨hd, hdm, he.symm⟩
  · have := List.mem_of_mem_drop hm
    unfold sentinels at this
    obtain ⟨j, _, rfl⟩ := List.mem_map.1 this
    simp [SlotO.ofSlot] at he

theorem chkC05_ofCall {V : Type} (k : Kind) (cfg : Config) (spans : V → List Sp) (nums : V → List (Option Nat))
    (core : Nat → V → Res V) (v0 : V) (cap : Nat) (buf : List Byte)
    (hsp : ∀ sp ∈ spans (core cap v0).val, allBytes buf sp validUtf8 = true)
    (hin : ∀ h ∈ (core cap v0).hdrs, Slice.In buf 0 buf.length h.name ∧ Slice.In buf 0 buf.length h.value)
    (hok : ∀ h ∈ (core cap v0).hdrs, HdrOk (k.hcfg cfg).fold h)
    (hc : ∀ n, (core cap v0).status = .ok n →
      fieldsChk k buf (spans (core cap v0).val) (nums (core cap v0).val) = true ∧ headClean (buf.take n) = true) :
    chkC05 k cfg buf (Obs.ofCall spans nums (callInit core ⟨v0, cap⟩ (sentinels 0 cap)) true []) = true := by
  unfold callInit
  dsimp only
  generalize core cap v0 = r at *
  rcases r with ⟨st, val, hs⟩
  dsimp only at hsp hin hok hc
  have harr : ∀ h, SlotO.hdr h ∈ (Arr.write (sentinels 0 cap) hs).map SlotO.ofSlot ++ ([] : Arr).map SlotO.ofSlot →
      allBytes buf h.name validUtf8 = true := by
    intro h hm
    simp only [List.map_nil, List.append_nil] at hm
    obtain ⟨hd, hdm, rfl⟩ := arr_hdr_mem hm
    exact name_utf8_ofHdr (hin hd hdm).1 (hok hd hdm)
  apply chkC05_intro
  · cases st <;> exact hsp
  · cases st <;> exact harr
  · intro n hn
    cases st with
    | ok m =>
      simp only [Obs.ofCall, St.ofOutcome, St.c.injEq] at hn
      subst hn
      obtain ⟨c1, c2⟩ := hc m rfl
      refine ⟨c1, ?_, c2⟩
      simp only [Obs.ofCall, St.ofOutcome, St.isC, if_true]
      rw [hdrs_of_write _ (fun _ => rfl)]
      intro h hm
      obtain ⟨hd, hdm, rfl⟩ := List.mem_map.1 hm
      exact hdrChk_ofHdr (hin hd hdm) (hok hd hdm)
    | part => simp [Obs.ofCall, St.ofOutcome] at hn
    | err e => simp [Obs.ofCall, St.ofOutcome] at hn
    | ub u => simp [Obs.ofCall, St.ofOutcome] at hn

theorem chkC05_reqObs (be : Backend) (hbe : be.Exact) (cfg : Config) (cap : Nat) (buf : List Byte) :
    chkC05 .req cfg buf (reqObs be cfg cap buf) = true := by
  unfold reqObs
  obtain ⟨i1, i2, i3⟩ := reqCore_slices_in be hbe cfg cap buf ReqVal.fresh rfl
  obtain ⟨hM, hP, hH⟩ := reqCore_hyg be hbe cfg cap buf
  have hm : allBytes buf (Sp.ofOptSlice (reqCore be cfg cap buf ReqVal.fresh).val.method) validUtf8 = true := by
    cases hv : (reqCore be cfg cap buf ReqVal.fresh).val.method with
    | none => rfl
    | some s =>
      simp only [Sp.ofOptSlice]
      rw [allBytes_ofSlice (i1 s hv) (Nat.le_refl _)]
      exact tchars_utf8 (hM s hv).2
  have hp : allBytes buf (Sp.ofOptSlice (reqCore be cfg cap buf ReqVal.fresh).val.path) validUtf8 = true := by
    cases hv : (reqCore be cfg cap buf ReqVal.fresh).val.path with
    | none => rfl
    | some s =>
      simp only [Sp.ofOptSlice]
      rw [allBytes_ofSlice (i2 s hv) (Nat.le_refl _)]
      exact (hP s hv).2.2
  refine chkC05_ofCall .req cfg ReqVal.spans ReqVal.nums (fun n v => reqCore be cfg n buf v) ReqVal.fresh cap buf
    ?_ i3 hH ?_
  · intro sp hsp
    simp only [ReqVal.spans, List.mem_cons, List.not_mem_nil, or_false] at hsp
    rcases hsp with rfl | rfl
    · exact hm
    · exact hp
  · intro n hn
    obtain ⟨k1, k2, k3, k4⟩ := reqCore_complete be hbe cfg cap buf n hn
    refine ⟨?_, k4⟩
    obtain ⟨m, hmv⟩ := Option.isSome_iff_exists.1 k1
    obtain ⟨p, hpv⟩ := Option.isSome_iff_exists.1 k2
    have hmb : (!m.bytes.isEmpty) = true := by
      cases hb : m.bytes with
      | nil => exact absurd hb (hM m hmv).1
      | cons _ _ => rfl
    have hpb : (!p.bytes.isEmpty) = true := by
      cases hb : p.bytes with
      | nil => exact absurd hb (hP p hpv).1
      | cons _ _ => rfl
    have hver : ((reqCore be cfg cap buf ReqVal.fresh).val.version == some 0 ||
        (reqCore be cfg cap buf ReqVal.fresh).val.version == some 1) = true := by
      rcases k3 with e | e <;> rw [e] <;> rfl
    simp only [fieldsChk, ReqVal.spans, ReqVal.nums, hmv, hpv, Sp.ofOptSlice, List.getD_cons_zero,
      List.getD_cons_succ, allBytes_ofSlice (i1 m hmv) (Nat.le_refl _), allBytes_ofSlice (i2 p hpv) (Nat.le_refl _),
      Sp.ofSlice_ne_none, hmb, hpb, List.all_eq_true.mpr (hM m hmv).2, List.all_eq_true.mpr (hP p hpv).2.1,
      (hP p hpv).2.2, Bool.and_self, Bool.true_and]
    simpa using hver

theorem chkC05_respObs (be : Backend) (hbe : be.Exact) (cfg : Config) (cap : Nat) (buf : List Byte) :
    chkC05 .resp cfg buf (respObs be cfg cap buf) = true := by
  unfold respObs
  obtain ⟨i1, i3⟩ := respCore_slices_in be hbe cfg cap buf RespVal.fresh rfl
  obtain ⟨hR, hH⟩ := respCore_hyg be hbe cfg cap buf
  have hstrict : allBytes buf (Sp.ofOptStr (respCore be cfg cap buf RespVal.fresh).val.reason)
      (fun r => r.all isReasonStrict) = true ∨ (respCore be cfg cap buf RespVal.fresh).val.reason = none := by
    cases hv : (respCore be cfg cap buf RespVal.fresh).val.reason with
    | none => exact Or.inr rfl
    | some str =>
      left
      cases str with
      | staticEmpty => rfl
      | slice s =>
        simp only [Sp.ofOptStr, Sp.ofStr]
        rw [allBytes_ofSlice (i1 s hv) (Nat.le_refl _)]
        exact List.all_eq_true.mpr (hR s hv)
  have hr : allBytes buf (Sp.ofOptStr (respCore be cfg cap buf RespVal.fresh).val.reason) validUtf8 = true := by
    cases hv : (respCore be cfg cap buf RespVal.fresh).val.reason with
    | none => rfl
    | some str =>
      cases str with
      | staticEmpty => rfl
      | slice s =>
        simp only [Sp.ofOptStr, Sp.ofStr]
        rw [allBytes_ofSlice (i1 s hv) (Nat.le_refl _)]
        exact validUtf8_of_ascii _ fun b hb => strict_ascii (hR s hv b hb)
  refine chkC05_ofCall .resp cfg RespVal.spans RespVal.nums (fun n v => respCore be cfg n buf v) RespVal.fresh cap buf
    ?_ i3 hH ?_
  · intro sp hsp
    simp only [RespVal.spans, List.mem_cons, List.not_mem_nil, or_false] at hsp
    subst hsp
    exact hr
  · intro n hn
    obtain ⟨k1, k2, ⟨code, k3, k3'⟩, k4⟩ := respCore_complete be hbe cfg cap buf n hn
    refine ⟨?_, k4⟩
    obtain ⟨str, hsv⟩ := Option.isSome_iff_exists.1 k1
    have hs1 : allBytes buf (Sp.ofOptStr (respCore be cfg cap buf RespVal.fresh).val.reason)
        (fun r => r.all isReasonStrict) = true := by
      rcases hstrict with h | h
      · exact h
      · rw [h] at hsv; cases hsv
    have hs2 : (Sp.ofOptStr (respCore be cfg cap buf RespVal.fresh).val.reason != Sp.none) = true := by
      rw [hsv]
      cases str with
      | staticEmpty => rfl
      | slice s => exact Sp.ofSlice_ne_none s
    have hver : ((respCore be cfg cap buf RespVal.fresh).val.version == some 0 ||
        (respCore be cfg cap buf RespVal.fresh).val.version == some 1) = true := by
      rcases k2 with e | e <;> rw [e] <;> rfl
    simp only [fieldsChk, RespVal.spans, RespVal.nums, List.getD_cons_zero, List.getD_cons_succ, hs1, hs2, k3,
      Bool.true_and, Bool.and_eq_true, decide_eq_true_eq]
    exact ⟨hver, k3'⟩

theorem chkC05_hdrsObs (be : Backend) (hbe : be.Exact) (cap : Nat) (buf : List Byte) :
    chkC05 .hdrs Config.default buf (hdrsObs be cap buf) = true := by
  obtain ⟨hi, g1, g2, g3⟩ := parseHeaders_good be cap buf
  have hok := parseHeaders_hdrOk hbe cap buf
  have hblock := fun n hs => (parseHeaders_block_iff hbe cap buf n hs).mp
  unfold hdrsObs
  rcases h : parseHeaders be cap buf with ⟨o, hs⟩
  rw [h] at g2 g3 hok hblock
  dsimp only at g2 g3 hok ⊢
  have hin : ∀ hd ∈ hs, Slice.In buf 0 buf.length hd.name ∧ Slice.In buf 0 buf.length hd.value := fun hd hm =>
    ⟨(g2.mem (mem_hdrSl hm).1).mono (Nat.le_refl _) g1, (g2.mem (mem_hdrSl hm).2).mono (Nat.le_refl _) g1⟩
  apply chkC05_intro
  · intro s hs; cases hs
  · intro hd hm
    simp only [List.append_nil] at hm
    obtain ⟨hd, hdm, rfl⟩ := arr_hdr_mem hm
    exact name_utf8_ofHdr (hin hd hdm).1 (hok hd hdm)
  · intro n hn
    cases o with
    | ok m =>
      simp only [St.ofOutcome, St.c.injEq] at hn
      subst hn
      refine ⟨rfl, ?_, ?_⟩
      · simp only [St.ofOutcome, St.isC, if_true]
        intro hd hm
        obtain ⟨hd, hdm, rfl⟩ := List.mem_map.1 hm
        exact hdrChk_ofHdr (hin hd hdm) (hok hd hdm)
      · have hb := hblock m hs rfl
        have := hb.pre [] rfl
        simpa using this
    | part => simp [St.ofOutcome] at hn
    | err e => simp [St.ofOutcome] at hn
    | ub u => simp [St.ofOutcome] at hn

end Hx
