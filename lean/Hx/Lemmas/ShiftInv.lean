/-
  Hx.Lemmas.ShiftInv — offset-shift invariance of the header parser: running the header block from
  a cursor whose commit point is `d` further gives the same outcome with every offset shifted by
  `d` (offsets enter only additively, through `Cur.start`).
-/
import Hx.Parse.Entry
import Hx.Lemmas.Basic
import Hx.Lemmas.StableHeaders
namespace Hx

def Slice.shift (d : Nat) (s : Slice) : Slice := ⟨s.off + d, s.bytes⟩
def Hdr.shift (d : Nat) (h : Hdr) : Hdr := ⟨h.name.shift d, h.value.shift d⟩
/-- the same cursor over a buffer with `d` more bytes in front -/
def Cur.shiftOff (d : Nat) (c : Cur) : Cur := ⟨c.start + d, c.tok, c.rest⟩

@[simp] theorem Cur.shiftOff_start (d : Nat) (c : Cur) : (c.shiftOff d).start = c.start + d := rfl
@[simp] theorem Cur.shiftOff_tok (d : Nat) (c : Cur) : (c.shiftOff d).tok = c.tok := rfl
@[simp] theorem Cur.shiftOff_rest (d : Nat) (c : Cur) : (c.shiftOff d).rest = c.rest := rfl

/-- results whose slices can be shifted -/
class Shiftable (α : Type) where
  sh : Nat → α → α
export Shiftable (sh)

instance : Shiftable Unit := ⟨fun _ a => a⟩
instance : Shiftable Nat := ⟨fun _ a => a⟩
instance : Shiftable Byte := ⟨fun _ a => a⟩
instance : Shiftable Bool := ⟨fun _ a => a⟩
instance : Shiftable Slice := ⟨Slice.shift⟩
instance {α : Type} [Shiftable α] : Shiftable (Option α) := ⟨fun d o => o.map (sh d)⟩
instance {α β : Type} [Shiftable α] [Shiftable β] : Shiftable (α × β) := ⟨fun d p => (sh d p.1, sh d p.2)⟩
instance : Shiftable Line :=
  ⟨fun d l => match l with | .header n v => .header (n.shift d) (v.shift d) | .eoh => .eoh | .skipped => .skipped⟩
instance : Shiftable WsRes :=
  ⟨fun d w => match w with | .empty v => .empty (v.shift d) | .value => .value | .skipped => .skipped⟩

@[simp] theorem sh_unit (d : Nat) (a : Unit) : sh d a = a := rfl
@[simp] theorem sh_nat (d : Nat) (a : Nat) : sh d a = a := rfl
@[simp] theorem sh_byte (d : Nat) (a : Byte) : sh d a = a := rfl
@[simp] theorem sh_bool (d : Nat) (a : Bool) : sh d a = a := rfl
@[simp] theorem sh_slice (d : Nat) (s : Slice) : sh d s = s.shift d := rfl
@[simp] theorem sh_some {α : Type} [Shiftable α] (d : Nat) (a : α) : sh d (some a) = some (sh d a) := rfl
@[simp] theorem sh_none {α : Type} [Shiftable α] (d : Nat) : sh d (none : Option α) = none := rfl
@[simp] theorem sh_pair {α β : Type} [Shiftable α] [Shiftable β] (d : Nat) (a : α) (b : β) :
    sh d (a, b) = (sh d a, sh d b) := rfl
@[simp] theorem sh_opt_byte (d : Nat) (o : Option Byte) : sh d o = o := by cases o <;> rfl
@[simp] theorem sh_line_header (d : Nat) (n v : Slice) :
    sh d (Line.header n v) = Line.header (n.shift d) (v.shift d) := rfl
@[simp] theorem sh_line_eoh (d : Nat) : sh d Line.eoh = Line.eoh := rfl
@[simp] theorem sh_line_skipped (d : Nat) : sh d Line.skipped = Line.skipped := rfl
@[simp] theorem sh_ws_empty (d : Nat) (v : Slice) : sh d (WsRes.empty v) = WsRes.empty (v.shift d) := rfl
@[simp] theorem sh_ws_value (d : Nat) : sh d WsRes.value = WsRes.value := rfl
@[simp] theorem sh_ws_skipped (d : Nat) : sh d WsRes.skipped = WsRes.skipped := rfl

/-- the outcome with result and cursor shifted -/
def shO {α : Type} [Shiftable α] (d : Nat) : Outcome (α × Cur) → Outcome (α × Cur)
  | .ok (a, c) => .ok (sh d a, c.shiftOff d)
  | .part => .part
  | .err e => .err e
  | .ub u => .ub u

@[simp] theorem shO_ok {α : Type} [Shiftable α] (d : Nat) (a : α) (c : Cur) :
    shO d (.ok (a, c)) = .ok (sh d a, c.shiftOff d) := rfl
@[simp] theorem shO_part {α : Type} [Shiftable α] (d : Nat) : shO d (.part : Outcome (α × Cur)) = .part := rfl
@[simp] theorem shO_err {α : Type} [Shiftable α] (d : Nat) (e : Error) :
    shO d (.err e : Outcome (α × Cur)) = .err e := rfl
@[simp] theorem shO_ub {α : Type} [Shiftable α] (d : Nat) (u : UB) :
    shO d (.ub u : Outcome (α × Cur)) = .ub u := rfl

/-- `f'` on the shifted cursor does what `f` does on the cursor, shifted -/
def ShRel {α : Type} [Shiftable α] (d : Nat) (f f' : P α) : Prop :=
  ∀ c, f'.run (c.shiftOff d) = shO d (f.run c)

section Comb
variable {α β : Type} [Shiftable α] [Shiftable β] {d : Nat}

theorem ShRel.pure (a : α) : ShRel d (pure a : P α) (pure (sh d a)) := fun _ => rfl
theorem ShRel.fail (e : Error) : ShRel d (P.fail e : P α) (P.fail e) := fun _ => rfl
theorem ShRel.partial_ : ShRel d (P.partial_ : P α) P.partial_ := fun _ => rfl
theorem ShRel.undefined (u : UB) : ShRel d (P.undefined u : P α) (P.undefined u) := fun _ => rfl

theorem ShRel.bind {f f' : P α} {g g' : α → P β} (hf : ShRel d f f')
    (hg : ∀ a, ShRel d (g a) (g' (sh d a))) : ShRel d (f >>= g) (f' >>= g') := by
  intro c
  simp only [run_bind, hf c]
  cases f.run c with
  | ok r => obtain ⟨a, c'⟩ := r; exact hg a c'
  | part => rfl
  | err e => rfl
  | ub u => rfl

theorem ShRel.ite {p : Prop} [Decidable p] {f f' g g' : P α} (hf : ShRel d f f') (hg : ShRel d g g') :
    ShRel d (if p then f else g) (if p then f' else g') := by
  split <;> assumption

theorem ShRel.peekIf (q : Byte → Bool) {f f' g g' : P α} (hf : ShRel d f f') (hg : ShRel d g g') :
    ShRel d (⟨fun c => match c.rest with
          | [] => .part
          | p :: _ => if q p then f.run c else g.run c⟩ : P α)
      (⟨fun c => match c.rest with
          | [] => .part
          | p :: _ => if q p then f'.run c else g'.run c⟩ : P α) := by
  intro c
  simp only [Cur.shiftOff_rest]
  split
  · rfl
  · split
    · exact hf c
    · exact hg c

end Comb

/-! ### primitives -/

theorem cur_eq {s s' : Nat} {t t' r r' : List Byte} (h1 : s = s') (h2 : t = t') (h3 : r = r') :
    (⟨s, t, r⟩ : Cur) = ⟨s', t', r'⟩ := by subst h1 h2 h3; rfl

theorem next_sh (d : Nat) : ShRel d next next := by
  intro c
  obtain ⟨s, t, r⟩ := c
  cases r <;> rfl

theorem slice_sh (d : Nat) : ShRel d slice slice := by
  intro c
  obtain ⟨s, t, r⟩ := c
  simp only [slice, run_mk, Cur.shiftOff, shO_ok, sh_slice, Slice.shift, Outcome.ok.injEq, Prod.mk.injEq,
    true_and]
  exact cur_eq (by omega) rfl rfl

theorem sliceSkip_sh (d k : Nat) : ShRel d (sliceSkip k) (sliceSkip k) := by
  intro c
  obtain ⟨s, t, r⟩ := c
  simp only [sliceSkip, run_mk, Cur.shiftOff]
  split
  · simp only [shO_ok, sh_slice, Slice.shift, Outcome.ok.injEq, Prod.mk.injEq, true_and, Cur.shiftOff]
    exact cur_eq (by omega) rfl rfl
  · rfl

theorem advance_sh (d n : Nat) : ShRel d (advance n) (advance n) := by
  intro c
  obtain ⟨s, t, r⟩ := c
  simp only [advance, run_mk, Cur.shiftOff]
  split <;> rfl

theorem scan_sh (d : Nat) (s : Scanner) : ShRel d (scan s) (scan s) := by
  intro c
  obtain ⟨st, t, r⟩ := c
  simp only [scan, run_mk, Cur.shiftOff]
  split
  · rfl
  · split <;> rfl

theorem scanNext_sh (d : Nat) (s : Scanner) : ShRel d (scanNext s) (scanNext s) :=
  ShRel.bind (scan_sh d s) fun _ => ShRel.bind (next_sh d) fun _ => ShRel.pure _

theorem expect_sh (d : Nat) (p : Byte → Bool) (e : Error) : ShRel d (expect p e) (expect p e) :=
  ShRel.bind (next_sh d) fun _ => ShRel.ite (ShRel.pure _) (ShRel.fail e)

theorem skipWsRun_sh (d : Nat) : ShRel d skipWsRun skipWsRun := fun _ => rfl

/-! ### one header line -/

theorem invalidLoop_sh (d : Nat) (e : Error) (start : Nat) (b : Byte) (tok rest : List Byte) :
    invalidLoop e (start + d) b tok rest = shO d (invalidLoop e start b tok rest) := by
  fun_induction invalidLoop e start b tok rest
  all_goals (rw [SA.invalidLoop_unfold e (start + d)]; simp_all [Cur.shiftOff])
  all_goals omega

theorem handleInvalid_sh (d : Nat) (hc : HCfg) (e : Error) (b : Byte) :
    ShRel d (handleInvalid hc e b) (handleInvalid hc e b) := by
  unfold handleInvalid
  refine ShRel.ite (ShRel.fail e) ?_
  intro c
  exact invalidLoop_sh d e c.start b c.tok c.rest

theorem sanLoop_sh (d : Nat) (start : Nat) (tok rest : List Byte) :
    sanLoop (start + d) tok rest = shO d (sanLoop start tok rest) := by
  fun_induction sanLoop start tok rest
  all_goals (rw [sanLoop]; simp_all [Cur.shiftOff])
  all_goals omega

theorem nameStage_sh (d : Nat) (be : Backend) (hc : HCfg) : ShRel d (nameStage be hc) (nameStage be hc) := by
  unfold nameStage
  refine ShRel.bind (scanNext_sh d _) ?_
  rintro ⟨n, b⟩
  simp only
  refine ShRel.bind (sliceSkip_sh d 1) fun name => ?_
  refine ShRel.ite (ShRel.pure _) (ShRel.ite ?_ ?_)
  · refine ShRel.bind (f' := ⟨fun c => sanLoop c.start c.tok c.rest⟩)
      (fun c => sanLoop_sh d c.start c.tok c.rest) fun r => ?_
    cases r with
    | none => exact ShRel.pure _
    | some b' => exact ShRel.bind (handleInvalid_sh d hc _ b') fun _ => ShRel.pure _
  · exact ShRel.bind (handleInvalid_sh d hc _ b) fun _ => ShRel.pure _

theorem wsAfterColon_sh (d : Nat) (hc : HCfg) : ∀ (rest : List Byte) (start : Nat) (tok : List Byte),
    wsAfterColon hc (start + d) tok rest = shO d (wsAfterColon hc start tok rest)
  | [], start, tok => by simp [wsAfterColon]
  | b :: r, start, tok => by
    rw [SA.wsAfterColon_cons hc (start + d) tok b r, SA.wsAfterColon_cons hc start tok b r]
    split
    · rw [Nat.add_right_comm]
      exact wsAfterColon_sh d hc r _ _
    · split
      · simp [Cur.shiftOff]
      · split
        · cases r with
          | nil => simp
          | cons b2 r2 =>
            simp only
            split
            · split
              · cases r2 with
                | nil => simp
                | cons p r3 =>
                  simp only
                  split
                  · exact wsAfterColon_sh d hc (p :: r3) _ _
                  · simp [Cur.shiftOff, Slice.shift]; omega
              · simp [Cur.shiftOff, Slice.shift]; omega
            · simp
        · split
          · split
            · cases r with
              | nil => simp
              | cons p r3 =>
                simp only
                split
                · exact wsAfterColon_sh d hc (p :: r3) _ _
                · simp [Cur.shiftOff, Slice.shift]; omega
            · simp [Cur.shiftOff, Slice.shift]; omega
          · have h := handleInvalid_sh d hc .headerValue b ⟨start, tok ++ [b], r⟩
            simp only [Cur.shiftOff] at h
            rw [h]
            cases (handleInvalid hc .headerValue b).run ⟨start, tok ++ [b], r⟩ with
            | ok p => obtain ⟨u, c1⟩ := p; simp [Cur.shiftOff]
            | part => simp
            | err e => simp
            | ub u => simp
termination_by rest => rest.length

theorem wsStage_sh (d : Nat) (hc : HCfg) :
    ShRel d (⟨fun c => wsAfterColon hc c.start c.tok c.rest⟩ : P WsRes)
      ⟨fun c => wsAfterColon hc c.start c.tok c.rest⟩ :=
  fun c => wsAfterColon_sh d hc c.rest c.start c.tok

theorem sliceSkip_some_sh (d k : Nat) :
    ShRel d (do let s ← sliceSkip k; pure (some s) : P (Option Slice)) (do let s ← sliceSkip k; pure (some s)) :=
  ShRel.bind (sliceSkip_sh d k) fun _ => ShRel.pure _

theorem valueLines_sh (d : Nat) (be : Backend) (hc : HCfg) :
    ∀ fuel, ShRel d (valueLines be hc fuel) (valueLines be hc fuel) := by
  intro fuel
  induction fuel with
  | zero => exact ShRel.undefined _
  | succ fuel ih =>
    rw [valueLines]
    refine ShRel.bind (scanNext_sh d _) ?_
    rintro ⟨n, b⟩
    simp only
    refine ShRel.ite ?_ (ShRel.ite ?_ ?_)
    · refine ShRel.bind (expect_sh d _ _) fun _ => ?_
      exact ShRel.ite (ShRel.peekIf isWs ih (sliceSkip_some_sh d 2)) (sliceSkip_some_sh d 2)
    · exact ShRel.ite (ShRel.peekIf isWs ih (sliceSkip_some_sh d 1)) (sliceSkip_some_sh d 1)
    · exact ShRel.bind (handleInvalid_sh d hc _ b) fun _ => ShRel.pure _

theorem valueStage_sh (d : Nat) (be : Backend) (hc : HCfg) :
    ShRel d (⟨fun c => (valueLines be hc (c.rest.length + 1)).run c⟩ : P (Option Slice))
      ⟨fun c => (valueLines be hc (c.rest.length + 1)).run c⟩ :=
  fun c => valueLines_sh d be hc (c.rest.length + 1) c

theorem headerLine_sh (d : Nat) (be : Backend) (hc : HCfg) (n : Nat) :
    ShRel d (headerLine be hc n) (headerLine be hc n) := by
  unfold headerLine
  refine ShRel.bind (next_sh d) fun b => ?_
  refine ShRel.ite (ShRel.bind (expect_sh d _ _) fun _ => ShRel.pure _)
    (ShRel.ite (ShRel.pure _) (ShRel.ite ?_ ?_))
  · refine ShRel.ite ?_ ?_
    · exact ShRel.bind (skipWsRun_sh d) fun _ => ShRel.bind (slice_sh d) fun _ => ShRel.pure _
    · exact ShRel.bind (handleInvalid_sh d hc _ b) fun _ => ShRel.pure _
  · refine ShRel.bind (nameStage_sh d be hc) fun nm => ?_
    cases nm with
    | none => exact ShRel.pure _
    | some name =>
      simp only [sh_some]
      refine ShRel.bind (wsStage_sh d hc) fun w => ?_
      cases w with
      | skipped => exact ShRel.pure _
      | empty v => exact ShRel.pure _
      | value =>
        simp only [sh_ws_value]
        refine ShRel.bind (valueStage_sh d be hc) fun v => ?_
        cases v with
        | none => exact ShRel.pure _
        | some v => exact ShRel.pure _

/-! ### the loop -/

theorem trimValue_shift (d : Nat) (v : Slice) : trimValue (v.shift d) = (trimValue v).shift d := by
  obtain ⟨off, bytes⟩ := v
  show trimValue ⟨off + d, bytes⟩ = (trimValue ⟨off, bytes⟩).shift d
  unfold trimValue
  dsimp only
  by_cases h : bytes.all isTrimWs = true
  · rw [if_pos h, if_pos h]; rfl
  · rw [if_neg h, if_neg h]; rfl

/-- the loop result with cursor and headers shifted -/
def shL (d : Nat) (r : Outcome Cur × List Hdr) : Outcome Cur × List Hdr :=
  (r.1.map (Cur.shiftOff d), r.2.map (Hdr.shift d))

theorem headersLoop_sh (d : Nat) (be : Backend) (hc : HCfg) (cap : Nat) :
    ∀ (fuel : Nat) (c : Cur) (hs : List Hdr),
      headersLoop be hc cap fuel (c.shiftOff d) (hs.map (Hdr.shift d)) = shL d (headersLoop be hc cap fuel c hs) := by
  intro fuel
  induction fuel with
  | zero => intro c hs; rfl
  | succ fuel ih =>
    intro c hs
    rw [headersLoop, headersLoop]
    have h := headerLine_sh d be hc hs.length c
    rw [List.length_map, h]
    cases (headerLine be hc hs.length).run c with
    | ok p =>
      obtain ⟨l, c'⟩ := p
      cases l with
      | eoh => rfl
      | skipped => exact ih c' hs
      | header n v =>
        simp only [shO_ok, sh_line_header]
        split
        · have := ih c' (hs ++ [⟨n, trimValue v⟩])
          simp only [List.map_append, List.map_cons, List.map_nil, Hdr.shift, ← trimValue_shift] at this
          exact this
        · rfl
    | part => rfl
    | err e => rfl
    | ub u => rfl

theorem parseHeadersIter_sh (d : Nat) (be : Backend) (hc : HCfg) (cap : Nat) (c : Cur) :
    parseHeadersIter be hc cap (c.shiftOff d) =
      ((parseHeadersIter be hc cap c).1.map (fun p => (p.1, p.2.shiftOff d)),
       (parseHeadersIter be hc cap c).2.map (Hdr.shift d)) := by
  have h := headersLoop_sh d be hc cap (c.rest.length + 1) c []
  unfold parseHeadersIter
  simp only [Cur.shiftOff_rest, List.map_nil] at h ⊢
  rw [h]
  generalize headersLoop be hc cap (c.rest.length + 1) c [] = r
  obtain ⟨o, hs⟩ := r
  cases o with
  | ok c' =>
    simp only [shL, Outcome.map, Cur.pos, Cur.shiftOff]
    congr 3
    omega
  | part => rfl
  | err e => rfl
  | ub u => rfl

end Hx
