/-
  Hx.Lemmas.Storage — the header storage law `chkC17` on the wrappers (C17, first part).
-/
import Hx.Lemmas.WrapBasic
namespace Hx

theorem slotsAll_iff (p : Nat → SlotO → Bool) (l : List SlotO) :
    slotsAll p l = true ↔ ∀ i s, l[i]? = some s → p i s = true := by
  unfold slotsAll
  rw [List.all_eq_true]
  constructor
  · intro h i s hi
    exact h (s, i) (List.mem_zipIdx_iff_getElem?.2 hi)
  · rintro h ⟨s, i⟩ hm
    exact h i s (List.mem_zipIdx_iff_getElem?.1 hm)

/-- the slots of a sentinel array after a call wrote `hs` -/
theorem writeO_getElem? (base cap : Nat) (hs : List Hdr) (i : Nat) (s : SlotO)
    (h : ((Arr.write (sentinels base cap) hs).map SlotO.ofSlot)[i]? = some s) :
    (∃ hd, hs[i]? = some hd ∧ s = .hdr (HdrO.ofHdr hd)) ∨ (hs.length ≤ i ∧ i < cap ∧ s = .sent (base + i)) := by
  unfold Arr.write sentinels at h
  rw [List.getElem?_map, List.getElem?_append] at h
  split at h
  · rename_i hlt
    rw [List.length_map] at hlt
    left
    rw [List.getElem?_map] at h
    rw [List.getElem?_eq_getElem hlt] at h ⊢
    simp only [Option.map_some, Option.some.injEq, SlotO.ofSlot] at h
    exact ⟨_, rfl, h.symm⟩
  · rename_i hge
    simp only [List.length_map] at hge h
    right
    rw [List.getElem?_drop, List.getElem?_map] at h
    have hi : hs.length + (i - hs.length) = i := by omega
    rw [hi] at h
    by_cases hc : i < cap
    · rw [List.getElem?_range hc] at h
      simp only [Option.map_some, Option.some.injEq, SlotO.ofSlot] at h
      exact ⟨by omega, hc, h.symm⟩
    · rw [List.getElem?_eq_none (by simp; omega)] at h
      simp at h

theorem sentO_getElem? (base cap : Nat) (i : Nat) (s : SlotO)
    (h : ((sentinels base cap).map SlotO.ofSlot)[i]? = some s) : i < cap ∧ s = .sent (base + i) := by
  have := writeO_getElem? base cap [] i s (by simpa [Arr.write] using h)
  rcases this with ⟨hd, h1, _⟩ | ⟨_, h2, h3⟩
  · simp at h1
  · exact ⟨h2, h3⟩

theorem writeO_length (base cap : Nat) (hs : List Hdr) (hle : hs.length ≤ cap) :
    ((Arr.write (sentinels base cap) hs).map SlotO.ofSlot).length = cap := by
  simp [Arr.write, sentinels]
  omega

theorem sentO_length (base cap : Nat) : ((sentinels base cap).map SlotO.ofSlot).length = cap := by
  simp [sentinels]

theorem slotsAll_write_sentOrHdr (base cap : Nat) (hs : List Hdr) :
    slotsAll (fun i s => s.isSentOrHdr base i) ((Arr.write (sentinels base cap) hs).map SlotO.ofSlot) = true := by
  rw [slotsAll_iff]
  intro i s h
  rcases writeO_getElem? base cap hs i s h with ⟨hd, _, rfl⟩ | ⟨_, _, rfl⟩
  · rfl
  · simp [SlotO.isSentOrHdr]

theorem slotsAll_sent_sentOrHdr (base cap : Nat) :
    slotsAll (fun i s => s.isSentOrHdr base i) ((sentinels base cap).map SlotO.ofSlot) = true := by
  rw [slotsAll_iff]
  intro i s h
  obtain ⟨_, rfl⟩ := sentO_getElem? base cap i s h
  simp [SlotO.isSentOrHdr]

theorem slotsAll_sent_eq (cap : Nat) :
    slotsAll (fun i s => s == .sent i) ((sentinels 0 cap).map SlotO.ofSlot) = true := by
  rw [slotsAll_iff]
  intro i s h
  obtain ⟨_, rfl⟩ := sentO_getElem? 0 cap i s h
  simp

theorem slotsAll_nil (p : Nat → SlotO → Bool) : slotsAll p [] = true := rfl

/-- on Complete: slots below the view are the exposed headers, slots beyond keep their sentinel -/
theorem slotsAll_write_complete (base cap : Nat) (hs : List Hdr) (p : Nat → SlotO → Bool)
    (hp1 : ∀ i hd, hs[i]? = some hd → p i (.hdr (HdrO.ofHdr hd)) = true)
    (hp2 : ∀ i, hs.length ≤ i → p i (.sent (base + i)) = true) :
    slotsAll p ((Arr.write (sentinels base cap) hs).map SlotO.ofSlot) = true := by
  rw [slotsAll_iff]
  intro i s h
  rcases writeO_getElem? base cap hs i s h with ⟨hd, h1, rfl⟩ | ⟨h1, _, rfl⟩
  · exact hp1 i hd h1
  · exact hp2 i h1

theorem complete_hdr (hs : List Hdr) (i : Nat) (hd : Hdr) (h : hs[i]? = some hd) :
    i < hs.length ∧ (hs.map HdrO.ofHdr)[i]? = some (HdrO.ofHdr hd) := by
  obtain ⟨hlt, rfl⟩ := List.getElem?_eq_some_iff.1 h
  exact ⟨hlt, by simp [List.getElem?_map, List.getElem?_eq_getElem hlt]⟩

/-- the storage law for the initialised-array entry point of any core -/
theorem chkC17_callInit {V : Type} (spans : V → List Sp) (nums : V → List (Option Nat))
    (core : Nat → V → Res V) (v : V) (cap : Nat)
    (hle : (core cap v).hdrs.length ≤ cap) (hub : ∀ u, (core cap v).status ≠ .ub u) :
    chkC17 true cap 0 (Obs.ofCall spans nums (callInit core ⟨v, cap⟩ (sentinels 0 cap)) true []) = true := by
  unfold chkC17
  rw [ofCall_hdrs_eq]
  unfold callInit
  dsimp only
  generalize core cap v = r at hle hub
  obtain ⟨st, val, hs⟩ := r
  simp only at hle hub
  have h1 := writeO_length 0 cap hs hle
  have h2 := slotsAll_write_sentOrHdr 0 cap hs
  cases st with
  | ok m =>
    simp only [St.ofOutcome, St.isC, if_true, take_write]
    simp only [Obs.ofCall, St.ofOutcome, if_true, h1, h2, List.map_nil, slotsAll_nil, List.length_nil,
      List.length_map, Bool.true_or, Bool.and_true, beq_self_eq_true, Bool.true_and, St.isC]
    rw [Bool.and_eq_true]
    refine ⟨by by_cases h0 : hs.length = 0 <;> simp [h0], slotsAll_write_complete _ _ _ _ ?_ ?_⟩
    · intro i hd hi
      obtain ⟨g1, g2⟩ := complete_hdr hs i hd hi
      simp only [g1, if_true, g2]
      simp
    · intro i hi
      have : ¬ i < hs.length := by omega
      simp [this]
  | part =>
    simp only [Obs.ofCall, St.ofOutcome, if_true, h1, h2, List.map_nil, slotsAll_nil, List.length_nil,
      Bool.true_or, Bool.and_true, beq_self_eq_true, Bool.true_and]
    by_cases h0 : cap = 0 <;> simp [h0]
  | err e =>
    simp only [Obs.ofCall, St.ofOutcome, if_true, h1, h2, List.map_nil, slotsAll_nil, List.length_nil,
      Bool.true_or, Bool.and_true, beq_self_eq_true, Bool.true_and]
    by_cases h0 : cap = 0 <;> simp [h0]
  | ub u => exact absurd rfl (hub u)

/-- the storage law for the uninitialised-array entry point of any core -/
theorem chkC17_callUninit {V : Type} (spans : V → List Sp) (nums : V → List (Option Nat))
    (core : Nat → V → Res V) (v : V) (acap ucap : Nat)
    (hle : (core ucap v).hdrs.length ≤ ucap) (hub : ∀ u, (core ucap v).status ≠ .ub u) :
    chkC17 false acap ucap (Obs.ofCall spans nums (callUninit core ⟨v, acap⟩ ucap (sentinels 1000 ucap))
      false (sentinels 0 acap)) = true := by
  unfold chkC17
  rw [ofCall_hdrs_eq]
  unfold callUninit
  dsimp only
  generalize core ucap v = r at hle hub
  obtain ⟨st, val, hs⟩ := r
  simp only at hle hub
  have h1 := writeO_length 1000 ucap hs hle
  have h2 := slotsAll_write_sentOrHdr 1000 ucap hs
  have h4 := sentO_length 0 acap
  have h5 := slotsAll_sent_sentOrHdr 0 acap
  have h6 := slotsAll_sent_eq acap
  cases st with
  | ok m =>
    simp only [St.ofOutcome, St.isC, if_true, take_write]
    simp only [Obs.ofCall, St.ofOutcome, h1, h2, h4, h5, h6, List.length_map,
      Bool.and_true, beq_self_eq_true, Bool.true_and, St.isC, Bool.false_eq_true, if_false,
      Bool.false_or, Bool.not_true]
    rw [Bool.and_eq_true]
    refine ⟨by by_cases h0 : hs.length = 0 <;> simp [h0], slotsAll_write_complete _ _ _ _ ?_ ?_⟩
    · intro i hd hi
      obtain ⟨g1, g2⟩ := complete_hdr hs i hd hi
      simp only [g1, if_true, g2]
      simp
    · intro i hi
      have : ¬ i < hs.length := by omega
      simp [this]
  | part =>
    simp only [Obs.ofCall, St.ofOutcome, h1, h2, h4, h5, h6, Bool.and_true, beq_self_eq_true,
      Bool.true_and, St.isC, Bool.false_eq_true, if_false, Bool.false_or, Bool.not_false]
    by_cases h0 : acap = 0 <;> simp [h0]
  | err e =>
    simp only [Obs.ofCall, St.ofOutcome, h1, h2, h4, h5, h6, Bool.and_true, beq_self_eq_true,
      Bool.true_and, St.isC, Bool.false_eq_true, if_false, Bool.false_or, Bool.not_false]
    by_cases h0 : acap = 0 <;> simp [h0]
  | ub u => exact absurd rfl (hub u)

theorem chkC17_reqObs (be : Backend) (hbe : be.Exact) (cfg : Config) (cap : Nat) (buf : List Byte) :
    chkC17 true cap 0 (reqObs be cfg cap buf) = true :=
  chkC17_callInit _ _ _ _ _ (reqCore_hdrs_le be cfg cap buf _) (reqCore_no_ub be hbe cfg cap buf _)

theorem chkC17_respObs (be : Backend) (hbe : be.Exact) (cfg : Config) (cap : Nat) (buf : List Byte) :
    chkC17 true cap 0 (respObs be cfg cap buf) = true :=
  chkC17_callInit _ _ _ _ _ (respCore_hdrs_le be cfg cap buf _) (respCore_no_ub be hbe cfg cap buf _)

theorem chkC17_reqObsU (be : Backend) (hbe : be.Exact) (cfg : Config) (acap ucap : Nat) (buf : List Byte) :
    chkC17 false acap ucap (reqObsU be cfg acap ucap buf) = true :=
  chkC17_callUninit _ _ _ _ _ _ (reqCore_hdrs_le be cfg ucap buf _) (reqCore_no_ub be hbe cfg ucap buf _)

theorem chkC17_respObsU (be : Backend) (hbe : be.Exact) (cfg : Config) (acap ucap : Nat) (buf : List Byte) :
    chkC17 false acap ucap (respObsU be cfg acap ucap buf) = true :=
  chkC17_callUninit _ _ _ _ _ _ (respCore_hdrs_le be cfg ucap buf _) (respCore_no_ub be hbe cfg ucap buf _)

end Hx
