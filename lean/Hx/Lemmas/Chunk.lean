/-
  Hx.Lemmas.Chunk — proofs behind C09 (`Hx/Props/C09.lean`).

  Plan: byte-class tables; `chunkDigit` never overflows under the loop invariant; one-step
  unfolding lemmas of `chunkLoop` per phase (digits / whitespace / extension); per-phase
  characterisations of `ok` and `part`; generic facts (no `ub`, error kind, monotonicity under
  appended input); assembly.
-/
import Hx.Parse.Chunk
import Hx.Spec.ChunkSpec
import Hx.Spec.Framing
import Hx.Lemmas.Basic
namespace Hx

-- equality of outcomes is decidable (used by the closed `decide` examples of `Hx/Props/C09.lean`)

/-! ### byte tables -/

theorem hexDigitVal_lt (b : Byte) : hexDigitVal b < 16 := by
  have h := allBytesB_spec (f := fun b => decide (hexDigitVal b < 16)) (by decide +kernel)
  simpa using h b

theorem isHex_not_sep {b : Byte} (h : isHex b = true) : b ≠ CR ∧ b ≠ SEMI ∧ isWs b = false := by
  have t := allBytesB_spec
    (f := fun b => !isHex b || (b != CR && b != SEMI && !isWs b)) (by decide +kernel)
  have := t b
  simp [h] at this
  simpa [and_assoc] using this

theorem isWs_not_sep {b : Byte} (h : isWs b = true) : b ≠ CR ∧ b ≠ SEMI ∧ isHex b = false := by
  have t := allBytesB_spec
    (f := fun b => !isWs b || (b != CR && b != SEMI && !isHex b)) (by decide +kernel)
  have := t b
  simp [h] at this
  simpa [and_assoc] using this

theorem digit_arm1 {b : Byte} (h : isDigit b = true) : b.toNat - 0x30 = hexDigitVal b := by
  have t := allBytesB_spec
    (f := fun b => !isDigit b || (b.toNat - 0x30 == hexDigitVal b)) (by decide +kernel)
  have := t b
  simpa [h] using this

theorem digit_arm2 {b : Byte} (h : (decide (0x61 ≤ b) && decide (b ≤ 0x66)) = true) :
    b.toNat + 10 - 0x61 = hexDigitVal b := by
  have t := allBytesB_spec
    (f := fun b => !(decide (0x61 ≤ b) && decide (b ≤ 0x66)) || (b.toNat + 10 - 0x61 == hexDigitVal b))
    (by decide +kernel)
  have := t b
  simpa [h] using this

theorem digit_arm3 {b : Byte} (h : (decide (0x41 ≤ b) && decide (b ≤ 0x46)) = true) :
    b.toNat + 10 - 0x41 = hexDigitVal b := by
  have t := allBytesB_spec
    (f := fun b => !(decide (0x41 ≤ b) && decide (b ≤ 0x46)) || (b.toNat + 10 - 0x41 == hexDigitVal b))
    (by decide +kernel)
  have := t b
  simpa [h] using this

theorem isHex_CR : isHex CR = false := by decide
theorem isHex_SEMI : isHex SEMI = false := by decide
theorem isWs_CR : isWs CR = false := by decide
theorem isWs_SEMI : isWs SEMI = false := by decide
theorem SEMI_ne_CR : SEMI ≠ CR := by decide
theorem LF_ne_CR : LF ≠ CR := by decide

/-! ### `chunkDigit` under the loop invariant -/

theorem chunkDigit_eq (dbg : Bool) {count size d : Nat}
    (hs : size < 16 ^ count) (hd : d < 16) :
    chunkDigit dbg count size d =
      if count > 15 then .err .chunkSize else .ok (count + 1, size * 16 + d) := by
  unfold chunkDigit
  by_cases hc : count > 15
  · simp [hc]
  · have hc' : count ≤ 15 := by omega
    have hp : 16 ^ count ≤ 16 ^ 15 := Nat.pow_le_pow_right (by decide) hc'
    have h15 : (16 : Nat) ^ 15 = 1152921504606846976 := by decide
    have hs' : size < 1152921504606846976 := by omega
    have hm : U64_MAX = 18446744073709551615 := by decide
    have h1 : ¬ size > U64_MAX / 16 := by rw [hm]; omega
    have h2 : ¬ size * 16 + d > U64_MAX := by rw [hm]; omega
    simp [hc, h1, h2]

/-! ### one-step unfoldings -/

/-- the shared continuation of the three digit arms -/
def digitK (dbg : Bool) (pos : Nat) (i e : Bool) (r : List Byte) :
    Outcome (Nat × Nat) → Outcome (Nat × Nat)
  | .ok (count, size) => chunkLoop dbg (pos + 1) size count i e r
  | .part => .part | .err e => .err e | .ub u => .ub u

/-- what happens at a CR -/
def afterCr (pos size : Nat) : List Byte → Outcome (Nat × Nat)
  | [] => .part
  | b2 :: _ => if b2 == LF then .ok (pos + 2, size) else .err .chunkSize

theorem loop_nil (dbg : Bool) (pos size count : Nat) (i e : Bool) :
    chunkLoop dbg pos size count i e [] = .part := by
  simp [chunkLoop]

theorem loop_cons (dbg : Bool) (pos size count : Nat) (inSize inExt : Bool) (b : Byte) (r : List Byte) :
    chunkLoop dbg pos size count inSize inExt (b :: r) =
    if isDigit b && inSize then
      digitK dbg pos inSize inExt r (chunkDigit dbg count size (b.toNat - 0x30))
    else if (0x61 ≤ b && b ≤ 0x66) && inSize then
      digitK dbg pos inSize inExt r (chunkDigit dbg count size (b.toNat + 10 - 0x61))
    else if (0x41 ≤ b && b ≤ 0x46) && inSize then
      digitK dbg pos inSize inExt r (chunkDigit dbg count size (b.toNat + 10 - 0x41))
    else if count == 0 then .err .chunkSize
    else if b == CR then afterCr pos size r
    else if b == SEMI && !inExt then chunkLoop dbg (pos + 1) size count false true r
    else if isWs b && !inExt && !inSize then chunkLoop dbg (pos + 1) size count inSize inExt r
    else if isWs b && inSize then chunkLoop dbg (pos + 1) size count false inExt r
    else if inExt then chunkLoop dbg (pos + 1) size count inSize inExt r
    else .err .chunkSize := by
  cases r <;> (simp only [chunkLoop, afterCr, digitK]; rfl)

theorem digitK_eq (dbg : Bool) (pos : Nat) (i e : Bool) (r : List Byte) {count size d : Nat}
    (hs : size < 16 ^ count) (hd : d < 16) :
    digitK dbg pos i e r (chunkDigit dbg count size d) =
      if count > 15 then .err .chunkSize
      else chunkLoop dbg (pos + 1) (size * 16 + d) (count + 1) i e r := by
  rw [chunkDigit_eq dbg hs hd]
  by_cases hc : count > 15 <;> simp [hc, digitK]

theorem isHex_cases {b : Byte} (hb : isHex b = true) :
    isDigit b = true ∨ (decide (0x61 ≤ b) && decide (b ≤ 0x66)) = true ∨
      (decide (0x41 ≤ b) && decide (b ≤ 0x46)) = true := by
  simp only [isHex, Bool.or_eq_true] at hb
  rcases hb with (hb | hb) | hb
  · exact Or.inl hb
  · exact Or.inr (Or.inl hb)
  · exact Or.inr (Or.inr hb)

theorem isHex_false {b : Byte} (hb : isHex b = false) :
    isDigit b = false ∧ (decide (0x61 ≤ b) && decide (b ≤ 0x66)) = false ∧
      (decide (0x41 ≤ b) && decide (b ≤ 0x46)) = false := by
  simp only [isHex, Bool.or_eq_false_iff] at hb
  exact ⟨hb.1.1, hb.1.2, hb.2⟩

/-- digits phase, hex digit -/
theorem digits_step_hex (dbg : Bool) (pos size count : Nat) (b : Byte) (r : List Byte)
    (hb : isHex b = true) (hs : size < 16 ^ count) :
    chunkLoop dbg pos size count true false (b :: r) =
      if count > 15 then .err .chunkSize
      else chunkLoop dbg (pos + 1) (size * 16 + hexDigitVal b) (count + 1) true false r := by
  have hd := hexDigitVal_lt b
  rw [loop_cons]
  by_cases h1 : isDigit b = true
  · simp only [h1, Bool.and_self, if_true]
    rw [digit_arm1 h1, digitK_eq dbg pos true false r hs hd]
  · by_cases h2 : (decide (0x61 ≤ b) && decide (b ≤ 0x66)) = true
    · simp only [h1, h2, Bool.and_self, Bool.false_and, if_true]
      rw [digit_arm2 h2, digitK_eq dbg pos true false r hs hd]
      simp
    · have h3 : (decide (0x41 ≤ b) && decide (b ≤ 0x46)) = true := by
        rcases isHex_cases hb with h | h | h
        · exact absurd h h1
        · exact absurd h h2
        · exact h
      simp only [h1, h2, h3, Bool.and_self, Bool.false_and, if_true]
      rw [digit_arm3 h3, digitK_eq dbg pos true false r hs hd]
      simp

/-- ws phase -/
theorem ws_step (dbg : Bool) (pos size count : Nat) (b : Byte) (r : List Byte) (hc : 0 < count) :
    chunkLoop dbg pos size count false false (b :: r) =
      if b = CR then afterCr pos size r
      else if b = SEMI then chunkLoop dbg (pos + 1) size count false true r
      else if isWs b = true then chunkLoop dbg (pos + 1) size count false false r
      else .err .chunkSize := by
  rw [loop_cons]
  have : (count == 0) = false := by simp; omega
  simp [this]

/-- digits phase, non-hex byte after at least one digit: behaves as the ws phase -/
theorem digits_step_nonhex (dbg : Bool) (pos size count : Nat) (b : Byte) (r : List Byte)
    (hb : isHex b = false) (hc : 0 < count) :
    chunkLoop dbg pos size count true false (b :: r) =
      chunkLoop dbg pos size count false false (b :: r) := by
  rw [ws_step dbg pos size count b r hc, loop_cons]
  obtain ⟨h1, h2, h3⟩ := isHex_false hb
  have : (count == 0) = false := by simp; omega
  simp [this, h1, h2, h3]

/-- digits phase, non-hex byte with no digit yet -/
theorem digits_step_zero (dbg : Bool) (pos size : Nat) (b : Byte) (r : List Byte)
    (hb : isHex b = false) :
    chunkLoop dbg pos size 0 true false (b :: r) = .err .chunkSize := by
  rw [loop_cons]
  obtain ⟨h1, h2, h3⟩ := isHex_false hb
  simp [h1, h2, h3]

/-- ext phase -/
theorem ext_step (dbg : Bool) (pos size count : Nat) (b : Byte) (r : List Byte) (hc : 0 < count) :
    chunkLoop dbg pos size count false true (b :: r) =
      if b = CR then afterCr pos size r
      else chunkLoop dbg (pos + 1) size count false true r := by
  rw [loop_cons]
  have : (count == 0) = false := by simp; omega
  simp [this]

/-! ### per-phase characterisations of `ok` and `part` -/

/-- `IsChunkLine.ext_shape` -/
def ExtShape (ext : List Byte) : Prop := ext = [] ∨ ∃ e, ext = SEMI :: e ∧ CR ∉ e

theorem afterCr_ok (pos size n s : Nat) (r : List Byte) :
    afterCr pos size r = .ok (n, s) ↔ ∃ rest, r = LF :: rest ∧ n = pos + 2 ∧ s = size := by
  cases r with
  | nil => simp [afterCr]
  | cons b2 r' =>
    by_cases h : b2 = LF
    · subst h; simp [afterCr]; constructor <;> (rintro ⟨rfl, rfl⟩; exact ⟨rfl, rfl⟩)
    · simp [afterCr, h]

theorem afterCr_part (pos size : Nat) (r : List Byte) :
    afterCr pos size r = .part ↔ r = [] := by
  cases r with
  | nil => simp [afterCr]
  | cons b2 r' => by_cases h : b2 = LF <;> simp [afterCr, h]

theorem ext_ok (dbg : Bool) (l : List Byte) : ∀ (pos size count : Nat), 0 < count → ∀ n s,
    (chunkLoop dbg pos size count false true l = .ok (n, s) ↔
      ∃ e rest, l = e ++ CR :: LF :: rest ∧ CR ∉ e ∧ n = pos + e.length + 2 ∧ s = size) := by
  induction l with
  | nil => intro pos size count hc n s; simp [loop_nil]
  | cons b r ih =>
    intro pos size count hc n s
    rw [ext_step dbg pos size count b r hc]
    by_cases hb : b = CR
    · subst hb
      simp only [if_true, afterCr_ok]
      constructor
      · rintro ⟨rest, rfl, rfl, rfl⟩
        exact ⟨[], rest, rfl, by simp, rfl, rfl⟩
      · rintro ⟨e, rest, h, hne, rfl, rfl⟩
        cases e with
        | nil => simp at h; exact ⟨rest, h, rfl, rfl⟩
        | cons x e' => simp at h; simp [h.1] at hne
    · simp only [hb, if_false]
      rw [ih (pos + 1) size count hc n s]
      constructor
      · rintro ⟨e, rest, rfl, hne, rfl, rfl⟩
        exact ⟨b :: e, rest, rfl, by simp [hne, Ne.symm hb], by simp; omega, rfl⟩
      · rintro ⟨e, rest, h, hne, rfl, rfl⟩
        cases e with
        | nil => simp at h; exact absurd h.1 hb
        | cons x e' =>
          simp at h hne
          exact ⟨e', rest, h.2, hne.2, by simp; omega, rfl⟩

theorem ext_part (dbg : Bool) (l : List Byte) : ∀ (pos size count : Nat), 0 < count →
    (chunkLoop dbg pos size count false true l = .part ↔
      ∃ e tail, tail ≠ [] ∧ l ++ tail = e ++ [CR, LF] ∧ CR ∉ e) := by
  induction l with
  | nil =>
    intro pos size count hc
    simp only [loop_nil, true_iff]
    exact ⟨[], [CR, LF], by simp, rfl, by simp⟩
  | cons b r ih =>
    intro pos size count hc
    rw [ext_step dbg pos size count b r hc]
    by_cases hb : b = CR
    · subst hb
      simp only [if_true, afterCr_part]
      constructor
      · rintro rfl
        exact ⟨[], [LF], by simp, rfl, by simp⟩
      · rintro ⟨e, tail, ht, h, hne⟩
        cases e with
        | nil =>
          cases r with
          | nil => rfl
          | cons y r' => simp at h; exact absurd h.2.2 ht
        | cons x e' => simp at h; simp [h.1] at hne
    · simp only [hb, if_false]
      rw [ih (pos + 1) size count hc]
      constructor
      · rintro ⟨e, tail, ht, h, hne⟩
        exact ⟨b :: e, tail, ht, by simp [h], by simp [hne, Ne.symm hb]⟩
      · rintro ⟨e, tail, ht, h, hne⟩
        cases e with
        | nil => simp at h; exact absurd h.1 hb
        | cons x e' =>
          simp at h hne
          exact ⟨e', tail, ht, by simp [h.2], hne.2⟩

theorem ws_ok (dbg : Bool) (l : List Byte) : ∀ (pos size count : Nat), 0 < count → ∀ n s,
    (chunkLoop dbg pos size count false false l = .ok (n, s) ↔
      ∃ W E rest, l = W ++ E ++ CR :: LF :: rest ∧ (∀ w ∈ W, isWs w = true) ∧ ExtShape E ∧
        n = pos + W.length + E.length + 2 ∧ s = size) := by
  induction l with
  | nil => intro pos size count hc n s; simp [loop_nil]
  | cons b r ih =>
    intro pos size count hc n s
    rw [ws_step dbg pos size count b r hc]
    by_cases hb : b = CR
    · subst hb
      simp only [if_true, afterCr_ok]
      constructor
      · rintro ⟨rest, rfl, rfl, rfl⟩
        exact ⟨[], [], rest, rfl, by simp, Or.inl rfl, rfl, rfl⟩
      · rintro ⟨W, E, rest, h, hW, hE, rfl, rfl⟩
        cases W with
        | cons w W' =>
          simp at h; have := hW w (by simp); rw [← h.1, isWs_CR] at this; cases this
        | nil =>
          rcases hE with rfl | ⟨e, rfl, hne⟩
          · simp at h; exact ⟨rest, h, rfl, rfl⟩
          · simp at h; exact absurd h.1.symm SEMI_ne_CR
    · simp only [hb, if_false]
      by_cases hs : b = SEMI
      · subst hs
        simp only [if_true]
        rw [ext_ok dbg r (pos + 1) size count hc n s]
        constructor
        · rintro ⟨e, rest, rfl, hne, rfl, rfl⟩
          exact ⟨[], SEMI :: e, rest, rfl, by simp, Or.inr ⟨e, rfl, hne⟩, by simp; omega, rfl⟩
        · rintro ⟨W, E, rest, h, hW, hE, rfl, rfl⟩
          cases W with
          | cons w W' =>
            simp at h; have := hW w (by simp); rw [← h.1, isWs_SEMI] at this; cases this
          | nil =>
            rcases hE with rfl | ⟨e, rfl, hne⟩
            · simp at h; exact absurd h.1 SEMI_ne_CR
            · simp at h; exact ⟨e, rest, h, hne, by simp; omega, rfl⟩
      · simp only [hs, if_false]
        by_cases hw : isWs b = true
        · simp only [hw, if_true]
          rw [ih (pos + 1) size count hc n s]
          constructor
          · rintro ⟨W, E, rest, rfl, hW, hE, rfl, rfl⟩
            refine ⟨b :: W, E, rest, rfl, ?_, hE, by simp; omega, rfl⟩
            intro w hw'; rcases List.mem_cons.1 hw' with rfl | h
            · exact hw
            · exact hW w h
          · rintro ⟨W, E, rest, h, hW, hE, rfl, rfl⟩
            cases W with
            | cons w W' =>
              simp at h
              exact ⟨W', E, rest, by simp [h.2], fun w hw' => hW w (by simp [hw']), hE,
                by simp; omega, rfl⟩
            | nil =>
              rcases hE with rfl | ⟨e, rfl, hne⟩
              · simp at h; exact absurd h.1 hb
              · simp at h; exact absurd h.1 hs
        · simp only [hw]
          constructor
          · intro h; cases h
          · rintro ⟨W, E, rest, h, hW, hE, rfl, rfl⟩
            exfalso
            cases W with
            | cons w W' =>
              simp at h; exact hw (h.1 ▸ hW w (by simp))
            | nil =>
              rcases hE with rfl | ⟨e, rfl, hne⟩
              · simp at h; exact absurd h.1 hb
              · simp at h; exact absurd h.1 hs

theorem ws_part (dbg : Bool) (l : List Byte) : ∀ (pos size count : Nat), 0 < count →
    (chunkLoop dbg pos size count false false l = .part ↔
      ∃ W E tail, tail ≠ [] ∧ l ++ tail = W ++ E ++ [CR, LF] ∧ (∀ w ∈ W, isWs w = true) ∧
        ExtShape E) := by
  induction l with
  | nil =>
    intro pos size count hc
    simp only [loop_nil, true_iff]
    exact ⟨[], [], [CR, LF], by simp, rfl, by simp, Or.inl rfl⟩
  | cons b r ih =>
    intro pos size count hc
    rw [ws_step dbg pos size count b r hc]
    by_cases hb : b = CR
    · subst hb
      simp only [if_true, afterCr_part]
      constructor
      · rintro rfl
        exact ⟨[], [], [LF], by simp, rfl, by simp, Or.inl rfl⟩
      · rintro ⟨W, E, tail, ht, h, hW, hE⟩
        cases W with
        | cons w W' =>
          simp at h; have := hW w (by simp); rw [← h.1, isWs_CR] at this; cases this
        | nil =>
          rcases hE with rfl | ⟨e, rfl, hne⟩
          · cases r with
            | nil => rfl
            | cons y r' => simp at h; exact absurd h.2.2 ht
          · simp at h; exact absurd h.1.symm SEMI_ne_CR
    · simp only [hb, if_false]
      by_cases hs : b = SEMI
      · subst hs
        simp only [if_true]
        rw [ext_part dbg r (pos + 1) size count hc]
        constructor
        · rintro ⟨e, tail, ht, h, hne⟩
          exact ⟨[], SEMI :: e, tail, ht, by simp [h], by simp, Or.inr ⟨e, rfl, hne⟩⟩
        · rintro ⟨W, E, tail, ht, h, hW, hE⟩
          cases W with
          | cons w W' =>
            simp at h; have := hW w (by simp); rw [← h.1, isWs_SEMI] at this; cases this
          | nil =>
            rcases hE with rfl | ⟨e, rfl, hne⟩
            · simp at h; exact absurd h.1 SEMI_ne_CR
            · simp at h; exact ⟨e, tail, ht, by simp [h], hne⟩
      · simp only [hs, if_false]
        by_cases hw : isWs b = true
        · simp only [hw, if_true]
          rw [ih (pos + 1) size count hc]
          constructor
          · rintro ⟨W, E, tail, ht, h, hW, hE⟩
            refine ⟨b :: W, E, tail, ht, by simp [h], ?_, hE⟩
            intro w hw'; rcases List.mem_cons.1 hw' with rfl | h
            · exact hw
            · exact hW w h
          · rintro ⟨W, E, tail, ht, h, hW, hE⟩
            cases W with
            | cons w W' =>
              simp at h
              exact ⟨W', E, tail, ht, by simp [h.2], fun w hw' => hW w (by simp [hw']), hE⟩
            | nil =>
              rcases hE with rfl | ⟨e, rfl, hne⟩
              · simp at h; exact absurd h.1 hb
              · simp at h; exact absurd h.1 hs
        · simp only [hw]
          constructor
          · intro h; cases h
          · rintro ⟨W, E, tail, ht, h, hW, hE⟩
            exfalso
            cases W with
            | cons w W' =>
              simp at h; exact hw (h.1 ▸ hW w (by simp))
            | nil =>
              rcases hE with rfl | ⟨e, rfl, hne⟩
              · simp at h; exact absurd h.1 hb
              · simp at h; exact absurd h.1 hs

/-- the first byte of `ws ext CR …` is not a hex digit -/
theorem head_nonhex {b : Byte} {x W E y : List Byte} (h : b :: x = W ++ E ++ CR :: y)
    (hW : ∀ w ∈ W, isWs w = true) (hE : ExtShape E) : isHex b = false := by
  cases W with
  | cons w W' =>
    simp at h; rw [h.1]; exact (isWs_not_sep (hW w (by simp))).2.2
  | nil =>
    rcases hE with rfl | ⟨e, rfl, hne⟩
    · simp at h; rw [h.1]; exact isHex_CR
    · simp at h; rw [h.1]; exact isHex_SEMI

def hexFold (acc : Nat) (ds : List Byte) : Nat := ds.foldl (fun acc d => acc * 16 + hexDigitVal d) acc

theorem hexVal_eq (ds : List Byte) : hexVal ds = hexFold 0 ds := rfl

theorem inv_step {size count : Nat} (b : Byte) (hs : size < 16 ^ count) :
    size * 16 + hexDigitVal b < 16 ^ (count + 1) := by
  have := hexDigitVal_lt b
  rw [Nat.pow_succ]; omega

theorem digits_ok (dbg : Bool) (l : List Byte) : ∀ (pos size count : Nat), size < 16 ^ count → count ≤ 16 → ∀ n s,
    (chunkLoop dbg pos size count true false l = .ok (n, s) ↔
      ∃ D W E rest, l = D ++ W ++ E ++ CR :: LF :: rest ∧ (∀ d ∈ D, isHex d = true) ∧
        0 < count + D.length ∧ count + D.length ≤ 16 ∧ (∀ w ∈ W, isWs w = true) ∧ ExtShape E ∧
        n = pos + D.length + W.length + E.length + 2 ∧ s = hexFold size D) := by
  induction l with
  | nil => intro pos size count hs hle n s; simp [loop_nil]
  | cons b r ih =>
    intro pos size count hs hle n s
    by_cases hb : isHex b = true
    · rw [digits_step_hex dbg pos size count b r hb hs]
      by_cases hc : count > 15
      · simp only [hc, if_true]
        constructor
        · intro h; cases h
        · rintro ⟨D, W, E, rest, h, hD, h0, h16, hW, hE, rfl, rfl⟩
          exfalso
          cases D with
          | nil =>
            simp only [List.nil_append] at h
            have := head_nonhex h hW hE
            rw [hb] at this; cases this
          | cons d D' => simp at h16; omega
      · simp only [hc, if_false]
        rw [ih (pos + 1) _ (count + 1) (inv_step b hs) (by omega) n s]
        constructor
        · rintro ⟨D, W, E, rest, rfl, hD, h0, h16, hW, hE, rfl, rfl⟩
          refine ⟨b :: D, W, E, rest, rfl, ?_, by simp only [List.length_cons]; omega, by simp; omega, hW, hE, by simp; omega, rfl⟩
          intro d hd; rcases List.mem_cons.1 hd with rfl | h
          · exact hb
          · exact hD d h
        · rintro ⟨D, W, E, rest, h, hD, h0, h16, hW, hE, rfl, rfl⟩
          cases D with
          | nil =>
            simp only [List.nil_append] at h
            have := head_nonhex h hW hE
            rw [hb] at this; cases this
          | cons d D' =>
            simp at h h16
            obtain ⟨rfl, rfl⟩ := h
            exact ⟨D', W, E, rest, by simp, fun d hd => hD d (by simp [hd]), by omega, by omega,
              hW, hE, by simp; omega, rfl⟩
    · have hb' : isHex b = false := by simpa using hb
      by_cases hc : count = 0
      · subst hc
        rw [digits_step_zero dbg pos size b r hb']
        constructor
        · intro h; cases h
        · rintro ⟨D, W, E, rest, h, hD, h0, h16, hW, hE, rfl, rfl⟩
          exfalso
          cases D with
          | nil => simp at h0
          | cons d D' => simp at h; exact hb (h.1 ▸ hD d (by simp))
      · have hc' : 0 < count := by omega
        rw [digits_step_nonhex dbg pos size count b r hb' hc', ws_ok dbg (b :: r) pos size count hc' n s]
        constructor
        · rintro ⟨W, E, rest, h, hW, hE, rfl, rfl⟩
          exact ⟨[], W, E, rest, by simp [h], by simp, by simpa using hc', by simp; omega, hW, hE,
            by simp, rfl⟩
        · rintro ⟨D, W, E, rest, h, hD, h0, h16, hW, hE, rfl, rfl⟩
          cases D with
          | nil => exact ⟨W, E, rest, by simpa using h, hW, hE, by simp, rfl⟩
          | cons d D' => simp at h; exact absurd (h.1 ▸ hD d (by simp)) hb

theorem isHex_zero : isHex 0x30 = true := by decide

theorem digits_part (dbg : Bool) (l : List Byte) : ∀ (pos size count : Nat), size < 16 ^ count →
    count ≤ 16 →
    (chunkLoop dbg pos size count true false l = .part ↔
      ∃ D W E tail, tail ≠ [] ∧ l ++ tail = D ++ W ++ E ++ [CR, LF] ∧ (∀ d ∈ D, isHex d = true) ∧
        0 < count + D.length ∧ count + D.length ≤ 16 ∧ (∀ w ∈ W, isWs w = true) ∧ ExtShape E) := by
  induction l with
  | nil =>
    intro pos size count hs hle
    simp only [loop_nil, true_iff]
    by_cases hc : count = 0
    · subst hc
      refine ⟨[0x30], [], [], [0x30, CR, LF], by simp, rfl, ?_, by simp, by simp, by simp, Or.inl rfl⟩
      intro d hd; simp at hd; subst hd; exact isHex_zero
    · exact ⟨[], [], [], [CR, LF], by simp, rfl, by simp, by simp; omega, by simpa using hle, by simp,
        Or.inl rfl⟩
  | cons b r ih =>
    intro pos size count hs hle
    by_cases hb : isHex b = true
    · rw [digits_step_hex dbg pos size count b r hb hs]
      by_cases hc : count > 15
      · simp only [hc, if_true]
        constructor
        · intro h; cases h
        · rintro ⟨D, W, E, tail, ht, h, hD, h0, h16, hW, hE⟩
          exfalso
          cases D with
          | nil =>
            simp only [List.nil_append, List.cons_append] at h
            have := head_nonhex h hW hE
            rw [hb] at this; cases this
          | cons d D' => simp at h16; omega
      · simp only [hc, if_false]
        rw [ih (pos + 1) _ (count + 1) (inv_step b hs) (by omega)]
        constructor
        · rintro ⟨D, W, E, tail, ht, h, hD, h0, h16, hW, hE⟩
          refine ⟨b :: D, W, E, tail, ht, by simp [h], ?_, by simp only [List.length_cons]; omega,
            by simp; omega, hW, hE⟩
          intro d hd; rcases List.mem_cons.1 hd with rfl | h
          · exact hb
          · exact hD d h
        · rintro ⟨D, W, E, tail, ht, h, hD, h0, h16, hW, hE⟩
          cases D with
          | nil =>
            simp only [List.nil_append, List.cons_append] at h
            have := head_nonhex h hW hE
            rw [hb] at this; cases this
          | cons d D' =>
            simp at h h16
            obtain ⟨rfl, h⟩ := h
            exact ⟨D', W, E, tail, ht, by simp [h], fun d hd => hD d (by simp [hd]), by omega, by omega,
              hW, hE⟩
    · have hb' : isHex b = false := by simpa using hb
      by_cases hc : count = 0
      · subst hc
        rw [digits_step_zero dbg pos size b r hb']
        constructor
        · intro h; cases h
        · rintro ⟨D, W, E, tail, ht, h, hD, h0, h16, hW, hE⟩
          exfalso
          cases D with
          | nil => simp at h0
          | cons d D' => simp at h; exact hb (h.1 ▸ hD d (by simp))
      · have hc' : 0 < count := by omega
        rw [digits_step_nonhex dbg pos size count b r hb' hc', ws_part dbg (b :: r) pos size count hc']
        constructor
        · rintro ⟨W, E, tail, ht, h, hW, hE⟩
          exact ⟨[], W, E, tail, ht, by simpa using h, by simp, by simpa using hc', by simpa using hle,
            hW, hE⟩
        · rintro ⟨D, W, E, tail, ht, h, hD, h0, h16, hW, hE⟩
          cases D with
          | nil => exact ⟨W, E, tail, ht, by simpa using h, hW, hE⟩
          | cons d D' => simp at h; exact absurd (h.1 ▸ hD d (by simp)) hb

/-! ### generic facts: no `ub`, only `InvalidChunkSize`, stability under appended input -/

/-- the outcome is neither undefined behaviour nor an error other than `InvalidChunkSize` -/
def Good (o : Outcome (Nat × Nat)) : Prop := (∀ u, o ≠ .ub u) ∧ (∀ e, o = .err e → e = .chunkSize)

theorem good_part : Good .part := ⟨fun _ h => (by cases h), fun _ h => (by cases h)⟩
theorem good_err : Good (.err .chunkSize) := ⟨fun _ h => (by cases h), fun _ h => (by cases h; rfl)⟩
theorem good_afterCr (pos size : Nat) (r : List Byte) : Good (afterCr pos size r) := by
  cases r with
  | nil => exact good_part
  | cons b2 r' =>
    by_cases h : b2 = LF
    · simp only [afterCr, h, beq_self_eq_true, if_true]
      exact ⟨fun _ h => (by cases h), fun _ h => (by cases h)⟩
    · simp only [afterCr, beq_iff_eq, h, if_false]; exact good_err

theorem ext_good (dbg : Bool) (l : List Byte) : ∀ (pos size count : Nat), 0 < count →
    Good (chunkLoop dbg pos size count false true l) := by
  induction l with
  | nil => intro pos size count hc; rw [loop_nil]; exact good_part
  | cons b r ih =>
    intro pos size count hc
    rw [ext_step dbg pos size count b r hc]
    by_cases hb : b = CR
    · simp only [hb, if_true]; exact good_afterCr _ _ _
    · simp only [hb, if_false]; exact ih _ _ _ hc

theorem ws_good (dbg : Bool) (l : List Byte) : ∀ (pos size count : Nat), 0 < count →
    Good (chunkLoop dbg pos size count false false l) := by
  induction l with
  | nil => intro pos size count hc; rw [loop_nil]; exact good_part
  | cons b r ih =>
    intro pos size count hc
    rw [ws_step dbg pos size count b r hc]
    by_cases hb : b = CR
    · simp only [hb, if_true]; exact good_afterCr _ _ _
    · simp only [hb, if_false]
      by_cases hs : b = SEMI
      · simp only [hs, if_true]; exact ext_good dbg r _ _ _ hc
      · simp only [hs, if_false]
        by_cases hw : isWs b = true
        · simp only [hw, if_true]; exact ih _ _ _ hc
        · simp only [hw]; exact good_err

theorem digits_good (dbg : Bool) (l : List Byte) : ∀ (pos size count : Nat), size < 16 ^ count →
    Good (chunkLoop dbg pos size count true false l) := by
  induction l with
  | nil => intro pos size count hs; rw [loop_nil]; exact good_part
  | cons b r ih =>
    intro pos size count hs
    by_cases hb : isHex b = true
    · rw [digits_step_hex dbg pos size count b r hb hs]
      by_cases hc : count > 15
      · simp only [hc, if_true]; exact good_err
      · simp only [hc, if_false]; exact ih _ _ _ (inv_step b hs)
    · have hb' : isHex b = false := by simpa using hb
      by_cases hc : count = 0
      · subst hc; rw [digits_step_zero dbg pos size b r hb']; exact good_err
      · have hc' : 0 < count := by omega
        rw [digits_step_nonhex dbg pos size count b r hb' hc']
        exact ws_good dbg (b :: r) _ _ _ hc'

theorem afterCr_stable (pos size : Nat) (r t : List Byte) (h : afterCr pos size r ≠ .part) :
    afterCr pos size (r ++ t) = afterCr pos size r := by
  cases r with
  | nil => simp [afterCr] at h
  | cons b2 r' => simp [afterCr]

theorem ext_stable (dbg : Bool) (t l : List Byte) : ∀ (pos size count : Nat), 0 < count →
    chunkLoop dbg pos size count false true l ≠ .part →
    chunkLoop dbg pos size count false true (l ++ t) = chunkLoop dbg pos size count false true l := by
  induction l with
  | nil => intro pos size count hc h; rw [loop_nil] at h; exact absurd rfl h
  | cons b r ih =>
    intro pos size count hc h
    rw [List.cons_append, ext_step dbg pos size count b (r ++ t) hc]
    rw [ext_step dbg pos size count b r hc] at h ⊢
    by_cases hb : b = CR
    · simp only [hb, if_true] at h ⊢; exact afterCr_stable _ _ _ _ h
    · simp only [hb, if_false] at h ⊢; exact ih _ _ _ hc h

theorem ws_stable (dbg : Bool) (t l : List Byte) : ∀ (pos size count : Nat), 0 < count →
    chunkLoop dbg pos size count false false l ≠ .part →
    chunkLoop dbg pos size count false false (l ++ t) = chunkLoop dbg pos size count false false l := by
  induction l with
  | nil => intro pos size count hc h; rw [loop_nil] at h; exact absurd rfl h
  | cons b r ih =>
    intro pos size count hc h
    rw [List.cons_append, ws_step dbg pos size count b (r ++ t) hc]
    rw [ws_step dbg pos size count b r hc] at h ⊢
    by_cases hb : b = CR
    · simp only [hb, if_true] at h ⊢; exact afterCr_stable _ _ _ _ h
    · simp only [hb, if_false] at h ⊢
      by_cases hs : b = SEMI
      · simp only [hs, if_true] at h ⊢; exact ext_stable dbg t r _ _ _ hc h
      · simp only [hs, if_false] at h ⊢
        by_cases hw : isWs b = true
        · simp only [hw, if_true] at h ⊢; exact ih _ _ _ hc h
        · simp [hw]

theorem digits_stable (dbg : Bool) (t l : List Byte) : ∀ (pos size count : Nat), size < 16 ^ count →
    chunkLoop dbg pos size count true false l ≠ .part →
    chunkLoop dbg pos size count true false (l ++ t) = chunkLoop dbg pos size count true false l := by
  induction l with
  | nil => intro pos size count hs h; rw [loop_nil] at h; exact absurd rfl h
  | cons b r ih =>
    intro pos size count hs h
    rw [List.cons_append]
    by_cases hb : isHex b = true
    · rw [digits_step_hex dbg pos size count b (r ++ t) hb hs]
      rw [digits_step_hex dbg pos size count b r hb hs] at h ⊢
      by_cases hc : count > 15
      · simp only [hc, if_true]
      · simp only [hc, if_false] at h ⊢; exact ih _ _ _ (inv_step b hs) h
    · have hb' : isHex b = false := by simpa using hb
      by_cases hc : count = 0
      · subst hc; rw [digits_step_zero dbg pos size b r hb', digits_step_zero dbg pos size b (r ++ t) hb']
      · have hc' : 0 < count := by omega
        rw [digits_step_nonhex dbg pos size count b (r ++ t) hb' hc']
        rw [digits_step_nonhex dbg pos size count b r hb' hc'] at h ⊢
        exact ws_stable dbg t (b :: r) _ _ _ hc' h

/-! ### value bound and framing -/

theorem hexFold_lt (ds : List Byte) : ∀ acc, hexFold acc ds < (acc + 1) * 16 ^ ds.length := by
  induction ds with
  | nil => intro acc; simp [hexFold]
  | cons d ds ih =>
    intro acc
    have hd := hexDigitVal_lt d
    have h1 : hexFold acc (d :: ds) = hexFold (acc * 16 + hexDigitVal d) ds := rfl
    rw [h1]
    refine Nat.lt_of_lt_of_le (ih _) ?_
    rw [List.length_cons, Nat.pow_succ, Nat.mul_comm (16 ^ ds.length) 16, ← Nat.mul_assoc]
    exact Nat.mul_le_mul_right _ (by omega)

theorem firstCrlfFrom_spec (p rest : List Byte) (hp : CR ∉ p) : ∀ off,
    firstCrlfFrom off (p ++ CR :: LF :: rest) = some (off + p.length + 2) := by
  induction p with
  | nil => intro off; simp [firstCrlfFrom]
  | cons b p ih =>
    intro off
    simp only [List.mem_cons, not_or] at hp
    have hb : b ≠ CR := fun h => hp.1 h.symm
    cases p with
    | nil => simp [firstCrlfFrom, hb]
    | cons c p' =>
      have := ih hp.2 (off + 1)
      rw [List.cons_append] at this
      rw [List.cons_append, List.cons_append, firstCrlfFrom]
      simp [hb]
      rw [this]; simp; omega

/-! ### assembly -/

theorem parse_ok_iff (dbg : Bool) (buf : List Byte) (n size : Nat) :
    parseChunkSize dbg buf = .ok (n, size) ↔
      ∃ D W E rest, buf = D ++ W ++ E ++ CR :: LF :: rest ∧ IsChunkLine D W E ∧
        n = D.length + W.length + E.length + 2 ∧ size = hexVal D := by
  unfold parseChunkSize
  rw [digits_ok dbg buf 0 0 0 (by decide) (by decide) n size]
  constructor
  · rintro ⟨D, W, E, rest, h, hD, h0, h16, hW, hE, hn, hs⟩
    refine ⟨D, W, E, rest, h, ⟨?_, by omega, hD, hW, hE⟩, by omega, hs⟩
    intro hnil; subst hnil; simp at h0
  · rintro ⟨D, W, E, rest, h, ⟨hne, hle, hD, hW, hE⟩, hn, hs⟩
    refine ⟨D, W, E, rest, h, hD, ?_, by omega, hW, hE, by omega, hs⟩
    cases D with
    | nil => exact absurd rfl hne
    | cons d D' => simp

theorem chunk_complete_iff (dbg : Bool) (buf : List Byte) (n size : Nat) :
    parseChunkSize dbg buf = .ok (n, size) ↔
      ∃ digits ws ext rest, buf = digits ++ ws ++ ext ++ CR :: LF :: rest ∧ IsChunkLine digits ws ext ∧
        n = digits.length + ws.length + ext.length + 2 ∧ size = hexVal digits :=
  parse_ok_iff dbg buf n size

theorem chunk_partial_iff (dbg : Bool) (buf : List Byte) :
    parseChunkSize dbg buf = .part ↔
      ∃ digits ws ext tail, IsChunkLine digits ws ext ∧ tail ≠ [] ∧
        buf ++ tail = digits ++ ws ++ ext ++ [CR, LF] := by
  unfold parseChunkSize
  rw [digits_part dbg buf 0 0 0 (by decide) (by decide)]
  constructor
  · rintro ⟨D, W, E, tail, ht, h, hD, h0, h16, hW, hE⟩
    refine ⟨D, W, E, tail, ⟨?_, by omega, hD, hW, hE⟩, ht, h⟩
    intro hnil; subst hnil; simp at h0
  · rintro ⟨D, W, E, tail, ⟨hne, hle, hD, hW, hE⟩, ht, h⟩
    refine ⟨D, W, E, tail, ht, h, hD, ?_, by omega, hW, hE⟩
    cases D with
    | nil => exact absurd rfl hne
    | cons d D' => simp

theorem chunk_size_lt (dbg : Bool) (buf : List Byte) (n size : Nat)
    (h : parseChunkSize dbg buf = .ok (n, size)) : size < 2 ^ 64 := by
  obtain ⟨D, W, E, rest, -, hl, -, rfl⟩ := (chunk_complete_iff dbg buf n size).1 h
  have h1 := hexFold_lt D 0
  rw [hexVal_eq]
  have h2 : 16 ^ D.length ≤ 16 ^ 16 := Nat.pow_le_pow_right (by decide) hl.digits_le
  have h3 : (16 : Nat) ^ 16 = 2 ^ 64 := by decide
  omega

theorem chunk_no_ub (dbg : Bool) (buf : List Byte) (u : UB) : parseChunkSize dbg buf ≠ .ub u :=
  (digits_good dbg buf 0 0 0 (by decide)).1 u

theorem chunk_err_kind (dbg : Bool) (buf : List Byte) (e : Error)
    (h : parseChunkSize dbg buf = .err e) : e = .chunkSize :=
  (digits_good dbg buf 0 0 0 (by decide)).2 e h

theorem chunk_profile (buf : List Byte) : parseChunkSize true buf = parseChunkSize false buf := by
  cases h : parseChunkSize false buf with
  | ok a =>
    obtain ⟨n, s⟩ := a
    exact (chunk_complete_iff true buf n s).2 ((chunk_complete_iff false buf n s).1 h)
  | part => exact (chunk_partial_iff true buf).2 ((chunk_partial_iff false buf).1 h)
  | ub u => exact absurd h (chunk_no_ub false buf u)
  | err e =>
    have he := chunk_err_kind false buf e h
    subst he
    cases h' : parseChunkSize true buf with
    | ok a =>
      obtain ⟨n, s⟩ := a
      have := (chunk_complete_iff false buf n s).2 ((chunk_complete_iff true buf n s).1 h')
      rw [h] at this; cases this
    | part =>
      have := (chunk_partial_iff false buf).2 ((chunk_partial_iff true buf).1 h')
      rw [h] at this; cases this
    | ub u => exact absurd h' (chunk_no_ub true buf u)
    | err e => rw [chunk_err_kind true buf e h']

theorem chunk_first_crlf (dbg : Bool) (buf : List Byte) (n size : Nat)
    (h : parseChunkSize dbg buf = .ok (n, size)) : firstCrlf buf = some n := by
  obtain ⟨D, W, E, rest, rfl, hl, rfl, -⟩ := (chunk_complete_iff dbg buf n size).1 h
  have hp : CR ∉ D ++ W ++ E := by
    simp only [List.mem_append, not_or]
    refine ⟨⟨fun hm => ?_, fun hm => ?_⟩, fun hm => ?_⟩
    · have := hl.digits_hex CR hm; rw [isHex_CR] at this; cases this
    · have := hl.ws_ws CR hm; rw [isWs_CR] at this; cases this
    · rcases hl.ext_shape with rfl | ⟨e, rfl, hne⟩
      · cases hm
      · rcases List.mem_cons.1 hm with h | h
        · exact SEMI_ne_CR h.symm
        · exact hne h
  have := firstCrlfFrom_spec (D ++ W ++ E) rest hp 0
  unfold firstCrlf
  rw [this]; simp; omega

/-! ### errors: the first byte that leaves the viable prefixes -/

theorem parse_stable (dbg : Bool) (p t : List Byte) (h : parseChunkSize dbg p ≠ .part) :
    parseChunkSize dbg (p ++ t) = parseChunkSize dbg p :=
  digits_stable dbg t p 0 0 0 (by decide) h

theorem parse_nil (dbg : Bool) : parseChunkSize dbg [] = .part := loop_nil _ _ _ _ _ _

/-- a buffer whose outcome is not `Partial` has a longest `Partial` prefix -/
theorem split_at_first_nonpart (dbg : Bool) (t : List Byte) : ∀ p, parseChunkSize dbg p = .part →
    parseChunkSize dbg (p ++ t) ≠ .part →
    ∃ p' b t', p ++ t = p' ++ b :: t' ∧ parseChunkSize dbg p' = .part ∧
      parseChunkSize dbg (p' ++ [b]) ≠ .part := by
  induction t with
  | nil => intro p hp h; rw [List.append_nil] at h; exact absurd hp h
  | cons b t ih =>
    intro p hp h
    by_cases hb : parseChunkSize dbg (p ++ [b]) = .part
    · have := ih (p ++ [b]) hb (by simpa using h)
      simpa using this
    · exact ⟨p, b, t, rfl, hp, hb⟩

theorem viable_parse (dbg : Bool) (q : List Byte) (h : ChunkViable q) :
    parseChunkSize dbg q = .part ∨ ∃ n s, parseChunkSize dbg q = .ok (n, s) := by
  obtain ⟨D, W, E, tail, hl, h⟩ := h
  cases tail with
  | nil =>
    right
    exact ⟨_, _, (chunk_complete_iff dbg q _ _).2 ⟨D, W, E, [], by simpa using h, hl, rfl, rfl⟩⟩
  | cons x tail' =>
    left
    exact (chunk_partial_iff dbg q).2 ⟨D, W, E, x :: tail', hl, by simp, h⟩

theorem chunk_err_iff (dbg : Bool) (buf : List Byte) :
    (∃ e, parseChunkSize dbg buf = .err e) ↔
      ∃ p b t, buf = p ++ b :: t ∧
        (∃ digits ws ext tail, IsChunkLine digits ws ext ∧ tail ≠ [] ∧
          p ++ tail = digits ++ ws ++ ext ++ [CR, LF]) ∧
        ¬ ChunkViable (p ++ [b]) := by
  constructor
  · rintro ⟨e, he⟩
    have hnp : parseChunkSize dbg ([] ++ buf) ≠ .part := by
      rw [List.nil_append, he]; intro h; cases h
    obtain ⟨p, b, t, hbuf, hp, hpb⟩ := split_at_first_nonpart dbg buf [] (parse_nil dbg) hnp
    rw [List.nil_append] at hbuf
    refine ⟨p, b, t, hbuf, (chunk_partial_iff dbg p).1 hp, fun hv => ?_⟩
    rcases viable_parse dbg _ hv with h | ⟨n, s, h⟩
    · exact hpb h
    · have := parse_stable dbg (p ++ [b]) t hpb
      rw [List.append_assoc, List.singleton_append, ← hbuf, he, h] at this
      cases this
  · rintro ⟨p, b, t, rfl, hp, hnv⟩
    have hp' := (chunk_partial_iff dbg p).2 hp
    have hst : parseChunkSize dbg (p ++ [b]) ≠ .part →
        parseChunkSize dbg (p ++ b :: t) = parseChunkSize dbg (p ++ [b]) := by
      intro h
      have := parse_stable dbg (p ++ [b]) t h
      simpa using this
    cases h : parseChunkSize dbg (p ++ [b]) with
    | part =>
      obtain ⟨D, W, E, tail, hl, -, h'⟩ := (chunk_partial_iff dbg _).1 h
      exact absurd ⟨D, W, E, tail, hl, h'⟩ hnv
    | ub u => exact absurd h (chunk_no_ub dbg _ u)
    | err e => exact ⟨e, by rw [hst (by rw [h]; intro h'; cases h'), h]⟩
    | ok a =>
      exfalso
      obtain ⟨n, s⟩ := a
      obtain ⟨D, W, E, rest, h', hl, -, -⟩ := (chunk_complete_iff dbg _ n s).1 h
      rcases List.eq_nil_or_concat rest with rfl | ⟨rest', x, rfl⟩
      · exact hnv ⟨D, W, E, [], hl, by simpa using h'⟩
      · have h2 : p ++ [b] = (D ++ W ++ E ++ CR :: LF :: rest') ++ [x] := by simpa using h'
        have h3 := (List.append_inj' h2 rfl).1
        have := (chunk_complete_iff dbg p _ _).2 ⟨D, W, E, rest', h3, hl, rfl, rfl⟩
        rw [hp'] at this; cases this

/-! ### the unrestricted form of the error characterisation is false

`ChunkViable p ∧ ¬ ChunkViable (p ++ [b])` also holds when `p` is a *complete* accepted line and
`b` is the first byte after it; e.g. `"0\r\nX"` is accepted (`Ok(Complete((3, 0)))`), yet
`p = "0\r\n"` is viable and `p ++ "X"` is not.  Hence `chunk_err_iff` requires `p` to be a
*proper* viable prefix (`tail ≠ []`). -/

theorem not_viable_after_complete (p : List Byte) (b : Byte) (n s : Nat)
    (h : parseChunkSize false p = .ok (n, s)) (hn : n ≤ p.length) : ¬ ChunkViable (p ++ [b]) := by
  rintro ⟨D, W, E, tail, hl, h'⟩
  have h1 := (chunk_complete_iff false (p ++ [b] ++ tail) _ _).2 ⟨D, W, E, [], h', hl, rfl, rfl⟩
  have h2 := parse_stable false p ([b] ++ tail) (by rw [h]; intro h; cases h)
  rw [← List.append_assoc, h1, h] at h2
  have h3 : D.length + W.length + E.length + 2 = n := by injection h2 with h2; injection h2
  have h4 := congrArg List.length h'
  simp at h4; omega

theorem chunk_err_iff_unrestricted_false :
    ¬ ((∃ e, parseChunkSize false [0x30, CR, LF, 0x58] = .err e) ↔
        ∃ p b t, [0x30, CR, LF, 0x58] = p ++ b :: t ∧ ChunkViable p ∧ ¬ ChunkViable (p ++ [b])) := by
  intro h
  have hok : parseChunkSize false [0x30, CR, LF] = .ok (3, 0) := by decide
  have hrhs : ∃ p b t, [0x30, CR, LF, 0x58] = p ++ b :: t ∧ ChunkViable p ∧ ¬ ChunkViable (p ++ [b]) :=
    ⟨[0x30, CR, LF], 0x58, [], rfl,
      ⟨[0x30], [], [], [], ⟨by decide, by decide, by decide, by decide, Or.inl rfl⟩, rfl⟩,
      not_viable_after_complete _ _ 3 0 hok (by decide)⟩
  obtain ⟨e, he⟩ := h.2 hrhs
  have : parseChunkSize false [0x30, CR, LF, 0x58] = .ok (3, 0) := by decide
  rw [this] at he; cases he

end Hx
