/-
  Hx.Lemmas.CompBase — vocabulary for C11 (honest Partial).

    PartC W E Q f   whenever `f` returns Partial on a cursor, either the exception `E` holds of
                    that cursor or some tail `w ∈ W` makes `f` complete on the extended cursor
                    with a result satisfying `Q`
  and its combinators (bind over a `Stable` first stage, case splits), plus the byte forms of
  the completion tails.
-/
import Hx.Lemmas.StableHeaders
import Hx.Spec.Completion
namespace Hx
namespace Comp
open SA

/-! ### the tails as byte lists -/

def CRLF : List Byte := [CR, LF]
def T1 : List Byte := [CR, LF, CR, LF]          -- "\r\n\r\n"
def T2 : List Byte := [LF, CR, LF]              -- "\n\r\n"
def T3 : List Byte := [COLON, CR, LF, CR, LF]   -- ":\r\n\r\n"

theorem strBytes_crlf : strBytes "\r\n" = [CR, LF] := by decide +kernel
theorem strBytes_lf : strBytes "\n" = [LF] := by decide +kernel
theorem strBytes_t1 : strBytes "\r\n\r\n" = T1 := by decide +kernel
theorem strBytes_t2 : strBytes "\n\r\n" = T2 := by decide +kernel
theorem strBytes_t3 : strBytes ":\r\n\r\n" = T3 := by decide +kernel

theorem headerTails_eq : headerTails = [CRLF, [LF], T3, T1, T2] := by
  simp only [headerTails, strBytes_crlf, strBytes_lf, strBytes_t1, strBytes_t2, strBytes_t3, CRLF]

theorem crlf_mem : CRLF ∈ headerTails := by simp [headerTails_eq]
theorem lf_mem : [LF] ∈ headerTails := by simp [headerTails_eq]
theorem t1_mem : T1 ∈ headerTails := by simp [headerTails_eq]
theorem t2_mem : T2 ∈ headerTails := by simp [headerTails_eq]
theorem t3_mem : T3 ∈ headerTails := by simp [headerTails_eq]

/-! ### completability of a stage -/

def PartC {α : Type} (W : List (List Byte)) (E : Cur → Prop) (Q : α → Cur → Prop) (f : P α) : Prop :=
  ∀ c, f.run c = .part → E c ∨ ∃ w ∈ W, ∃ a c', f.run (c.shift w) = .ok (a, c') ∧ Q a c'

def NoE : Cur → Prop := fun _ => False

theorem PartC.of_never {α : Type} {W : List (List Byte)} {E : Cur → Prop} {Q : α → Cur → Prop} {f : P α}
    (h : ∀ c, f.run c ≠ .part) : PartC W E Q f := fun c hc => absurd hc (h c)

theorem PartC.pure {α : Type} {W : List (List Byte)} {E : Cur → Prop} {Q : α → Cur → Prop} (a : α) :
    PartC W E Q (pure a : P α) := PartC.of_never (by intro c; simp)

theorem PartC.fail {α : Type} {W : List (List Byte)} {E : Cur → Prop} {Q : α → Cur → Prop} (e : Error) :
    PartC W E Q (P.fail e : P α) := PartC.of_never (by intro c; simp)

theorem PartC.mono {α : Type} {W W' : List (List Byte)} {E E' : Cur → Prop} {Q Q' : α → Cur → Prop} {f : P α}
    (h : PartC W E Q f) (hW : ∀ w ∈ W, w ∈ W') (hE : ∀ c, E c → E' c) (hQ : ∀ a c, Q a c → Q' a c) :
    PartC W' E' Q' f := by
  intro c hc
  rcases h c hc with he | ⟨w, hw, a, c', hr, hq⟩
  · exact Or.inl (hE c he)
  · exact Or.inr ⟨w, hW w hw, a, c', hr, hQ a c' hq⟩

theorem PartC.dite {α : Type} {W : List (List Byte)} {E : Cur → Prop} {Q : α → Cur → Prop}
    {p : Prop} [Decidable p] {f g : P α} (hf : PartC W E Q f) (hg : PartC W E Q g) :
    PartC W E Q (if p then f else g) := by
  split <;> assumption

/-- sequencing: the first stage is `Stable`; if it is the one returning Partial its completion
must be continued by `g` on the (concrete) remainder; otherwise `g`'s own completion is used -/
theorem PartC.bind {α β : Type} {W : List (List Byte)} {E Ef : Cur → Prop} {Eg : α → Cur → Prop}
    {Qf : α → Cur → Prop} {Q : β → Cur → Prop} {f : P α} {g : α → P β}
    (hs : Stable f) (hf : PartC W Ef Qf f) (hg : ∀ a, PartC W (Eg a) Q (g a))
    (hk : ∀ a c, Qf a c → ∃ b c', (g a).run c = .ok (b, c') ∧ Q b c')
    (hEf : ∀ c, Ef c → E c) (hEg : ∀ c a c1, f.run c = .ok (a, c1) → Eg a c1 → E c) :
    PartC W E Q (f >>= g) := by
  intro c hc
  simp only [run_bind] at hc
  cases hr : f.run c with
  | ok p =>
    obtain ⟨a, c1⟩ := p
    rw [hr] at hc; simp only at hc
    rcases hg a c1 hc with he | ⟨w, hw, b, c', hrun, hq⟩
    · exact Or.inl (hEg c a c1 hr he)
    · refine Or.inr ⟨w, hw, b, c', ?_, hq⟩
      have := (hs c w).1 a c1 hr
      simp only [run_bind, this]
      exact hrun
  | part =>
    rcases hf c hr with he | ⟨w, hw, a, c', hrun, hq⟩
    · exact Or.inl (hEf c he)
    · obtain ⟨b, c'', hrun2, hq2⟩ := hk a c' hq
      refine Or.inr ⟨w, hw, b, c'', ?_, hq2⟩
      simp only [run_bind, hrun]
      exact hrun2
  | err e => rw [hr] at hc; simp at hc
  | ub u => rw [hr] at hc; simp at hc

/-- sequencing without exceptions -/
theorem PartC.bind0 {α β : Type} {W : List (List Byte)}
    {Qf : α → Cur → Prop} {Q : β → Cur → Prop} {f : P α} {g : α → P β}
    (hs : Stable f) (hf : PartC W NoE Qf f) (hg : ∀ a, PartC W NoE Q (g a))
    (hk : ∀ a c, Qf a c → ∃ b c', (g a).run c = .ok (b, c') ∧ Q b c') :
    PartC W NoE Q (f >>= g) :=
  PartC.bind hs hf hg hk (fun _ h => h) (fun _ _ _ _ h => h)

/-! ### basic stages -/

theorem bind_part {α β : Type} {f : P α} {g : α → P β} {c : Cur} :
    (f >>= g).run c = .part ↔ f.run c = .part ∨ ∃ a c', f.run c = .ok (a, c') ∧ (g a).run c' = .part := by
  simp only [run_bind]
  cases h : f.run c with
  | ok r =>
    obtain ⟨a, c'⟩ := r
    constructor
    · intro h'; exact Or.inr ⟨a, c', rfl, h'⟩
    · rintro (h' | ⟨a', c1, e, h'⟩)
      · cases h'
      · cases e; exact h'
  | part => simp
  | err e => simp
  | ub u => simp

theorem sliceSkip_ne_part (k : Nat) (c : Cur) : (sliceSkip k).run c ≠ .part := by
  simp only [sliceSkip, run_mk]; split <;> simp

theorem dropWhile_nil_all {p : Byte → Bool} : ∀ l : List Byte, l.dropWhile p = [] → l.all p = true
  | [], _ => rfl
  | a :: l, h => by
    simp only [List.dropWhile_cons] at h
    split at h
    · rename_i ha
      simp [ha, dropWhile_nil_all l h]
    · cases h

theorem all_dropWhile_nil {p : Byte → Bool} : ∀ l : List Byte, l.all p = true → l.dropWhile p = []
  | [], _ => rfl
  | a :: l, h => by
    simp only [List.all_cons, Bool.and_eq_true] at h
    simp [List.dropWhile_cons, h.1, all_dropWhile_nil l h.2]

theorem next_part {W : List (List Byte)} (x : Byte) (w : List Byte) (hw : (x :: w) ∈ W) :
    PartC W NoE (fun b c => b = x ∧ c.rest = w) next := by
  intro c hc
  right
  refine ⟨x :: w, hw, ?_⟩
  simp only [next, run_mk] at hc ⊢
  cases hr : c.rest with
  | nil => exact ⟨x, ⟨c.start, c.tok ++ [x], w⟩, by simp [Cur.shift, hr], rfl, rfl⟩
  | cons b r => rw [hr] at hc; simp at hc

theorem expect_part {W : List (List Byte)} (p : Byte → Bool) (e : Error) (x : Byte) (w : List Byte)
    (hw : (x :: w) ∈ W) (hx : p x = true) :
    PartC W NoE (fun b c => b = x ∧ c.rest = w) (expect p e) := by
  intro c hc
  right
  refine ⟨x :: w, hw, ?_⟩
  simp only [expect, next, run_bind, run_mk] at hc ⊢
  cases hr : c.rest with
  | nil => exact ⟨x, ⟨c.start, c.tok ++ [x], w⟩, by simp [Cur.shift, hr, hx], rfl, rfl⟩
  | cons b r =>
    rw [hr] at hc; simp only at hc
    cases hp : p b <;> simp [hp] at hc

/-- `expect!` with the length of the uncommitted bytes tracked (exception: nothing uncommitted) -/
theorem expect_part2 {W : List (List Byte)} (p : Byte → Bool) (e : Error) (x : Byte) (w : List Byte)
    (hw : (x :: w) ∈ W) (hx : p x = true) :
    PartC W (fun c => c.tok = []) (fun b c => b = x ∧ c.rest = w ∧ 2 ≤ c.tok.length) (expect p e) := by
  intro c hc
  by_cases ht : c.tok = []
  · exact Or.inl ht
  right
  refine ⟨x :: w, hw, ?_⟩
  simp only [expect, next, run_bind] at hc ⊢
  cases hr : c.rest with
  | nil =>
    refine ⟨x, ⟨c.start, c.tok ++ [x], w⟩, by simp [Cur.shift, hr, hx], rfl, rfl, ?_⟩
    have : 0 < c.tok.length := List.length_pos_iff.2 ht
    simp; omega
  | cons b r =>
    rw [hr] at hc; simp only at hc
    cases hp : p b <;> simp [hp] at hc

/-- a class run reaching the end of input, continued by bytes starting outside the class -/
theorem tw_append_stop {p : Byte → Bool} {x : Byte} (w : List Byte) (hx : p x = false) :
    ∀ l : List Byte, l.dropWhile p = [] →
      (l ++ x :: w).dropWhile p = x :: w ∧ (l ++ x :: w).takeWhile p = l
  | [], _ => by simp [hx]
  | a :: l, h => by
    simp only [List.dropWhile_cons] at h
    split at h
    · rename_i ha
      have := tw_append_stop w hx l h
      simp [List.dropWhile_cons, List.takeWhile_cons, ha, this.1, this.2]
    · simp at h

theorem scanNext_part {W : List (List Byte)} {cls : Byte → Bool} {s : Scanner} (hs : Scanner.Exact cls s)
    (x : Byte) (w : List Byte) (hw : (x :: w) ∈ W) (hx : cls x = false) :
    PartC W NoE (fun (r : Nat × Byte) c => r.2 = x ∧ c.rest = w ∧ c.tok ≠ []) (scanNext s) := by
  intro c hc
  right
  refine ⟨x :: w, hw, ?_⟩
  rw [scanNext_run hs] at hc
  rw [scanNext_run hs]
  cases hd : c.rest.dropWhile cls with
  | nil =>
    have := tw_append_stop w hx c.rest hd
    exact ⟨(c.rest.length, x), ⟨c.start, c.tok ++ c.rest ++ [x], w⟩,
      by simp [shift_rest, this.1, this.2], rfl, rfl, by simp⟩
  | cons b r => rw [hd] at hc; simp at hc

end Comp
end Hx
