/-
  Hx.Lemmas.Capacity — the capacity law (C17): a run with `cap ≤ cap'` slots agrees with the run
  with `cap'` slots until `cap` headers are stored; and `TooManyHeaders` cannot occur with at
  least as many slots as bytes.
-/
import Hx.Parse.Entry
import Hx.Lemmas.NoUB
namespace Hx

/-! ### the headers written extend the headers already stored -/

theorem headersLoop_prefix (be : Backend) (hc : HCfg) (cap : Nat) :
    ∀ (fuel : Nat) (c : Cur) (hs : List Hdr), ∃ t, (headersLoop be hc cap fuel c hs).2 = hs ++ t := by
  intro fuel
  induction fuel with
  | zero => intro c hs; exact ⟨[], by simp [headersLoop]⟩
  | succ fuel ih =>
    intro c hs
    rw [headersLoop]
    split
    · exact ⟨[], by simp⟩
    · exact ih _ _
    · split
      · obtain ⟨t, ht⟩ := ih ‹Cur› _
        exact ⟨[_] ++ t, by rw [ht, List.append_assoc]⟩
      · exact ⟨[], by simp⟩
    · exact ⟨[], by simp⟩
    · exact ⟨[], by simp⟩
    · exact ⟨[], by simp⟩

/-! ### the loop -/

/-- relation between the run with `cap` slots (`r`) and the run with more slots (`r'`) -/
def CapLoop {α : Type} (cap : Nat) (r r' : Outcome α × List Hdr) : Prop :=
  if r'.2.length ≤ cap then r = r' else r.1 = .err .tooManyHeaders ∧ r.2 = r'.2.take cap

theorem CapLoop.same {α : Type} (cap : Nat) (o : Outcome α) (hs : List Hdr) (h : hs.length ≤ cap) :
    CapLoop cap (o, hs) (o, hs) := by
  unfold CapLoop
  simp [h]

theorem headersLoop_cap (be : Backend) (hc : HCfg) (cap cap' : Nat) (hlt : cap < cap') :
    ∀ (fuel : Nat) (c : Cur) (hs : List Hdr), hs.length ≤ cap →
      CapLoop cap (headersLoop be hc cap fuel c hs) (headersLoop be hc cap' fuel c hs) := by
  intro fuel
  induction fuel with
  | zero => intro c hs h; simpa [headersLoop] using CapLoop.same cap _ hs h
  | succ fuel ih =>
    intro c hs hle
    rw [headersLoop, headersLoop]
    split
    · exact CapLoop.same cap _ hs hle
    · exact ih _ _ hle
    · rename_i n v c' _
      by_cases h1 : hs.length < cap
      · have h2 : hs.length < cap' := by omega
        rw [if_pos h1, if_pos h2]
        exact ih _ _ (by simp; omega)
      · have h2 : hs.length < cap' := by omega
        have h3 : hs.length = cap := by omega
        rw [if_neg h1, if_pos h2]
        obtain ⟨t, ht⟩ := headersLoop_prefix be hc cap' fuel c' (hs ++ [⟨n, trimValue v⟩])
        unfold CapLoop
        rw [ht]
        have : ¬ (hs ++ [(⟨n, trimValue v⟩ : Hdr)] ++ t).length ≤ cap := by simp; omega
        rw [if_neg this]
        refine ⟨rfl, ?_⟩
        simp only [List.append_assoc]
        rw [List.take_left' h3]
    · exact CapLoop.same cap _ hs hle
    · exact CapLoop.same cap _ hs hle
    · exact CapLoop.same cap _ hs hle

theorem parseHeadersIter_cap (be : Backend) (hc : HCfg) (cap cap' : Nat) (hlt : cap < cap') (c : Cur) :
    CapLoop cap (parseHeadersIter be hc cap c) (parseHeadersIter be hc cap' c) := by
  have h := headersLoop_cap be hc cap cap' hlt (c.rest.length + 1) c [] (by simp)
  unfold parseHeadersIter
  generalize headersLoop be hc cap (c.rest.length + 1) c [] = r at h
  generalize headersLoop be hc cap' (c.rest.length + 1) c [] = r' at h
  obtain ⟨o, hs⟩ := r
  obtain ⟨o', hs'⟩ := r'
  unfold CapLoop at h ⊢
  simp only at h
  by_cases hl : hs'.length ≤ cap
  · rw [if_pos hl] at h
    obtain ⟨rfl, rfl⟩ := Prod.mk.inj h
    cases o <;> simp [hl]
  · rw [if_neg hl] at h
    obtain ⟨rfl, rfl⟩ := h
    cases o' <;> simp [hl]

/-! ### the cores -/

/-- the capacity law between two core results -/
def CapRel {V : Type} (cap : Nat) (r r' : Res V) : Prop :=
  if r'.hdrs.length ≤ cap then r.status = r'.status ∧ r.val = r'.val ∧ r.hdrs = r'.hdrs
  else r.status = .err .tooManyHeaders ∧ r.val = r'.val ∧ r.hdrs = r'.hdrs.take cap

theorem finishHeaders_cap {V : Type} (be : Backend) (hc : HCfg) (cap cap' : Nat) (hlt : cap < cap')
    (buf : List Byte) (c : Cur) (v : V) :
    CapRel cap (finishHeaders be hc cap buf c v) (finishHeaders be hc cap' buf c v) := by
  have h := parseHeadersIter_cap be hc cap cap' hlt c
  unfold finishHeaders
  dsimp only
  generalize parseHeadersIter be hc cap c = r at h
  generalize parseHeadersIter be hc cap' c = r' at h
  obtain ⟨o, hs⟩ := r
  obtain ⟨o', hs'⟩ := r'
  unfold CapLoop at h
  unfold CapRel
  simp only at h
  by_cases hl : hs'.length ≤ cap
  · rw [if_pos hl] at h
    obtain ⟨rfl, rfl⟩ := Prod.mk.inj h
    cases o <;> simp [hl]
  · rw [if_neg hl] at h
    obtain ⟨rfl, rfl⟩ := h
    cases o' <;> simp [hl]

theorem step_cap {α V : Type} (cap : Nat) (o : Outcome (α × Cur)) (v : V) (k k' : α → Cur → Res V)
    (h : ∀ a c, CapRel cap (k a c) (k' a c)) : CapRel cap (step o v k) (step o v k') := by
  unfold step
  split
  · exact h _ _
  · simp [CapRel]
  · simp [CapRel]
  · simp [CapRel]

theorem CapRel.refl {V : Type} (cap : Nat) (r : Res V) (h : r.hdrs.length ≤ cap) : CapRel cap r r := by
  simp [CapRel, h]

theorem req_capacity_law (be : Backend) (hbe : be.Exact) (cfg : Config) (cap cap' : Nat) (h : cap ≤ cap')
    (buf : List Byte) (v : ReqVal) :
    let r := reqCore be cfg cap buf v
    let r' := reqCore be cfg cap' buf v
    if r'.hdrs.length ≤ cap then
      r.status = r'.status ∧ r.val = r'.val ∧ r.hdrs = r'.hdrs
    else r.status = .err .tooManyHeaders ∧ r.val = r'.val ∧ r.hdrs = r'.hdrs.take cap := by
  have _ := hbe
  show CapRel cap (reqCore be cfg cap buf v) (reqCore be cfg cap' buf v)
  rcases Nat.lt_or_eq_of_le h with hlt | rfl
  · unfold reqCore
    repeat (first | exact finishHeaders_cap _ _ _ _ hlt _ _ _ | (apply step_cap; intro _ _))
  · exact CapRel.refl _ _ (reqCore_hdrs_le be cfg cap buf v)

theorem resp_capacity_law (be : Backend) (hbe : be.Exact) (cfg : Config) (cap cap' : Nat) (h : cap ≤ cap')
    (buf : List Byte) (v : RespVal) :
    let r := respCore be cfg cap buf v
    let r' := respCore be cfg cap' buf v
    if r'.hdrs.length ≤ cap then
      r.status = r'.status ∧ r.val = r'.val ∧ r.hdrs = r'.hdrs
    else r.status = .err .tooManyHeaders ∧ r.val = r'.val ∧ r.hdrs = r'.hdrs.take cap := by
  have _ := hbe
  show CapRel cap (respCore be cfg cap buf v) (respCore be cfg cap' buf v)
  rcases Nat.lt_or_eq_of_le h with hlt | rfl
  · unfold respCore
    repeat (first | exact finishHeaders_cap _ _ _ _ hlt _ _ _ | (apply step_cap; intro _ _))
  · exact CapRel.refl _ _ (respCore_hdrs_le be cfg cap buf v)

end Hx
