/-
  Hx.Lemmas.NeonProof — the three NEON scanners generated from `src/simd/neon.rs`
  (`Hx.Gen.Neon`) are exact, given exact SWAR fallbacks.

  * every intrinsic used is lane-wise, so the vector handed to `offsetz` is `input.map F` for a
    lane function `F` read off the generated term by `simp`; "`F b = 0xFF` if `b` is in the class,
    `0x00` otherwise" is decided over all 256 bytes (for the header-name kernel this evaluates the
    generated `bit_set`, `build_bitmap` and both table lookups);
  * for such a vector `offsetz` is the length of `input.takeWhile cls`;
  * a generic lemma about `Hx.Neon.blockLoop` lifts kernel exactness on one block to the scanner.
    Threshold and stop constant are taken from the generated definitions by unfolding.
-/
import Hx.Gen.Neon
import Hx.Lemmas.Basic
namespace Hx.Gen.Neon
open Hx Hx.Neon

/-! ### list / byte helpers -/

/-- two byte functions agree if they agree on the 256 values (closed hypothesis) -/
theorem byteFun_eq {f g : Byte → Byte} (h : allBytesB (fun b => f b == g b) = true) :
    ∀ b, f b = g b := by
  intro b
  have := allBytesB_spec h b
  simpa using this

theorem takeWhile_congr' {α : Type} {p q : α → Bool} (h : ∀ a, p a = q a) (l : List α) :
    l.takeWhile p = l.takeWhile q := by
  have : p = q := funext h
  rw [this]

theorem length_takeWhile_le' {α : Type} (p : α → Bool) (l : List α) :
    (l.takeWhile p).length ≤ l.length := by
  induction l with
  | nil => simp
  | cons a t ih =>
    rw [List.takeWhile_cons]
    split <;> simp <;> omega

/-- splitting `takeWhile` at a block boundary -/
theorem takeWhile_block {α : Type} (p : α → Bool) (n : Nat) (l : List α) :
    l.takeWhile p =
      if ((l.take n).takeWhile p).length = (l.take n).length
      then l.take n ++ (l.drop n).takeWhile p else (l.take n).takeWhile p := by
  conv => lhs; rw [← List.take_append_drop n l]
  exact List.takeWhile_append

/-- `any (· != 0)` fails exactly when `takeWhile (· == 0)` takes everything -/
theorem any_ne_zero_iff (l : List Byte) :
    l.any (· != 0) = true ↔ ¬ (l.takeWhile (· == 0)).length = l.length := by
  induction l with
  | nil => simp
  | cons a t ih =>
    have hle := length_takeWhile_le' (· == (0 : Byte)) t
    rw [List.any_cons, List.takeWhile_cons]
    by_cases ha : a = 0
    · subst ha
      simpa using ih
    · have h1 : (a != 0) = true := by simpa using ha
      have h2 : ¬ ((a == 0) = true) := by simpa using ha
      simp [h1, h2]

/-- a constant vector is a map of any vector of the same length -/
theorem replicate_eq_map {α β : Type} (dat : List α) (n : Nat) (h : dat.length = n) (c : β) :
    List.replicate n c = dat.map (fun _ => c) := by
  rw [List.map_const', h]

theorem zipWith_map_map {α β γ δ : Type} (f : β → γ → δ) (g : α → β) (h : α → γ) (l : List α) :
    List.zipWith f (l.map g) (l.map h) = l.map (fun x => f (g x) (h x)) := by
  rw [List.zipWith_map, List.zipWith_self]

theorem zipWith_self_map {α γ δ : Type} (f : α → γ → δ) (h : α → γ) (l : List α) :
    List.zipWith f l (l.map h) = l.map (fun x => f x (h x)) := by
  rw [List.zipWith_map_right, List.zipWith_self]

theorem zipWith_map_self {α β δ : Type} (f : β → α → δ) (g : α → β) (l : List α) :
    List.zipWith f (l.map g) l = l.map (fun x => f (g x) x) := by
  rw [List.zipWith_map_left, List.zipWith_self]

/-! ### `offsetnz` / `offsetz` -/

/-- on a full register `offsetnz` is the number of leading zero lanes -/
theorem offsetnz_eq (x : Neon.Vec) (h : x.length = 16) :
    offsetnz x = (x.takeWhile (· == 0)).length := by
  have hx : x = x.take 8 ++ (x.drop 8).take 8 := by
    have : (x.drop 8).take 8 = x.drop 8 := List.take_of_length_le (by simp; omega)
    rw [this, List.take_append_drop]
  have hlow : (x.take 8).length = 8 := by simp; omega
  have hhigh : ((x.drop 8).take 8).length = 8 := by simp; omega
  unfold offsetnz
  simp only
  generalize x.take 8 = low at hx hlow
  generalize (x.drop 8).take 8 = high at hx hhigh
  subst hx
  rw [List.takeWhile_append]
  by_cases h1 : low.any (· != 0) = true
  · rw [if_pos h1, if_neg ((any_ne_zero_iff low).1 h1)]
  · have h1' : (low.takeWhile (· == 0)).length = low.length :=
      Decidable.of_not_not fun hn => h1 ((any_ne_zero_iff low).2 hn)
    rw [if_neg h1, if_pos h1', List.length_append, hlow]
    by_cases h2 : high.any (· != 0) = true
    · rw [if_pos h2]
    · have h2' : (high.takeWhile (· == 0)).length = high.length :=
        Decidable.of_not_not fun hn => h2 ((any_ne_zero_iff high).2 hn)
      rw [if_neg h2, h2', hhigh]

/-- `offsetz` of a lane-wise computed register whose lanes are `0xFF` on the class and `0x00`
elsewhere -/
theorem offsetz_map (dat : List Byte) (F : Byte → Byte) (cls : Byte → Bool)
    (hF : ∀ b, F b = if cls b then 0xFF else 0x00) (hlen : dat.length = 16) :
    offsetz (dat.map F) = (dat.takeWhile cls).length := by
  unfold offsetz vmvnq_u8
  rw [offsetnz_eq _ (by simp [hlen]), List.map_map, List.takeWhile_map, List.length_map]
  congr 1
  apply takeWhile_congr'
  intro b
  simp only [Function.comp, hF b]
  cases cls b <;> decide

/-! ### the kernels on one block -/

-- the `simp only` sets below are deliberately larger than what any single kernel needs
set_option linter.unusedSimpArgs false

/-- unfold every intrinsic to its lane function -/
macro "neon_lanes" hrep:ident : tactic => `(tactic|
  (simp only [vdupq_n_u8, vandq_u8, vorrq_u8, veorq_u8, vbicq_u8, vmvnq_u8, vceqq_u8, vcleq_u8,
     vcgeq_u8, vcltq_u8, vcgtq_u8, vshrq_n_u8, vqtbl1q_u8]
   simp only [$hrep:ident, zipWith_map_map, zipWith_self_map, zipWith_map_self, List.zipWith_self,
     List.map_map]))

theorem match_url_char_16_neon_exact (mem : List Byte) (h : 16 ≤ mem.length) :
    match_url_char_16_neon mem = some ((mem.take 16).takeWhile isUri).length := by
  have hlen : (mem.take 16).length = 16 := by simp; omega
  have hrep := replicate_eq_map (β := Byte) (mem.take 16) 16 hlen
  unfold match_url_char_16_neon
  simp only [vld1q_u8, h, if_true]
  simp only [Option.bind_eq_bind, Option.bind_some, Option.pure_def, bind, pure]
  generalize mem.take 16 = dat at hlen hrep ⊢
  neon_lanes hrep
  congr 1
  refine offsetz_map _ _ _ ?_ hlen
  exact byteFun_eq (by decide +kernel)

theorem match_header_value_char_16_neon_exact (mem : List Byte) (h : 16 ≤ mem.length) :
    match_header_value_char_16_neon mem = some ((mem.take 16).takeWhile isValue).length := by
  have hlen : (mem.take 16).length = 16 := by simp; omega
  have hrep := replicate_eq_map (β := Byte) (mem.take 16) 16 hlen
  unfold match_header_value_char_16_neon
  simp only [vld1q_u8, h, if_true]
  simp only [Option.bind_eq_bind, Option.bind_some, Option.pure_def, bind, pure]
  generalize mem.take 16 = dat at hlen hrep ⊢
  neon_lanes hrep
  congr 1
  refine offsetz_map _ _ _ ?_ hlen
  exact byteFun_eq (by decide +kernel)

/-- the table loads succeed: `build_bitmap` yields a 16-byte row table -/
theorem BITMAPS_fst_length : (BITMAPS).1.length = 16 := by decide +kernel

theorem match_header_name_char_16_neon_exact (mem : List Byte) (h : 16 ≤ mem.length) :
    match_header_name_char_16_neon mem = some ((mem.take 16).takeWhile isTchar).length := by
  have hlen : (mem.take 16).length = 16 := by simp; omega
  have hrep := replicate_eq_map (β := Byte) (mem.take 16) 16 hlen
  unfold match_header_name_char_16_neon
  simp only [vld1q_u8, h, if_true, BITMAPS_fst_length, List.length_cons, List.length_nil,
    Nat.le_refl, Nat.reduceAdd]
  simp only [Option.bind_eq_bind, Option.bind_some, Option.pure_def, bind, pure]
  generalize mem.take 16 = dat at hlen hrep ⊢
  neon_lanes hrep
  congr 1
  refine offsetz_map _ _ _ ?_ hlen
  exact byteFun_eq (by decide +kernel)

/-! ### the block loop -/

/-- With the loop bound and the stop constant both equal to the block size, a kernel that is exact
on the first block and an exact fallback, `Hx.Neon.blockLoop` is exact (for enough fuel). -/
theorem blockLoop_exact {cls : Byte → Bool} {lanes : Nat} {kernel : List Byte → Option Nat}
    {fallback : Scanner} (hl : 0 < lanes)
    (hk : ∀ l, lanes ≤ l.length → kernel l = some ((l.take lanes).takeWhile cls).length)
    (hfb : Scanner.Exact cls fallback) :
    ∀ fuel l, l.length < fuel →
      blockLoop lanes lanes kernel fallback fuel l = some (l.takeWhile cls).length := by
  intro fuel
  induction fuel with
  | zero => intro l h; omega
  | succ fuel ih =>
    intro l hfuel
    unfold blockLoop
    by_cases h : lanes ≤ l.length
    · have htl : (l.take lanes).length = lanes := by simp; omega
      have hle := length_takeWhile_le' cls (l.take lanes)
      have hsplit := takeWhile_block cls lanes l
      simp only [h, hl, and_self, if_true, hk l h]
      rw [if_neg (by omega)]
      by_cases hadv : ((l.take lanes).takeWhile cls).length = lanes
      · -- the whole block is in the class: continue after it
        rw [htl, if_pos hadv] at hsplit
        have hdrop : (l.drop lanes).length < fuel := by simp; omega
        simp only [hadv, bne_self_eq_false, Bool.false_eq_true, if_false, ih _ hdrop,
          Option.map_some, hsplit, List.length_append, htl]
        congr 1
        omega
      · -- the scan stops inside the block
        rw [htl, if_neg hadv] at hsplit
        have : (((l.take lanes).takeWhile cls).length != lanes) = true := by simpa using hadv
        simp only [this, if_true, hsplit]
    · have : ¬ (lanes ≤ l.length ∧ 0 < lanes) := fun hh => h hh.1
      rw [if_neg this]
      exact hfb l

/-! ### the three scanners -/

theorem uri_exact {w : Nat} {le : Bool} (hfb : Scanner.Exact isUri (Swar.uriScanner w le)) :
    Scanner.Exact isUri (match_uri_vectored w le) := fun l => by
  unfold match_uri_vectored
  exact blockLoop_exact (by decide) match_url_char_16_neon_exact hfb (l.length + 1) l
    (Nat.lt_succ_self _)

theorem value_exact {w : Nat} {le : Bool} (hfb : Scanner.Exact isValue (Swar.valueScanner w le)) :
    Scanner.Exact isValue (match_header_value_vectored w le) := fun l => by
  unfold match_header_value_vectored
  exact blockLoop_exact (by decide) match_header_value_char_16_neon_exact hfb (l.length + 1) l
    (Nat.lt_succ_self _)

theorem name_exact {w : Nat} {le : Bool} (hfb : Scanner.Exact isTchar (Swar.nameScanner w)) :
    Scanner.Exact isTchar (match_header_name_vectored w le) := fun l => by
  unfold match_header_name_vectored
  exact blockLoop_exact (by decide) match_header_name_char_16_neon_exact hfb (l.length + 1) l
    (Nat.lt_succ_self _)

end Hx.Gen.Neon
