/-
  Hx.Lemmas.Basic — shared proof infrastructure: deciding a predicate over all 256 bytes, and
  the unfolding lemmas of the parsing monad.
-/
import Hx.Bytes
namespace Hx

/-- A predicate holds for every byte if it holds for the 256 values `UInt8.ofNat i`
(the hypothesis is closed and can be discharged by `decide`). -/
theorem forall_byte {p : Byte → Prop} (h : ∀ i : Fin 256, p (UInt8.ofNat i.val)) : ∀ b : Byte, p b := by
  intro b
  have := h ⟨b.toNat, b.toNat_lt⟩
  simpa using this

/-- Boolean version: a decidable check over the whole table. -/
def allBytesB (f : Byte → Bool) : Bool := (List.range 256).all fun i => f (UInt8.ofNat i)

theorem allBytesB_spec {f : Byte → Bool} (h : allBytesB f = true) : ∀ b : Byte, f b = true := by
  intro b
  unfold allBytesB at h
  rw [List.all_eq_true] at h
  have := h b.toNat (by simp [List.mem_range]; exact b.toNat_lt)
  simpa using this

/-! ### the monad -/

@[simp] theorem run_pure {α : Type} (a : α) (c : Cur) : (pure a : P α).run c = .ok (a, c) := rfl
@[simp] theorem run_bind {α β : Type} (f : P α) (g : α → P β) (c : Cur) :
    (f >>= g).run c = match f.run c with
      | .ok (a, c') => (g a).run c'
      | .part => .part
      | .err e => .err e
      | .ub u => .ub u := rfl
@[simp] theorem run_fail {α : Type} (e : Error) (c : Cur) : (P.fail e : P α).run c = .err e := rfl
@[simp] theorem run_partial {α : Type} (c : Cur) : (P.partial_ : P α).run c = .part := rfl
@[simp] theorem run_undefined {α : Type} (u : UB) (c : Cur) : (P.undefined u : P α).run c = .ub u := rfl
@[simp] theorem run_mk {α : Type} (f : Cur → Outcome (α × Cur)) (c : Cur) : (P.mk f).run c = f c := rfl

example : ∀ b : Byte, isTchar b = true → isValue b = true := by
  have h := allBytesB_spec (f := fun b => !isTchar b || isValue b) (by decide +kernel)
  intro b hb
  have := h b
  simp [hb] at this
  exact this

end Hx
