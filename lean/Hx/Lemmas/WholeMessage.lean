/-
  Hx.Lemmas.WholeMessage — whole requests / responses: the core is accepted ⇔ start line ⧺ a header
  block of the block grammar (C06, C07 `accept_iff` / `accept_fields`).
-/
import Hx.Spec.Grammar
import Hx.Parse.Lines
import Hx.Lemmas.StartGrammar
import Hx.Lemmas.BlockGrammar
namespace Hx

/-- a block of the block grammar at a committed cursor determines the whole result of `finishHeaders` -/
theorem finishHeaders_of_block {V : Type} {be : Backend} (hbe : be.Exact) (hc : HCfg) (cap : Nat)
    (pre rest : List Byte) (v : V) {k : Nat} {hs : List Hdr}
    (hb : BlockSpec hc cap pre.length 0 rest k hs) :
    finishHeaders be hc cap (pre ++ rest) ⟨pre.length, [], rest⟩ v = ⟨.ok (pre.length + k), v, hs⟩ := by
  obtain ⟨c', hrun⟩ := (parseHeadersIter_ok_iff hbe hc cap pre.length rest k hs).mpr hb
  unfold finishHeaders
  simp [hrun, Cur.len]

theorem wf_after (pre rest : List Byte) : (⟨pre.length, [], rest⟩ : Cur).Wf (pre ++ rest) :=
  ⟨pre, rfl, by simp⟩

/-! ### requests -/

theorem reqCore_ok_iff (be : Backend) (hbe : be.Exact) (cfg : Config) (cap : Nat) (buf : List Byte)
    (v₀ : ReqVal) (n : Nat) :
    (reqCore be cfg cap buf v₀).status = .ok n ↔
      ∃ pre mb sp₁ t sp₂ v eol hb k hs, IsRequestLine cfg.multiReq pre mb sp₁ t sp₂ v eol ∧
        buf = requestLineBytes pre mb sp₁ t sp₂ v eol ++ hb ∧
        BlockSpec cfg.reqH cap (requestLineBytes pre mb sp₁ t sp₂ v eol).length 0 hb k hs ∧
        n = (requestLineBytes pre mb sp₁ t sp₂ v eol).length + k := by
  obtain ⟨h1, h2, h3⟩ := reqCore_via_line be cfg cap buf v₀
  constructor
  · intro h
    cases hrun : (reqLineP be cfg.multiReq).run (Cur.new buf) with
    | ok r =>
      obtain ⟨⟨m, p, v⟩, c⟩ := r
      rw [h1 m p v c hrun] at h
      obtain ⟨pre, mb, sp₁, t, sp₂, eol, rest, hl, rfl, rfl, rfl, rfl⟩ :=
        (reqLine_iff be hbe cfg.multiReq buf m p v c).mp hrun
      obtain ⟨k, hs, hb, rfl, -, -⟩ :=
        (finishHeaders_ok_iff be hbe cfg.reqH cap _ _ _ n (wf_after _ rest) rfl).mp h
      exact ⟨pre, mb, sp₁, t, sp₂, v, eol, rest, k, hs, hl, rfl, hb, rfl⟩
    | part => rw [h3 hrun] at h; cases h
    | err e => rw [h2 e hrun] at h; cases h
    | ub u => exact absurd hrun (reqLine_no_ub be hbe cfg.multiReq buf u)
  · rintro ⟨pre, mb, sp₁, t, sp₂, v, eol, hb, k, hs, hl, rfl, hblk, rfl⟩
    have hrun := (reqLine_iff be hbe cfg.multiReq _ _ _ v _).mpr
      ⟨pre, mb, sp₁, t, sp₂, eol, hb, hl, rfl, rfl, rfl, rfl⟩
    rw [h1 _ _ _ _ hrun, finishHeaders_of_block hbe _ _ _ _ _ hblk]

theorem reqCore_ok_fields (be : Backend) (hbe : be.Exact) (cfg : Config) (cap : Nat) (buf : List Byte)
    (v₀ : ReqVal) {pre mb sp₁ t sp₂ eol hb : List Byte} {v k : Nat} {hs : List Hdr}
    (hl : IsRequestLine cfg.multiReq pre mb sp₁ t sp₂ v eol)
    (hb' : buf = requestLineBytes pre mb sp₁ t sp₂ v eol ++ hb)
    (hblk : BlockSpec cfg.reqH cap (requestLineBytes pre mb sp₁ t sp₂ v eol).length 0 hb k hs) :
    (reqCore be cfg cap buf v₀).hdrs = hs ∧
    (reqCore be cfg cap buf v₀).val =
      ⟨some ⟨pre.length, mb⟩, some ⟨pre.length + mb.length + sp₁.length, t⟩, some v⟩ := by
  subst hb'
  have hrun := (reqLine_iff be hbe cfg.multiReq _ _ _ v _).mpr
    ⟨pre, mb, sp₁, t, sp₂, eol, hb, hl, rfl, rfl, rfl, rfl⟩
  rw [(reqCore_via_line be cfg cap _ v₀).1 _ _ _ _ hrun, finishHeaders_of_block hbe _ _ _ _ _ hblk]
  exact ⟨rfl, rfl⟩

/-! ### responses -/

theorem respCore_ok_iff (be : Backend) (hbe : be.Exact) (cfg : Config) (cap : Nat) (buf : List Byte)
    (v₀ : RespVal) (n : Nat) :
    (respCore be cfg cap buf v₀).status = .ok n ↔
      ∃ pre v sp₁ d₁ d₂ d₃ tail ro reason hb k hs, IsStatusLine cfg.multiResp pre v sp₁ d₁ d₂ d₃ tail ro reason ∧
        buf = statusLineBytes pre v sp₁ d₁ d₂ d₃ tail ++ hb ∧
        BlockSpec cfg.respH cap (statusLineBytes pre v sp₁ d₁ d₂ d₃ tail).length 0 hb k hs ∧
        n = (statusLineBytes pre v sp₁ d₁ d₂ d₃ tail).length + k := by
  obtain ⟨h1, h2, h3⟩ := respCore_via_line be cfg cap buf v₀
  constructor
  · intro h
    cases hrun : (respLineP cfg.multiResp).run (Cur.new buf) with
    | ok r =>
      obtain ⟨⟨v, code, r⟩, c⟩ := r
      rw [h1 v code r c hrun] at h
      obtain ⟨pre, sp₁, d₁, d₂, d₃, tail, ro, reason, rest, hl, rfl, rfl, rfl, rfl⟩ :=
        (respLine_iff cfg.multiResp buf v code r c).mp hrun
      obtain ⟨k, hs, hb, rfl, -, -⟩ :=
        (finishHeaders_ok_iff be hbe cfg.respH cap _ _ _ n (wf_after _ rest) rfl).mp h
      exact ⟨pre, v, sp₁, d₁, d₂, d₃, tail, ro, reason, rest, k, hs, hl, rfl, hb, rfl⟩
    | part => rw [h3 hrun] at h; cases h
    | err e => rw [h2 e hrun] at h; cases h
    | ub u => exact absurd hrun (respLine_no_ub cfg.multiResp buf u)
  · rintro ⟨pre, v, sp₁, d₁, d₂, d₃, tail, ro, reason, hb, k, hs, hl, rfl, hblk, rfl⟩
    have hrun := (respLine_iff cfg.multiResp _ v _ _ _).mpr
      ⟨pre, sp₁, d₁, d₂, d₃, tail, ro, reason, hb, hl, rfl, rfl, rfl, rfl⟩
    rw [h1 _ _ _ _ hrun, finishHeaders_of_block hbe _ _ _ _ _ hblk]

theorem respCore_ok_fields (be : Backend) (hbe : be.Exact) (cfg : Config) (cap : Nat) (buf : List Byte)
    (v₀ : RespVal) {pre sp₁ tail hb : List Byte} {v ro k : Nat} {d₁ d₂ d₃ : Byte} {reason : Option (List Byte)}
    {hs : List Hdr}
    (hl : IsStatusLine cfg.multiResp pre v sp₁ d₁ d₂ d₃ tail ro reason)
    (hb' : buf = statusLineBytes pre v sp₁ d₁ d₂ d₃ tail ++ hb)
    (hblk : BlockSpec cfg.respH cap (statusLineBytes pre v sp₁ d₁ d₂ d₃ tail).length 0 hb k hs) :
    (respCore be cfg cap buf v₀).hdrs = hs ∧
    (respCore be cfg cap buf v₀).val =
      ⟨some v, some (codeValue d₁ d₂ d₃), some (reportedReason (pre.length + 8 + sp₁.length + 3 + ro) reason)⟩ := by
  subst hb'
  have hrun := (respLine_iff cfg.multiResp _ v _ _ _).mpr
    ⟨pre, sp₁, d₁, d₂, d₃, tail, ro, reason, hb, hl, rfl, rfl, rfl, rfl⟩
  rw [(respCore_via_line be cfg cap _ v₀).1 _ _ _ _ hrun, finishHeaders_of_block hbe _ _ _ _ _ hblk]
  exact ⟨rfl, rfl⟩

end Hx
