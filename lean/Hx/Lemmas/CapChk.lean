/-
  Hx.Lemmas.CapChk — the capacity law as the decidable predicate `chkC17cap` on a pair of
  observations (C17), derived from `req_capacity_law` / `resp_capacity_law`.
-/
import Hx.Lemmas.Storage
import Hx.Lemmas.Capacity
namespace Hx

def SlotO.isHdr : SlotO → Bool
  | .hdr _ => true
  | _ => false

theorem stored_eq (o : Obs) : o.stored = (o.arrA.filter SlotO.isHdr).length := by
  unfold Obs.stored
  congr 2

theorem filter_isHdr_hdrs (hs : List Hdr) :
    ((hs.map Slot.hdr).map SlotO.ofSlot).filter SlotO.isHdr = (hs.map Slot.hdr).map SlotO.ofSlot := by
  rw [List.filter_eq_self]
  intro s hs'
  simp only [List.mem_map] at hs'
  obtain ⟨_, ⟨h, _, rfl⟩, rfl⟩ := hs'
  rfl

theorem filter_isHdr_sent (l : List Nat) (base : Nat) :
    ((l.map fun k => Slot.old (base + k)).map SlotO.ofSlot).filter SlotO.isHdr = [] := by
  rw [List.filter_eq_nil_iff]
  intro s hs'
  simp only [List.mem_map] at hs'
  obtain ⟨_, ⟨k, _, rfl⟩, rfl⟩ := hs'
  simp [SlotO.ofSlot, SlotO.isHdr]

/-- number of header slots of a sentinel array after a call wrote `hs` -/
theorem stored_write (base cap : Nat) (hs : List Hdr) :
    (((Arr.write (sentinels base cap) hs).map SlotO.ofSlot).filter SlotO.isHdr).length = hs.length := by
  unfold Arr.write sentinels
  rw [← List.map_drop, List.map_append, List.filter_append, filter_isHdr_hdrs, filter_isHdr_sent]
  simp

theorem ofCall_stored {V : Type} (spans : V → List Sp) (nums : V → List (Option Nat))
    (core : Nat → V → Res V) (v : V) (cap : Nat) :
    (Obs.ofCall spans nums (callInit core ⟨v, cap⟩ (sentinels 0 cap)) true []).stored
      = (core cap v).hdrs.length := by
  rw [stored_eq]
  unfold callInit Obs.ofCall
  dsimp only
  generalize core cap v = r
  obtain ⟨st, val, hs⟩ := r
  cases st <;> simp only [if_true] <;> exact stored_write 0 cap hs

theorem ofCall_st {V : Type} (spans : V → List Sp) (nums : V → List (Option Nat))
    (core : Nat → V → Res V) (v : V) (cap : Nat) (arr : Arr) :
    (Obs.ofCall spans nums (callInit core ⟨v, cap⟩ arr) true []).st = St.ofOutcome (core cap v).status := by
  unfold callInit Obs.ofCall
  dsimp only
  generalize core cap v = r
  obtain ⟨st, val, hs⟩ := r
  cases st <;> rfl

theorem ofCall_spans {V : Type} (spans : V → List Sp) (nums : V → List (Option Nat))
    (core : Nat → V → Res V) (v : V) (cap : Nat) (arr : Arr) :
    (Obs.ofCall spans nums (callInit core ⟨v, cap⟩ arr) true []).spans = spans (core cap v).val := by
  unfold callInit Obs.ofCall
  dsimp only
  generalize core cap v = r
  obtain ⟨st, val, hs⟩ := r
  cases st <;> rfl

theorem ofCall_nums {V : Type} (spans : V → List Sp) (nums : V → List (Option Nat))
    (core : Nat → V → Res V) (v : V) (cap : Nat) (arr : Arr) :
    (Obs.ofCall spans nums (callInit core ⟨v, cap⟩ arr) true []).nums = nums (core cap v).val := by
  unfold callInit Obs.ofCall
  dsimp only
  generalize core cap v = r
  obtain ⟨st, val, hs⟩ := r
  cases st <;> rfl

/-- the exposed headers: the headers written on Complete, nothing otherwise -/
theorem ofCall_hdrs_callInit {V : Type} (spans : V → List Sp) (nums : V → List (Option Nat))
    (core : Nat → V → Res V) (v : V) (cap : Nat) (arr : Arr) :
    (Obs.ofCall spans nums (callInit core ⟨v, cap⟩ arr) true []).hdrs =
      if (St.ofOutcome (core cap v).status).isC then (core cap v).hdrs.map HdrO.ofHdr else [] := by
  rw [ofCall_hdrs_eq]
  unfold callInit
  dsimp only
  generalize core cap v = r
  obtain ⟨st, val, hs⟩ := r
  cases st with
  | ok m => simp only [St.ofOutcome, St.isC, if_true, take_write]
  | part => rfl
  | err e => rfl
  | ub u => rfl

/-- the capacity law on observations, for the initialised-array entry point of any core that
satisfies the capacity law on results -/
theorem chkC17cap_callInit {V : Type} (spans : V → List Sp) (nums : V → List (Option Nat))
    (core : Nat → V → Res V) (v : V) (cap cap' : Nat)
    (law : if (core cap' v).hdrs.length ≤ cap then
        (core cap v).status = (core cap' v).status ∧ (core cap v).val = (core cap' v).val ∧
          (core cap v).hdrs = (core cap' v).hdrs
      else (core cap v).status = .err .tooManyHeaders ∧ (core cap v).val = (core cap' v).val ∧
          (core cap v).hdrs = (List.take cap (core cap' v).hdrs)) :
    chkC17cap cap (Obs.ofCall spans nums (callInit core ⟨v, cap⟩ (sentinels 0 cap)) true [])
      (Obs.ofCall spans nums (callInit core ⟨v, cap'⟩ (sentinels 0 cap')) true []) = true := by
  unfold chkC17cap
  simp only [ofCall_stored, ofCall_st, ofCall_spans, ofCall_nums, ofCall_hdrs_callInit]
  split
  · rename_i hc
    rw [if_pos hc] at law
    obtain ⟨h1, h2, h3⟩ := law
    simp [h1, h2, h3]
  · rename_i hc
    rw [if_neg hc] at law
    obtain ⟨h1, _, h3⟩ := law
    have : (core cap v).hdrs.length = cap := by
      rw [h3, List.length_take]; omega
    simp [h1, this, St.ofOutcome]

theorem chkC17cap_reqObs (be : Backend) (hbe : be.Exact) (cfg : Config) (cap cap' : Nat) (h : cap ≤ cap')
    (buf : List Byte) : chkC17cap cap (reqObs be cfg cap buf) (reqObs be cfg cap' buf) = true :=
  chkC17cap_callInit _ _ (fun n v => reqCore be cfg n buf v) _ cap cap'
    (req_capacity_law be hbe cfg cap cap' h buf _)

theorem chkC17cap_respObs (be : Backend) (hbe : be.Exact) (cfg : Config) (cap cap' : Nat) (h : cap ≤ cap')
    (buf : List Byte) : chkC17cap cap (respObs be cfg cap buf) (respObs be cfg cap' buf) = true :=
  chkC17cap_callInit _ _ (fun n v => respCore be cfg n buf v) _ cap cap'
    (resp_capacity_law be hbe cfg cap cap' h buf _)

end Hx
