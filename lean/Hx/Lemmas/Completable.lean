/-
  Hx.Lemmas.Completable — C11 (honest Partial): the theorems used by `Hx/Props/C11.lean`.
-/
import Hx.Lemmas.CompChunk
import Hx.Lemmas.CompHeaders
import Hx.Lemmas.CompStart
import Hx.Lemmas.WrapBasic
import Hx.Lemmas.StableAll
import Hx.Lemmas.Unlimited
namespace Hx
namespace Comp
open SA

/-! ### the capacity exception in terms of the headers written -/

def isHdrSlot : SlotO → Bool
  | .hdr _ => true
  | _ => false

theorem overCapacity_eq (cap : Nat) (o : Obs) :
    overCapacity cap o = ((o.arrA.filter isHdrSlot).length == cap) := by
  unfold overCapacity
  congr 3

theorem hdrCount_write (base cap : Nat) (hs : List Hdr) :
    (((Arr.write (sentinels base cap) hs).map SlotO.ofSlot).filter isHdrSlot).length = hs.length := by
  unfold Arr.write sentinels
  rw [List.map_append, List.filter_append, List.length_append]
  have h1 : ((hs.map Slot.hdr).map SlotO.ofSlot).filter isHdrSlot = (hs.map Slot.hdr).map SlotO.ofSlot := by
    apply List.filter_eq_self.2
    intro s hs'
    simp only [List.mem_map] at hs'
    obtain ⟨_, ⟨h, _, rfl⟩, rfl⟩ := hs'
    rfl
  have h2 : ((((List.range cap).map fun k => Slot.old (base + k)).drop hs.length).map SlotO.ofSlot).filter isHdrSlot = [] := by
    apply List.filter_eq_nil_iff.2
    intro s hs'
    simp only [List.mem_map] at hs'
    obtain ⟨sl, hsl, rfl⟩ := hs'
    have := List.mem_of_mem_drop hsl
    simp only [List.mem_map] at this
    obtain ⟨k, _, rfl⟩ := this
    simp [SlotO.ofSlot, isHdrSlot]
  rw [h1, h2]
  simp

/-! ### a start line followed by the header block -/

theorem new_shift (buf w : List Byte) : (Cur.new buf).shift w = Cur.new (buf ++ w) := by
  simp [Cur.new, Cur.shift]

theorem line_completable {β V : Type} {W : List (List Byte)} {E : Cur → Prop} {be : Backend}
    (hbe : be.Exact) (hc : HCfg) (cap : Nat) (lineP : P β) (mk : β → V) (core : List Byte → Res V)
    (hst : Stable lineP) (hpc : PartC W E (RestIs CRLF) lineP) (hsub : ∀ w ∈ headerTails, w ∈ W)
    (hvia : ∀ buf, Via (fun b c => finishHeaders be hc cap buf c (mk b)) (lineP.run (Cur.new buf)) (core buf))
    (hnoub : ∀ buf u, lineP.run (Cur.new buf) ≠ .ub u)
    (buf : List Byte) (h : (core buf).status = .part) :
    (∃ w ∈ W, ∃ n, (core (buf ++ w)).status = .ok n) ∨ E (Cur.new buf) ∨ ¬ (core buf).hdrs.length < cap := by
  cases hl : lineP.run (Cur.new buf) with
  | part =>
    rcases hpc _ hl with he | ⟨w, hw, a, c', hrun, hq⟩
    · exact Or.inr (Or.inl he)
    · left
      rw [new_shift] at hrun
      have := (hvia (buf ++ w)).1 a c' hrun
      obtain ⟨n, hn⟩ := finishHeaders_crlf be hc cap (buf ++ w) c' (mk a) hq
      exact ⟨w, hw, n, by rw [this]; exact hn⟩
  | ok p =>
    obtain ⟨b, c⟩ := p
    have e := (hvia buf).1 b c hl
    by_cases hlt : (core buf).hdrs.length < cap
    · left
      rw [e] at h hlt
      obtain ⟨w, hw, hfin⟩ := finishHeaders_part hbe hc cap buf c (mk b) h hlt
      have hrun := (hst (Cur.new buf) w).1 b c hl
      rw [new_shift] at hrun
      have := (hvia (buf ++ w)).1 b _ hrun
      obtain ⟨n, hn⟩ := hfin (buf ++ w) (mk b)
      exact ⟨w, hsub w hw, n, by rw [this]; exact hn⟩
    · exact Or.inr (Or.inr hlt)
  | err e =>
    have := (hvia buf).2.1 e hl
    rw [this] at h; cases h
  | ub u => exact absurd hl (hnoub buf u)

theorem ofCall_st {V : Type} (spans : V → List Sp) (nums : V → List (Option Nat))
    (core : Nat → V → Res V) (hd : Handle V) (arr : Arr) :
    (Obs.ofCall spans nums (callInit core hd arr) true []).st = St.ofOutcome (core hd.viewLen hd.val).status := by
  simp [Obs.ofCall, Hx.callInit_status]

theorem ofCall_arrA {V : Type} (spans : V → List Sp) (nums : V → List (Option Nat))
    (core : Nat → V → Res V) (hd : Handle V) (arr : Arr) :
    (Obs.ofCall spans nums (callInit core hd arr) true []).arrA =
      (Arr.write arr (core hd.viewLen hd.val).hdrs).map SlotO.ofSlot := by
  simp only [Obs.ofCall, if_true]
  rw [SA.callInit_eq]
  split <;> rfl

theorem st_part {o : Outcome Nat} (h : St.ofOutcome o = .p) : o = .part := by
  cases o <;> simp [St.ofOutcome] at h ⊢

/-! ### the UTF-8 exception of the request target -/

theorem reqCore_method (be : Backend) (cfg : Config) (cap : Nat) (buf : List Byte) (v : ReqVal)
    (c1 c2 : Cur) (m : Slice) (h1 : skipEmptyLines.run (Cur.new buf) = .ok ((), c1))
    (h2 : parseMethod.run c1 = .ok (m, c2)) :
    (reqCore be cfg cap buf v).val.method = some m := by
  unfold reqCore
  rw [h1]; simp only [step]
  rw [h2]; simp only
  refine step_val_le (le := fun (_ : ReqVal) x => x.method = some m) v _ _ _ rfl fun _ c => ?_
  refine step_val_le (le := fun (_ : ReqVal) x => x.method = some m) v _ _ _ rfl fun _ c => ?_
  refine step_val_le (le := fun (_ : ReqVal) x => x.method = some m) v _ _ _ rfl fun _ c => ?_
  refine step_val_le (le := fun (_ : ReqVal) x => x.method = some m) v _ _ _ rfl fun _ c => ?_
  refine step_val_le (le := fun (_ : ReqVal) x => x.method = some m) v _ _ _ rfl fun _ c => ?_
  rw [finishHeaders_val]

theorem dropWhile_sp (sp : List Byte) (b : Byte) (t : List Byte) (hsp : ∀ x ∈ sp, x = SP) (hb : b ≠ SP) :
    (sp ++ b :: t).dropWhile (· == SP) = b :: t := by
  induction sp with
  | nil => simp [List.dropWhile_cons, hb]
  | cons x sp ih =>
    have hx : x = SP := hsp x (by simp)
    subst hx
    simp only [List.cons_append, List.dropWhile_cons, beq_self_eq_true, if_true]
    exact ih (fun y hy => hsp y (by simp [hy]))

theorem bad_of_E1 (be : Backend) (cfg : Config) (cap : Nat) (buf : List Byte)
    (h : E1 cfg.multiReq (Cur.new buf)) :
    badUtf8Target cfg buf ((reqObs be cfg cap buf).spans.getD 0 .none) = true := by
  obtain ⟨c1, h1, m, c2, h2, c3, h3, h4⟩ := h
  have hm := reqCore_method be cfg cap buf ReqVal.fresh c1 c2 m h1 h2
  obtain ⟨pre, r', hbuf, -, -, rfl⟩ := (skipEmptyLines_ok 0 buf c1).1 h1
  obtain ⟨mb, r'', rfl, hne, -, rfl, rfl⟩ := (parseMethod_ok _ _ _ _).1 h2
  obtain ⟨sp, r3, rfl, hsp, hoff, hon, rfl⟩ := (optSkipSpaces_ok _ _ _ _).1 h3
  have hE : r3.all isUri = true ∧ utf8PrefixOk r3 = false := by
    rcases h4 with h4 | h4
    · exact absurd rfl h4
    · exact h4
  have hspan : (reqObs be cfg cap buf).spans.getD 0 .none = Sp.at (0 + pre.length) mb.length := by
    simp only [reqObs, Obs.ofCall, SA.callInit_val, ReqVal.spans, List.getD_cons_zero, hm, Sp.ofOptSlice, Sp.ofSlice]
    cases mb with
    | nil => exact absurd rfl hne
    | cons x t => simp
  rw [hspan]
  unfold badUtf8Target
  simp only
  have hdrop : buf.drop (0 + pre.length + mb.length + 1) = sp ++ r3 := by
    rw [hbuf]
    have : pre ++ (mb ++ SP :: (sp ++ r3)) = (pre ++ mb ++ [SP]) ++ (sp ++ r3) := by simp
    rw [this]
    apply List.drop_left'
    simp; omega
  rw [hdrop]
  cases hmr : cfg.multiReq with
  | false =>
    have := hoff hmr
    subst this
    simp [hE.1, hE.2]
  | true =>
    obtain ⟨b, t, rfl, hb⟩ := hon hmr
    simp only [if_true]
    rw [dropWhile_sp sp b t hsp hb]
    simp [hE.1, hE.2]

/-! ### counting: every stored header consumed at least one byte -/

theorem headersLoop_count {be : Backend} (hbe : be.Exact) (hc : HCfg) (cap : Nat) :
    ∀ (fuel : Nat) (c : Cur) (hs : List Hdr),
      (headersLoop be hc cap fuel c hs).2.length ≤ hs.length + c.rest.length := by
  intro fuel
  induction fuel with
  | zero => intro c hs; simp [headersLoop]
  | succ fuel ih =>
    intro c hs
    have hl := headerLine_sat hbe hc hs.length c
    rw [headersLoop]
    split
    · simp
    · rename_i c' hrun
      rw [hrun] at hl; simp only [Sat_ok] at hl
      have := ih c' hs
      omega
    · rename_i n v c' hrun
      rw [hrun] at hl; simp only [Sat_ok] at hl
      split
      · have := ih c' (hs ++ [⟨n, trimValue v⟩])
        simp only [List.length_append, List.length_cons, List.length_nil] at this
        omega
      · simp
    · simp
    · simp
    · simp

theorem finishHeaders_count {V : Type} {be : Backend} (hbe : be.Exact) (hc : HCfg) (cap : Nat)
    (buf : List Byte) (c : Cur) (v : V) :
    (finishHeaders be hc cap buf c v).hdrs.length ≤ c.rest.length := by
  have h := headersLoop_count hbe hc cap (c.rest.length + 1) c []
  simp only [List.length_nil, Nat.zero_add] at h
  unfold finishHeaders parseHeadersIter
  generalize headersLoop be hc cap (c.rest.length + 1) c [] = s at h
  obtain ⟨o, hs⟩ := s
  cases o <;> exact h

theorem step_count {α V : Type} [HasSlices α] {f : P α} {c : Cur} {v : V} {k : α → Cur → Res V}
    {buf : List Byte} (hf : Fwd f) (hwf : c.Wf buf)
    (hk : ∀ a c', c'.Wf buf → (k a c').hdrs.length ≤ buf.length) :
    (step (f.run c) v k).hdrs.length ≤ buf.length := by
  unfold step
  split
  · rename_i a c' hrun
    exact hk a c' (hf buf c a c' hwf hrun).1
  all_goals simp

theorem reqCore_count (be : Backend) (hbe : be.Exact) (cfg : Config) (cap : Nat) (buf : List Byte)
    (v : ReqVal) : (reqCore be cfg cap buf v).hdrs.length ≤ buf.length := by
  unfold reqCore
  refine step_count skipEmptyLines_Fwd (Cur.Wf.new buf) fun _ c hwf => ?_
  refine step_count parseMethod_Fwd hwf fun _ c hwf => ?_
  refine step_count (optSkipSpaces_Fwd _) hwf fun _ c hwf => ?_
  refine step_count (parseUri_Fwd be) hwf fun _ c hwf => ?_
  refine step_count (optSkipSpaces_Fwd _) hwf fun _ c hwf => ?_
  refine step_count parseVersion_Fwd hwf fun _ c hwf => ?_
  refine step_count newline_Fwd hwf fun _ c hwf => ?_
  exact Nat.le_trans (finishHeaders_count hbe _ _ _ _ _) hwf.rest_le

end Comp
open Comp SA

theorem req_partial_completable (be : Backend) (hbe : be.Exact) (cfg : Config) (cap : Nat) (buf : List Byte)
    (h : (reqObs be cfg cap buf).st = .p) :
    (∃ w ∈ reqTails, (reqObs be cfg cap (buf ++ w)).st.isC = true) ∨
    badUtf8Target cfg buf ((reqObs be cfg cap buf).spans.getD 0 .none) = true ∨
    overCapacity cap (reqObs be cfg cap buf) = true := by
  have h' := h
  unfold reqObs at h'
  rw [ofCall_st] at h'
  have hp := st_part h'
  rcases line_completable hbe cfg.reqH cap (reqLineP be cfg.multiReq)
      (fun b => (⟨some b.1, some b.2.1, some b.2.2⟩ : ReqVal)) (fun buf => reqCore be cfg cap buf ReqVal.fresh)
      (reqLineP_stable hbe _) (reqLineP_part hbe _) (fun w hw => headerTails_sub_req hw)
      (fun buf => reqCore_via be cfg cap buf ReqVal.fresh) (fun buf u => reqLine_no_ub be hbe _ buf u) buf hp
    with ⟨w, hw, n, hn⟩ | he | hcap
  · left
    refine ⟨w, hw, ?_⟩
    unfold reqObs
    rw [ofCall_st]
    show (St.ofOutcome (reqCore be cfg cap (buf ++ w) ReqVal.fresh).status).isC = true
    rw [hn]; rfl
  · exact Or.inr (Or.inl (bad_of_E1 be cfg cap buf he))
  · right; right
    have hle := reqCore_hdrs_le be cfg cap buf ReqVal.fresh
    unfold reqObs
    rw [overCapacity_eq, ofCall_arrA, hdrCount_write]
    simp only at hcap hle ⊢
    have : (reqCore be cfg cap buf ReqVal.fresh).hdrs.length = cap := by omega
    simp [this]

theorem req_partial_completable_unlimited (be : Backend) (hbe : be.Exact) (cfg : Config) (cap : Nat)
    (buf : List Byte) (hcap : buf.length + 8 ≤ cap) (h : (reqObs be cfg cap buf).st = .p) :
    (∃ w ∈ reqTails, (reqObs be cfg cap (buf ++ w)).st.isC = true) ∨
    badUtf8Target cfg buf ((reqObs be cfg cap buf).spans.getD 0 .none) = true := by
  rcases req_partial_completable be hbe cfg cap buf h with h1 | h2 | h3
  · exact Or.inl h1
  · exact Or.inr h2
  · exfalso
    have hc := reqCore_count be hbe cfg cap buf ReqVal.fresh
    unfold reqObs at h3
    rw [overCapacity_eq, ofCall_arrA, hdrCount_write] at h3
    simp only [beq_iff_eq] at h3
    omega

theorem resp_partial_completable (be : Backend) (hbe : be.Exact) (cfg : Config) (cap : Nat) (buf : List Byte)
    (h : (respObs be cfg cap buf).st = .p) :
    (∃ w ∈ respTails, (respObs be cfg cap (buf ++ w)).st.isC = true) ∨
    overCapacity cap (respObs be cfg cap buf) = true := by
  unfold respObs at h ⊢
  rw [ofCall_st] at h
  have hp := st_part h
  rcases line_completable hbe cfg.respH cap (respLineP cfg.multiResp)
      (fun b => (⟨some b.1, some b.2.1, some b.2.2⟩ : RespVal)) (fun buf => respCore be cfg cap buf RespVal.fresh)
      (respLineP_stable _) (respLineP_part _) (fun w hw => headerTails_sub_resp hw)
      (fun buf => respCore_via be cfg cap buf RespVal.fresh) (fun buf u => respLine_no_ub _ buf u) buf hp
    with ⟨w, hw, n, hn⟩ | he | hcap
  · left
    refine ⟨w, hw, ?_⟩
    rw [ofCall_st]
    show (St.ofOutcome (respCore be cfg cap (buf ++ w) RespVal.fresh).status).isC = true
    rw [hn]; rfl
  · exact he.elim
  · right
    have hle := respCore_hdrs_le be cfg cap buf RespVal.fresh
    rw [overCapacity_eq, ofCall_arrA, hdrCount_write]
    simp only at hcap hle ⊢
    have : (respCore be cfg cap buf RespVal.fresh).hdrs.length = cap := by omega
    simp [this]

theorem hdrs_partial_completable (be : Backend) (hbe : be.Exact) (cap : Nat) (buf : List Byte)
    (h : (hdrsObs be cap buf).st = .p) :
    (∃ w ∈ headerTails, (hdrsObs be cap (buf ++ w)).st.isC = true) ∨
    overCapacity cap (hdrsObs be cap buf) = true := by
  have hle := parseHeaders_hdrs_le be cap buf
  cases hp : parseHeadersIter be HCfg.default cap (Cur.new buf) with
  | mk o hs =>
    cases o with
    | ok q =>
      obtain ⟨n, c⟩ := q
      have hph : parseHeaders be cap buf = (.ok n, hs) := by simp [parseHeaders, hp]
      simp [hdrsObs, hph, St.ofOutcome] at h
    | err e =>
      have hph : parseHeaders be cap buf = (.err e, hs) := by simp [parseHeaders, hp]
      simp [hdrsObs, hph, St.ofOutcome] at h
    | ub u =>
      have hph : parseHeaders be cap buf = (.ub u, hs) := by simp [parseHeaders, hp]
      simp [hdrsObs, hph, St.ofOutcome] at h
    | part =>
      have hph : parseHeaders be cap buf = (.part, hs) := by simp [parseHeaders, hp]
      rw [hph] at hle
      simp only at hle
      by_cases hlt : hs.length < cap
      · left
        obtain ⟨w, hw, n, c', hs'', hrun⟩ := parseHeadersIter_part hbe HCfg.default cap _ hs hp hlt
        refine ⟨w, hw, ?_⟩
        have e : (Cur.new buf).shift w = Cur.new (buf ++ w) := by simp [Cur.new, Cur.shift]
        rw [e] at hrun
        simp [hdrsObs, parseHeaders, hrun, St.ofOutcome, St.isC]
      · right
        have : hs.length = cap := by omega
        rw [overCapacity_eq]
        simp only [hdrsObs, hph, hdrCount_write, this, beq_self_eq_true]

end Hx
