/-
  Hx.Lemmas.Wrappers — the lemmas behind C16 (entry points agree), C17 (header storage) and
  C18 (history independence).

  * `Hx.Lemmas.WrapBasic`: `callInit` / `callUninit`, history independence, init/uninit agreement
  * `Hx.Lemmas.Storage`: the storage law `chkC17`
  * `Hx.Lemmas.Capacity`, `Hx.Lemmas.Unlimited`: the capacity law, "unlimited"
  * `Hx.Lemmas.ShiftInv`: offset-shift invariance of the header block
  * here: `parse_headers(h)` vs. the header part of a message `line ++ h`
-/
import Hx.Spec.Grammar
import Hx.Lemmas.WrapBasic
import Hx.Lemmas.Storage
import Hx.Lemmas.Capacity
import Hx.Lemmas.Unlimited
import Hx.Lemmas.ShiftInv
import Hx.Lemmas.StartGrammar
namespace Hx

theorem Sp.ofSlice_shift (d : Nat) (s : Slice) : Sp.ofSlice (s.shift d) = (Sp.ofSlice s).shift d := by
  unfold Sp.ofSlice Slice.shift
  dsimp only
  split <;> rfl

theorem HdrO.ofHdr_shift (d : Nat) (hs : List Hdr) :
    (hs.map (Hdr.shift d)).map HdrO.ofHdr =
      (hs.map HdrO.ofHdr).map (fun x => (⟨x.name.shift d, x.value.shift d⟩ : HdrO)) := by
  simp only [List.map_map]
  congr 1
  funext h
  simp [HdrO.ofHdr, Hdr.shift, Sp.ofSlice_shift]

/-- `parse_headers(h)` vs. a core that, on `line ++ h`, reaches the header block at the end of
`line` with the default header options -/
theorem chkC16rel_of_finish {V : Type} (be : Backend) (hbe : be.Exact) (spans : V → List Sp)
    (nums : V → List (Option Nat)) (core : Nat → V → Res V) (v₀ v' : V) (cap : Nat) (line h : List Byte)
    (hcore : core cap v₀ = finishHeaders be HCfg.default cap (line ++ h) ⟨line.length, [], h⟩ v') :
    chkC16rel line.length (hdrsObs be cap h)
      (Obs.ofCall spans nums (callInit core ⟨v₀, cap⟩ (sentinels 0 cap)) true []) = true := by
  have hc : (⟨line.length, [], h⟩ : Cur) = (Cur.new h).shiftOff line.length := by
    simp [Cur.new, Cur.shiftOff]
  have hsh := parseHeadersIter_sh line.length be HCfg.default cap (Cur.new h)
  have hub := parseHeadersIter_no_ub hbe HCfg.default cap (Cur.new h)
  unfold chkC16rel
  rw [ofCall_hdrs_eq]
  unfold callInit hdrsObs parseHeaders
  dsimp only
  rw [hcore]
  unfold finishHeaders
  dsimp only
  rw [hc, hsh]
  generalize parseHeadersIter be HCfg.default cap (Cur.new h) = r at hub
  obtain ⟨o, hs⟩ := r
  have hlen : (line ++ h).length - ((Cur.new h).shiftOff line.length).len = line.length := by
    simp [Cur.len, Cur.new]
  rw [hlen]
  cases o with
  | ok p =>
    obtain ⟨n, c'⟩ := p
    simp only [Outcome.map, St.ofOutcome, St.isC, if_true, take_write]
    simp only [Obs.ofCall, St.ofOutcome, HdrO.ofHdr_shift]
    simp [Nat.add_comm]
  | part => simp [Outcome.map, Obs.ofCall, St.ofOutcome, St.isC]
  | err e => simp [Outcome.map, Obs.ofCall, St.ofOutcome, St.isC]
  | ub u => exact absurd rfl (hub u)

theorem hdrs_rel_request (be : Backend) (hbe : be.Exact) (cap : Nat) (h : List Byte)
    {pre mb sp₁ t sp₂ eol : List Byte} {v : Nat} (hl : IsRequestLine false pre mb sp₁ t sp₂ v eol) :
    chkC16rel (requestLineBytes pre mb sp₁ t sp₂ v eol).length (hdrsObs be cap h)
      (reqObs be Config.default cap (requestLineBytes pre mb sp₁ t sp₂ v eol ++ h)) = true := by
  have hrun := (reqLine_iff be hbe false (requestLineBytes pre mb sp₁ t sp₂ v eol ++ h) _ _ v _).2
    ⟨pre, mb, sp₁, t, sp₂, eol, h, hl, rfl, rfl, rfl, rfl⟩
  have hcore := (reqCore_via_line be Config.default cap
    (requestLineBytes pre mb sp₁ t sp₂ v eol ++ h) ReqVal.fresh).1 _ _ _ _ hrun
  exact chkC16rel_of_finish be hbe ReqVal.spans ReqVal.nums _ ReqVal.fresh _ cap _ h hcore

theorem hdrs_rel_response (be : Backend) (hbe : be.Exact) (cap : Nat) (h : List Byte)
    {pre sp₁ tail : List Byte} {v ro : Nat} {d₁ d₂ d₃ : Byte} {reason : Option (List Byte)}
    (hl : IsStatusLine false pre v sp₁ d₁ d₂ d₃ tail ro reason) :
    chkC16rel (statusLineBytes pre v sp₁ d₁ d₂ d₃ tail).length (hdrsObs be cap h)
      (respObs be Config.default cap (statusLineBytes pre v sp₁ d₁ d₂ d₃ tail ++ h)) = true := by
  have hrun := (respLine_iff false (statusLineBytes pre v sp₁ d₁ d₂ d₃ tail ++ h) v _ _ _).2
    ⟨pre, sp₁, d₁, d₂, d₃, tail, ro, reason, h, hl, rfl, rfl, rfl, rfl⟩
  have hcore := (respCore_via_line be Config.default cap
    (statusLineBytes pre v sp₁ d₁ d₂ d₃ tail ++ h) RespVal.fresh).1 _ _ _ _ hrun
  exact chkC16rel_of_finish be hbe RespVal.spans RespVal.nums _ RespVal.fresh _ cap _ h hcore

end Hx
