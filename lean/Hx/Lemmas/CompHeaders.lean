/-
  Hx.Lemmas.CompHeaders — C11 for the header block: a header line returning Partial is completed
  by one of the `headerTails`, after which the block ends.
-/
import Hx.Lemmas.CompBase
import Hx.Lemmas.StartGrammar
namespace Hx
namespace Comp
open SA

theorem CR_ne_LF : (CR == LF) = false := by decide
theorem LF_ne_CR : (LF == CR) = false := by decide
theorem CR_ne_NUL : (CR == NUL) = false := by decide
theorem isWs_CR : isWs CR = false := by decide
theorem isWs_LF : isWs LF = false := by decide
theorem isWs_COLON : isWs COLON = false := by decide
theorem isValue_CR : isValue CR = false := by decide
theorem isValue_LF : isValue LF = false := by decide
theorem isTchar_COLON : isTchar COLON = false := by decide
theorem isTchar_CR : isTchar CR = false := by decide

/-! ### `handle_invalid_char!` -/

theorem invalidLoop_part (e : Error) (s : Nat) : ∀ (rest : List Byte) (b : Byte) (tok : List Byte),
    invalidLoop e s b tok rest = .part →
    ∃ w, (w = T1 ∨ w = T2) ∧ ∃ s', invalidLoop e s b tok (rest ++ w) = .ok ((), ⟨s', [], CRLF⟩) := by
  intro rest
  induction rest with
  | nil =>
    intro b tok h
    rw [invalidLoop_unfold] at h
    split at h
    · rename_i hb
      refine ⟨T2, Or.inr rfl, ?_⟩
      simp only [invalidLoop_unfold e s b, hb, if_true, List.nil_append, T2, beq_self_eq_true, CRLF]
      exact ⟨_, rfl⟩
    · rename_i h1
      split at h
      · cases h
      · rename_i h2
        split at h
        · cases h
        · rename_i h3
          refine ⟨T1, Or.inl rfl, ?_⟩
          simp only [invalidLoop_unfold e s b, h1, h2, h3, List.nil_append, T1]
          simp only [invalidLoop_unfold e s CR, beq_self_eq_true, if_true, CRLF]
          exact ⟨_, rfl⟩
  | cons b2 r2 ih =>
    intro b tok h
    rw [invalidLoop_unfold] at h
    split at h
    · by_cases hb2 : (b2 == LF) = true <;> simp [hb2] at h
    · rename_i h1
      split at h
      · cases h
      · rename_i h2
        split at h
        · cases h
        · rename_i h3
          obtain ⟨w, hw, s', hr⟩ := ih b2 (tok ++ [b2]) h
          refine ⟨w, hw, s', ?_⟩
          rw [invalidLoop_unfold]
          simp only [h1, h2, h3, List.cons_append]
          exact hr

def EndsCRLF {α : Type} : α → Cur → Prop := fun _ c => c.rest = CRLF

theorem handleInvalid_part (hc : HCfg) (e : Error) (b : Byte) :
    PartC headerTails NoE EndsCRLF (handleInvalid hc e b) := by
  intro c h
  unfold handleInvalid at h ⊢
  split at h
  · simp at h
  · rename_i hign
    simp only [run_mk] at h
    obtain ⟨w, hw, s', hr⟩ := invalidLoop_part e c.start c.rest b c.tok h
    right
    refine ⟨w, ?_, (), ⟨s', [], CRLF⟩, ?_, rfl⟩
    · rcases hw with rfl | rfl
      · exact t1_mem
      · exact t2_mem
    · simp only [hign, if_false, run_mk, shift_rest, shift_start, shift_tok]
      exact hr

/-! ### spaces after the header name -/

theorem sanLoop_part (s : Nat) : ∀ (rest tok : List Byte), sanLoop s tok rest = .part →
    ∃ s', sanLoop s tok (rest ++ T3) = .ok (none, ⟨s', [], T1⟩)
  | [], tok, _ => ⟨_, by simp [sanLoop, T3, T1]; rfl⟩
  | b :: r, tok, h => by
    rw [sanLoop] at h
    rw [List.cons_append, sanLoop]
    split at h
    · cases h
    · rename_i h1
      split at h
      · rename_i h2
        simp only [h1, h2, if_false, if_true]
        exact sanLoop_part s r _ h
      · cases h

/-! ### whitespace after the colon -/

def WsDone (hc : HCfg) (s : Nat) (tok rest : List Byte) : Prop :=
  ∃ w ∈ headerTails, ∃ r c', r ≠ WsRes.value ∧ c'.rest = CRLF ∧ wsAfterColon hc s tok (rest ++ w) = .ok (r, c')

theorem wsAfterColon_T1 (hc : HCfg) (s : Nat) (tok : List Byte) :
    wsAfterColon hc s tok T1 = .ok (.empty ⟨s, []⟩, ⟨s + (tok ++ [CR, LF]).length, [], CRLF⟩) := by
  simp only [T1, wsAfterColon_cons hc s tok CR, isWs_CR, isValue_CR, beq_self_eq_true, if_true]
  cases hc.fold <;> simp [CRLF] <;> rfl

theorem wsAfterColon_part (hc : HCfg) : ∀ (rest : List Byte) (s : Nat) (tok : List Byte),
    wsAfterColon hc s tok rest = .part → WsDone hc s tok rest
  | [], s, tok, _ => by
    refine ⟨T1, t1_mem, .empty ⟨s, []⟩, ⟨s + (tok ++ [CR, LF]).length, [], CRLF⟩, by simp, rfl, ?_⟩
    simp only [List.nil_append, T1, wsAfterColon_cons hc s tok CR, isWs_CR, isValue_CR, beq_self_eq_true, if_true]
    cases hc.fold <;> simp [CRLF] <;> rfl
  | b :: r, s, tok, h => by
    rw [wsAfterColon_cons] at h
    unfold WsDone
    simp only [List.cons_append, wsAfterColon_cons hc s tok b]
    split at h
    · rename_i h1
      simp only [h1, if_true]
      exact wsAfterColon_part hc r _ _ h
    · rename_i h1
      simp only [h1]
      split at h
      · cases h
      · rename_i h2
        simp only [h2]
        split at h
        · rename_i h3
          simp only [h3, if_true]
          cases r with
          | nil =>
            refine ⟨T2, t2_mem, .empty ⟨s, []⟩, ⟨s + (tok ++ [b, LF]).length, [], CRLF⟩, by simp, rfl, ?_⟩
            simp only [List.nil_append, T2, beq_self_eq_true, if_true]
            cases hc.fold <;> simp [CRLF, isWs_CR]
          | cons b2 r2 =>
            simp only [List.cons_append] at h ⊢
            split at h
            · rename_i h5
              simp only [h5, if_true]
              split at h
              · rename_i h6
                simp only [h6, if_true]
                cases r2 with
                | nil =>
                  refine ⟨CRLF, crlf_mem, .empty ⟨s, []⟩, ⟨s + (tok ++ [b, b2]).length, [], CRLF⟩, by simp, rfl, ?_⟩
                  simp [CRLF, isWs_CR]
                | cons p r3 =>
                  simp only [List.cons_append] at h ⊢
                  split at h
                  · rename_i h7
                    simp only [h7, if_true]
                    have := wsAfterColon_part hc (p :: r3) _ _ h
                    exact this
                  · cases h
              · cases h
            · cases h
        · rename_i h3
          simp only [h3]
          split at h
          · rename_i h4
            simp only [h4, if_true]
            split at h
            · rename_i h6
              simp only [h6, if_true]
              cases r with
              | nil =>
                refine ⟨CRLF, crlf_mem, .empty ⟨s, []⟩, ⟨s + (tok ++ [b]).length, [], CRLF⟩, by simp, rfl, ?_⟩
                simp [CRLF, isWs_CR]
              | cons p r3 =>
                simp only [List.cons_append] at h ⊢
                split at h
                · rename_i h7
                  simp only [h7, if_true]
                  have := wsAfterColon_part hc (p :: r3) _ _ h
                  exact this
                · cases h
            · cases h
          · rename_i h4
            simp only [h4]
            cases hr : (handleInvalid hc .headerValue b).run ⟨s, tok ++ [b], r⟩ with
            | ok q => rw [hr] at h; cases h
            | err e => rw [hr] at h; cases h
            | ub u => rw [hr] at h; cases h
            | part =>
              rcases handleInvalid_part hc .headerValue b _ hr with he | ⟨w, hw, a, c', hrun, hq⟩
              · exact he.elim
              · simp only [shift_mk] at hrun
                refine ⟨w, hw, .skipped, c', by simp, hq, ?_⟩
                simp [hrun]
termination_by rest => rest.length

/-! ### value lines -/

/-- the end-of-line handling of `'value_lines` (`k` = length of the line end consumed) -/
def vlEol (be : Backend) (hc : HCfg) (fuel k : Nat) : P (Option Slice) :=
  if hc.fold then
    ⟨fun c => match c.rest with
      | [] => .part
      | p :: _ => if isWs p then (valueLines be hc fuel).run c
                  else (do let s ← sliceSkip k; pure (some s) : P (Option Slice)).run c⟩
  else do let s ← sliceSkip k; pure (some s)

/-- one iteration of `'value_lines` after the scanner stopped at `b` -/
def vlBody (be : Backend) (hc : HCfg) (fuel : Nat) (b : Byte) : P (Option Slice) :=
  if b == CR then do
    let _ ← expect (· == LF) .headerValue
    vlEol be hc fuel 2
  else if b == LF then vlEol be hc fuel 1
  else do handleInvalid hc .headerValue b; pure none

theorem valueLines_succ (be : Backend) (hc : HCfg) (fuel : Nat) :
    valueLines be hc (fuel + 1) = (do let (_, b) ← scanNext be.value; vlBody be hc fuel b) := rfl

theorem sliceSome_run (k : Nat) (c : Cur) :
    (do let s ← sliceSkip k; pure (some s) : P (Option Slice)).run c =
      if k ≤ c.tok.length then
        .ok (some ⟨c.start, c.tok.take (c.tok.length - k)⟩, ⟨c.start + c.tok.length, [], c.rest⟩)
      else .ub .sliceSkip := by
  simp only [run_bind, sliceSkip]
  by_cases h : k ≤ c.tok.length <;> simp [h]

theorem vlEol_done (be : Backend) (hc : HCfg) (fuel k : Nat) (c : Cur) (hk : k ≤ c.tok.length)
    (hr : c.rest = CRLF) : ∃ v c', (vlEol be hc fuel k).run c = .ok (v, c') ∧ c'.rest = CRLF := by
  unfold vlEol
  cases hc.fold
  · simp only [Bool.false_eq_true, if_false, sliceSome_run, hk, if_true]
    exact ⟨_, _, rfl, hr⟩
  · simp only [if_true, run_mk, hr, CRLF, isWs_CR, Bool.false_eq_true, if_false, sliceSome_run, hk]
    exact ⟨_, _, rfl, rfl⟩

theorem vlEol_part (be : Backend) (hc : HCfg) (fuel k : Nat)
    (ih : PartC headerTails NoE EndsCRLF (valueLines be hc fuel)) :
    PartC headerTails (fun c => c.tok.length < k) EndsCRLF (vlEol be hc fuel k) := by
  intro c h
  by_cases hk : c.tok.length < k
  · exact Or.inl hk
  have hk' : k ≤ c.tok.length := Nat.le_of_not_lt hk
  right
  unfold vlEol at h ⊢
  cases hf : hc.fold with
  | false =>
    simp only [hf, Bool.false_eq_true, if_false, sliceSome_run, hk', if_true] at h
    cases h
  | true =>
    simp only [hf, if_true, run_mk] at h ⊢
    cases hr : c.rest with
    | nil =>
      refine ⟨CRLF, crlf_mem, ?_⟩
      simp only [shift_rest, hr, List.nil_append, CRLF, isWs_CR, Bool.false_eq_true, if_false, sliceSome_run,
        shift_tok, hk', if_true]
      exact ⟨_, _, rfl, rfl⟩
    | cons p r =>
      rw [hr] at h
      simp only at h
      split at h
      · rename_i hp
        rcases ih c h with he | ⟨w, hw, a, c', hrun, hq⟩
        · exact he.elim
        · refine ⟨w, hw, a, c', ?_, hq⟩
          simp only [shift_rest, hr, List.cons_append, hp, if_true]
          exact hrun
      · simp only [sliceSome_run, hk', if_true] at h
        cases h

theorem vlBody_part (be : Backend) (hc : HCfg) (fuel : Nat) (b : Byte)
    (ih : PartC headerTails NoE EndsCRLF (valueLines be hc fuel)) :
    PartC headerTails (fun c => c.tok = []) EndsCRLF (vlBody be hc fuel b) := by
  unfold vlBody
  apply PartC.dite
  · refine PartC.bind (expect_stable _ _)
      (expect_part2 (fun x => x == LF) .headerValue LF CRLF t2_mem (by decide))
      (fun _ => vlEol_part be hc fuel 2 ih) ?_ (fun _ h => h) ?_
    · rintro a c ⟨-, hr, ht⟩
      exact vlEol_done be hc fuel 2 c ht hr
    · intro c a c1 hrun hlt
      obtain ⟨s, tok, r⟩ := c
      obtain ⟨r', -, -, rfl⟩ := (expect_ok _ _ _ _ _ _ _).1 hrun
      simp at hlt
      cases tok with
      | nil => rfl
      | cons x t => simp at hlt; omega
  · apply PartC.dite
    · refine (vlEol_part be hc fuel 1 ih).mono (fun _ h => h) ?_ (fun _ _ h => h)
      intro c h
      cases ht : c.tok with
      | nil => rfl
      | cons x t => rw [ht] at h; simp at h
    · refine (PartC.bind0 (handleInvalid_stable _ _ _) (handleInvalid_part hc .headerValue b)
        (fun _ => PartC.pure _) ?_).mono (fun _ h => h) (fun _ h => h.elim) (fun _ _ h => h)
      intro a c hq
      exact ⟨none, c, rfl, hq⟩

theorem valueLines_partC {be : Backend} (hbe : be.Exact) (hc : HCfg) : ∀ fuel : Nat,
    PartC headerTails NoE EndsCRLF (valueLines be hc fuel)
  | 0 => PartC.of_never (by intro c; simp [valueLines])
  | fuel + 1 => by
    have ih := valueLines_partC hbe hc fuel
    rw [valueLines_succ]
    refine PartC.bind (scanNext_stable hbe.value)
      (scanNext_part hbe.value CR T2 t1_mem isValue_CR)
      (fun r => vlBody_part be hc fuel r.2 ih) ?_ (fun _ h => h) ?_
    · rintro ⟨n, b⟩ c ⟨hb, hr, ht⟩
      simp only at hb
      subst hb
      obtain ⟨s, tok, r⟩ := c
      simp only at hr ht
      subst hr
      have h1 : (expect (fun x => x == LF) Error.headerValue).run ⟨s, tok, T2⟩ = .ok (LF, ⟨s, tok ++ [LF], CRLF⟩) :=
        (expect_ok _ _ _ _ _ _ _).2 ⟨CRLF, rfl, by decide, rfl⟩
      obtain ⟨v, c', h2, h3⟩ := vlEol_done be hc fuel 2 ⟨s, tok ++ [LF], CRLF⟩
        (by cases tok with
            | nil => exact absurd rfl ht
            | cons x t => simp) rfl
      refine ⟨v, c', ?_, h3⟩
      simp only [vlBody, beq_self_eq_true, if_true, run_bind, h1]
      exact h2
    · rintro c ⟨n, b⟩ c1 hrun ht
      rw [scanNext_run hbe.value] at hrun
      split at hrun
      · cases hrun
      · simp only [Outcome.ok.injEq, Prod.mk.injEq] at hrun
        rw [← hrun.2] at ht
        simp at ht

/-- the `'value_lines` loop as `headerLine` calls it -/
theorem valueStage_part {be : Backend} (hbe : be.Exact) (hc : HCfg) :
    PartC headerTails NoE EndsCRLF
      (⟨fun c => (valueLines be hc (c.rest.length + 1)).run c⟩ : P (Option Slice)) := by
  intro c h
  simp only [run_mk] at h
  rcases valueLines_partC hbe hc _ c h with he | ⟨w, hw, a, c', hrun, hq⟩
  · exact he.elim
  · right
    refine ⟨w, hw, a, c', ?_, hq⟩
    simp only [run_mk, shift_rest, List.length_append]
    have := valueLines_ext hbe hc (c.rest.length + 1) w.length (c.shift w) []
    rw [hrun] at this
    simp only [SE_ok] at this
    have e : c.rest.length + w.length + 1 = c.rest.length + 1 + w.length := by omega
    rw [e, show (c.shift w) = (c.shift w).shift [] from by simp [Cur.shift], this]
    simp [Cur.shift]

/-! ### the stages of one header line -/

def sanStage : P (Option Byte) := ⟨fun c => sanLoop c.start c.tok c.rest⟩
def wsStage (hc : HCfg) : P WsRes := ⟨fun c => wsAfterColon hc c.start c.tok c.rest⟩

theorem sanStage_stable : Stable sanStage :=
  stable_of_loop _ fun start tok rest ext => sanLoop_se start ext rest tok

theorem sanStage_part : PartC headerTails NoE (fun r c => r = none ∧ c.rest = T1) sanStage := by
  intro c h
  obtain ⟨s', hr⟩ := sanLoop_part c.start c.rest c.tok h
  exact Or.inr ⟨T3, t3_mem, none, _, hr, rfl, rfl⟩

theorem wsStage_part (hc : HCfg) :
    PartC headerTails NoE (fun w c => w ≠ WsRes.value ∧ c.rest = CRLF) (wsStage hc) := by
  intro c h
  obtain ⟨w, hw, r, c', h1, h2, h3⟩ := wsAfterColon_part hc c.rest c.start c.tok h
  exact Or.inr ⟨w, hw, r, c', h3, h1, h2⟩

def NameDone (nm : Option Slice) (c : Cur) : Prop :=
  (nm.isSome = true ∧ c.rest = T1) ∨ (nm = none ∧ c.rest = CRLF)

theorem invalidNone_part (hc : HCfg) (e : Error) (b : Byte) :
    PartC headerTails NoE NameDone (do handleInvalid hc e b; pure none : P (Option Slice)) := by
  refine PartC.bind0 (handleInvalid_stable _ _ _) (handleInvalid_part hc e b) (fun _ => PartC.pure _) ?_
  intro a c hq
  exact ⟨none, c, rfl, Or.inr ⟨rfl, hq⟩⟩

theorem nameStage_part {be : Backend} (hbe : be.Exact) (hc : HCfg) :
    PartC headerTails NoE NameDone (nameStage be hc) := by
  unfold nameStage
  refine PartC.bind0 (scanNext_stable hbe.name) (scanNext_part hbe.name COLON T1 t3_mem isTchar_COLON) ?_ ?_
  · rintro ⟨n, b⟩
    dsimp only
    refine PartC.bind0 (Qf := fun _ _ => False) (sliceSkip_stable 1) (PartC.of_never ?_) ?_ (fun _ _ h => h.elim)
    · intro c; simp only [sliceSkip, run_mk]; split <;> simp
    intro name
    apply PartC.dite
    · exact PartC.pure _
    · apply PartC.dite
      · refine PartC.bind0 sanStage_stable sanStage_part ?_ ?_
        · intro r
          cases r with
          | none => exact PartC.pure _
          | some b' => exact invalidNone_part hc _ b'
        · rintro r c ⟨rfl, hr⟩
          exact ⟨some name, c, rfl, Or.inl ⟨rfl, hr⟩⟩
      · exact invalidNone_part hc _ b
  · rintro ⟨n, b⟩ c ⟨hb, hr, ht⟩
    simp only at hb
    subst hb
    have h1 : 1 ≤ c.tok.length := by
      cases hh : c.tok with
      | nil => exact absurd hh ht
      | cons x t => simp
    refine ⟨some ⟨c.start, c.tok.take (c.tok.length - 1)⟩, ⟨c.start + c.tok.length, [], c.rest⟩, ?_, Or.inl ⟨rfl, hr⟩⟩
    simp [sliceSkip, h1]

def LineDone (l : Line) (c : Cur) : Prop := l = .eoh ∨ c.rest = CRLF

theorem headerLine_eq (be : Backend) (hc : HCfg) (nStored : Nat) :
    headerLine be hc nStored = (do
      let b ← next
      if b == CR then
        let _ ← expect (· == LF) .newLine
        pure .eoh
      else if b == LF then pure .eoh
      else if !isTchar b then
        if hc.sbf && nStored == 0 && isWs b then
          skipWsRun
          let _ ← slice
          pure .skipped
        else do handleInvalid hc .headerName b; pure .skipped
      else
        let nm ← nameStage be hc
        match nm with
        | none => pure .skipped
        | some name =>
          let w ← wsStage hc
          match w with
          | .skipped => pure .skipped
          | .empty v => pure (.header name v)
          | .value =>
            let v ← (⟨fun c => (valueLines be hc (c.rest.length + 1)).run c⟩ : P (Option Slice))
            match v with
            | none => pure .skipped
            | some v => pure (.header name v)) := rfl

theorem headerLine_part {be : Backend} (hbe : be.Exact) (hc : HCfg) (n : Nat) :
    PartC headerTails NoE LineDone (headerLine be hc n) := by
  rw [headerLine_eq]
  refine PartC.bind0 next_stable (next_part CR [LF] crlf_mem) ?_ ?_
  · intro b
    apply PartC.dite
    · refine PartC.bind0 (expect_stable _ _) (expect_part (fun x => x == LF) .newLine LF [] lf_mem (by decide))
        (fun _ => PartC.pure _) ?_
      intro a c _
      exact ⟨.eoh, c, rfl, Or.inl rfl⟩
    · apply PartC.dite
      · exact PartC.pure _
      · apply PartC.dite
        · apply PartC.dite
          · apply PartC.of_never
            intro c
            simp [skipWsRun, slice]
          · refine PartC.bind0 (handleInvalid_stable _ _ _) (handleInvalid_part hc _ b) (fun _ => PartC.pure _) ?_
            intro a c hq
            exact ⟨.skipped, c, rfl, Or.inr hq⟩
        · refine PartC.bind0 (nameStage_stable hbe hc) (nameStage_part hbe hc) ?_ ?_
          · intro nm
            cases nm with
            | none => exact PartC.pure _
            | some name =>
              dsimp only
              refine PartC.bind0 (wsStage_stable hc) (wsStage_part hc) ?_ ?_
              · intro w
                cases w with
                | skipped => exact PartC.pure _
                | empty v => exact PartC.pure _
                | value =>
                  dsimp only
                  refine PartC.bind0 (valueStage_stable hbe hc) (valueStage_part hbe hc) ?_ ?_
                  · intro v
                    cases v <;> exact PartC.pure _
                  · intro v c hq
                    cases v with
                    | none => exact ⟨.skipped, c, rfl, Or.inr hq⟩
                    | some v => exact ⟨.header name v, c, rfl, Or.inr hq⟩
              · rintro w c ⟨hw, hr⟩
                cases w with
                | skipped => exact ⟨.skipped, c, rfl, Or.inr hr⟩
                | empty v => exact ⟨.header name v, c, rfl, Or.inr hr⟩
                | value => exact absurd rfl hw
          · rintro nm c (⟨hs, hr⟩ | ⟨rfl, hr⟩)
            · cases nm with
              | none => cases hs
              | some name =>
                refine ⟨.header name ⟨c.start, []⟩, ⟨c.start + (c.tok ++ [CR, LF]).length, [], CRLF⟩, ?_, Or.inr rfl⟩
                simp only [run_bind, wsStage, run_mk, hr, wsAfterColon_T1]
                rfl
            · exact ⟨.skipped, c, rfl, Or.inr hr⟩
  · rintro b c ⟨rfl, hr⟩
    refine ⟨.eoh, ⟨c.start, c.tok ++ [LF], []⟩, ?_, Or.inl rfl⟩
    simp [expect, next, hr]

/-! ### stability for an appended tail that does not start with whitespace -/

def StableAt {α : Type} (ext : List Byte) (f : P α) : Prop :=
  ∀ c, SE ext (f.run c) (f.run (c.shift ext))

theorem StableAt.of_stable {α : Type} {ext : List Byte} {f : P α} (h : Stable f) : StableAt ext f :=
  fun c => se_of h c ext

theorem StableAt.bind {α β : Type} {ext : List Byte} {f : P α} {g : α → P β}
    (hf : Stable f) (hg : ∀ a, StableAt ext (g a)) : StableAt ext (f >>= g) := by
  intro c
  have h1 := se_of hf c ext
  simp only [run_bind]
  cases hr : f.run c with
  | ok p =>
    obtain ⟨a, c1⟩ := p
    rw [hr] at h1; simp only [SE_ok] at h1
    rw [h1]; exact hg a c1
  | part => trivial
  | err e => rw [hr] at h1; simp only [SE_err] at h1; rw [h1]; rfl
  | ub u => trivial

theorem StableAt.dite {α : Type} {ext : List Byte} {p : Prop} [Decidable p] {f g : P α}
    (hf : StableAt ext f) (hg : StableAt ext g) : StableAt ext (if p then f else g) := by
  split <;> assumption

theorem wsLine_stableAt (x : Byte) (w : List Byte) (hx : isWs x = false) :
    StableAt (x :: w) (do skipWsRun; let _ ← slice; pure Line.skipped : P Line) := by
  intro c
  simp only [skipWsRun, slice, run_bind, run_pure, shift_rest, shift_start, shift_tok]
  cases hd : c.rest.dropWhile isWs with
  | nil =>
    have := tw_append_stop w hx c.rest hd
    have e : c.rest.takeWhile isWs = c.rest := by
      have h1 := take_tw (p := isWs) c.rest
      have h2 := drop_tw (p := isWs) c.rest
      rw [hd] at h2
      have : c.rest.length ≤ (c.rest.takeWhile isWs).length := by
        have := List.drop_eq_nil_iff.1 h2
        exact this
      rw [← h1, List.take_of_length_le this]
    simp [this.1, this.2, e]
  | cons b r =>
    have := dw_append (x :: w) c.rest hd
    simp [this.1, this.2]

theorem headerLine_stableAt {be : Backend} (hbe : be.Exact) (hc : HCfg) (n : Nat)
    (x : Byte) (w : List Byte) (hx : isWs x = false) : StableAt (x :: w) (headerLine be hc n) := by
  unfold headerLine
  apply StableAt.bind next_stable; intro b
  apply StableAt.dite
  · apply StableAt.of_stable
    apply Stable.bind (expect_stable _ _); intro _
    exact Stable.pure _
  · apply StableAt.dite
    · exact StableAt.of_stable (Stable.pure _)
    · apply StableAt.dite
      · apply StableAt.dite
        · exact wsLine_stableAt x w hx
        · apply StableAt.of_stable
          apply Stable.bind (handleInvalid_stable _ _ _); intro _
          exact Stable.pure _
      · apply StableAt.of_stable
        apply Stable.bind (nameStage_stable hbe hc); intro nm
        cases nm with
        | none => exact Stable.pure _
        | some name =>
          dsimp only
          apply Stable.bind (wsStage_stable hc); intro w
          cases w with
          | skipped => exact Stable.pure _
          | empty v => exact Stable.pure _
          | value =>
            dsimp only
            apply Stable.bind (valueStage_stable hbe hc); intro v
            cases v with
            | none => exact Stable.pure _
            | some v => exact Stable.pure _

/-! ### the header loop -/

theorem headerLine_crlf (be : Backend) (hc : HCfg) (n : Nat) (c : Cur) (h : c.rest = CRLF) :
    (headerLine be hc n).run c = .ok (.eoh, ⟨c.start, c.tok ++ [CR, LF], []⟩) := by
  simp [headerLine, next, expect, h, CRLF]

theorem headersLoop_crlf (be : Backend) (hc : HCfg) (cap fuel : Nat) (c : Cur) (hs : List Hdr)
    (h : c.rest = CRLF) :
    headersLoop be hc cap (fuel + 1) c hs = (.ok ⟨c.start, c.tok ++ [CR, LF], []⟩, hs) := by
  rw [headersLoop, headerLine_crlf be hc _ c h]

theorem headersLoop_part {be : Backend} (hbe : be.Exact) (hc : HCfg) (cap : Nat) :
    ∀ (fuel : Nat) (c : Cur) (hs hs' : List Hdr),
      headersLoop be hc cap fuel c hs = (.part, hs') → hs'.length < cap →
      ∃ w ∈ headerTails, ∃ c' hs'', headersLoop be hc cap (fuel + 1) (c.shift w) hs = (.ok c', hs'')
  | 0, c, hs, hs', h, _ => by simp [headersLoop] at h
  | fuel + 1, c, hs, hs', h, hlt => by
    rw [headersLoop] at h
    cases hr : (headerLine be hc hs.length).run c with
    | ok p =>
      obtain ⟨l, c1⟩ := p
      rw [hr] at h
      have hq := headerLine_stableQ hbe hc hs.length c
      cases l with
      | eoh => simp at h
      | skipped =>
        simp only at h
        by_cases hn : c1.rest = []
        · refine ⟨CRLF, crlf_mem, ?_⟩
          have := headerLine_stableAt hbe hc hs.length CR [LF] isWs_CR c
          rw [hr] at this
          simp only [SE_ok] at this
          rw [headersLoop, show CRLF = [CR, LF] from rfl, this]
          simp only
          exact ⟨_, _, headersLoop_crlf be hc cap fuel _ hs (by simp [hn, CRLF])⟩
        · obtain ⟨w, hw, c', hs'', hrun⟩ := headersLoop_part hbe hc cap fuel c1 hs hs' h hlt
          refine ⟨w, hw, c', hs'', ?_⟩
          have := hq w
          rw [hr] at this
          simp only [SEQ, LineQ] at this
          rw [headersLoop, this (fun _ => hn)]
          exact hrun
      | header nm v =>
        simp only at h
        split at h
        · rename_i hcap
          obtain ⟨w, hw, c', hs'', hrun⟩ := headersLoop_part hbe hc cap fuel c1 _ hs' h hlt
          refine ⟨w, hw, c', hs'', ?_⟩
          have := hq w
          rw [hr] at this
          simp only [SEQ, LineQ] at this
          rw [headersLoop, this (by simp)]
          simp only [hcap, if_true]
          exact hrun
        · simp at h
    | part =>
      rw [hr] at h
      simp only [Prod.mk.injEq, true_and] at h
      subst h
      rcases headerLine_part hbe hc hs.length c hr with he | ⟨w, hw, l, c', hrun, hq⟩
      · exact he.elim
      · refine ⟨w, hw, ?_⟩
        rw [headersLoop, hrun]
        cases l with
        | eoh => exact ⟨_, _, rfl⟩
        | skipped =>
          rcases hq with hq | hq
          · cases hq
          · exact ⟨_, _, headersLoop_crlf be hc cap fuel c' hs hq⟩
        | header nm v =>
          rcases hq with hq | hq
          · cases hq
          · simp only [hlt, if_true]
            exact ⟨_, _, headersLoop_crlf be hc cap fuel c' _ hq⟩
    | err e => rw [hr] at h; simp at h
    | ub u => rw [hr] at h; simp at h

/-- more fuel does not change a Complete result of the loop -/
theorem headersLoop_fuel {be : Backend} (hbe : be.Exact) (hc : HCfg) (cap fuel k : Nat) (c c' : Cur)
    (hs hs' : List Hdr) (h : headersLoop be hc cap fuel c hs = (.ok c', hs')) :
    headersLoop be hc cap (fuel + k) c hs = (.ok c', hs') := by
  have := headersLoop_ext hbe hc cap [] k fuel c hs
  rw [h] at this
  simp only [SEH] at this
  have e : ∀ c : Cur, c.shift [] = c := by intro c; simp [Cur.shift]
  rw [e, e] at this
  exact this

theorem headerTails_ne_nil {w : List Byte} (h : w ∈ headerTails) : 1 ≤ w.length := by
  simp only [headerTails_eq, List.mem_cons, List.not_mem_nil, or_false] at h
  rcases h with rfl | rfl | rfl | rfl | rfl <;> simp [CRLF, T1, T2, T3]

theorem parseHeadersIter_part {be : Backend} (hbe : be.Exact) (hc : HCfg) (cap : Nat) (c : Cur)
    (hs' : List Hdr) (h : parseHeadersIter be hc cap c = (.part, hs')) (hlt : hs'.length < cap) :
    ∃ w ∈ headerTails, ∃ n c' hs'', parseHeadersIter be hc cap (c.shift w) = (.ok (n, c'), hs'') := by
  unfold parseHeadersIter at h
  have hl : headersLoop be hc cap (c.rest.length + 1) c [] = (.part, hs') := by
    split at h <;> simp_all
  obtain ⟨w, hw, c', hs'', hrun⟩ := headersLoop_part hbe hc cap _ c [] hs' hl hlt
  refine ⟨w, hw, ?_⟩
  have h1 := headerTails_ne_nil hw
  have := headersLoop_fuel hbe hc cap _ (w.length - 1) _ _ _ _ hrun
  have e : c.rest.length + 1 + 1 + (w.length - 1) = (c.shift w).rest.length + 1 := by
    simp only [shift_rest, List.length_append]; omega
  rw [e] at this
  unfold parseHeadersIter
  rw [this]
  exact ⟨_, _, _, rfl⟩

theorem parseHeadersIter_crlf (be : Backend) (hc : HCfg) (cap : Nat) (c : Cur) (h : c.rest = CRLF) :
    ∃ n c', parseHeadersIter be hc cap c = (.ok (n, c'), []) := by
  unfold parseHeadersIter
  rw [headersLoop_crlf be hc cap _ c [] h]
  exact ⟨_, _, rfl⟩

theorem finishHeaders_crlf {V : Type} (be : Backend) (hc : HCfg) (cap : Nat) (buf : List Byte) (c : Cur) (v : V)
    (h : c.rest = CRLF) : ∃ n, (finishHeaders be hc cap buf c v).status = .ok n := by
  obtain ⟨n, c', hr⟩ := parseHeadersIter_crlf be hc cap c h
  unfold finishHeaders
  simp only [hr]
  exact ⟨_, rfl⟩

theorem finishHeaders_part {V : Type} {be : Backend} (hbe : be.Exact) (hc : HCfg) (cap : Nat)
    (buf : List Byte) (c : Cur) (v : V)
    (h : (finishHeaders be hc cap buf c v).status = .part)
    (hlt : (finishHeaders be hc cap buf c v).hdrs.length < cap) :
    ∃ w ∈ headerTails, ∀ (buf' : List Byte) (v' : V),
      ∃ n, (finishHeaders be hc cap buf' (c.shift w) v').status = .ok n := by
  unfold finishHeaders at h hlt
  simp only at h hlt
  cases hp : parseHeadersIter be hc cap c with
  | mk o hs' =>
    rw [hp] at h hlt
    cases o with
    | ok q => obtain ⟨hl, cc⟩ := q; simp at h
    | err e => simp at h
    | ub u => simp at h
    | part =>
      simp only at hlt
      obtain ⟨w, hw, n, c', hs'', hrun⟩ := parseHeadersIter_part hbe hc cap c hs' hp hlt
      refine ⟨w, hw, fun buf' v' => ?_⟩
      unfold finishHeaders
      simp only [hrun]
      exact ⟨_, rfl⟩

end Comp
end Hx
