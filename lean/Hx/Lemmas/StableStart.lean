/-
  Hx.Lemmas.StableStart — S1 (`Stable`) for the start-line stages.
-/
import Hx.Lemmas.Stage
import Hx.Parse.Entry
namespace Hx
namespace SA

/-! ### the outcome relation behind `Stable` -/

/-- `long` is what `Stable` demands of the run on the extended buffer, given the run `short` -/
def SE {α : Type} (ext : List Byte) (short long : Outcome (α × Cur)) : Prop :=
  match short with
  | .ok (a, c) => long = .ok (a, c.shift ext)
  | .err e => long = .err e
  | _ => True

@[simp] theorem SE_ok {α : Type} (ext : List Byte) (a : α) (c : Cur) (o : Outcome (α × Cur)) :
    SE ext (.ok (a, c)) o ↔ o = .ok (a, c.shift ext) := Iff.rfl
@[simp] theorem SE_err {α : Type} (ext : List Byte) (e : Error) (o : Outcome (α × Cur)) :
    SE ext (.err e) o ↔ o = .err e := Iff.rfl
@[simp] theorem SE_part {α : Type} (ext : List Byte) (o : Outcome (α × Cur)) :
    SE ext .part o ↔ True := Iff.rfl
@[simp] theorem SE_ub {α : Type} (ext : List Byte) (u : UB) (o : Outcome (α × Cur)) :
    SE ext (.ub u) o ↔ True := Iff.rfl

theorem stable_iff {α : Type} (f : P α) :
    Stable f ↔ ∀ c ext, SE ext (f.run c) (f.run (c.shift ext)) := by
  constructor
  · intro h c ext
    have := h c ext
    cases hr : f.run c with
    | ok p => obtain ⟨a, c'⟩ := p; simpa using this.1 a c' hr
    | part => simp
    | err e => simpa using this.2 e hr
    | ub u => simp
  · intro h c ext
    have := h c ext
    constructor
    · intro a c' hr; rw [hr] at this; simpa using this
    · intro e hr; rw [hr] at this; simpa using this

theorem stable_of_se {α : Type} {f : P α}
    (h : ∀ c ext, SE ext (f.run c) (f.run (c.shift ext))) : Stable f := (stable_iff f).2 h

theorem se_of {α : Type} {f : P α} (h : Stable f) (c : Cur) (ext : List Byte) :
    SE ext (f.run c) (f.run (c.shift ext)) := (stable_iff f).1 h c ext

@[simp] theorem shift_mk (ext : List Byte) (s : Nat) (t r : List Byte) :
    Cur.shift ext ⟨s, t, r⟩ = ⟨s, t, r ++ ext⟩ := rfl
@[simp] theorem shift_start (ext : List Byte) (c : Cur) : (c.shift ext).start = c.start := rfl
@[simp] theorem shift_tok (ext : List Byte) (c : Cur) : (c.shift ext).tok = c.tok := rfl
@[simp] theorem shift_rest (ext : List Byte) (c : Cur) : (c.shift ext).rest = c.rest ++ ext := rfl

/-- a stage given by a function of `start`, `tok`, `rest` -/
theorem stable_of_loop {α : Type} (g : Nat → List Byte → List Byte → Outcome (α × Cur))
    (h : ∀ start tok rest ext, SE ext (g start tok rest) (g start tok (rest ++ ext))) :
    Stable (⟨fun c => g c.start c.tok c.rest⟩ : P α) :=
  stable_of_se fun c ext => by simpa using h c.start c.tok c.rest ext

/-! ### structural loops -/

theorem skipEmptyLinesGo_cons (start : Nat) (tok : List Byte) (b : Byte) (r : List Byte) :
    skipEmptyLinesGo start tok (b :: r) =
      if b == CR then
        match r with
        | [] => .part
        | b2 :: r2 =>
          if b2 == LF then skipEmptyLinesGo start (tok ++ [b, b2]) r2
          else .err .newLine
      else if b == LF then skipEmptyLinesGo start (tok ++ [b]) r
      else .ok ((), ⟨start + tok.length, [], b :: r⟩) := by
  rw [skipEmptyLinesGo.eq_def]; rfl

theorem skipEmptyLinesGo_se (start : Nat) (ext : List Byte) : ∀ (rest tok : List Byte),
    SE ext (skipEmptyLinesGo start tok rest) (skipEmptyLinesGo start tok (rest ++ ext))
  | [], tok => by simp [skipEmptyLinesGo]
  | b :: r, tok => by
    rw [List.cons_append, skipEmptyLinesGo_cons, skipEmptyLinesGo_cons]
    split
    · cases r with
      | nil => simp
      | cons b2 r2 =>
        simp only [List.cons_append]
        split
        · exact skipEmptyLinesGo_se start ext r2 _
        · simp
    · split
      · exact skipEmptyLinesGo_se start ext r _
      · simp
termination_by rest => rest.length

theorem skipEmptyLines_stable : Stable skipEmptyLines :=
  stable_of_loop _ fun start tok rest ext => skipEmptyLinesGo_se start ext rest tok

theorem skipSpacesGo_se (start : Nat) (ext : List Byte) : ∀ (rest tok : List Byte),
    SE ext (skipSpacesGo start tok rest) (skipSpacesGo start tok (rest ++ ext))
  | [], tok => by simp [skipSpacesGo]
  | b :: r, tok => by
    rw [List.cons_append, skipSpacesGo, skipSpacesGo]
    split
    · exact skipSpacesGo_se start ext r _
    · simp

theorem skipSpaces_stable : Stable skipSpaces :=
  stable_of_loop _ fun start tok rest ext => skipSpacesGo_se start ext rest tok

theorem optSkipSpaces_stable (on : Bool) : Stable (optSkipSpaces on) := by
  unfold optSkipSpaces
  exact Stable.ite on skipSpaces_stable (Stable.pure ())

theorem tokenLoop_se (start : Nat) (ext : List Byte) : ∀ (rest tok : List Byte),
    SE ext (tokenLoop start tok rest) (tokenLoop start tok (rest ++ ext))
  | [], tok => by simp [tokenLoop]
  | b :: r, tok => by
    rw [List.cons_append, tokenLoop, tokenLoop]
    split
    · exact se_of (sliceSkip_stable 1) ⟨start, tok ++ [b], r⟩ ext
    · split
      · simp
      · exact tokenLoop_se start ext r _

theorem parseToken_stable : Stable parseToken := by
  unfold parseToken
  apply Stable.bind next_stable
  intro b
  apply Stable.ite
  · exact Stable.fail _
  · exact stable_of_loop _ fun start tok rest ext => tokenLoop_se start ext rest tok

theorem reasonFinish_stable (seen : Bool) (k : Nat) : Stable (reasonFinish seen k) := by
  unfold reasonFinish
  apply Stable.bind (sliceSkip_stable k)
  intro s
  apply Stable.ite <;> exact Stable.pure _

theorem reasonLoop_cons (start : Nat) (seen : Bool) (tok : List Byte) (b : Byte) (r : List Byte) :
    reasonLoop start seen tok (b :: r) =
      if b == CR then
        match r with
        | [] => .part
        | b2 :: r2 =>
          if b2 == LF then (reasonFinish seen 2).run ⟨start, tok ++ [b, b2], r2⟩
          else .err .status
      else if b == LF then (reasonFinish seen 1).run ⟨start, tok ++ [b], r⟩
      else if !isReason b then .err .status
      else reasonLoop start (seen || 0x80 ≤ b) (tok ++ [b]) r := by
  rw [reasonLoop.eq_def]; rfl

theorem reasonLoop_se (start : Nat) (ext : List Byte) : ∀ (rest : List Byte) (seen : Bool) (tok : List Byte),
    SE ext (reasonLoop start seen tok rest) (reasonLoop start seen tok (rest ++ ext))
  | [], seen, tok => by simp [reasonLoop]
  | b :: r, seen, tok => by
    rw [List.cons_append, reasonLoop_cons, reasonLoop_cons]
    split
    · cases r with
      | nil => simp
      | cons b2 r2 =>
        simp only [List.cons_append]
        split
        · exact se_of (reasonFinish_stable seen 2) ⟨start, tok ++ [b, b2], r2⟩ ext
        · simp
    · split
      · exact se_of (reasonFinish_stable seen 1) ⟨start, tok ++ [b], r⟩ ext
      · split
        · simp
        · exact reasonLoop_se start ext r _ _
termination_by rest => rest.length

theorem parseReason_stable : Stable parseReason :=
  stable_of_loop (fun start tok rest => reasonLoop start false tok rest)
    fun start tok rest ext => reasonLoop_se start ext rest false tok

theorem parseCode_stable : Stable parseCode := by
  unfold parseCode
  apply Stable.bind (expect_stable _ _); intro h
  apply Stable.bind (expect_stable _ _); intro t
  apply Stable.bind (expect_stable _ _); intro o
  exact Stable.pure _

theorem space_stable (e : Error) : Stable (space e) := by
  unfold space
  apply Stable.bind (expect_stable _ _); intro _
  apply Stable.bind slice_stable; intro _
  exact Stable.pure _

theorem newline_stable : Stable newline := by
  unfold newline
  apply Stable.bind next_stable; intro b
  apply Stable.dite
  · apply Stable.bind (expect_stable _ _); intro _
    apply Stable.bind slice_stable; intro _
    exact Stable.pure _
  · apply Stable.dite
    · apply Stable.bind slice_stable; intro _
      exact Stable.pure _
    · exact Stable.fail _

theorem reasonBranch_stable (multi : Bool) : Stable (reasonBranch multi) := by
  unfold reasonBranch
  apply Stable.bind next_stable; intro b
  apply Stable.dite
  · apply Stable.bind (optSkipSpaces_stable multi); intro _
    apply Stable.bind slice_stable; intro _
    exact parseReason_stable
  · apply Stable.dite
    · apply Stable.bind (expect_stable _ _); intro _
      apply Stable.bind slice_stable; intro _
      exact Stable.pure _
    · apply Stable.dite
      · apply Stable.bind slice_stable; intro _
        exact Stable.pure _
      · exact Stable.fail _

/-! ### list facts -/

theorem take_tw {p : Byte → Bool} : ∀ l : List Byte, l.take (l.takeWhile p).length = l.takeWhile p
  | [] => rfl
  | a :: l => by
    simp only [List.takeWhile_cons]
    split <;> simp [take_tw l]

theorem drop_tw {p : Byte → Bool} : ∀ l : List Byte, l.drop (l.takeWhile p).length = l.dropWhile p
  | [] => rfl
  | a :: l => by
    simp only [List.takeWhile_cons, List.dropWhile_cons]
    split <;> simp [drop_tw l]

theorem tw_len_le {p : Byte → Bool} : ∀ l : List Byte, (l.takeWhile p).length ≤ l.length
  | [] => by simp
  | a :: l => by
    simp only [List.takeWhile_cons]
    split <;> simp [tw_len_le l]

/-- when the class run ends on a present byte, appending bytes changes neither the run nor the
byte after it -/
theorem dw_append {p : Byte → Bool} {b : Byte} {r : List Byte} (ext : List Byte) :
    ∀ l : List Byte, l.dropWhile p = b :: r →
      (l ++ ext).dropWhile p = b :: (r ++ ext) ∧ (l ++ ext).takeWhile p = l.takeWhile p
  | [], h => by simp at h
  | a :: l, h => by
    simp only [List.dropWhile_cons, List.cons_append, List.takeWhile_cons] at h ⊢
    split at h
    · rename_i ha; simp only [ha, if_true]
      have := dw_append ext l h
      simp [this.1, this.2]
    · rename_i ha; simp only [ha]
      simp at h ⊢; simp [h.1, h.2]

/-! ### scanners -/

theorem scanNext_run {cls : Byte → Bool} {s : Scanner} (hs : Scanner.Exact cls s) (c : Cur) :
    (scanNext s).run c =
      match c.rest.dropWhile cls with
      | [] => .part
      | b :: r => .ok (((c.rest.takeWhile cls).length, b),
                      ⟨c.start, c.tok ++ c.rest.takeWhile cls ++ [b], r⟩) := by
  simp only [scanNext, scan, run_bind, hs c.rest, tw_len_le, if_true, take_tw, drop_tw, next, run_pure]
  cases c.rest.dropWhile cls <;> simp

theorem scanNext_stable {cls : Byte → Bool} {s : Scanner} (hs : Scanner.Exact cls s) :
    Stable (scanNext s) := by
  apply stable_of_se
  intro c ext
  rw [scanNext_run hs, scanNext_run hs]
  cases hd : c.rest.dropWhile cls with
  | nil => simp
  | cons b r =>
    have := dw_append ext c.rest hd
    simp [this.1, this.2]

theorem parseUri_stable {be : Backend} (hbe : be.Exact) : Stable (parseUri be) := by
  unfold parseUri
  apply Stable.bind (scanNext_stable hbe.uri)
  rintro ⟨n, b⟩
  dsimp only
  apply Stable.dite
  · apply Stable.dite
    · exact Stable.fail _
    · apply Stable.bind (sliceSkip_stable 1); intro s
      apply Stable.dite
      · exact Stable.pure _
      · exact Stable.fail _
  · exact Stable.fail _

/-! ### `parse_version` -/

/-- the byte-wise path of `parse_version` -/
def bwVersion : P Nat := do
  let _ ← expect (· == 0x48) .version
  let _ ← expect (· == 0x54) .version
  let _ ← expect (· == 0x54) .version
  let _ ← expect (· == 0x50) .version
  let _ ← expect (· == 0x2F) .version
  let _ ← expect (· == 0x31) .version
  let _ ← expect (· == 0x2E) .version
  P.partial_

theorem bwVersion_stable : Stable bwVersion := by
  unfold bwVersion
  repeat (apply Stable.bind (expect_stable _ _); intro _)
  exact Stable.partial_

theorem parseVersion_short (c : Cur) (h : c.rest.length < 8) : parseVersion.run c = bwVersion.run c := by
  have : ¬ 8 ≤ c.rest.length := by omega
  simp only [parseVersion, Cur.peekN, this, if_false, run_mk]
  rfl

theorem parseVersion_long (c : Cur) (h : 8 ≤ c.rest.length) :
    parseVersion.run c =
      if c.rest.take 8 == H10 then .ok (0, ⟨c.start, c.tok ++ c.rest.take 8, c.rest.drop 8⟩)
      else if c.rest.take 8 == H11 then .ok (1, ⟨c.start, c.tok ++ c.rest.take 8, c.rest.drop 8⟩)
      else .err .version := by
  simp only [parseVersion, Cur.peekN, h, if_true, run_mk, run_bind, advance]
  split
  · simp
  · split <;> simp

theorem bwVersion_prefix (s : Nat) (t : List Byte) (n : Nat) (hn : n ≤ 7) :
    bwVersion.run ⟨s, t, H10.take n⟩ = .part ∧ bwVersion.run ⟨s, t, H11.take n⟩ = .part := by
  have : n = 0 ∨ n = 1 ∨ n = 2 ∨ n = 3 ∨ n = 4 ∨ n = 5 ∨ n = 6 ∨ n = 7 := by omega
  rcases this with rfl | rfl | rfl | rfl | rfl | rfl | rfl | rfl <;> exact ⟨rfl, rfl⟩

/-- `f` never completes -/
def NeverOk {α : Type} (f : P α) : Prop := ∀ c a c', f.run c ≠ .ok (a, c')
/-- the only error of `f` is `e0` -/
def ErrIs {α : Type} (e0 : Error) (f : P α) : Prop := ∀ c e, f.run c = .err e → e = e0

theorem NeverOk.bind {α β : Type} (f : P α) {g : α → P β} (hg : ∀ a, NeverOk (g a)) :
    NeverOk (f >>= g) := by
  intro c b c' h
  simp only [run_bind] at h
  split at h
  · exact hg _ _ _ _ h
  all_goals simp at h

theorem ErrIs.bind {α β : Type} {e0 : Error} {f : P α} {g : α → P β} (hf : ErrIs e0 f)
    (hg : ∀ a, ErrIs e0 (g a)) : ErrIs e0 (f >>= g) := by
  intro c e h
  simp only [run_bind] at h
  split at h
  · exact hg _ _ _ h
  · simp at h
  · rename_i e' he; simp at h; subst h; exact hf _ _ he
  · simp at h

theorem expect_errIs (p : Byte → Bool) (e0 : Error) : ErrIs e0 (expect p e0) := by
  intro c e h
  simp only [expect, next, run_bind] at h
  cases hr : c.rest with
  | nil => rw [hr] at h; simp at h
  | cons b r =>
    rw [hr] at h; simp only at h
    split at h <;> simp at h
    exact h.symm

theorem bwVersion_neverOk : NeverOk bwVersion := by
  unfold bwVersion
  repeat (apply NeverOk.bind; intro _)
  intro c a c' h; simp at h

theorem bwVersion_errIs : ErrIs .version bwVersion := by
  unfold bwVersion
  repeat (apply ErrIs.bind (expect_errIs _ _); intro _)
  intro c e h; simp at h

theorem parseVersion_stable : Stable parseVersion := by
  apply stable_of_se
  intro c ext
  by_cases h8 : 8 ≤ c.rest.length
  · have h8' : 8 ≤ (c.shift ext).rest.length := by simp; omega
    rw [parseVersion_long c h8, parseVersion_long _ h8']
    simp only [shift_rest, shift_start, shift_tok, List.take_append_of_le_length h8,
      List.drop_append_of_le_length h8]
    split
    · simp
    · split <;> simp
  · rw [parseVersion_short c (by omega)]
    by_cases h8' : 8 ≤ (c.shift ext).rest.length
    · cases hr : bwVersion.run c with
      | ok p => exact absurd hr (bwVersion_neverOk _ _ _)
      | part => simp
      | ub u => simp
      | err e =>
        have he := bwVersion_errIs _ _ hr
        subst he
        simp only [SE_err]
        rw [parseVersion_long _ h8']
        have hpre : ∀ H : List Byte, (c.shift ext).rest.take 8 = H → c.rest = H.take c.rest.length := by
          intro H hH
          rw [← hH, List.take_take, Nat.min_eq_left (by omega)]
          simp
        have hc : c = ⟨c.start, c.tok, c.rest⟩ := rfl
        have hp := bwVersion_prefix c.start c.tok c.rest.length (by omega)
        split
        · rename_i h; simp only [beq_iff_eq] at h
          rw [hc, hpre _ h, hp.1] at hr; simp at hr
        · split
          · rename_i h; simp only [beq_iff_eq] at h
            rw [hc, hpre _ h, hp.2] at hr; simp at hr
          · rfl
    · rw [parseVersion_short _ (by omega)]
      exact se_of bwVersion_stable c ext

/-! ### `parse_method` takes the same decisions as `parse_token` -/

theorem parseToken_run (c : Cur) : parseToken.run c =
    match c.rest with
    | [] => .part
    | b :: r => if !isTchar b then .err .token else tokenLoop c.start (c.tok ++ [b]) r := by
  simp only [parseToken, next, run_bind]
  cases c.rest with
  | nil => rfl
  | cons b r => simp only; split <;> simp

theorem tokenLoop_word (start : Nat) (r : List Byte) : ∀ (w tok : List Byte), w.all isTchar = true →
    tokenLoop start tok (w ++ SP :: r) = (sliceSkip 1).run ⟨start, tok ++ w ++ [SP], r⟩
  | [], tok, _ => by simp [tokenLoop]
  | b :: w, tok, h => by
    simp only [List.all_cons, Bool.and_eq_true] at h
    have hb : (b == SP) = false := by
      cases hh : b == SP with
      | false => rfl
      | true => simp at hh; subst hh; exact absurd h.1 (by decide)
    rw [List.cons_append, tokenLoop]
    simp only [hb, h.1, Bool.false_eq_true, if_false, Bool.not_true]
    rw [tokenLoop_word start r w _ h.2]
    simp

theorem parseToken_word (s : Nat) (t : List Byte) (b : Byte) (w r : List Byte)
    (hb : isTchar b = true) (hw : w.all isTchar = true) :
    parseToken.run ⟨s, t, b :: (w ++ SP :: r)⟩ = (sliceSkip 1).run ⟨s, t ++ b :: w ++ [SP], r⟩ := by
  rw [parseToken_run]
  simp only [hb, Bool.not_true, Bool.false_eq_true, if_false]
  rw [tokenLoop_word _ _ _ _ hw]
  simp

theorem parseMethod_run (c : Cur) : parseMethod.run c = parseToken.run c := by
  simp only [parseMethod, run_mk, Cur.peekN]
  split
  · rename_i four hfour
    split at hfour
    · rename_i h4
      simp only [Option.some.injEq] at hfour
      have hrest : c.rest = four ++ c.rest.drop 4 := by rw [← hfour]; simp
      have hc : c = ⟨c.start, c.tok, four ++ c.rest.drop 4⟩ := by rw [← hrest]
      split
      · rename_i hg; simp only [beq_iff_eq] at hg
        rw [hc, hg]
        generalize c.rest.drop 4 = r
        have := parseToken_word c.start c.tok 0x47 [0x45, 0x54] r (by decide) (by decide)
        simp only [GET_, SP] at this ⊢
        simp only [List.cons_append, List.nil_append] at this ⊢
        rw [this]
        simp [advance]
      · split
        · rename_i hp; simp only [beq_iff_eq] at hp
          simp only [peekAhead, run_mk]
          have : 4 ≤ c.rest.length := h4
          simp only [this, if_true]
          split
          · rename_i hsp; simp only [beq_iff_eq] at hsp
            rw [← List.head?_drop] at hsp
            rw [hc, hp]
            cases hd : c.rest.drop 4 with
            | nil => rw [hd] at hsp; simp at hsp
            | cons x r =>
              rw [hd] at hsp; simp only [List.head?_cons, Option.some.injEq] at hsp
              subst hsp
              have := parseToken_word c.start c.tok 0x50 [0x4F, 0x53, 0x54] r (by decide) (by decide)
              simp only [POST, SP] at this ⊢
              simp only [List.cons_append, List.nil_append] at this ⊢
              rw [this]
              simp [advance]
          · rfl
        · rfl
    · simp at hfour
  · rfl

theorem parseMethod_eq : parseMethod = parseToken := by
  cases h1 : parseMethod with
  | mk f =>
    cases h2 : parseToken with
    | mk g =>
      congr; funext c
      have := parseMethod_run c
      rw [h1, h2] at this; exact this

theorem parseMethod_stable : Stable parseMethod := by
  rw [parseMethod_eq]; exact parseToken_stable

end SA
end Hx
