/-
  Hx.Lemmas.LineGrammar — one iteration of the header loop against the declarative line grammar
  (`LineSpec`, Hx/Spec/Grammar.lean): `headerLine_iff` (C14), built from grammar lemmas for the
  pieces `invalidLoop`, `sanLoop`, `nameStage`, `wsAfterColon`, `valueLines`.
-/
import Hx.Spec.Grammar
import Hx.Lemmas.Basic
import Hx.Lemmas.StableHeaders
import Hx.Lemmas.FwdAll
import Hx.Lemmas.NoUB
namespace Hx

/-! ### byte facts -/

theorem beq_byte {a b : Byte} : (a == b) = true ↔ a = b := by simp

theorem ws_facts {b : Byte} (h : isWs b = true) :
    isValue b = true ∧ isTchar b = false ∧ b ≠ CR ∧ b ≠ LF ∧ b ≠ NUL ∧ b ≠ COLON := by
  have := allBytesB_spec (f := fun b => !isWs b ||
    (isValue b && !isTchar b && b != CR && b != LF && b != NUL && b != COLON)) (by decide +kernel) b
  simp [h] at this
  simp [this]

theorem tchar_facts {b : Byte} (h : isTchar b = true) :
    isValue b = true ∧ isWs b = false ∧ b ≠ CR ∧ b ≠ LF ∧ b ≠ NUL ∧ b ≠ COLON := by
  have := allBytesB_spec (f := fun b => !isTchar b ||
    (isValue b && !isWs b && b != CR && b != LF && b != NUL && b != COLON)) (by decide +kernel) b
  simp [h] at this
  simp [this]

theorem value_facts {b : Byte} (h : isValue b = true) : b ≠ CR ∧ b ≠ LF ∧ b ≠ NUL := by
  have := allBytesB_spec (f := fun b => !isValue b || (b != CR && b != LF && b != NUL)) (by decide +kernel) b
  simp [h] at this
  simp [this]

theorem isValue_CR : isValue CR = false := by decide
theorem isValue_LF : isValue LF = false := by decide
theorem isWs_CR : isWs CR = false := by decide
theorem isWs_LF : isWs LF = false := by decide
theorem isTchar_CR : isTchar CR = false := by decide
theorem isTchar_LF : isTchar LF = false := by decide
theorem isTchar_COLON : isTchar COLON = false := by decide
theorem isWs_COLON : isWs COLON = false := by decide
theorem CR_ne_LF : CR ≠ LF := by decide
theorem LF_ne_CR : LF ≠ CR := by decide
theorem CR_ne_NUL : CR ≠ NUL := by decide
theorem LF_ne_NUL : LF ≠ NUL := by decide

/-! ### the monad: Complete outcomes -/

theorem bind_ok_iff {α β : Type} {f : P α} {g : α → P β} {c : Cur} {r : β} {c' : Cur} :
    (f >>= g).run c = .ok (r, c') ↔ ∃ a c1, f.run c = .ok (a, c1) ∧ (g a).run c1 = .ok (r, c') := by
  simp only [run_bind]
  cases h : f.run c with
  | ok p =>
    obtain ⟨a, c1⟩ := p
    constructor
    · intro h2; exact ⟨a, c1, rfl, h2⟩
    · rintro ⟨a', c1', e, h2⟩
      simp only [Outcome.ok.injEq, Prod.mk.injEq] at e
      obtain ⟨rfl, rfl⟩ := e; exact h2
  | part => simp
  | err e => simp
  | ub u => simp

theorem next_ok_iff {s : Nat} {t r : List Byte} {b : Byte} {c' : Cur} :
    next.run ⟨s, t, r⟩ = .ok (b, c') ↔ ∃ r', r = b :: r' ∧ c' = ⟨s, t ++ [b], r'⟩ := by
  cases r with
  | nil => simp [next]
  | cons x r =>
    simp only [next, run_mk, Outcome.ok.injEq, Prod.mk.injEq, List.cons.injEq]
    constructor
    · rintro ⟨rfl, rfl⟩; exact ⟨r, ⟨rfl, rfl⟩, rfl⟩
    · rintro ⟨r', ⟨rfl, rfl⟩, rfl⟩; exact ⟨rfl, rfl⟩

theorem expect_ok_iff {p : Byte → Bool} {e : Error} {s : Nat} {t r : List Byte} {b : Byte} {c' : Cur} :
    (expect p e).run ⟨s, t, r⟩ = .ok (b, c') ↔ ∃ r', r = b :: r' ∧ p b = true ∧ c' = ⟨s, t ++ [b], r'⟩ := by
  unfold expect
  rw [bind_ok_iff]
  constructor
  · rintro ⟨a, c1, h1, h2⟩
    obtain ⟨r', rfl, rfl⟩ := next_ok_iff.mp h1
    cases hp : p a <;> simp [hp] at h2
    obtain ⟨rfl, rfl⟩ := h2
    exact ⟨r', rfl, hp, rfl⟩
  · rintro ⟨r', rfl, hp, rfl⟩
    exact ⟨b, _, next_ok_iff.mpr ⟨r', rfl, rfl⟩, by simp [hp]⟩

theorem all_takeWhile (p : Byte → Bool) (l : List Byte) : ∀ x ∈ l.takeWhile p, p x = true := by
  induction l with
  | nil => simp
  | cons a l ih =>
    cases h : p a <;> simp [h]
    exact ih

theorem take_drop_takeWhile (p : Byte → Bool) (l : List Byte) :
    l.take (l.takeWhile p).length = l.takeWhile p ∧ l.drop (l.takeWhile p).length = l.dropWhile p := by
  induction l with
  | nil => simp
  | cons a l ih =>
    cases h : p a <;> simp [h, ih]

/-- `l ++ r` splits at the first byte outside the class exactly into `l` and `r` -/
theorem span_unique {p : Byte → Bool} {l r : List Byte} (hl : ∀ x ∈ l, p x = true)
    (hr : ∀ x r', r = x :: r' → p x = false) :
    (l ++ r).takeWhile p = l ∧ (l ++ r).dropWhile p = r := by
  rw [List.takeWhile_append_of_pos hl, List.dropWhile_append_of_pos hl]
  cases r with
  | nil => simp
  | cons x r' => have := hr x r' rfl; simp [this]

theorem scanNext_ok_iff {cls : Byte → Bool} {sc : Scanner} (hs : Scanner.Exact cls sc)
    {s : Nat} {t r : List Byte} {n : Nat} {d : Byte} {c' : Cur} :
    (scanNext sc).run ⟨s, t, r⟩ = .ok ((n, d), c') ↔
      ∃ l r', r = l ++ d :: r' ∧ (∀ x ∈ l, cls x = true) ∧ cls d = false ∧ n = l.length ∧
        c' = ⟨s, t ++ l ++ [d], r'⟩ := by
  have htd := take_drop_takeWhile cls r
  have hsplit : r.takeWhile cls ++ r.dropWhile cls = r := List.takeWhile_append_dropWhile
  have hle := length_takeWhile_le' cls r
  constructor
  · intro h
    unfold scanNext at h
    obtain ⟨n', c1, h1, h2⟩ := bind_ok_iff.mp h
    simp only [scan, run_mk, hs r, hle, if_true, Outcome.ok.injEq, Prod.mk.injEq] at h1
    obtain ⟨rfl, rfl⟩ := h1
    obtain ⟨b, c2, h3, h4⟩ := bind_ok_iff.mp h2
    rw [htd.1, htd.2] at h3
    obtain ⟨r', hr', rfl⟩ := next_ok_iff.mp h3
    simp only [run_pure, Outcome.ok.injEq, Prod.mk.injEq] at h4
    obtain ⟨⟨rfl, rfl⟩, rfl⟩ := h4
    refine ⟨r.takeWhile cls, r', ?_, ?_, ?_, rfl, rfl⟩
    · rw [← hr']; exact hsplit.symm
    · exact all_takeWhile cls r
    · have hne : r.dropWhile cls ≠ [] := by rw [hr']; simp
      have := List.head_dropWhile_not cls hne
      simpa [hr'] using this
  · rintro ⟨l, r', rfl, hl, hd, rfl, rfl⟩
    have hsp := span_unique (p := cls) (l := l) (r := d :: r') hl
      (by intro x r'' e; cases e; exact hd)
    have hsc := hs (l ++ d :: r')
    rw [hsp.1] at hsc
    unfold scanNext
    simp [scan, hsc, next]

/-! ### `handle_invalid_char!` -/

/-- the current byte `b` and the bytes `tl` after it are `junk ++ eol` -/
def JunkLine (b : Byte) (tl : List Byte) : Prop :=
  ∃ junk eol, junk ++ eol = b :: tl ∧ NoCtl junk ∧ IsEol eol

theorem junkLine_cr {tl : List Byte} : JunkLine CR tl ↔ tl = [LF] := by
  constructor
  · rintro ⟨junk, eol, h, hj, he⟩
    cases junk with
    | nil =>
      rcases he with rfl | rfl
      · simpa using h.symm
      · simp at h; exact absurd h.1 LF_ne_CR
    | cons x j =>
      simp only [List.cons_append, List.cons.injEq] at h
      exact absurd h.1 (hj x (by simp)).1
  · rintro rfl; exact ⟨[], [CR, LF], rfl, by simp [NoCtl], Or.inl rfl⟩

theorem junkLine_lf {tl : List Byte} : JunkLine LF tl ↔ tl = [] := by
  constructor
  · rintro ⟨junk, eol, h, hj, he⟩
    cases junk with
    | nil =>
      rcases he with rfl | rfl
      · simp at h; exact absurd h.1 CR_ne_LF
      · simpa using h.symm
    | cons x j =>
      simp only [List.cons_append, List.cons.injEq] at h
      exact absurd h.1 (hj x (by simp)).2.1
  · rintro rfl; exact ⟨[], [LF], rfl, by simp [NoCtl], Or.inr rfl⟩

theorem junkLine_other {b : Byte} {tl : List Byte} (h1 : b ≠ CR) (h2 : b ≠ LF) :
    JunkLine b tl ↔ b ≠ NUL ∧ ∃ b2 tl', tl = b2 :: tl' ∧ JunkLine b2 tl' := by
  constructor
  · rintro ⟨junk, eol, h, hj, he⟩
    cases junk with
    | nil =>
      rcases he with rfl | rfl
      · simp at h; exact absurd h.1.symm h1
      · simp at h; exact absurd h.1.symm h2
    | cons x j =>
      simp only [List.cons_append, List.cons.injEq] at h
      obtain ⟨rfl, rfl⟩ := h
      refine ⟨(hj x (by simp)).2.2, ?_⟩
      have hj' : NoCtl j := fun y hy => hj y (by simp [hy])
      cases j with
      | nil =>
        rcases he with rfl | rfl
        · exact ⟨CR, [LF], rfl, junkLine_cr.mpr rfl⟩
        · exact ⟨LF, [], rfl, junkLine_lf.mpr rfl⟩
      | cons y j' => exact ⟨y, j' ++ eol, rfl, y :: j', eol, rfl, hj', he⟩
  · rintro ⟨h3, b2, tl', rfl, junk, eol, h, hj, he⟩
    refine ⟨b :: junk, eol, by simp [h], ?_, he⟩
    intro y hy
    rcases List.mem_cons.mp hy with rfl | hy
    · exact ⟨h1, h2, h3⟩
    · exact hj y hy

theorem invalidLoop_ok_iff (e : Error) (start : Nat) : ∀ (rest : List Byte) (b : Byte) (tok : List Byte) (c' : Cur),
    invalidLoop e start b tok rest = .ok ((), c') ↔
      ∃ tl after, rest = tl ++ after ∧ JunkLine b tl ∧ c' = ⟨start + tok.length + tl.length, [], after⟩ := by
  intro rest
  induction rest with
  | nil =>
    intro b tok c'
    rw [SA.invalidLoop_unfold]
    by_cases h1 : b = CR
    · subst h1; simp [junkLine_cr]
    · by_cases h2 : b = LF
      · subst h2; simp [junkLine_lf, LF_ne_CR]
        constructor
        · rintro rfl; exact ⟨[], [], ⟨rfl, rfl⟩, rfl, rfl⟩
        · rintro ⟨tl, after, ⟨rfl, rfl⟩, _, rfl⟩; rfl
      · by_cases h3 : b = NUL
        · subst h3; simp [h1, h2, junkLine_other h1 h2]
        · simp [h1, h2, h3, junkLine_other h1 h2]
  | cons b2 r2 ih =>
    intro b tok c'
    rw [SA.invalidLoop_unfold]
    by_cases h1 : b = CR
    · subst h1
      simp only [beq_self_eq_true, if_true, junkLine_cr]
      by_cases h4 : b2 = LF
      · subst h4
        simp only [beq_self_eq_true, if_true, Outcome.ok.injEq, Prod.mk.injEq, true_and]
        constructor
        · rintro rfl; exact ⟨[LF], r2, rfl, rfl, by simp; omega⟩
        · rintro ⟨tl, after, h, rfl, rfl⟩
          simp at h; subst h; simp; omega
      · simp only [beq_byte, h4, if_false]
        constructor
        · intro h; cases h
        · rintro ⟨tl, after, h, rfl, rfl⟩
          simp at h; exact absurd h.1 h4
    · by_cases h2 : b = LF
      · subst h2
        simp only [beq_byte, LF_ne_CR, if_false, if_true, junkLine_lf, Outcome.ok.injEq, Prod.mk.injEq, true_and]
        constructor
        · rintro rfl; exact ⟨[], b2 :: r2, rfl, rfl, by simp⟩
        · rintro ⟨tl, after, h, rfl, rfl⟩
          simp at h; subst h; simp
      · by_cases h3 : b = NUL
        · subst h3
          simp only [beq_byte, h1, h2, if_false, if_true, junkLine_other h1 h2]
          constructor
          · intro h; cases h
          · rintro ⟨tl, after, _, ⟨h, _⟩, _⟩; exact absurd rfl h
        · simp only [beq_byte, h1, h2, h3, if_false, junkLine_other h1 h2]
          rw [ih b2 (tok ++ [b2]) c']
          constructor
          · rintro ⟨tl, after, rfl, hj, rfl⟩
            exact ⟨b2 :: tl, after, rfl, ⟨h3, b2, tl, rfl, hj⟩, by simp; omega⟩
          · rintro ⟨tl, after, h, ⟨_, b2', tl', rfl, hj⟩, rfl⟩
            simp only [List.cons_append, List.cons.injEq] at h
            obtain ⟨rfl, rfl⟩ := h
            exact ⟨tl', after, rfl, hj, by simp; omega⟩

/-- `handle_invalid_char!` at the byte `b` just consumed (`pos` = offset after `b`, `rest` = the
bytes after it) completes: the option is on and the line ends without NUL or a lone CR. -/
def Dropped (hc : HCfg) (b : Byte) (pos : Nat) (rest : List Byte) (c' : Cur) : Prop :=
  hc.ign = true ∧ ∃ tl after, rest = tl ++ after ∧ JunkLine b tl ∧ c' = ⟨pos + tl.length, [], after⟩

theorem handleInvalid_ok_iff (hc : HCfg) (e : Error) (b : Byte) (start : Nat) (tok rest : List Byte)
    (u : Unit) (c' : Cur) :
    (handleInvalid hc e b).run ⟨start, tok, rest⟩ = .ok (u, c') ↔ Dropped hc b (start + tok.length) rest c' := by
  unfold handleInvalid Dropped
  cases hi : hc.ign
  · simp
  · simp only [Bool.not_true, Bool.false_eq_true, if_false, run_mk, true_and]
    exact invalidLoop_ok_iff e start rest b tok c'

/-- `handleInvalid …; pure x` -/
theorem handleInvalid_then_ok_iff {α : Type} (hc : HCfg) (e : Error) (b : Byte) (x : α) (start : Nat)
    (tok rest : List Byte) (r : α) (c' : Cur) :
    (do handleInvalid hc e b; pure x : P α).run ⟨start, tok, rest⟩ = .ok (r, c') ↔
      r = x ∧ Dropped hc b (start + tok.length) rest c' := by
  rw [bind_ok_iff]
  constructor
  · rintro ⟨u, c1, h1, h2⟩
    simp only [run_pure, Outcome.ok.injEq, Prod.mk.injEq] at h2
    obtain ⟨rfl, rfl⟩ := h2
    exact ⟨rfl, (handleInvalid_ok_iff ..).mp h1⟩
  · rintro ⟨rfl, h⟩
    exact ⟨(), c', (handleInvalid_ok_iff ..).mpr h, rfl⟩

/-! ### whitespace after the name -/

theorem sanLoop_ok_iff (start : Nat) : ∀ (rest tok : List Byte) (res : Option Byte) (c' : Cur),
    sanLoop start tok rest = .ok (res, c') ↔
      ∃ ws b r', rest = ws ++ b :: r' ∧ AllWs ws ∧ isWs b = false ∧
        ((b = COLON ∧ res = none ∧ c' = ⟨start + tok.length + ws.length + 1, [], r'⟩) ∨
         (b ≠ COLON ∧ res = some b ∧ c' = ⟨start, tok ++ ws ++ [b], r'⟩)) := by
  intro rest
  induction rest with
  | nil => intro tok res c'; simp [sanLoop]
  | cons b r ih =>
    intro tok res c'
    rw [sanLoop]
    by_cases h1 : b = COLON
    · subst h1
      simp only [beq_self_eq_true, if_true, Outcome.ok.injEq, Prod.mk.injEq]
      constructor
      · rintro ⟨rfl, rfl⟩
        exact ⟨[], COLON, r, rfl, by simp [AllWs], isWs_COLON, Or.inl ⟨rfl, rfl, by simp; omega⟩⟩
      · rintro ⟨ws, b, r', h, hws, hb, hcase⟩
        cases ws with
        | nil =>
          simp only [List.nil_append, List.cons.injEq] at h
          obtain ⟨rfl, rfl⟩ := h
          rcases hcase with ⟨_, rfl, rfl⟩ | ⟨hne, _, _⟩
          · simp; omega
          · exact absurd rfl hne
        | cons w ws =>
          simp only [List.cons_append, List.cons.injEq] at h
          have := hws w (by simp)
          rw [← h.1] at this; simp [isWs_COLON] at this
    · simp only [beq_byte, h1, if_false]
      by_cases h2 : isWs b = true
      · simp only [h2, if_true]
        rw [ih]
        constructor
        · rintro ⟨ws, b', r', rfl, hws, hb, hcase⟩
          refine ⟨b :: ws, b', r', rfl, ?_, hb, ?_⟩
          · intro y hy; rcases List.mem_cons.mp hy with rfl | hy
            · exact h2
            · exact hws y hy
          · rcases hcase with ⟨rfl, rfl, rfl⟩ | ⟨hne, rfl, rfl⟩
            · left; refine ⟨rfl, rfl, ?_⟩; simp; omega
            · right; refine ⟨hne, rfl, ?_⟩; simp
        · rintro ⟨ws, b', r', h, hws, hb, hcase⟩
          cases ws with
          | nil =>
            simp only [List.nil_append, List.cons.injEq] at h
            obtain ⟨rfl, rfl⟩ := h
            rw [h2] at hb; cases hb
          | cons w ws =>
            simp only [List.cons_append, List.cons.injEq] at h
            obtain ⟨rfl, rfl⟩ := h
            refine ⟨ws, b', r', rfl, fun y hy => hws y (by simp [hy]), hb, ?_⟩
            rcases hcase with ⟨rfl, rfl, rfl⟩ | ⟨hne, rfl, rfl⟩
            · left; refine ⟨rfl, rfl, ?_⟩; simp; omega
            · right; refine ⟨hne, rfl, ?_⟩; simp
      · simp only [h2]
        have h2' : isWs b = false := by simpa using h2
        constructor
        · rintro ⟨rfl, rfl⟩
          exact ⟨[], b, r, rfl, by simp [AllWs], h2', Or.inr ⟨h1, rfl, by simp⟩⟩
        · rintro ⟨ws, b', r', h, hws, hb, hcase⟩
          cases ws with
          | nil =>
            simp only [List.nil_append, List.cons.injEq] at h
            obtain ⟨rfl, rfl⟩ := h
            rcases hcase with ⟨rfl, _, _⟩ | ⟨_, rfl, rfl⟩
            · exact absurd rfl h1
            · simp
          | cons w ws =>
            simp only [List.cons_append, List.cons.injEq] at h
            have := hws w (by simp)
            rw [← h.1, h2'] at this; cases this

/-! ### the header name -/

theorem sliceSkip1_snoc (s : Nat) (t : List Byte) (d : Byte) (r : List Byte) :
    (sliceSkip 1).run ⟨s, t ++ [d], r⟩ = .ok (⟨s, t⟩, ⟨s + t.length + 1, [], r⟩) := by
  simp [sliceSkip, Nat.add_assoc]

theorem sliceSkip2_snoc (s : Nat) (t : List Byte) (d e : Byte) (r : List Byte) :
    (sliceSkip 2).run ⟨s, t ++ [d, e], r⟩ = .ok (⟨s, t⟩, ⟨s + t.length + 2, [], r⟩) := by
  simp [sliceSkip, Nat.add_assoc]

/-- the places in the name part where `handle_invalid_char!` is reached -/
inductive NameFail (hc : HCfg) : List Byte → Byte → Prop where
  | afterName {name : List Byte} {b : Byte} : name ≠ [] → (∀ x ∈ name, isTchar x = true) →
      isTchar b = false → b ≠ COLON → ¬ (hc.san = true ∧ isWs b = true) → NameFail hc name b
  | afterNameWs {name ws₁ : List Byte} {b : Byte} : hc.san = true → name ≠ [] → (∀ x ∈ name, isTchar x = true) →
      ws₁ ≠ [] → AllWs ws₁ → b ≠ COLON → isWs b = false → NameFail hc (name ++ ws₁) b

theorem NameFail.failPoint {hc : HCfg} {good : List Byte} {b : Byte} (h : NameFail hc good b) (k : Nat) :
    FailPoint hc k good b := by
  cases h with
  | afterName h1 h2 h3 h4 h5 => exact .afterName h1 h2 h3 h4 h5
  | afterNameWs h1 h2 h3 h4 h5 h6 h7 => exact .afterNameWs h1 h2 h3 h4 h5 h6 h7

/-- the continuation of `nameStage` after the scan and the slice -/
def nameTail (hc : HCfg) (name : Slice) (d : Byte) : P (Option Slice) :=
  if d == COLON then pure (some name)
  else if hc.san && isWs d then do
    let r ← (⟨fun c => sanLoop c.start c.tok c.rest⟩ : P (Option Byte))
    match r with
    | none => pure (some name)
    | some b' => do handleInvalid hc .headerName b'; pure none
  else do handleInvalid hc .headerName d; pure none

theorem nameStage_run {be : Backend} (hbe : be.Exact) (hc : HCfg) (off : Nat) (t l : List Byte) (d : Byte)
    (r' : List Byte) (hl : ∀ x ∈ l, isTchar x = true) (hd : isTchar d = false) :
    (nameStage be hc).run ⟨off, t, l ++ d :: r'⟩ =
      (nameTail hc ⟨off, t ++ l⟩ d).run ⟨off + (t ++ l).length + 1, [], r'⟩ := by
  have h1 := (scanNext_ok_iff hbe.name (s := off) (t := t) (n := l.length) (d := d)).mpr
    ⟨l, r', rfl, hl, hd, rfl, rfl⟩
  unfold nameStage nameTail
  simp only [run_bind, h1, sliceSkip1_snoc]
  rfl

theorem nameStage_ok_iff {be : Backend} (hbe : be.Exact) (hc : HCfg) (off : Nat) (b0 : Byte)
    (hb0 : isTchar b0 = true) (r : List Byte) (res : Option Slice) (c' : Cur) :
    (nameStage be hc).run ⟨off, [b0], r⟩ = .ok (res, c') ↔
      (∃ name ws₁ after, b0 :: r = name ++ ws₁ ++ COLON :: after ∧ NamePart hc.san name ws₁ ∧
        res = some ⟨off, name⟩ ∧ c' = ⟨off + name.length + ws₁.length + 1, [], after⟩) ∨
      (res = none ∧ ∃ good b rest', b0 :: r = good ++ b :: rest' ∧ NameFail hc good b ∧
        Dropped hc b (off + good.length + 1) rest' c') := by
  constructor
  · intro h
    have h0 := h
    unfold nameStage at h0
    obtain ⟨⟨n, d⟩, c1, h1, -⟩ := bind_ok_iff.mp h0
    obtain ⟨l, r', rfl, hl, hd, rfl, rfl⟩ := (scanNext_ok_iff hbe.name).mp h1
    clear h0 h1
    rw [nameStage_run hbe hc off [b0] l d r' hl hd] at h
    have hname : ∀ x ∈ b0 :: l, isTchar x = true := by
      intro x hx; rcases List.mem_cons.mp hx with rfl | hx
      · exact hb0
      · exact hl x hx
    unfold nameTail at h
    by_cases hd1 : d = COLON
    · subst hd1
      simp only [beq_self_eq_true, if_true, run_pure, Outcome.ok.injEq, Prod.mk.injEq] at h
      obtain ⟨rfl, rfl⟩ := h
      left
      refine ⟨b0 :: l, [], r', by simp, ⟨by simp, hname, by simp [AllWs], fun _ => rfl⟩, rfl, ?_⟩
      simp
    · by_cases hsan : hc.san = true ∧ isWs d = true
      · simp only [beq_byte, hd1, if_false, hsan.1, hsan.2, Bool.and_self, if_true] at h
        obtain ⟨sr, c2, h2, h3⟩ := bind_ok_iff.mp h
        rw [run_mk] at h2
        obtain ⟨ws, b, r'', rfl, hws, hb, hcase⟩ := (sanLoop_ok_iff _ _ _ _ _).mp h2
        have hws' : AllWs (d :: ws) := by
          intro y hy; rcases List.mem_cons.mp hy with rfl | hy
          · exact hsan.2
          · exact hws y hy
        rcases hcase with ⟨rfl, rfl, rfl⟩ | ⟨hne, rfl, rfl⟩
        · simp only [run_pure, Outcome.ok.injEq, Prod.mk.injEq] at h3
          obtain ⟨rfl, rfl⟩ := h3
          left
          refine ⟨b0 :: l, d :: ws, r'', by simp, ⟨by simp, hname, hws', ?_⟩, rfl, ?_⟩
          · intro hf; rw [hsan.1] at hf; cases hf
          · simp; omega
        · simp only at h3
          obtain ⟨rfl, hdrop⟩ := (handleInvalid_then_ok_iff ..).mp h3
          right
          refine ⟨rfl, (b0 :: l) ++ (d :: ws), b, r'', by simp, ?_, ?_⟩
          · exact .afterNameWs hsan.1 (by simp) hname (by simp) hws' hne hb
          · have e : off + ([b0] ++ l).length + 1 + ([] ++ ws ++ [b]).length =
                off + (b0 :: l ++ d :: ws).length + 1 := by simp; omega
            rw [← e]; exact hdrop
      · have hc2 : (hc.san && isWs d) = false := by
          cases h1 : hc.san <;> cases h2 : isWs d <;> simp_all
        simp only [beq_byte, hd1, if_false, hc2, Bool.false_eq_true] at h
        obtain ⟨rfl, hdrop⟩ := (handleInvalid_then_ok_iff ..).mp h
        right
        refine ⟨rfl, b0 :: l, d, r', by simp, .afterName (by simp) hname hd hd1 hsan, ?_⟩
        simpa using hdrop
  · rintro (⟨name, ws₁, after, heq, hnp, rfl, rfl⟩ | ⟨rfl, good, b, rest', heq, hnf, hdrop⟩)
    · obtain ⟨hne, htc, hws, hsan⟩ := hnp
      cases name with
      | nil => exact absurd rfl hne
      | cons x nm =>
        simp only [List.cons_append, List.cons.injEq] at heq
        obtain ⟨rfl, rfl⟩ := heq
        have hnm : ∀ y ∈ nm, isTchar y = true := fun y hy => htc y (by simp [hy])
        cases ws₁ with
        | nil =>
          simp only [List.append_nil]
          rw [nameStage_run hbe hc off [b0] nm COLON after hnm isTchar_COLON]
          simp [nameTail]
        | cons w ws =>
          have hw : isWs w = true := hws w (by simp)
          have hsan' : hc.san = true := by
            cases h : hc.san
            · exact absurd (hsan h) (by simp)
            · rfl
          have e : nm ++ (w :: ws) ++ COLON :: after = nm ++ w :: (ws ++ COLON :: after) := by simp
          rw [e, nameStage_run hbe hc off [b0] nm w _ hnm (ws_facts hw).2.1]
          have hsl := (sanLoop_ok_iff (off + ([b0] ++ nm).length + 1) (ws ++ COLON :: after) [] none
            ⟨off + ([b0] ++ nm).length + 1 + ws.length + 1, [], after⟩).mpr
            ⟨ws, COLON, after, rfl, fun y hy => hws y (by simp [hy]), isWs_COLON, Or.inl ⟨rfl, rfl, by simp⟩⟩
          simp only [nameTail, beq_byte, (ws_facts hw).2.2.2.2.2, if_false, hsan', hw, Bool.and_self, if_true,
            run_bind, hsl, run_pure]
          simp; omega
    · cases hnf with
      | afterName h1 h2 h3 h4 h5 =>
        cases good with
        | nil => exact absurd rfl h1
        | cons x nm =>
          simp only [List.cons_append, List.cons.injEq] at heq
          obtain ⟨rfl, rfl⟩ := heq
          have hnm : ∀ y ∈ nm, isTchar y = true := fun y hy => h2 y (by simp [hy])
          rw [nameStage_run hbe hc off [b0] nm b rest' hnm h3]
          have hc2 : (hc.san && isWs b) = false := by
            cases h1 : hc.san <;> cases h2 : isWs b <;> simp_all
          simp only [nameTail, beq_byte, h4, if_false, hc2, Bool.false_eq_true]
          refine (handleInvalid_then_ok_iff ..).mpr ⟨rfl, ?_⟩
          simpa using hdrop
      | @afterNameWs name ws₁ b h1 h2 h3 h4 h5 h6 h7 =>
        cases name with
        | nil => exact absurd rfl h2
        | cons x nm =>
          cases ws₁ with
          | nil => exact absurd rfl h4
          | cons w ws =>
            simp only [List.cons_append, List.cons.injEq] at heq
            obtain ⟨rfl, rfl⟩ := heq
            have hnm : ∀ y ∈ nm, isTchar y = true := fun y hy => h3 y (by simp [hy])
            have hw : isWs w = true := h5 w (by simp)
            have e : nm ++ w :: ws ++ b :: rest' = nm ++ w :: (ws ++ b :: rest') := by simp
            rw [e, nameStage_run hbe hc off [b0] nm w _ hnm (ws_facts hw).2.1]
            have hsl := (sanLoop_ok_iff (off + ([b0] ++ nm).length + 1) (ws ++ b :: rest') [] (some b)
              ⟨off + ([b0] ++ nm).length + 1, [] ++ ws ++ [b], rest'⟩).mpr
              ⟨ws, b, rest', rfl, fun y hy => h5 y (by simp [hy]), h7, Or.inr ⟨h6, rfl, rfl⟩⟩
            simp only [nameTail, beq_byte, (ws_facts hw).2.2.2.2.2, if_false, h1, hw, Bool.and_self, if_true]
            refine bind_ok_iff.mpr ⟨some b, _, hsl, ?_⟩
            refine (handleInvalid_then_ok_iff ..).mpr ⟨rfl, ?_⟩
            have e2 : off + ([b0] ++ nm).length + 1 + ([] ++ ws ++ [b]).length =
                off + (b0 :: nm ++ w :: ws).length + 1 := by simp; omega
            rw [e2]; exact hdrop

/-! ### whitespace after the colon -/

/-- `Lead fold` as one inductive predicate (the fold rule guarded by the option) -/
inductive LeadI (fold : Bool) : List Byte → Prop where
  | nil : LeadI fold []
  | ws {b : Byte} {l : List Byte} : isWs b = true → LeadI fold l → LeadI fold (b :: l)
  | fold {e : List Byte} {b : Byte} {l : List Byte} : fold = true → IsEol e → isWs b = true → LeadI fold l →
      LeadI fold (e ++ b :: l)

theorem lead_iff (fold : Bool) (l : List Byte) : Lead fold l ↔ LeadI fold l := by
  cases fold
  · simp only [Lead, Bool.false_eq_true, if_false]
    constructor
    · intro h
      induction l with
      | nil => exact .nil
      | cons b l ih => exact .ws (h b (by simp)) (ih fun y hy => h y (by simp [hy]))
    · intro h
      induction h with
      | nil => simp [AllWs]
      | ws hb _ ih =>
        intro y hy; rcases List.mem_cons.mp hy with rfl | hy
        · exact hb
        · exact ih y hy
      | fold hf => cases hf
  · simp only [Lead, if_true]
    constructor
    · intro h
      induction h with
      | nil => exact .nil
      | ws hb _ ih => exact .ws hb ih
      | fold he hb _ ih => exact .fold rfl he hb ih
    · intro h
      induction h with
      | nil => exact .nil
      | ws hb _ ih => exact .ws hb ih
      | fold _ he hb _ ih => exact .fold he hb ih

theorem LeadI.append {fold : Bool} {p l : List Byte} (hp : LeadI fold p) (hl : LeadI fold l) :
    LeadI fold (p ++ l) := by
  induction hp with
  | nil => simpa
  | ws hb _ ih => exact .ws hb ih
  | fold hf he hb _ ih =>
    rw [List.append_assoc, List.cons_append]
    exact .fold hf he hb ih

/-- what the `'whitespace_after_colon` loop accepts from offset `start` (just after the colon) -/
inductive WsSpec (hc : HCfg) (start : Nat) (rest : List Byte) : WsRes → Cur → Prop where
  | value {lead : List Byte} {v : Byte} {r : List Byte} : rest = lead ++ v :: r → LeadI hc.fold lead →
      isValue v = true → isWs v = false → WsSpec hc start rest .value ⟨start + lead.length, [v], r⟩
  | empty {lead eol after : List Byte} : rest = lead ++ eol ++ after → LeadI hc.fold lead → IsEol eol →
      LookOk hc.fold after →
      WsSpec hc start rest (.empty ⟨start + lead.length, []⟩) ⟨start + lead.length + eol.length, [], after⟩
  | skipped {lead : List Byte} {b : Byte} {rest' : List Byte} {c' : Cur} : rest = lead ++ b :: rest' →
      LeadI hc.fold lead → isValue b = false → b ≠ CR → b ≠ LF →
      Dropped hc b (start + lead.length + 1) rest' c' → WsSpec hc start rest .skipped c'

theorem WsSpec.prepend {hc : HCfg} {start : Nat} {p r : List Byte} {res : WsRes} {c' : Cur}
    (hp : LeadI hc.fold p) (h : WsSpec hc (start + p.length) r res c') : WsSpec hc start (p ++ r) res c' := by
  cases h with
  | @value lead v r' h1 h2 h3 h4 =>
    have := WsSpec.value (hc := hc) (start := start) (rest := p ++ r) (lead := p ++ lead) (v := v) (r := r')
      (by simp [h1]) (hp.append h2) h3 h4
    simpa [Nat.add_assoc] using this
  | @empty lead eol after h1 h2 h3 h4 =>
    have := WsSpec.empty (hc := hc) (start := start) (rest := p ++ r) (lead := p ++ lead) (eol := eol)
      (after := after) (by simp [h1]) (hp.append h2) h3 h4
    simpa [Nat.add_assoc] using this
  | @skipped lead b rest' _ h1 h2 h3 h4 h5 h6 =>
    refine WsSpec.skipped (lead := p ++ lead) (b := b) (rest' := rest') (by simp [h1]) (hp.append h2) h3 h4 h5 ?_
    simpa [Nat.add_assoc] using h6

theorem wsAfterColon_sound (hc : HCfg) : ∀ (n : Nat) (rest : List Byte), rest.length ≤ n →
    ∀ (start : Nat) (res : WsRes) (c' : Cur), wsAfterColon hc start [] rest = .ok (res, c') →
      WsSpec hc start rest res c' := by
  intro n
  induction n with
  | zero =>
    intro rest hl start res c' h
    cases rest with
    | nil => simp [wsAfterColon] at h
    | cons b r => simp at hl
  | succ n ih =>
    intro rest hl start res c' h
    cases rest with
    | nil => simp [wsAfterColon] at h
    | cons b r =>
      simp only [List.length_cons, Nat.add_le_add_iff_right] at hl
      rw [SA.wsAfterColon_cons] at h
      by_cases hws : isWs b = true
      · simp only [hws, if_true, List.nil_append, List.length_singleton] at h
        exact WsSpec.prepend (p := [b]) (.ws hws .nil) (ih r hl _ _ _ h)
      · have hws' : isWs b = false := by simpa using hws
        simp only [hws', Bool.false_eq_true, if_false] at h
        by_cases hv : isValue b = true
        · simp only [hv, if_true, List.nil_append, Outcome.ok.injEq, Prod.mk.injEq] at h
          obtain ⟨rfl, rfl⟩ := h
          exact WsSpec.value (lead := []) rfl .nil hv hws'
        · have hv' : isValue b = false := by simpa using hv
          simp only [hv', Bool.false_eq_true, if_false] at h
          by_cases hcr : b = CR
          · subst hcr
            simp only [beq_self_eq_true, if_true] at h
            cases r with
            | nil => simp at h
            | cons b2 r2 =>
              simp only at h
              by_cases hlf : b2 = LF
              · subst hlf
                simp only [beq_self_eq_true, if_true, List.nil_append] at h
                cases hf : hc.fold
                · simp only [hf, Bool.false_eq_true, if_false, Outcome.ok.injEq, Prod.mk.injEq] at h
                  obtain ⟨rfl, rfl⟩ := h
                  exact WsSpec.empty (lead := []) (eol := [CR, LF]) (after := r2) rfl .nil (Or.inl rfl)
                    (by intro h; rw [hf] at h; cases h)
                · simp only [hf, if_true] at h
                  cases r2 with
                  | nil => simp at h
                  | cons p r3 =>
                    simp only at h
                    by_cases hp : isWs p = true
                    · simp only [hp, if_true] at h
                      rw [SA.wsAfterColon_cons] at h
                      simp only [hp, if_true] at h
                      have hl3 : r3.length ≤ n := by simp at hl; omega
                      exact WsSpec.prepend (p := [CR, LF] ++ [p]) (.fold hf (Or.inl rfl) hp .nil)
                        (ih r3 hl3 _ _ _ h)
                    · have hp' : isWs p = false := by simpa using hp
                      simp only [hp', Bool.false_eq_true, if_false, Outcome.ok.injEq, Prod.mk.injEq] at h
                      obtain ⟨rfl, rfl⟩ := h
                      exact WsSpec.empty (lead := []) (eol := [CR, LF]) (after := p :: r3) rfl .nil (Or.inl rfl)
                        (fun _ => ⟨p, r3, rfl, hp'⟩)
              · simp [hlf] at h
          · simp only [beq_byte, hcr, if_false] at h
            by_cases hlf : b = LF
            · subst hlf
              simp only [if_true, List.nil_append] at h
              cases hf : hc.fold
              · simp only [hf, Bool.false_eq_true, if_false, Outcome.ok.injEq, Prod.mk.injEq] at h
                obtain ⟨rfl, rfl⟩ := h
                exact WsSpec.empty (lead := []) (eol := [LF]) (after := r) rfl .nil (Or.inr rfl)
                  (by intro h; rw [hf] at h; cases h)
              · simp only [hf, if_true] at h
                cases r with
                | nil => simp at h
                | cons p r3 =>
                  simp only at h
                  by_cases hp : isWs p = true
                  · simp only [hp, if_true] at h
                    rw [SA.wsAfterColon_cons] at h
                    simp only [hp, if_true] at h
                    have hl3 : r3.length ≤ n := by simp at hl; omega
                    exact WsSpec.prepend (p := [LF] ++ [p]) (.fold hf (Or.inr rfl) hp .nil)
                      (ih r3 hl3 _ _ _ h)
                  · have hp' : isWs p = false := by simpa using hp
                    simp only [hp', Bool.false_eq_true, if_false, Outcome.ok.injEq, Prod.mk.injEq] at h
                    obtain ⟨rfl, rfl⟩ := h
                    exact WsSpec.empty (lead := []) (eol := [LF]) (after := p :: r3) rfl .nil (Or.inr rfl)
                      (fun _ => ⟨p, r3, rfl, hp'⟩)
            · simp only [hlf, if_false] at h
              cases hrun : (handleInvalid hc .headerValue b).run ⟨start, [] ++ [b], r⟩ with
              | ok p =>
                obtain ⟨u, c1⟩ := p
                rw [hrun] at h
                simp only [Outcome.ok.injEq, Prod.mk.injEq] at h
                obtain ⟨rfl, rfl⟩ := h
                have hd := (handleInvalid_ok_iff ..).mp hrun
                exact WsSpec.skipped (lead := []) rfl .nil hv' hcr hlf (by simpa using hd)
              | part => rw [hrun] at h; simp at h
              | err e => rw [hrun] at h; simp at h
              | ub u => rw [hrun] at h; simp at h

theorem wsAfterColon_lead (hc : HCfg) {lead : List Byte} (h : LeadI hc.fold lead) :
    ∀ (start : Nat) (rest' : List Byte),
      wsAfterColon hc start [] (lead ++ rest') = wsAfterColon hc (start + lead.length) [] rest' := by
  induction h with
  | nil => intro start rest'; simp
  | @ws b l hb _ ih =>
    intro start rest'
    rw [List.cons_append, SA.wsAfterColon_cons]
    simp only [hb, if_true, ih]
    congr 1; simp; omega
  | @fold e b l hf he hb _ ih =>
    intro start rest'
    rcases he with rfl | rfl
    · simp only [List.cons_append, List.nil_append]
      rw [SA.wsAfterColon_cons]
      simp only [isWs_CR, isValue_CR, Bool.false_eq_true, if_false, beq_self_eq_true, if_true, hf, hb]
      rw [SA.wsAfterColon_cons]
      simp only [hb, if_true, ih]
      congr 1; simp; omega
    · simp only [List.cons_append, List.nil_append]
      rw [SA.wsAfterColon_cons]
      simp only [isWs_LF, isValue_LF, Bool.false_eq_true, if_false, beq_byte, LF_ne_CR, if_true, hf, hb]
      rw [SA.wsAfterColon_cons]
      simp only [hb, if_true, ih]
      congr 1; simp; omega

theorem wsAfterColon_ok_iff (hc : HCfg) (start : Nat) (rest : List Byte) (res : WsRes) (c' : Cur) :
    wsAfterColon hc start [] rest = .ok (res, c') ↔ WsSpec hc start rest res c' := by
  constructor
  · exact wsAfterColon_sound hc rest.length rest (Nat.le_refl _) start res c'
  · intro h
    cases h with
    | @value lead v r h1 h2 h3 h4 =>
      subst h1
      rw [wsAfterColon_lead hc h2, SA.wsAfterColon_cons]
      simp [h3, h4]
    | @empty lead eol after h1 h2 h3 h4 =>
      subst h1
      rw [List.append_assoc, wsAfterColon_lead hc h2]
      rcases h3 with rfl | rfl
      · rw [List.cons_append, SA.wsAfterColon_cons]
        simp only [isWs_CR, isValue_CR, Bool.false_eq_true, if_false, beq_self_eq_true, if_true,
          List.cons_append, List.nil_append]
        cases hf : hc.fold
        · simp
        · obtain ⟨x, r, rfl, hx⟩ := h4 hf
          simp [hx]
      · rw [List.cons_append, SA.wsAfterColon_cons]
        simp only [isWs_LF, isValue_LF, Bool.false_eq_true, if_false, beq_byte, LF_ne_CR, if_true,
          List.nil_append]
        cases hf : hc.fold
        · simp
        · obtain ⟨x, r, rfl, hx⟩ := h4 hf
          simp [hx]
    | @skipped lead b rest' _ h1 h2 h3 h4 h5 h6 =>
      subst h1
      rw [wsAfterColon_lead hc h2, SA.wsAfterColon_cons]
      have hws : isWs b = false := by
        cases h : isWs b
        · rfl
        · rw [(ws_facts h).1] at h3; cases h3
      have hrun := (handleInvalid_ok_iff hc .headerValue b (start + lead.length) ([] ++ [b]) rest' () c').mpr
        (by simpa using h6)
      simp only [hws, h3, Bool.false_eq_true, if_false, beq_byte, h4, h5, hrun]

/-! ### value lines -/

/-- `ValRest fold` as one inductive predicate -/
inductive ValRestI (fold : Bool) : List Byte → Prop where
  | nil : ValRestI fold []
  | ch {b : Byte} {l : List Byte} : isValue b = true → ValRestI fold l → ValRestI fold (b :: l)
  | fold {e : List Byte} {b : Byte} {l : List Byte} : fold = true → IsEol e → isWs b = true → ValRestI fold l →
      ValRestI fold (e ++ b :: l)

theorem valRest_iff (fold : Bool) (l : List Byte) : ValRest fold l ↔ ValRestI fold l := by
  cases fold
  · simp only [ValRest, Bool.false_eq_true, if_false]
    constructor
    · intro h
      induction l with
      | nil => exact .nil
      | cons b l ih => exact .ch (h b (by simp)) (ih fun y hy => h y (by simp [hy]))
    · intro h
      induction h with
      | nil => simp
      | ch hb _ ih =>
        intro y hy; rcases List.mem_cons.mp hy with rfl | hy
        · exact hb
        · exact ih y hy
      | fold hf => cases hf
  · simp only [ValRest, if_true]
    constructor
    · intro h
      induction h with
      | nil => exact .nil
      | ch hb _ ih => exact .ch hb ih
      | fold he hb _ ih => exact .fold rfl he hb ih
    · intro h
      induction h with
      | nil => exact .nil
      | ch hb _ ih => exact .ch hb ih
      | fold _ he hb _ ih => exact .fold he hb ih

theorem ValRestI.append {fold : Bool} {p l : List Byte} (hp : ValRestI fold p) (hl : ValRestI fold l) :
    ValRestI fold (p ++ l) := by
  induction hp with
  | nil => simpa
  | ch hb _ ih => exact .ch hb ih
  | fold hf he hb _ ih =>
    rw [List.append_assoc, List.cons_append]
    exact .fold hf he hb ih

theorem ValRestI.of_all {fold : Bool} {l : List Byte} (h : ∀ x ∈ l, isValue x = true) : ValRestI fold l := by
  induction l with
  | nil => exact .nil
  | cons b l ih => exact .ch (h b (by simp)) (ih fun y hy => h y (by simp [hy]))

theorem ValRestI.tail {fold : Bool} {p : Byte} {l : List Byte} (hp : isWs p = true)
    (h : ValRestI fold (p :: l)) : ValRestI fold l := by
  generalize hq : p :: l = q at h
  cases h with
  | nil => cases hq
  | ch _ hl => cases hq; exact hl
  | fold _ he _ _ =>
    rcases he with rfl | rfl
    · simp at hq; rw [hq.1] at hp; exact absurd hp (by decide)
    · simp at hq; rw [hq.1] at hp; exact absurd hp (by decide)

/-- a folded value is a run of value bytes, then nothing or a fold and a folded value -/
theorem ValRestI.split {fold : Bool} {rest : List Byte} (h : ValRestI fold rest) :
    ∃ l, (∀ x ∈ l, isValue x = true) ∧
      (rest = l ∨ ∃ e p m, fold = true ∧ IsEol e ∧ isWs p = true ∧ rest = l ++ e ++ p :: m ∧ ValRestI fold m) := by
  induction h with
  | nil => exact ⟨[], by simp, Or.inl rfl⟩
  | @ch b l hb _ ih =>
    obtain ⟨l', hl', hcase⟩ := ih
    refine ⟨b :: l', ?_, ?_⟩
    · intro y hy; rcases List.mem_cons.mp hy with rfl | hy
      · exact hb
      · exact hl' y hy
    · rcases hcase with rfl | ⟨e, p, m, hf, he, hp, rfl, hm⟩
      · exact Or.inl rfl
      · exact Or.inr ⟨e, p, m, hf, he, hp, by simp, hm⟩
  | @fold e b l hf he hb hl _ => exact ⟨[], by simp, Or.inr ⟨e, b, l, hf, he, hb, by simp, hl⟩⟩

/-- what the `'value_lines` loop accepts, entered with the cursor `⟨s, t, r⟩` -/
inductive ValSpec (hc : HCfg) (s : Nat) (t r : List Byte) (res : Option Slice) (c' : Cur) : Prop where
  | value {rest eol after : List Byte} : r = rest ++ eol ++ after → ValRestI hc.fold rest → IsEol eol →
      LookOk hc.fold after → res = some ⟨s, t ++ rest⟩ →
      c' = ⟨s + t.length + rest.length + eol.length, [], after⟩ → ValSpec hc s t r res c'
  | dropped {rest : List Byte} {b : Byte} {rest' : List Byte} : r = rest ++ b :: rest' → ValRestI hc.fold rest →
      isValue b = false → b ≠ CR → b ≠ LF → res = none →
      Dropped hc b (s + t.length + rest.length + 1) rest' c' → ValSpec hc s t r res c'

/-- the continuation of `valueLines` after the scan -/
def valTail (be : Backend) (hc : HCfg) (fuel : Nat) (b : Byte) : P (Option Slice) :=
    if b == CR then do
      let _ ← expect (· == LF) .headerValue
      if hc.fold then
        ⟨fun c => match c.rest with
          | [] => .part
          | p :: _ => if isWs p then (valueLines be hc fuel).run c
                      else (do let s ← sliceSkip 2; pure (some s) : P (Option Slice)).run c⟩
      else do let s ← sliceSkip 2; pure (some s)
    else if b == LF then
      if hc.fold then
        ⟨fun c => match c.rest with
          | [] => .part
          | p :: _ => if isWs p then (valueLines be hc fuel).run c
                      else (do let s ← sliceSkip 1; pure (some s) : P (Option Slice)).run c⟩
      else do let s ← sliceSkip 1; pure (some s)
    else do handleInvalid hc .headerValue b; pure none

theorem valueLines_run {be : Backend} (hbe : be.Exact) (hc : HCfg) (fuel : Nat) (s : Nat) (t l : List Byte)
    (b : Byte) (r1 : List Byte) (hl : ∀ x ∈ l, isValue x = true) (hb : isValue b = false) :
    (valueLines be hc (fuel + 1)).run ⟨s, t, l ++ b :: r1⟩ = (valTail be hc fuel b).run ⟨s, t ++ l ++ [b], r1⟩ := by
  have h1 := (scanNext_ok_iff hbe.value (s := s) (t := t) (n := l.length) (d := b)).mpr
    ⟨l, r1, rfl, hl, hb, rfl, rfl⟩
  rw [valueLines]
  unfold valTail
  simp only [run_bind, h1]
  rfl

theorem valTail_cr (be : Backend) (hc : HCfg) (fuel : Nat) (s : Nat) (t r1 : List Byte) :
    (valTail be hc fuel CR).run ⟨s, t ++ [CR], r1⟩ =
      match r1 with
      | [] => .part
      | b2 :: r2 =>
        if b2 == LF then
          if hc.fold then
            match r2 with
            | [] => .part
            | p :: _ =>
              if isWs p then (valueLines be hc fuel).run ⟨s, t ++ [CR, LF], r2⟩
              else .ok (some ⟨s, t⟩, ⟨s + t.length + 2, [], r2⟩)
          else .ok (some ⟨s, t⟩, ⟨s + t.length + 2, [], r2⟩)
        else .err .headerValue := by
  unfold valTail
  cases r1 with
  | nil => simp [expect, next]
  | cons b2 r2 =>
    by_cases h : b2 = LF
    · subst h
      have e : t ++ [CR] ++ [LF] = t ++ [CR, LF] := by simp
      cases hf : hc.fold
      · simp [expect, next, e, sliceSkip2_snoc]
      · cases r2 with
        | nil => simp [expect, next]
        | cons p r3 =>
          cases hp : isWs p <;> simp [expect, next, e, sliceSkip2_snoc, hp]
    · simp [expect, next, h]

theorem valTail_lf (be : Backend) (hc : HCfg) (fuel : Nat) (s : Nat) (t r2 : List Byte) :
    (valTail be hc fuel LF).run ⟨s, t ++ [LF], r2⟩ =
      if hc.fold then
        match r2 with
        | [] => .part
        | p :: _ =>
          if isWs p then (valueLines be hc fuel).run ⟨s, t ++ [LF], r2⟩
          else .ok (some ⟨s, t⟩, ⟨s + t.length + 1, [], r2⟩)
      else .ok (some ⟨s, t⟩, ⟨s + t.length + 1, [], r2⟩) := by
  unfold valTail
  cases hf : hc.fold
  · simp [LF_ne_CR, sliceSkip1_snoc]
  · cases r2 with
    | nil => simp [LF_ne_CR]
    | cons p r3 =>
      cases hp : isWs p <;> simp [LF_ne_CR, sliceSkip1_snoc, hp]

theorem valTail_other (be : Backend) (hc : HCfg) (fuel : Nat) (b : Byte) (h1 : b ≠ CR) (h2 : b ≠ LF) :
    valTail be hc fuel b = (do handleInvalid hc .headerValue b; pure none : P (Option Slice)) := by
  unfold valTail
  simp [h1, h2]

theorem ValSpec.prepend_fold {hc : HCfg} {s : Nat} {t l e : List Byte} {p : Byte} {r3 : List Byte}
    {res : Option Slice} {c' : Cur} (hl : ∀ x ∈ l, isValue x = true) (hf : hc.fold = true) (he : IsEol e)
    (hp : isWs p = true) (h : ValSpec hc s (t ++ l ++ e) (p :: r3) res c') :
    ValSpec hc s t (l ++ e ++ p :: r3) res c' := by
  cases h with
  | @value rest eol after h1 h2 h3 h4 h5 h6 =>
    cases rest with
    | nil =>
      exfalso
      rcases h3 with rfl | rfl
      · simp at h1; rw [h1.1] at hp; exact absurd hp (by decide)
      · simp at h1; rw [h1.1] at hp; exact absurd hp (by decide)
    | cons x rest'' =>
      simp only [List.cons_append, List.cons.injEq] at h1
      obtain ⟨rfl, rfl⟩ := h1
      have hr := ValRestI.tail hp h2
      have hall : ValRestI hc.fold (l ++ e ++ p :: rest'') := by
        rw [List.append_assoc]; exact (ValRestI.of_all hl).append (.fold hf he hp hr)
      exact .value (rest := l ++ e ++ p :: rest'') (eol := eol) (after := after) (by simp)
        hall h3 h4 (by simp [h5]) (by simp [h6]; omega)
  | @dropped rest b rest' h1 h2 h3 h4 h5 h6 h7 =>
    cases rest with
    | nil =>
      exfalso
      simp only [List.nil_append, List.cons.injEq] at h1
      rw [← h1.1, (ws_facts hp).1] at h3; cases h3
    | cons x rest'' =>
      simp only [List.cons_append, List.cons.injEq] at h1
      obtain ⟨rfl, rfl⟩ := h1
      have hr := ValRestI.tail hp h2
      have hall : ValRestI hc.fold (l ++ e ++ p :: rest'') := by
        rw [List.append_assoc]; exact (ValRestI.of_all hl).append (.fold hf he hp hr)
      refine .dropped (rest := l ++ e ++ p :: rest'') (b := b) (rest' := rest') (by simp)
        hall h3 h4 h5 h6 ?_
      have e2 : s + t.length + (l ++ e ++ p :: rest'').length + 1 =
          s + (t ++ l ++ e).length + (p :: rest'').length + 1 := by simp; omega
      rw [e2]; exact h7

theorem valueLines_sound {be : Backend} (hbe : be.Exact) (hc : HCfg) : ∀ (fuel : Nat) (s : Nat) (t r : List Byte)
    (res : Option Slice) (c' : Cur), (valueLines be hc fuel).run ⟨s, t, r⟩ = .ok (res, c') →
      ValSpec hc s t r res c' := by
  intro fuel
  induction fuel with
  | zero => intro s t r res c' h; simp [valueLines] at h
  | succ fuel ih =>
    intro s t r res c' h
    have h0 := h
    rw [valueLines] at h0
    obtain ⟨⟨n, b⟩, c1, h1, -⟩ := bind_ok_iff.mp h0
    obtain ⟨l, r1, rfl, hl, hb, rfl, rfl⟩ := (scanNext_ok_iff hbe.value).mp h1
    clear h0 h1
    rw [valueLines_run hbe hc fuel s t l b r1 hl hb] at h
    by_cases hcr : b = CR
    · subst hcr
      rw [valTail_cr] at h
      cases r1 with
      | nil => simp at h
      | cons b2 r2 =>
        simp only at h
        by_cases hlf : b2 = LF
        · subst hlf
          simp only [beq_self_eq_true, if_true] at h
          have hfin : ∀ {r2 : List Byte}, LookOk hc.fold r2 →
              Outcome.ok (some (⟨s, t ++ l⟩ : Slice), (⟨s + (t ++ l).length + 2, [], r2⟩ : Cur)) = .ok (res, c') →
              ValSpec hc s t (l ++ CR :: LF :: r2) res c' := by
            intro r2 hlook h
            simp only [Outcome.ok.injEq, Prod.mk.injEq] at h
            obtain ⟨rfl, rfl⟩ := h
            exact .value (rest := l) (eol := [CR, LF]) (after := r2) (by simp) (.of_all hl) (Or.inl rfl) hlook rfl
              (by simp; omega)
          cases hf : hc.fold
          · simp only [hf, Bool.false_eq_true, if_false] at h
            exact hfin (by intro h; rw [hf] at h; cases h) h
          · simp only [hf, if_true] at h
            cases r2 with
            | nil => simp at h
            | cons p r3 =>
              simp only at h
              by_cases hp : isWs p = true
              · simp only [hp, if_true] at h
                have := ih _ _ _ _ _ h
                have e : t ++ l ++ [CR, LF] = t ++ l ++ [CR, LF] := rfl
                have := ValSpec.prepend_fold (e := [CR, LF]) hl hf (Or.inl rfl) hp this
                simpa using this
              · have hp' : isWs p = false := by simpa using hp
                simp only [hp', Bool.false_eq_true, if_false] at h
                exact hfin (fun _ => ⟨p, r3, rfl, hp'⟩) h
        · simp [hlf] at h
    · by_cases hlf : b = LF
      · subst hlf
        rw [valTail_lf] at h
        have hfin : ∀ {r2 : List Byte}, LookOk hc.fold r2 →
            Outcome.ok (some (⟨s, t ++ l⟩ : Slice), (⟨s + (t ++ l).length + 1, [], r2⟩ : Cur)) = .ok (res, c') →
            ValSpec hc s t (l ++ LF :: r2) res c' := by
          intro r2 hlook h
          simp only [Outcome.ok.injEq, Prod.mk.injEq] at h
          obtain ⟨rfl, rfl⟩ := h
          exact .value (rest := l) (eol := [LF]) (after := r2) (by simp) (.of_all hl) (Or.inr rfl) hlook rfl
            (by simp; omega)
        cases hf : hc.fold
        · simp only [hf, Bool.false_eq_true, if_false] at h
          exact hfin (by intro h; rw [hf] at h; cases h) h
        · simp only [hf, if_true] at h
          cases r1 with
          | nil => simp at h
          | cons p r3 =>
            simp only at h
            by_cases hp : isWs p = true
            · simp only [hp, if_true] at h
              have := ih _ _ _ _ _ h
              have := ValSpec.prepend_fold (e := [LF]) hl hf (Or.inr rfl) hp this
              simpa using this
            · have hp' : isWs p = false := by simpa using hp
              simp only [hp', Bool.false_eq_true, if_false] at h
              exact hfin (fun _ => ⟨p, r3, rfl, hp'⟩) h
      · rw [valTail_other be hc fuel b hcr hlf] at h
        obtain ⟨rfl, hd⟩ := (handleInvalid_then_ok_iff ..).mp h
        refine .dropped (rest := l) (b := b) (rest' := r1) rfl (.of_all hl) hb hcr hlf rfl ?_
        have e2 : s + t.length + l.length + 1 = s + (t ++ l ++ [b]).length := by simp; omega
        rw [e2]; exact hd

theorem valueLines_complete {be : Backend} (hbe : be.Exact) (hc : HCfg) : ∀ (fuel : Nat) (s : Nat) (t r : List Byte)
    (res : Option Slice) (c' : Cur), r.length < fuel → ValSpec hc s t r res c' →
      (valueLines be hc fuel).run ⟨s, t, r⟩ = .ok (res, c') := by
  intro fuel
  induction fuel with
  | zero => intro s t r res c' hlt; omega
  | succ fuel ih =>
    intro s t r res c' hlt h
    cases h with
    | @value rest eol after h1 h2 h3 h4 h5 h6 =>
      subst h1 h5 h6
      obtain ⟨l, hl, hcase⟩ := h2.split
      rcases hcase with rfl | ⟨e, p, m, hf, he, hp, rfl, hm⟩
      · rcases h3 with rfl | rfl
        · have e1 : rest ++ [CR, LF] ++ after = rest ++ CR :: (LF :: after) := by simp
          rw [e1, valueLines_run hbe hc fuel s t rest CR _ hl isValue_CR, valTail_cr]
          simp only [beq_self_eq_true, if_true]
          cases hf : hc.fold
          · simp; omega
          · obtain ⟨x, r, rfl, hx⟩ := h4 hf
            simp [hx]; omega
        · have e1 : rest ++ [LF] ++ after = rest ++ LF :: after := by simp
          rw [e1, valueLines_run hbe hc fuel s t rest LF _ hl isValue_LF, valTail_lf]
          cases hf : hc.fold
          · simp; omega
          · obtain ⟨x, r, rfl, hx⟩ := h4 hf
            simp [hx]; omega
      · have hv : ValRestI hc.fold (p :: m) := .ch (ws_facts hp).1 hm
        rcases he with rfl | rfl
        · have e1 : l ++ [CR, LF] ++ p :: m ++ eol ++ after = l ++ CR :: (LF :: p :: (m ++ eol ++ after)) := by simp
          rw [e1, valueLines_run hbe hc fuel s t l CR _ hl isValue_CR, valTail_cr]
          simp only [beq_self_eq_true, if_true, hf, hp]
          apply ih
          · simp at hlt ⊢; omega
          · exact .value (rest := p :: m) (eol := eol) (after := after) (by simp) hv h3 h4 (by simp)
              (by simp; omega)
        · have e1 : l ++ [LF] ++ p :: m ++ eol ++ after = l ++ LF :: (p :: (m ++ eol ++ after)) := by simp
          rw [e1, valueLines_run hbe hc fuel s t l LF _ hl isValue_LF, valTail_lf]
          simp only [if_true, hf, hp]
          apply ih
          · simp at hlt ⊢; omega
          · exact .value (rest := p :: m) (eol := eol) (after := after) (by simp) hv h3 h4 (by simp)
              (by simp; omega)
    | @dropped rest b rest' h1 h2 h3 h4 h5 h6 h7 =>
      subst h1 h6
      obtain ⟨l, hl, hcase⟩ := h2.split
      rcases hcase with rfl | ⟨e, p, m, hf, he, hp, rfl, hm⟩
      · rw [valueLines_run hbe hc fuel s t rest b _ hl h3, valTail_other be hc fuel b h4 h5]
        refine (handleInvalid_then_ok_iff ..).mpr ⟨rfl, ?_⟩
        have e2 : s + t.length + rest.length + 1 = s + (t ++ rest ++ [b]).length := by simp; omega
        rw [← e2]; exact h7
      · have hv : ValRestI hc.fold (p :: m) := .ch (ws_facts hp).1 hm
        rcases he with rfl | rfl
        · have e1 : l ++ [CR, LF] ++ p :: m ++ b :: rest' = l ++ CR :: (LF :: p :: (m ++ b :: rest')) := by simp
          rw [e1, valueLines_run hbe hc fuel s t l CR _ hl isValue_CR, valTail_cr]
          simp only [beq_self_eq_true, if_true, hf, hp]
          apply ih
          · simp at hlt ⊢; omega
          · refine .dropped (rest := p :: m) (b := b) (rest' := rest') (by simp) hv h3 h4 h5 rfl ?_
            have e2 : s + (t ++ l ++ [CR, LF]).length + (p :: m).length + 1 =
                s + t.length + (l ++ [CR, LF] ++ p :: m).length + 1 := by simp; omega
            rw [e2]; exact h7
        · have e1 : l ++ [LF] ++ p :: m ++ b :: rest' = l ++ LF :: (p :: (m ++ b :: rest')) := by simp
          rw [e1, valueLines_run hbe hc fuel s t l LF _ hl isValue_LF, valTail_lf]
          simp only [if_true, hf, hp]
          apply ih
          · simp at hlt ⊢; omega
          · refine .dropped (rest := p :: m) (b := b) (rest' := rest') (by simp) hv h3 h4 h5 rfl ?_
            have e2 : s + (t ++ l ++ [LF]).length + (p :: m).length + 1 =
                s + t.length + (l ++ [LF] ++ p :: m).length + 1 := by simp; omega
            rw [e2]; exact h7

theorem valueLines_ok_iff {be : Backend} (hbe : be.Exact) (hc : HCfg) (fuel : Nat) (s : Nat) (t r : List Byte)
    (res : Option Slice) (c' : Cur) (hlt : r.length < fuel) :
    (valueLines be hc fuel).run ⟨s, t, r⟩ = .ok (res, c') ↔ ValSpec hc s t r res c' :=
  ⟨valueLines_sound hbe hc fuel s t r res c', valueLines_complete hbe hc fuel s t r res c' hlt⟩

/-! ### one header line -/

/-- `headerLine` after a first byte that is a `tchar` and after the name -/
def afterNameTail (be : Backend) (hc : HCfg) (name : Slice) : P Line := do
  let w ← (⟨fun c => wsAfterColon hc c.start c.tok c.rest⟩ : P WsRes)
  match w with
  | .skipped => pure .skipped
  | .empty v => pure (.header name v)
  | .value =>
    let v ← (⟨fun c => (valueLines be hc (c.rest.length + 1)).run c⟩ : P (Option Slice))
    match v with
    | none => pure .skipped
    | some v => pure (.header name v)

def tcharTail (be : Backend) (hc : HCfg) : P Line := do
  let nm ← nameStage be hc
  match nm with
  | none => pure .skipped
  | some name => afterNameTail be hc name

theorem headerRest_tchar (be : Backend) (hc : HCfg) (k : Nat) (b : Byte) (hb : isTchar b = true) :
    headerRest be hc k b = tcharTail be hc := by
  unfold headerRest tcharTail afterNameTail
  simp only [beq_byte, hb, (tchar_facts hb).2.2.1, (tchar_facts hb).2.2.2.1, if_false, Bool.not_true,
    Bool.false_eq_true]
  rfl

/-- a dropped line, in the shape of `LineSpec.ignored` -/
theorem Dropped.lineSpec {hc : HCfg} {k off : Nat} {good : List Byte} {b : Byte} {pos : Nat} {rest' : List Byte}
    {c' : Cur} (hd : Dropped hc b pos rest' c') (hfp : FailPoint hc k good b) (hpos : pos = off + good.length + 1) :
    ∃ consumed after, good ++ b :: rest' = consumed ++ after ∧ c' = ⟨off + consumed.length, [], after⟩ ∧
      LineSpec hc k off consumed after .skipped := by
  obtain ⟨hign, tl, after, rfl, ⟨junk, eol, hje, hj, he⟩, rfl⟩ := hd
  refine ⟨good ++ junk ++ eol, after, ?_, ?_, .ignored hign hj he (by rw [hje]; rfl) hfp⟩
  · rw [List.append_assoc good, hje]; simp
  · have : (good ++ junk ++ eol).length = good.length + 1 + tl.length := by
      rw [List.append_assoc good, hje]; simp; omega
    rw [this, hpos]; simp; omega

theorem Dropped.of_junk {hc : HCfg} {junk eol : List Byte} {b : Byte} (hign : hc.ign = true) (hj : NoCtl junk)
    (he : IsEol eol) (hh : (junk ++ eol).head? = some b) (pos : Nat) (after : List Byte) :
    ∃ tl, junk ++ eol = b :: tl ∧ Dropped hc b pos (tl ++ after) ⟨pos + tl.length, [], after⟩ := by
  cases hje : junk ++ eol with
  | nil => rw [hje] at hh; cases hh
  | cons x tl =>
    rw [hje] at hh; simp at hh; subst hh
    exact ⟨tl, rfl, hign, tl, after, rfl, ⟨junk, eol, hje, hj, he⟩, rfl⟩

theorem headerLine_sound {be : Backend} (hbe : be.Exact) (hc : HCfg) (k off : Nat) (input : List Byte)
    (res : Line) (c' : Cur) (h : (headerLine be hc k).run ⟨off, [], input⟩ = .ok (res, c')) :
    ∃ consumed after, input = consumed ++ after ∧
      c' = (if res = .eoh then ⟨off, consumed, after⟩ else ⟨off + consumed.length, [], after⟩) ∧
      LineSpec hc k off consumed after res := by
  rw [headerLine_eq] at h
  obtain ⟨b, c1, h1, h2⟩ := bind_ok_iff.mp h
  obtain ⟨r, rfl, rfl⟩ := next_ok_iff.mp h1
  clear h h1
  simp only [List.nil_append] at h2
  by_cases hcr : b = CR
  · subst hcr
    simp only [headerRest, beq_self_eq_true, if_true] at h2
    obtain ⟨x, c2, h3, h4⟩ := bind_ok_iff.mp h2
    obtain ⟨r2, rfl, hx, rfl⟩ := expect_ok_iff.mp h3
    simp only [beq_byte] at hx; subst hx
    simp only [run_pure, Outcome.ok.injEq, Prod.mk.injEq] at h4
    obtain ⟨rfl, rfl⟩ := h4
    exact ⟨[CR, LF], r2, rfl, by simp, .eoh (Or.inl rfl)⟩
  by_cases hlf : b = LF
  · subst hlf
    simp only [headerRest, beq_byte, LF_ne_CR, if_false, if_true, run_pure, Outcome.ok.injEq,
      Prod.mk.injEq] at h2
    obtain ⟨rfl, rfl⟩ := h2
    exact ⟨[LF], r, rfl, by simp, .eoh (Or.inr rfl)⟩
  by_cases htc : isTchar b = true
  · rw [headerRest_tchar be hc k b htc] at h2
    unfold tcharTail at h2
    obtain ⟨nm, c2, h3, h4⟩ := bind_ok_iff.mp h2
    clear h2
    rcases (nameStage_ok_iff hbe hc off b htc r nm c2).mp h3 with
      ⟨name, ws₁, after1, heq, hnp, rfl, rfl⟩ | ⟨rfl, good, b', rest', heq, hnf, hd⟩
    · simp only [afterNameTail] at h4
      obtain ⟨w, c3, h5, h6⟩ := bind_ok_iff.mp h4
      clear h4 h3
      rw [run_mk] at h5
      simp only at h5
      rw [heq]
      have hws := (wsAfterColon_ok_iff _ _ _ _ _).mp h5
      clear h5
      cases hws with
      | @value lead v r3 e1 hlead hv hvw =>
        subst e1
        simp only at h6
        obtain ⟨vres, c4, h7, h8⟩ := bind_ok_iff.mp h6
        rw [run_mk] at h7
        have hval := valueLines_sound hbe hc _ _ _ _ _ _ h7
        clear h6 h7
        cases hval with
        | @value rest eol after e2 hrest heol hlook e3 e4 =>
          subst e2 e3 e4
          simp only [run_pure, Outcome.ok.injEq, Prod.mk.injEq] at h8
          obtain ⟨rfl, rfl⟩ := h8
          refine ⟨name ++ ws₁ ++ COLON :: (lead ++ v :: rest ++ eol), after, by simp, ?_, ?_⟩
          · simp; omega
          · have := LineSpec.header (hc := hc) (nStored := k) (off := off) (after := after) hnp
              (BodySpec.value ((lead_iff _ _).mpr hlead) hv hvw ((valRest_iff _ _).mpr hrest) heol) hlook
            simpa using this
        | @dropped rest b2 rest2 e2 hrest hb2 hb2cr hb2lf e3 hd =>
          subst e2 e3
          simp only [run_pure, Outcome.ok.injEq, Prod.mk.injEq] at h8
          obtain ⟨rfl, rfl⟩ := h8
          have hfp : FailPoint hc k (name ++ ws₁ ++ COLON :: lead ++ v :: rest) b2 :=
            .inValue hnp ((lead_iff _ _).mpr hlead) hv hvw ((valRest_iff _ _).mpr hrest) hb2 hb2cr hb2lf
          obtain ⟨consumed, after, e5, e6, hls⟩ := hd.lineSpec (off := off) hfp (by simp; omega)
          exact ⟨consumed, after, by rw [← e5]; simp, by simp [e6], hls⟩
      | @empty lead eol after e1 hlead heol hlook =>
        subst e1
        simp only [run_pure, Outcome.ok.injEq, Prod.mk.injEq] at h6
        obtain ⟨rfl, rfl⟩ := h6
        refine ⟨name ++ ws₁ ++ COLON :: (lead ++ eol), after, by simp, ?_, ?_⟩
        · simp; omega
        · exact LineSpec.header (hc := hc) (nStored := k) (off := off) (after := after) hnp
            (BodySpec.empty ((lead_iff _ _).mpr hlead) heol) hlook
      | @skipped lead b2 rest2 _ e1 hlead hb2 hb2cr hb2lf hd =>
        subst e1
        simp only [run_pure, Outcome.ok.injEq, Prod.mk.injEq] at h6
        obtain ⟨rfl, rfl⟩ := h6
        have hfp : FailPoint hc k (name ++ ws₁ ++ COLON :: lead) b2 :=
          .afterColon hnp ((lead_iff _ _).mpr hlead) hb2 hb2cr hb2lf
        obtain ⟨consumed, after, e5, e6, hls⟩ := hd.lineSpec (off := off) hfp (by simp; omega)
        exact ⟨consumed, after, by rw [← e5]; simp, by simp [e6], hls⟩
    · simp only [run_pure, Outcome.ok.injEq, Prod.mk.injEq] at h4
      obtain ⟨rfl, rfl⟩ := h4
      rw [heq]
      obtain ⟨consumed, after, e5, e6, hls⟩ := hd.lineSpec (off := off) (hnf.failPoint k) rfl
      exact ⟨consumed, after, e5, by simp [e6], hls⟩
  · have htc' : isTchar b = false := by simpa using htc
    simp only [headerRest, beq_byte, hcr, hlf, if_false, htc', Bool.not_false, if_true] at h2
    by_cases hcond : (hc.sbf && k == 0 && isWs b) = true
    · simp only [hcond, if_true, skipWsRun, slice, run_bind, run_pure, Outcome.ok.injEq,
        Prod.mk.injEq] at h2
      obtain ⟨rfl, rfl⟩ := h2
      simp only [Bool.and_eq_true, beq_iff_eq] at hcond
      obtain ⟨⟨hsbf, hk⟩, hwb⟩ := hcond
      refine ⟨b :: r.takeWhile isWs, r.dropWhile isWs, ?_, by simp, ?_⟩
      · simp [List.takeWhile_append_dropWhile]
      · refine .leadingWs hsbf hk (by simp) ?_ ?_
        · intro y hy; rcases List.mem_cons.mp hy with rfl | hy
          · exact hwb
          · exact all_takeWhile isWs r y hy
        · intro x r' e
          have hne : r.dropWhile isWs ≠ [] := by rw [e]; simp
          have := List.head_dropWhile_not isWs hne
          simpa [e] using this
    · simp only [hcond] at h2
      obtain ⟨rfl, hd⟩ := (handleInvalid_then_ok_iff ..).mp h2
      have hfp : FailPoint hc k [] b := by
        refine .lineStart htc' hcr hlf ?_
        rintro ⟨h1, h2, h3⟩
        apply hcond; simp [h1, h2, h3]
      obtain ⟨consumed, after, e5, e6, hls⟩ := hd.lineSpec (off := off) hfp (by simp)
      exact ⟨consumed, after, by simpa using e5, by simp [e6], hls⟩

theorem next_cons (s : Nat) (t : List Byte) (b : Byte) (r : List Byte) :
    next.run ⟨s, t, b :: r⟩ = .ok (b, ⟨s, t ++ [b], r⟩) := rfl

theorem headerLine_cons (be : Backend) (hc : HCfg) (k off : Nat) (b : Byte) (r : List Byte) :
    (headerLine be hc k).run ⟨off, [], b :: r⟩ = (headerRest be hc k b).run ⟨off, [b], r⟩ := by
  rw [headerLine_eq, run_bind, next_cons]
  rfl

theorem tchar_run_none {be : Backend} (hc : HCfg) (k off : Nat) (b0 : Byte) (r : List Byte) (c' : Cur)
    (hb0 : isTchar b0 = true) (h : (nameStage be hc).run ⟨off, [b0], r⟩ = .ok (none, c')) :
    (headerLine be hc k).run ⟨off, [], b0 :: r⟩ = .ok (.skipped, c') := by
  rw [headerLine_cons, headerRest_tchar be hc k b0 hb0]
  simp only [tcharTail, run_bind, h, run_pure]

theorem tchar_run_some {be : Backend} (hc : HCfg) (k off : Nat) (b0 : Byte) (r : List Byte) (name : Slice) (c2 : Cur)
    (hb0 : isTchar b0 = true) (h : (nameStage be hc).run ⟨off, [b0], r⟩ = .ok (some name, c2)) :
    (headerLine be hc k).run ⟨off, [], b0 :: r⟩ = (afterNameTail be hc name).run c2 := by
  rw [headerLine_cons, headerRest_tchar be hc k b0 hb0]
  simp only [tcharTail, run_bind, h]

theorem header_prefix_run {be : Backend} (hbe : be.Exact) (hc : HCfg) (k off : Nat) {name ws₁ : List Byte}
    (hnp : NamePart hc.san name ws₁) (rest : List Byte) :
    (headerLine be hc k).run ⟨off, [], name ++ ws₁ ++ COLON :: rest⟩ =
      (afterNameTail be hc ⟨off, name⟩).run ⟨off + name.length + ws₁.length + 1, [], rest⟩ := by
  cases name with
  | nil => exact absurd rfl hnp.name_ne
  | cons b0 nm =>
    have hb0 : isTchar b0 = true := hnp.name_tchar b0 (by simp)
    have e : b0 :: nm ++ ws₁ ++ COLON :: rest = b0 :: (nm ++ ws₁ ++ COLON :: rest) := by simp
    rw [e]
    exact tchar_run_some hc k off b0 _ _ _ hb0
      ((nameStage_ok_iff hbe hc off b0 hb0 _ _ _).mpr (Or.inl ⟨b0 :: nm, ws₁, rest, by simp, hnp, rfl, rfl⟩))

theorem ant_skipped (be : Backend) (hc : HCfg) (name : Slice) (st : Nat) (rest : List Byte) (c3 : Cur)
    (h : wsAfterColon hc st [] rest = .ok (.skipped, c3)) :
    (afterNameTail be hc name).run ⟨st, [], rest⟩ = .ok (.skipped, c3) := by
  simp only [afterNameTail, run_bind, h, run_pure]

theorem ant_empty (be : Backend) (hc : HCfg) (name : Slice) (st : Nat) (rest : List Byte) (v : Slice) (c3 : Cur)
    (h : wsAfterColon hc st [] rest = .ok (.empty v, c3)) :
    (afterNameTail be hc name).run ⟨st, [], rest⟩ = .ok (.header name v, c3) := by
  simp only [afterNameTail, run_bind, h, run_pure]

theorem ant_value (be : Backend) (hc : HCfg) (name : Slice) (st : Nat) (rest : List Byte) (s3 : Nat)
    (t3 r3 : List Byte) (vres : Option Slice) (c4 : Cur)
    (h : wsAfterColon hc st [] rest = .ok (.value, ⟨s3, t3, r3⟩))
    (hv : (valueLines be hc (r3.length + 1)).run ⟨s3, t3, r3⟩ = .ok (vres, c4)) :
    (afterNameTail be hc name).run ⟨st, [], rest⟩ =
      .ok ((match vres with | none => Line.skipped | some v => Line.header name v), c4) := by
  simp only [afterNameTail, run_bind, h, hv]
  cases vres <;> rfl

theorem headerLine_complete {be : Backend} (hbe : be.Exact) (hc : HCfg) (k off : Nat) (consumed after : List Byte)
    (res : Line) (h : LineSpec hc k off consumed after res) :
    (headerLine be hc k).run ⟨off, [], consumed ++ after⟩ =
      .ok (res, if res = .eoh then ⟨off, consumed, after⟩ else ⟨off + consumed.length, [], after⟩) := by
  cases h with
  | eoh he =>
    rcases he with rfl | rfl
    · simp [headerLine_cons, headerRest, expect, next]
    · simp [headerLine_cons, headerRest, LF_ne_CR]
  | leadingWs hsbf hk hne hws hafter =>
    cases consumed with
    | nil => exact absurd rfl hne
    | cons b ws =>
      have hb : isWs b = true := hws b (by simp)
      have hsp := span_unique (p := isWs) (l := ws) (r := after) (fun y hy => hws y (by simp [hy])) hafter
      rw [List.cons_append, headerLine_cons]
      simp only [headerRest, beq_byte, (ws_facts hb).2.2.1, (ws_facts hb).2.2.2.1, if_false, (ws_facts hb).2.1,
        Bool.not_false, if_true, hsbf, hk, hb, beq_self_eq_true, Bool.and_self, skipWsRun, slice, run_bind,
        run_pure, hsp.1, hsp.2]
      simp
  | @header name ws₁ body _ valOff value hnp hbody hlook =>
    have e : name ++ ws₁ ++ COLON :: body ++ after = name ++ ws₁ ++ COLON :: (body ++ after) := by simp
    rw [e, header_prefix_run hbe hc k off hnp]
    cases hbody with
    | @empty lead eol hlead heol =>
      have hws := (wsAfterColon_ok_iff hc (off + name.length + ws₁.length + 1) (lead ++ eol ++ after) _ _).mpr
        (WsSpec.empty (lead := lead) (eol := eol) (after := after) rfl ((lead_iff _ _).mp hlead) heol hlook)
      rw [ant_empty be hc _ _ _ _ _ hws]
      simp; omega
    | @value lead rest eol v hlead hv hvw hrest heol =>
      have e2 : lead ++ v :: rest ++ eol ++ after = lead ++ v :: (rest ++ eol ++ after) := by simp
      have hws := (wsAfterColon_ok_iff hc (off + name.length + ws₁.length + 1) (lead ++ v :: (rest ++ eol ++ after))
        _ _).mpr (WsSpec.value (lead := lead) (v := v) (r := rest ++ eol ++ after) rfl ((lead_iff _ _).mp hlead) hv hvw)
      have hval := valueLines_complete hbe hc ((rest ++ eol ++ after).length + 1)
        (off + name.length + ws₁.length + 1 + lead.length) [v] (rest ++ eol ++ after) _ _ (Nat.lt_succ_self _)
        (ValSpec.value (rest := rest) (eol := eol) (after := after) rfl ((valRest_iff _ _).mp hrest) heol hlook rfl rfl)
      rw [e2, ant_value be hc _ _ _ _ _ _ _ _ hws hval]
      simp; omega
  | @ignored good junk eol _ b hign hj he hh hfp =>
    cases hfp with
    | lineStart htc hcr hlf hcond =>
      obtain ⟨tl, hje, hd⟩ := Dropped.of_junk hign hj he hh (off + 1) after
      have hlen : junk.length + eol.length = tl.length + 1 := by
        have := congrArg List.length hje; simpa using this
      rw [List.nil_append, hje, List.cons_append, headerLine_cons]
      have hcond' : (hc.sbf && k == 0 && isWs b) = false := by
        cases h1 : hc.sbf <;> cases h2 : isWs b <;> by_cases h3 : k = 0 <;> simp_all
      simp only [headerRest, beq_byte, hcr, hlf, if_false, htc, Bool.not_false, if_true, hcond',
        Bool.false_eq_true]
      rw [(handleInvalid_then_ok_iff ..).mpr ⟨rfl, by simpa using hd⟩]
      simp; omega
    | afterName hne htc hb hbc hsan =>
      obtain ⟨tl, hje, hd⟩ := Dropped.of_junk hign hj he hh (off + good.length + 1) after
      have hlen : junk.length + eol.length = tl.length + 1 := by
        have := congrArg List.length hje; simpa using this
      cases good with
      | nil => exact absurd rfl hne
      | cons b0 nm =>
        have hb0 : isTchar b0 = true := htc b0 (by simp)
        have e : b0 :: nm ++ junk ++ eol ++ after = b0 :: (nm ++ b :: (tl ++ after)) := by
          rw [List.append_assoc (b0 :: nm), hje]; simp
        rw [e, tchar_run_none hc k off b0 _ _ hb0
          ((nameStage_ok_iff hbe hc off b0 hb0 _ _ _).mpr (Or.inr ⟨rfl, b0 :: nm, b, tl ++ after, by simp,
            .afterName hne htc hb hbc hsan, hd⟩))]
        simp; omega
    | @afterNameWs name ws₁ _ hsan hne htc hwne hws hbc hbw =>
      obtain ⟨tl, hje, hd⟩ := Dropped.of_junk hign hj he hh (off + (name ++ ws₁).length + 1) after
      have hlen : junk.length + eol.length = tl.length + 1 := by
        have := congrArg List.length hje; simpa using this
      cases name with
      | nil => exact absurd rfl hne
      | cons b0 nm =>
        have hb0 : isTchar b0 = true := htc b0 (by simp)
        have e : b0 :: nm ++ ws₁ ++ junk ++ eol ++ after = b0 :: (nm ++ ws₁ ++ b :: (tl ++ after)) := by
          rw [List.append_assoc (b0 :: nm ++ ws₁), hje]; simp
        rw [e, tchar_run_none hc k off b0 _ _ hb0
          ((nameStage_ok_iff hbe hc off b0 hb0 _ _ _).mpr (Or.inr ⟨rfl, b0 :: nm ++ ws₁, b, tl ++ after, by simp,
            .afterNameWs hsan hne htc hwne hws hbc hbw, hd⟩))]
        simp; omega
    | @afterColon name ws₁ lead _ hnp hlead hb hbcr hblf =>
      obtain ⟨tl, hje, hd⟩ := Dropped.of_junk hign hj he hh
        (off + name.length + ws₁.length + 1 + lead.length + 1) after
      have hlen : junk.length + eol.length = tl.length + 1 := by
        have := congrArg List.length hje; simpa using this
      have e : name ++ ws₁ ++ COLON :: lead ++ junk ++ eol ++ after =
          name ++ ws₁ ++ COLON :: (lead ++ b :: (tl ++ after)) := by
        rw [List.append_assoc (name ++ ws₁ ++ COLON :: lead), hje]; simp
      have hws := (wsAfterColon_ok_iff hc (off + name.length + ws₁.length + 1) (lead ++ b :: (tl ++ after)) _ _).mpr
        (WsSpec.skipped (lead := lead) (b := b) (rest' := tl ++ after) rfl ((lead_iff _ _).mp hlead) hb hbcr hblf hd)
      rw [e, header_prefix_run hbe hc k off hnp, ant_skipped be hc _ _ _ _ hws]
      simp; omega
    | @inValue name ws₁ lead rest v _ hnp hlead hv hvw hrest hb hbcr hblf =>
      obtain ⟨tl, hje, hd⟩ := Dropped.of_junk hign hj he hh
        (off + name.length + ws₁.length + 1 + lead.length + [v].length + rest.length + 1) after
      have hlen : junk.length + eol.length = tl.length + 1 := by
        have := congrArg List.length hje; simpa using this
      have e : name ++ ws₁ ++ COLON :: lead ++ v :: rest ++ junk ++ eol ++ after =
          name ++ ws₁ ++ COLON :: (lead ++ v :: (rest ++ b :: (tl ++ after))) := by
        rw [List.append_assoc (name ++ ws₁ ++ COLON :: lead ++ v :: rest), hje]; simp
      have hws := (wsAfterColon_ok_iff hc (off + name.length + ws₁.length + 1)
        (lead ++ v :: (rest ++ b :: (tl ++ after))) _ _).mpr
        (WsSpec.value (lead := lead) (v := v) (r := rest ++ b :: (tl ++ after)) rfl ((lead_iff _ _).mp hlead) hv hvw)
      have hval := valueLines_complete hbe hc ((rest ++ b :: (tl ++ after)).length + 1)
        (off + name.length + ws₁.length + 1 + lead.length) [v] (rest ++ b :: (tl ++ after)) none _
        (Nat.lt_succ_self _)
        (ValSpec.dropped (rest := rest) (b := b) (rest' := tl ++ after) rfl ((valRest_iff _ _).mp hrest) hb hbcr hblf
          rfl hd)
      rw [e, header_prefix_run hbe hc k off hnp, ant_value be hc _ _ _ _ _ _ _ _ hws hval]
      simp; omega

/-- C14: one iteration of the header loop completes exactly on the lines of the grammar.  The
terminating empty line is left uncommitted in `tok` (the parser only reads `pos` there). -/
theorem headerLine_iff (be : Backend) (hbe : be.Exact) (hc : HCfg) (k off : Nat) (input : List Byte)
    (res : Line) (c' : Cur) :
    (headerLine be hc k).run ⟨off, [], input⟩ = .ok (res, c') ↔
      ∃ consumed after, input = consumed ++ after ∧
        c' = (if res = .eoh then ⟨off, consumed, after⟩ else ⟨off + consumed.length, [], after⟩) ∧
        LineSpec hc k off consumed after res := by
  constructor
  · exact headerLine_sound hbe hc k off input res c'
  · rintro ⟨consumed, after, rfl, rfl, h⟩
    exact headerLine_complete hbe hc k off consumed after res h

end Hx
