/-
  Hx.Lemmas.FramingBase — C03, first part: the parsers' Complete(n)/Partial against the independent
  line scans of `Hx.Spec.Framing` (`firstEmptyLine`, `startLineEnd`, `firstCrlf`).  The whitespace-line
  scan `firstWsLine` is treated in `Hx.Lemmas.FramingWs`, the observations in `Hx.Lemmas.Framing`.
-/
import Hx.Obs
import Hx.Spec.Chk
import Hx.Spec.ErrSpec
import Hx.Lemmas.BlockGrammar
import Hx.Lemmas.StartGrammar
import Hx.Lemmas.Chunk
import Hx.Lemmas.FwdAll
import Hx.Lemmas.StableAll
namespace Hx

local notation "fel" => firstEmptyLineFrom
local notation "skl" => firstEmptyLineFrom.skipLine

/-! ### `parse_chunk_size` -/

theorem chkC03_chunkObs (dbg : Bool) (buf : List Byte) : chkC03chunk buf (chunkObs dbg buf) = true := by
  unfold chunkObs chkC03chunk
  cases h : parseChunkSize dbg buf with
  | ok p => obtain ⟨n, size⟩ := p; simp [chunk_first_crlf dbg buf n size h]
  | part => rfl
  | err e => rfl
  | ub u => rfl

/-! ### unfolding the scans -/

theorem fel_nil (o : Nat) : fel o [] = none := by rw [firstEmptyLineFrom.eq_def]
theorem fel_lf (o : Nat) (r : List Byte) : fel o (LF :: r) = some (o + 1) := by
  rw [firstEmptyLineFrom.eq_def]; simp
theorem fel_cr_nil (o : Nat) : fel o [CR] = none := by
  rw [firstEmptyLineFrom.eq_def]; simp [CR_ne_LF]
theorem fel_crlf (o : Nat) (r : List Byte) : fel o (CR :: LF :: r) = some (o + 2) := by
  rw [firstEmptyLineFrom.eq_def]; simp [CR_ne_LF]
theorem fel_cr_other (o : Nat) {b2 : Byte} (r : List Byte) (h : b2 ≠ LF) :
    fel o (CR :: b2 :: r) = skl (o + 2) r b2 := by
  rw [firstEmptyLineFrom.eq_def]; simp [CR_ne_LF, h]
theorem fel_other (o : Nat) {b : Byte} (r : List Byte) (h1 : b ≠ LF) (h2 : b ≠ CR) :
    fel o (b :: r) = skl (o + 1) r b := by
  rw [firstEmptyLineFrom.eq_def]; simp [h1, h2]
theorem skl_nil (o : Nat) (l : Byte) : skl o [] l = none := by rw [firstEmptyLineFrom.skipLine.eq_def]
theorem skl_lf (o : Nat) (r : List Byte) (l : Byte) : skl o (LF :: r) l = fel (o + 1) r := by
  rw [firstEmptyLineFrom.skipLine.eq_def]; simp
theorem skl_other (o : Nat) {b : Byte} (r : List Byte) (l : Byte) (h : b ≠ LF) :
    skl o (b :: r) l = skl (o + 1) r b := by
  rw [firstEmptyLineFrom.skipLine.eq_def]; simp [h]

/-- the `last` argument of `skipLine` is not looked at -/
theorem skl_last (o : Nat) (r : List Byte) (l l' : Byte) : skl o r l = skl o r l' := by
  cases r with
  | nil => rw [skl_nil, skl_nil]
  | cons b r =>
    by_cases h : b = LF
    · subst h; rw [skl_lf, skl_lf]
    · rw [skl_other _ _ _ h, skl_other _ _ _ h]

/-- a non-CR/LF byte at a line start, seen from inside a line: same continuation -/
theorem fel_eq_skl (o : Nat) {b : Byte} (r : List Byte) (l : Byte) (h1 : b ≠ LF) (h2 : b ≠ CR) :
    fel o (b :: r) = skl o (b :: r) l := by
  rw [fel_other _ _ h1 h2, skl_other _ _ _ h1]

/-- the scans report offsets inside what they have read -/
theorem fel_skl_bounds : ∀ (n : Nat) (l : List Byte), l.length ≤ n →
    (∀ o m, fel o l = some m → o < m ∧ m ≤ o + l.length) ∧
    (∀ o last m, skl o l last = some m → o < m ∧ m ≤ o + l.length) := by
  intro n
  induction n with
  | zero =>
    intro l hl
    have : l = [] := List.length_eq_zero_iff.mp (by omega)
    subst this
    refine ⟨fun o m h => ?_, fun o last m h => ?_⟩
    · rw [fel_nil] at h; cases h
    · rw [skl_nil] at h; cases h
  | succ n ih =>
    intro l hl
    cases l with
    | nil =>
      refine ⟨fun o m h => ?_, fun o last m h => ?_⟩
      · rw [fel_nil] at h; cases h
      · rw [skl_nil] at h; cases h
    | cons b r =>
      have hr : r.length ≤ n := by simp at hl; omega
      refine ⟨fun o m h => ?_, fun o last m h => ?_⟩
      · by_cases h1 : b = LF
        · subst h1; rw [fel_lf] at h; cases h; simp
        · by_cases h2 : b = CR
          · subst h2
            cases r with
            | nil => rw [fel_cr_nil] at h; cases h
            | cons b2 r2 =>
              by_cases h3 : b2 = LF
              · subst h3; rw [fel_crlf] at h; cases h; simp
              · rw [fel_cr_other _ _ h3] at h
                have := (ih r2 (by simp at hr; omega)).2 _ _ _ h
                simp; omega
          · rw [fel_other _ _ h1 h2] at h
            have := (ih r hr).2 _ _ _ h
            simp; omega
      · by_cases h1 : b = LF
        · subst h1; rw [skl_lf] at h
          have := (ih r hr).1 _ _ h
          simp; omega
        · rw [skl_other _ _ _ h1] at h
          have := (ih r hr).2 _ _ _ h
          simp; omega

theorem fel_bounds {o m : Nat} {l : List Byte} (h : fel o l = some m) : o < m ∧ m ≤ o + l.length :=
  (fel_skl_bounds l.length l (Nat.le_refl _)).1 o m h

/-- the scans commute with shifting the start offset -/
theorem fel_skl_shift : ∀ (n : Nat) (l : List Byte), l.length ≤ n →
    (∀ o d, fel (o + d) l = (fel o l).map (· + d)) ∧
    (∀ o d last, skl (o + d) l last = (skl o l last).map (· + d)) := by
  intro n
  induction n with
  | zero =>
    intro l hl
    have : l = [] := List.length_eq_zero_iff.mp (by omega)
    subst this
    refine ⟨fun o d => ?_, fun o d last => ?_⟩
    · rw [fel_nil, fel_nil]; rfl
    · rw [skl_nil, skl_nil]; rfl
  | succ n ih =>
    intro l hl
    cases l with
    | nil =>
      refine ⟨fun o d => ?_, fun o d last => ?_⟩
      · rw [fel_nil, fel_nil]; rfl
      · rw [skl_nil, skl_nil]; rfl
    | cons b r =>
      have hr : r.length ≤ n := by simp at hl; omega
      refine ⟨fun o d => ?_, fun o d last => ?_⟩
      · by_cases h1 : b = LF
        · subst h1; rw [fel_lf, fel_lf]; simp; omega
        · by_cases h2 : b = CR
          · subst h2
            cases r with
            | nil => rw [fel_cr_nil, fel_cr_nil]; rfl
            | cons b2 r2 =>
              by_cases h3 : b2 = LF
              · subst h3; rw [fel_crlf, fel_crlf]; simp; omega
              · rw [fel_cr_other _ _ h3, fel_cr_other _ _ h3]
                have := (ih r2 (by simp at hr; omega)).2 (o + 2) d b2
                rw [← this]; congr 1; omega
          · rw [fel_other _ _ h1 h2, fel_other _ _ h1 h2]
            have := (ih r hr).2 (o + 1) d b
            rw [← this]; congr 1; omega
      · by_cases h1 : b = LF
        · subst h1; rw [skl_lf, skl_lf]
          have := (ih r hr).1 (o + 1) d
          rw [← this]; congr 1; omega
        · rw [skl_other _ _ _ h1, skl_other _ _ _ h1]
          have := (ih r hr).2 (o + 1) d b
          rw [← this]; congr 1; omega

theorem skl_shift (o d : Nat) (l : List Byte) (last : Byte) :
    skl (o + d) l last = (skl o l last).map (· + d) :=
  (fel_skl_shift l.length l (Nat.le_refl _)).2 o d last

theorem fel_shift (o d : Nat) (l : List Byte) : fel (o + d) l = (fel o l).map (· + d) :=
  (fel_skl_shift l.length l (Nat.le_refl _)).1 o d

/-! ### transparent pieces of a line -/

/-- `Y` lies inside a physical line (it may contain folds: a line end followed by SP/HTAB): the scan,
inside a line before `Y`, is still inside a line after it -/
def Mid (Y : List Byte) : Prop := ∀ r o l l', skl o (Y ++ r) l = skl (o + Y.length) r l'

/-- `X` is the rest of a physical line through its LF (possibly with folded continuation lines) -/
def Trans (X : List Byte) : Prop := ∀ r o l, skl o (X ++ r) l = fel (o + X.length) r

/-- `X` is a sequence of complete non-empty physical lines -/
def TLine (X : List Byte) : Prop := ∀ r o, fel o (X ++ r) = fel (o + X.length) r

theorem Mid.nil : Mid [] := fun r o l l' => by simpa using skl_last o r l l'

theorem Mid.cons {b : Byte} {Y : List Byte} (hb : b ≠ LF) (hY : Mid Y) : Mid (b :: Y) := by
  intro r o l l'
  rw [List.cons_append, skl_other _ _ _ hb, hY r (o + 1) b l']
  congr 1; simp; omega

theorem Mid.append {A B : List Byte} (hA : Mid A) (hB : Mid B) : Mid (A ++ B) := by
  intro r o l l'
  rw [List.append_assoc, hA _ o l l', hB r _ l' l']
  congr 1; simp; omega

theorem Mid.of_all {Y : List Byte} (h : ∀ b ∈ Y, b ≠ LF) : Mid Y := by
  induction Y with
  | nil => exact .nil
  | cons b Y ih => exact .cons (h b (by simp)) (ih fun y hy => h y (by simp [hy]))

/-- a fold: line end followed by SP/HTAB -/
theorem Mid.fold {e : List Byte} {p : Byte} (he : IsEol e) (hp : isWs p = true) : Mid (e ++ [p]) := by
  have hp1 : p ≠ LF := (ws_facts hp).2.2.2.1
  have hp2 : p ≠ CR := (ws_facts hp).2.2.1
  intro r o l l'
  rcases he with rfl | rfl
  · simp only [List.cons_append, List.nil_append]
    rw [skl_other _ _ _ CR_ne_LF, skl_lf, fel_other _ _ hp1 hp2, skl_last _ _ p l']
    congr 1
  · simp only [List.cons_append, List.nil_append]
    rw [skl_lf, fel_other _ _ hp1 hp2, skl_last _ _ p l']
    congr 1

theorem Mid.ws {b : Byte} (h : isWs b = true) {Y : List Byte} (hY : Mid Y) : Mid (b :: Y) :=
  .cons (ws_facts h).2.2.2.1 hY

theorem Mid.allWs {Y : List Byte} (h : AllWs Y) : Mid Y :=
  .of_all fun b hb => (ws_facts (h b hb)).2.2.2.1

theorem Mid.tchars {Y : List Byte} (h : ∀ b ∈ Y, isTchar b = true) : Mid Y :=
  .of_all fun b hb => tchar_ne_lf (h b hb)

theorem Mid.noCtl {Y : List Byte} (h : NoCtl Y) : Mid Y := .of_all fun b hb => (h b hb).2.1

theorem Mid.leadI {fold : Bool} {Y : List Byte} (h : LeadI fold Y) : Mid Y := by
  induction h with
  | nil => exact .nil
  | ws hb _ ih => exact .ws hb ih
  | fold _ he hb _ ih =>
    have := (Mid.fold he hb).append ih
    simpa using this

theorem Mid.valRestI {fold : Bool} {Y : List Byte} (h : ValRestI fold Y) : Mid Y := by
  induction h with
  | nil => exact .nil
  | ch hb _ ih => exact .cons (value_facts hb).2.1 ih
  | fold _ he hb _ ih =>
    have := (Mid.fold he hb).append ih
    simpa using this

theorem Mid.colon {Y : List Byte} (hY : Mid Y) : Mid (COLON :: Y) := .cons (by decide) hY

theorem Mid.namePart {san : Bool} {name ws₁ : List Byte} (h : NamePart san name ws₁) : Mid (name ++ ws₁) :=
  (Mid.tchars h.name_tchar).append (.allWs h.ws₁_ok)

theorem Mid.value {v : Byte} (hv : isValue v = true) {Y : List Byte} (hY : Mid Y) : Mid (v :: Y) :=
  .cons (value_facts hv).2.1 hY

theorem Mid.failPoint {hc : HCfg} {k : Nat} {good : List Byte} {b : Byte} (h : FailPoint hc k good b) :
    Mid good := by
  cases h with
  | lineStart => exact .nil
  | afterName _ htc => exact .tchars htc
  | afterNameWs _ _ htc _ hws => exact (Mid.tchars htc).append (.allWs hws)
  | afterColon hnp hlead => exact (Mid.namePart hnp).append (.colon (.leadI ((lead_iff _ _).mp hlead)))
  | inValue hnp hlead hv _ hrest =>
    have h1 : Mid (COLON :: _) := .colon (.leadI ((lead_iff _ _).mp hlead))
    exact ((Mid.namePart hnp).append h1).append (.value hv (.valRestI ((valRest_iff _ _).mp hrest)))

theorem Trans.eol {e : List Byte} (he : IsEol e) : Trans e := by
  intro r o l
  rcases he with rfl | rfl
  · simp only [List.cons_append, List.nil_append]
    rw [skl_other _ _ _ CR_ne_LF, skl_lf]; rfl
  · simp only [List.cons_append, List.nil_append]
    rw [skl_lf]; rfl

theorem Mid.trans {Y X : List Byte} (hY : Mid Y) (hX : Trans X) : Trans (Y ++ X) := by
  intro r o l
  rw [List.append_assoc, hY _ o l l, hX r _ l]
  congr 1; simp; omega

theorem Trans.bodySpec {fold : Bool} {body : List Byte} {valOff : Nat} {value : List Byte}
    (h : BodySpec fold body valOff value) : Trans body := by
  cases h with
  | empty hlead heol => exact (Mid.leadI ((lead_iff _ _).mp hlead)).trans (.eol heol)
  | value hlead hv _ hrest heol =>
    exact ((Mid.leadI ((lead_iff _ _).mp hlead)).append
      (.value hv (.valRestI ((valRest_iff _ _).mp hrest)))).trans (.eol heol)

theorem Trans.tail {x : Byte} {X : List Byte} (hx : x ≠ LF) (h : Trans (x :: X)) : Trans X := by
  intro r o l
  have := h r o l
  rw [List.cons_append, skl_other _ _ _ hx, skl_shift, List.length_cons, ← Nat.add_assoc, fel_shift _ 1] at this
  rw [skl_last _ _ l x]
  cases h1 : skl o (X ++ r) x <;> cases h2 : fel (o + X.length) r <;> rw [h1, h2] at this <;>
    simp at this ⊢
  omega

theorem TLine.of {b : Byte} {X : List Byte} (h1 : b ≠ CR) (h2 : b ≠ LF) (hX : Trans X) : TLine (b :: X) := by
  intro r o
  rw [List.cons_append, fel_other _ _ h2 h1, hX r (o + 1) b]
  congr 1; simp; omega

theorem getLast?_append_eol {A e : List Byte} (he : IsEol e) : (A ++ e).getLast? = some LF := by
  rcases he with rfl | rfl <;> simp [List.getLast?_append]

theorem FailPoint.good_head {hc : HCfg} {k : Nat} {good : List Byte} {b : Byte} (h : FailPoint hc k good b) :
    (good = [] ∧ b ≠ CR ∧ b ≠ LF) ∨ ∃ x G, good = x :: G ∧ isTchar x = true := by
  have key : ∀ (name rest : List Byte), name ≠ [] → (∀ x ∈ name, isTchar x = true) →
      ∃ x G, name ++ rest = x :: G ∧ isTchar x = true := by
    intro name rest hne htc
    cases name with
    | nil => exact absurd rfl hne
    | cons y N => exact ⟨y, N ++ rest, rfl, htc y (by simp)⟩
  cases h with
  | lineStart _ h1 h2 => exact .inl ⟨rfl, h1, h2⟩
  | afterName hn htc => right; simpa using key _ [] hn htc
  | afterNameWs _ hn htc => exact .inr (key _ _ hn htc)
  | afterColon hnp =>
    right; simpa using key _ _ hnp.name_ne hnp.name_tchar
  | inValue hnp =>
    right; simpa using key _ _ hnp.name_ne hnp.name_tchar

/-- the shape of what a non-terminating iteration consumed: it starts with a byte other than CR/LF and
either is the SP/HTAB run of `allow_space_before_first_header_name`, or complete physical lines -/
theorem LineSpec.shape {hc : HCfg} {k off : Nat} {consumed after : List Byte} {res : Line}
    (h : LineSpec hc k off consumed after res) (hne : res ≠ .eoh) :
    ∃ x X, consumed = x :: X ∧ x ≠ CR ∧ x ≠ LF ∧
      ((hc.sbf = true ∧ k = 0 ∧ res = .skipped ∧ AllWs consumed ∧ (∀ y r, after = y :: r → isWs y = false)) ∨
       (Trans X ∧ consumed.getLast? = some LF)) := by
  cases h with
  | eoh => exact absurd rfl hne
  | leadingWs hsbf hk hws hall hafter =>
    cases consumed with
    | nil => exact absurd rfl hws
    | cons x X =>
      have hx := ws_facts (hall x (by simp))
      exact ⟨x, X, rfl, hx.2.2.1, hx.2.2.2.1, .inl ⟨hsbf, hk, rfl, hall, hafter⟩⟩
  | @header name ws₁ body _ _ _ hnp hbody _ =>
    cases hn : name with
    | nil => exact absurd hn hnp.name_ne
    | cons x N =>
      have hx : isTchar x = true := hnp.name_tchar x (by simp [hn])
      have hN : Mid N := .tchars fun b hb => hnp.name_tchar b (by simp [hn, hb])
      refine ⟨x, N ++ ws₁ ++ COLON :: body, by simp, tchar_ne_cr hx, tchar_ne_lf hx, .inr ⟨?_, ?_⟩⟩
      · have := ((hN.append (.allWs hnp.ws₁_ok)).append (Mid.colon .nil)).trans (Trans.bodySpec hbody)
        simpa using this
      · obtain ⟨A, e, hA, he⟩ : ∃ A e, body = A ++ e ∧ IsEol e := by
          cases hbody with
          | empty _ he => exact ⟨_, _, rfl, he⟩
          | @value lead rest _ v _ _ _ _ he => exact ⟨lead ++ v :: rest, _, by simp, he⟩
        have : name ++ ws₁ ++ COLON :: body = (name ++ ws₁ ++ COLON :: A) ++ e := by simp [hA]
        rw [← hn, this]
        exact getLast?_append_eol he
  | @ignored good junk eol _ b _ hj he hhead hfp =>
    have hmid : Mid good := .failPoint hfp
    have htr : Trans (good ++ junk ++ eol) := by
      have := (hmid.append (.noCtl hj)).trans (.eol he)
      simpa using this
    have hlast : (good ++ junk ++ eol).getLast? = some LF := getLast?_append_eol he
    -- the first byte
    have hfirst : ∃ x X, good ++ junk ++ eol = x :: X ∧ x ≠ CR ∧ x ≠ LF := by
      rcases hfp.good_head with ⟨rfl, hb1, hb2⟩ | ⟨x, G, rfl, hx⟩
      · cases junk with
        | nil =>
          rcases he with rfl | rfl <;> simp at hhead <;> subst hhead
          · exact absurd rfl hb1
          · exact absurd rfl hb2
        | cons x J =>
          simp at hhead; subst hhead
          exact ⟨x, J ++ eol, by simp, hb1, hb2⟩
      · exact ⟨x, G ++ junk ++ eol, by simp, tchar_ne_cr hx, tchar_ne_lf hx⟩
    obtain ⟨x, X, hX, hx1, hx2⟩ := hfirst
    rw [hX] at htr
    refine ⟨x, X, hX, hx1, hx2, .inr ⟨?_, hlast⟩⟩
    exact htr.tail hx2

/-! ### Complete: the header block ends at the first empty line -/

/-- some line start `p` of `input` has `input[p..n]` a whitespace-only line -/
def WsEnd (input : List Byte) (n : Nat) : Prop :=
  ∃ p, p < n ∧ (p = 0 ∨ input[p - 1]? = some LF) ∧ isWsEol ((input.drop p).take (n - p)) = true

theorem endsWithWsLine_iff (hb : List Byte) (n : Nat) : endsWithWsLine hb n = true ↔ WsEnd hb n := by
  simp [endsWithWsLine, WsEnd, List.any_eq_true, List.mem_range]

theorem isWsEol_append_ws {ws y : List Byte} (h : AllWs ws) : isWsEol (ws ++ y) = isWsEol y := by
  unfold isWsEol
  rw [List.dropWhile_append_of_pos h]

theorem WsEnd.prepend_line {X after : List Byte} {n : Nat} (hl : X.getLast? = some LF) (h : WsEnd after n) :
    WsEnd (X ++ after) (X.length + n) := by
  obtain ⟨p, hp, hstart, hws⟩ := h
  have hXne : X ≠ [] := by rintro rfl; simp at hl
  have hXlen : 0 < X.length := List.length_pos_iff.mpr hXne
  refine ⟨X.length + p, by omega, .inr ?_, ?_⟩
  · by_cases hp0 : p = 0
    · subst hp0
      rw [Nat.add_zero, List.getElem?_append_left (by omega), ← List.getLast?_eq_getElem?]
      exact hl
    · have hstart : after[p - 1]? = some LF := by
        rcases hstart with h | h
        · exact absurd h hp0
        · exact h
      rw [List.getElem?_append_right (by omega)]
      have : X.length + p - 1 - X.length = p - 1 := by omega
      rw [this]; exact hstart
  · rw [List.drop_length_add_append, Nat.add_sub_add_left]; exact hws

theorem WsEnd.prepend_ws {ws after : List Byte} {n : Nat} (hall : AllWs ws) (h : WsEnd after n) :
    WsEnd (ws ++ after) (ws.length + n) := by
  obtain ⟨p, hp, hstart, hws⟩ := h
  rcases hstart with rfl | hstart
  · refine ⟨0, by omega, .inl rfl, ?_⟩
    simp only [List.drop_zero, Nat.sub_zero] at hws ⊢
    rw [List.take_length_add_append, isWsEol_append_ws hall]; exact hws
  · by_cases hp0 : p = 0
    · subst hp0
      refine ⟨0, by omega, .inl rfl, ?_⟩
      simp only [List.drop_zero, Nat.sub_zero] at hws ⊢
      rw [List.take_length_add_append, isWsEol_append_ws hall]; exact hws
    · refine ⟨ws.length + p, by omega, .inr ?_, ?_⟩
      · rw [List.getElem?_append_right (by omega)]
        have : ws.length + p - 1 - ws.length = p - 1 := by omega
        rw [this]; exact hstart
      · rw [List.drop_length_add_append, Nat.add_sub_add_left]; exact hws

/-- what C03 says about a header block consumed as `n` bytes: `n` is just past the first empty line;
or (`allow_space_before_first_header_name`, nothing stored) just past a whitespace-only line that
comes no later than the first empty line -/
def FrameR (sbf : Bool) (k : Nat) (hs : List Hdr) (input : List Byte) (n : Nat) : Prop :=
  (∀ o, fel o input = some (o + n)) ∨
  (sbf = true ∧ k = 0 ∧ hs = [] ∧ WsEnd input n ∧ ∀ o m, fel o input = some m → o + n ≤ m)

theorem FrameR.prepend {sbf : Bool} {k : Nat} {hs : List Hdr} {W after : List Byte} {n : Nat}
    (heq : ∀ o, fel o (W ++ after) = fel (o + W.length) after)
    (hws : WsEnd after n → WsEnd (W ++ after) (W.length + n)) (h : FrameR sbf k hs after n) :
    FrameR sbf k hs (W ++ after) (W.length + n) := by
  rcases h with h | ⟨h1, h2, h3, h4, h5⟩
  · left; intro o; rw [heq, h]; congr 1; omega
  · right
    refine ⟨h1, h2, h3, hws h4, fun o m hm => ?_⟩
    rw [heq] at hm
    have := h5 _ _ hm
    omega

theorem BlockSpec.head_eol {hc : HCfg} {cap off k : Nat} {y : Byte} {r : List Byte} {n : Nat} {hs : List Hdr}
    (h : BlockSpec hc cap off k (y :: r) n hs) (hy : y = CR ∨ y = LF) :
    hs = [] ∧ ∃ e rest, IsEol e ∧ y :: r = e ++ rest ∧ n = e.length := by
  generalize hin : y :: r = input at h
  cases h with
  | eoh hls => exact ⟨rfl, _, _, hls.eoh_isEol, rfl, rfl⟩
  | skipped hls =>
    obtain ⟨x, X, rfl, hx1, hx2, -⟩ := hls.shape (by simp)
    simp only [List.cons_append, List.cons.injEq] at hin
    rcases hy with rfl | rfl
    · exact absurd hin.1.symm hx1
    · exact absurd hin.1.symm hx2
  | header hls =>
    obtain ⟨x, X, rfl, hx1, hx2, -⟩ := hls.shape (by simp)
    simp only [List.cons_append, List.cons.injEq] at hin
    rcases hy with rfl | rfl
    · exact absurd hin.1.symm hx1
    · exact absurd hin.1.symm hx2

theorem isWsEol_eol {e : List Byte} (he : IsEol e) : isWsEol e = true := by
  rcases he with rfl | rfl <;> decide

theorem BlockSpec.frame {hc : HCfg} {cap off k : Nat} {input : List Byte} {n : Nat} {hs : List Hdr}
    (h : BlockSpec hc cap off k input n hs) : FrameR hc.sbf k hs input n := by
  induction h with
  | eoh hls =>
    left; intro o
    rcases hls.eoh_isEol with rfl | rfl
    · simp [fel_crlf]
    · simp [fel_lf]
  | @skipped off k n consumed after hs hls hb ih =>
    obtain ⟨x, X, rfl, hx1, hx2, hcase⟩ := hls.shape (by simp)
    rcases hcase with ⟨hsbf, hk, -, hws, hafter⟩ | ⟨hT, hlast⟩
    · subst hk
      have hX : Mid X := .allWs fun b hb => hws b (by simp [hb])
      cases after with
      | nil =>
        rcases ih with ih | ⟨_, _, _, ⟨p, _, _, h⟩, _⟩
        · have := ih 0; rw [fel_nil] at this; cases this
        · simp [isWsEol] at h
      | cons y r =>
        by_cases hy : y = CR ∨ y = LF
        · obtain ⟨rfl, e, rest, he, hsplit, rfl⟩ := hb.head_eol hy
          rw [hsplit]
          have hfe : ∀ o, fel o (x :: X ++ (e ++ rest)) = fel (o + ((x :: X).length + e.length)) rest := by
            intro o
            rw [List.cons_append, fel_other _ _ hx2 hx1, ← List.append_assoc, (hX.trans (.eol he)) rest _ x]
            congr 1; simp; omega
          right
          refine ⟨hsbf, rfl, rfl, ⟨0, ?_, .inl rfl, ?_⟩, fun o m hm => ?_⟩
          · simp; omega
          · simp only [List.drop_zero, Nat.sub_zero]
            have : x :: X ++ (e ++ rest) = (x :: X) ++ (e ++ rest) := rfl
            rw [this, List.take_length_add_append, List.take_left' rfl, isWsEol_append_ws hws]
            exact isWsEol_eol he
          · rw [hfe] at hm
            have := (fel_bounds hm).1
            omega
        · have hy1 : y ≠ CR := fun h => hy (.inl h)
          have hy2 : y ≠ LF := fun h => hy (.inr h)
          refine FrameR.prepend (fun o => ?_) (WsEnd.prepend_ws hws) ih
          rw [List.cons_append, fel_other _ _ hx2 hx1, hX _ _ x x, fel_eq_skl _ _ x hy2 hy1]
          congr 1; simp; omega
    · exact FrameR.prepend (fun o => TLine.of hx1 hx2 hT after o) (WsEnd.prepend_line hlast) ih
  | @header off k n consumed after name value hs hls hlt hb ih =>
    obtain ⟨x, X, rfl, hx1, hx2, hcase⟩ := hls.shape (by simp)
    rcases hcase with ⟨_, _, hres, _⟩ | ⟨hT, hlast⟩
    · cases hres
    · rcases ih with ih | ⟨_, hk, _⟩
      · left; intro o
        rw [TLine.of hx1 hx2 hT, ih]; congr 1; omega
      · omega

theorem BlockSpec.n_le {hc : HCfg} {cap off k : Nat} {input : List Byte} {n : Nat} {hs : List Hdr}
    (h : BlockSpec hc cap off k input n hs) : n ≤ input.length := by
  induction h with
  | eoh => simp
  | skipped _ _ ih => simp; omega
  | header _ _ _ ih => simp; omega

/-! ### Partial: no empty line so far -/

/-- at a line start: the scan finds no empty line in `r` -/
def AtQ (r : List Byte) : Prop := ∀ o, fel o r = none
/-- inside a non-empty line: the scan finds no empty line in `r` -/
def InQ (r : List Byte) : Prop := ∀ o l, skl o r l = none

theorem InQ.of_one {o : Nat} {l : Byte} {r : List Byte} (h : skl o r l = none) : InQ r := by
  have h0 : skl 0 r l = none := by
    have := skl_shift 0 o r l
    rw [Nat.zero_add, h] at this
    cases h' : skl 0 r l with
    | none => rfl
    | some m => rw [h'] at this; cases this
  intro o' l'
  have := skl_shift 0 o' r l
  rw [Nat.zero_add, h0] at this
  rw [skl_last _ _ l' l, this]; rfl

theorem InQ.nil : InQ [] := fun o l => skl_nil o l
theorem AtQ.nil : AtQ [] := fun o => fel_nil o
theorem AtQ.cr_nil : AtQ [CR] := fun o => fel_cr_nil o

theorem InQ.cons {b : Byte} {r : List Byte} (hb : b ≠ LF) (h : InQ r) : InQ (b :: r) := fun o l => by
  rw [skl_other _ _ _ hb]; exact h _ _

theorem InQ.tail {b : Byte} {r : List Byte} (hb : b ≠ LF) (h : InQ (b :: r)) : InQ r := by
  have := h 0 b
  rw [skl_other _ _ _ hb] at this
  exact .of_one this

theorem InQ.lf {r : List Byte} (h : AtQ r) : InQ (LF :: r) := fun o l => by rw [skl_lf]; exact h _

theorem InQ.mid {Y r : List Byte} (hY : Mid Y) (h : InQ r) : InQ (Y ++ r) := fun o l => by
  rw [hY r o l l]; exact h _ _

theorem InQ.of_all {r : List Byte} (h : ∀ b ∈ r, b ≠ LF) : InQ r := by
  simpa using InQ.mid (Mid.of_all h) InQ.nil

/-- a byte other than CR/LF at a line start opens a non-empty line -/
theorem AtQ.of_inQ {b : Byte} {r : List Byte} (h1 : b ≠ CR) (h2 : b ≠ LF) (h : InQ (b :: r)) : AtQ (b :: r) :=
  fun o => by rw [fel_eq_skl o r b h2 h1]; exact h _ _

theorem AtQ.inQ {r : List Byte} (h : AtQ r) : InQ r := by
  cases r with
  | nil => exact .nil
  | cons b r =>
    by_cases h1 : b = LF
    · subst h1; have := h 0; rw [fel_lf] at this; cases this
    · by_cases h2 : b = CR
      · subst h2
        cases r with
        | nil => exact .cons CR_ne_LF .nil
        | cons b2 r2 =>
          by_cases h3 : b2 = LF
          · subst h3; have := h 0; rw [fel_crlf] at this; cases this
          · have := h 0
            rw [fel_cr_other _ _ h3] at this
            exact .cons CR_ne_LF (.cons h3 (.of_one this))
      · have := h 0
        rw [fel_other _ _ h1 h2] at this
        exact .cons h1 (.of_one this)

theorem AtQ.tline {X r : List Byte} (hX : TLine X) (h : AtQ r) : AtQ (X ++ r) := fun o => by
  rw [hX r o]; exact h _

theorem bind_part {α β : Type} {f : P α} {g : α → P β} {c : Cur} (h : (f >>= g).run c = .part) :
    f.run c = .part ∨ ∃ a c', f.run c = .ok (a, c') ∧ (g a).run c' = .part := by
  simp only [run_bind] at h
  cases hf : f.run c with
  | ok r => obtain ⟨a, c'⟩ := r; rw [hf] at h; exact .inr ⟨a, c', rfl, h⟩
  | part => exact .inl rfl
  | err e => rw [hf] at h; cases h
  | ub u => rw [hf] at h; cases h

theorem split_cls (cls : Byte → Bool) (r : List Byte) :
    (∀ x ∈ r, cls x = true) ∨ ∃ l d r', r = l ++ d :: r' ∧ (∀ x ∈ l, cls x = true) ∧ cls d = false := by
  induction r with
  | nil => left; simp
  | cons b r ih =>
    cases hb : cls b with
    | false => exact .inr ⟨[], b, r, rfl, by simp, hb⟩
    | true =>
      rcases ih with ih | ⟨l, d, r', rfl, hl, hd⟩
      · left; intro x hx
        rcases List.mem_cons.mp hx with rfl | hx
        · exact hb
        · exact ih x hx
      · refine .inr ⟨b :: l, d, r', rfl, ?_, hd⟩
        intro x hx
        rcases List.mem_cons.mp hx with rfl | hx
        · exact hb
        · exact hl x hx

theorem invalidLoop_part (e : Error) (start : Nat) : ∀ (rest : List Byte) (b : Byte) (tok : List Byte),
    invalidLoop e start b tok rest = .part → InQ (b :: rest) := by
  intro rest
  induction rest with
  | nil =>
    intro b tok h
    rw [SA.invalidLoop_unfold] at h
    by_cases h1 : b = CR
    · subst h1; exact .cons CR_ne_LF .nil
    · by_cases h2 : b = LF
      · subst h2; simp [LF_ne_CR] at h
      · exact .cons h2 .nil
  | cons b2 r2 ih =>
    intro b tok h
    rw [SA.invalidLoop_unfold] at h
    by_cases h1 : b = CR
    · subst h1
      by_cases h4 : b2 = LF
      · subst h4; simp at h
      · simp [h4] at h
    · by_cases h2 : b = LF
      · subst h2; simp [LF_ne_CR] at h
      · by_cases h3 : b = NUL
        · subst h3; simp [h1, h2] at h
        · simp only [beq_byte, h1, h2, h3, if_false] at h
          exact .cons h2 (ih b2 _ h)

theorem handleInvalid_part {hc : HCfg} {e : Error} {b : Byte} {s : Nat} {tok rest : List Byte}
    (h : (handleInvalid hc e b).run ⟨s, tok, rest⟩ = .part) : InQ (b :: rest) := by
  unfold handleInvalid at h
  cases hi : hc.ign
  · simp [hi] at h
  · simp only [hi, Bool.not_true, Bool.false_eq_true, if_false, run_mk] at h
    exact invalidLoop_part e s rest b tok h

theorem handleInvalid_then_part {α : Type} {hc : HCfg} {e : Error} {b : Byte} {x : α} {s : Nat}
    {tok rest : List Byte} (h : (do handleInvalid hc e b; pure x : P α).run ⟨s, tok, rest⟩ = .part) :
    InQ (b :: rest) := by
  rcases bind_part h with h | ⟨_, _, _, h⟩
  · exact handleInvalid_part h
  · simp at h

theorem sanLoop_part (start : Nat) : ∀ (rest tok : List Byte), sanLoop start tok rest = .part → InQ rest := by
  intro rest
  induction rest with
  | nil => intro _ _; exact .nil
  | cons b r ih =>
    intro tok h
    rw [sanLoop] at h
    by_cases h1 : b = COLON
    · subst h1; simp at h
    · cases hw : isWs b
      · simp [h1, hw] at h
      · simp only [beq_byte, h1, hw, if_false, if_true] at h
        exact .cons (ws_facts hw).2.2.2.1 (ih _ h)

theorem nameTail_part {hc : HCfg} {name : Slice} {d : Byte} {s : Nat} {r' : List Byte}
    (h : (nameTail hc name d).run ⟨s, [], r'⟩ = .part) : InQ (d :: r') := by
  unfold nameTail at h
  by_cases h1 : d = COLON
  · subst h1; simp at h
  · simp only [beq_byte, h1, if_false] at h
    cases hsw : (hc.san && isWs d)
    · simp only [hsw, Bool.false_eq_true, if_false] at h
      exact handleInvalid_then_part h
    · simp only [hsw, if_true] at h
      have hw : isWs d = true := by simp at hsw; exact hsw.2
      have hd : d ≠ LF := (ws_facts hw).2.2.2.1
      rcases bind_part h with h | ⟨res, c', hok, h⟩
      · exact .cons hd (sanLoop_part _ _ _ h)
      · dsimp only at hok
        obtain ⟨ws, b, r'', rfl, hws, hb, hcase⟩ := (sanLoop_ok_iff s r' [] res c').mp hok
        rcases hcase with ⟨_, rfl, _⟩ | ⟨_, rfl, rfl⟩
        · simp at h
        · have := handleInvalid_then_part h
          exact .cons hd (.mid (.allWs hws) this)

theorem nameStage_part {be : Backend} (hbe : be.Exact) {hc : HCfg} {off : Nat} {t r : List Byte}
    (h : (nameStage be hc).run ⟨off, t, r⟩ = .part) : InQ r := by
  rcases split_cls isTchar r with hall | ⟨l, d, r', rfl, hl, hd⟩
  · exact .of_all fun b hb => tchar_ne_lf (hall b hb)
  · rw [nameStage_run hbe hc off t l d r' hl hd] at h
    exact .mid (.tchars hl) (nameTail_part h)

theorem wsAfterColon_part (hc : HCfg) : ∀ (n : Nat) (rest : List Byte), rest.length ≤ n →
    ∀ (start : Nat) (tok : List Byte), wsAfterColon hc start tok rest = .part → InQ rest := by
  intro n
  induction n with
  | zero =>
    intro rest hl _ _ _
    have : rest = [] := List.length_eq_zero_iff.mp (by omega)
    subst this; exact .nil
  | succ n ih =>
    intro rest hl start tok h
    cases rest with
    | nil => exact .nil
    | cons b r =>
      have hr : r.length ≤ n := by simp at hl; omega
      rw [SA.wsAfterColon_cons] at h
      cases hw : isWs b
      · cases hv : isValue b
        · simp only [hw, hv, Bool.false_eq_true, if_false] at h
          by_cases h1 : b = CR
          · subst h1
            simp only [beq_self_eq_true, if_true] at h
            cases r with
            | nil => exact .cons CR_ne_LF .nil
            | cons b2 r2 =>
              by_cases h2 : b2 = LF
              · subst h2
                simp only [beq_self_eq_true, if_true] at h
                cases hf : hc.fold
                · simp [hf] at h
                · simp only [hf, if_true] at h
                  cases r2 with
                  | nil => exact .cons CR_ne_LF (.lf .nil)
                  | cons p r3 =>
                    cases hp : isWs p
                    · simp [hp] at h
                    · simp only [hp, if_true] at h
                      have := ih (p :: r3) (by simp at hr ⊢; omega) _ _ h
                      exact .cons CR_ne_LF (.lf (.of_inQ (ws_facts hp).2.2.1 (ws_facts hp).2.2.2.1 this))
              · simp [h2] at h
          · by_cases h2 : b = LF
            · subst h2
              simp only [beq_byte, LF_ne_CR, if_false, if_true] at h
              cases hf : hc.fold
              · simp [hf] at h
              · simp only [hf, if_true] at h
                cases r with
                | nil => exact .lf .nil
                | cons p r3 =>
                  cases hp : isWs p
                  · simp [hp] at h
                  · simp only [hp, if_true] at h
                    have := ih (p :: r3) hr _ _ h
                    exact .lf (.of_inQ (ws_facts hp).2.2.1 (ws_facts hp).2.2.2.1 this)
            · simp only [beq_byte, h1, h2, if_false] at h
              cases hh : (handleInvalid hc .headerValue b).run ⟨start, tok ++ [b], r⟩ with
              | part => exact handleInvalid_part hh
              | ok x => rw [hh] at h; cases h
              | err x => rw [hh] at h; cases h
              | ub x => rw [hh] at h; cases h
        · simp [hw, hv] at h
      · simp only [hw, if_true] at h
        exact .cons (ws_facts hw).2.2.2.1 (ih r hr _ _ h)

theorem valueLines_part {be : Backend} (hbe : be.Exact) (hc : HCfg) : ∀ (fuel s : Nat) (t r : List Byte),
    (valueLines be hc fuel).run ⟨s, t, r⟩ = .part → InQ r := by
  intro fuel
  induction fuel with
  | zero => intro s t r h; simp [valueLines] at h
  | succ fuel ih =>
    intro s t r h
    rcases split_cls isValue r with hall | ⟨l, b, r1, rfl, hl, hb⟩
    · exact .of_all fun b hb => (value_facts (hall b hb)).2.1
    · have hl' : Mid l := .of_all fun b hb => (value_facts (hl b hb)).2.1
      rw [valueLines_run hbe hc fuel s t l b r1 hl hb] at h
      refine .mid hl' ?_
      by_cases h1 : b = CR
      · subst h1
        rw [valTail_cr] at h
        cases r1 with
        | nil => exact .cons CR_ne_LF .nil
        | cons b2 r2 =>
          by_cases h2 : b2 = LF
          · subst h2
            simp only [beq_self_eq_true, if_true] at h
            cases hf : hc.fold
            · simp [hf] at h
            · simp only [hf, if_true] at h
              cases r2 with
              | nil => exact .cons CR_ne_LF (.lf .nil)
              | cons p r3 =>
                cases hp : isWs p
                · simp [hp] at h
                · simp only [hp, if_true] at h
                  have := ih _ _ _ h
                  exact .cons CR_ne_LF (.lf (.of_inQ (ws_facts hp).2.2.1 (ws_facts hp).2.2.2.1 this))
          · simp [h2] at h
      · by_cases h2 : b = LF
        · subst h2
          rw [valTail_lf] at h
          cases hf : hc.fold
          · simp [hf] at h
          · simp only [hf, if_true] at h
            cases r1 with
            | nil => exact .lf .nil
            | cons p r3 =>
              cases hp : isWs p
              · simp [hp] at h
              · simp only [hp, if_true] at h
                have := ih _ _ _ h
                exact .lf (.of_inQ (ws_facts hp).2.2.1 (ws_facts hp).2.2.2.1 this)
        · rw [valTail_other be hc fuel b h1 h2] at h
          exact handleInvalid_then_part h

theorem WsSpec.value_inv {hc : HCfg} {st : Nat} {rest : List Byte} {c' : Cur} (h : WsSpec hc st rest .value c') :
    ∃ lead v r, rest = lead ++ v :: r ∧ LeadI hc.fold lead ∧ isValue v = true ∧
      c' = ⟨st + lead.length, [v], r⟩ := by
  cases h with
  | value h1 h2 h3 _ => exact ⟨_, _, _, h1, h2, h3, rfl⟩

theorem afterNameTail_part {be : Backend} (hbe : be.Exact) {hc : HCfg} {name : Slice} {st : Nat} {rest : List Byte}
    (h : (afterNameTail be hc name).run ⟨st, [], rest⟩ = .part) : InQ rest := by
  unfold afterNameTail at h
  rcases bind_part h with h | ⟨w, c', hok, h⟩
  · exact wsAfterColon_part hc _ rest (Nat.le_refl _) _ _ h
  · dsimp only at hok
    have hspec := (wsAfterColon_ok_iff hc st rest w c').mp hok
    cases w with
    | skipped => simp at h
    | empty v => simp at h
    | value =>
      obtain ⟨lead, v, r, rfl, h2, h3, rfl⟩ := hspec.value_inv
      dsimp only at h
      rcases bind_part h with h | ⟨vr, c'', _, h⟩
      · dsimp only at h
        have := valueLines_part hbe hc _ _ _ _ h
        exact .mid (.leadI h2) (.cons (value_facts h3).2.1 this)
      · cases vr <;> simp at h

theorem headerLine_part {be : Backend} (hbe : be.Exact) (hc : HCfg) (k off : Nat) (input : List Byte)
    (h : (headerLine be hc k).run ⟨off, [], input⟩ = .part) : AtQ input := by
  cases input with
  | nil => exact .nil
  | cons b r =>
    rw [headerLine_cons] at h
    cases hb : isTchar b
    · unfold headerRest at h
      by_cases h1 : b = CR
      · subst h1
        cases r with
        | nil => exact .cr_nil
        | cons b2 r2 =>
          by_cases h2 : b2 = LF
          · subst h2; simp [expect, next] at h
          · simp [expect, next, h2] at h
      · by_cases h2 : b = LF
        · subst h2; simp [LF_ne_CR] at h
        · simp only [beq_byte, h1, h2, if_false, hb, Bool.not_false, if_true] at h
          split at h
          · simp [skipWsRun, slice] at h
          · exact .of_inQ h1 h2 (handleInvalid_then_part h)
    · have h1 := tchar_ne_cr hb
      have h2 := tchar_ne_lf hb
      rw [headerRest_tchar be hc k b hb] at h
      unfold tcharTail at h
      refine .of_inQ h1 h2 ?_
      rcases bind_part h with h | ⟨nm, c', hok, h⟩
      · exact .cons h2 (nameStage_part hbe h)
      · rcases (nameStage_ok_iff hbe hc off b hb r nm c').mp hok with
          ⟨name, ws₁, after, hsplit, hnp, rfl, rfl⟩ | ⟨rfl, _⟩
        · simp only at h
          rw [hsplit]
          have := afterNameTail_part hbe h
          have hm : Mid (name ++ ws₁ ++ [COLON]) := (Mid.namePart hnp).append (Mid.colon .nil)
          have := InQ.mid hm this
          simpa using this
        · simp at h

/-- Partial from the header loop: the block read so far contains no empty line -/
theorem headersLoop_part {be : Backend} (hbe : be.Exact) (hc : HCfg) (cap : Nat) :
    ∀ (fuel off : Nat) (input : List Byte) (hs₀ hs' : List Hdr),
      headersLoop be hc cap fuel ⟨off, [], input⟩ hs₀ = (.part, hs') → AtQ input := by
  intro fuel
  induction fuel with
  | zero => intro off input hs₀ hs' h; simp [headersLoop] at h
  | succ fuel ih =>
    intro off input hs₀ hs' h
    have key : ∀ (consumed after : List Byte) (res : Line), res ≠ .eoh →
        LineSpec hc hs₀.length off consumed after res → AtQ after → AtQ (consumed ++ after) := by
      intro consumed after res hres hls hq
      obtain ⟨x, X, rfl, hx1, hx2, hcase⟩ := hls.shape hres
      rcases hcase with ⟨_, _, _, hws, _⟩ | ⟨hT, _⟩
      · have hX : Mid X := .allWs fun b hb => hws b (by simp [hb])
        exact .of_inQ hx1 hx2 (.cons hx2 (.mid hX hq.inQ))
      · exact .tline (.of hx1 hx2 hT) hq
    rw [headersLoop] at h
    split at h
    · simp at h
    · rename_i c1 hrun
      obtain ⟨consumed, after, rfl, rfl, hls⟩ := (headerLine_iff be hbe hc _ off input _ _).mp hrun
      exact key _ _ _ (by simp) hls (ih _ _ _ _ h)
    · rename_i nm v c1 hrun
      obtain ⟨consumed, after, rfl, rfl, hls⟩ := (headerLine_iff be hbe hc _ off input _ _).mp hrun
      split at h
      · exact key _ _ _ (by simp) hls (ih _ _ _ _ h)
      · simp at h
    · rename_i hrun
      exact headerLine_part hbe hc _ off input hrun
    · simp at h
    · simp at h

theorem finishHeaders_part {V : Type} {be : Backend} (hbe : be.Exact) {hc : HCfg} {cap : Nat} {buf : List Byte}
    {s : Nat} {rest : List Byte} {v : V} (h : (finishHeaders be hc cap buf ⟨s, [], rest⟩ v).status = .part) :
    AtQ rest := by
  unfold finishHeaders parseHeadersIter at h
  dsimp only at h
  cases hl : headersLoop be hc cap (rest.length + 1) ⟨s, [], rest⟩ [] with
  | mk o hs =>
    rw [hl] at h
    cases o with
    | part => exact headersLoop_part hbe hc cap _ _ _ _ _ hl
    | ok c => simp at h
    | err e => simp at h
    | ub u => simp at h

/-! ### the start line: Partial means no LF after the leading empty lines -/

section StartLine
open SA

def NoLF (l : List Byte) : Prop := ∀ b ∈ l, b ≠ LF

theorem NoLF.nil : NoLF [] := fun _ hb => nomatch hb

theorem NoLF.cons {b : Byte} {l : List Byte} (hb : b ≠ LF) (hl : NoLF l) : NoLF (b :: l) := by
  intro x hx
  rcases List.mem_cons.mp hx with rfl | hx
  · exact hb
  · exact hl x hx

theorem NoLF.append {a b : List Byte} (ha : NoLF a) (hb : NoLF b) : NoLF (a ++ b) := by
  intro x hx
  rcases List.mem_append.mp hx with hx | hx
  · exact ha x hx
  · exact hb x hx

theorem NoLF.of_cls {cls : Byte → Bool} (hc : cls LF = false) {l : List Byte} (h : ∀ b ∈ l, cls b = true) :
    NoLF l := by
  intro b hb e
  subst e
  have := h LF hb
  rw [hc] at this
  cases this

/-- `f` returns Partial only when no LF is left -/
def PN {α : Type} (f : P α) : Prop := ∀ c, f.run c = .part → NoLF c.rest
/-- the same for cursors with at most `n` bytes left -/
def PNk {α : Type} (n : Nat) (f : P α) : Prop := ∀ c, c.rest.length ≤ n → f.run c = .part → NoLF c.rest

theorem PN.pure {α : Type} (a : α) : PN (pure a : P α) := by intro c h; simp at h
theorem PN.fail {α : Type} (e : Error) : PN (P.fail e : P α) := by intro c h; simp at h

theorem expect_run (p : Byte → Bool) (e : Error) (s : Nat) (t : List Byte) (b : Byte) (r : List Byte) :
    (expect p e).run ⟨s, t, b :: r⟩ = if p b then .ok (b, ⟨s, t ++ [b], r⟩) else .err e := by
  cases h : p b <;> simp [expect, next, h]

theorem PN.expect_bind {α : Type} {p : Byte → Bool} {e : Error} {g : Byte → P α}
    (hp : ∀ b, p b = true → b ≠ LF) (hg : ∀ b, PN (g b)) : PN (expect p e >>= g) := by
  rintro ⟨s, t, r⟩ h
  cases r with
  | nil => exact .nil
  | cons b r =>
    simp only [run_bind, expect_run] at h
    cases hb : p b
    · simp [hb] at h
    · simp only [hb, if_true] at h
      exact .cons (hp b hb) (hg b _ h)

theorem PNk.expect_bind {α : Type} {n : Nat} {p : Byte → Bool} {e : Error} {g : Byte → P α}
    (hp : ∀ b, p b = true → b ≠ LF) (hg : ∀ b, PNk n (g b)) : PNk (n + 1) (expect p e >>= g) := by
  rintro ⟨s, t, r⟩ hlen h
  cases r with
  | nil => exact .nil
  | cons b r =>
    simp only [run_bind, expect_run] at h
    cases hb : p b
    · simp [hb] at h
    · simp only [hb, if_true] at h
      exact .cons (hp b hb) (hg b _ (by simp at hlen ⊢; omega) h)

theorem PNk.partial_ {α : Type} : PNk 0 (P.partial_ : P α) := by
  intro c hlen _
  have : c.rest = [] := List.length_eq_zero_iff.mp (by omega)
  rw [this]; exact .nil

theorem skipEmptyLinesGo_part (s : Nat) (tok r : List Byte) (h : skipEmptyLinesGo s tok r = .part) :
    ∃ pre x, r = pre ++ x ∧ EmptyLines pre ∧ NoLF x := by
  fun_induction skipEmptyLinesGo s tok r with
  | case1 tok => exact ⟨[], [], rfl, .nil, .nil⟩
  | case2 tok b hb =>
    simp only [beq_iff_eq] at hb; subst hb
    exact ⟨[], [CR], rfl, .nil, .cons CR_ne_LF .nil⟩
  | case3 tok b hb b2 r2 hb2 ih =>
    obtain ⟨pre, x, rfl, hp, hx⟩ := ih h
    simp only [beq_iff_eq] at hb hb2; subst hb; subst hb2
    exact ⟨CR :: LF :: pre, x, by simp, .crlf hp, hx⟩
  | case4 tok b hb b2 r2 hb2 => simp at h
  | case5 tok b r hb hb2 ih =>
    obtain ⟨pre, x, rfl, hp, hx⟩ := ih h
    simp only [beq_iff_eq] at hb2; subst hb2
    exact ⟨LF :: pre, x, by simp, .lf hp, hx⟩
  | case6 tok b r hb hb2 => simp at h

theorem skipSpacesGo_part (s : Nat) (tok r : List Byte) (h : skipSpacesGo s tok r = .part) : NoLF r := by
  fun_induction skipSpacesGo s tok r with
  | case1 tok => exact .nil
  | case2 tok b r hb ih =>
    simp only [beq_iff_eq] at hb; subst hb
    exact .cons (by decide) (ih h)
  | case3 tok b r hb => simp at h

theorem optSkipSpaces_pn (multi : Bool) : PN (optSkipSpaces multi) := by
  intro c h
  cases multi
  · simp [optSkipSpaces] at h
  · exact skipSpacesGo_part _ _ _ h

theorem tokenLoop_part (s : Nat) (tok r : List Byte) (h : tokenLoop s tok r = .part) : NoLF r := by
  fun_induction tokenLoop s tok r with
  | case1 tok => exact .nil
  | case2 tok b r hb =>
    simp only [beq_iff_eq] at hb; subst hb
    have := sliceSkip_app s tok [SP] r
    simp only [List.length_cons, List.length_nil, Nat.zero_add] at this
    rw [this] at h; cases h
  | case3 tok b r hb hnt => simp at h
  | case4 tok b r hb ht ih =>
    have ht' : isTchar b = true := by simpa using ht
    exact .cons (tchar_ne_lf ht') (ih h)

theorem parseMethod_pn : PN parseMethod := by
  intro c h
  rw [parseMethod_run, parseToken_run] at h
  cases hr : c.rest with
  | nil => exact .nil
  | cons b r =>
    rw [hr] at h
    simp only at h
    cases hb : isTchar b
    · simp [hb] at h
    · simp only [hb, Bool.not_true, Bool.false_eq_true, if_false] at h
      exact .cons (tchar_ne_lf hb) (tokenLoop_part _ _ _ h)

theorem parseUri_pn {be : Backend} (hbe : be.Exact) : PN (parseUri be) := by
  intro c h
  unfold parseUri at h
  rcases bind_part h with h | ⟨⟨n, b⟩, c', _, h⟩
  · rw [scanNext_run hbe.uri] at h
    cases hd : c.rest.dropWhile isUri with
    | nil =>
      have : c.rest.takeWhile isUri = c.rest := by
        have := List.takeWhile_append_dropWhile (p := isUri) (l := c.rest)
        rw [hd, List.append_nil] at this; exact this
      rw [← this]
      exact .of_cls (by decide) (all_takeWhile isUri c.rest)
    | cons b r => rw [hd] at h; cases h
  · dsimp only at h
    split at h
    · split at h
      · simp at h
      · rcases bind_part h with h | ⟨sl, c'', _, h⟩
        · simp [sliceSkip] at h; split at h <;> cases h
        · split at h <;> simp at h
    · simp at h

theorem bwVersion_pnk : PNk 7 bwVersion := by
  unfold bwVersion
  refine PNk.expect_bind (fun b hb => ?_) fun _ => ?_
  · simp only [beq_iff_eq] at hb; subst hb; decide
  refine PNk.expect_bind (fun b hb => ?_) fun _ => ?_
  · simp only [beq_iff_eq] at hb; subst hb; decide
  refine PNk.expect_bind (fun b hb => ?_) fun _ => ?_
  · simp only [beq_iff_eq] at hb; subst hb; decide
  refine PNk.expect_bind (fun b hb => ?_) fun _ => ?_
  · simp only [beq_iff_eq] at hb; subst hb; decide
  refine PNk.expect_bind (fun b hb => ?_) fun _ => ?_
  · simp only [beq_iff_eq] at hb; subst hb; decide
  refine PNk.expect_bind (fun b hb => ?_) fun _ => ?_
  · simp only [beq_iff_eq] at hb; subst hb; decide
  refine PNk.expect_bind (fun b hb => ?_) fun _ => ?_
  · simp only [beq_iff_eq] at hb; subst hb; decide
  exact PNk.partial_

theorem parseVersion_pn : PN parseVersion := by
  intro c h
  by_cases h8 : 8 ≤ c.rest.length
  · rw [parseVersion_long c h8] at h
    split at h
    · cases h
    · split at h <;> cases h
  · rw [parseVersion_short c (by omega)] at h
    exact bwVersion_pnk c (by omega) h

theorem newline_pn : PN newline := by
  rintro ⟨s, t, r⟩ h
  rw [newline_run] at h
  cases r with
  | nil => exact .nil
  | cons b r1 =>
    simp only at h
    by_cases hb : b = CR
    · subst hb
      cases r1 with
      | nil => exact .cons CR_ne_LF .nil
      | cons b2 r2 =>
        simp only [beq_self_eq_true, if_true] at h
        split at h <;> cases h
    · simp only [beq_byte, hb, if_false] at h
      split at h <;> cases h

theorem space_pn (e : Error) : PN (space e) := by
  unfold space
  refine PN.expect_bind (fun b hb => ?_) fun _ => ?_
  · simp only [beq_iff_eq] at hb; subst hb; decide
  intro c h
  simp [slice] at h

theorem parseCode_pn : PN parseCode := by
  unfold parseCode
  have hd : ∀ b, isDigit b = true → b ≠ LF := fun b hb e => by subst e; exact absurd hb (by decide)
  refine PN.expect_bind hd fun _ => ?_
  refine PN.expect_bind hd fun _ => ?_
  refine PN.expect_bind hd fun _ => ?_
  exact PN.pure _

theorem reasonLoop_part (s : Nat) (seen : Bool) (tok r : List Byte) (h : reasonLoop s seen tok r = .part) :
    NoLF r := by
  fun_induction reasonLoop s seen tok r with
  | case1 seen tok => exact .nil
  | case2 seen tok b hb =>
    simp only [beq_iff_eq] at hb; subst hb
    exact .cons CR_ne_LF .nil
  | case3 seen tok b hb b2 r2 hb2 =>
    have := reasonFinish_app seen s tok [b, b2] r2
    simp only [List.length_cons, List.length_nil, Nat.zero_add] at this
    rw [this] at h; cases h
  | case4 seen tok b hb b2 r2 hb2 => simp at h
  | case5 seen tok b r hb hb2 =>
    have := reasonFinish_app seen s tok [b] r
    simp only [List.length_cons, List.length_nil, Nat.zero_add] at this
    rw [this] at h; cases h
  | case6 seen tok b r hb hb2 hnr => simp at h
  | case7 seen tok b r hb hb2 hr ih =>
    have hb2' : b ≠ LF := by simpa using hb2
    exact .cons hb2' (ih h)

theorem reasonBranch_pn (multi : Bool) : PN (reasonBranch multi) := by
  rintro ⟨s, t, r⟩ h
  cases r with
  | nil => exact .nil
  | cons b r =>
    unfold reasonBranch at h
    simp only [run_bind, next_cons] at h
    by_cases h1 : b = SP
    · subst h1
      refine .cons (by decide) ?_
      simp only [beq_self_eq_true, if_true] at h
      rcases bind_part h with ho | ⟨⟨⟩, ⟨s1, t1, r1⟩, ho, h⟩
      · exact optSkipSpaces_pn multi _ ho
      · have h' : reasonLoop (s1 + t1.length) false [] r1 = .part := by
          simpa [slice, parseReason] using h
        have hr1 := reasonLoop_part _ _ _ _ h'
        -- what `optSkipSpaces` consumed is SPs
        cases multi
        · have ho' : (pure () : P Unit).run ⟨s, t ++ [SP], r⟩ = .ok ((), ⟨s1, t1, r1⟩) := ho
          simp only [run_pure, Outcome.ok.injEq, Prod.mk.injEq, Cur.mk.injEq, true_and] at ho'
          rw [ho'.2.2]; exact hr1
        · obtain ⟨sp, r', rfl, hsp, -, hc⟩ := (skipSpaces_ok _ _ _ _).mp ho
          simp only [Cur.mk.injEq] at hc
          rw [hc.2.2] at hr1
          exact .append (fun x hx => by rw [hsp x hx]; decide) hr1
    · by_cases h2 : b = CR
      · subst h2
        cases r with
        | nil => exact .cons CR_ne_LF .nil
        | cons b2 r2 =>
          simp only [beq_byte, h1, if_false, if_true, run_bind, expect_run] at h
          by_cases h4 : b2 = LF
          · subst h4; simp [slice] at h
          · simp [h4] at h
      · by_cases h3 : b = LF
        · subst h3; simp [h1, h2, slice] at h
        · simp [h1, h2, h3] at h

theorem startLineEndFrom_nil (o : Nat) : startLineEndFrom o [] = none := by rw [startLineEndFrom.eq_def]
theorem pastLf_nil (o : Nat) : startLineEndFrom.pastLf o [] = none := by rw [startLineEndFrom.pastLf.eq_def]
theorem pastLf_cons (o : Nat) (b : Byte) (r : List Byte) :
    startLineEndFrom.pastLf o (b :: r) = if b == LF then some (o + 1) else startLineEndFrom.pastLf (o + 1) r := by
  rw [startLineEndFrom.pastLf.eq_def]

theorem pastLf_noLF (o : Nat) {l : List Byte} (h : NoLF l) : startLineEndFrom.pastLf o l = none := by
  induction l generalizing o with
  | nil => exact pastLf_nil o
  | cons b r ih =>
    rw [pastLf_cons]
    have : b ≠ LF := h b (by simp)
    simp only [beq_byte, this, if_false]
    exact ih _ fun x hx => h x (by simp [hx])

theorem pastLf_found (o : Nat) {l : List Byte} (h : NoLF l) (r : List Byte) :
    startLineEndFrom.pastLf o (l ++ LF :: r) = some (o + l.length + 1) := by
  induction l generalizing o with
  | nil => rw [List.nil_append, pastLf_cons]; simp
  | cons b l ih =>
    rw [List.cons_append, pastLf_cons]
    have : b ≠ LF := h b (by simp)
    simp only [beq_byte, this, if_false]
    rw [ih _ fun x hx => h x (by simp [hx])]
    simp; omega

theorem sle_noLF (o : Nat) {l : List Byte} (h : NoLF l) : startLineEndFrom o l = none := by
  rw [startLineEndFrom.eq_def]
  cases l with
  | nil => rfl
  | cons b r =>
    have hb : b ≠ LF := h b (by simp)
    have hr : NoLF r := fun x hx => h x (by simp [hx])
    simp only [beq_byte, hb, if_false]
    split
    · cases r with
      | nil => rfl
      | cons b2 r2 =>
        have hb2 : b2 ≠ LF := hr b2 (by simp)
        simp only [hb2, if_false]
        exact pastLf_noLF _ fun x hx => hr x (by simp [hx])
    · exact pastLf_noLF _ hr

theorem sle_pre {pre : List Byte} (hp : EmptyLines pre) (o : Nat) (r : List Byte) :
    startLineEndFrom o (pre ++ r) = startLineEndFrom (o + pre.length) r := by
  induction hp generalizing o with
  | nil => simp
  | crlf _ ih =>
    rw [List.cons_append, List.cons_append, startLineEndFrom.eq_def]
    simp only [beq_byte, CR_ne_LF, if_false, if_true]
    rw [ih]; congr 1; simp; omega
  | lf _ ih =>
    rw [List.cons_append, startLineEndFrom.eq_def]
    simp only [beq_self_eq_true, if_true]
    rw [ih]; congr 1; simp; omega

/-- a line `x :: w ++ eol` with no LF before its own line end, after leading empty lines -/
theorem sle_line {pre w eol : List Byte} {x : Byte} (hp : EmptyLines pre) (hx1 : x ≠ CR) (hx2 : x ≠ LF)
    (hw : NoLF w) (he : IsEol eol) (rest : List Byte) :
    startLineEnd (pre ++ x :: w ++ eol ++ rest) = some (pre ++ x :: w ++ eol).length := by
  unfold startLineEnd
  have e : pre ++ x :: w ++ eol ++ rest = pre ++ (x :: (w ++ eol ++ rest)) := by simp
  rw [e, sle_pre hp, startLineEndFrom.eq_def]
  simp only [beq_byte, hx1, hx2, if_false]
  rcases he with rfl | rfl
  · have e2 : w ++ [CR, LF] ++ rest = (w ++ [CR]) ++ LF :: rest := by simp
    rw [e2, pastLf_found _ (hw.append (.cons CR_ne_LF .nil))]
    simp; omega
  · have e2 : w ++ [LF] ++ rest = w ++ LF :: rest := by simp
    rw [e2, pastLf_found _ hw]
    simp; omega

theorem sle_part {pre x : List Byte} (hp : EmptyLines pre) (hx : NoLF x) : startLineEnd (pre ++ x) = none := by
  unfold startLineEnd
  rw [sle_pre hp]; exact sle_noLF _ hx

end StartLine

/-! ### the start lines against `startLineEnd` -/

section Lines
open SA

theorem isDelim_noLF {multi : Bool} {sp : List Byte} (h : IsDelim multi sp) : NoLF sp := by
  rcases h with rfl | ⟨_, _, h⟩
  · exact .cons (by decide) .nil
  · intro b hb; rw [h b hb]; decide

theorem versionBytes_noLF {v : Nat} (hv : v = 0 ∨ v = 1) : NoLF (versionBytes v) := by
  rcases hv with rfl | rfl <;> (intro b hb; simp [versionBytes] at hb; rcases hb with h | h | h | h | h | h | h <;>
    (subst h; decide))

theorem requestLine_sle {multi : Bool} {pre m sp₁ t sp₂ : List Byte} {v : Nat} {eol : List Byte}
    (hl : IsRequestLine multi pre m sp₁ t sp₂ v eol) (rest : List Byte) :
    startLineEnd (requestLineBytes pre m sp₁ t sp₂ v eol ++ rest) =
      some (requestLineBytes pre m sp₁ t sp₂ v eol).length := by
  obtain ⟨hpre, hmne, hmb, hd1, htne, ht, hu, hd2, hv, he⟩ := hl
  cases m with
  | nil => exact absurd rfl hmne
  | cons x m' =>
    have hx : isTchar x = true := hmb x (by simp)
    have hw : NoLF (m' ++ sp₁ ++ t ++ sp₂ ++ versionBytes v) :=
      ((((NoLF.of_cls isTchar_LF fun b hb => hmb b (by simp [hb])).append (isDelim_noLF hd1)).append
        (.of_cls (by decide) ht)).append (isDelim_noLF hd2)).append (versionBytes_noLF hv)
    have := sle_line hpre (tchar_ne_cr hx) (tchar_ne_lf hx) hw he rest
    simpa [requestLineBytes] using this

theorem statusLine_sle {multi : Bool} {pre : List Byte} {v : Nat} {sp₁ : List Byte} {d₁ d₂ d₃ : Byte}
    {tail : List Byte} {ro : Nat} {reason : Option (List Byte)}
    (hl : IsStatusLine multi pre v sp₁ d₁ d₂ d₃ tail ro reason) (rest : List Byte) :
    startLineEnd (statusLineBytes pre v sp₁ d₁ d₂ d₃ tail ++ rest) =
      some (statusLineBytes pre v sp₁ d₁ d₂ d₃ tail).length := by
  obtain ⟨hpre, hv, hd, hd1, hd2, hd3, htail⟩ := hl
  have hdig : ∀ d, isDigit d = true → d ≠ LF := fun d hd e => by subst e; exact absurd hd (by decide)
  have hvb : ∃ vb, versionBytes v = 0x48 :: vb ∧ NoLF vb := by
    have := versionBytes_noLF hv
    rcases hv with rfl | rfl
    · exact ⟨_, rfl, fun b hb => this b (by simp [versionBytes] at hb ⊢; exact .inr hb)⟩
    · exact ⟨_, rfl, fun b hb => this b (by simp [versionBytes] at hb ⊢; exact .inr hb)⟩
  obtain ⟨vb, hvbe, hvbn⟩ := hvb
  have hmid : NoLF (vb ++ sp₁ ++ [d₁, d₂, d₃]) :=
    (hvbn.append (isDelim_noLF hd)).append (.cons (hdig _ hd1) (.cons (hdig _ hd2) (.cons (hdig _ hd3) .nil)))
  cases htail with
  | bare he =>
    have := sle_line hpre (x := 0x48) (by decide) (by decide) hmid he rest
    simpa [statusLineBytes, hvbe] using this
  | @reason sp₂ r eol hsp _ _ hr he =>
    have hsp₂ : NoLF sp₂ := fun b hb => by rw [hsp b hb]; decide
    have hw : NoLF (vb ++ sp₁ ++ [d₁, d₂, d₃] ++ (SP :: sp₂ ++ r)) :=
      hmid.append (.cons (by decide) (NoLF.append hsp₂ (.of_cls (by decide) hr)))
    have := sle_line hpre (x := 0x48) (by decide) (by decide) hw he rest
    simpa [statusLineBytes, hvbe] using this

theorem noLF_reqline {mb spa t spb vb r : List Byte} (h1 : ∀ b ∈ mb, isTchar b = true) (h2 : ∀ b ∈ spa, b = SP)
    (h3 : ∀ b ∈ t, isUri b = true) (h4 : ∀ b ∈ spb, b = SP) (h5 : NoLF vb) (h6 : NoLF r) :
    NoLF (mb ++ SP :: (spa ++ (t ++ SP :: (spb ++ (vb ++ r))))) := by
  have hsp : ∀ {l : List Byte}, (∀ b ∈ l, b = SP) → NoLF l := fun h b hb => by rw [h b hb]; decide
  exact (NoLF.of_cls isTchar_LF h1).append (.cons (by decide) ((hsp h2).append
    ((NoLF.of_cls (by decide) h3).append (.cons (by decide) ((hsp h4).append (h5.append h6))))))

/-- the request-line stages return Partial only when no start-line end is in the buffer -/
theorem reqLine_part (be : Backend) (hbe : be.Exact) (multi : Bool) (buf : List Byte)
    (h : (reqLineP be multi).run (Cur.new buf) = .part) : startLineEnd buf = none := by
  unfold reqLineP Cur.new at h
  have hsp : ∀ {l : List Byte}, (∀ b ∈ l, b = SP) → NoLF l := fun h b hb => by rw [h b hb]; decide
  rcases bind_part h with h | ⟨⟨⟩, c1, h1, h⟩
  · obtain ⟨pre, x, rfl, hp, hx⟩ := skipEmptyLinesGo_part _ _ _ h
    exact sle_part hp hx
  obtain ⟨pre, r1, rfl, hpre, -, rfl⟩ := (skipEmptyLines_ok _ _ _).1 h1
  refine sle_part hpre ?_
  rcases bind_part h with h | ⟨m', c2, h2, h⟩
  · exact parseMethod_pn _ h
  obtain ⟨mb, r2, rfl, hmne, hmb, rfl, rfl⟩ := (parseMethod_ok _ _ _ _).1 h2
  refine (NoLF.of_cls isTchar_LF hmb).append (.cons (by decide) ?_)
  rcases bind_part h with h | ⟨⟨⟩, c3, h3, h⟩
  · exact optSkipSpaces_pn _ _ h
  obtain ⟨spa, r3, rfl, hspa, hma, -, rfl⟩ := (optSkipSpaces_ok _ _ _ _).1 h3
  refine (hsp hspa).append ?_
  rcases bind_part h with h | ⟨p', c4, h4, h⟩
  · exact parseUri_pn hbe _ h
  obtain ⟨t, r4, rfl, htne, ht, hu, rfl, rfl⟩ := (parseUri_ok hbe _ _ _ _).1 h4
  refine (NoLF.of_cls (by decide) ht).append (.cons (by decide) ?_)
  rcases bind_part h with h | ⟨⟨⟩, c5, h5, h⟩
  · exact optSkipSpaces_pn _ _ h
  obtain ⟨spb, r5, rfl, hspb, hmb', -, rfl⟩ := (optSkipSpaces_ok _ _ _ _).1 h5
  refine (hsp hspb).append ?_
  rcases bind_part h with h | ⟨v', c6, h6, h⟩
  · exact parseVersion_pn _ h
  obtain ⟨hv, r6, rfl, rfl⟩ := (parseVersion_ok _ _ _ _ _).1 h6
  refine (versionBytes_noLF hv).append ?_
  rcases bind_part h with h | ⟨⟨⟩, c7, h7, h⟩
  · exact newline_pn _ h
  · simp at h

/-- the status-line stages return Partial only when no start-line end is in the buffer -/
theorem respLine_part (multi : Bool) (buf : List Byte)
    (h : (respLineP multi).run (Cur.new buf) = .part) : startLineEnd buf = none := by
  unfold respLineP Cur.new at h
  have hsp : ∀ {l : List Byte}, (∀ b ∈ l, b = SP) → NoLF l := fun h b hb => by rw [h b hb]; decide
  have hdig : ∀ d, isDigit d = true → d ≠ LF := fun d hd e => by subst e; exact absurd hd (by decide)
  rcases bind_part h with h | ⟨⟨⟩, c1, h1, h⟩
  · obtain ⟨pre, x, rfl, hp, hx⟩ := skipEmptyLinesGo_part _ _ _ h
    exact sle_part hp hx
  obtain ⟨pre, r1, rfl, hpre, -, rfl⟩ := (skipEmptyLines_ok _ _ _).1 h1
  refine sle_part hpre ?_
  rcases bind_part h with h | ⟨v', c2, h2, h⟩
  · exact parseVersion_pn _ h
  obtain ⟨hv, r2, rfl, rfl⟩ := (parseVersion_ok _ _ _ _ _).1 h2
  refine (versionBytes_noLF hv).append ?_
  rcases bind_part h with h | ⟨⟨⟩, c3, h3, h⟩
  · exact space_pn _ _ h
  obtain ⟨r3, rfl, rfl⟩ := (space_ok _ _ _ _ _).1 h3
  refine .cons (by decide) ?_
  rcases bind_part h with h | ⟨⟨⟩, c4, h4, h⟩
  · exact optSkipSpaces_pn _ _ h
  obtain ⟨spa, r4, rfl, hspa, hma, -, rfl⟩ := (optSkipSpaces_ok _ _ _ _).1 h4
  refine (hsp hspa).append ?_
  rcases bind_part h with h | ⟨code', c5, h5, h⟩
  · exact parseCode_pn _ h
  obtain ⟨d₁, d₂, d₃, r5, rfl, hd1, hd2, hd3, rfl, rfl⟩ := (parseCode_ok _ _ _ _ _).1 h5
  refine .cons (hdig _ hd1) (.cons (hdig _ hd2) (.cons (hdig _ hd3) ?_))
  rcases bind_part h with h | ⟨str, c6, h6, h⟩
  · exact reasonBranch_pn _ _ h
  · simp at h

end Lines

end Hx
