/-
  Hx.Lemmas.Unlimited — `TooManyHeaders` is produced only by the slot iterator, and never when the
  array has at least as many slots as the buffer has bytes (C17, "unlimited").
-/
import Hx.Parse.Entry
import Hx.Lemmas.NoUB
import Hx.Lemmas.FwdAll
namespace Hx

/-- the outcome is not `Err(TooManyHeaders)` -/
def NT {α : Type} (o : Outcome α) : Prop := o ≠ .err .tooManyHeaders

@[simp] theorem NT_ok {α : Type} (a : α) : NT (Outcome.ok a) ↔ True := by simp [NT]
@[simp] theorem NT_part {α : Type} : NT (Outcome.part : Outcome α) ↔ True := by simp [NT]
@[simp] theorem NT_ub {α : Type} (u : UB) : NT (Outcome.ub u : Outcome α) ↔ True := by simp [NT]
@[simp] theorem NT_err {α : Type} (e : Error) : NT (Outcome.err e : Outcome α) ↔ e ≠ .tooManyHeaders := by
  simp [NT]

/-- a parsing step never fails with `TooManyHeaders` -/
def PNT {α : Type} (f : P α) : Prop := ∀ c, NT (f.run c)

theorem PNT.pure {α : Type} (a : α) : PNT (pure a : P α) := fun c => by simp
theorem PNT.fail {α : Type} (e : Error) (h : e ≠ .tooManyHeaders) : PNT (P.fail e : P α) := fun c => by simpa
theorem PNT.partial_ {α : Type} : PNT (P.partial_ : P α) := fun c => by simp
theorem PNT.undefined {α : Type} (u : UB) : PNT (P.undefined u : P α) := fun c => by simp

theorem PNT.bind {α β : Type} {f : P α} {g : α → P β} (hf : PNT f) (hg : ∀ a, PNT (g a)) : PNT (f >>= g) := by
  intro c
  simp only [run_bind]
  have := hf c
  cases h : f.run c with
  | ok r => exact hg r.1 r.2
  | part => simp
  | err e => rw [h] at this; simpa using this
  | ub u => simp

theorem PNT.ite {α : Type} {p : Prop} [Decidable p] {f g : P α} (hf : PNT f) (hg : PNT g) :
    PNT (if p then f else g) := by
  split <;> assumption

theorem PNT.mk {α : Type} {f : Cur → Outcome (α × Cur)} (h : ∀ c, NT (f c)) : PNT (P.mk f) := h

/-! ### primitives -/

theorem next_nt : PNT next := by
  intro c
  obtain ⟨s, t, r⟩ := c
  cases r <;> simp [next]

theorem slice_nt : PNT slice := fun c => by simp [slice]

theorem sliceSkip_nt (k : Nat) : PNT (sliceSkip k) := fun c => by
  simp only [sliceSkip, run_mk]; split <;> simp

theorem advance_nt (n : Nat) : PNT (advance n) := fun c => by
  simp only [advance, run_mk]; split <;> simp

theorem peekAhead_nt (n : Nat) : PNT (peekAhead n) := fun c => by
  simp only [peekAhead, run_mk]; split <;> simp

theorem scan_nt (s : Scanner) : PNT (scan s) := fun c => by
  simp only [scan, run_mk]
  split
  · simp
  · split <;> simp

theorem scanNext_nt (s : Scanner) : PNT (scanNext s) :=
  PNT.bind (scan_nt s) fun _ => PNT.bind next_nt fun _ => PNT.pure _

theorem expect_nt (p : Byte → Bool) (e : Error) (h : e ≠ .tooManyHeaders) : PNT (expect p e) :=
  PNT.bind next_nt fun _ => PNT.ite (PNT.pure _) (PNT.fail e h)

theorem space_nt (e : Error) (h : e ≠ .tooManyHeaders) : PNT (space e) :=
  PNT.bind (expect_nt _ e h) fun _ => PNT.bind slice_nt fun _ => PNT.pure _

theorem newline_nt : PNT newline :=
  PNT.bind next_nt fun _ =>
    PNT.ite (PNT.bind (expect_nt _ _ (by decide)) fun _ => PNT.bind slice_nt fun _ => PNT.pure _)
      (PNT.ite (PNT.bind slice_nt fun _ => PNT.pure _) (PNT.fail _ (by decide)))

theorem skipWsRun_nt : PNT skipWsRun := fun c => by simp [skipWsRun]

/-! ### start line -/

theorem skipEmptyLinesGo_nt (start : Nat) (tok rest : List Byte) : NT (skipEmptyLinesGo start tok rest) := by
  fun_induction skipEmptyLinesGo start tok rest <;> simp_all

theorem skipEmptyLines_nt : PNT skipEmptyLines := fun _ => skipEmptyLinesGo_nt _ _ _

theorem skipSpacesGo_nt (start : Nat) (tok rest : List Byte) : NT (skipSpacesGo start tok rest) := by
  fun_induction skipSpacesGo start tok rest <;> simp_all

theorem optSkipSpaces_nt (on : Bool) : PNT (optSkipSpaces on) := by
  cases on
  · exact PNT.pure _
  · exact fun _ => skipSpacesGo_nt _ _ _

theorem parseVersion_nt : PNT parseVersion := by
  intro c
  simp only [parseVersion, run_mk]
  split
  · exact PNT.bind (advance_nt 8) (fun _ => PNT.ite (PNT.pure _) (PNT.ite (PNT.pure _) (PNT.fail _ (by decide)))) c
  · refine PNT.bind (expect_nt _ _ (by decide)) (fun _ => ?_) c
    refine PNT.bind (expect_nt _ _ (by decide)) (fun _ => ?_)
    refine PNT.bind (expect_nt _ _ (by decide)) (fun _ => ?_)
    refine PNT.bind (expect_nt _ _ (by decide)) (fun _ => ?_)
    refine PNT.bind (expect_nt _ _ (by decide)) (fun _ => ?_)
    refine PNT.bind (expect_nt _ _ (by decide)) (fun _ => ?_)
    refine PNT.bind (expect_nt _ _ (by decide)) (fun _ => ?_)
    exact PNT.partial_

theorem tokenLoop_nt (start : Nat) (tok rest : List Byte) : NT (tokenLoop start tok rest) := by
  fun_induction tokenLoop start tok rest
  · simp
  · exact sliceSkip_nt 1 _
  · simp
  · assumption

theorem parseToken_nt : PNT parseToken :=
  PNT.bind next_nt fun _ => PNT.ite (PNT.fail _ (by decide)) (PNT.mk fun _ => tokenLoop_nt _ _ _)

theorem advance_sliceSkip_nt (n : Nat) : PNT (do advance n; sliceSkip 1 : P Slice) :=
  PNT.bind (advance_nt n) fun _ => sliceSkip_nt 1

theorem parseMethod_nt : PNT parseMethod := by
  intro c
  simp only [parseMethod, run_mk]
  split
  · split
    · exact advance_sliceSkip_nt 4 c
    · split
      · have hp := peekAhead_nt 4 c
        split
        · split
          · exact advance_sliceSkip_nt 5 c
          · exact parseToken_nt c
        · simp
        · rename_i e hrun; rw [hrun] at hp; simpa using hp
        · simp
      · exact parseToken_nt c
  · exact parseToken_nt c

theorem parseUri_nt (be : Backend) : PNT (parseUri be) := by
  unfold parseUri
  refine PNT.bind (scanNext_nt _) ?_
  rintro ⟨n, b⟩
  simp only
  refine PNT.ite (PNT.ite (PNT.fail _ (by decide)) ?_) (PNT.fail _ (by decide))
  exact PNT.bind (sliceSkip_nt 1) fun _ => PNT.ite (PNT.pure _) (PNT.fail _ (by decide))

theorem parseCode_nt : PNT parseCode :=
  PNT.bind (expect_nt _ _ (by decide)) fun _ => PNT.bind (expect_nt _ _ (by decide)) fun _ =>
    PNT.bind (expect_nt _ _ (by decide)) fun _ => PNT.pure _

theorem reasonFinish_nt (seen : Bool) (k : Nat) : PNT (reasonFinish seen k) :=
  PNT.bind (sliceSkip_nt k) fun _ => PNT.ite (PNT.pure _) (PNT.pure _)

theorem reasonLoop_nt (start : Nat) (seen : Bool) (tok rest : List Byte) :
    NT (reasonLoop start seen tok rest) := by
  fun_induction reasonLoop start seen tok rest
  · simp
  · simp
  · exact reasonFinish_nt _ _ _
  · simp
  · exact reasonFinish_nt _ _ _
  · simp
  · assumption

theorem parseReason_nt : PNT parseReason := fun _ => reasonLoop_nt _ _ _ _

theorem reasonBranch_nt (multi : Bool) : PNT (reasonBranch multi) :=
  PNT.bind next_nt fun _ =>
    PNT.ite (PNT.bind (optSkipSpaces_nt multi) fun _ => PNT.bind slice_nt fun _ => parseReason_nt)
      (PNT.ite (PNT.bind (expect_nt _ _ (by decide)) fun _ => PNT.bind slice_nt fun _ => PNT.pure _)
        (PNT.ite (PNT.bind slice_nt fun _ => PNT.pure _) (PNT.fail _ (by decide))))

/-! ### one header line -/

theorem invalidLoop_nt (e : Error) (he : e ≠ .tooManyHeaders) (start : Nat) (b : Byte) (tok rest : List Byte) :
    NT (invalidLoop e start b tok rest) := by
  fun_induction invalidLoop e start b tok rest <;> simp_all

theorem handleInvalid_nt (hc : HCfg) (e : Error) (he : e ≠ .tooManyHeaders) (b : Byte) :
    PNT (handleInvalid hc e b) := by
  unfold handleInvalid
  exact PNT.ite (PNT.fail e he) (PNT.mk fun _ => invalidLoop_nt e he _ _ _ _)

theorem sanLoop_nt (start : Nat) (tok rest : List Byte) : NT (sanLoop start tok rest) := by
  fun_induction sanLoop start tok rest <;> simp_all

theorem nameStage_nt (be : Backend) (hc : HCfg) : PNT (nameStage be hc) := by
  unfold nameStage
  refine PNT.bind (scanNext_nt _) ?_
  rintro ⟨n, b⟩
  simp only
  refine PNT.bind (sliceSkip_nt 1) fun name => ?_
  refine PNT.ite (PNT.pure _) (PNT.ite ?_ ?_)
  · refine PNT.bind (PNT.mk fun _ => sanLoop_nt _ _ _) fun r => ?_
    cases r with
    | none => exact PNT.pure _
    | some b' => exact PNT.bind (handleInvalid_nt hc _ (by decide) b') fun _ => PNT.pure _
  · exact PNT.bind (handleInvalid_nt hc _ (by decide) b) fun _ => PNT.pure _

theorem wsAfterColon_nt (hc : HCfg) (start : Nat) (tok rest : List Byte) :
    NT (wsAfterColon hc start tok rest) := by
  fun_induction wsAfterColon hc start tok rest
  all_goals first
    | (simp; done)
    | assumption
    | skip
  rename_i start tok b r _ _ _ _ e hrun
  have hh := handleInvalid_nt hc .headerValue (by decide) b ⟨start, tok ++ [b], r⟩
  rw [hrun] at hh
  simpa using hh

theorem sliceSkip_some_nt (k : Nat) : PNT (do let s ← sliceSkip k; pure (some s) : P (Option Slice)) :=
  PNT.bind (sliceSkip_nt k) fun _ => PNT.pure _

theorem peekIf_nt {α : Type} (q : Byte → Bool) {f g : P α} (hf : PNT f) (hg : PNT g) :
    PNT (⟨fun c => match c.rest with
          | [] => .part
          | p :: _ => if q p then f.run c else g.run c⟩ : P α) := by
  intro c
  dsimp only
  split
  · simp
  · split
    · exact hf c
    · exact hg c

theorem valueLines_nt (be : Backend) (hc : HCfg) : ∀ fuel, PNT (valueLines be hc fuel) := by
  intro fuel
  induction fuel with
  | zero => exact PNT.undefined _
  | succ fuel ih =>
    rw [valueLines]
    refine PNT.bind (scanNext_nt _) ?_
    rintro ⟨n, b⟩
    simp only
    refine PNT.ite ?_ (PNT.ite ?_ ?_)
    · refine PNT.bind (expect_nt _ _ (by decide)) fun _ => ?_
      exact PNT.ite (peekIf_nt isWs ih (sliceSkip_some_nt 2)) (sliceSkip_some_nt 2)
    · exact PNT.ite (peekIf_nt isWs ih (sliceSkip_some_nt 1)) (sliceSkip_some_nt 1)
    · exact PNT.bind (handleInvalid_nt hc _ (by decide) b) fun _ => PNT.pure _

theorem headerLine_nt (be : Backend) (hc : HCfg) (n : Nat) : PNT (headerLine be hc n) := by
  unfold headerLine
  refine PNT.bind next_nt fun b => ?_
  refine PNT.ite (PNT.bind (expect_nt _ _ (by decide)) fun _ => PNT.pure _) (PNT.ite (PNT.pure _) (PNT.ite ?_ ?_))
  · refine PNT.ite ?_ ?_
    · exact PNT.bind skipWsRun_nt fun _ => PNT.bind slice_nt fun _ => PNT.pure _
    · exact PNT.bind (handleInvalid_nt hc _ (by decide) b) fun _ => PNT.pure _
  · refine PNT.bind (nameStage_nt be hc) fun nm => ?_
    cases nm with
    | none => exact PNT.pure _
    | some name =>
      simp only
      refine PNT.bind (PNT.mk fun _ => wsAfterColon_nt hc _ _ _) fun w => ?_
      cases w with
      | skipped => exact PNT.pure _
      | empty v => exact PNT.pure _
      | value =>
        simp only
        refine PNT.bind (PNT.mk fun c => valueLines_nt be hc _ c) fun v => ?_
        cases v <;> exact PNT.pure _

/-! ### the loop: with at least as many free slots as remaining bytes the iterator never runs out -/

theorem headersLoop_unlimited {be : Backend} (hbe : be.Exact) (hc : HCfg) (cap : Nat) :
    ∀ (fuel : Nat) (c : Cur) (hs : List Hdr), hs.length + c.rest.length ≤ cap →
      (headersLoop be hc cap fuel c hs).1 ≠ .err .tooManyHeaders := by
  intro fuel
  induction fuel with
  | zero => intro c hs _; simp [headersLoop]
  | succ fuel ih =>
    intro c hs hle
    have hl := headerLine_sat hbe hc hs.length c
    have hn := headerLine_nt be hc hs.length c
    rw [headersLoop]
    split
    · simp
    · rename_i c' hrun
      rw [hrun] at hl; simp only [Sat_ok] at hl
      exact ih c' hs (by omega)
    · rename_i n v c' hrun
      rw [hrun] at hl; simp only [Sat_ok] at hl
      have : hs.length < cap := by omega
      rw [if_pos this]
      exact ih c' _ (by simp; omega)
    · simp
    · rename_i e hrun
      rw [hrun] at hn
      simpa using hn
    · simp

theorem parseHeadersIter_unlimited {be : Backend} (hbe : be.Exact) (hc : HCfg) (cap : Nat) (c : Cur)
    (h : c.rest.length ≤ cap) : (parseHeadersIter be hc cap c).1 ≠ .err .tooManyHeaders := by
  have h := headersLoop_unlimited hbe hc cap (c.rest.length + 1) c [] (by simpa using h)
  unfold parseHeadersIter
  split
  · simp
  · simp
  · rename_i e hs heq
    rw [heq] at h
    simpa using h
  · simp

theorem finishHeaders_unlimited {V : Type} {be : Backend} (hbe : be.Exact) (hc : HCfg) (cap : Nat)
    (buf : List Byte) (c : Cur) (v : V) (h : c.rest.length ≤ cap) :
    (finishHeaders be hc cap buf c v).status ≠ .err .tooManyHeaders := by
  have h := parseHeadersIter_unlimited hbe hc cap c h
  unfold finishHeaders
  dsimp only
  split
  · simp
  · simp
  · rename_i e hs heq
    rw [heq] at h
    simpa using h
  · simp

/-- one stage of a core: not `TooManyHeaders` itself, and the cursor stays inside the buffer -/
theorem step_unlimited {α V : Type} [HasSlices α] {f : P α} {c : Cur} {v : V} {k : α → Cur → Res V}
    {buf : List Byte} (hnt : PNT f) (hf : Fwd f) (hwf : c.Wf buf)
    (hk : ∀ a c', c'.Wf buf → (k a c').status ≠ .err .tooManyHeaders) :
    (step (f.run c) v k).status ≠ .err .tooManyHeaders := by
  have h1 := hnt c
  unfold step
  split
  · rename_i a c' hrun
    exact hk a c' (hf buf c a c' hwf hrun).1
  · simp
  · rename_i e hrun
    rw [hrun] at h1
    simpa using h1
  · simp

theorem Cur.Wf.rest_le {buf : List Byte} {c : Cur} (h : c.Wf buf) : c.rest.length ≤ buf.length := by
  have := h.pos_le
  omega

theorem req_unlimited (be : Backend) (hbe : be.Exact) (cfg : Config) (cap : Nat) (buf : List Byte)
    (v : ReqVal) (h : buf.length ≤ cap) : (reqCore be cfg cap buf v).status ≠ .err .tooManyHeaders := by
  unfold reqCore
  refine step_unlimited skipEmptyLines_nt skipEmptyLines_Fwd (Cur.Wf.new buf) fun _ c hwf => ?_
  refine step_unlimited parseMethod_nt parseMethod_Fwd hwf fun _ c hwf => ?_
  refine step_unlimited (optSkipSpaces_nt _) (optSkipSpaces_Fwd _) hwf fun _ c hwf => ?_
  refine step_unlimited (parseUri_nt be) (parseUri_Fwd be) hwf fun _ c hwf => ?_
  refine step_unlimited (optSkipSpaces_nt _) (optSkipSpaces_Fwd _) hwf fun _ c hwf => ?_
  refine step_unlimited parseVersion_nt parseVersion_Fwd hwf fun _ c hwf => ?_
  refine step_unlimited newline_nt newline_Fwd hwf fun _ c hwf => ?_
  exact finishHeaders_unlimited hbe _ _ _ _ _ (Nat.le_trans hwf.rest_le h)

theorem resp_unlimited (be : Backend) (hbe : be.Exact) (cfg : Config) (cap : Nat) (buf : List Byte)
    (v : RespVal) (h : buf.length ≤ cap) : (respCore be cfg cap buf v).status ≠ .err .tooManyHeaders := by
  unfold respCore
  refine step_unlimited skipEmptyLines_nt skipEmptyLines_Fwd (Cur.Wf.new buf) fun _ c hwf => ?_
  refine step_unlimited parseVersion_nt parseVersion_Fwd hwf fun _ c hwf => ?_
  refine step_unlimited (space_nt _ (by decide)) (space_Fwd _) hwf fun _ c hwf => ?_
  refine step_unlimited (optSkipSpaces_nt _) (optSkipSpaces_Fwd _) hwf fun _ c hwf => ?_
  refine step_unlimited parseCode_nt parseCode_Fwd hwf fun _ c hwf => ?_
  refine step_unlimited (reasonBranch_nt _) (reasonBranch_Fwd _) hwf fun _ c hwf => ?_
  exact finishHeaders_unlimited hbe _ _ _ _ _ (Nat.le_trans hwf.rest_le h)

end Hx
