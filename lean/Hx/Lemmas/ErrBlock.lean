/-
  Hx.Lemmas.ErrBlock — C10 for the header block and for whole messages: the header loop is rejected
  with kind `e` exactly in the situations of `BlockErr`; a request / response is rejected exactly when
  its start line is, or the start line is accepted and the block after it is rejected.
-/
import Hx.Spec.ErrSpec
import Hx.Lemmas.ErrLine
import Hx.Lemmas.BlockGrammar
import Hx.Lemmas.StartGrammar
namespace Hx

theorem drop_len_add (a b : List Byte) (n : Nat) : (a ++ b).drop (a.length + n) = b.drop n := by
  simp [List.drop_append]

/-! ### `BlockErr` through one more line -/

theorem BlockErr.skipped {hc : HCfg} {cap off k : Nat} {consumed after : List Byte} {e : Error} {hs : List Hdr}
    (hls : LineSpec hc k off consumed after .skipped) (h : BlockErr hc cap (off + consumed.length) k after e hs) :
    BlockErr hc cap off k (consumed ++ after) e hs := by
  obtain ⟨n, hp, hcase⟩ := h
  refine ⟨consumed.length + n, .skipped hls hp, ?_⟩
  rw [drop_len_add, ← Nat.add_assoc]
  exact hcase

theorem BlockErr.header {hc : HCfg} {cap off k : Nat} {consumed after : List Byte} {name value : Slice} {e : Error}
    {hs : List Hdr} (hls : LineSpec hc k off consumed after (.header name value)) (hlt : k < cap)
    (h : BlockErr hc cap (off + consumed.length) (k + 1) after e hs) :
    BlockErr hc cap off k (consumed ++ after) e (⟨name, trimValue value⟩ :: hs) := by
  obtain ⟨n, hp, hcase⟩ := h
  refine ⟨consumed.length + n, .header hls hlt hp, ?_⟩
  have e1 : k + (⟨name, trimValue value⟩ :: hs : List Hdr).length = k + 1 + hs.length := by simp; omega
  rw [drop_len_add, ← Nat.add_assoc, e1]
  exact hcase

/-- `BlockErr` unfolded by its first line -/
theorem BlockErr.cases {hc : HCfg} {cap off k : Nat} {input : List Byte} {e : Error} {hs : List Hdr}
    (h : BlockErr hc cap off k input e hs) :
    (hs = [] ∧ e ≠ .tooManyHeaders ∧ LineErr hc k input e) ∨
    (hs = [] ∧ e = .tooManyHeaders ∧ k = cap ∧ ∃ consumed after name value, input = consumed ++ after ∧
        LineSpec hc k off consumed after (.header name value)) ∨
    (∃ consumed after, input = consumed ++ after ∧ LineSpec hc k off consumed after .skipped ∧
        BlockErr hc cap (off + consumed.length) k after e hs) ∨
    (∃ consumed after name value hs1, input = consumed ++ after ∧ hs = ⟨name, trimValue value⟩ :: hs1 ∧
        LineSpec hc k off consumed after (.header name value) ∧ k < cap ∧
        BlockErr hc cap (off + consumed.length) (k + 1) after e hs1) := by
  obtain ⟨n, hp, hcase⟩ := h
  cases hp with
  | nil =>
    simp only [List.length_nil, Nat.add_zero, List.drop_zero] at hcase
    rcases hcase with ⟨h1, h2⟩ | ⟨h1, h2, h3⟩
    · exact Or.inl ⟨rfl, h1, h2⟩
    · exact Or.inr (Or.inl ⟨rfl, h1, h2, h3⟩)
  | @skipped _ _ n' consumed after _ hls hp' =>
    refine Or.inr (Or.inr (Or.inl ⟨consumed, after, rfl, hls, n', hp', ?_⟩))
    rw [drop_len_add, ← Nat.add_assoc] at hcase
    exact hcase
  | @header _ _ n' consumed after name value hs1 hls hlt hp' =>
    refine Or.inr (Or.inr (Or.inr ⟨consumed, after, name, value, hs1, rfl, rfl, hls, hlt, n', hp', ?_⟩))
    have e1 : k + (⟨name, trimValue value⟩ :: hs1 : List Hdr).length = k + 1 + hs1.length := by simp; omega
    rw [drop_len_add, ← Nat.add_assoc, e1] at hcase
    exact hcase

/-! ### the header loop -/

theorem headersLoop_err_sound {be : Backend} (hbe : be.Exact) (hc : HCfg) (cap : Nat) :
    ∀ (fuel off : Nat) (input : List Byte) (hs₀ hs' : List Hdr) (e : Error), hs₀.length ≤ cap →
      headersLoop be hc cap fuel ⟨off, [], input⟩ hs₀ = (.err e, hs') →
      ∃ hs, BlockErr hc cap off hs₀.length input e hs ∧ hs' = hs₀ ++ hs := by
  intro fuel
  induction fuel with
  | zero => intro off input hs₀ hs' e _ h; simp [headersLoop] at h
  | succ fuel ih =>
    intro off input hs₀ hs' e hk h
    rw [headersLoop] at h
    split at h
    · simp at h
    · rename_i c1 hrun
      obtain ⟨consumed, after, rfl, rfl, hls⟩ := (headerLine_iff be hbe hc _ off input _ _).mp hrun
      simp only [reduceCtorEq, if_false] at h
      obtain ⟨hs, hb, rfl⟩ := ih _ _ _ _ _ hk h
      exact ⟨hs, .skipped hls hb, rfl⟩
    · rename_i nm v c1 hrun
      obtain ⟨consumed, after, rfl, rfl, hls⟩ := (headerLine_iff be hbe hc _ off input _ _).mp hrun
      simp only [reduceCtorEq, if_false] at h
      split at h
      · rename_i hlt
        obtain ⟨hs, hb, rfl⟩ := ih _ _ _ _ _ (by simp; omega) h
        rw [List.length_append, List.length_singleton] at hb
        exact ⟨_ :: hs, .header hls hlt hb, by simp⟩
      · rename_i hlt
        simp only [Prod.mk.injEq, err_eq_iff] at h
        obtain ⟨rfl, rfl⟩ := h
        refine ⟨[], ⟨0, .nil, Or.inr ⟨rfl, by simp; omega, consumed, after, nm, v, by simp, by simpa using hls⟩⟩, by simp⟩
    · simp at h
    · rename_i e1 hrun
      simp only [Prod.mk.injEq, err_eq_iff] at h
      obtain ⟨rfl, rfl⟩ := h
      have hle := (headerLine_err_iff be hbe hc _ off input e).mp hrun
      exact ⟨[], ⟨0, .nil, Or.inl ⟨hle.ne_tooMany, by simpa using hle⟩⟩, by simp⟩
    · simp at h

theorem headersLoop_err_complete {be : Backend} (hbe : be.Exact) (hc : HCfg) (cap : Nat) :
    ∀ (fuel off : Nat) (input : List Byte) (hs₀ : List Hdr) (e : Error) (hs : List Hdr), input.length < fuel →
      BlockErr hc cap off hs₀.length input e hs →
      headersLoop be hc cap fuel ⟨off, [], input⟩ hs₀ = (.err e, hs₀ ++ hs) := by
  intro fuel
  induction fuel with
  | zero => intro off input hs₀ e hs hlt; omega
  | succ fuel ih =>
    intro off input hs₀ e hs hlt hb
    rcases hb.cases with ⟨rfl, -, hle⟩ | ⟨rfl, rfl, hcap, consumed, after, name, value, rfl, hls⟩ |
      ⟨consumed, after, rfl, hls, hb'⟩ | ⟨consumed, after, name, value, hs1, rfl, rfl, hls, hlt2, hb'⟩
    · have hrun := (headerLine_err_iff be hbe hc _ off input e).mpr hle
      rw [headersLoop]
      simp only [hrun, List.append_nil]
    · have hrun := headerLine_complete hbe hc _ off consumed after _ hls
      have hnlt : ¬ hs₀.length < cap := by omega
      rw [headersLoop]
      simp only [hrun, reduceCtorEq, if_false, hnlt, List.append_nil]
    · have hrun := headerLine_complete hbe hc _ off consumed after _ hls
      have hlt' := headerLine_sat hbe hc hs₀.length ⟨off, [], consumed ++ after⟩
      rw [hrun] at hlt'
      simp only [reduceCtorEq, if_false, Sat_ok] at hlt'
      have hlen : after.length < fuel := by simp at hlt hlt'; omega
      rw [headersLoop]
      simp only [hrun, reduceCtorEq, if_false]
      exact ih (off + consumed.length) after hs₀ e hs hlen hb'
    · have hrun := headerLine_complete hbe hc _ off consumed after _ hls
      have hlt' := headerLine_sat hbe hc hs₀.length ⟨off, [], consumed ++ after⟩
      rw [hrun] at hlt'
      simp only [reduceCtorEq, if_false, Sat_ok] at hlt'
      have hlen : after.length < fuel := by simp at hlt hlt'; omega
      have := ih (off + consumed.length) after (hs₀ ++ [⟨name, trimValue value⟩]) e hs1 hlen (by simpa using hb')
      rw [headersLoop]
      simp only [hrun, reduceCtorEq, if_false, hlt2, if_true]
      simpa using this

/-- C10: the header loop is rejected with kind `e` exactly in the situations of `BlockErr`; the headers
stored are those of the complete lines before the rejected one -/
theorem headersLoop_err_iff (be : Backend) (hbe : be.Exact) (hc : HCfg) (cap off : Nat) (input : List Byte)
    (hs₀ hs' : List Hdr) (hk : hs₀.length ≤ cap) (fuel : Nat) (hf : input.length < fuel) (e : Error) :
    headersLoop be hc cap fuel ⟨off, [], input⟩ hs₀ = (.err e, hs') ↔
      ∃ hs, BlockErr hc cap off hs₀.length input e hs ∧ hs' = hs₀ ++ hs := by
  constructor
  · exact headersLoop_err_sound hbe hc cap fuel off input hs₀ hs' e hk
  · rintro ⟨hs, hb, rfl⟩
    exact headersLoop_err_complete hbe hc cap fuel off input hs₀ e hs hf hb

/-! ### `finishHeaders` -/

theorem finishHeaders_err_iff {V : Type} (be : Backend) (hbe : be.Exact) (hc : HCfg) (cap : Nat)
    (pre rest : List Byte) (v : V) (e : Error) :
    (finishHeaders be hc cap (pre ++ rest) ⟨pre.length, [], rest⟩ v).status = .err e ↔
      ∃ hs, BlockErr hc cap pre.length 0 rest e hs := by
  have key := fun hs' => headersLoop_err_iff be hbe hc cap pre.length rest [] hs' (Nat.zero_le _) (rest.length + 1)
    (Nat.lt_succ_self _) e
  unfold finishHeaders parseHeadersIter
  constructor
  · intro h
    cases hl : headersLoop be hc cap (rest.length + 1) ⟨pre.length, [], rest⟩ [] with
    | mk o hs' =>
      simp only [hl] at h
      cases o with
      | ok c' => simp at h
      | part => simp at h
      | ub u => simp at h
      | err e1 =>
        simp only [err_eq_iff] at h
        subst h
        obtain ⟨hs, hb, -⟩ := (key hs').mp hl
        exact ⟨hs, hb⟩
  · rintro ⟨hs, hb⟩
    have hl := (key ([] ++ hs)).mpr ⟨hs, hb, rfl⟩
    simp only [hl]

/-! ### whole messages -/

theorem reqCore_err_iff (be : Backend) (hbe : be.Exact) (cfg : Config) (cap : Nat) (buf : List Byte) (v₀ : ReqVal)
    (e : Error) :
    (reqCore be cfg cap buf v₀).status = .err e ↔
      (reqLineP be cfg.multiReq).run (Cur.new buf) = .err e ∨
      ∃ pre mb sp₁ t sp₂ v eol hb hs, IsRequestLine cfg.multiReq pre mb sp₁ t sp₂ v eol ∧
        buf = requestLineBytes pre mb sp₁ t sp₂ v eol ++ hb ∧
        BlockErr cfg.reqH cap (requestLineBytes pre mb sp₁ t sp₂ v eol).length 0 hb e hs := by
  obtain ⟨h1, h2, h3⟩ := reqCore_via_line be cfg cap buf v₀
  constructor
  · intro h
    cases hrun : (reqLineP be cfg.multiReq).run (Cur.new buf) with
    | ok r =>
      obtain ⟨⟨m, p, v⟩, c⟩ := r
      rw [h1 m p v c hrun] at h
      obtain ⟨pre, mb, sp₁, t, sp₂, eol, rest, hl, rfl, rfl, rfl, rfl⟩ :=
        (reqLine_iff be hbe cfg.multiReq buf m p v c).mp hrun
      obtain ⟨hs, hb⟩ := (finishHeaders_err_iff be hbe cfg.reqH cap _ rest _ e).mp h
      exact Or.inr ⟨pre, mb, sp₁, t, sp₂, v, eol, rest, hs, hl, rfl, hb⟩
    | part => rw [h3 hrun] at h; cases h
    | err e1 =>
      rw [h2 e1 hrun] at h
      left; rw [err_eq_iff.mp h]
    | ub u => exact absurd hrun (reqLine_no_ub be hbe cfg.multiReq buf u)
  · rintro (hrun | ⟨pre, mb, sp₁, t, sp₂, v, eol, hb, hs, hl, rfl, hblk⟩)
    · exact h2 e hrun
    · have hrun := (reqLine_iff be hbe cfg.multiReq _ _ _ v _).mpr
        ⟨pre, mb, sp₁, t, sp₂, eol, hb, hl, rfl, rfl, rfl, rfl⟩
      rw [h1 _ _ _ _ hrun]
      exact (finishHeaders_err_iff be hbe cfg.reqH cap _ hb _ e).mpr ⟨hs, hblk⟩

theorem respCore_err_iff (be : Backend) (hbe : be.Exact) (cfg : Config) (cap : Nat) (buf : List Byte) (v₀ : RespVal)
    (e : Error) :
    (respCore be cfg cap buf v₀).status = .err e ↔
      (respLineP cfg.multiResp).run (Cur.new buf) = .err e ∨
      ∃ pre v sp₁ d₁ d₂ d₃ tail ro reason hb hs, IsStatusLine cfg.multiResp pre v sp₁ d₁ d₂ d₃ tail ro reason ∧
        buf = statusLineBytes pre v sp₁ d₁ d₂ d₃ tail ++ hb ∧
        BlockErr cfg.respH cap (statusLineBytes pre v sp₁ d₁ d₂ d₃ tail).length 0 hb e hs := by
  obtain ⟨h1, h2, h3⟩ := respCore_via_line be cfg cap buf v₀
  constructor
  · intro h
    cases hrun : (respLineP cfg.multiResp).run (Cur.new buf) with
    | ok r =>
      obtain ⟨⟨v, code, r⟩, c⟩ := r
      rw [h1 v code r c hrun] at h
      obtain ⟨pre, sp₁, d₁, d₂, d₃, tail, ro, reason, rest, hl, rfl, rfl, rfl, rfl⟩ :=
        (respLine_iff cfg.multiResp buf v code r c).mp hrun
      obtain ⟨hs, hb⟩ := (finishHeaders_err_iff be hbe cfg.respH cap _ rest _ e).mp h
      exact Or.inr ⟨pre, v, sp₁, d₁, d₂, d₃, tail, ro, reason, rest, hs, hl, rfl, hb⟩
    | part => rw [h3 hrun] at h; cases h
    | err e1 =>
      rw [h2 e1 hrun] at h
      left; rw [err_eq_iff.mp h]
    | ub u => exact absurd hrun (respLine_no_ub cfg.multiResp buf u)
  · rintro (hrun | ⟨pre, v, sp₁, d₁, d₂, d₃, tail, ro, reason, hb, hs, hl, rfl, hblk⟩)
    · exact h2 e hrun
    · have hrun := (respLine_iff cfg.multiResp _ v _ _ _).mpr
        ⟨pre, sp₁, d₁, d₂, d₃, tail, ro, reason, hb, hl, rfl, rfl, rfl, rfl⟩
      rw [h1 _ _ _ _ hrun]
      exact (finishHeaders_err_iff be hbe cfg.respH cap _ hb _ e).mpr ⟨hs, hblk⟩

end Hx
