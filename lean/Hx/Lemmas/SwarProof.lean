/-
  Hx.Lemmas.SwarProof — the SWAR scanners of `Hx.Scan.Swar` are exact.

  * arithmetic: byte `j` of a word (`n / 256^j % 256`), byte `j` of a wrapping subtraction (with
    a borrow `c ≤ 1` from the lower bytes), of `^^^`, and bit `8j+7`;
  * kernel soundness: `rangeKernel` never returns `none`, never more than `w`, and never skips a
    byte `< m` or `= 0x7f` (it may stop early; the loop re-examines that byte);
  * the loops `rangeLoop` / `nameLoop` against `List.takeWhile`.
-/
import Hx.Scan.Swar
import Hx.Lemmas.Basic
namespace Hx.Swar
open Hx

/-! ### bytes of a natural number -/

/-- byte `j` (little-endian position) of `n` -/
def byteAt (n j : Nat) : Nat := n / 256 ^ j % 256

theorem byteAt_lt (n j : Nat) : byteAt n j < 256 := Nat.mod_lt _ (by decide)

@[simp] theorem byteAt_zero_left (j : Nat) : byteAt 0 j = 0 := by simp [byteAt]

theorem byteAt_succ (n j : Nat) : byteAt n (j + 1) = byteAt (n / 256) j := by
  simp [byteAt, Nat.pow_succ, Nat.div_div_eq_div_mul, Nat.mul_comm]

/-- the little-endian value of a byte list -/
def leVal (l : List Byte) : Nat := l.foldr (fun b acc => b.toNat + 256 * acc) 0

@[simp] theorem leVal_nil : leVal [] = 0 := rfl
@[simp] theorem leVal_cons (b : Byte) (l : List Byte) : leVal (b :: l) = b.toNat + 256 * leVal l := rfl

theorem leVal_lt (l : List Byte) : leVal l < 256 ^ l.length := by
  induction l with
  | nil => simp
  | cons b l ih =>
    have := b.toNat_lt
    simp only [leVal_cons, List.length_cons, Nat.pow_succ]
    omega

theorem byteAt_leVal (l : List Byte) (j : Nat) (h : j < l.length) : byteAt (leVal l) j = l[j].toNat := by
  induction l generalizing j with
  | nil => simp at h
  | cons b l ih =>
    have hb := b.toNat_lt
    cases j with
    | zero => simp [byteAt]
    | succ j =>
      rw [byteAt_succ]
      have : (b.toNat + 256 * leVal l) / 256 = leVal l := by omega
      simp only [leVal_cons, this, List.getElem_cons_succ]
      exact ih j (by simpa using h)

/-- a number below `256^w` all of whose `w` bytes vanish is zero -/
theorem eq_zero_of_bytes (w n : Nat) (hn : n < 256 ^ w) (h : ∀ j, j < w → byteAt n j = 0) : n = 0 := by
  induction w generalizing n with
  | zero => simpa using hn
  | succ w ih =>
    have h0 := h 0 (by omega)
    simp [byteAt] at h0
    have := ih (n / 256) (by rw [Nat.pow_succ] at hn; omega) (fun j hj => by
      rw [← byteAt_succ]; exact h (j + 1) (by omega))
    omega

theorem pow_split (w j : Nat) (h : j < w) : 2 ^ (8 * w) = 256 ^ j * (256 * 256 ^ (w - 1 - j)) := by
  have : 8 * w = 8 * j + (8 + 8 * (w - 1 - j)) := by omega
  rw [this, Nat.pow_add, Nat.pow_add, Nat.pow_mul, Nat.pow_mul]

theorem byteAt_mod (w n j : Nat) (h : j < w) : byteAt (n % 2 ^ (8 * w)) j = byteAt n j := by
  unfold byteAt
  rw [pow_split w j h, Nat.mod_mul_right_div_self, Nat.mod_mod_of_dvd _ (Nat.dvd_mul_right _ _)]

/-- bit 7 of byte `j` -/
theorem testBit_byte (n j : Nat) : n.testBit (8 * j + 7) = decide (128 ≤ byteAt n j) := by
  rw [Nat.testBit_eq_decide_div_mod_eq, Nat.pow_add, Nat.pow_mul, ← Nat.div_div_eq_div_mul]
  unfold byteAt
  congr 1
  simp only [show (2:Nat) ^ 8 = 256 by rfl, show (2:Nat) ^ 7 = 128 by rfl, eq_iff_iff]
  omega

theorem byteAt_xor (a b j : Nat) : byteAt (a ^^^ b) j = byteAt a j ^^^ byteAt b j := by
  unfold byteAt
  rw [show (256:Nat) = 2 ^ 8 by rfl, ← Nat.pow_mul, Nat.xor_div_two_pow, Nat.xor_mod_two_pow]

theorem sub_div_aux (K N' ah al bh bl : Nat) (hal : al < K) (hbl : bl < K) (hbN : bh < N') :
    ∃ c, c ≤ 1 ∧ bh + c ≤ N' ∧ (K * N' - (K * bh + bl) + (K * ah + al)) / K = ah + N' - bh - c := by
  have hmul : K * (bh + 1) ≤ K * N' := Nat.mul_le_mul_left K hbN
  rw [Nat.mul_add, Nat.mul_one] at hmul
  by_cases hc : bl ≤ al
  · refine ⟨0, by omega, by omega, ?_⟩
    apply Nat.div_eq_of_lt_le
    · rw [Nat.sub_zero, Nat.sub_mul, Nat.add_mul, Nat.mul_comm ah, Nat.mul_comm N', Nat.mul_comm bh]
      omega
    · rw [Nat.sub_zero, show ah + N' - bh + 1 = ah + N' + 1 - bh by omega, Nat.sub_mul,
        Nat.add_mul, Nat.add_mul, Nat.one_mul, Nat.mul_comm ah, Nat.mul_comm N', Nat.mul_comm bh]
      omega
  · refine ⟨1, by omega, by omega, ?_⟩
    apply Nat.div_eq_of_lt_le
    · rw [show ah + N' - bh - 1 = ah + N' - (bh + 1) by omega, Nat.sub_mul, Nat.add_mul,
        Nat.add_mul, Nat.one_mul, Nat.mul_comm ah, Nat.mul_comm N', Nat.mul_comm bh]
      omega
    · rw [show ah + N' - bh - 1 + 1 = ah + N' - bh by omega, Nat.sub_mul,
        Nat.add_mul, Nat.mul_comm ah, Nat.mul_comm N', Nat.mul_comm bh]
      omega

/-- `(K·N' - b + a) / K` is `a/K + N' - b/K` minus a borrow -/
theorem sub_div (a b K N' : Nat) (hK : 0 < K) (hb : b < K * N') :
    ∃ c, c ≤ 1 ∧ b / K + c ≤ N' ∧ (K * N' - b + a) / K = a / K + N' - b / K - c := by
  have h := sub_div_aux K N' (a / K) (a % K) (b / K) (b % K) (Nat.mod_lt a hK) (Nat.mod_lt b hK)
    (Nat.div_lt_of_lt_mul hb)
  rwa [Nat.div_add_mod, Nat.div_add_mod] at h

/-! ### bytes of words -/

/-- byte `j` of a wrapping subtraction, with the borrow `c` coming from the lower bytes -/
theorem byteAt_sub (w j : Nat) (h : j < w) (x B : BitVec (8 * w)) :
    ∃ c, c ≤ 1 ∧ byteAt (x - B).toNat j = (byteAt x.toNat j + 256 - byteAt B.toNat j - c) % 256 := by
  rw [BitVec.toNat_sub, byteAt_mod w _ j h]
  have hB := B.isLt
  rw [pow_split w j h] at hB ⊢
  obtain ⟨c, hc, hle, heq⟩ := sub_div x.toNat B.toNat (256 ^ j) (256 * 256 ^ (w - 1 - j))
    (Nat.pow_pos (by decide)) hB
  refine ⟨c, hc, ?_⟩
  unfold byteAt
  rw [heq]
  generalize x.toNat / 256 ^ j = ah at *
  generalize B.toNat / 256 ^ j = bh at *
  generalize 256 ^ (w - 1 - j) = Q at *
  omega

theorem getLsbD_byte {n : Nat} (x : BitVec n) (j : Nat) :
    x.getLsbD (8 * j + 7) = decide (128 ≤ byteAt x.toNat j) := by
  simp [BitVec.getLsbD, testBit_byte]

/-- the "less than `m`" flag: if byte `j` of `x` is below byte `j` of `B` (at most 127), bit 7 of
byte `j` of `(x - B) &&& ~~~x` is set, whatever was borrowed from below. -/
theorem lt_flag (w j : Nat) (h : j < w) (x B : BitVec (8 * w))
    (hlt : byteAt x.toNat j < byteAt B.toNat j) (hm : byteAt B.toNat j ≤ 127) :
    ((x - B) &&& ~~~x).getLsbD (8 * j + 7) = true := by
  obtain ⟨c, hc, hs⟩ := byteAt_sub w j h x B
  have hlt' : 8 * j + 7 < 8 * w := by omega
  rw [BitVec.getLsbD_and, BitVec.getLsbD_not]
  simp only [getLsbD_byte, hs, hlt', decide_true, Bool.true_and, Bool.and_eq_true,
    decide_eq_true_eq, Bool.not_eq_true', decide_eq_false_iff_not]
  omega

theorem getLsbD_of_byte (w j : Nat) (M : BitVec (8 * w)) (hM : 128 ≤ byteAt M.toNat j) :
    M.getLsbD (8 * j + 7) = true := by
  simp [getLsbD_byte, hM]

theorem byte_of_getLsbD (w j : Nat) (F : BitVec (8 * w)) (hF : F.getLsbD (8 * j + 7) = true) :
    128 ≤ byteAt F.toNat j := by
  simpa [getLsbD_byte] using hF

/-! ### the model's words -/

theorem wordOfBytes_eq (w : Nat) (le : Bool) (block : List Byte) :
    wordOfBytes w le block = BitVec.ofNat (8 * w) (leVal (if le then block else block.reverse)) := rfl

theorem uniform_eq (w : Nat) (b : Byte) :
    uniform w b = BitVec.ofNat (8 * w) (leVal (List.replicate w b)) := rfl

theorem byteAt_ofNat_leVal (w : Nat) (l : List Byte) (hl : l.length = w) (j : Nat) (h : j < w) :
    byteAt (BitVec.ofNat (8 * w) (leVal l)).toNat j = (l[j]'(hl ▸ h)).toNat := by
  rw [BitVec.toNat_ofNat, byteAt_mod w _ j h, byteAt_leVal]

/-- memory index `i` ↦ little-endian byte position in the word -/
def pos (w : Nat) (le : Bool) (i : Nat) : Nat := if le then i else w - 1 - i

theorem pos_lt (w : Nat) (le : Bool) (i : Nat) (h : i < w) : pos w le i < w := by
  unfold pos; split <;> omega

theorem byteAt_wordOfBytes (w : Nat) (le : Bool) (block : List Byte) (hl : block.length = w)
    (i : Nat) (h : i < w) :
    byteAt (wordOfBytes w le block).toNat (pos w le i) = (block[i]'(hl ▸ h)).toNat := by
  rw [wordOfBytes_eq]
  cases le with
  | true => exact byteAt_ofNat_leVal w block hl i h
  | false =>
    have := byteAt_ofNat_leVal w block.reverse (by simpa using hl) (w - 1 - i) (by omega)
    simp only [pos, Bool.false_eq_true, if_false] at this ⊢
    rw [this, List.getElem_reverse]
    congr 2
    omega

theorem byteAt_uniform (w : Nat) (b : Byte) (j : Nat) (h : j < w) :
    byteAt (uniform w b).toNat j = b.toNat := by
  rw [uniform_eq, byteAt_ofNat_leVal w (List.replicate w b) (by simp) j h]
  simp

/-- the flag word computed by `rangeKernel` -/
def flags (w : Nat) (m : Byte) (x : BitVec (8 * w)) : BitVec (8 * w) :=
  (((x - uniform w m) &&& ~~~x) |||
    (((x ^^^ uniform w 0x7f) - uniform w 0x01) &&& ~~~(x ^^^ uniform w 0x7f))) &&& uniform w 128

/-- Every byte `< m` or `= 0x7f` raises its flag. -/
theorem flags_byte (w : Nat) (m : Byte) (hm : m.toNat ≤ 127) (x : BitVec (8 * w)) (j : Nat) (h : j < w)
    (hx : byteAt x.toNat j < m.toNat ∨ byteAt x.toNat j = 0x7f) :
    128 ≤ byteAt (flags w m x).toNat j := by
  apply byte_of_getLsbD
  unfold flags
  rw [BitVec.getLsbD_and, BitVec.getLsbD_or,
    getLsbD_of_byte w j (uniform w 128) (by rw [byteAt_uniform w _ j h]; decide), Bool.and_true,
    Bool.or_eq_true]
  rcases hx with hx | hx
  · left
    apply lt_flag w j h
    · rw [byteAt_uniform w _ j h]; exact hx
    · rw [byteAt_uniform w _ j h]; exact hm
  · right
    apply lt_flag w j h
    · rw [byteAt_uniform w _ j h, BitVec.toNat_xor, byteAt_xor, byteAt_uniform w _ j h, hx]; decide
    · rw [byteAt_uniform w _ j h]; decide

theorem length_bytesOfWord (w : Nat) (le : Bool) (x : BitVec (8 * w)) : (bytesOfWord w le x).length = w := by
  unfold bytesOfWord; cases le <;> simp

theorem getElem_bytesOfWord (w : Nat) (le : Bool) (x : BitVec (8 * w)) (i : Nat) (h : i < w) :
    ((bytesOfWord w le x)[i]'(by rw [length_bytesOfWord]; exact h)).toNat = byteAt x.toNat (pos w le i) := by
  have h256 := byteAt_lt x.toNat (pos w le i)
  unfold bytesOfWord
  cases le with
  | true => simp [pos, byteAt]
  | false =>
    simp only [Bool.false_eq_true, if_false, List.getElem_reverse, List.getElem_map, List.getElem_range,
      List.length_map, List.length_range, pos, byteAt]
    simp

/-- `offsetnz` never reaches `unreachable!()`, returns at most `w`, and all bytes before the
reported index (memory order) are zero. -/
theorem offsetnz_spec (w : Nat) (le : Bool) (F : BitVec (8 * w)) :
    ∃ n, offsetnz w le F = some n ∧ n ≤ w ∧ ∀ i, i < n → byteAt F.toNat (pos w le i) = 0 := by
  unfold offsetnz
  split
  · rename_i h0
    have : F = 0 := by simpa using h0
    subst this
    exact ⟨w, rfl, Nat.le_refl _, fun i _ => by simp⟩
  · rename_i h0
    split
    · rename_i i hi
      rw [List.findIdx?_eq_some_iff_getElem] at hi
      obtain ⟨hlt, _, hlo⟩ := hi
      rw [length_bytesOfWord] at hlt
      refine ⟨i, rfl, Nat.le_of_lt hlt, fun k hk => ?_⟩
      have := hlo k hk
      rw [← getElem_bytesOfWord w le F k (by omega)]
      have : (bytesOfWord w le F)[k] = 0 := by simpa using this
      rw [this]; rfl
    · rename_i hnone
      exfalso
      rw [List.findIdx?_eq_none_iff] at hnone
      apply h0
      have hz : F.toNat = 0 := by
        apply eq_zero_of_bytes w _ (by have := F.isLt; rwa [Nat.pow_mul] at this)
        intro j hj
        have hp : pos w le (pos w le j) = j := by unfold pos; split <;> omega
        have hlen : pos w le j < (bytesOfWord w le F).length := by
          rw [length_bytesOfWord]; exact pos_lt w le j hj
        have := hnone _ (List.getElem_mem hlen)
        rw [← hp, ← getElem_bytesOfWord w le F (pos w le j) (pos_lt w le j hj)]
        have : (bytesOfWord w le F)[pos w le j] = 0 := by simpa using this
        rw [this]; rfl
      have : F = 0 := BitVec.eq_of_toNat_eq (by simpa using hz)
      simp [this]

/-- Soundness of the SWAR kernel on a full block: it reports at most `w` bytes and every byte it
skips is `≥ m` and not DEL.  (It may stop early; the loop re-examines the byte it stopped at.) -/
theorem rangeKernel_sound (w : Nat) (le : Bool) (m : Byte) (hm : m.toNat ≤ 127) (block : List Byte)
    (hl : block.length = w) :
    ∃ n, rangeKernel w le m block = some n ∧ n ≤ w ∧
      ∀ i (_ : i < n) (hiw : i < block.length), m ≤ block[i] ∧ block[i] ≠ 0x7f := by
  obtain ⟨n, hn, hnw, hz⟩ := offsetnz_spec w le (flags w m (wordOfBytes w le block))
  refine ⟨n, hn, hnw, fun i hi hiw => ?_⟩
  have hiw' : i < w := by omega
  have h1 := hz i hi
  have h2 := fun hx => flags_byte w m hm (wordOfBytes w le block) (pos w le i) (pos_lt w le i hiw') hx
  rw [byteAt_wordOfBytes w le block hl i hiw'] at h2
  constructor
  · rw [UInt8.le_iff_toNat_le]; omega
  · intro heq
    rw [heq] at h2
    have := h2 (Or.inr rfl)
    omega

/-! ### the loops -/

theorem takeWhile_split (p : Byte → Bool) (l : List Byte) (n : Nat)
    (h : ∀ i (_ : i < n) (hl : i < l.length), p l[i] = true) :
    l.takeWhile p = l.take n ++ (l.drop n).takeWhile p := by
  conv => lhs; rw [← List.take_append_drop n l]
  apply List.takeWhile_append_of_pos
  intro a ha
  obtain ⟨i, hi, rfl⟩ := List.mem_iff_getElem.mp ha
  rw [List.length_take] at hi
  rw [List.getElem_take]
  exact h i (by omega) (by omega)

/-- what `rangeLoop` needs from its kernel -/
def KernelSound (w : Nat) (kernel : List Byte → Option Nat) (cls : Byte → Bool) : Prop :=
  ∀ block : List Byte, block.length = w →
    ∃ n, kernel block = some n ∧ n ≤ w ∧ ∀ i (_ : i < n) (hiw : i < block.length), cls block[i] = true

theorem rangeLoop_spec (w : Nat) (kernel : List Byte → Option Nat) (cls : Byte → Bool)
    (hk : KernelSound w kernel cls) (fuel : Nat) (l : List Byte) (hf : l.length < fuel) :
    rangeLoop w kernel cls fuel l = some (l.takeWhile cls).length := by
  induction fuel generalizing l with
  | zero => omega
  | succ fuel ih =>
    unfold rangeLoop
    split
    · rename_i hw
      obtain ⟨hwl, hw0⟩ := hw
      obtain ⟨n, hn, hnw, hcls⟩ := hk (l.take w) (by rw [List.length_take]; omega)
      have hcls' : ∀ i (_ : i < n) (hl : i < l.length), cls l[i] = true := by
        intro i hi hl
        have := hcls i hi (by rw [List.length_take]; omega)
        rwa [List.getElem_take] at this
      have hsplit := takeWhile_split cls l n hcls'
      rw [hn]
      simp only
      rw [if_neg (by omega)]
      split
      · rename_i hnw'
        have hnw' : n = w := by simpa using hnw'
        rw [ih (l.drop n) (by rw [List.length_drop]; omega), hsplit]
        simp [List.length_take]; omega
      · rename_i hnw'
        have hnw' : n ≠ w := by simpa using hnw'
        split
        · rename_i b r hbr
          rw [hbr] at hsplit
          have hr : r.length + (n + 1) = l.length := by
            have := congrArg List.length hbr
            rw [List.length_drop, List.length_cons] at this; omega
          split
          · rename_i hb
            rw [ih r (by omega), hsplit, List.takeWhile_cons_of_pos hb]
            simp [List.length_take]; omega
          · rename_i hb
            rw [hsplit, List.takeWhile_cons_of_neg hb]
            simp [List.length_take]; omega
        · rename_i hnil
          have := congrArg List.length hnil
          rw [List.length_drop, List.length_nil] at this
          omega
    · cases l with
      | nil => simp
      | cons b r =>
        simp only
        split
        · rename_i hb
          rw [ih r (by simp at hf; omega), List.takeWhile_cons_of_pos hb]
          simp
        · rename_i hb
          rw [List.takeWhile_cons_of_neg hb]
          simp

theorem length_takeWhile_take (p : Byte → Bool) (l : List Byte) (w : Nat) :
    ((l.take w).takeWhile p).length = min w (l.takeWhile p).length := by
  induction l generalizing w with
  | nil => simp
  | cons a l ih =>
    cases w with
    | zero => simp
    | succ w =>
      rw [List.take_succ_cons]
      by_cases ha : p a = true
      · rw [List.takeWhile_cons_of_pos ha, List.takeWhile_cons_of_pos ha, List.length_cons, List.length_cons, ih]
        omega
      · rw [List.takeWhile_cons_of_neg ha, List.takeWhile_cons_of_neg ha]; simp

theorem length_takeWhile_drop (p : Byte → Bool) (l : List Byte) (w : Nat)
    (h : w ≤ (l.takeWhile p).length) :
    (l.takeWhile p).length = ((l.drop w).takeWhile p).length + w := by
  induction l generalizing w with
  | nil => simp at h; simp [h]
  | cons a l ih =>
    cases w with
    | zero => simp
    | succ w =>
      by_cases ha : p a = true
      · rw [List.takeWhile_cons_of_pos ha, List.length_cons] at h ⊢
        rw [List.drop_succ_cons, ih w (by omega)]
        omega
      · rw [List.takeWhile_cons_of_neg ha] at h; simp at h

theorem nameLoop_spec (w : Nat) (cls : Byte → Bool) (fuel : Nat) (l : List Byte)
    (hf : l.length < fuel) : nameLoop w cls fuel l = some (l.takeWhile cls).length := by
  induction fuel generalizing l with
  | zero => omega
  | succ fuel ih =>
    unfold nameLoop
    split
    · rename_i hw
      obtain ⟨hwl, hw0⟩ := hw
      have hmin := length_takeWhile_take cls l w
      simp only [matchBlock]
      rw [if_neg (by omega)]
      split
      · rename_i hne
        have hne : ((l.take w).takeWhile cls).length ≠ w := by simpa using hne
        congr 1; omega
      · rename_i hne
        have heq : ((l.take w).takeWhile cls).length = w := by simpa using hne
        rw [heq, ih (l.drop w) (by rw [List.length_drop]; omega),
          length_takeWhile_drop cls l w (by omega)]
        simp
    · rfl

/-! ### the three scanners -/

theorem uriKernel_sound (w : Nat) (le : Bool) : KernelSound w (uriKernel w le) isUri := by
  intro block hl
  obtain ⟨n, hn, hnw, h⟩ := rangeKernel_sound w le 0x21 (by decide) block hl
  refine ⟨n, hn, hnw, fun i hi hiw => ?_⟩
  have hcls : ∀ b : Byte, (0x21 : Byte) ≤ b ∧ b ≠ 0x7f → isUri b = true := by
    intro b; simp only [isUri, UInt8.le_iff_toNat_le, ne_eq, ← UInt8.toNat_inj, Bool.or_eq_true,
      Bool.and_eq_true, decide_eq_true_eq]
    intro ⟨h1, h2⟩
    have : (0x21 : UInt8).toNat = 0x21 := rfl
    have : (0x7f : UInt8).toNat = 0x7f := rfl
    have : (0x7e : UInt8).toNat = 0x7e := rfl
    have : (0x80 : UInt8).toNat = 0x80 := rfl
    omega
  exact hcls _ (h i hi hiw)

theorem valueKernel_sound (w : Nat) (le : Bool) : KernelSound w (valueKernel w le) isValue := by
  intro block hl
  obtain ⟨n, hn, hnw, h⟩ := rangeKernel_sound w le 0x20 (by decide) block hl
  refine ⟨n, hn, hnw, fun i hi hiw => ?_⟩
  have hcls : ∀ b : Byte, (0x20 : Byte) ≤ b ∧ b ≠ 0x7f → isValue b = true := by
    intro b; simp only [isValue, UInt8.le_iff_toNat_le, ne_eq, ← UInt8.toNat_inj, Bool.or_eq_true,
      Bool.and_eq_true, decide_eq_true_eq]
    intro ⟨h1, h2⟩
    have : (0x20 : UInt8).toNat = 0x20 := rfl
    have : (0x7f : UInt8).toNat = 0x7f := rfl
    have : (0x7e : UInt8).toNat = 0x7e := rfl
    have : (0x80 : UInt8).toNat = 0x80 := rfl
    omega
  exact hcls _ (h i hi hiw)

/- The hypotheses `hw` below are not needed: soundness of the kernel is proved for every word
width, and both loops fall back to byte-wise scanning when `w = 0`. -/

set_option linter.unusedVariables false in
theorem uriScanner_exact (w : Nat) (hw : w = 8 ∨ w = 4) (le : Bool) :
    Scanner.Exact isUri (uriScanner w le) := fun l =>
  rangeLoop_spec w _ isUri (uriKernel_sound w le) _ l (Nat.lt_succ_self _)

set_option linter.unusedVariables false in
theorem valueScanner_exact (w : Nat) (hw : w = 8 ∨ w = 4) (le : Bool) :
    Scanner.Exact isValue (valueScanner w le) := fun l =>
  rangeLoop_spec w _ isValue (valueKernel_sound w le) _ l (Nat.lt_succ_self _)

set_option linter.unusedVariables false in
theorem nameScanner_exact (w : Nat) (hw : 0 < w) : Scanner.Exact isTchar (nameScanner w) := fun l =>
  nameLoop_spec w isTchar _ l (Nat.lt_succ_self _)

end Hx.Swar
