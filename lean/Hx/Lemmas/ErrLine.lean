/-
  Hx.Lemmas.ErrLine — C10 for one iteration of the header loop: `headerLine` is rejected with kind `e`
  exactly in the situations of `LineErr` (Hx/Spec/ErrSpec.lean).  One error characterisation per piece
  (`invalidLoop`, `handleInvalid`, `nameStage`, `wsAfterColon`, `valueLines`), mirroring the `…_ok_iff`
  lemmas of `Hx.Lemmas.LineGrammar`.
-/
import Hx.Spec.ErrSpec
import Hx.Lemmas.LineGrammar
namespace Hx

/-! ### the monad: Err outcomes -/

theorem bind_err_iff {α β : Type} {f : P α} {g : α → P β} {c : Cur} {e : Error} :
    (f >>= g).run c = .err e ↔
      f.run c = .err e ∨ ∃ a c1, f.run c = .ok (a, c1) ∧ (g a).run c1 = .err e := by
  simp only [run_bind]
  cases h : f.run c with
  | ok p =>
    obtain ⟨a, c1⟩ := p
    constructor
    · intro h2; exact Or.inr ⟨a, c1, rfl, h2⟩
    · rintro (h2 | ⟨a', c1', e', h2⟩)
      · cases h2
      · simp only [Outcome.ok.injEq, Prod.mk.injEq] at e'
        obtain ⟨rfl, rfl⟩ := e'; exact h2
  | part => simp
  | err e' => simp
  | ub u => simp

theorem err_eq_iff {α : Type} {a b : Error} : (Outcome.err a : Outcome α) = .err b ↔ b = a := by
  constructor
  · intro h; cases h; rfl
  · intro h; subst h; rfl

theorem next_no_err (c : Cur) (e : Error) : next.run c ≠ .err e := by
  simp only [next, run_mk]
  cases c.rest <;> simp

theorem pure_no_err {α : Type} (a : α) (c : Cur) (e : Error) : (pure a : P α).run c ≠ .err e := by simp

theorem expect_err_iff {p : Byte → Bool} {e0 e : Error} {s : Nat} {t r : List Byte} :
    (expect p e0).run ⟨s, t, r⟩ = .err e ↔ e = e0 ∧ ∃ x r', r = x :: r' ∧ p x = false := by
  cases r with
  | nil => simp [expect, next]
  | cons x r1 =>
    simp only [expect, next, run_bind]
    cases hx : p x
    · simp [hx]; exact eq_comm
    · simp [hx]

theorem scanNext_no_err {cls : Byte → Bool} {sc : Scanner} (hs : Scanner.Exact cls sc) (c : Cur) (e : Error) :
    (scanNext sc).run c ≠ .err e := by
  rw [SA.scanNext_run hs]
  cases c.rest.dropWhile cls <;> simp

/-! ### `handle_invalid_char!` -/

theorem dropFails_nil : ¬ DropFails [] := by
  rintro ⟨junk, x, rest, h, -, -⟩
  cases junk <;> simp at h

theorem dropFails_cr {rest : List Byte} : DropFails (CR :: rest) ↔ ∃ y r, rest = y :: r ∧ y ≠ LF := by
  constructor
  · rintro ⟨junk, x, rest', h, hj, hx⟩
    cases junk with
    | nil =>
      simp only [List.nil_append, List.cons.injEq] at h
      obtain ⟨rfl, rfl⟩ := h
      rcases hx with hx | ⟨-, hx⟩
      · exact absurd hx CR_ne_NUL
      · exact hx
    | cons j junk =>
      simp only [List.cons_append, List.cons.injEq] at h
      exact absurd h.1.symm (hj j (by simp)).1
  · rintro ⟨y, r, rfl, hy⟩
    exact ⟨[], CR, y :: r, rfl, by simp [NoCtl], Or.inr ⟨rfl, y, r, rfl, hy⟩⟩

theorem dropFails_lf {rest : List Byte} : ¬ DropFails (LF :: rest) := by
  rintro ⟨junk, x, rest', h, hj, hx⟩
  cases junk with
  | nil =>
    simp only [List.nil_append, List.cons.injEq] at h
    obtain ⟨rfl, rfl⟩ := h
    rcases hx with hx | ⟨hx, -⟩
    · exact absurd hx LF_ne_NUL
    · exact absurd hx LF_ne_CR
  | cons j junk =>
    simp only [List.cons_append, List.cons.injEq] at h
    exact absurd h.1.symm (hj j (by simp)).2.1

theorem dropFails_nul {rest : List Byte} : DropFails (NUL :: rest) :=
  ⟨[], NUL, rest, rfl, by simp [NoCtl], Or.inl rfl⟩

theorem dropFails_other {b : Byte} {rest : List Byte} (h1 : b ≠ CR) (h2 : b ≠ LF) (h3 : b ≠ NUL) :
    DropFails (b :: rest) ↔ DropFails rest := by
  constructor
  · rintro ⟨junk, x, rest', h, hj, hx⟩
    cases junk with
    | nil =>
      simp only [List.nil_append, List.cons.injEq] at h
      obtain ⟨rfl, rfl⟩ := h
      rcases hx with hx | ⟨hx, -⟩
      · exact absurd hx h3
      · exact absurd hx h1
    | cons j junk =>
      simp only [List.cons_append, List.cons.injEq] at h
      obtain ⟨rfl, rfl⟩ := h
      exact ⟨junk, x, rest', rfl, fun y hy => hj y (by simp [hy]), hx⟩
  · rintro ⟨junk, x, rest', rfl, hj, hx⟩
    refine ⟨b :: junk, x, rest', rfl, ?_, hx⟩
    intro y hy
    rcases List.mem_cons.mp hy with rfl | hy
    · exact ⟨h1, h2, h3⟩
    · exact hj y hy

theorem invalidLoop_err_iff (e : Error) (start : Nat) : ∀ (rest : List Byte) (b : Byte) (tok : List Byte) (e' : Error),
    invalidLoop e start b tok rest = .err e' ↔ e' = e ∧ DropFails (b :: rest) := by
  intro rest
  induction rest with
  | nil =>
    intro b tok e'
    rw [SA.invalidLoop_unfold]
    by_cases h1 : b = CR
    · subst h1; simp [dropFails_cr]
    · by_cases h2 : b = LF
      · subst h2; simp [LF_ne_CR, dropFails_lf]
      · by_cases h3 : b = NUL
        · subst h3; simp [h1, h2, dropFails_nul]; exact eq_comm
        · simp [h1, h2, h3, dropFails_other h1 h2 h3, dropFails_nil]
  | cons b2 r2 ih =>
    intro b tok e'
    rw [SA.invalidLoop_unfold]
    by_cases h1 : b = CR
    · subst h1
      by_cases h4 : b2 = LF
      · subst h4; simp [dropFails_cr]
      · simp [dropFails_cr, h4]; exact eq_comm
    · by_cases h2 : b = LF
      · subst h2; simp [LF_ne_CR, dropFails_lf]
      · by_cases h3 : b = NUL
        · subst h3; simp [h1, h2, dropFails_nul]; exact eq_comm
        · simp only [beq_byte, h1, h2, h3, if_false]
          rw [ih b2 (tok ++ [b2]) e', dropFails_other h1 h2 h3]

/-- `handle_invalid_char!` at the byte `b` (followed by `rest`) fails: the option is off, or dropping
the line meets NUL or a lone CR -/
def Fails (hc : HCfg) (b : Byte) (rest : List Byte) : Prop := hc.ign = false ∨ DropFails (b :: rest)

theorem handleInvalid_err_iff (hc : HCfg) (e : Error) (b : Byte) (start : Nat) (tok rest : List Byte) (e' : Error) :
    (handleInvalid hc e b).run ⟨start, tok, rest⟩ = .err e' ↔ e' = e ∧ Fails hc b rest := by
  unfold handleInvalid Fails
  cases hi : hc.ign
  · simp; exact eq_comm
  · simp only [Bool.not_true, Bool.false_eq_true, if_false, run_mk, reduceCtorEq, false_or]
    exact invalidLoop_err_iff e start rest b tok e'

theorem handleInvalid_then_err_iff {α : Type} (hc : HCfg) (e : Error) (b : Byte) (x : α) (start : Nat)
    (tok rest : List Byte) (e' : Error) :
    (do handleInvalid hc e b; pure x : P α).run ⟨start, tok, rest⟩ = .err e' ↔ e' = e ∧ Fails hc b rest := by
  rw [bind_err_iff, handleInvalid_err_iff]
  constructor
  · rintro (h | ⟨u, c1, -, h2⟩)
    · exact h
    · simp at h2
  · intro h; exact Or.inl h

theorem LineErr.ofFails {hc : HCfg} {k : Nat} {good : List Byte} {b : Byte} {rest' : List Byte}
    (hfp : FailPoint hc k good b) (hf : Fails hc b rest') : LineErr hc k (good ++ b :: rest') (failKind good) := by
  cases hi : hc.ign
  · exact .strict hi hfp
  · rcases hf with hf | hf
    · rw [hi] at hf; cases hf
    · exact .drop hi hfp rfl hf

/-! ### the header name -/

theorem sanLoop_no_err (start : Nat) (e : Error) : ∀ (rest tok : List Byte), sanLoop start tok rest ≠ .err e := by
  intro rest
  induction rest with
  | nil => intro tok; simp [sanLoop]
  | cons b r ih =>
    intro tok
    rw [sanLoop]
    split
    · simp
    · split
      · exact ih _
      · simp

theorem failKind_nameFail {hc : HCfg} {good : List Byte} {b : Byte} (h : NameFail hc good b) :
    failKind good = .headerName := by
  have hn : ∀ {name : List Byte}, (∀ x ∈ name, isTchar x = true) → COLON ∉ name := by
    intro name htc hm
    have := htc COLON hm
    rw [isTchar_COLON] at this; cases this
  have hw : ∀ {ws : List Byte}, AllWs ws → COLON ∉ ws := by
    intro ws hws hm
    have := hws COLON hm
    rw [isWs_COLON] at this; cases this
  unfold failKind
  cases h with
  | afterName _ htc => simp [hn htc]
  | afterNameWs _ _ htc _ hws => simp [hn htc, hw hws]

theorem nameStage_err_iff {be : Backend} (hbe : be.Exact) (hc : HCfg) (off : Nat) (b0 : Byte)
    (hb0 : isTchar b0 = true) (r : List Byte) (e : Error) :
    (nameStage be hc).run ⟨off, [b0], r⟩ = .err e ↔
      e = .headerName ∧ ∃ good b rest', b0 :: r = good ++ b :: rest' ∧ NameFail hc good b ∧ Fails hc b rest' := by
  constructor
  · intro h
    have h0 := h
    unfold nameStage at h0
    rcases bind_err_iff.mp h0 with h1 | ⟨⟨n, d⟩, c1, h1, -⟩
    · exact absurd h1 (scanNext_no_err hbe.name _ _)
    obtain ⟨l, r', rfl, hl, hd, rfl, rfl⟩ := (scanNext_ok_iff hbe.name).mp h1
    clear h0 h1
    rw [nameStage_run hbe hc off [b0] l d r' hl hd] at h
    have hname : ∀ x ∈ b0 :: l, isTchar x = true := by
      intro x hx; rcases List.mem_cons.mp hx with rfl | hx
      · exact hb0
      · exact hl x hx
    unfold nameTail at h
    by_cases hd1 : d = COLON
    · subst hd1
      simp at h
    · by_cases hsan : hc.san = true ∧ isWs d = true
      · simp only [beq_byte, hd1, if_false, hsan.1, hsan.2, Bool.and_self, if_true] at h
        rcases bind_err_iff.mp h with h2 | ⟨sr, c2, h2, h3⟩
        · rw [run_mk] at h2
          exact absurd h2 (sanLoop_no_err _ _ _ _)
        rw [run_mk] at h2
        obtain ⟨ws, b, r'', rfl, hws, hb, hcase⟩ := (sanLoop_ok_iff _ _ _ _ _).mp h2
        have hws' : AllWs (d :: ws) := by
          intro y hy; rcases List.mem_cons.mp hy with rfl | hy
          · exact hsan.2
          · exact hws y hy
        rcases hcase with ⟨rfl, rfl, rfl⟩ | ⟨hne, rfl, rfl⟩
        · simp at h3
        · simp only at h3
          obtain ⟨rfl, hf⟩ := (handleInvalid_then_err_iff ..).mp h3
          exact ⟨rfl, (b0 :: l) ++ (d :: ws), b, r'', by simp,
            .afterNameWs hsan.1 (by simp) hname (by simp) hws' hne hb, hf⟩
      · have hc2 : (hc.san && isWs d) = false := by
          cases h1 : hc.san <;> cases h2 : isWs d <;> simp_all
        simp only [beq_byte, hd1, if_false, hc2, Bool.false_eq_true] at h
        obtain ⟨rfl, hf⟩ := (handleInvalid_then_err_iff ..).mp h
        exact ⟨rfl, b0 :: l, d, r', by simp, .afterName (by simp) hname hd hd1 hsan, hf⟩
  · rintro ⟨rfl, good, b, rest', heq, hnf, hf⟩
    cases hnf with
    | afterName h1 h2 h3 h4 h5 =>
      cases good with
      | nil => exact absurd rfl h1
      | cons x nm =>
        simp only [List.cons_append, List.cons.injEq] at heq
        obtain ⟨rfl, rfl⟩ := heq
        have hnm : ∀ y ∈ nm, isTchar y = true := fun y hy => h2 y (by simp [hy])
        rw [nameStage_run hbe hc off [b0] nm b rest' hnm h3]
        have hc2 : (hc.san && isWs b) = false := by
          cases h1 : hc.san <;> cases h2 : isWs b <;> simp_all
        simp only [nameTail, beq_byte, h4, if_false, hc2, Bool.false_eq_true]
        exact (handleInvalid_then_err_iff ..).mpr ⟨rfl, hf⟩
    | @afterNameWs name ws₁ b h1 h2 h3 h4 h5 h6 h7 =>
      cases name with
      | nil => exact absurd rfl h2
      | cons x nm =>
        cases ws₁ with
        | nil => exact absurd rfl h4
        | cons w ws =>
          simp only [List.cons_append, List.cons.injEq] at heq
          obtain ⟨rfl, rfl⟩ := heq
          have hnm : ∀ y ∈ nm, isTchar y = true := fun y hy => h3 y (by simp [hy])
          have hw : isWs w = true := h5 w (by simp)
          have e : nm ++ w :: ws ++ b :: rest' = nm ++ w :: (ws ++ b :: rest') := by simp
          rw [e, nameStage_run hbe hc off [b0] nm w _ hnm (ws_facts hw).2.1]
          have hsl := (sanLoop_ok_iff (off + ([b0] ++ nm).length + 1) (ws ++ b :: rest') [] (some b)
            ⟨off + ([b0] ++ nm).length + 1, [] ++ ws ++ [b], rest'⟩).mpr
            ⟨ws, b, rest', rfl, fun y hy => h5 y (by simp [hy]), h7, Or.inr ⟨h6, rfl, rfl⟩⟩
          simp only [nameTail, beq_byte, (ws_facts hw).2.2.2.2.2, if_false, h1, hw, Bool.and_self, if_true]
          refine bind_err_iff.mpr (Or.inr ⟨some b, _, hsl, ?_⟩)
          exact (handleInvalid_then_err_iff ..).mpr ⟨rfl, hf⟩

/-! ### whitespace after the colon -/

/-- the `'whitespace_after_colon` loop is rejected on `rest` -/
def WsErr (hc : HCfg) (rest : List Byte) : Prop :=
  ∃ lead, LeadI hc.fold lead ∧
    ((∃ s, rest = lead ++ s ∧ CrNotLf s) ∨
     ∃ b rest', rest = lead ++ b :: rest' ∧ isValue b = false ∧ b ≠ CR ∧ b ≠ LF ∧ Fails hc b rest')

theorem WsErr.prepend {hc : HCfg} {p r : List Byte} (hp : LeadI hc.fold p) (h : WsErr hc r) : WsErr hc (p ++ r) := by
  obtain ⟨lead, hl, hcase⟩ := h
  refine ⟨p ++ lead, hp.append hl, ?_⟩
  rcases hcase with ⟨s, rfl, hs⟩ | ⟨b, rest', rfl, h1, h2, h3, h4⟩
  · exact Or.inl ⟨s, by simp, hs⟩
  · exact Or.inr ⟨b, rest', by simp, h1, h2, h3, h4⟩

theorem wsAfterColon_err_sound (hc : HCfg) : ∀ (n : Nat) (rest : List Byte), rest.length ≤ n →
    ∀ (start : Nat) (e : Error), wsAfterColon hc start [] rest = .err e → e = .headerValue ∧ WsErr hc rest := by
  intro n
  induction n with
  | zero =>
    intro rest hl start e h
    cases rest with
    | nil => simp [wsAfterColon] at h
    | cons b r => simp at hl
  | succ n ih =>
    intro rest hl start e h
    cases rest with
    | nil => simp [wsAfterColon] at h
    | cons b r =>
      simp only [List.length_cons, Nat.add_le_add_iff_right] at hl
      rw [SA.wsAfterColon_cons] at h
      by_cases hws : isWs b = true
      · simp only [hws, if_true, List.nil_append, List.length_singleton] at h
        obtain ⟨he, hw⟩ := ih r hl _ _ h
        exact ⟨he, WsErr.prepend (p := [b]) (.ws hws .nil) hw⟩
      · have hws' : isWs b = false := by simpa using hws
        simp only [hws', Bool.false_eq_true, if_false] at h
        by_cases hv : isValue b = true
        · simp [hv] at h
        · have hv' : isValue b = false := by simpa using hv
          simp only [hv', Bool.false_eq_true, if_false] at h
          by_cases hcr : b = CR
          · subst hcr
            simp only [beq_self_eq_true, if_true] at h
            cases r with
            | nil => simp at h
            | cons b2 r2 =>
              simp only at h
              by_cases hlf : b2 = LF
              · subst hlf
                simp only [beq_self_eq_true, if_true, List.nil_append] at h
                cases hf : hc.fold
                · simp [hf] at h
                · simp only [hf, if_true] at h
                  cases r2 with
                  | nil => simp at h
                  | cons p r3 =>
                    simp only at h
                    by_cases hp : isWs p = true
                    · simp only [hp, if_true] at h
                      rw [SA.wsAfterColon_cons] at h
                      simp only [hp, if_true] at h
                      have hl3 : r3.length ≤ n := by simp at hl; omega
                      obtain ⟨he, hw⟩ := ih r3 hl3 _ _ h
                      exact ⟨he, WsErr.prepend (p := [CR, LF] ++ [p]) (.fold hf (Or.inl rfl) hp .nil) hw⟩
                    · have hp' : isWs p = false := by simpa using hp
                      simp [hp'] at h
              · simp only [beq_byte, hlf, if_false, err_eq_iff] at h
                exact ⟨h, [], .nil, Or.inl ⟨_, rfl, b2, r2, rfl, hlf⟩⟩
          · simp only [beq_byte, hcr, if_false] at h
            by_cases hlf : b = LF
            · subst hlf
              simp only [if_true, List.nil_append] at h
              cases hf : hc.fold
              · simp [hf] at h
              · simp only [hf, if_true] at h
                cases r with
                | nil => simp at h
                | cons p r3 =>
                  simp only at h
                  by_cases hp : isWs p = true
                  · simp only [hp, if_true] at h
                    rw [SA.wsAfterColon_cons] at h
                    simp only [hp, if_true] at h
                    have hl3 : r3.length ≤ n := by simp at hl; omega
                    obtain ⟨he, hw⟩ := ih r3 hl3 _ _ h
                    exact ⟨he, WsErr.prepend (p := [LF] ++ [p]) (.fold hf (Or.inr rfl) hp .nil) hw⟩
                  · have hp' : isWs p = false := by simpa using hp
                    simp [hp'] at h
            · simp only [hlf, if_false] at h
              cases hrun : (handleInvalid hc .headerValue b).run ⟨start, [] ++ [b], r⟩ with
              | ok p => rw [hrun] at h; simp at h
              | part => rw [hrun] at h; simp at h
              | ub u => rw [hrun] at h; simp at h
              | err e1 =>
                rw [hrun] at h
                simp only [err_eq_iff] at h
                subst h
                obtain ⟨rfl, hf⟩ := (handleInvalid_err_iff ..).mp hrun
                exact ⟨rfl, [], .nil, Or.inr ⟨b, r, rfl, hv', hcr, hlf, hf⟩⟩

theorem wsAfterColon_err_iff (hc : HCfg) (start : Nat) (rest : List Byte) (e : Error) :
    wsAfterColon hc start [] rest = .err e ↔ e = .headerValue ∧ WsErr hc rest := by
  constructor
  · exact wsAfterColon_err_sound hc rest.length rest (Nat.le_refl _) start e
  · rintro ⟨rfl, lead, hl, hcase⟩
    rcases hcase with ⟨s, rfl, x, r, rfl, hx⟩ | ⟨b, rest', rfl, hv, hcr, hlf, hf⟩
    · rw [wsAfterColon_lead hc hl, SA.wsAfterColon_cons]
      simp [isWs_CR, isValue_CR, hx]
    · rw [wsAfterColon_lead hc hl, SA.wsAfterColon_cons]
      have hws : isWs b = false := by
        cases h : isWs b
        · rfl
        · rw [(ws_facts h).1] at hv; cases hv
      have hrun := (handleInvalid_err_iff hc .headerValue b (start + lead.length) ([] ++ [b]) rest' .headerValue).mpr
        ⟨rfl, hf⟩
      simp only [hws, hv, Bool.false_eq_true, if_false, beq_byte, hcr, hlf, hrun]

/-! ### value lines -/

/-- the `'value_lines` loop is rejected on `r` -/
def ValErr (hc : HCfg) (r : List Byte) : Prop :=
  ∃ rest, ValRestI hc.fold rest ∧
    ((∃ s, r = rest ++ s ∧ CrNotLf s) ∨
     ∃ b rest', r = rest ++ b :: rest' ∧ isValue b = false ∧ b ≠ CR ∧ b ≠ LF ∧ Fails hc b rest')

theorem ValErr.prepend {hc : HCfg} {p r : List Byte} (hp : ValRestI hc.fold p) (h : ValErr hc r) :
    ValErr hc (p ++ r) := by
  obtain ⟨rest, hl, hcase⟩ := h
  refine ⟨p ++ rest, hp.append hl, ?_⟩
  rcases hcase with ⟨s, rfl, hs⟩ | ⟨b, rest', rfl, h1, h2, h3, h4⟩
  · exact Or.inl ⟨s, by simp, hs⟩
  · exact Or.inr ⟨b, rest', by simp, h1, h2, h3, h4⟩

theorem ValErr.tail {hc : HCfg} {p : Byte} {r : List Byte} (hp : isWs p = true) (h : ValErr hc (p :: r)) :
    ValErr hc r := by
  obtain ⟨rest, hl, hcase⟩ := h
  cases rest with
  | nil =>
    exfalso
    rcases hcase with ⟨s, h1, x, r', rfl, -⟩ | ⟨b, rest', h1, hv, -, -, -⟩
    · simp only [List.nil_append, List.cons.injEq] at h1
      rw [h1.1] at hp; exact absurd hp (by decide)
    · simp only [List.nil_append, List.cons.injEq] at h1
      rw [← h1.1, (ws_facts hp).1] at hv; cases hv
  | cons x rest'' =>
    have hx : x = p := by
      rcases hcase with ⟨s, h1, -⟩ | ⟨b, rest', h1, -⟩ <;>
        (simp only [List.cons_append, List.cons.injEq] at h1; exact h1.1.symm)
    subst hx
    refine ⟨rest'', ValRestI.tail hp hl, ?_⟩
    rcases hcase with ⟨s, h1, hs⟩ | ⟨b, rest', h1, h2, h3, h4, h5⟩
    · simp only [List.cons_append, List.cons.injEq, true_and] at h1
      exact Or.inl ⟨s, h1, hs⟩
    · simp only [List.cons_append, List.cons.injEq, true_and] at h1
      exact Or.inr ⟨b, rest', h1, h2, h3, h4, h5⟩

/-- the loop re-entered after an obsolete fold -/
theorem ValErr.prepend_fold {hc : HCfg} {l e : List Byte} {p : Byte} {r3 : List Byte}
    (hl : ∀ x ∈ l, isValue x = true) (hf : hc.fold = true) (he : IsEol e) (hp : isWs p = true)
    (h : ValErr hc (p :: r3)) : ValErr hc (l ++ e ++ p :: r3) := by
  have h1 : ValRestI hc.fold (l ++ e ++ [p]) := by
    rw [List.append_assoc]; exact (ValRestI.of_all hl).append (.fold hf he hp .nil)
  have := ValErr.prepend h1 (ValErr.tail hp h)
  simpa using this

theorem valueLines_no_err_scan {be : Backend} (hbe : be.Exact) (c : Cur) (e : Error) :
    (scanNext be.value).run c ≠ .err e := scanNext_no_err hbe.value c e

theorem valueLines_err_sound {be : Backend} (hbe : be.Exact) (hc : HCfg) : ∀ (fuel : Nat) (s : Nat) (t r : List Byte)
    (e : Error), (valueLines be hc fuel).run ⟨s, t, r⟩ = .err e → e = .headerValue ∧ ValErr hc r := by
  intro fuel
  induction fuel with
  | zero => intro s t r e h; simp [valueLines] at h
  | succ fuel ih =>
    intro s t r e h
    have h0 := h
    rw [valueLines] at h0
    rcases bind_err_iff.mp h0 with h1 | ⟨⟨n, b⟩, c1, h1, -⟩
    · exact absurd h1 (scanNext_no_err hbe.value _ _)
    obtain ⟨l, r1, rfl, hl, hb, rfl, rfl⟩ := (scanNext_ok_iff hbe.value).mp h1
    clear h0 h1
    rw [valueLines_run hbe hc fuel s t l b r1 hl hb] at h
    by_cases hcr : b = CR
    · subst hcr
      rw [valTail_cr] at h
      cases r1 with
      | nil => simp at h
      | cons b2 r2 =>
        simp only at h
        by_cases hlf : b2 = LF
        · subst hlf
          simp only [beq_self_eq_true, if_true] at h
          cases hf : hc.fold
          · simp [hf] at h
          · simp only [hf, if_true] at h
            cases r2 with
            | nil => simp at h
            | cons p r3 =>
              simp only at h
              by_cases hp : isWs p = true
              · simp only [hp, if_true] at h
                obtain ⟨he, hv⟩ := ih _ _ _ _ h
                have := ValErr.prepend_fold (e := [CR, LF]) hl hf (Or.inl rfl) hp hv
                exact ⟨he, by simpa using this⟩
              · have hp' : isWs p = false := by simpa using hp
                simp [hp'] at h
        · simp only [beq_byte, hlf, if_false, err_eq_iff] at h
          exact ⟨h, l, .of_all hl, Or.inl ⟨_, rfl, b2, r2, rfl, hlf⟩⟩
    · by_cases hlf : b = LF
      · subst hlf
        rw [valTail_lf] at h
        cases hf : hc.fold
        · simp [hf] at h
        · simp only [hf, if_true] at h
          cases r1 with
          | nil => simp at h
          | cons p r3 =>
            simp only at h
            by_cases hp : isWs p = true
            · simp only [hp, if_true] at h
              obtain ⟨he, hv⟩ := ih _ _ _ _ h
              have := ValErr.prepend_fold (e := [LF]) hl hf (Or.inr rfl) hp hv
              exact ⟨he, by simpa using this⟩
            · have hp' : isWs p = false := by simpa using hp
              simp [hp'] at h
      · rw [valTail_other be hc fuel b hcr hlf] at h
        obtain ⟨rfl, hf⟩ := (handleInvalid_then_err_iff ..).mp h
        exact ⟨rfl, l, .of_all hl, Or.inr ⟨b, r1, rfl, hb, hcr, hlf, hf⟩⟩

theorem valueLines_err_complete {be : Backend} (hbe : be.Exact) (hc : HCfg) : ∀ (fuel : Nat) (s : Nat) (t r : List Byte),
    r.length < fuel → ValErr hc r → (valueLines be hc fuel).run ⟨s, t, r⟩ = .err .headerValue := by
  intro fuel
  induction fuel with
  | zero => intro s t r hlt; omega
  | succ fuel ih =>
    intro s t r hlt h
    obtain ⟨rest, hrest, hcase⟩ := h
    obtain ⟨l, hl, hsplit⟩ := hrest.split
    rcases hsplit with rfl | ⟨e, p, m, hf, he, hp, rfl, hm⟩
    · rcases hcase with ⟨s', rfl, x, r', rfl, hx⟩ | ⟨b, rest', rfl, hv, hcr, hlf, hfl⟩
      · rw [valueLines_run hbe hc fuel s t rest CR _ hl isValue_CR, valTail_cr]
        simp [hx]
      · rw [valueLines_run hbe hc fuel s t rest b _ hl hv, valTail_other be hc fuel b hcr hlf]
        exact (handleInvalid_then_err_iff ..).mpr ⟨rfl, hfl⟩
    · have hv : ValRestI hc.fold (p :: m) := .ch (ws_facts hp).1 hm
      have hrec : ∀ tl : List Byte, r = l ++ e ++ p :: m ++ tl → ValErr hc (p :: (m ++ tl)) := by
        intro tl htl'
        refine ⟨p :: m, hv, ?_⟩
        rcases hcase with ⟨s', h1, hs⟩ | ⟨b, rest', h1, h2, h3, h4, h5⟩
        · left; refine ⟨s', ?_, hs⟩
          have : l ++ e ++ p :: m ++ tl = l ++ e ++ p :: m ++ s' := by rw [← h1]; exact htl'.symm
          simpa using this
        · right; refine ⟨b, rest', ?_, h2, h3, h4, h5⟩
          have : l ++ e ++ p :: m ++ tl = l ++ e ++ p :: m ++ b :: rest' := by rw [← h1]; exact htl'.symm
          simpa using this
      obtain ⟨tl, htl⟩ : ∃ tl, r = l ++ e ++ p :: m ++ tl := by
        rcases hcase with ⟨s', h1, -⟩ | ⟨b, rest', h1, -⟩
        · exact ⟨s', h1⟩
        · exact ⟨b :: rest', h1⟩
      have hve := hrec tl htl
      subst htl
      rcases he with rfl | rfl
      · have e1 : l ++ [CR, LF] ++ p :: m ++ tl = l ++ CR :: (LF :: p :: (m ++ tl)) := by simp
        rw [e1, valueLines_run hbe hc fuel s t l CR _ hl isValue_CR, valTail_cr]
        simp only [beq_self_eq_true, if_true, hf, hp]
        apply ih
        · simp at hlt ⊢; omega
        · exact hve
      · have e1 : l ++ [LF] ++ p :: m ++ tl = l ++ LF :: (p :: (m ++ tl)) := by simp
        rw [e1, valueLines_run hbe hc fuel s t l LF _ hl isValue_LF, valTail_lf]
        simp only [if_true, hf, hp]
        apply ih
        · simp at hlt ⊢; omega
        · exact hve

theorem valueLines_err_iff {be : Backend} (hbe : be.Exact) (hc : HCfg) (fuel : Nat) (s : Nat) (t r : List Byte)
    (e : Error) (hlt : r.length < fuel) :
    (valueLines be hc fuel).run ⟨s, t, r⟩ = .err e ↔ e = .headerValue ∧ ValErr hc r := by
  constructor
  · exact valueLines_err_sound hbe hc fuel s t r e
  · rintro ⟨rfl, h⟩; exact valueLines_err_complete hbe hc fuel s t r hlt h

/-! ### one header line -/

/-- what follows the colon is rejected -/
def AfterColonErr (hc : HCfg) (rest : List Byte) : Prop :=
  WsErr hc rest ∨ ∃ lead v r3, rest = lead ++ v :: r3 ∧ LeadI hc.fold lead ∧ isValue v = true ∧ isWs v = false ∧
    ValErr hc r3

theorem afterNameTail_err_iff {be : Backend} (hbe : be.Exact) (hc : HCfg) (name : Slice) (st : Nat)
    (rest : List Byte) (e : Error) :
    (afterNameTail be hc name).run ⟨st, [], rest⟩ = .err e ↔ e = .headerValue ∧ AfterColonErr hc rest := by
  constructor
  · intro h
    unfold afterNameTail at h
    rcases bind_err_iff.mp h with h1 | ⟨w, c3, h1, h2⟩
    · rw [run_mk] at h1
      obtain ⟨he, hw⟩ := (wsAfterColon_err_iff ..).mp h1
      exact ⟨he, Or.inl hw⟩
    · rw [run_mk] at h1
      have hws := (wsAfterColon_ok_iff _ _ _ _ _).mp h1
      cases hws with
      | @value lead v r3 e1 hlead hv hvw =>
        simp only at h2
        rcases bind_err_iff.mp h2 with h3 | ⟨vres, c4, -, h4⟩
        · rw [run_mk] at h3
          obtain ⟨he, hve⟩ := valueLines_err_sound hbe hc _ _ _ _ _ h3
          exact ⟨he, Or.inr ⟨lead, v, r3, e1, hlead, hv, hvw, hve⟩⟩
        · cases vres <;> simp at h4
      | empty => simp at h2
      | skipped => simp at h2
  · rintro ⟨rfl, hw | ⟨lead, v, r3, rfl, hlead, hv, hvw, hve⟩⟩
    · have h1 := (wsAfterColon_err_iff hc st rest .headerValue).mpr ⟨rfl, hw⟩
      simp only [afterNameTail, run_bind, h1]
    · have hws := (wsAfterColon_ok_iff hc st (lead ++ v :: r3) _ _).mpr
        (WsSpec.value (lead := lead) (v := v) (r := r3) rfl hlead hv hvw)
      have hval := valueLines_err_complete hbe hc (r3.length + 1) (st + lead.length) [v] r3 (Nat.lt_succ_self _) hve
      simp only [afterNameTail, run_bind, hws, hval]

theorem tchar_run_err {be : Backend} (hc : HCfg) (k off : Nat) (b0 : Byte) (r : List Byte) (e : Error)
    (hb0 : isTchar b0 = true) (h : (nameStage be hc).run ⟨off, [b0], r⟩ = .err e) :
    (headerLine be hc k).run ⟨off, [], b0 :: r⟩ = .err e := by
  rw [headerLine_cons, headerRest_tchar be hc k b0 hb0]
  simp only [tcharTail, run_bind, h]

theorem failKind_colon (a l : List Byte) : failKind (a ++ COLON :: l) = .headerValue := by
  simp [failKind]

/-- the model fails at every `FailPoint` at which `handle_invalid_char!` fails -/
theorem headerLine_fail {be : Backend} (hbe : be.Exact) (hc : HCfg) (k off : Nat) {good : List Byte} {b : Byte}
    (rest' : List Byte) (hfp : FailPoint hc k good b) (hf : Fails hc b rest') :
    (headerLine be hc k).run ⟨off, [], good ++ b :: rest'⟩ = .err (failKind good) := by
  cases hfp with
  | lineStart htc hcr hlf hcond =>
    rw [List.nil_append, headerLine_cons]
    have hcond' : (hc.sbf && k == 0 && isWs b) = false := by
      cases h1 : hc.sbf <;> cases h2 : isWs b <;> by_cases h3 : k = 0 <;> simp_all
    simp only [headerRest, beq_byte, hcr, hlf, if_false, htc, Bool.not_false, if_true, hcond',
      Bool.false_eq_true]
    exact (handleInvalid_then_err_iff ..).mpr ⟨rfl, hf⟩
  | afterName hne htc hb hbc hsan =>
    have hnf : NameFail hc good b := .afterName hne htc hb hbc hsan
    rw [failKind_nameFail hnf]
    cases good with
    | nil => exact absurd rfl hne
    | cons b0 nm =>
      have hb0 : isTchar b0 = true := htc b0 (by simp)
      rw [List.cons_append]
      exact tchar_run_err hc k off b0 _ _ hb0
        ((nameStage_err_iff hbe hc off b0 hb0 _ _).mpr ⟨rfl, b0 :: nm, b, rest', by simp, hnf, hf⟩)
  | @afterNameWs name ws₁ _ hsan hne htc hwne hws hbc hbw =>
    have hnf : NameFail hc (name ++ ws₁) b := .afterNameWs hsan hne htc hwne hws hbc hbw
    rw [failKind_nameFail hnf]
    cases name with
    | nil => exact absurd rfl hne
    | cons b0 nm =>
      have hb0 : isTchar b0 = true := htc b0 (by simp)
      have e : b0 :: nm ++ ws₁ ++ b :: rest' = b0 :: (nm ++ ws₁ ++ b :: rest') := by simp
      rw [e]
      exact tchar_run_err hc k off b0 _ _ hb0
        ((nameStage_err_iff hbe hc off b0 hb0 _ _).mpr ⟨rfl, b0 :: nm ++ ws₁, b, rest', by simp, hnf, hf⟩)
  | @afterColon name ws₁ lead _ hnp hlead hb hbcr hblf =>
    have e : name ++ ws₁ ++ COLON :: lead ++ b :: rest' = name ++ ws₁ ++ COLON :: (lead ++ b :: rest') := by simp
    rw [failKind_colon, e, header_prefix_run hbe hc k off hnp]
    exact (afterNameTail_err_iff hbe hc _ _ _ _).mpr
      ⟨rfl, Or.inl ⟨lead, (lead_iff _ _).mp hlead, Or.inr ⟨b, rest', rfl, hb, hbcr, hblf, hf⟩⟩⟩
  | @inValue name ws₁ lead rest v _ hnp hlead hv hvw hrest hb hbcr hblf =>
    have e : name ++ ws₁ ++ COLON :: lead ++ v :: rest ++ b :: rest' =
        name ++ ws₁ ++ COLON :: (lead ++ v :: (rest ++ b :: rest')) := by simp
    have e2 : name ++ ws₁ ++ COLON :: lead ++ v :: rest = name ++ ws₁ ++ COLON :: (lead ++ v :: rest) := by simp
    rw [e2, failKind_colon, ← e2, e, header_prefix_run hbe hc k off hnp]
    exact (afterNameTail_err_iff hbe hc _ _ _ _).mpr
      ⟨rfl, Or.inr ⟨lead, v, rest ++ b :: rest', rfl, (lead_iff _ _).mp hlead, hv, hvw,
        rest, (valRest_iff _ _).mp hrest, Or.inr ⟨b, rest', rfl, hb, hbcr, hblf, hf⟩⟩⟩

theorem headerLine_err_sound {be : Backend} (hbe : be.Exact) (hc : HCfg) (k off : Nat) (input : List Byte)
    (e : Error) (h : (headerLine be hc k).run ⟨off, [], input⟩ = .err e) : LineErr hc k input e := by
  rw [headerLine_eq] at h
  rcases bind_err_iff.mp h with h1 | ⟨b, c1, h1, h2⟩
  · exact absurd h1 (next_no_err _ _)
  obtain ⟨r, rfl, rfl⟩ := next_ok_iff.mp h1
  clear h h1
  simp only [List.nil_append] at h2
  by_cases hcr : b = CR
  · subst hcr
    simp only [headerRest, beq_self_eq_true, if_true] at h2
    rcases bind_err_iff.mp h2 with h3 | ⟨x, c2, -, h4⟩
    · obtain ⟨rfl, x, r', rfl, hx⟩ := expect_err_iff.mp h3
      exact .crNotLf ⟨x, r', rfl, by simpa using hx⟩
    · simp at h4
  by_cases hlf : b = LF
  · subst hlf
    simp [headerRest, LF_ne_CR] at h2
  by_cases htc : isTchar b = true
  · rw [headerRest_tchar be hc k b htc] at h2
    unfold tcharTail at h2
    rcases bind_err_iff.mp h2 with h3 | ⟨nm, c2, h3, h4⟩
    · obtain ⟨rfl, good, b', rest', heq, hnf, hf⟩ := (nameStage_err_iff hbe hc off b htc r e).mp h3
      rw [heq, ← failKind_nameFail hnf]
      exact LineErr.ofFails (hnf.failPoint k) hf
    · rcases (nameStage_ok_iff hbe hc off b htc r nm c2).mp h3 with
        ⟨name, ws₁, after1, heq, hnp, rfl, rfl⟩ | ⟨rfl, -⟩
      · simp only at h4
        obtain ⟨rfl, hac⟩ := (afterNameTail_err_iff hbe hc _ _ _ _).mp h4
        rw [heq]
        rcases hac with ⟨lead, hlead, hcase⟩ | ⟨lead, v, r3, rfl, hlead, hv, hvw, rest, hrest, hcase⟩
        · rcases hcase with ⟨s, rfl, hs⟩ | ⟨b2, rest', rfl, hb2, hb2cr, hb2lf, hf⟩
          · have := LineErr.valueCr (hc := hc) (nStored := k) hnp ((lead_iff _ _).mpr hlead) hs
            simpa using this
          · have hfp : FailPoint hc k (name ++ ws₁ ++ COLON :: lead) b2 :=
              .afterColon hnp ((lead_iff _ _).mpr hlead) hb2 hb2cr hb2lf
            have := LineErr.ofFails hfp hf
            rw [failKind_colon] at this
            simpa using this
        · rcases hcase with ⟨s, rfl, hs⟩ | ⟨b2, rest', rfl, hb2, hb2cr, hb2lf, hf⟩
          · have := LineErr.valueCr' (hc := hc) (nStored := k) hnp ((lead_iff _ _).mpr hlead) hv hvw
              ((valRest_iff _ _).mpr hrest) hs
            simpa using this
          · have hfp : FailPoint hc k (name ++ ws₁ ++ COLON :: lead ++ v :: rest) b2 :=
              .inValue hnp ((lead_iff _ _).mpr hlead) hv hvw ((valRest_iff _ _).mpr hrest) hb2 hb2cr hb2lf
            have := LineErr.ofFails hfp hf
            have e2 : name ++ ws₁ ++ COLON :: lead ++ v :: rest = name ++ ws₁ ++ COLON :: (lead ++ v :: rest) := by
              simp
            rw [e2, failKind_colon, ← e2] at this
            simpa using this
      · simp at h4
  · have htc' : isTchar b = false := by simpa using htc
    simp only [headerRest, beq_byte, hcr, hlf, if_false, htc', Bool.not_false, if_true] at h2
    by_cases hcond : (hc.sbf && k == 0 && isWs b) = true
    · simp [hcond, skipWsRun, slice] at h2
    · simp only [hcond] at h2
      obtain ⟨rfl, hf⟩ := (handleInvalid_then_err_iff ..).mp h2
      have hfp : FailPoint hc k [] b := by
        refine .lineStart htc' hcr hlf ?_
        rintro ⟨h1, h2, h3⟩
        apply hcond; simp [h1, h2, h3]
      have := LineErr.ofFails hfp hf
      simpa [failKind] using this

theorem headerLine_err_complete {be : Backend} (hbe : be.Exact) (hc : HCfg) (k off : Nat) (input : List Byte)
    (e : Error) (h : LineErr hc k input e) : (headerLine be hc k).run ⟨off, [], input⟩ = .err e := by
  cases h with
  | crNotLf hs =>
    obtain ⟨x, r, rfl, hx⟩ := hs
    simp [headerLine_cons, headerRest, expect, next, hx]
  | @strict good r b hign hfp => exact headerLine_fail hbe hc k off r hfp (Or.inl hign)
  | @drop good s b hign hfp hh hd =>
    cases s with
    | nil => cases hh
    | cons x rest' =>
      simp only [List.head?_cons, Option.some.injEq] at hh
      subst hh
      exact headerLine_fail hbe hc k off rest' hfp (Or.inr hd)
  | @valueCr name ws₁ lead s hnp hlead hs =>
    have e : name ++ ws₁ ++ COLON :: lead ++ s = name ++ ws₁ ++ COLON :: (lead ++ s) := by simp
    rw [e, header_prefix_run hbe hc k off hnp]
    exact (afterNameTail_err_iff hbe hc _ _ _ _).mpr
      ⟨rfl, Or.inl ⟨lead, (lead_iff _ _).mp hlead, Or.inl ⟨s, rfl, hs⟩⟩⟩
  | @valueCr' name ws₁ lead rest s v hnp hlead hv hvw hrest hs =>
    have e : name ++ ws₁ ++ COLON :: lead ++ v :: rest ++ s = name ++ ws₁ ++ COLON :: (lead ++ v :: (rest ++ s)) := by
      simp
    rw [e, header_prefix_run hbe hc k off hnp]
    exact (afterNameTail_err_iff hbe hc _ _ _ _).mpr
      ⟨rfl, Or.inr ⟨lead, v, rest ++ s, rfl, (lead_iff _ _).mp hlead, hv, hvw,
        rest, (valRest_iff _ _).mp hrest, Or.inl ⟨s, rfl, hs⟩⟩⟩

/-- C10: one iteration of the header loop is rejected with kind `e` exactly in the situations of `LineErr` -/
theorem headerLine_err_iff (be : Backend) (hbe : be.Exact) (hc : HCfg) (k off : Nat) (input : List Byte) (e : Error) :
    (headerLine be hc k).run ⟨off, [], input⟩ = .err e ↔ LineErr hc k input e :=
  ⟨headerLine_err_sound hbe hc k off input e, headerLine_err_complete hbe hc k off input e⟩

theorem LineErr.ne_tooMany {hc : HCfg} {k : Nat} {s : List Byte} {e : Error} (h : LineErr hc k s e) :
    e ≠ .tooManyHeaders := by
  cases h <;> simp [failKind] <;> split <;> simp

end Hx
