/-
  Hx.Lemmas.NoUB — no `Outcome.ub _` is reachable (C01).

  `Outcome.Sat o post`: the outcome is not `ub`, and on `ok a` the postcondition holds.  Every
  primitive and stage gets a `_sat` lemma (a weakest-precondition style triple); the posts only
  speak about `rest.length` (progress, for the fuel loops) and `tok.length` (for `sliceSkip`).
-/
import Hx.Obs
import Hx.Spec.Chk
import Hx.Lemmas.Basic
namespace Hx

/-! ### outcomes without `ub` -/

/-- not `ub`, and `post` on `ok` -/
def Outcome.Sat {α : Type} (o : Outcome α) (post : α → Prop) : Prop :=
  match o with
  | .ok a => post a
  | .ub _ => False
  | _ => True

@[simp] theorem Sat_ok {α : Type} (a : α) (post : α → Prop) : (Outcome.ok a).Sat post ↔ post a := Iff.rfl
@[simp] theorem Sat_part {α : Type} (post : α → Prop) : (Outcome.part : Outcome α).Sat post ↔ True := Iff.rfl
@[simp] theorem Sat_err {α : Type} (e : Error) (post : α → Prop) : (Outcome.err e : Outcome α).Sat post ↔ True := Iff.rfl
@[simp] theorem Sat_ub {α : Type} (u : UB) (post : α → Prop) : (Outcome.ub u : Outcome α).Sat post ↔ False := Iff.rfl

theorem Outcome.Sat.mono {α : Type} {o : Outcome α} {p q : α → Prop} (h : o.Sat p) (hpq : ∀ a, p a → q a) :
    o.Sat q := by
  cases o <;> simp_all

theorem Outcome.Sat.no_ub {α : Type} {o : Outcome α} {p : α → Prop} (h : o.Sat p) (u : UB) : o ≠ .ub u := by
  intro e; subst e; simp at h

theorem Outcome.Sat.triv {α : Type} {o : Outcome α} {p : α → Prop} (h : o.Sat p) : o.Sat fun _ => True :=
  h.mono fun _ _ => trivial

theorem Sat_bind {α β : Type} {f : P α} {g : α → P β} {c : Cur} {mid : α × Cur → Prop}
    {post : β × Cur → Prop} (hf : (f.run c).Sat mid)
    (hg : ∀ a c', mid (a, c') → ((g a).run c').Sat post) : ((f >>= g).run c).Sat post := by
  simp only [run_bind]
  cases h : f.run c with
  | ok r => obtain ⟨a, c'⟩ := r; rw [h] at hf; exact hg a c' hf
  | part => simp
  | err e => simp
  | ub u => rw [h] at hf; simp at hf

/-! ### primitives -/

theorem next_sat (c : Cur) :
    (next.run c).Sat fun r => r.2.rest.length + 1 = c.rest.length ∧ r.2.tok.length = c.tok.length + 1 := by
  obtain ⟨s, t, r⟩ := c
  cases r <;> simp [next]

theorem expect_sat (p : Byte → Bool) (e : Error) (c : Cur) :
    ((expect p e).run c).Sat fun r => r.2.rest.length + 1 = c.rest.length ∧ r.2.tok.length = c.tok.length + 1 := by
  unfold expect
  refine Sat_bind (next_sat c) ?_
  intro b c' h
  cases p b <;> simp at h ⊢ <;> exact h

theorem slice_sat (c : Cur) : (slice.run c).Sat fun r => r.2.rest.length = c.rest.length := by
  simp [slice]

theorem sliceSkip_sat (k : Nat) (c : Cur) (h : k ≤ c.tok.length) :
    ((sliceSkip k).run c).Sat fun r => r.2.rest.length = c.rest.length := by
  simp [sliceSkip, h]

theorem advance_sat (n : Nat) (c : Cur) (h : n ≤ c.rest.length) :
    ((advance n).run c).Sat fun r => r.2.rest.length + n = c.rest.length ∧ r.2.tok.length = c.tok.length + n := by
  simp [advance, h]

theorem peekAhead_sat (n : Nat) (c : Cur) (h : n ≤ c.rest.length) :
    ((peekAhead n).run c).Sat fun r => r.2 = c ∧ r.1 = c.rest[n]? := by
  simp [peekAhead, h]

theorem length_takeWhile_le' (p : Byte → Bool) (l : List Byte) : (l.takeWhile p).length ≤ l.length := by
  induction l with
  | nil => simp
  | cons a l ih => simp only [List.takeWhile_cons]; split <;> simp <;> omega

theorem scan_sat {cls : Byte → Bool} {s : Scanner} (hs : Scanner.Exact cls s) (c : Cur) :
    ((scan s).run c).Sat fun r => r.2.rest.length ≤ c.rest.length ∧ c.tok.length ≤ r.2.tok.length := by
  simp only [scan, run_mk, hs c.rest]
  have := length_takeWhile_le' cls c.rest
  simp [this]

theorem scanNext_sat {cls : Byte → Bool} {s : Scanner} (hs : Scanner.Exact cls s) (c : Cur) :
    ((scanNext s).run c).Sat fun r => r.2.rest.length + 1 ≤ c.rest.length ∧ c.tok.length + 1 ≤ r.2.tok.length := by
  unfold scanNext
  refine Sat_bind (scan_sat hs c) ?_
  intro n c1 h1
  refine Sat_bind (next_sat c1) ?_
  intro b c2 h2
  simp only [run_pure, Sat_ok] at h1 h2 ⊢
  omega

theorem space_sat (e : Error) (c : Cur) : ((space e).run c).Sat fun _ => True := by
  unfold space
  refine Sat_bind (expect_sat _ _ c) ?_
  intro _ c1 _
  refine Sat_bind (slice_sat c1) ?_
  intro _ _ _
  simp

theorem newline_sat (c : Cur) : (newline.run c).Sat fun _ => True := by
  unfold newline
  refine Sat_bind (next_sat c) ?_
  intro b c1 _
  split
  · refine Sat_bind (expect_sat _ _ c1) ?_
    intro _ c2 _
    refine Sat_bind (slice_sat c2) ?_
    intro _ _ _; simp
  · split
    · refine Sat_bind (slice_sat c1) ?_
      intro _ _ _; simp
    · simp

/-! ### start line -/

theorem skipEmptyLinesGo_sat (start : Nat) (tok rest : List Byte) :
    (skipEmptyLinesGo start tok rest).Sat fun _ => True := by
  fun_induction skipEmptyLinesGo start tok rest <;> simp_all

theorem skipEmptyLines_sat (c : Cur) : (skipEmptyLines.run c).Sat fun _ => True :=
  skipEmptyLinesGo_sat _ _ _

theorem skipSpacesGo_sat (start : Nat) (tok rest : List Byte) :
    (skipSpacesGo start tok rest).Sat fun _ => True := by
  fun_induction skipSpacesGo start tok rest <;> simp_all

theorem optSkipSpaces_sat (on : Bool) (c : Cur) : ((optSkipSpaces on).run c).Sat fun _ => True := by
  cases on
  · simp [optSkipSpaces]
  · exact skipSpacesGo_sat _ _ _

theorem peekN_some {c : Cur} {n : Nat} {l : List Byte} (h : c.peekN n = some l) : n ≤ c.rest.length := by
  unfold Cur.peekN at h
  split at h
  · assumption
  · simp at h

theorem parseVersion_sat (c : Cur) : (parseVersion.run c).Sat fun _ => True := by
  simp only [parseVersion, run_mk]
  split
  · rename_i eight h
    refine Sat_bind (advance_sat 8 c (peekN_some h)) ?_
    intro _ _ _
    split
    · simp
    · split <;> simp
  · refine Sat_bind (expect_sat _ _ _) ?_; intro _ _ _
    refine Sat_bind (expect_sat _ _ _) ?_; intro _ _ _
    refine Sat_bind (expect_sat _ _ _) ?_; intro _ _ _
    refine Sat_bind (expect_sat _ _ _) ?_; intro _ _ _
    refine Sat_bind (expect_sat _ _ _) ?_; intro _ _ _
    refine Sat_bind (expect_sat _ _ _) ?_; intro _ _ _
    refine Sat_bind (expect_sat _ _ _) ?_; intro _ _ _
    simp

theorem tokenLoop_sat (start : Nat) (tok rest : List Byte) :
    (tokenLoop start tok rest).Sat fun _ => True := by
  fun_induction tokenLoop start tok rest
  · simp
  · exact (sliceSkip_sat 1 _ (by simp)).triv
  · simp
  · assumption

theorem parseToken_sat (c : Cur) : (parseToken.run c).Sat fun _ => True := by
  unfold parseToken
  refine Sat_bind (next_sat c) ?_
  intro b c1 _
  split
  · simp
  · exact tokenLoop_sat _ _ _

theorem advance_sliceSkip_sat (n : Nat) (c : Cur) (h : n ≤ c.rest.length) (hn : 1 ≤ n) :
    ((do advance n; sliceSkip 1 : P Slice).run c).Sat fun _ => True := by
  refine Sat_bind (advance_sat n c h) ?_
  intro _ c1 h1
  exact (sliceSkip_sat 1 c1 (by simp only at h1; omega)).triv

theorem parseMethod_sat (c : Cur) : (parseMethod.run c).Sat fun _ => True := by
  simp only [parseMethod, run_mk]
  split
  · rename_i four h
    have h4 := peekN_some h
    split
    · exact advance_sliceSkip_sat 4 c h4 (by omega)
    · split
      · have hp := peekAhead_sat 4 c h4
        split
        · rename_i pb c1 hrun
          rw [hrun] at hp
          simp only [Sat_ok] at hp
          split
          · rename_i hsp
            refine advance_sliceSkip_sat 5 c ?_ (by omega)
            obtain ⟨_, hpb⟩ := hp
            rw [hpb] at hsp
            have : 4 < c.rest.length := by
              apply Decidable.byContradiction
              intro hlt
              rw [List.getElem?_eq_none (by omega)] at hsp
              simp at hsp
            omega
          · exact parseToken_sat c
        · simp
        · simp
        · rename_i u hrun
          rw [hrun] at hp; simp at hp
      · exact parseToken_sat c
  · exact parseToken_sat c

theorem parseUri_sat {be : Backend} (hbe : be.Exact) (c : Cur) : ((parseUri be).run c).Sat fun _ => True := by
  unfold parseUri
  refine Sat_bind (scanNext_sat hbe.uri c) ?_
  rintro ⟨n, b⟩ c1 h1
  simp only at h1 ⊢
  split
  · split
    · simp
    · refine Sat_bind (sliceSkip_sat 1 c1 (by omega)) ?_
      intro s _ _
      split <;> simp
  · simp

theorem parseCode_sat (c : Cur) : (parseCode.run c).Sat fun _ => True := by
  unfold parseCode
  refine Sat_bind (expect_sat _ _ _) ?_; intro _ _ _
  refine Sat_bind (expect_sat _ _ _) ?_; intro _ _ _
  refine Sat_bind (expect_sat _ _ _) ?_; intro _ _ _
  simp

theorem reasonFinish_sat (seen : Bool) (k : Nat) (c : Cur) (h : k ≤ c.tok.length) :
    ((reasonFinish seen k).run c).Sat fun _ => True := by
  unfold reasonFinish
  refine Sat_bind (sliceSkip_sat k c h) ?_
  intro _ _ _
  split <;> simp

theorem reasonLoop_sat (start : Nat) (seen : Bool) (tok rest : List Byte) :
    (reasonLoop start seen tok rest).Sat fun _ => True := by
  fun_induction reasonLoop start seen tok rest
  · simp
  · simp
  · exact reasonFinish_sat _ _ _ (by simp)
  · simp
  · exact reasonFinish_sat _ _ _ (by simp)
  · simp
  · assumption

theorem parseReason_sat (c : Cur) : (parseReason.run c).Sat fun _ => True :=
  reasonLoop_sat _ _ _ _

theorem reasonBranch_sat (multi : Bool) (c : Cur) : ((reasonBranch multi).run c).Sat fun _ => True := by
  unfold reasonBranch
  refine Sat_bind (next_sat c) ?_
  intro b c1 _
  split
  · refine Sat_bind (optSkipSpaces_sat multi c1) ?_; intro _ c2 _
    refine Sat_bind (slice_sat c2) ?_; intro _ c3 _
    exact parseReason_sat c3
  · split
    · refine Sat_bind (expect_sat _ _ _) ?_; intro _ c2 _
      refine Sat_bind (slice_sat c2) ?_; intro _ c3 _
      simp
    · split
      · refine Sat_bind (slice_sat c1) ?_; intro _ c3 _
        simp
      · simp

/-! ### header block: one line -/

theorem invalidLoop_sat (e : Error) (start : Nat) (b : Byte) (tok rest : List Byte) :
    (invalidLoop e start b tok rest).Sat fun r => r.2.rest.length ≤ rest.length := by
  fun_induction invalidLoop e start b tok rest
  all_goals first
    | (simp; done)
    | (simp; omega)
    | (refine Outcome.Sat.mono ‹_› ?_; intro r hr; simp only [List.length_cons] at hr ⊢; omega)

theorem handleInvalid_sat (hc : HCfg) (e : Error) (b : Byte) (c : Cur) :
    ((handleInvalid hc e b).run c).Sat fun r => r.2.rest.length ≤ c.rest.length := by
  unfold handleInvalid
  split
  · simp
  · exact invalidLoop_sat _ _ _ _ _

theorem handleInvalid_then_sat {α : Type} (hc : HCfg) (e : Error) (b : Byte) (a : α) (c : Cur) :
    ((do handleInvalid hc e b; pure a : P α).run c).Sat fun r => r.2.rest.length ≤ c.rest.length := by
  refine Sat_bind (handleInvalid_sat hc e b c) ?_
  intro _ c1 h1
  simpa using h1

theorem sanLoop_sat (start : Nat) (tok rest : List Byte) :
    (sanLoop start tok rest).Sat fun r => r.2.rest.length ≤ rest.length := by
  fun_induction sanLoop start tok rest
  all_goals first
    | (simp; done)
    | (simp; omega)
    | (refine Outcome.Sat.mono ‹_› ?_; intro r hr; simp only [List.length_cons] at hr ⊢; omega)

theorem nameStage_sat {be : Backend} (hbe : be.Exact) (hc : HCfg) (c : Cur) :
    ((nameStage be hc).run c).Sat fun r => r.2.rest.length ≤ c.rest.length := by
  unfold nameStage
  refine Sat_bind (scanNext_sat hbe.name c) ?_
  rintro ⟨n, b⟩ c1 h1
  simp only at h1 ⊢
  refine Sat_bind (sliceSkip_sat 1 c1 (by omega)) ?_
  intro name c2 h2
  simp only at h2
  split
  · simp; omega
  · split
    · refine Sat_bind (sanLoop_sat c2.start c2.tok c2.rest) ?_
      intro r c3 h3
      simp only at h3 ⊢
      cases r with
      | none => simp; omega
      | some b' => exact (handleInvalid_then_sat hc _ b' none c3).mono fun r hr => by omega
    · exact (handleInvalid_then_sat hc _ b none c2).mono fun r hr => by omega

theorem wsAfterColon_sat (hc : HCfg) (start : Nat) (tok rest : List Byte) :
    (wsAfterColon hc start tok rest).Sat fun r => r.2.rest.length ≤ rest.length := by
  fun_induction wsAfterColon hc start tok rest
  all_goals first
    | (simp; done)
    | (simp; omega)
    | (refine Outcome.Sat.mono ‹_› ?_; intro r hr; simp only [List.length_cons] at hr ⊢; omega)
    | skip
  · rename_i start tok b r _ _ _ _ _ c hrun
    have hh := handleInvalid_sat hc .headerValue b ⟨start, tok ++ [b], r⟩
    rw [hrun] at hh
    simp at hh ⊢
    omega
  · rename_i start tok b r _ _ _ _ u hrun
    have hh := handleInvalid_sat hc .headerValue b ⟨start, tok ++ [b], r⟩
    rw [hrun] at hh
    simp at hh

theorem sliceSkip_some_sat (k n : Nat) (c : Cur) (h : k ≤ c.tok.length) (hle : c.rest.length ≤ n) :
    ((do let s ← sliceSkip k; pure (some s) : P (Option Slice)).run c).Sat fun r => r.2.rest.length ≤ n := by
  refine Sat_bind (sliceSkip_sat k c h) ?_
  intro s c1 h1
  simp only [run_pure, Sat_ok] at h1 ⊢
  omega

theorem valueLines_sat {be : Backend} (hbe : be.Exact) (hc : HCfg) :
    ∀ (fuel : Nat) (c : Cur), c.rest.length < fuel →
      ((valueLines be hc fuel).run c).Sat fun r => r.2.rest.length ≤ c.rest.length := by
  intro fuel
  induction fuel with
  | zero => intro c h; omega
  | succ fuel ih =>
    intro c hlt
    rw [valueLines]
    refine Sat_bind (scanNext_sat hbe.value c) ?_
    rintro ⟨n, b⟩ c1 h1
    simp only at h1 ⊢
    split
    · refine Sat_bind (expect_sat _ _ c1) ?_
      intro _ c2 h2
      simp only at h2
      split
      · simp only
        split
        · simp
        · split
          · exact (ih c2 (by omega)).mono fun r hr => by omega
          · exact sliceSkip_some_sat 2 _ c2 (by omega) (by omega)
      · exact sliceSkip_some_sat 2 _ c2 (by omega) (by omega)
    · split
      · split
        · simp only
          split
          · simp
          · split
            · exact (ih c1 (by omega)).mono fun r hr => by omega
            · exact sliceSkip_some_sat 1 _ c1 (by omega) (by omega)
        · exact sliceSkip_some_sat 1 _ c1 (by omega) (by omega)
      · exact (handleInvalid_then_sat hc _ b none c1).mono fun r hr => by omega

theorem length_dropWhile_le' (p : Byte → Bool) (l : List Byte) : (l.dropWhile p).length ≤ l.length := by
  induction l with
  | nil => simp
  | cons a l ih => simp only [List.dropWhile_cons]; split <;> simp <;> omega

theorem headerLine_sat {be : Backend} (hbe : be.Exact) (hc : HCfg) (n : Nat) (c : Cur) :
    ((headerLine be hc n).run c).Sat fun r => r.2.rest.length < c.rest.length := by
  unfold headerLine
  refine Sat_bind (next_sat c) ?_
  intro b c1 h1
  simp only at h1 ⊢
  split
  · refine Sat_bind (expect_sat _ _ c1) ?_
    intro _ c2 h2
    simp only [run_pure, Sat_ok] at h2 ⊢
    omega
  · split
    · simp only [run_pure, Sat_ok]; omega
    · split
      · split
        · simp only [skipWsRun, slice, run_bind, run_pure, Sat_ok]
          have := length_dropWhile_le' isWs c1.rest
          omega
        · exact (handleInvalid_then_sat hc _ b Line.skipped c1).mono fun r hr => by omega
      · refine Sat_bind (nameStage_sat hbe hc c1) ?_
        intro nm c2 h2
        simp only at h2 ⊢
        cases nm with
        | none => simp only [run_pure, Sat_ok]; omega
        | some name =>
          simp only
          refine Sat_bind (wsAfterColon_sat hc c2.start c2.tok c2.rest) ?_
          intro w c3 h3
          simp only at h3 ⊢
          cases w with
          | skipped => simp only [run_pure, Sat_ok]; omega
          | empty v => simp only [run_pure, Sat_ok]; omega
          | value =>
            simp only
            refine Sat_bind (valueLines_sat hbe hc (c3.rest.length + 1) c3 (by omega)) ?_
            intro v c4 h4
            simp only at h4 ⊢
            cases v <;> (simp only [run_pure, Sat_ok]; omega)


/-! ### header block: the loop -/

theorem headersLoop_no_ub {be : Backend} (hbe : be.Exact) (hc : HCfg) (cap : Nat) :
    ∀ (fuel : Nat) (c : Cur) (hs : List Hdr), c.rest.length < fuel → ∀ u,
      (headersLoop be hc cap fuel c hs).1 ≠ .ub u := by
  intro fuel
  induction fuel with
  | zero => intro c hs h; omega
  | succ fuel ih =>
    intro c hs hlt u
    have hl := headerLine_sat hbe hc hs.length c
    rw [headersLoop]
    split
    · simp
    · rename_i c' hrun
      rw [hrun] at hl; simp only [Sat_ok] at hl
      exact ih c' hs (by omega) u
    · rename_i n v c' hrun
      rw [hrun] at hl; simp only [Sat_ok] at hl
      split
      · exact ih c' _ (by omega) u
      · simp
    · simp
    · simp
    · rename_i u' hrun
      rw [hrun] at hl; simp at hl

theorem headersLoop_hdrs_le (be : Backend) (hc : HCfg) (cap : Nat) :
    ∀ (fuel : Nat) (c : Cur) (hs : List Hdr), hs.length ≤ cap →
      (headersLoop be hc cap fuel c hs).2.length ≤ cap := by
  intro fuel
  induction fuel with
  | zero => intro c hs h; simpa [headersLoop] using h
  | succ fuel ih =>
    intro c hs hle
    rw [headersLoop]
    split
    · exact hle
    · exact ih _ _ hle
    · split
      · exact ih _ _ (by simp; omega)
      · exact hle
    · exact hle
    · exact hle
    · exact hle

theorem parseHeadersIter_no_ub {be : Backend} (hbe : be.Exact) (hc : HCfg) (cap : Nat) (c : Cur) (u : UB) :
    (parseHeadersIter be hc cap c).1 ≠ .ub u := by
  have h := headersLoop_no_ub hbe hc cap (c.rest.length + 1) c [] (by omega)
  unfold parseHeadersIter
  split
  · simp
  · simp
  · simp
  · rename_i u' hs heq
    have := h u'
    rw [heq] at this
    simp at this

theorem parseHeadersIter_hdrs_le (be : Backend) (hc : HCfg) (cap : Nat) (c : Cur) :
    (parseHeadersIter be hc cap c).2.length ≤ cap := by
  have h := headersLoop_hdrs_le be hc cap (c.rest.length + 1) c [] (by simp)
  unfold parseHeadersIter
  split <;> (rename_i heq; rw [heq] at h; exact h)

theorem parseHeaders_no_ub (be : Backend) (hbe : be.Exact) (cap : Nat) (buf : List Byte) (u : UB) :
    (parseHeaders be cap buf).1 ≠ .ub u := by
  have h := parseHeadersIter_no_ub hbe HCfg.default cap (Cur.new buf)
  unfold parseHeaders
  split
  · simp
  · simp
  · simp
  · rename_i u' hs heq
    have := h u'
    rw [heq] at this
    simp at this

theorem parseHeaders_hdrs_le (be : Backend) (cap : Nat) (buf : List Byte) :
    (parseHeaders be cap buf).2.length ≤ cap := by
  have h := parseHeadersIter_hdrs_le be HCfg.default cap (Cur.new buf)
  unfold parseHeaders
  split <;> (rename_i heq; rw [heq] at h; exact h)

theorem finishHeaders_no_ub {V : Type} {be : Backend} (hbe : be.Exact) (hc : HCfg) (cap : Nat) (buf : List Byte)
    (c : Cur) (v : V) (u : UB) : (finishHeaders be hc cap buf c v).status ≠ .ub u := by
  have h := parseHeadersIter_no_ub hbe hc cap c
  unfold finishHeaders
  simp only
  split
  · simp
  · simp
  · simp
  · rename_i u' hs heq
    have := h u'
    rw [heq] at this
    simp at this

theorem finishHeaders_hdrs_le {V : Type} (be : Backend) (hc : HCfg) (cap : Nat) (buf : List Byte)
    (c : Cur) (v : V) : (finishHeaders be hc cap buf c v).hdrs.length ≤ cap := by
  have h := parseHeadersIter_hdrs_le be hc cap c
  unfold finishHeaders
  simp only
  split <;> (rename_i heq; rw [heq] at h; exact h)

/-! ### entry points -/

theorem step_no_ub {α V : Type} {o : Outcome (α × Cur)} {v : V} {k : α → Cur → Res V} {u : UB}
    (ho : o.Sat fun _ => True) (hk : ∀ a c, (k a c).status ≠ .ub u) : (step o v k).status ≠ .ub u := by
  unfold step
  split
  · exact hk _ _
  · simp
  · simp
  · simp at ho

theorem step_hdrs_le {α V : Type} {o : Outcome (α × Cur)} {v : V} {k : α → Cur → Res V} {cap : Nat}
    (hk : ∀ a c, (k a c).hdrs.length ≤ cap) : (step o v k).hdrs.length ≤ cap := by
  unfold step
  split
  · exact hk _ _
  · simp
  · simp
  · simp

theorem reqCore_no_ub (be : Backend) (hbe : be.Exact) (cfg : Config) (cap : Nat) (buf : List Byte)
    (v : ReqVal) (u : UB) : (reqCore be cfg cap buf v).status ≠ .ub u := by
  unfold reqCore
  refine step_no_ub (skipEmptyLines_sat _) fun _ c => ?_
  refine step_no_ub (parseMethod_sat _) fun _ c => ?_
  refine step_no_ub (optSkipSpaces_sat _ _) fun _ c => ?_
  refine step_no_ub (parseUri_sat hbe _) fun _ c => ?_
  refine step_no_ub (optSkipSpaces_sat _ _) fun _ c => ?_
  refine step_no_ub (parseVersion_sat _) fun _ c => ?_
  refine step_no_ub (newline_sat _) fun _ c => ?_
  exact finishHeaders_no_ub hbe _ _ _ _ _ _

theorem respCore_no_ub (be : Backend) (hbe : be.Exact) (cfg : Config) (cap : Nat) (buf : List Byte)
    (v : RespVal) (u : UB) : (respCore be cfg cap buf v).status ≠ .ub u := by
  unfold respCore
  refine step_no_ub (skipEmptyLines_sat _) fun _ c => ?_
  refine step_no_ub (parseVersion_sat _) fun _ c => ?_
  refine step_no_ub (space_sat _ _) fun _ c => ?_
  refine step_no_ub (optSkipSpaces_sat _ _) fun _ c => ?_
  refine step_no_ub (parseCode_sat _) fun _ c => ?_
  refine step_no_ub (reasonBranch_sat _ _) fun _ c => ?_
  exact finishHeaders_no_ub hbe _ _ _ _ _ _

theorem reqCore_hdrs_le (be : Backend) (cfg : Config) (cap : Nat) (buf : List Byte) (v : ReqVal) :
    (reqCore be cfg cap buf v).hdrs.length ≤ cap := by
  unfold reqCore
  refine step_hdrs_le fun _ c => ?_
  refine step_hdrs_le fun _ c => ?_
  refine step_hdrs_le fun _ c => ?_
  refine step_hdrs_le fun _ c => ?_
  refine step_hdrs_le fun _ c => ?_
  refine step_hdrs_le fun _ c => ?_
  refine step_hdrs_le fun _ c => ?_
  exact finishHeaders_hdrs_le _ _ _ _ _ _

theorem respCore_hdrs_le (be : Backend) (cfg : Config) (cap : Nat) (buf : List Byte) (v : RespVal) :
    (respCore be cfg cap buf v).hdrs.length ≤ cap := by
  unfold respCore
  refine step_hdrs_le fun _ c => ?_
  refine step_hdrs_le fun _ c => ?_
  refine step_hdrs_le fun _ c => ?_
  refine step_hdrs_le fun _ c => ?_
  refine step_hdrs_le fun _ c => ?_
  refine step_hdrs_le fun _ c => ?_
  exact finishHeaders_hdrs_le _ _ _ _ _ _


/-! ### the judge's predicate -/

theorem ofOutcome_ne_crash {o : Outcome Nat} (h : ∀ u, o ≠ .ub u) : St.ofOutcome o ≠ .crash := by
  cases o with
  | ub u => exact absurd rfl (h u)
  | _ => simp [St.ofOutcome]

theorem callInit_status {V : Type} (core : Nat → V → Res V) (h : Handle V) (arr : Arr) :
    (callInit core h arr).status = (core h.viewLen h.val).status := by
  unfold callInit
  simp only
  split
  · rename_i heq; rw [heq]
  · rfl

theorem chkC01_reqObs (be : Backend) (hbe : be.Exact) (cfg : Config) (cap : Nat) (buf : List Byte) :
    chkC01 (reqObs be cfg cap buf) = true := by
  simp only [chkC01, reqObs, Obs.ofCall, callInit_status, bne_iff_ne, ne_eq]
  exact ofOutcome_ne_crash (reqCore_no_ub be hbe cfg cap buf _)

theorem chkC01_respObs (be : Backend) (hbe : be.Exact) (cfg : Config) (cap : Nat) (buf : List Byte) :
    chkC01 (respObs be cfg cap buf) = true := by
  simp only [chkC01, respObs, Obs.ofCall, callInit_status, bne_iff_ne, ne_eq]
  exact ofOutcome_ne_crash (respCore_no_ub be hbe cfg cap buf _)

theorem chkC01_hdrsObs (be : Backend) (hbe : be.Exact) (cap : Nat) (buf : List Byte) :
    chkC01 (hdrsObs be cap buf) = true := by
  simp only [chkC01, hdrsObs, bne_iff_ne, ne_eq]
  exact ofOutcome_ne_crash (parseHeaders_no_ub be hbe cap buf)

/-! ### chunk size -/

theorem digit_le (b : Byte) (h : isDigit b = true) : b.toNat - 0x30 ≤ 15 := by
  have := allBytesB_spec (f := fun b => !isDigit b || decide (b.toNat - 0x30 ≤ 15)) (by decide +kernel) b
  simpa [h] using this

theorem lower_le (b : Byte) (h : (0x61 ≤ b && b ≤ 0x66) = true) : b.toNat + 10 - 0x61 ≤ 15 := by
  have := allBytesB_spec (f := fun b => !(0x61 ≤ b && b ≤ 0x66) || decide (b.toNat + 10 - 0x61 ≤ 15))
    (by decide +kernel) b
  simpa [h] using this

theorem upper_le (b : Byte) (h : (0x41 ≤ b && b ≤ 0x46) = true) : b.toNat + 10 - 0x41 ≤ 15 := by
  have := allBytesB_spec (f := fun b => !(0x41 ≤ b && b ≤ 0x46) || decide (b.toNat + 10 - 0x41 ≤ 15))
    (by decide +kernel) b
  simpa [h] using this

theorem chunkDigit_sat (dbg : Bool) (count size d : Nat) (hs : size < 16 ^ count) (hd : d ≤ 15) :
    (chunkDigit dbg count size d).Sat fun r => r.2 < 16 ^ r.1 := by
  by_cases hc : count > 15
  · simp [chunkDigit, hc]
  · have hpow : 16 ^ count ≤ 16 ^ 15 := Nat.pow_le_pow_right (by omega) (by omega)
    have hsucc : 16 ^ (count + 1) = 16 ^ count * 16 := Nat.pow_succ ..
    have h15 : (16 : Nat) ^ 15 = 1152921504606846976 := by decide
    have h1 : ¬ (size * 16 + d > U64_MAX) := by simp only [U64_MAX]; omega
    have h2 : size * 16 + d < 16 ^ (count + 1) := by omega
    simp only [chunkDigit, hc, h1, if_false]
    cases (dbg && decide (size > U64_MAX / 16)) <;> simp [h2]

theorem chunkDigit_ok {dbg : Bool} {count size d c' s' : Nat} (h : chunkDigit dbg count size d = .ok (c', s'))
    (hs : size < 16 ^ count) (hd : d ≤ 15) : s' < 16 ^ c' := by
  have := chunkDigit_sat dbg count size d hs hd
  rw [h] at this; exact this

theorem chunkDigit_ub {dbg : Bool} {count size d : Nat} {u : UB} (h : chunkDigit dbg count size d = .ub u)
    (hs : size < 16 ^ count) (hd : d ≤ 15) : False := by
  have := chunkDigit_sat dbg count size d hs hd
  rw [h] at this; exact this

theorem and_left {a b : Bool} (h : (a && b) = true) : a = true := by
  cases a <;> simp_all

theorem chunkLoop_sat (dbg : Bool) (pos size count : Nat) (inSize inExt : Bool) (l : List Byte)
    (hs : size < 16 ^ count) : (chunkLoop dbg pos size count inSize inExt l).Sat fun _ => True := by
  fun_induction chunkLoop dbg pos size count inSize inExt l
  case case1 => simp
  case case2 hcond _ _ hrun ih => exact ih (chunkDigit_ok hrun hs (digit_le _ (and_left hcond)))
  case case5 hcond _ hrun => exact (chunkDigit_ub hrun hs (digit_le _ (and_left hcond))).elim
  case case6 hcond _ _ hrun ih => exact ih (chunkDigit_ok hrun hs (lower_le _ (and_left hcond)))
  case case9 hcond _ hrun => exact (chunkDigit_ub hrun hs (lower_le _ (and_left hcond))).elim
  case case10 hcond _ _ hrun ih => exact ih (chunkDigit_ok hrun hs (upper_le _ (and_left hcond)))
  case case13 hcond _ hrun => exact (chunkDigit_ub hrun hs (upper_le _ (and_left hcond))).elim
  all_goals first
    | (simp; done)
    | (rename_i ih; exact ih hs)

theorem parseChunkSize_no_ub (dbg : Bool) (buf : List Byte) (u : UB) : parseChunkSize dbg buf ≠ .ub u :=
  (chunkLoop_sat dbg 0 0 0 true false buf (by decide)).no_ub u

end Hx
