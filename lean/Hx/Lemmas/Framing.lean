/-
  Hx.Lemmas.Framing — C03: the parsers' Complete(n)/Partial against the independent line scans of
  `Hx.Spec.Framing` (`firstEmptyLine`, `startLineEnd`, `firstCrlf`) and the whitespace-line scan
  `firstWsLine` of `Hx.Spec.Chk`.  The scans are analysed in `Hx.Lemmas.FramingBase` (strictly empty
  lines, start lines, `parse_chunk_size`) and `Hx.Lemmas.FramingWs` (whitespace-only lines under
  `allow_space_before_first_header_name`); this file draws the conclusions about the observations.
-/
import Hx.Obs
import Hx.Spec.Chk
import Hx.Lemmas.FramingBase
import Hx.Lemmas.FramingWs
namespace Hx

local notation "fel" => firstEmptyLineFrom
local notation "wsl" => firstWsLineScan

/-! ### the first header found in the array -/

/-- `fh` is what `chkC03` hands to `chkFrameBlock` for a block that starts at offset `off` and stored the
headers `hs`: the offset of the first of them, relative to the block -/
def FH (fh : Option Nat) (off : Nat) (hs : List Hdr) : Prop :=
  (hs = [] → fh = none) ∧ (∀ h0 t, hs = h0 :: t → h0.name.bytes ≠ [] → fh = some (h0.name.off - off))

/-- the function `Obs.firstHdrOff` searches with -/
def hdrOffOf : SlotO → Option Nat := fun s => match s with
  | .hdr ⟨.at off _, _⟩ => some off
  | _ => none

theorem firstHdrOff_eq (o : Obs) : o.firstHdrOff = (o.arrA ++ o.arrU).findSome? hdrOffOf := rfl

theorem write_firstHdr_nil (cap : Nat) :
    (((Arr.write (sentinels 0 cap) []).map SlotO.ofSlot) ++ []).findSome? hdrOffOf = none := by
  rw [List.findSome?_eq_none_iff]
  intro x hx
  simp only [Arr.write, sentinels, List.map_nil, List.length_nil, List.drop_zero, List.nil_append,
    List.append_nil, List.map_map, List.mem_map, List.mem_range, Function.comp] at hx
  obtain ⟨i, -, rfl⟩ := hx
  rfl

theorem write_firstHdr_cons (cap : Nat) (h0 : Hdr) (t : List Hdr) (hne : h0.name.bytes ≠ []) :
    (((Arr.write (sentinels 0 cap) (h0 :: t)).map SlotO.ofSlot) ++ []).findSome? hdrOffOf = some h0.name.off := by
  have e : Sp.ofSlice h0.name = .at h0.name.off h0.name.bytes.length := by
    unfold Sp.ofSlice
    rw [if_neg (by simpa using hne)]
  simp only [Arr.write, List.map_cons, List.cons_append, SlotO.ofSlot, HdrO.ofHdr, e, List.findSome?_cons,
    hdrOffOf]

theorem FH_write (cap off : Nat) (hs : List Hdr) :
    FH (((((Arr.write (sentinels 0 cap) hs).map SlotO.ofSlot) ++ []).findSome? hdrOffOf).map (· - off)) off hs := by
  refine ⟨fun e => ?_, fun h0 t e hne => ?_⟩
  · subst e; rw [write_firstHdr_nil]; rfl
  · subst e; rw [write_firstHdr_cons cap h0 t hne]; rfl

theorem ofCall_firstHdrOff {V : Type} (spans : V → List Sp) (nums : V → List (Option Nat))
    (core : Nat → V → Res V) (v0 : V) (cap : Nat) :
    (Obs.ofCall spans nums (callInit core ⟨v0, cap⟩ (sentinels 0 cap)) true []).firstHdrOff =
      (((Arr.write (sentinels 0 cap) (core cap v0).hdrs).map SlotO.ofSlot) ++ []).findSome? hdrOffOf := by
  rw [firstHdrOff_eq]
  have e : (callInit core ⟨v0, cap⟩ (sentinels 0 cap)).arr = Arr.write (sentinels 0 cap) (core cap v0).hdrs := by
    rw [SA.callInit_eq]; split <;> rfl
  simp only [Obs.ofCall, if_true, e, List.map_nil]

/-! ### the header block against the scans -/

theorem firstWsLine_shift (lim off : Nat) (hb : List Byte) :
    wsl (lim + off) off off true false hb = (firstWsLine lim hb).map (· + off) := by
  have := wsl_shift off lim hb 0 0 true false
  simpa [firstWsLine] using this

/-- the framing check on a completed header block -/
theorem chkFrameBlock_complete {hc : HCfg} {cap off : Nat} {hb : List Byte} {n : Nat} {hs : List Hdr}
    {fh : Option Nat} (h : BlockSpec hc cap off 0 hb n hs) (hfh : FH fh off hs) :
    chkFrameBlock hc.sbf hc.fold hb fh (.c n) = true := by
  have hle := h.n_le
  have hfr := h.frame
  unfold chkFrameBlock firstEmptyLine
  cases hsbf : hc.sbf
  · -- the option is off: the first strictly empty line
    rw [hsbf] at hfr
    rcases hfr with hf | ⟨hx, -⟩
    · have := hf 0
      simp only [Nat.zero_add] at this
      simp [this, hle]
    · cases hx
  · cases hfold : hc.fold
    · -- no folding: the first whitespace-only line that starts before the first stored header
      cases hs with
      | nil =>
        have hw := ((h.wsl_first hsbf hfold rfl off (Nat.le_refl _)).1 rfl (hb.length + 1 + off) (by omega))
        rw [firstWsLine_shift] at hw
        have hw' : firstWsLine (hb.length + 1) hb = some n := by
          cases hx : firstWsLine (hb.length + 1) hb with
          | none => rw [hx] at hw; cases hw
          | some m => rw [hx] at hw; simp at hw; congr 1; omega
        simp [hfh.1 rfl, hw', hle]
      | cons h0 t =>
        obtain ⟨hne, hoff, hw⟩ := (h.wsl_first hsbf hfold rfl off (Nat.le_refl _)).2 h0 t rfl
        have e : h0.name.off = (h0.name.off - off) + off := by omega
        rw [e, firstWsLine_shift] at hw
        have hw' : firstWsLine (h0.name.off - off) hb = none := by
          cases hx : firstWsLine (h0.name.off - off) hb with
          | none => rfl
          | some m => rw [hx] at hw; cases hw
        rcases hfr with hf | ⟨-, -, hx, -⟩
        · have := hf 0
          simp only [Nat.zero_add] at this
          simp [hfh.2 h0 t rfl hne, hw', this, hle]
        · cases hx
    · -- folding: no later than the first strictly empty line, and at it unless nothing is stored
      rcases hfr with hf | ⟨-, -, rfl, hws, hbound⟩
      · have := hf 0
        simp only [Nat.zero_add] at this
        simp [this, hle]
      · have hw := (endsWithWsLine_iff hb n).mpr hws
        simp only [hle, decide_true, if_true, BEq.rfl, hw, hfh.1 rfl, Bool.and_self, Bool.or_true,
          Bool.and_true, Bool.true_and]
        cases hfe : fel 0 hb with
        | none => rfl
        | some m => have := hbound 0 m hfe; simpa using this

/-- the framing check on a header block the loop left unfinished -/
theorem chkFrameBlock_part {be : Backend} (hbe : be.Exact) {hc : HCfg} {cap fuel off : Nat} {hb : List Byte}
    {hs : List Hdr} {fh : Option Nat} (h : headersLoop be hc cap fuel ⟨off, [], hb⟩ [] = (.part, hs))
    (hfh : FH fh off hs) : chkFrameBlock hc.sbf hc.fold hb fh .p = true := by
  have hq : fel 0 hb = none := headersLoop_part hbe hc cap _ _ _ _ _ h 0
  unfold chkFrameBlock firstEmptyLine
  cases hsbf : hc.sbf
  · simp [hq]
  · cases hfold : hc.fold
    · have hw := headersLoop_part_wsl hbe hsbf hfold cap _ _ _ _ h off (Nat.le_refl _)
      cases hs with
      | nil =>
        have hw := hw.1 rfl (hb.length + 1 + off)
        rw [firstWsLine_shift] at hw
        have hw' : firstWsLine (hb.length + 1) hb = none := by
          cases hx : firstWsLine (hb.length + 1) hb with
          | none => rfl
          | some m => rw [hx] at hw; cases hw
        simp [hq, hfh.1 rfl, hw']
      | cons h0 t =>
        obtain ⟨hne, hoff, hw⟩ := hw.2 h0 t rfl
        have e : h0.name.off = (h0.name.off - off) + off := by omega
        rw [e, firstWsLine_shift] at hw
        have hw' : firstWsLine (h0.name.off - off) hb = none := by
          cases hx : firstWsLine (h0.name.off - off) hb with
          | none => rfl
          | some m => rw [hx] at hw; cases hw
        simp [hq, hfh.2 h0 t rfl hne, hw']
    · simp [hq]

theorem finishHeaders_part_loop {V : Type} {be : Backend} {hc : HCfg} {cap : Nat} {buf : List Byte}
    {s : Nat} {rest : List Byte} {v : V} (h : (finishHeaders be hc cap buf ⟨s, [], rest⟩ v).status = .part) :
    headersLoop be hc cap (rest.length + 1) ⟨s, [], rest⟩ [] =
      (.part, (finishHeaders be hc cap buf ⟨s, [], rest⟩ v).hdrs) := by
  unfold finishHeaders parseHeadersIter at h ⊢
  dsimp only at h ⊢
  cases hl : headersLoop be hc cap (rest.length + 1) ⟨s, [], rest⟩ [] with
  | mk o hs =>
    rw [hl] at h
    cases o with
    | part => rfl
    | ok c => simp at h
    | err e => simp at h
    | ub u => simp at h

/-- a completed start line followed by the header block -/
theorem frame_of_line {V : Type} (be : Backend) (hbe : be.Exact) (hc : HCfg) (cap : Nat) (line rest : List Byte)
    (v : V) :
    (∀ n, (finishHeaders be hc cap (line ++ rest) ⟨line.length, [], rest⟩ v).status = .ok n →
      line.length ≤ n ∧ n ≤ (line ++ rest).length ∧
      ∀ fh, FH fh line.length (finishHeaders be hc cap (line ++ rest) ⟨line.length, [], rest⟩ v).hdrs →
        chkFrameBlock hc.sbf hc.fold rest fh (.c (n - line.length)) = true) ∧
    ((finishHeaders be hc cap (line ++ rest) ⟨line.length, [], rest⟩ v).status = .part →
      ∀ fh, FH fh line.length (finishHeaders be hc cap (line ++ rest) ⟨line.length, [], rest⟩ v).hdrs →
        chkFrameBlock hc.sbf hc.fold rest fh .p = true) := by
  refine ⟨fun n hn => ?_, fun hp fh hfh => chkFrameBlock_part hbe (finishHeaders_part_loop hp) hfh⟩
  have hw : (⟨line.length, [], rest⟩ : Cur).Wf (line ++ rest) := ⟨line, rfl, by simp⟩
  obtain ⟨k, hs, hb, rfl, hhs, -⟩ := (finishHeaders_ok_iff be hbe hc cap _ _ v n hw rfl).mp hn
  have := hb.n_le
  refine ⟨by simp, by simp at this ⊢; omega, fun fh hfh => ?_⟩
  simp only [Nat.add_sub_cancel_left]
  rw [hhs] at hfh
  exact chkFrameBlock_complete hb hfh

/-! ### the observations -/

theorem chkC03_of {k : Kind} {cfg : Config} {buf : List Byte} {o : Obs} (hk : k ≠ .hdrs)
    (hC : ∀ n, o.st = .c n → ∃ s, startLineEnd buf = some s ∧ s ≤ n ∧ n ≤ buf.length ∧
      chkFrameBlock cfg.spaceBeforeFirst (k.hcfg cfg).fold (buf.drop s) (o.firstHdrOff.map (· - s))
        (.c (n - s)) = true)
    (hP : o.st = .p → startLineEnd buf = none ∨ ∃ s, startLineEnd buf = some s ∧
      chkFrameBlock cfg.spaceBeforeFirst (k.hcfg cfg).fold (buf.drop s) (o.firstHdrOff.map (· - s)) .p = true) :
    chkC03 k cfg buf o = true := by
  have key : (match o.st with
      | .c n =>
        decide (n ≤ buf.length) &&
        (match startLineEnd buf with
         | some s => decide (s ≤ n) && chkFrameBlock cfg.spaceBeforeFirst (k.hcfg cfg).fold (buf.drop s)
             (o.firstHdrOff.map (· - s)) (.c (n - s))
         | none => false)
      | .p =>
        (match startLineEnd buf with
         | some s => chkFrameBlock cfg.spaceBeforeFirst (k.hcfg cfg).fold (buf.drop s)
             (o.firstHdrOff.map (· - s)) .p
         | none => true)
      | _ => true) = true := by
    cases hst : o.st with
    | c n =>
      obtain ⟨s, h1, h2, h3, h4⟩ := hC n hst
      simp [h1, h2, h3, h4]
    | p =>
      rcases hP hst with h | ⟨s, h1, h2⟩
      · simp [h]
      · simp [h1, h2]
    | e x => rfl
    | crash => rfl
  cases k with
  | hdrs => exact absurd rfl hk
  | req => exact key
  | resp => exact key

theorem ofCall_st {V : Type} (spans : V → List Sp) (nums : V → List (Option Nat))
    (core : Nat → V → Res V) (v0 : V) (cap : Nat) (arr : Arr) :
    (Obs.ofCall spans nums (callInit core ⟨v0, cap⟩ arr) true []).st = St.ofOutcome (core cap v0).status := by
  simp [Obs.ofCall, callInit_status]

theorem St.ofOutcome_c {o : Outcome Nat} {n : Nat} (h : St.ofOutcome o = .c n) : o = .ok n := by
  cases o <;> simp [St.ofOutcome] at h ⊢; exact h

theorem St.ofOutcome_p {o : Outcome Nat} (h : St.ofOutcome o = .p) : o = .part := by
  cases o <;> simp [St.ofOutcome] at h ⊢

theorem chkC03_reqObs (be : Backend) (hbe : be.Exact) (cfg : Config) (cap : Nat) (buf : List Byte) :
    chkC03 .req cfg buf (reqObs be cfg cap buf) = true := by
  obtain ⟨v1, v2, v3⟩ := reqCore_via_line be cfg cap buf ReqVal.fresh
  have hst := ofCall_st ReqVal.spans ReqVal.nums (fun n v => reqCore be cfg n buf v) ReqVal.fresh cap (sentinels 0 cap)
  have hfh : ∀ off, FH ((reqObs be cfg cap buf).firstHdrOff.map (· - off)) off
      (reqCore be cfg cap buf ReqVal.fresh).hdrs := by
    intro off
    unfold reqObs
    rw [ofCall_firstHdrOff]
    exact FH_write cap off _
  refine chkC03_of (by simp) (fun n hn => ?_) (fun hp => ?_)
  · have hn' : (reqCore be cfg cap buf ReqVal.fresh).status = .ok n := St.ofOutcome_c (hst ▸ hn)
    cases hl : (reqLineP be cfg.multiReq).run (Cur.new buf) with
    | ok x =>
      obtain ⟨⟨m, p, v⟩, c⟩ := x
      obtain ⟨pre, mb, sp₁, t, sp₂, eol, rest, hline, rfl, -, -, rfl⟩ := (reqLine_iff be hbe _ _ _ _ _ _).mp hl
      have hcore := v1 m p v _ hl
      rw [hcore] at hn'
      obtain ⟨h1, h2, h3⟩ := (frame_of_line be hbe cfg.reqH cap _ rest _).1 n hn'
      refine ⟨_, requestLine_sle hline rest, h1, h2, ?_⟩
      rw [List.drop_left]
      refine h3 _ ?_
      have := hfh (requestLineBytes pre mb sp₁ t sp₂ v eol).length
      rw [hcore] at this
      exact this
    | part => rw [v3 hl] at hn'; cases hn'
    | err e => rw [v2 e hl] at hn'; cases hn'
    | ub u => exact absurd hl (reqLine_no_ub be hbe _ buf u)
  · have hp' : (reqCore be cfg cap buf ReqVal.fresh).status = .part := St.ofOutcome_p (hst ▸ hp)
    cases hl : (reqLineP be cfg.multiReq).run (Cur.new buf) with
    | ok x =>
      obtain ⟨⟨m, p, v⟩, c⟩ := x
      obtain ⟨pre, mb, sp₁, t, sp₂, eol, rest, hline, rfl, -, -, rfl⟩ := (reqLine_iff be hbe _ _ _ _ _ _).mp hl
      have hcore := v1 m p v _ hl
      rw [hcore] at hp'
      refine .inr ⟨_, requestLine_sle hline rest, ?_⟩
      rw [List.drop_left]
      refine (frame_of_line be hbe cfg.reqH cap _ rest _).2 hp' _ ?_
      have := hfh (requestLineBytes pre mb sp₁ t sp₂ v eol).length
      rw [hcore] at this
      exact this
    | part => exact .inl (reqLine_part be hbe _ buf hl)
    | err e => rw [v2 e hl] at hp'; cases hp'
    | ub u => exact absurd hl (reqLine_no_ub be hbe _ buf u)

theorem chkC03_respObs (be : Backend) (hbe : be.Exact) (cfg : Config) (cap : Nat) (buf : List Byte) :
    chkC03 .resp cfg buf (respObs be cfg cap buf) = true := by
  obtain ⟨v1, v2, v3⟩ := respCore_via_line be cfg cap buf RespVal.fresh
  have hst := ofCall_st RespVal.spans RespVal.nums (fun n v => respCore be cfg n buf v) RespVal.fresh cap (sentinels 0 cap)
  have hfh : ∀ off, FH ((respObs be cfg cap buf).firstHdrOff.map (· - off)) off
      (respCore be cfg cap buf RespVal.fresh).hdrs := by
    intro off
    unfold respObs
    rw [ofCall_firstHdrOff]
    exact FH_write cap off _
  refine chkC03_of (by simp) (fun n hn => ?_) (fun hp => ?_)
  · have hn' : (respCore be cfg cap buf RespVal.fresh).status = .ok n := St.ofOutcome_c (hst ▸ hn)
    cases hl : (respLineP cfg.multiResp).run (Cur.new buf) with
    | ok x =>
      obtain ⟨⟨v, code, r⟩, c⟩ := x
      obtain ⟨pre, sp₁, d₁, d₂, d₃, tail, ro, reason, rest, hline, rfl, -, -, rfl⟩ :=
        (respLine_iff _ _ _ _ _ _).mp hl
      have hcore := v1 v code r _ hl
      rw [hcore] at hn'
      obtain ⟨h1, h2, h3⟩ := (frame_of_line be hbe cfg.respH cap _ rest _).1 n hn'
      refine ⟨_, statusLine_sle hline rest, h1, h2, ?_⟩
      rw [List.drop_left]
      refine h3 _ ?_
      have := hfh (statusLineBytes pre v sp₁ d₁ d₂ d₃ tail).length
      rw [hcore] at this
      exact this
    | part => rw [v3 hl] at hn'; cases hn'
    | err e => rw [v2 e hl] at hn'; cases hn'
    | ub u => exact absurd hl (respLine_no_ub _ buf u)
  · have hp' : (respCore be cfg cap buf RespVal.fresh).status = .part := St.ofOutcome_p (hst ▸ hp)
    cases hl : (respLineP cfg.multiResp).run (Cur.new buf) with
    | ok x =>
      obtain ⟨⟨v, code, r⟩, c⟩ := x
      obtain ⟨pre, sp₁, d₁, d₂, d₃, tail, ro, reason, rest, hline, rfl, -, -, rfl⟩ :=
        (respLine_iff _ _ _ _ _ _).mp hl
      have hcore := v1 v code r _ hl
      rw [hcore] at hp'
      refine .inr ⟨_, statusLine_sle hline rest, ?_⟩
      rw [List.drop_left]
      refine (frame_of_line be hbe cfg.respH cap _ rest _).2 hp' _ ?_
      have := hfh (statusLineBytes pre v sp₁ d₁ d₂ d₃ tail).length
      rw [hcore] at this
      exact this
    | part => exact .inl (respLine_part _ buf hl)
    | err e => rw [v2 e hl] at hp'; cases hp'
    | ub u => exact absurd hl (respLine_no_ub _ buf u)

theorem chkC03_hdrsObs (be : Backend) (hbe : be.Exact) (cap : Nat) (buf : List Byte) :
    chkC03 .hdrs Config.default buf (hdrsObs be cap buf) = true := by
  unfold hdrsObs chkC03
  rcases h : parseHeaders be cap buf with ⟨o, hs⟩
  dsimp only
  cases o with
  | ok n =>
    have hb := (parseHeaders_block_iff hbe cap buf n hs).mp h
    simp only [St.ofOutcome]
    have hfr := hb.frame
    have hle := hb.n_le
    rcases hfr with hf | ⟨hx, -⟩
    · have := hf 0
      simp only [Nat.zero_add] at this
      simp [chkFrameBlock, firstEmptyLine, this, hle]
    · cases hx
  | part =>
    simp only [St.ofOutcome]
    have hq : fel 0 buf = none := by
      unfold parseHeaders parseHeadersIter Cur.new at h
      dsimp only at h
      cases hl : headersLoop be HCfg.default cap (buf.length + 1) ⟨0, [], buf⟩ [] with
      | mk o' hs' =>
        rw [hl] at h
        cases o' with
        | part => exact headersLoop_part hbe _ cap _ _ _ _ _ hl 0
        | ok c => simp at h
        | err e => simp at h
        | ub u => simp at h
    simp [chkFrameBlock, firstEmptyLine, hq]
  | err e => rfl
  | ub u => rfl

end Hx
