/-
  Hx.Lemmas.Stage — the vocabulary of the stage lemmas (DESIGN §2.6) and their combinators.

    Stable f     S1: a Complete or Err outcome does not change when bytes are appended
    Cur.Wf       the cursor invariant relative to the buffer of the call
    Fwd f        S2: the cursor only moves forward, stays well-formed, and every slice handed
                 out lies between the entry and exit commit points and has the buffer's bytes
-/
import Hx.Lemmas.Basic
import Hx.Parse.Headers
namespace Hx

/-! ### S1 — stability under appending bytes -/

/-- A Complete (`ok`) or `err` outcome of `f` is unchanged when bytes are appended to the
buffer; the remaining input just grows by the appended bytes. -/
def Stable {α : Type} (f : P α) : Prop :=
  ∀ (c : Cur) (ext : List Byte),
    (∀ a c', f.run c = .ok (a, c') → f.run (c.shift ext) = .ok (a, c'.shift ext)) ∧
    (∀ e, f.run c = .err e → f.run (c.shift ext) = .err e)

theorem Stable.pure {α : Type} (a : α) : Stable (pure a : P α) := by
  intro c ext; constructor
  · intro a' c' h; simp at h; obtain ⟨rfl, rfl⟩ := h; rfl
  · intro e h; simp at h

theorem Stable.fail {α : Type} (e : Error) : Stable (P.fail e : P α) := by
  intro c ext; constructor
  · intro a' c' h; simp at h
  · intro e' h; simp at h; subst h; rfl

theorem Stable.partial_ {α : Type} : Stable (P.partial_ : P α) := by
  intro c ext; constructor
  · intro a' c' h; simp at h
  · intro e' h; simp at h

theorem Stable.bind {α β : Type} {f : P α} {g : α → P β} (hf : Stable f) (hg : ∀ a, Stable (g a)) :
    Stable (f >>= g) := by
  intro c ext
  have hf' := hf c ext
  constructor
  · intro b c'' h
    simp only [run_bind] at h ⊢
    cases hfc : f.run c with
    | ok p =>
      obtain ⟨a, c'⟩ := p
      rw [hfc] at h; simp only at h
      rw [hf'.1 a c' hfc]; simp only
      exact ((hg a) c' ext).1 b c'' h
    | part => rw [hfc] at h; simp at h
    | err e => rw [hfc] at h; simp at h
    | ub u => rw [hfc] at h; simp at h
  · intro e h
    simp only [run_bind] at h ⊢
    cases hfc : f.run c with
    | ok p =>
      obtain ⟨a, c'⟩ := p
      rw [hfc] at h; simp only at h
      rw [hf'.1 a c' hfc]; simp only
      exact ((hg a) c' ext).2 e h
    | part => rw [hfc] at h; simp at h
    | err e' =>
      rw [hfc] at h; simp only at h
      rw [hf'.2 e' hfc]; simpa using h
    | ub u => rw [hfc] at h; simp at h

theorem Stable.ite {α : Type} {f g : P α} (b : Bool) (hf : Stable f) (hg : Stable g) :
    Stable (if b then f else g) := by
  cases b <;> simpa

theorem Stable.dite {α : Type} {p : Prop} [Decidable p] {f g : P α} (hf : Stable f) (hg : Stable g) :
    Stable (if p then f else g) := by
  split <;> assumption

theorem next_stable : Stable next := by
  intro c ext; constructor
  · intro b c' h
    simp only [next, run_mk] at h ⊢
    cases hr : c.rest with
    | nil => rw [hr] at h; simp at h
    | cons x r =>
      rw [hr] at h; simp only [Outcome.ok.injEq, Prod.mk.injEq] at h
      obtain ⟨rfl, rfl⟩ := h
      simp [Cur.shift, hr]
  · intro e h
    simp only [next, run_mk] at h
    cases hr : c.rest <;> rw [hr] at h <;> simp at h

theorem slice_stable : Stable slice := by
  intro c ext; constructor
  · intro a c' h
    simp only [slice, run_mk] at h ⊢
    simp only [Outcome.ok.injEq, Prod.mk.injEq] at h
    obtain ⟨rfl, rfl⟩ := h
    simp [Cur.shift]
  · intro e h; simp only [slice, run_mk] at h; simp at h

theorem sliceSkip_stable (k : Nat) : Stable (sliceSkip k) := by
  intro c ext; constructor
  · intro a c' h
    simp only [sliceSkip, run_mk] at h ⊢
    simp only [Cur.shift]
    split at h
    · simp only [Outcome.ok.injEq, Prod.mk.injEq] at h
      obtain ⟨rfl, rfl⟩ := h
      rename_i hk; simp [hk]
    · simp at h
  · intro e h; simp only [sliceSkip, run_mk] at h; split at h <;> simp at h

theorem expect_stable (p : Byte → Bool) (e : Error) : Stable (expect p e) := by
  unfold expect
  apply Stable.bind next_stable
  intro b
  cases p b <;> simp <;> first | exact Stable.pure _ | exact Stable.fail _

theorem peekOrPart_stable : Stable peekOrPart := by
  intro c ext; constructor
  · intro b c' h
    simp only [peekOrPart, run_mk] at h ⊢
    cases hr : c.rest with
    | nil => rw [hr] at h; simp at h
    | cons x r =>
      rw [hr] at h; simp only [Outcome.ok.injEq, Prod.mk.injEq] at h
      obtain ⟨rfl, rfl⟩ := h
      simp [Cur.shift, hr]
  · intro e h
    simp only [peekOrPart, run_mk] at h
    cases hr : c.rest <;> rw [hr] at h <;> simp at h

/-! ### the cursor invariant and S2 -/

/-- `c` is a cursor into `buf`: `buf = pre ++ tok ++ rest` with `pre.length = start`. -/
def Cur.Wf (buf : List Byte) (c : Cur) : Prop :=
  ∃ pre, pre.length = c.start ∧ buf = pre ++ c.tok ++ c.rest

theorem Cur.Wf.new (buf : List Byte) : (Cur.new buf).Wf buf := ⟨[], rfl, by simp [Cur.new]⟩

theorem Cur.Wf.pos_le {buf : List Byte} {c : Cur} (h : c.Wf buf) : c.pos + c.rest.length = buf.length := by
  obtain ⟨pre, hl, hb⟩ := h
  rw [hb]; simp [Cur.pos, hl]; omega

/-- slice `s` lies in `[lo, hi)` of `buf` and carries exactly the buffer's bytes there -/
def Slice.In (buf : List Byte) (lo hi : Nat) (s : Slice) : Prop :=
  lo ≤ s.off ∧ s.off + s.bytes.length ≤ hi ∧ s.bytes = (buf.drop s.off).take s.bytes.length

/-- the slices contained in a stage result -/
class HasSlices (α : Type) where
  slices : α → List Slice

instance : HasSlices Unit := ⟨fun _ => []⟩
instance : HasSlices Nat := ⟨fun _ => []⟩
instance : HasSlices Byte := ⟨fun _ => []⟩
instance : HasSlices Bool := ⟨fun _ => []⟩
instance : HasSlices Slice := ⟨fun s => [s]⟩
instance : HasSlices Str := ⟨fun s => match s with | .slice s => [s] | .staticEmpty => []⟩
instance {α : Type} [HasSlices α] : HasSlices (Option α) :=
  ⟨fun o => match o with | some a => HasSlices.slices a | none => []⟩
instance {α β : Type} [HasSlices α] [HasSlices β] : HasSlices (α × β) :=
  ⟨fun p => HasSlices.slices p.1 ++ HasSlices.slices p.2⟩
instance : HasSlices Line :=
  ⟨fun l => match l with | .header n v => [n, v] | _ => []⟩
instance : HasSlices WsRes :=
  ⟨fun w => match w with | .empty v => [v] | _ => []⟩

/-- S2: on Complete the cursor stays a cursor of the same buffer, the commit point only moves
forward, never past the cursor, and every slice in the result lies between the entry and exit
commit points with the buffer's own bytes. -/
def Fwd {α : Type} [HasSlices α] (f : P α) : Prop :=
  ∀ (buf : List Byte) (c : Cur) (a : α) (c' : Cur), c.Wf buf → f.run c = .ok (a, c') →
    c'.Wf buf ∧ c.start ≤ c'.start ∧ c.pos ≤ c'.pos ∧
    ∀ s ∈ HasSlices.slices a, Slice.In buf c.start c'.start s

end Hx
