/-
  Hx.Lemmas.Conservative — C15: the parser options are conservative extensions and affect only
  their own message kind.

  (i)  kind separation: `reqCore` reads only `multiReq`, `spaceBeforeFirst`, `ignReq`; `respCore`
       only the five response/shared options (`reqCore_relevant`, `respCore_relevant`).
  (ii) conservative extension: whatever the default configuration parses to Complete, every
       configuration parses to the identical result; with `multiResp` the reason loses its
       leading SPs (`reqCore_conservative`, `respCore_conservative`).
  Then the observation-level statements `chkC15_reqObs`, `chkC15_respObs`.
-/
import Hx.Obs
import Hx.Spec.Chk
import Hx.Lemmas.StartGrammar
import Hx.Lemmas.BlockGrammar
namespace Hx

/-! ### (i) kind separation -/

theorem reqCore_relevant (be : Backend) (ca cb : Config) (h : ca.relevant .req = cb.relevant .req) :
    reqCore be ca = reqCore be cb := by
  obtain ⟨a1, a2, a3, a4, a5, a6, a7⟩ := ca
  obtain ⟨b1, b2, b3, b4, b5, b6, b7⟩ := cb
  simp only [Config.relevant, List.cons.injEq, and_true] at h
  obtain ⟨rfl, rfl, rfl⟩ := h
  rfl

theorem respCore_relevant (be : Backend) (ca cb : Config) (h : ca.relevant .resp = cb.relevant .resp) :
    respCore be ca = respCore be cb := by
  obtain ⟨a1, a2, a3, a4, a5, a6, a7⟩ := ca
  obtain ⟨b1, b2, b3, b4, b5, b6, b7⟩ := cb
  simp only [Config.relevant, List.cons.injEq, and_true] at h
  obtain ⟨rfl, rfl, rfl, rfl, rfl⟩ := h
  rfl

namespace Cv

/-! ### the header block: the default grammar is contained in every option's grammar -/

/-- a default-grammar block starts with a byte that is not SP/HTAB -/
theorem blockSpec_default_head {cap off k : Nat} {input : List Byte} {n : Nat} {hs : List Hdr}
    (h : BlockSpec HCfg.default cap off k input n hs) : ∃ x r, input = x :: r ∧ isWs x = false := by
  cases h with
  | eoh hl =>
    rcases LineSpec.eoh_isEol hl with rfl | rfl
    · exact ⟨CR, _, rfl, by decide⟩
    · exact ⟨LF, _, rfl, by decide⟩
  | skipped hl _ =>
    cases hl with
    | leadingWs hsbf => cases hsbf
    | ignored hign => cases hign
  | header hl _ _ =>
    cases hl with
    | @header name ws₁ body _ valOff value hnp _ _ =>
      cases name with
      | nil => exact absurd rfl hnp.name_ne
      | cons x t =>
        refine ⟨x, _, rfl, ?_⟩
        have hx : isTchar x = true := hnp.name_tchar x (by simp)
        have h := allBytesB_spec (f := fun b => !isTchar b || !isWs b) (by decide +kernel) x
        simpa [hx] using h

theorem blockSpec_default_widen (hc : HCfg) {cap off k : Nat} {input : List Byte} {n : Nat} {hs : List Hdr}
    (h : BlockSpec HCfg.default cap off k input n hs) : BlockSpec hc cap off k input n hs := by
  induction h with
  | eoh hl => exact .eoh (.eoh (LineSpec.eoh_isEol hl))
  | skipped hl _ _ =>
    cases hl with
    | leadingWs hsbf => cases hsbf
    | ignored hign => cases hign
  | header hl hk hb ih =>
    refine .header (lineSpec_default_widen hc _ _ _ _ _ hl ?_) hk ih
    intro _
    exact blockSpec_default_head hb

/-! ### whole-message completeness with the fields -/

theorem finishHeaders_of_block {V : Type} (be : Backend) (hbe : be.Exact) (hc : HCfg) (cap : Nat)
    (pre rest : List Byte) (v : V) (k : Nat) (hs : List Hdr)
    (hb : BlockSpec hc cap pre.length 0 rest k hs) :
    finishHeaders be hc cap (pre ++ rest) ⟨pre.length, [], rest⟩ v = ⟨.ok (pre.length + k), v, hs⟩ := by
  obtain ⟨c', hrun⟩ := (parseHeadersIter_ok_iff hbe hc cap pre.length rest k hs).mpr hb
  unfold finishHeaders
  simp [hrun, Cur.len]

theorem reqCore_of_spec (be : Backend) (hbe : be.Exact) (cfg : Config) (cap : Nat) (v₀ : ReqVal)
    {pre mb sp₁ t sp₂ eol hb : List Byte} {v k : Nat} {hs : List Hdr}
    (hl : IsRequestLine cfg.multiReq pre mb sp₁ t sp₂ v eol)
    (hblk : BlockSpec cfg.reqH cap (requestLineBytes pre mb sp₁ t sp₂ v eol).length 0 hb k hs) :
    reqCore be cfg cap (requestLineBytes pre mb sp₁ t sp₂ v eol ++ hb) v₀ =
      ⟨.ok ((requestLineBytes pre mb sp₁ t sp₂ v eol).length + k),
       ⟨some ⟨pre.length, mb⟩, some ⟨pre.length + mb.length + sp₁.length, t⟩, some v⟩, hs⟩ := by
  have hline := (reqLine_iff be hbe cfg.multiReq _ ⟨pre.length, mb⟩ ⟨pre.length + mb.length + sp₁.length, t⟩ v
    ⟨(requestLineBytes pre mb sp₁ t sp₂ v eol).length, [], hb⟩).2
    ⟨pre, mb, sp₁, t, sp₂, eol, hb, hl, rfl, rfl, rfl, rfl⟩
  rw [(reqCore_via_line be cfg cap _ v₀).1 _ _ _ _ hline]
  exact finishHeaders_of_block be hbe cfg.reqH cap _ hb _ k hs hblk

theorem respCore_of_spec (be : Backend) (hbe : be.Exact) (cfg : Config) (cap : Nat) (v₀ : RespVal)
    {pre sp₁ tail hb : List Byte} {d₁ d₂ d₃ : Byte} {v ro k : Nat} {reason : Option (List Byte)} {hs : List Hdr}
    (hl : IsStatusLine cfg.multiResp pre v sp₁ d₁ d₂ d₃ tail ro reason)
    (hblk : BlockSpec cfg.respH cap (statusLineBytes pre v sp₁ d₁ d₂ d₃ tail).length 0 hb k hs) :
    respCore be cfg cap (statusLineBytes pre v sp₁ d₁ d₂ d₃ tail ++ hb) v₀ =
      ⟨.ok ((statusLineBytes pre v sp₁ d₁ d₂ d₃ tail).length + k),
       ⟨some v, some (codeValue d₁ d₂ d₃),
        some (reportedReason (pre.length + 8 + sp₁.length + 3 + ro) reason)⟩, hs⟩ := by
  have hline := (respLine_iff cfg.multiResp _ v (codeValue d₁ d₂ d₃)
    (reportedReason (pre.length + 8 + sp₁.length + 3 + ro) reason)
    ⟨(statusLineBytes pre v sp₁ d₁ d₂ d₃ tail).length, [], hb⟩).2
    ⟨pre, sp₁, d₁, d₂, d₃, tail, ro, reason, hb, hl, rfl, rfl, rfl, rfl⟩
  rw [(respCore_via_line be cfg cap _ v₀).1 _ _ _ _ hline]
  exact finishHeaders_of_block be hbe cfg.respH cap _ hb _ k hs hblk

/-! ### whole-message soundness -/

theorem reqCore_ok_spec (be : Backend) (hbe : be.Exact) (cfg : Config) (cap : Nat) (buf : List Byte)
    (v₀ : ReqVal) (n : Nat) (h : (reqCore be cfg cap buf v₀).status = .ok n) :
    ∃ pre mb sp₁ t sp₂ v eol hb k hs, IsRequestLine cfg.multiReq pre mb sp₁ t sp₂ v eol ∧
      buf = requestLineBytes pre mb sp₁ t sp₂ v eol ++ hb ∧
      BlockSpec cfg.reqH cap (requestLineBytes pre mb sp₁ t sp₂ v eol).length 0 hb k hs := by
  cases hl : (reqLineP be cfg.multiReq).run (Cur.new buf) with
  | ok r =>
    obtain ⟨⟨m, p, v⟩, c⟩ := r
    have hc := (reqCore_via_line be cfg cap buf v₀).1 m p v c hl
    obtain ⟨pre, mb, sp₁, t, sp₂, eol, rest, hline, hbuf, hm, hp, hcur⟩ :=
      (reqLine_iff be hbe cfg.multiReq buf m p v c).1 hl
    rw [hc] at h
    obtain ⟨k, hs, hb, -, -⟩ := (finishHeaders_ok_iff be hbe cfg.reqH cap buf c _ n
      (by subst hcur; subst hbuf; exact ⟨_, rfl, by simp⟩) (by subst hcur; rfl)).1 h
    subst hcur
    exact ⟨pre, mb, sp₁, t, sp₂, v, eol, rest, k, hs, hline, hbuf, hb⟩
  | part => have := (reqCore_via_line be cfg cap buf v₀).2.2 hl; rw [this] at h; cases h
  | err e => have := (reqCore_via_line be cfg cap buf v₀).2.1 e hl; rw [this] at h; cases h
  | ub u => exact absurd hl (reqLine_no_ub be hbe cfg.multiReq buf u)

theorem respCore_ok_spec (be : Backend) (hbe : be.Exact) (cfg : Config) (cap : Nat) (buf : List Byte)
    (v₀ : RespVal) (n : Nat) (h : (respCore be cfg cap buf v₀).status = .ok n) :
    ∃ pre v sp₁ d₁ d₂ d₃ tail ro reason hb k hs, IsStatusLine cfg.multiResp pre v sp₁ d₁ d₂ d₃ tail ro reason ∧
      buf = statusLineBytes pre v sp₁ d₁ d₂ d₃ tail ++ hb ∧
      BlockSpec cfg.respH cap (statusLineBytes pre v sp₁ d₁ d₂ d₃ tail).length 0 hb k hs := by
  cases hl : (respLineP cfg.multiResp).run (Cur.new buf) with
  | ok r =>
    obtain ⟨⟨v, code, rs⟩, c⟩ := r
    have hc := (respCore_via_line be cfg cap buf v₀).1 v code rs c hl
    obtain ⟨pre, sp₁, d₁, d₂, d₃, tail, ro, reason, rest, hline, hbuf, -, -, hcur⟩ :=
      (respLine_iff cfg.multiResp buf v code rs c).1 hl
    rw [hc] at h
    obtain ⟨k, hs, hb, -, -⟩ := (finishHeaders_ok_iff be hbe cfg.respH cap buf c _ n
      (by subst hcur; subst hbuf; exact ⟨_, rfl, by simp⟩) (by subst hcur; rfl)).1 h
    subst hcur
    exact ⟨pre, v, sp₁, d₁, d₂, d₃, tail, ro, reason, rest, k, hs, hline, hbuf, hb⟩
  | part => have := (respCore_via_line be cfg cap buf v₀).2.2 hl; rw [this] at h; cases h
  | err e => have := (respCore_via_line be cfg cap buf v₀).2.1 e hl; rw [this] at h; cases h
  | ub u => exact absurd hl (respLine_no_ub cfg.multiResp buf u)

/-! ### (ii) requests -/

theorem isDelim_widen {multi : Bool} {sp : List Byte} (h : IsDelim false sp) : IsDelim multi sp := by
  rcases h with h | ⟨h, -⟩
  · exact Or.inl h
  · cases h

theorem isRequestLine_widen {multi : Bool} {pre m sp₁ t sp₂ eol : List Byte} {v : Nat}
    (h : IsRequestLine false pre m sp₁ t sp₂ v eol) : IsRequestLine multi pre m sp₁ t sp₂ v eol :=
  ⟨h.pre_ok, h.m_ne, h.m_tchar, isDelim_widen h.sp₁_ok, h.t_ne, h.t_uri, h.t_utf8, isDelim_widen h.sp₂_ok,
    h.v01, h.eol_ok⟩

/-- what the default configuration parses to Complete, every configuration parses identically -/
theorem reqCore_conservative (be : Backend) (hbe : be.Exact) (cfg : Config) (cap : Nat) (buf : List Byte)
    (v₀ : ReqVal) (n : Nat) (h : (reqCore be Config.default cap buf v₀).status = .ok n) :
    reqCore be cfg cap buf v₀ = reqCore be Config.default cap buf v₀ := by
  obtain ⟨pre, mb, sp₁, t, sp₂, v, eol, hb, k, hs, hline, rfl, hblk⟩ :=
    reqCore_ok_spec be hbe Config.default cap buf v₀ n h
  rw [reqCore_of_spec be hbe Config.default cap v₀ hline hblk]
  exact reqCore_of_spec be hbe cfg cap v₀ (isRequestLine_widen hline) (blockSpec_default_widen _ hblk)

/-! ### (ii) responses -/

/-- offset of the reason once its leading SPs belong to the delimiter -/
def stripOff (ro : Nat) : Option (List Byte) → Nat
  | none => ro
  | some r => ro + (r.takeWhile (· == SP)).length

/-- the reason without its leading SPs -/
def stripReason (reason : Option (List Byte)) : Option (List Byte) :=
  reason.map (fun r => r.dropWhile (· == SP))

theorem mem_takeWhile {p : Byte → Bool} {l : List Byte} {b : Byte} (h : b ∈ l.takeWhile p) : p b = true := by
  have := List.all_takeWhile (l := l) (p := p)
  rw [List.all_eq_true] at this
  exact this b h

theorem statusTail_strip {tail : List Byte} {ro : Nat} {reason : Option (List Byte)}
    (h : StatusTail false tail ro reason) : StatusTail true tail (stripOff ro reason) (stripReason reason) := by
  cases h with
  | bare he => exact .bare he
  | @reason sp₂ r eol h1 h2 h3 h4 h5 =>
    have hs : sp₂ = [] := h2 rfl
    subst hs
    have key := StatusTail.reason (multi := true) (sp₂ := r.takeWhile (· == SP))
      (r := r.dropWhile (· == SP)) (eol := eol)
      (fun b hb => by simpa using mem_takeWhile hb)
      (fun h => by cases h)
      (fun _ => by
        intro hh
        cases hd : r.dropWhile (· == SP) with
        | nil => rw [hd] at hh; cases hh
        | cons x t =>
          rw [hd] at hh
          simp only [List.head?_cons, Option.some.injEq] at hh
          have := List.head?_dropWhile_not (· == SP) r
          rw [hd] at this
          simp [hh] at this)
      (fun b hb => h4 b ((List.dropWhile_sublist _).subset hb)) h5
    simpa [stripOff, stripReason, List.takeWhile_append_dropWhile] using key

theorem isStatusLine_widen_false {pre sp₁ tail : List Byte} {d₁ d₂ d₃ : Byte} {v ro : Nat} {reason : Option (List Byte)}
    (h : IsStatusLine false pre v sp₁ d₁ d₂ d₃ tail ro reason) :
    IsStatusLine true pre v sp₁ d₁ d₂ d₃ tail (stripOff ro reason) (stripReason reason) :=
  ⟨h.pre_ok, h.v01, isDelim_widen h.sp₁_ok, h.d₁_ok, h.d₂_ok, h.d₃_ok, statusTail_strip h.tail_ok⟩

theorem bytes_ofSlice (X l Y : List Byte) :
    Sp.bytes (X ++ l ++ Y) (Sp.ofSlice ⟨X.length, l⟩) = some l := by
  unfold Sp.ofSlice
  split
  · rename_i h
    simp only [List.isEmpty_iff] at h
    simp [Sp.bytes, h]
  · simp [Sp.bytes]

theorem reasonStripped_slices (buf X tw dw Y : List Byte) (o₁ o₂ : Nat) (hbuf : buf = X ++ (tw ++ dw) ++ Y)
    (h₁ : o₁ = X.length) (h₂ : o₂ = X.length + tw.length) (hdrop : (tw ++ dw).dropWhile (· == SP) = dw) :
    reasonStripped buf (Sp.ofSlice ⟨o₁, tw ++ dw⟩) (Sp.ofSlice ⟨o₂, dw⟩) = true := by
  subst hbuf h₁ h₂
  have ha := bytes_ofSlice X (tw ++ dw) Y
  have hb := bytes_ofSlice (X ++ tw) dw Y
  simp only [List.length_append, List.append_assoc] at ha hb ⊢
  unfold reasonStripped
  rw [ha, hb]
  simp only [hdrop, beq_self_eq_true, Bool.true_and]
  cases dw <;> cases tw <;> simp [Sp.ofSlice] <;> omega

theorem any_high_drop (r : List Byte) :
    (r.dropWhile (· == SP)).any (fun b => 0x80 ≤ b) = r.any (fun b => 0x80 ≤ b) := by
  induction r with
  | nil => rfl
  | cons x t ih =>
    by_cases hx : x = SP
    · subst hx
      simp only [List.dropWhile_cons, beq_self_eq_true, if_true, ih, List.any_cons]
      have : decide ((0x80 : Byte) ≤ SP) = false := by decide
      rw [this, Bool.false_or]
    · have : (x == SP) = false := by simpa using hx
      simp [this]

/-- the reason reported with the multi-space option is the default one without its leading SPs -/
theorem reasonStripped_reported (X Y : List Byte) (ro : Nat) (reason : Option (List Byte)) (tail : List Byte)
    (ht : StatusTail false tail ro reason) :
    reasonStripped (X ++ tail ++ Y) (Sp.ofStr (reportedReason (X.length + ro) reason))
      (Sp.ofStr (reportedReason (X.length + stripOff ro reason) (stripReason reason))) = true := by
  cases ht with
  | bare he => simp [reportedReason, stripReason, Sp.ofStr, reasonStripped, Sp.bytes]
  | @reason sp₂ r eol h1 h2 h3 h4 h5 =>
    have hs : sp₂ = [] := h2 rfl
    subst hs
    simp only [reportedReason, stripReason, stripOff, Option.map_some, any_high_drop]
    split
    · simp [Sp.ofStr, reasonStripped, Sp.bytes]
    · simp only [Sp.ofStr]
      have key := reasonStripped_slices (X ++ (SP :: [] ++ r ++ eol) ++ Y) (X ++ [SP]) (r.takeWhile (· == SP))
        (r.dropWhile (· == SP)) (eol ++ Y) (X.length + (1 + ([] : List Byte).length))
        (X.length + (1 + ([] : List Byte).length + (r.takeWhile (· == SP)).length))
        (by simp) (by simp) (by simp; omega) (by rw [List.takeWhile_append_dropWhile])
      rw [List.takeWhile_append_dropWhile] at key
      exact key

/-- what the default configuration parses to Complete, every configuration parses to the same status,
version, code and headers; the reason is the same, or (multi-space option) the same without its
leading SPs -/
theorem respCore_conservative (be : Backend) (hbe : be.Exact) (cfg : Config) (cap : Nat) (buf : List Byte)
    (v₀ : RespVal) (n : Nat) (h : (respCore be Config.default cap buf v₀).status = .ok n) :
    ∃ v code ra rb hs,
      respCore be Config.default cap buf v₀ = ⟨.ok n, ⟨some v, some code, some ra⟩, hs⟩ ∧
      respCore be cfg cap buf v₀ = ⟨.ok n, ⟨some v, some code, some rb⟩, hs⟩ ∧
      (cfg.multiResp = false → rb = ra) ∧
      (cfg.multiResp = true → reasonStripped buf (Sp.ofStr ra) (Sp.ofStr rb) = true) := by
  obtain ⟨pre, v, sp₁, d₁, d₂, d₃, tail, ro, reason, hb, k, hs, hline, rfl, hblk⟩ :=
    respCore_ok_spec be hbe Config.default cap buf v₀ n h
  have hd := respCore_of_spec be hbe Config.default cap v₀ hline hblk
  have hn : n = (statusLineBytes pre v sp₁ d₁ d₂ d₃ tail).length + k := by
    rw [hd] at h; simpa using h.symm
  subst hn
  have hblk' : BlockSpec cfg.respH cap (statusLineBytes pre v sp₁ d₁ d₂ d₃ tail).length 0 hb k hs :=
    blockSpec_default_widen _ hblk
  cases hm : cfg.multiResp with
  | false =>
    have hline' : IsStatusLine cfg.multiResp pre v sp₁ d₁ d₂ d₃ tail ro reason := by rw [hm]; exact hline
    exact ⟨v, _, _, _, hs, hd, respCore_of_spec be hbe cfg cap v₀ hline' hblk', fun _ => rfl, fun h => by cases h⟩
  | true =>
    have hline' : IsStatusLine cfg.multiResp pre v sp₁ d₁ d₂ d₃ tail (stripOff ro reason) (stripReason reason) := by
      rw [hm]; exact isStatusLine_widen_false hline
    refine ⟨v, _, _, _, hs, hd, respCore_of_spec be hbe cfg cap v₀ hline' hblk', fun h => (by cases h), fun _ => ?_⟩
    have key := reasonStripped_reported (pre ++ versionBytes v ++ sp₁ ++ [d₁, d₂, d₃]) hb ro reason tail
      hline.tail_ok
    have e1 : (pre ++ versionBytes v ++ sp₁ ++ [d₁, d₂, d₃]).length = pre.length + 8 + sp₁.length + 3 := by
      simp [versionBytes_length]; omega
    rw [e1] at key
    simpa [statusLineBytes] using key

end Cv

/-! ### the observations -/

theorem Cv.ofCall_callInit_st {V : Type} (spans : V → List Sp) (nums : V → List (Option Nat))
    (core : Nat → V → Res V) (h : Handle V) (arr : Arr) :
    (Obs.ofCall spans nums (callInit core h arr) true []).st = St.ofOutcome (core h.viewLen h.val).status := by
  unfold callInit Obs.ofCall
  dsimp only
  split <;> simp_all

theorem Cv.isC_ofOutcome {o : Outcome Nat} (h : (St.ofOutcome o).isC = true) : ∃ n, o = .ok n := by
  cases o with
  | ok n => exact ⟨n, rfl⟩
  | part => simp [St.ofOutcome, St.isC] at h
  | err e => simp [St.ofOutcome, St.isC] at h
  | ub u => simp [St.ofOutcome, St.isC] at h

theorem chkC15_reqObs (be : Backend) (hbe : be.Exact) (ca cb : Config) (cap : Nat) (buf : List Byte) :
    chkC15 .req buf ca cb (reqObs be ca cap buf) (reqObs be cb cap buf) = true := by
  unfold chkC15
  rw [Bool.and_eq_true]
  constructor
  · split
    · rename_i h
      have e := reqCore_relevant be ca cb (by simpa using h)
      unfold reqObs
      rw [e]
      simp
    · rfl
  · split
    · rename_i h
      simp only [Bool.and_eq_true, beq_iff_eq] at h
      obtain ⟨rfl, hc⟩ := h
      unfold reqObs at hc
      rw [Cv.ofCall_callInit_st] at hc
      obtain ⟨n, hn⟩ := Cv.isC_ofOutcome hc
      have e := Cv.reqCore_conservative be hbe cb cap buf _ n hn
      have e' : reqObs be cb cap buf = reqObs be Config.default cap buf := by
        unfold reqObs callInit
        simp only [e]
      rw [e']
      simp
    · rfl

theorem chkC15_respObs (be : Backend) (hbe : be.Exact) (ca cb : Config) (cap : Nat) (buf : List Byte) :
    chkC15 .resp buf ca cb (respObs be ca cap buf) (respObs be cb cap buf) = true := by
  unfold chkC15
  rw [Bool.and_eq_true]
  constructor
  · split
    · rename_i h
      have e := respCore_relevant be ca cb (by simpa using h)
      unfold respObs
      rw [e]
      simp
    · rfl
  · split
    · rename_i h
      simp only [Bool.and_eq_true, beq_iff_eq] at h
      obtain ⟨rfl, hc⟩ := h
      unfold respObs at hc
      rw [Cv.ofCall_callInit_st] at hc
      obtain ⟨n, hn⟩ := Cv.isC_ofOutcome hc
      obtain ⟨v, code, ra, rb, hs, ea, eb, h1, h2⟩ := Cv.respCore_conservative be hbe cb cap buf _ n hn
      unfold respObs callInit Obs.ofCall
      simp only [ea, eb]
      cases hm : cb.multiResp with
      | false => simp [h1 hm]
      | true => simpa [RespVal.spans, RespVal.nums, Sp.ofOptStr] using h2 hm
    · rfl

end Hx
