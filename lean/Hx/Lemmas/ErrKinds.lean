/-
  Hx.Lemmas.ErrKinds — C10: the error kind names the element of the first offending byte.  The proofs
  live in the parts:

    ErrStart   `reqLine_err_iff`, `respLine_err_iff`      start lines against `ReqLineErr` / `RespLineErr`
    ErrLine    `headerLine_err_iff`                       one header-loop iteration against `LineErr`
    ErrBlock   `headersLoop_err_iff`,                     the header loop against `BlockErr`,
               `reqCore_err_iff`, `respCore_err_iff`      whole requests / responses
-/
import Hx.Lemmas.ErrStart
import Hx.Lemmas.ErrLine
import Hx.Lemmas.ErrBlock
