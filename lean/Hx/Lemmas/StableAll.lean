/-
  Hx.Lemmas.StableAll — S1 assembled: the entry points' observations on a buffer and on any
  extension of it are related by `chkC02` (C02).
-/
import Hx.Lemmas.StableHeaders
import Hx.Lemmas.StableBound
import Hx.Obs
import Hx.Spec.Chk
namespace Hx
namespace SA

/-! ### the `complete!` chain -/

/-- relation between the core result on a buffer and on an extension of it; `le` relates the
field values reported alongside Partial -/
def RE {V : Type} (le : V → V → Prop) (short long : Res V) : Prop :=
  match short.status with
  | .ok _ => long = short
  | .err e => long.status = .err e
  | .part => le short.val long.val
  | .ub _ => True

theorem step_val_le {α V : Type} {le : V → V → Prop} (w : V) (o : Outcome (α × Cur)) (v : V)
    (k : α → Cur → Res V) (hv : le w v) (hk : ∀ a c, le w (k a c).val) : le w (step o v k).val := by
  unfold step
  split
  · exact hk _ _
  all_goals exact hv

theorem step_ext {α V : Type} {le : V → V → Prop} {f : P α} (hf : Stable f) (c : Cur) (ext : List Byte)
    (v : V) (k k' : α → Cur → Res V)
    (hk : ∀ a c1, RE le (k a c1) (k' a (c1.shift ext)))
    (hmono : ∀ a c1, le v (k' a c1).val) (hrefl : le v v) :
    RE le (step (f.run c) v k) (step (f.run (c.shift ext)) v k') := by
  have h := se_of hf c ext
  cases hr : f.run c with
  | ok p =>
    obtain ⟨a, c1⟩ := p
    rw [hr] at h; simp only [SE_ok] at h
    rw [h]; exact hk a c1
  | part =>
    show le v _
    exact step_val_le v _ v k' hrefl hmono
  | err e =>
    rw [hr] at h; simp only [SE_err] at h
    rw [h]; rfl
  | ub u => trivial

theorem finishHeaders_val {V : Type} (be : Backend) (hc : HCfg) (cap : Nat) (buf : List Byte) (c : Cur) (v : V) :
    (finishHeaders be hc cap buf c v).val = v := by
  unfold finishHeaders
  split <;> rfl

theorem finishHeaders_ext {V : Type} {le : V → V → Prop} {be : Backend} (hbe : be.Exact) (hc : HCfg)
    (cap : Nat) (buf ext : List Byte) (c : Cur) (v : V) (hrefl : le v v) :
    RE le (finishHeaders be hc cap buf c v) (finishHeaders be hc cap (buf ++ ext) (c.shift ext) v) := by
  have h := parseHeadersIter_ext hbe hc cap c ext
  have hlen : (buf ++ ext).length - (c.shift ext).len = buf.length - c.len := by
    simp [Cur.len]; omega
  unfold finishHeaders
  rw [hlen]
  generalize parseHeadersIter be hc cap c = s at h
  obtain ⟨o, hs⟩ := s
  cases o with
  | ok p => obtain ⟨hl, c'⟩ := p; simp only [SEI] at h; rw [h]; rfl
  | part =>
    show le v _
    split <;> exact hrefl
  | err e => simp only [SEI] at h; rw [h]; rfl
  | ub u => trivial

/-! ### requests -/

/-- a field reported with the shorter buffer keeps its value -/
def ReqVal.le (a b : ReqVal) : Prop :=
  (a.method = none ∨ a.method = b.method) ∧ (a.path = none ∨ a.path = b.path) ∧
  (a.version = none ∨ a.version = b.version)

def RespVal.le (a b : RespVal) : Prop :=
  (a.version = none ∨ a.version = b.version) ∧ (a.code = none ∨ a.code = b.code) ∧
  (a.reason = none ∨ a.reason = b.reason)

/-- every later stage only sets fields that are still `none` -/
macro "mono_tac" : tactic => `(tactic|
  (intro _ _
   try dsimp only
   repeat (apply step_val_le
           · simp [ReqVal.le, RespVal.le, ReqVal.fresh, RespVal.fresh]
           intro _ _
           try dsimp only)
   simp [finishHeaders_val, ReqVal.le, RespVal.le, ReqVal.fresh, RespVal.fresh]))

theorem reqCore_ext {be : Backend} (hbe : be.Exact) (cfg : Config) (cap : Nat) (buf ext : List Byte) :
    RE ReqVal.le (reqCore be cfg cap buf ReqVal.fresh) (reqCore be cfg cap (buf ++ ext) ReqVal.fresh) := by
  unfold reqCore
  refine step_ext skipEmptyLines_stable (Cur.new buf) ext _ _ _ ?_ (by mono_tac) (by simp [ReqVal.le])
  intro _ c; try dsimp only
  refine step_ext parseMethod_stable c ext _ _ _ ?_ (by mono_tac) (by simp [ReqVal.le])
  intro m c; try dsimp only
  refine step_ext (optSkipSpaces_stable _) c ext _ _ _ ?_ (by mono_tac) (by simp [ReqVal.le])
  intro _ c; try dsimp only
  refine step_ext (parseUri_stable hbe) c ext _ _ _ ?_ (by mono_tac) (by simp [ReqVal.le])
  intro p c; try dsimp only
  refine step_ext (optSkipSpaces_stable _) c ext _ _ _ ?_ (by mono_tac) (by simp [ReqVal.le])
  intro _ c; try dsimp only
  refine step_ext parseVersion_stable c ext _ _ _ ?_ (by mono_tac) (by simp [ReqVal.le])
  intro ver c; try dsimp only
  refine step_ext newline_stable c ext _ _ _ ?_ (by mono_tac) (by simp [ReqVal.le])
  intro _ c; try dsimp only
  exact finishHeaders_ext hbe _ cap buf ext c _ (by simp [ReqVal.le])

theorem respCore_ext {be : Backend} (hbe : be.Exact) (cfg : Config) (cap : Nat) (buf ext : List Byte) :
    RE RespVal.le (respCore be cfg cap buf RespVal.fresh) (respCore be cfg cap (buf ++ ext) RespVal.fresh) := by
  unfold respCore
  refine step_ext skipEmptyLines_stable (Cur.new buf) ext _ _ _ ?_ (by mono_tac) (by simp [RespVal.le])
  intro _ c; try dsimp only
  refine step_ext parseVersion_stable c ext _ _ _ ?_ (by mono_tac) (by simp [RespVal.le])
  intro ver c; try dsimp only
  refine step_ext (space_stable _) c ext _ _ _ ?_ (by mono_tac) (by simp [RespVal.le])
  intro _ c; try dsimp only
  refine step_ext (optSkipSpaces_stable _) c ext _ _ _ ?_ (by mono_tac) (by simp [RespVal.le])
  intro _ c; try dsimp only
  refine step_ext parseCode_stable c ext _ _ _ ?_ (by mono_tac) (by simp [RespVal.le])
  intro code c; try dsimp only
  refine step_ext (reasonBranch_stable _) c ext _ _ _ ?_ (by mono_tac) (by simp [RespVal.le])
  intro reason c; try dsimp only
  exact finishHeaders_ext hbe _ cap buf ext c _ (by simp [RespVal.le])

/-! ### from core results to observations -/

theorem callInit_eq {V : Type} (core : Nat → V → Res V) (h : Handle V) (arr : Arr) :
    callInit core h arr =
      match (core h.viewLen h.val).status with
      | .ok n => ⟨.ok n, (core h.viewLen h.val).val, (core h.viewLen h.val).hdrs.length,
                  Arr.write arr (core h.viewLen h.val).hdrs⟩
      | o => ⟨o, (core h.viewLen h.val).val, h.viewLen, Arr.write arr (core h.viewLen h.val).hdrs⟩ := rfl

theorem callInit_status {V : Type} (core : Nat → V → Res V) (h : Handle V) (arr : Arr) :
    (callInit core h arr).status = (core h.viewLen h.val).status := by
  rw [callInit_eq]; split
  · rename_i n hn; rw [hn]
  · rfl

theorem callInit_val {V : Type} (core : Nat → V → Res V) (h : Handle V) (arr : Arr) :
    (callInit core h arr).val = (core h.viewLen h.val).val := by
  rw [callInit_eq]; split <;> rfl

theorem chkC02_ofCall {V : Type} (spans : V → List Sp) (nums : V → List (Option Nat)) (le : V → V → Prop)
    (hle : ∀ a b, le a b →
      ((List.zip (spans a) (spans b)).all (fun (x, y) => fieldKept (· == Sp.none) x y) &&
       (List.zip (nums a) (nums b)).all (fun (x, y) => fieldKept (· == none) x y) &&
       (spans a).length == (spans b).length && (nums a).length == (nums b).length) = true)
    (core core' : Nat → V → Res V) (h : Handle V) (arr : Arr)
    (hre : RE le (core h.viewLen h.val) (core' h.viewLen h.val)) :
    chkC02 (Obs.ofCall spans nums (callInit core h arr) true [])
           (Obs.ofCall spans nums (callInit core' h arr) true []) = true := by
  unfold RE at hre
  cases hs : (core h.viewLen h.val).status with
  | ok n =>
    rw [hs] at hre; simp only at hre
    have : callInit core' h arr = callInit core h arr := by
      rw [callInit_eq, callInit_eq, hre]
    rw [this]
    simp [chkC02, Obs.ofCall, callInit_status, hs, St.ofOutcome]
  | part =>
    rw [hs] at hre; simp only at hre
    have := hle _ _ hre
    simp only [chkC02, Obs.ofCall, callInit_status, callInit_val, hs, St.ofOutcome]
    exact this
  | err e =>
    rw [hs] at hre; simp only at hre
    simp [chkC02, Obs.ofCall, callInit_status, hs, hre, St.ofOutcome]
  | ub u =>
    simp [chkC02, Obs.ofCall, callInit_status, hs, St.ofOutcome]

/-! ### `parse_chunk_size` -/

theorem chunkLoop_cons (dbg : Bool) (pos size count : Nat) (inSize inExt : Bool) (b : Byte) (r : List Byte) :
    chunkLoop dbg pos size count inSize inExt (b :: r) =
    if isDigit b && inSize then
      match chunkDigit dbg count size (b.toNat - 0x30) with
      | .ok (count, size) => chunkLoop dbg (pos + 1) size count inSize inExt r
      | .part => .part | .err e => .err e | .ub u => .ub u
    else if (0x61 ≤ b && b ≤ 0x66) && inSize then
      match chunkDigit dbg count size (b.toNat + 10 - 0x61) with
      | .ok (count, size) => chunkLoop dbg (pos + 1) size count inSize inExt r
      | .part => .part | .err e => .err e | .ub u => .ub u
    else if (0x41 ≤ b && b ≤ 0x46) && inSize then
      match chunkDigit dbg count size (b.toNat + 10 - 0x41) with
      | .ok (count, size) => chunkLoop dbg (pos + 1) size count inSize inExt r
      | .part => .part | .err e => .err e | .ub u => .ub u
    else if count == 0 then .err .chunkSize
    else if b == CR then
      match r with
      | [] => .part
      | b2 :: _ => if b2 == LF then .ok (pos + 2, size) else .err .chunkSize
    else if b == SEMI && !inExt then chunkLoop dbg (pos + 1) size count false true r
    else if isWs b && !inExt && !inSize then chunkLoop dbg (pos + 1) size count inSize inExt r
    else if isWs b && inSize then chunkLoop dbg (pos + 1) size count false inExt r
    else if inExt then chunkLoop dbg (pos + 1) size count inSize inExt r
    else .err .chunkSize := by
  rw [chunkLoop.eq_def]; rfl

/-- what `parse_chunk_size` on the extended buffer must return -/
def SEC (short long : Outcome (Nat × Nat)) : Prop :=
  match short with
  | .ok x => long = .ok x
  | .err e => long = .err e
  | _ => True

theorem SEC_digit (d : Outcome (Nat × Nat)) (k k' : Nat → Nat → Outcome (Nat × Nat))
    (h : ∀ a b, SEC (k a b) (k' a b)) :
    SEC (match d with
         | .ok (count, size) => k count size
         | .part => .part | .err e => .err e | .ub u => .ub u)
        (match d with
         | .ok (count, size) => k' count size
         | .part => .part | .err e => .err e | .ub u => .ub u) := by
  cases d with
  | ok p => exact h p.1 p.2
  | part => trivial
  | err e => rfl
  | ub u => trivial

theorem chunkLoop_sec (dbg : Bool) (ext : List Byte) : ∀ (rest : List Byte) (pos size count : Nat) (inSize inExt : Bool),
    SEC (chunkLoop dbg pos size count inSize inExt rest) (chunkLoop dbg pos size count inSize inExt (rest ++ ext))
  | [], _, _, _, _, _ => by simp [chunkLoop, SEC]
  | b :: r, pos, size, count, inSize, inExt => by
    rw [List.cons_append, chunkLoop_cons, chunkLoop_cons]
    have ih := chunkLoop_sec dbg ext r
    split
    · exact SEC_digit _ _ _ fun a b => ih _ _ _ _ _
    split
    · exact SEC_digit _ _ _ fun a b => ih _ _ _ _ _
    split
    · exact SEC_digit _ _ _ fun a b => ih _ _ _ _ _
    split
    · rfl
    split
    · cases r with
      | nil => trivial
      | cons b2 r2 => simp only [List.cons_append]; split <;> rfl
    split
    · exact ih _ _ _ _ _
    split
    · exact ih _ _ _ _ _
    split
    · exact ih _ _ _ _ _
    split
    · exact ih _ _ _ _ _
    · rfl

end SA

open SA

theorem chkC02_reqObs (be : Backend) (hbe : be.Exact) (cfg : Config) (cap : Nat) (buf ext : List Byte) :
    chkC02 (reqObs be cfg cap buf) (reqObs be cfg cap (buf ++ ext)) = true := by
  unfold reqObs
  apply chkC02_ofCall ReqVal.spans ReqVal.nums ReqVal.le
  · intro a b hab
    obtain ⟨h1, h2, h3⟩ := hab
    simp only [ReqVal.spans, ReqVal.nums, List.zip_cons_cons, List.zip_nil_right, List.all_cons, List.all_nil,
      fieldKept, List.length_cons, List.length_nil, Bool.and_true, beq_self_eq_true]
    rcases h1 with h1 | h1 <;> rcases h2 with h2 | h2 <;> rcases h3 with h3 | h3 <;>
      simp [h1, h2, h3, Sp.ofOptSlice]
  · exact reqCore_ext hbe cfg cap buf ext

theorem chkC02_respObs (be : Backend) (hbe : be.Exact) (cfg : Config) (cap : Nat) (buf ext : List Byte) :
    chkC02 (respObs be cfg cap buf) (respObs be cfg cap (buf ++ ext)) = true := by
  unfold respObs
  apply chkC02_ofCall RespVal.spans RespVal.nums RespVal.le
  · intro a b hab
    obtain ⟨h1, h2, h3⟩ := hab
    simp only [RespVal.spans, RespVal.nums, List.zip_cons_cons, List.zip_nil_right, List.all_cons, List.all_nil,
      fieldKept, List.length_cons, List.length_nil, Bool.and_true, beq_self_eq_true]
    rcases h1 with h1 | h1 <;> rcases h2 with h2 | h2 <;> rcases h3 with h3 | h3 <;>
      simp [h1, h2, h3, Sp.ofOptStr]
  · exact respCore_ext hbe cfg cap buf ext

theorem chkC02_hdrsObs (be : Backend) (hbe : be.Exact) (cap : Nat) (buf ext : List Byte) :
    chkC02 (hdrsObs be cap buf) (hdrsObs be cap (buf ++ ext)) = true := by
  have h := parseHeadersIter_ext hbe HCfg.default cap (Cur.new buf) ext
  have hn : (Cur.new buf).shift ext = Cur.new (buf ++ ext) := rfl
  rw [hn] at h
  unfold hdrsObs parseHeaders
  generalize parseHeadersIter be HCfg.default cap (Cur.new buf) = s at h
  obtain ⟨o, hs⟩ := s
  cases o with
  | ok p => obtain ⟨n, c'⟩ := p; simp only [SEI] at h; rw [h]; simp [chkC02, St.ofOutcome]
  | part => simp [chkC02, St.ofOutcome]
  | err e =>
    simp only [SEI] at h; rw [h]; simp [chkC02, St.ofOutcome]
  | ub u => simp [chkC02, St.ofOutcome]

theorem chkC02_chunkObs (dbg : Bool) (buf ext : List Byte) :
    chkC02chunk (chunkObs dbg buf) (chunkObs dbg (buf ++ ext)) = true := by
  have h := chunkLoop_sec dbg ext buf 0 0 0 true false
  unfold chunkObs parseChunkSize
  generalize chunkLoop dbg 0 0 0 true false buf = s at h
  cases s with
  | ok p => simp only [SEC] at h; rw [h]; simp [chkC02chunk]
  | part => simp [chkC02chunk]
  | err e => simp only [SEC] at h; rw [h]; simp [chkC02chunk]
  | ub u => simp [chkC02chunk]

theorem SA.reqObs_st (be : Backend) (cfg : Config) (cap : Nat) (buf : List Byte) :
    (reqObs be cfg cap buf).st = St.ofOutcome (reqCore be cfg cap buf ReqVal.fresh).status := by
  simp [reqObs, Obs.ofCall, callInit_status]

/-- the result on a prefix that is already decided (Complete/Err) equals the result on the whole -/
theorem req_chunking (be : Backend) (hbe : be.Exact) (cfg : Config) (cap : Nat) (stream : List Byte) (k : Nat)
    (h : (reqObs be cfg cap (stream.take k)).st ≠ .p)
    (hnc : (reqObs be cfg cap (stream.take k)).st ≠ .crash) :
    (reqObs be cfg cap stream).st = (reqObs be cfg cap (stream.take k)).st := by
  have hc := chkC02_reqObs be hbe cfg cap (stream.take k) (stream.drop k)
  rw [List.take_append_drop] at hc
  unfold chkC02 at hc
  cases hs : (reqObs be cfg cap (stream.take k)).st with
  | c n => rw [hs] at hc; simp at hc; exact hc.1.1.1
  | p => exact absurd hs h
  | e x => rw [hs] at hc; simp at hc; exact hc
  | crash => exact absurd hs hnc

/-- every prefix shorter than `n` of an accepted head yields Partial -/
theorem req_prefix_partial (be : Backend) (hbe : be.Exact) (cfg : Config) (cap : Nat) (buf : List Byte)
    (n k : Nat) (h : (reqObs be cfg cap buf).st = .c n) (hk : k < n)
    (hnc : (reqObs be cfg cap (buf.take k)).st ≠ .crash) :
    (reqObs be cfg cap (buf.take k)).st = .p := by
  cases hs : (reqObs be cfg cap (buf.take k)).st with
  | p => rfl
  | crash => exact absurd hs hnc
  | e x =>
    have := req_chunking be hbe cfg cap buf k (by rw [hs]; simp) hnc
    rw [h, hs] at this; simp at this
  | c m =>
    have := req_chunking be hbe cfg cap buf k (by rw [hs]; simp) hnc
    rw [h, hs] at this
    simp only [St.c.injEq] at this
    subst this
    -- Complete(n) on the prefix stays inside the prefix
    rw [reqObs_st] at hs
    cases hr : (reqCore be cfg cap (buf.take k) ReqVal.fresh).status with
    | ok n' =>
      rw [hr] at hs; simp only [St.ofOutcome, St.c.injEq] at hs
      subst hs
      have hb := reqCore_bound be cfg cap (buf.take k) ReqVal.fresh n' hr
      simp only [List.length_take] at hb
      omega
    | part => rw [hr] at hs; simp [St.ofOutcome] at hs
    | err e => rw [hr] at hs; simp [St.ofOutcome] at hs
    | ub u => rw [hr] at hs; simp [St.ofOutcome] at hs

end Hx
