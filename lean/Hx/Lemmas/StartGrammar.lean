/-
  Hx.Lemmas.StartGrammar — the start-line stages against the declarative grammars of
  `Hx.Spec.Grammar` (C06 request line, C07 status line).

  One "S3" lemma per stage: `f.run c = .ok (a, c')` ⇔ a decomposition of `c.rest`; then the
  composition along `reqLineP` / `respLineP`, the link to `reqCore` / `respCore`, and uniqueness
  of the decompositions.
-/
import Hx.Spec.Grammar
import Hx.Parse.Lines
import Hx.Lemmas.Basic
import Hx.Lemmas.NoUB
import Hx.Lemmas.StableStart
namespace Hx
open SA

/-! ### generic helpers -/

theorem bind_ok {α β : Type} {f : P α} {g : α → P β} {c : Cur} {b : β} {c'' : Cur} :
    (f >>= g).run c = .ok (b, c'') ↔ ∃ a c', f.run c = .ok (a, c') ∧ (g a).run c' = .ok (b, c'') := by
  simp only [run_bind]
  cases h : f.run c with
  | ok r =>
    obtain ⟨a, c'⟩ := r
    constructor
    · intro h'; exact ⟨a, c', rfl, h'⟩
    · rintro ⟨a', c1, e, h'⟩; cases e; exact h'
  | part => simp
  | err e => simp
  | ub u => simp

/-- a class run followed by a byte outside the class determines the split -/
theorem split_unique {p : Byte → Prop} : ∀ {a a' : List Byte} {x x' : Byte} {r r' : List Byte},
    (∀ b ∈ a, p b) → (∀ b ∈ a', p b) → ¬ p x → ¬ p x' → a ++ x :: r = a' ++ x' :: r' →
    a = a' ∧ x = x' ∧ r = r'
  | [], [], _, _, _, _, _, _, _, _, e => by simpa using e
  | [], y :: a', x, _, _, _, _, ha', hx, _, e => by
    simp only [List.nil_append, List.cons_append, List.cons.injEq] at e
    exact absurd (e.1 ▸ ha' y (by simp)) hx
  | y :: a, [], _, x', _, _, ha, _, _, hx', e => by
    simp only [List.nil_append, List.cons_append, List.cons.injEq] at e
    exact absurd (e.1 ▸ ha y (by simp)) hx'
  | y :: a, y' :: a', _, _, _, _, ha, ha', hx, hx', e => by
    simp only [List.cons_append, List.cons.injEq] at e
    obtain ⟨h1, h2, h3⟩ := split_unique (fun b hb => ha b (by simp [hb])) (fun b hb => ha' b (by simp [hb])) hx hx' e.2
    simp [e.1, h1, h2, h3]

theorem takeWhile_stop {p : Byte → Bool} {x : Byte} (r : List Byte) (hx : p x = false) :
    ∀ t : List Byte, (∀ b ∈ t, p b = true) →
      (t ++ x :: r).takeWhile p = t ∧ (t ++ x :: r).dropWhile p = x :: r
  | [], _ => by simp [hx]
  | y :: t, h => by
    have hy : p y = true := h y (by simp)
    have := takeWhile_stop r hx t (fun b hb => h b (by simp [hb]))
    simp [hy, this.1, this.2]

/-! ### byte facts -/

theorem tchar_ne_sp {b : Byte} (h : isTchar b = true) : b ≠ SP := by
  intro e; subst e; revert h; decide
theorem tchar_ne_cr {b : Byte} (h : isTchar b = true) : b ≠ CR := by
  intro e; subst e; revert h; decide
theorem tchar_ne_lf {b : Byte} (h : isTchar b = true) : b ≠ LF := by
  intro e; subst e; revert h; decide
theorem uri_ne_sp {b : Byte} (h : isUri b = true) : b ≠ SP := by
  intro e; subst e; revert h; decide
theorem digit_ne_sp {b : Byte} (h : isDigit b = true) : b ≠ SP := by
  intro e; subst e; revert h; decide
theorem reason_ne_cr {b : Byte} (h : isReason b = true) : b ≠ CR := by
  intro e; subst e; revert h; decide
theorem reason_ne_lf {b : Byte} (h : isReason b = true) : b ≠ LF := by
  intro e; subst e; revert h; decide

theorem beq_false_of_ne {a b : Byte} (h : a ≠ b) : (a == b) = false := by simpa using h

/-! ### `skip_empty_lines` -/

theorem skipEmptyLinesGo_fwd (s : Nat) (tok r : List Byte) (c' : Cur)
    (h : skipEmptyLinesGo s tok r = .ok ((), c')) :
    ∃ pre r', r = pre ++ r' ∧ EmptyLines pre ∧ (∃ b t, r' = b :: t ∧ b ≠ CR ∧ b ≠ LF) ∧
      c' = ⟨s + tok.length + pre.length, [], r'⟩ := by
  fun_induction skipEmptyLinesGo s tok r with
  | case1 tok => simp at h
  | case2 tok b hb => simp at h
  | case3 tok b hb b2 r2 hb2 ih =>
    obtain ⟨pre, r', rfl, hp, hne, rfl⟩ := ih h
    simp only [beq_iff_eq] at hb hb2; subst hb; subst hb2
    exact ⟨CR :: LF :: pre, r', by simp, .crlf hp, hne, by simp; omega⟩
  | case4 tok b hb b2 r2 hb2 => simp at h
  | case5 tok b r hb hb2 ih =>
    obtain ⟨pre, r', rfl, hp, hne, rfl⟩ := ih h
    simp only [beq_iff_eq] at hb2; subst hb2
    exact ⟨LF :: pre, r', by simp, .lf hp, hne, by simp; omega⟩
  | case6 tok b r hb hb2 =>
    simp only [Outcome.ok.injEq, Prod.mk.injEq, true_and] at h
    subst h
    exact ⟨[], b :: r, by simp, .nil, ⟨b, r, rfl, by simpa using hb, by simpa using hb2⟩, by simp⟩

theorem skipEmptyLinesGo_bwd (s : Nat) {pre : List Byte} (hp : EmptyLines pre) (b : Byte) (t : List Byte)
    (hcr : b ≠ CR) (hlf : b ≠ LF) : ∀ tok : List Byte,
    skipEmptyLinesGo s tok (pre ++ b :: t) = .ok ((), ⟨s + tok.length + pre.length, [], b :: t⟩) := by
  induction hp with
  | nil => intro tok; simp [skipEmptyLinesGo_cons, beq_false_of_ne hcr, beq_false_of_ne hlf]
  | crlf _ ih =>
    intro tok
    rw [List.cons_append, List.cons_append, skipEmptyLinesGo_cons]
    simp only [beq_self_eq_true, if_true]
    rw [ih]; simp; omega
  | lf _ ih =>
    intro tok
    rw [List.cons_append, skipEmptyLinesGo_cons]
    have : (LF == CR) = false := by decide
    simp only [this, beq_self_eq_true, if_true, Bool.false_eq_true, if_false]
    rw [ih]; simp; omega

theorem skipEmptyLines_ok (s : Nat) (r : List Byte) (c' : Cur) :
    skipEmptyLines.run ⟨s, [], r⟩ = .ok ((), c') ↔
      ∃ pre r', r = pre ++ r' ∧ EmptyLines pre ∧ (∃ b t, r' = b :: t ∧ b ≠ CR ∧ b ≠ LF) ∧
        c' = ⟨s + pre.length, [], r'⟩ := by
  constructor
  · intro h
    simpa [skipEmptyLines] using skipEmptyLinesGo_fwd s [] r c' h
  · rintro ⟨pre, r', rfl, hp, ⟨b, t, rfl, hcr, hlf⟩, rfl⟩
    simpa [skipEmptyLines] using skipEmptyLinesGo_bwd s hp b t hcr hlf []

/-! ### `skip_spaces` -/

theorem skipSpacesGo_fwd (s : Nat) (tok r : List Byte) (c' : Cur)
    (h : skipSpacesGo s tok r = .ok ((), c')) :
    ∃ sp r', r = sp ++ r' ∧ (∀ b ∈ sp, b = SP) ∧ (∃ b t, r' = b :: t ∧ b ≠ SP) ∧
      c' = ⟨s + tok.length + sp.length, [], r'⟩ := by
  fun_induction skipSpacesGo s tok r with
  | case1 tok => simp at h
  | case2 tok b r hb ih =>
    obtain ⟨sp, r', rfl, hp, hne, rfl⟩ := ih h
    simp only [beq_iff_eq] at hb; subst hb
    exact ⟨SP :: sp, r', by simp, by simpa using hp, hne, by simp; omega⟩
  | case3 tok b r hb =>
    simp only [Outcome.ok.injEq, Prod.mk.injEq, true_and] at h
    subst h
    exact ⟨[], b :: r, by simp, by simp, ⟨b, r, rfl, by simpa using hb⟩, by simp⟩

theorem skipSpacesGo_bwd (s : Nat) (b : Byte) (t : List Byte) (hb : b ≠ SP) :
    ∀ (sp : List Byte), (∀ x ∈ sp, x = SP) → ∀ tok : List Byte,
    skipSpacesGo s tok (sp ++ b :: t) = .ok ((), ⟨s + tok.length + sp.length, [], b :: t⟩)
  | [], _, tok => by simp [skipSpacesGo, beq_false_of_ne hb]
  | x :: sp, h, tok => by
    have hx : x = SP := h x (by simp)
    subst hx
    rw [List.cons_append, skipSpacesGo]
    simp only [beq_self_eq_true, if_true]
    rw [skipSpacesGo_bwd s b t hb sp (fun y hy => h y (by simp [hy]))]
    simp; omega

theorem skipSpaces_ok (s : Nat) (tok r : List Byte) (c' : Cur) :
    skipSpaces.run ⟨s, tok, r⟩ = .ok ((), c') ↔
      ∃ sp r', r = sp ++ r' ∧ (∀ b ∈ sp, b = SP) ∧ (∃ b t, r' = b :: t ∧ b ≠ SP) ∧
        c' = ⟨s + tok.length + sp.length, [], r'⟩ := by
  constructor
  · intro h
    exact skipSpacesGo_fwd s tok r c' h
  · rintro ⟨sp, r', rfl, hp, ⟨b, t, rfl, hb⟩, rfl⟩
    exact skipSpacesGo_bwd s b t hb sp hp tok

/-- the optional SP run after a committed stage (`tok = []`) -/
theorem optSkipSpaces_ok (multi : Bool) (s : Nat) (r : List Byte) (c' : Cur) :
    (optSkipSpaces multi).run ⟨s, [], r⟩ = .ok ((), c') ↔
      ∃ sp r', r = sp ++ r' ∧ (∀ b ∈ sp, b = SP) ∧ (multi = false → sp = []) ∧
        (multi = true → ∃ b t, r' = b :: t ∧ b ≠ SP) ∧ c' = ⟨s + sp.length, [], r'⟩ := by
  cases multi with
  | false =>
    simp only [optSkipSpaces, Bool.false_eq_true, if_false, run_pure, Outcome.ok.injEq, Prod.mk.injEq, true_and]
    constructor
    · rintro rfl; exact ⟨[], r, by simp⟩
    · rintro ⟨sp, r', rfl, -, h, -, rfl⟩; simp [h trivial]
  | true =>
    simp only [optSkipSpaces, if_true, skipSpaces_ok]
    constructor
    · rintro ⟨sp, r', rfl, hp, hne, rfl⟩; exact ⟨sp, r', rfl, hp, by simp, fun _ => hne, by simp⟩
    · rintro ⟨sp, r', rfl, hp, -, hne, rfl⟩; exact ⟨sp, r', rfl, hp, hne trivial, by simp⟩

/-! ### `slice_skip`, `parse_token`, `parse_method` -/

theorem sliceSkip_app (s : Nat) (tok suf r : List Byte) :
    (sliceSkip suf.length).run ⟨s, tok ++ suf, r⟩ =
      .ok (⟨s, tok⟩, ⟨s + tok.length + suf.length, [], r⟩) := by
  simp [sliceSkip, Nat.add_assoc]

theorem tokenLoop_fwd (s : Nat) (tok r : List Byte) (m : Slice) (c' : Cur)
    (h : tokenLoop s tok r = .ok (m, c')) :
    ∃ w r', r = w ++ SP :: r' ∧ (∀ b ∈ w, isTchar b = true) ∧ m = ⟨s, tok ++ w⟩ ∧
      c' = ⟨s + tok.length + w.length + 1, [], r'⟩ := by
  fun_induction tokenLoop s tok r with
  | case1 tok => simp at h
  | case2 tok b r hb =>
    simp only [beq_iff_eq] at hb; subst hb
    have := sliceSkip_app s tok [SP] r
    simp only [List.length_cons, List.length_nil, Nat.zero_add] at this
    rw [this] at h
    simp only [Outcome.ok.injEq, Prod.mk.injEq] at h
    exact ⟨[], r, by simp, by simp, by simp [h.1], by simp [h.2]⟩
  | case3 tok b r hb hnt => simp at h
  | case4 tok b r hb ht ih =>
    obtain ⟨w, r', rfl, hw, rfl, rfl⟩ := ih h
    refine ⟨b :: w, r', by simp, ?_, by simp, by simp; omega⟩
    intro x hx
    simp only [List.mem_cons] at hx
    rcases hx with rfl | hx
    · simpa using ht
    · exact hw x hx

theorem parseToken_ok (s : Nat) (r : List Byte) (m : Slice) (c' : Cur) :
    parseToken.run ⟨s, [], r⟩ = .ok (m, c') ↔
      ∃ mb r', r = mb ++ SP :: r' ∧ mb ≠ [] ∧ (∀ b ∈ mb, isTchar b = true) ∧ m = ⟨s, mb⟩ ∧
        c' = ⟨s + mb.length + 1, [], r'⟩ := by
  constructor
  · intro h
    rw [parseToken_run] at h
    cases r with
    | nil => simp at h
    | cons b r1 =>
      simp only [List.nil_append] at h
      split at h
      · simp at h
      · rename_i hb
        obtain ⟨w, r', rfl, hw, rfl, rfl⟩ := tokenLoop_fwd _ _ _ _ _ h
        refine ⟨b :: w, r', by simp, by simp, ?_, by simp, by simp; omega⟩
        intro x hx
        simp only [List.mem_cons] at hx
        rcases hx with rfl | hx
        · simpa using hb
        · exact hw x hx
  · rintro ⟨mb, r', rfl, hne, hmb, rfl, rfl⟩
    cases mb with
    | nil => exact absurd rfl hne
    | cons b w =>
      have hb : isTchar b = true := hmb b (by simp)
      have hw : w.all isTchar = true := by
        simp only [List.all_eq_true]; intro x hx; exact hmb x (by simp [hx])
      rw [List.cons_append, parseToken_word s [] b w r' hb hw]
      have := sliceSkip_app s (b :: w) [SP] r'
      simp only [List.length_cons, List.length_nil, Nat.zero_add] at this
      simpa using this

theorem parseMethod_ok (s : Nat) (r : List Byte) (m : Slice) (c' : Cur) :
    parseMethod.run ⟨s, [], r⟩ = .ok (m, c') ↔
      ∃ mb r', r = mb ++ SP :: r' ∧ mb ≠ [] ∧ (∀ b ∈ mb, isTchar b = true) ∧ m = ⟨s, mb⟩ ∧
        c' = ⟨s + mb.length + 1, [], r'⟩ := by
  rw [parseMethod_run]; exact parseToken_ok s r m c'

/-! ### `parse_uri` -/

theorem parseUri_ok {be : Backend} (hbe : be.Exact) (s : Nat) (r : List Byte) (p : Slice) (c' : Cur) :
    (parseUri be).run ⟨s, [], r⟩ = .ok (p, c') ↔
      ∃ t r', r = t ++ SP :: r' ∧ t ≠ [] ∧ (∀ b ∈ t, isUri b = true) ∧ validUtf8 t = true ∧
        p = ⟨s, t⟩ ∧ c' = ⟨s + t.length + 1, [], r'⟩ := by
  have hsp : isUri SP = false := by decide
  constructor
  · intro h
    simp only [parseUri] at h
    obtain ⟨⟨n, b⟩, c1, h1, h⟩ := bind_ok.1 h
    rw [scanNext_run hbe.uri] at h1
    simp only [List.nil_append] at h1
    cases hd : r.dropWhile isUri with
    | nil => rw [hd] at h1; simp at h1
    | cons b' r' =>
      rw [hd] at h1
      simp only [Outcome.ok.injEq, Prod.mk.injEq] at h1
      obtain ⟨⟨rfl, rfl⟩, rfl⟩ := h1
      have hr : r = r.takeWhile isUri ++ b' :: r' := by rw [← hd]; simp
      simp only at h
      split at h
      · rename_i hb
        simp only [beq_iff_eq] at hb; subst hb
        split at h
        · simp at h
        · rename_i hn
          have h2 := sliceSkip_app s (r.takeWhile isUri) [SP] r'
          simp only [List.length_cons, List.length_nil, Nat.zero_add] at h2
          obtain ⟨sl, c2, h3, h⟩ := bind_ok.1 h
          rw [h2] at h3
          simp only [Outcome.ok.injEq, Prod.mk.injEq] at h3
          obtain ⟨rfl, rfl⟩ := h3
          split at h
          · rename_i hu
            simp only [run_pure, Outcome.ok.injEq, Prod.mk.injEq] at h
            refine ⟨r.takeWhile isUri, r', hr, ?_, ?_, hu, h.1.symm, h.2.symm⟩
            · intro he; rw [he] at hn; simp at hn
            · have := List.all_takeWhile (l := r) (p := isUri)
              rw [List.all_eq_true] at this; exact this
          · simp at h
      · simp at h
  · rintro ⟨t, r', rfl, hne, ht, hu, rfl, rfl⟩
    have htw := takeWhile_stop r' hsp t ht
    simp only [parseUri]
    apply bind_ok.2
    refine ⟨(t.length, SP), ⟨s, t ++ [SP], r'⟩, ?_, ?_⟩
    · rw [scanNext_run hbe.uri]; simp [htw.1, htw.2]
    · have hn : ¬ t.length = 0 := by
        intro h0; exact hne (List.length_eq_zero_iff.1 h0)
      have h2 := sliceSkip_app s t [SP] r'
      simp only [List.length_cons, List.length_nil, Nat.zero_add] at h2
      simp only [beq_self_eq_true, if_true, beq_iff_eq, hn, if_false]
      apply bind_ok.2
      exact ⟨_, _, h2, by simp [hu]⟩

/-! ### `parse_version` -/

theorem versionBytes_zero : versionBytes 0 = H10 := rfl
theorem versionBytes_one : versionBytes 1 = H11 := rfl

theorem parseVersion_ok (s : Nat) (tok r : List Byte) (v : Nat) (c' : Cur) :
    parseVersion.run ⟨s, tok, r⟩ = .ok (v, c') ↔
      (v = 0 ∨ v = 1) ∧ ∃ r', r = versionBytes v ++ r' ∧ c' = ⟨s, tok ++ versionBytes v, r'⟩ := by
  constructor
  · intro h
    by_cases h8 : 8 ≤ r.length
    · rw [parseVersion_long _ h8] at h
      simp only at h
      split at h
      · rename_i e
        simp only [beq_iff_eq] at e
        simp only [Outcome.ok.injEq, Prod.mk.injEq] at h
        obtain ⟨rfl, rfl⟩ := h
        refine ⟨Or.inl rfl, r.drop 8, ?_, ?_⟩
        · rw [versionBytes_zero, ← e]; simp
        · rw [versionBytes_zero, ← e]
      · split at h
        · rename_i e
          simp only [beq_iff_eq] at e
          simp only [Outcome.ok.injEq, Prod.mk.injEq] at h
          obtain ⟨rfl, rfl⟩ := h
          refine ⟨Or.inr rfl, r.drop 8, ?_, ?_⟩
          · rw [versionBytes_one, ← e]; simp
          · rw [versionBytes_one, ← e]
        · simp at h
    · rw [parseVersion_short _ (by simp only; omega)] at h
      exact absurd h (bwVersion_neverOk _ _ _)
  · rintro ⟨hv, r', rfl, rfl⟩
    rcases hv with rfl | rfl
    · rw [parseVersion_long _ (by simp [versionBytes]), versionBytes_zero]
      have : (H10 ++ r').take 8 = H10 := rfl
      have hd : (H10 ++ r').drop 8 = r' := rfl
      simp only [this, hd, beq_self_eq_true, if_true]
    · rw [parseVersion_long _ (by simp [versionBytes]), versionBytes_one]
      have : (H11 ++ r').take 8 = H11 := rfl
      have hd : (H11 ++ r').drop 8 = r' := rfl
      have hne : (H11 == H10) = false := by decide
      simp only [this, hd, hne, beq_self_eq_true, if_true, Bool.false_eq_true, if_false]

/-! ### `newline!`, `space!`, `parse_code` -/

theorem newline_run (s : Nat) (tok r : List Byte) :
    newline.run ⟨s, tok, r⟩ =
      match r with
      | [] => .part
      | b :: r1 =>
        if b == CR then
          match r1 with
          | [] => .part
          | b2 :: r2 => if b2 == LF then .ok ((), ⟨s + tok.length + 2, [], r2⟩) else .err .newLine
        else if b == LF then .ok ((), ⟨s + tok.length + 1, [], r1⟩)
        else .err .newLine := by
  cases r with
  | nil => simp [newline, next]
  | cons b r1 =>
    by_cases hb : b = CR
    · subst hb
      cases r1 with
      | nil => simp [newline, next, expect]
      | cons b2 r2 =>
        by_cases hb2 : b2 = LF
        · subst hb2; simp [newline, next, expect, slice]; omega
        · simp [newline, next, expect, hb2]
    · by_cases hb2 : b = LF
      · subst hb2; simp [newline, next, slice, hb]; omega
      · simp [newline, next, hb, hb2]

theorem newline_ok (s : Nat) (tok r : List Byte) (c' : Cur) :
    newline.run ⟨s, tok, r⟩ = .ok ((), c') ↔
      ∃ eol r', IsEol eol ∧ r = eol ++ r' ∧ c' = ⟨s + tok.length + eol.length, [], r'⟩ := by
  rw [newline_run]
  constructor
  · intro h
    split at h
    · simp at h
    · rename_i b r1
      split at h
      · rename_i hb
        simp only [beq_iff_eq] at hb; subst hb
        split at h
        · simp at h
        · rename_i b2 r2
          split at h
          · rename_i hb2
            simp only [beq_iff_eq] at hb2; subst hb2
            simp only [Outcome.ok.injEq, Prod.mk.injEq, true_and] at h
            exact ⟨[CR, LF], r2, Or.inl rfl, rfl, h.symm⟩
          · simp at h
      · split at h
        · rename_i hb
          simp only [beq_iff_eq] at hb; subst hb
          simp only [Outcome.ok.injEq, Prod.mk.injEq, true_and] at h
          exact ⟨[LF], r1, Or.inr rfl, rfl, h.symm⟩
        · simp at h
  · rintro ⟨eol, r', he, rfl, rfl⟩
    rcases he with rfl | rfl
    · simp
    · have : (LF == CR) = false := by decide
      simp [this]

theorem space_ok (e : Error) (s : Nat) (tok r : List Byte) (c' : Cur) :
    (space e).run ⟨s, tok, r⟩ = .ok ((), c') ↔
      ∃ r', r = SP :: r' ∧ c' = ⟨s + tok.length + 1, [], r'⟩ := by
  cases r with
  | nil => simp [space, expect, next]
  | cons b r1 =>
    simp only [space, expect, next, run_bind]
    by_cases hb : b = SP
    · subst hb; simp [slice, Nat.add_assoc, eq_comm]
    · simp [hb]

theorem expect_ok (p : Byte → Bool) (e : Error) (s : Nat) (tok r : List Byte) (b : Byte) (c' : Cur) :
    (expect p e).run ⟨s, tok, r⟩ = .ok (b, c') ↔
      ∃ r', r = b :: r' ∧ p b = true ∧ c' = ⟨s, tok ++ [b], r'⟩ := by
  cases r with
  | nil => simp [expect, next]
  | cons x r1 =>
    simp only [expect, next, run_bind]
    cases hx : p x
    · simp only [Bool.false_eq_true, if_false, run_fail, List.cons.injEq]
      constructor
      · intro h; cases h
      · rintro ⟨r', ⟨rfl, rfl⟩, hb, -⟩; rw [hx] at hb; cases hb
    · simp only [if_true, run_pure, Outcome.ok.injEq, Prod.mk.injEq, List.cons.injEq]
      constructor
      · rintro ⟨rfl, rfl⟩; exact ⟨r1, ⟨rfl, rfl⟩, hx, rfl⟩
      · rintro ⟨r', ⟨rfl, rfl⟩, -, rfl⟩; exact ⟨rfl, rfl⟩

theorem parseCode_ok (s : Nat) (tok r : List Byte) (code : Nat) (c' : Cur) :
    parseCode.run ⟨s, tok, r⟩ = .ok (code, c') ↔
      ∃ d₁ d₂ d₃ r', r = d₁ :: d₂ :: d₃ :: r' ∧ isDigit d₁ = true ∧ isDigit d₂ = true ∧ isDigit d₃ = true ∧
        code = codeValue d₁ d₂ d₃ ∧ c' = ⟨s, tok ++ [d₁, d₂, d₃], r'⟩ := by
  unfold parseCode
  constructor
  · intro h
    obtain ⟨d₁, c1, h1, h⟩ := bind_ok.1 h
    obtain ⟨r1, rfl, hd1, rfl⟩ := (expect_ok _ _ _ _ _ _ _).1 h1
    obtain ⟨d₂, c2, h2, h⟩ := bind_ok.1 h
    obtain ⟨r2, rfl, hd2, rfl⟩ := (expect_ok _ _ _ _ _ _ _).1 h2
    obtain ⟨d₃, c3, h3, h⟩ := bind_ok.1 h
    obtain ⟨r3, rfl, hd3, rfl⟩ := (expect_ok _ _ _ _ _ _ _).1 h3
    simp only [run_pure, Outcome.ok.injEq, Prod.mk.injEq] at h
    exact ⟨d₁, d₂, d₃, r3, rfl, hd1, hd2, hd3, h.1.symm, by rw [← h.2]; simp⟩
  · rintro ⟨d₁, d₂, d₃, r', rfl, hd1, hd2, hd3, rfl, rfl⟩
    refine bind_ok.2 ⟨d₁, _, (expect_ok _ _ _ _ _ _ _).2 ⟨_, rfl, hd1, rfl⟩, ?_⟩
    refine bind_ok.2 ⟨d₂, _, (expect_ok _ _ _ _ _ _ _).2 ⟨_, rfl, hd2, rfl⟩, ?_⟩
    refine bind_ok.2 ⟨d₃, _, (expect_ok _ _ _ _ _ _ _).2 ⟨_, rfl, hd3, rfl⟩, ?_⟩
    simp [codeValue]

/-! ### `parse_reason` -/

/-- what `parse_reason` reports for reason bytes `w` found at offset `off` -/
def reasonStr (seen : Bool) (off : Nat) (w : List Byte) : Str :=
  if seen then .staticEmpty else .slice ⟨off, w⟩

theorem reasonFinish_app (seen : Bool) (s : Nat) (tok suf r : List Byte) :
    (reasonFinish seen suf.length).run ⟨s, tok ++ suf, r⟩ =
      .ok (reasonStr seen s tok, ⟨s + tok.length + suf.length, [], r⟩) := by
  unfold reasonFinish
  apply bind_ok.2
  refine ⟨_, _, sliceSkip_app s tok suf r, ?_⟩
  cases seen <;> simp [reasonStr]

theorem reasonLoop_fwd (s : Nat) (seen : Bool) (tok r : List Byte) (str : Str) (c' : Cur)
    (h : reasonLoop s seen tok r = .ok (str, c')) :
    ∃ w eol r', r = w ++ eol ++ r' ∧ (∀ b ∈ w, isReason b = true) ∧ IsEol eol ∧
      str = reasonStr (seen || w.any (fun b => 0x80 ≤ b)) s (tok ++ w) ∧
      c' = ⟨s + tok.length + w.length + eol.length, [], r'⟩ := by
  fun_induction reasonLoop s seen tok r with
  | case1 seen tok => simp at h
  | case2 seen tok b hb => simp at h
  | case3 seen tok b hb b2 r2 hb2 =>
    simp only [beq_iff_eq] at hb hb2; subst hb; subst hb2
    have := reasonFinish_app seen s tok [CR, LF] r2
    simp only [List.length_cons, List.length_nil, Nat.zero_add] at this
    rw [this] at h
    simp only [Outcome.ok.injEq, Prod.mk.injEq] at h
    exact ⟨[], [CR, LF], r2, by simp, by simp, Or.inl rfl, by simp [h.1], by simp [h.2]⟩
  | case4 seen tok b hb b2 r2 hb2 => simp at h
  | case5 seen tok b r hb hb2 =>
    simp only [beq_iff_eq] at hb2; subst hb2
    have := reasonFinish_app seen s tok [LF] r
    simp only [List.length_cons, List.length_nil, Nat.zero_add] at this
    rw [this] at h
    simp only [Outcome.ok.injEq, Prod.mk.injEq] at h
    exact ⟨[], [LF], r, by simp, by simp, Or.inr rfl, by simp [h.1], by simp [h.2]⟩
  | case6 seen tok b r hb hb2 hnr => simp at h
  | case7 seen tok b r hb hb2 hr ih =>
    obtain ⟨w, eol, r', rfl, hw, he, rfl, rfl⟩ := ih h
    refine ⟨b :: w, eol, r', by simp, ?_, he, by simp [Bool.or_assoc], by simp; omega⟩
    intro x hx
    simp only [List.mem_cons] at hx
    rcases hx with rfl | hx
    · simpa using hr
    · exact hw x hx

theorem reasonLoop_bwd (s : Nat) (eol r' : List Byte) (he : IsEol eol) :
    ∀ (w : List Byte), (∀ b ∈ w, isReason b = true) → ∀ (seen : Bool) (tok : List Byte),
    reasonLoop s seen tok (w ++ eol ++ r') =
      .ok (reasonStr (seen || w.any (fun b => 0x80 ≤ b)) s (tok ++ w),
           ⟨s + tok.length + w.length + eol.length, [], r'⟩)
  | [], _, seen, tok => by
    rcases he with rfl | rfl
    · have := reasonFinish_app seen s tok [CR, LF] r'
      simp only [List.length_cons, List.length_nil, Nat.zero_add] at this
      simp [reasonLoop_cons, this]
    · have := reasonFinish_app seen s tok [LF] r'
      simp only [List.length_cons, List.length_nil, Nat.zero_add] at this
      have hne : (LF == CR) = false := by decide
      simp [reasonLoop_cons, this, hne]
  | b :: w, h, seen, tok => by
    have hb : isReason b = true := h b (by simp)
    rw [List.cons_append, List.cons_append, reasonLoop_cons]
    simp only [beq_false_of_ne (reason_ne_cr hb), beq_false_of_ne (reason_ne_lf hb), hb,
      Bool.false_eq_true, if_false, Bool.not_true]
    rw [reasonLoop_bwd s eol r' he w (fun x hx => h x (by simp [hx]))]
    simp [Bool.or_assoc]; omega

theorem parseReason_ok (s : Nat) (r : List Byte) (str : Str) (c' : Cur) :
    parseReason.run ⟨s, [], r⟩ = .ok (str, c') ↔
      ∃ w eol r', r = w ++ eol ++ r' ∧ (∀ b ∈ w, isReason b = true) ∧ IsEol eol ∧
        str = reportedReason s (some w) ∧ c' = ⟨s + w.length + eol.length, [], r'⟩ := by
  have key : ∀ w : List Byte, reasonStr (false || w.any (fun b => 0x80 ≤ b)) s ([] ++ w) = reportedReason s (some w) := by
    intro w; simp [reasonStr, reportedReason]
  constructor
  · intro h
    obtain ⟨w, eol, r', rfl, hw, he, rfl, rfl⟩ := reasonLoop_fwd s false [] r str c' h
    exact ⟨w, eol, r', rfl, hw, he, key w, by simp⟩
  · rintro ⟨w, eol, r', rfl, hw, he, rfl, rfl⟩
    have := reasonLoop_bwd s eol r' he w hw false []
    rw [key] at this
    simpa [parseReason] using this

/-! ### the reason branch of the status line -/

theorem next_ok (s : Nat) (tok r : List Byte) (b : Byte) (c' : Cur) :
    next.run ⟨s, tok, r⟩ = .ok (b, c') ↔ ∃ r1, r = b :: r1 ∧ c' = ⟨s, tok ++ [b], r1⟩ := by
  cases r with
  | nil => simp [next]
  | cons x r1 =>
    simp only [next, Outcome.ok.injEq, Prod.mk.injEq, List.cons.injEq]
    constructor
    · rintro ⟨rfl, rfl⟩; exact ⟨r1, ⟨rfl, rfl⟩, rfl⟩
    · rintro ⟨r', ⟨rfl, rfl⟩, rfl⟩; exact ⟨rfl, rfl⟩

theorem slice_ok (s : Nat) (tok r : List Byte) (sl : Slice) (c' : Cur) :
    slice.run ⟨s, tok, r⟩ = .ok (sl, c') ↔ sl = ⟨s, tok⟩ ∧ c' = ⟨s + tok.length, [], r⟩ := by
  simp [slice, eq_comm]

theorem eol_head_ne_sp {w eol r' : List Byte} (he : IsEol eol) (hw : w.head? ≠ some SP) :
    ∃ x t, w ++ eol ++ r' = x :: t ∧ x ≠ SP := by
  cases w with
  | nil =>
    rcases he with rfl | rfl
    · exact ⟨CR, LF :: r', by simp, by decide⟩
    · exact ⟨LF, r', by simp, by decide⟩
  | cons y w => exact ⟨y, w ++ eol ++ r', by simp, by simpa using hw⟩

theorem reasonBranch_ok (multi : Bool) (s : Nat) (tok r : List Byte) (str : Str) (c' : Cur) :
    (reasonBranch multi).run ⟨s, tok, r⟩ = .ok (str, c') ↔
      ∃ tail ro reason r', StatusTail multi tail ro reason ∧ r = tail ++ r' ∧
        str = reportedReason (s + tok.length + ro) reason ∧
        c' = ⟨s + tok.length + tail.length, [], r'⟩ := by
  unfold reasonBranch
  constructor
  · intro h
    obtain ⟨b, c1, h1, h⟩ := bind_ok.1 h
    obtain ⟨r1, rfl, rfl⟩ := (next_ok _ _ _ _ _).1 h1
    split at h
    · rename_i hb
      simp only [beq_iff_eq] at hb; subst hb
      obtain ⟨⟨⟩, c2, h2, h⟩ := bind_ok.1 h
      obtain ⟨sl, c3, h3, h⟩ := bind_ok.1 h
      cases multi with
      | false =>
        simp only [optSkipSpaces, Bool.false_eq_true, if_false, run_pure, Outcome.ok.injEq, Prod.mk.injEq, true_and] at h2
        subst h2
        obtain ⟨-, rfl⟩ := (slice_ok _ _ _ _ _).1 h3
        obtain ⟨w, eol, r', rfl, hw, he, rfl, rfl⟩ := (parseReason_ok _ _ _ _).1 h
        refine ⟨SP :: [] ++ w ++ eol, 1 + ([] : List Byte).length, some w, r',
          .reason (by simp) (by simp) (by simp) hw he, by simp, ?_, ?_⟩
        · simp [Nat.add_assoc]
        · simp; omega
      | true =>
        simp only [optSkipSpaces, if_true] at h2
        obtain ⟨sp, r2, rfl, hsp, ⟨x, t, rfl, hx⟩, rfl⟩ := (skipSpaces_ok _ _ _ _).1 h2
        obtain ⟨-, rfl⟩ := (slice_ok _ _ _ _ _).1 h3
        obtain ⟨w, eol, r', hr, hw, he, rfl, rfl⟩ := (parseReason_ok _ _ _ _).1 h
        refine ⟨SP :: sp ++ w ++ eol, 1 + sp.length, some w, r',
          .reason hsp (by simp) ?_ hw he, by simp [hr], ?_, ?_⟩
        · intro _ hh
          cases w with
          | nil => simp at hh
          | cons y w =>
            simp only [List.head?_cons, Option.some.injEq] at hh
            simp only [List.cons_append, List.cons.injEq] at hr
            exact hx (hr.1.trans hh)
        · congr 1; simp; omega
        · simp; omega
    · split at h
      · rename_i hb
        simp only [beq_iff_eq] at hb; subst hb
        obtain ⟨b2, c2, h2, h⟩ := bind_ok.1 h
        obtain ⟨r2, rfl, hb2, rfl⟩ := (expect_ok _ _ _ _ _ _ _).1 h2
        simp only [beq_iff_eq] at hb2; subst hb2
        obtain ⟨sl, c3, h3, h⟩ := bind_ok.1 h
        obtain ⟨-, rfl⟩ := (slice_ok _ _ _ _ _).1 h3
        simp only [run_pure, Outcome.ok.injEq, Prod.mk.injEq] at h
        exact ⟨[CR, LF], 0, none, r2, .bare (Or.inl rfl), by simp, by simp [reportedReason, h.1],
          by rw [← h.2]; simp; omega⟩
      · split at h
        · rename_i hb
          simp only [beq_iff_eq] at hb; subst hb
          obtain ⟨sl, c3, h3, h⟩ := bind_ok.1 h
          obtain ⟨-, rfl⟩ := (slice_ok _ _ _ _ _).1 h3
          simp only [run_pure, Outcome.ok.injEq, Prod.mk.injEq] at h
          exact ⟨[LF], 0, none, r1, .bare (Or.inr rfl), by simp, by simp [reportedReason, h.1],
            by rw [← h.2]; simp; omega⟩
        · simp at h
  · rintro ⟨tail, ro, reason, r', ht, rfl, rfl, rfl⟩
    cases ht with
    | bare he =>
      rcases he with rfl | rfl
      · refine bind_ok.2 ⟨CR, _, (next_ok _ _ _ _ _).2 ⟨_, rfl, rfl⟩, ?_⟩
        have h1 : (CR == SP) = false := by decide
        simp only [h1, Bool.false_eq_true, if_false, beq_self_eq_true, if_true]
        refine bind_ok.2 ⟨LF, _, (expect_ok _ _ _ _ _ _ _).2 ⟨_, rfl, by simp, rfl⟩, ?_⟩
        refine bind_ok.2 ⟨_, _, (slice_ok _ _ _ _ _).2 ⟨rfl, rfl⟩, ?_⟩
        simp [reportedReason]; omega
      · refine bind_ok.2 ⟨LF, _, (next_ok _ _ _ _ _).2 ⟨_, rfl, rfl⟩, ?_⟩
        have h1 : (LF == SP) = false := by decide
        have h2 : (LF == CR) = false := by decide
        simp only [h1, h2, Bool.false_eq_true, if_false, beq_self_eq_true, if_true]
        refine bind_ok.2 ⟨_, _, (slice_ok _ _ _ _ _).2 ⟨rfl, rfl⟩, ?_⟩
        simp [reportedReason]; omega
    | @reason sp₂ w eol hsp hm hh hw he =>
      refine bind_ok.2 ⟨SP, _, (next_ok _ _ _ _ _).2 ⟨sp₂ ++ w ++ eol ++ r', by simp, rfl⟩, ?_⟩
      simp only [beq_self_eq_true, if_true]
      cases multi with
      | false =>
        have := hm rfl; subst this
        refine bind_ok.2 ⟨(), ⟨s, tok ++ [SP], w ++ eol ++ r'⟩, by simp [optSkipSpaces], ?_⟩
        refine bind_ok.2 ⟨_, _, (slice_ok _ _ _ _ _).2 ⟨rfl, rfl⟩, ?_⟩
        refine (parseReason_ok _ _ _ _).2 ⟨w, eol, r', by simp, hw, he, ?_, ?_⟩
        · simp [Nat.add_assoc]
        · simp; omega
      | true =>
        obtain ⟨x, t, hxt, hx⟩ := eol_head_ne_sp (r' := r') he (hh rfl)
        refine bind_ok.2 ⟨(), ⟨s + (tok ++ [SP]).length + sp₂.length, [], w ++ eol ++ r'⟩, ?_, ?_⟩
        · simp only [optSkipSpaces, if_true]
          exact (skipSpaces_ok _ _ _ _).2 ⟨sp₂, w ++ eol ++ r', by simp, hsp, ⟨x, t, hxt, hx⟩, rfl⟩
        refine bind_ok.2 ⟨_, _, (slice_ok _ _ _ _ _).2 ⟨rfl, rfl⟩, ?_⟩
        refine (parseReason_ok _ _ _ _).2 ⟨w, eol, r', by simp, hw, he, ?_, ?_⟩
        · congr 1; simp; omega
        · simp; omega

/-! ### C06 — the request line -/

theorem isDelim_iff (multi : Bool) (sp₁ : List Byte) :
    IsDelim multi sp₁ ↔ ∃ sp, sp₁ = SP :: sp ∧ (∀ b ∈ sp, b = SP) ∧ (multi = false → sp = []) := by
  constructor
  · rintro (rfl | ⟨hm, hne, hall⟩)
    · exact ⟨[], rfl, by simp, fun _ => rfl⟩
    · cases sp₁ with
      | nil => exact absurd rfl hne
      | cons y sp =>
        have : y = SP := hall y (by simp)
        subst this
        exact ⟨sp, rfl, fun b hb => hall b (by simp [hb]), fun h => by rw [hm] at h; cases h⟩
  · rintro ⟨sp, rfl, hall, hm⟩
    cases sp with
    | nil => exact Or.inl rfl
    | cons y sp =>
      right
      refine ⟨?_, by simp, ?_⟩
      · cases multi with
        | true => rfl
        | false => exact absurd (hm rfl) (by simp)
      · intro b hb
        simp only [List.mem_cons] at hb
        rcases hb with rfl | hb
        · rfl
        · exact hall b (by simpa using hb)

theorem versionBytes_length (v : Nat) : (versionBytes v).length = 8 := rfl

theorem reqLine_iff (be : Backend) (hbe : be.Exact) (multi : Bool) (buf : List Byte)
    (m p : Slice) (v : Nat) (c : Cur) :
    (reqLineP be multi).run (Cur.new buf) = .ok ((m, p, v), c) ↔
      ∃ pre mb sp₁ t sp₂ eol rest, IsRequestLine multi pre mb sp₁ t sp₂ v eol ∧
        buf = requestLineBytes pre mb sp₁ t sp₂ v eol ++ rest ∧
        m = ⟨pre.length, mb⟩ ∧ p = ⟨pre.length + mb.length + sp₁.length, t⟩ ∧
        c = ⟨(requestLineBytes pre mb sp₁ t sp₂ v eol).length, [], rest⟩ := by
  unfold reqLineP Cur.new
  constructor
  · intro h
    obtain ⟨⟨⟩, c1, h1, h⟩ := bind_ok.1 h
    obtain ⟨pre, r1, rfl, hpre, -, rfl⟩ := (skipEmptyLines_ok _ _ _).1 h1
    obtain ⟨m', c2, h2, h⟩ := bind_ok.1 h
    obtain ⟨mb, r2, rfl, hmne, hmb, rfl, rfl⟩ := (parseMethod_ok _ _ _ _).1 h2
    obtain ⟨⟨⟩, c3, h3, h⟩ := bind_ok.1 h
    obtain ⟨spa, r3, rfl, hspa, hma, -, rfl⟩ := (optSkipSpaces_ok _ _ _ _).1 h3
    obtain ⟨p', c4, h4, h⟩ := bind_ok.1 h
    obtain ⟨t, r4, rfl, htne, ht, hu, rfl, rfl⟩ := (parseUri_ok hbe _ _ _ _).1 h4
    obtain ⟨⟨⟩, c5, h5, h⟩ := bind_ok.1 h
    obtain ⟨spb, r5, rfl, hspb, hmb', -, rfl⟩ := (optSkipSpaces_ok _ _ _ _).1 h5
    obtain ⟨v', c6, h6, h⟩ := bind_ok.1 h
    obtain ⟨hv, r6, rfl, rfl⟩ := (parseVersion_ok _ _ _ _ _).1 h6
    obtain ⟨⟨⟩, c7, h7, h⟩ := bind_ok.1 h
    obtain ⟨eol, rest, he, rfl, rfl⟩ := (newline_ok _ _ _ _).1 h7
    simp only [run_pure, Outcome.ok.injEq, Prod.mk.injEq] at h
    obtain ⟨⟨rfl, rfl, rfl⟩, rfl⟩ := h
    refine ⟨pre, mb, SP :: spa, t, SP :: spb, eol, rest,
      ⟨hpre, hmne, hmb, (isDelim_iff _ _).2 ⟨spa, rfl, hspa, hma⟩, htne, ht, hu,
        (isDelim_iff _ _).2 ⟨spb, rfl, hspb, hmb'⟩, hv, he⟩, ?_, ?_, ?_, ?_⟩
    · simp [requestLineBytes]
    · simp
    · simp; omega
    · simp [requestLineBytes, versionBytes_length]; omega
  · rintro ⟨pre, mb, sp₁, t, sp₂, eol, rest, hl, rfl, rfl, rfl, rfl⟩
    obtain ⟨hpre, hmne, hmb, hd1, htne, ht, hu, hd2, hv, he⟩ := hl
    obtain ⟨spa, rfl, hspa, hma⟩ := (isDelim_iff _ _).1 hd1
    obtain ⟨spb, rfl, hspb, hmb'⟩ := (isDelim_iff _ _).1 hd2
    have hbuf : requestLineBytes pre mb (SP :: spa) t (SP :: spb) v eol ++ rest =
        pre ++ (mb ++ SP :: (spa ++ (t ++ SP :: (spb ++ (versionBytes v ++ (eol ++ rest)))))) := by
      simp [requestLineBytes]
    rw [hbuf]
    cases mb with
    | nil => exact absurd rfl hmne
    | cons b w =>
    cases t with
    | nil => exact absurd rfl htne
    | cons x t' =>
    have hb : isTchar b = true := hmb b (by simp)
    have hx : isUri x = true := ht x (by simp)
    refine bind_ok.2 ⟨(), _, (skipEmptyLines_ok _ _ _).2
      ⟨pre, _, rfl, hpre, ⟨b, _, rfl, tchar_ne_cr hb, tchar_ne_lf hb⟩, rfl⟩, ?_⟩
    refine bind_ok.2 ⟨_, _, (parseMethod_ok _ _ _ _).2 ⟨b :: w, _, rfl, hmne, hmb, rfl, rfl⟩, ?_⟩
    refine bind_ok.2 ⟨(), _, (optSkipSpaces_ok _ _ _ _).2
      ⟨spa, _, rfl, hspa, hma, fun _ => ⟨x, _, rfl, uri_ne_sp hx⟩, rfl⟩, ?_⟩
    refine bind_ok.2 ⟨_, _, (parseUri_ok hbe _ _ _ _).2 ⟨x :: t', _, rfl, htne, ht, hu, rfl, rfl⟩, ?_⟩
    refine bind_ok.2 ⟨(), _, (optSkipSpaces_ok _ _ _ _).2
      ⟨spb, _, rfl, hspb, hmb', fun _ => ⟨0x48, _, rfl, by decide⟩, rfl⟩, ?_⟩
    refine bind_ok.2 ⟨v, _, (parseVersion_ok _ _ _ _ _).2 ⟨hv, _, rfl, rfl⟩, ?_⟩
    refine bind_ok.2 ⟨(), _, (newline_ok _ _ _ _).2 ⟨eol, rest, he, rfl, rfl⟩, ?_⟩
    simp [requestLineBytes, versionBytes_length]
    omega

/-! ### C07 — the status line -/

theorem respLine_iff (multi : Bool) (buf : List Byte) (v code : Nat) (r : Str) (c : Cur) :
    (respLineP multi).run (Cur.new buf) = .ok ((v, code, r), c) ↔
      ∃ pre sp₁ d₁ d₂ d₃ tail reasonOff reason rest,
        IsStatusLine multi pre v sp₁ d₁ d₂ d₃ tail reasonOff reason ∧
        buf = statusLineBytes pre v sp₁ d₁ d₂ d₃ tail ++ rest ∧
        code = codeValue d₁ d₂ d₃ ∧
        r = reportedReason (pre.length + 8 + sp₁.length + 3 + reasonOff) reason ∧
        c = ⟨(statusLineBytes pre v sp₁ d₁ d₂ d₃ tail).length, [], rest⟩ := by
  unfold respLineP Cur.new
  constructor
  · intro h
    obtain ⟨⟨⟩, c1, h1, h⟩ := bind_ok.1 h
    obtain ⟨pre, r1, rfl, hpre, -, rfl⟩ := (skipEmptyLines_ok _ _ _).1 h1
    obtain ⟨v', c2, h2, h⟩ := bind_ok.1 h
    obtain ⟨hv, r2, rfl, rfl⟩ := (parseVersion_ok _ _ _ _ _).1 h2
    obtain ⟨⟨⟩, c3, h3, h⟩ := bind_ok.1 h
    obtain ⟨r3, rfl, rfl⟩ := (space_ok _ _ _ _ _).1 h3
    obtain ⟨⟨⟩, c4, h4, h⟩ := bind_ok.1 h
    obtain ⟨spa, r4, rfl, hspa, hma, -, rfl⟩ := (optSkipSpaces_ok _ _ _ _).1 h4
    obtain ⟨code', c5, h5, h⟩ := bind_ok.1 h
    obtain ⟨d₁, d₂, d₃, r5, rfl, hd1, hd2, hd3, rfl, rfl⟩ := (parseCode_ok _ _ _ _ _).1 h5
    obtain ⟨str, c6, h6, h⟩ := bind_ok.1 h
    obtain ⟨tail, ro, reason, rest, htail, rfl, rfl, rfl⟩ := (reasonBranch_ok _ _ _ _ _ _).1 h6
    simp only [run_pure, Outcome.ok.injEq, Prod.mk.injEq] at h
    obtain ⟨⟨rfl, rfl, rfl⟩, rfl⟩ := h
    refine ⟨pre, SP :: spa, d₁, d₂, d₃, tail, ro, reason, rest,
      ⟨hpre, hv, (isDelim_iff _ _).2 ⟨spa, rfl, hspa, hma⟩, hd1, hd2, hd3, htail⟩, ?_, rfl, ?_, ?_⟩
    · simp [statusLineBytes]
    · congr 1; simp [versionBytes_length]; omega
    · simp [statusLineBytes, versionBytes_length]; omega
  · rintro ⟨pre, sp₁, d₁, d₂, d₃, tail, ro, reason, rest, hl, rfl, rfl, rfl, rfl⟩
    obtain ⟨hpre, hv, hd, hd1, hd2, hd3, htail⟩ := hl
    obtain ⟨spa, rfl, hspa, hma⟩ := (isDelim_iff _ _).1 hd
    have hbuf : statusLineBytes pre v (SP :: spa) d₁ d₂ d₃ tail ++ rest =
        pre ++ (versionBytes v ++ SP :: (spa ++ d₁ :: d₂ :: d₃ :: (tail ++ rest))) := by
      simp [statusLineBytes]
    rw [hbuf]
    refine bind_ok.2 ⟨(), _, (skipEmptyLines_ok _ _ _).2
      ⟨pre, _, rfl, hpre, ⟨0x48, _, rfl, by decide, by decide⟩, rfl⟩, ?_⟩
    refine bind_ok.2 ⟨v, _, (parseVersion_ok _ _ _ _ _).2 ⟨hv, _, rfl, rfl⟩, ?_⟩
    refine bind_ok.2 ⟨(), _, (space_ok _ _ _ _ _).2 ⟨_, rfl, rfl⟩, ?_⟩
    refine bind_ok.2 ⟨(), _, (optSkipSpaces_ok _ _ _ _).2
      ⟨spa, _, rfl, hspa, hma, fun _ => ⟨d₁, _, rfl, digit_ne_sp hd1⟩, rfl⟩, ?_⟩
    refine bind_ok.2 ⟨_, _, (parseCode_ok _ _ _ _ _).2 ⟨d₁, d₂, d₃, _, rfl, hd1, hd2, hd3, rfl, rfl⟩, ?_⟩
    refine bind_ok.2 ⟨_, _, (reasonBranch_ok _ _ _ _ _ _).2 ⟨tail, ro, reason, rest, htail, rfl, rfl, rfl⟩, ?_⟩
    simp only [run_pure, Outcome.ok.injEq, Prod.mk.injEq, true_and]
    refine ⟨?_, ?_⟩
    · congr 1; simp [versionBytes_length]; omega
    · simp [statusLineBytes, versionBytes_length]; omega

/-! ### the cores are the line stages followed by the header block -/

/-- `res` is what a core computes when its start-line stages run as `o` and the completed line is
continued by `K` -/
def Via {β V : Type} (K : β → Cur → Res V) (o : Outcome (β × Cur)) (res : Res V) : Prop :=
  (∀ b c, o = .ok (b, c) → res = K b c) ∧ (∀ e, o = .err e → res.status = .err e) ∧
  (o = .part → res.status = .part)

theorem Via.step {α β V : Type} {K : β → Cur → Res V} (f : P α) (g : α → P β) (c : Cur) (v : V)
    (k : α → Cur → Res V) (h : ∀ a c', Via K ((g a).run c') (k a c')) :
    Via K ((f >>= g).run c) (step (f.run c) v k) := by
  simp only [run_bind, Hx.step]
  cases f.run c with
  | ok r => obtain ⟨a, c'⟩ := r; exact h a c'
  | part => exact ⟨by simp, by simp, fun _ => rfl⟩
  | err e => exact ⟨by simp, by simp, by simp⟩
  | ub u => exact ⟨by simp, by simp, by simp⟩

theorem Via.done {β V : Type} {K : β → Cur → Res V} (b : β) (c : Cur) :
    Via K ((pure b : P β).run c) (K b c) := by
  refine ⟨?_, by simp, by simp⟩
  intro b' c' h
  simp only [run_pure, Outcome.ok.injEq, Prod.mk.injEq] at h
  rw [h.1, h.2]

theorem reqCore_via (be : Backend) (cfg : Config) (cap : Nat) (buf : List Byte) (v₀ : ReqVal) :
    Via (fun (b : Slice × Slice × Nat) c =>
          finishHeaders be cfg.reqH cap buf c (⟨some b.1, some b.2.1, some b.2.2⟩ : ReqVal))
      ((reqLineP be cfg.multiReq).run (Cur.new buf)) (reqCore be cfg cap buf v₀) := by
  unfold reqCore reqLineP
  refine Via.step _ _ _ _ _ fun _ c => ?_
  refine Via.step _ _ _ _ _ fun m c => ?_
  refine Via.step _ _ _ _ _ fun _ c => ?_
  refine Via.step _ _ _ _ _ fun p c => ?_
  refine Via.step _ _ _ _ _ fun _ c => ?_
  refine Via.step _ _ _ _ _ fun v c => ?_
  refine Via.step _ _ _ _ _ fun _ c => ?_
  exact Via.done (m, p, v) c

theorem reqCore_via_line (be : Backend) (cfg : Config) (cap : Nat) (buf : List Byte) (v₀ : ReqVal) :
    (∀ m p v c, (reqLineP be cfg.multiReq).run (Cur.new buf) = .ok ((m, p, v), c) →
        reqCore be cfg cap buf v₀ = finishHeaders be cfg.reqH cap buf c ⟨some m, some p, some v⟩) ∧
    (∀ e, (reqLineP be cfg.multiReq).run (Cur.new buf) = .err e → (reqCore be cfg cap buf v₀).status = .err e) ∧
    ((reqLineP be cfg.multiReq).run (Cur.new buf) = .part → (reqCore be cfg cap buf v₀).status = .part) := by
  obtain ⟨h1, h2, h3⟩ := reqCore_via be cfg cap buf v₀
  exact ⟨fun m p v c h => h1 (m, p, v) c h, h2, h3⟩

theorem respCore_via (be : Backend) (cfg : Config) (cap : Nat) (buf : List Byte) (v₀ : RespVal) :
    Via (fun (b : Nat × Nat × Str) c =>
          finishHeaders be cfg.respH cap buf c (⟨some b.1, some b.2.1, some b.2.2⟩ : RespVal))
      ((respLineP cfg.multiResp).run (Cur.new buf)) (respCore be cfg cap buf v₀) := by
  unfold respCore respLineP
  refine Via.step _ _ _ _ _ fun _ c => ?_
  refine Via.step _ _ _ _ _ fun v c => ?_
  refine Via.step _ _ _ _ _ fun _ c => ?_
  refine Via.step _ _ _ _ _ fun _ c => ?_
  refine Via.step _ _ _ _ _ fun code c => ?_
  refine Via.step _ _ _ _ _ fun r c => ?_
  exact Via.done (v, code, r) c

theorem respCore_via_line (be : Backend) (cfg : Config) (cap : Nat) (buf : List Byte) (v₀ : RespVal) :
    (∀ v code r c, (respLineP cfg.multiResp).run (Cur.new buf) = .ok ((v, code, r), c) →
        respCore be cfg cap buf v₀ = finishHeaders be cfg.respH cap buf c ⟨some v, some code, some r⟩) ∧
    (∀ e, (respLineP cfg.multiResp).run (Cur.new buf) = .err e → (respCore be cfg cap buf v₀).status = .err e) ∧
    ((respLineP cfg.multiResp).run (Cur.new buf) = .part → (respCore be cfg cap buf v₀).status = .part) := by
  obtain ⟨h1, h2, h3⟩ := respCore_via be cfg cap buf v₀
  exact ⟨fun v code r c h => h1 (v, code, r) c h, h2, h3⟩

/-! ### no undefined behaviour in the line stages -/

theorem reqLine_no_ub (be : Backend) (hbe : be.Exact) (multi : Bool) (buf : List Byte) (u : UB) :
    (reqLineP be multi).run (Cur.new buf) ≠ .ub u := by
  refine Outcome.Sat.no_ub (p := fun _ => True) ?_ u
  unfold reqLineP
  refine Sat_bind (skipEmptyLines_sat _) fun _ c _ => ?_
  refine Sat_bind (parseMethod_sat _) fun m c _ => ?_
  refine Sat_bind (optSkipSpaces_sat _ _) fun _ c _ => ?_
  refine Sat_bind (parseUri_sat hbe _) fun p c _ => ?_
  refine Sat_bind (optSkipSpaces_sat _ _) fun _ c _ => ?_
  refine Sat_bind (parseVersion_sat _) fun v c _ => ?_
  refine Sat_bind (newline_sat _) fun _ c _ => ?_
  simp

theorem respLine_no_ub (multi : Bool) (buf : List Byte) (u : UB) :
    (respLineP multi).run (Cur.new buf) ≠ .ub u := by
  refine Outcome.Sat.no_ub (p := fun _ => True) ?_ u
  unfold respLineP
  refine Sat_bind (skipEmptyLines_sat _) fun _ c _ => ?_
  refine Sat_bind (parseVersion_sat _) fun v c _ => ?_
  refine Sat_bind (space_sat _ _) fun _ c _ => ?_
  refine Sat_bind (optSkipSpaces_sat _ _) fun _ c _ => ?_
  refine Sat_bind (parseCode_sat _) fun code c _ => ?_
  refine Sat_bind (reasonBranch_sat _ _) fun r c _ => ?_
  simp

/-! ### the status code -/

theorem digit_val_le (b : Byte) (h : isDigit b = true) : b.toNat - 0x30 ≤ 9 := by
  simp only [isDigit, Bool.and_eq_true, decide_eq_true_eq, UInt8.le_iff_toNat_le] at h
  have : (0x39 : UInt8).toNat = 57 := rfl
  omega

theorem codeValue_lt (d₁ d₂ d₃ : Byte) (h₁ : isDigit d₁ = true) (h₂ : isDigit d₂ = true)
    (h₃ : isDigit d₃ = true) : codeValue d₁ d₂ d₃ < 1000 := by
  have := digit_val_le d₁ h₁
  have := digit_val_le d₂ h₂
  have := digit_val_le d₃ h₃
  unfold codeValue
  omega

/-! ### uniqueness of the decompositions -/

theorem emptyLines_unique {pre : List Byte} (h : EmptyLines pre) :
    ∀ {pre' : List Byte}, EmptyLines pre' → ∀ {x x' : Byte} {r r' : List Byte},
      x ≠ CR → x ≠ LF → x' ≠ CR → x' ≠ LF → pre ++ x :: r = pre' ++ x' :: r' →
      pre = pre' ∧ x :: r = x' :: r' := by
  induction h with
  | nil =>
    intro pre' h' x x' r r' hc hl hc' hl' e
    cases h' with
    | nil => exact ⟨rfl, by simpa using e⟩
    | crlf _ => simp only [List.nil_append, List.cons_append, List.cons.injEq] at e; exact absurd e.1 hc
    | lf _ => simp only [List.nil_append, List.cons_append, List.cons.injEq] at e; exact absurd e.1 hl
  | crlf _ ih =>
    intro pre' h' x x' r r' hc hl hc' hl' e
    cases h' with
    | nil => simp only [List.nil_append, List.cons_append, List.cons.injEq] at e; exact absurd e.1.symm hc'
    | crlf h'' =>
      simp only [List.cons_append, List.cons.injEq, true_and] at e
      obtain ⟨rfl, e'⟩ := ih h'' hc hl hc' hl' e
      exact ⟨rfl, e'⟩
    | lf _ =>
      simp only [List.cons_append, List.cons.injEq] at e
      exact absurd e.1 (by decide)
  | lf _ ih =>
    intro pre' h' x x' r r' hc hl hc' hl' e
    cases h' with
    | nil => simp only [List.nil_append, List.cons_append, List.cons.injEq] at e; exact absurd e.1.symm hl'
    | crlf _ =>
      simp only [List.cons_append, List.cons.injEq] at e
      exact absurd e.1 (by decide)
    | lf h'' =>
      simp only [List.cons_append, List.cons.injEq, true_and] at e
      obtain ⟨rfl, e'⟩ := ih h'' hc hl hc' hl' e
      exact ⟨rfl, e'⟩

theorem eol_unique {eol eol' rest rest' : List Byte} (h : IsEol eol) (h' : IsEol eol')
    (e : eol ++ rest = eol' ++ rest') : eol = eol' ∧ rest = rest' := by
  rcases h with rfl | rfl <;> rcases h' with rfl | rfl
  · simpa using e
  · simp only [List.cons_append, List.cons.injEq] at e; exact absurd e.1 (by decide)
  · simp only [List.cons_append, List.cons.injEq] at e; exact absurd e.1 (by decide)
  · simpa using e

theorem versionBytes_append (v : Nat) (X : List Byte) :
    versionBytes v ++ X =
      0x48 :: 0x54 :: 0x54 :: 0x50 :: 0x2F :: 0x31 :: 0x2E :: UInt8.ofNat (0x30 + v) :: X := rfl

theorem version_unique {v v' : Nat} {X X' : List Byte} (hv : v = 0 ∨ v = 1) (hv' : v' = 0 ∨ v' = 1)
    (e : versionBytes v ++ X = versionBytes v' ++ X') : v = v' ∧ X = X' := by
  rw [versionBytes_append, versionBytes_append] at e
  simp only [List.cons.injEq, true_and] at e
  rcases hv with rfl | rfl <;> rcases hv' with rfl | rfl
  · exact ⟨rfl, e.2⟩
  · exact absurd e.1 (by decide)
  · exact absurd e.1 (by decide)
  · exact ⟨rfl, e.2⟩

theorem requestLine_unique (multi : Bool)
    {pre mb sp₁ t sp₂ eol rest pre' mb' sp₁' t' sp₂' eol' rest' : List Byte} {v v' : Nat}
    (h : IsRequestLine multi pre mb sp₁ t sp₂ v eol) (h' : IsRequestLine multi pre' mb' sp₁' t' sp₂' v' eol')
    (e : requestLineBytes pre mb sp₁ t sp₂ v eol ++ rest = requestLineBytes pre' mb' sp₁' t' sp₂' v' eol' ++ rest') :
    pre = pre' ∧ mb = mb' ∧ sp₁ = sp₁' ∧ t = t' ∧ sp₂ = sp₂' ∧ v = v' ∧ eol = eol' ∧ rest = rest' := by
  obtain ⟨hpre, hmne, hmb, hd1, htne, ht, -, hd2, hv, he⟩ := h
  obtain ⟨hpre', hmne', hmb', hd1', htne', ht', -, hd2', hv', he'⟩ := h'
  obtain ⟨spa, rfl, hspa, -⟩ := (isDelim_iff _ _).1 hd1
  obtain ⟨spb, rfl, hspb, -⟩ := (isDelim_iff _ _).1 hd2
  obtain ⟨spa', rfl, hspa', -⟩ := (isDelim_iff _ _).1 hd1'
  obtain ⟨spb', rfl, hspb', -⟩ := (isDelim_iff _ _).1 hd2'
  cases mb with
  | nil => exact absurd rfl hmne
  | cons b w =>
  cases mb' with
  | nil => exact absurd rfl hmne'
  | cons b' w' =>
  cases t with
  | nil => exact absurd rfl htne
  | cons x t1 =>
  cases t' with
  | nil => exact absurd rfl htne'
  | cons x' t1' =>
  have hb : isTchar b = true := hmb b (by simp)
  have hb' : isTchar b' = true := hmb' b' (by simp)
  have hx : isUri x = true := ht x (by simp)
  have hx' : isUri x' = true := ht' x' (by simp)
  simp only [requestLineBytes, List.append_assoc, List.cons_append] at e
  obtain ⟨rfl, e1⟩ := emptyLines_unique hpre hpre' (tchar_ne_cr hb) (tchar_ne_lf hb) (tchar_ne_cr hb')
    (tchar_ne_lf hb') e
  obtain ⟨hm, -, e2⟩ := split_unique (p := fun b => isTchar b = true) (a := b :: w) (a' := b' :: w')
    (x := SP) (x' := SP) hmb hmb' (by decide) (by decide) e1
  obtain ⟨rfl, -, -⟩ := split_unique (p := fun b => b = SP) hspa hspa' (uri_ne_sp hx) (uri_ne_sp hx') e2
  have e3 := List.append_cancel_left e2
  obtain ⟨ht, -, e4⟩ := split_unique (p := fun b => isUri b = true) (a := x :: t1) (a' := x' :: t1')
    (x := SP) (x' := SP) ht ht' (by decide) (by decide) e3
  rw [versionBytes_append, versionBytes_append] at e4
  obtain ⟨rfl, -, -⟩ := split_unique (p := fun b => b = SP) hspb hspb' (by decide) (by decide) e4
  have e5 := List.append_cancel_left e4
  rw [← versionBytes_append, ← versionBytes_append] at e5
  obtain ⟨rfl, e6⟩ := version_unique hv hv' e5
  obtain ⟨rfl, rfl⟩ := eol_unique he he' e6
  exact ⟨rfl, hm, rfl, ht, rfl, rfl, rfl, rfl⟩

theorem eol_head_not_reason {eol : List Byte} (he : IsEol eol) (rest : List Byte) :
    ∃ y t, eol ++ rest = y :: t ∧ ¬ isReason y = true := by
  rcases he with rfl | rfl
  · exact ⟨CR, LF :: rest, rfl, by decide⟩
  · exact ⟨LF, rest, rfl, by decide⟩

theorem statusTail_unique (multi : Bool) {tail tail' rest rest' : List Byte} {ro ro' : Nat}
    {reason reason' : Option (List Byte)} (h : StatusTail multi tail ro reason)
    (h' : StatusTail multi tail' ro' reason') (e : tail ++ rest = tail' ++ rest') :
    tail = tail' ∧ ro = ro' ∧ reason = reason' ∧ rest = rest' := by
  cases h with
  | bare he =>
    cases h' with
    | bare he' =>
      obtain ⟨rfl, rfl⟩ := eol_unique he he' e
      exact ⟨rfl, rfl, rfl, rfl⟩
    | reason _ _ _ _ _ =>
      exfalso
      rcases he with rfl | rfl <;>
        (simp only [List.cons_append, List.cons.injEq] at e; exact absurd e.1 (by decide))
  | @reason sp₂ w eol hsp hm hh hw he =>
    cases h' with
    | bare he' =>
      exfalso
      rcases he' with rfl | rfl <;>
        (simp only [List.cons_append, List.cons.injEq] at e; exact absurd e.1.symm (by decide))
    | @reason sp₂' w' eol' hsp' hm' hh' hw' he' =>
      simp only [List.cons_append, List.append_assoc, List.cons.injEq, true_and] at e
      have hs : sp₂ = sp₂' := by
        cases multi with
        | false => rw [hm rfl, hm' rfl]
        | true =>
          obtain ⟨x, t, hxt, hx⟩ := eol_head_ne_sp (r' := rest) he (hh rfl)
          obtain ⟨x', t', hxt', hx'⟩ := eol_head_ne_sp (r' := rest') he' (hh' rfl)
          simp only [List.append_assoc] at hxt hxt'
          rw [hxt, hxt'] at e
          exact (split_unique (p := fun b => b = SP) hsp hsp' hx hx' e).1
      subst hs
      have e := List.append_cancel_left e
      obtain ⟨y, t, hyt, hy⟩ := eol_head_not_reason he rest
      obtain ⟨y', t', hyt', hy'⟩ := eol_head_not_reason he' rest'
      have e2 := e
      rw [hyt, hyt'] at e2
      obtain ⟨rfl, -, -⟩ := split_unique (p := fun b => isReason b = true) hw hw' hy hy' e2
      have e := List.append_cancel_left e
      obtain ⟨rfl, rfl⟩ := eol_unique he he' e
      exact ⟨rfl, rfl, rfl, rfl⟩

theorem statusLine_unique (multi : Bool) {pre sp₁ tail rest pre' sp₁' tail' rest' : List Byte} {v v' ro ro' : Nat}
    {d₁ d₂ d₃ d₁' d₂' d₃' : Byte} {reason reason' : Option (List Byte)}
    (h : IsStatusLine multi pre v sp₁ d₁ d₂ d₃ tail ro reason)
    (h' : IsStatusLine multi pre' v' sp₁' d₁' d₂' d₃' tail' ro' reason')
    (e : statusLineBytes pre v sp₁ d₁ d₂ d₃ tail ++ rest = statusLineBytes pre' v' sp₁' d₁' d₂' d₃' tail' ++ rest') :
    pre = pre' ∧ v = v' ∧ sp₁ = sp₁' ∧ d₁ = d₁' ∧ d₂ = d₂' ∧ d₃ = d₃' ∧ tail = tail' ∧ ro = ro' ∧
      reason = reason' ∧ rest = rest' := by
  obtain ⟨hpre, hv, hd, hd1, -, -, htail⟩ := h
  obtain ⟨hpre', hv', hd', hd1', -, -, htail'⟩ := h'
  obtain ⟨spa, rfl, hspa, -⟩ := (isDelim_iff _ _).1 hd
  obtain ⟨spa', rfl, hspa', -⟩ := (isDelim_iff _ _).1 hd'
  simp only [statusLineBytes, List.append_assoc, List.cons_append, List.nil_append] at e
  rw [versionBytes_append, versionBytes_append] at e
  obtain ⟨rfl, e1⟩ := emptyLines_unique hpre hpre' (x := 0x48) (x' := 0x48) (by decide) (by decide)
    (by decide) (by decide) e
  rw [← versionBytes_append, ← versionBytes_append] at e1
  obtain ⟨rfl, e2⟩ := version_unique hv hv' e1
  simp only [List.cons.injEq, true_and] at e2
  obtain ⟨rfl, rfl, e3⟩ := split_unique (p := fun b => b = SP) hspa hspa' (digit_ne_sp hd1) (digit_ne_sp hd1') e2
  simp only [List.cons.injEq] at e3
  obtain ⟨rfl, rfl, e4⟩ := e3
  obtain ⟨rfl, rfl, rfl, rfl⟩ := statusTail_unique multi htail htail' e4
  exact ⟨rfl, rfl, rfl, rfl, rfl, rfl, rfl, rfl, rfl, rfl⟩

end Hx
