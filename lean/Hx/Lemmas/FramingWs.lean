/-
  Hx.Lemmas.FramingWs — C03 with `allow_space_before_first_header_name` and folding off: the header
  loop against the whitespace-line scan `firstWsLine` of `Hx.Spec.Chk`.

  Without folding every iteration of the header loop other than the SP/HTAB run of
  `allow_space_before_first_header_name` consumes exactly one physical line, which starts with a byte
  that is not SP/HTAB while no header is stored.  So, walking the block with the scan in step:
  Complete(n) with no header stored ⇒ the scan returns `n`; a first stored header at `limit` ⇒ the scan
  finds nothing that starts before `limit`; Partial ⇒ the unfinished line has no LF and the scan finds
  nothing either.
-/
import Hx.Lemmas.FramingBase
import Hx.Lemmas.Capacity
namespace Hx

local notation "wsl" => firstWsLineScan

/-! ### unfolding the scan -/

theorem wsl_nil (lim ls o : Nat) (a c : Bool) : wsl lim ls o a c [] = none := by
  rw [firstWsLineScan]

theorem wsl_cons (lim ls o : Nat) (a c : Bool) (b : Byte) (r : List Byte) :
    wsl lim ls o a c (b :: r) =
      if lim ≤ ls then none
      else if b == LF then
        if a then some (o + 1) else wsl lim (o + 1) (o + 1) true false r
      else if b == CR then wsl lim ls (o + 1) (a && !c) true r
      else if isWs b then wsl lim ls (o + 1) (a && !c) false r
      else wsl lim ls (o + 1) false false r := by
  rw [firstWsLineScan]

/-- past the limit nothing is found -/
theorem wsl_lim {lim ls : Nat} (h : lim ≤ ls) (o : Nat) (a c : Bool) (l : List Byte) :
    wsl lim ls o a c l = none := by
  cases l with
  | nil => exact wsl_nil ..
  | cons b r => rw [wsl_cons, if_pos h]

theorem wsl_lf {lim ls : Nat} (h : ls < lim) (o : Nat) (c : Bool) (r : List Byte) :
    wsl lim ls o true c (LF :: r) = some (o + 1) := by
  rw [wsl_cons, if_neg (by omega)]; simp

theorem wsl_crlf {lim ls : Nat} (h : ls < lim) (o : Nat) (r : List Byte) :
    wsl lim ls o true false (CR :: LF :: r) = some (o + 2) := by
  rw [wsl_cons, if_neg (by omega)]
  simp only [beq_byte, CR_ne_LF, if_false, if_true, Bool.not_false, Bool.and_self]
  rw [wsl_lf h]

/-- an SP/HTAB run at the start of a line leaves the scan in its line-start state -/
theorem wsl_ws_run {ws : List Byte} (hws : AllWs ws) (lim ls o : Nat) (r : List Byte) :
    wsl lim ls o true false (ws ++ r) = wsl lim ls (o + ws.length) true false r := by
  induction ws generalizing o with
  | nil => rfl
  | cons b ws ih =>
    by_cases hl : lim ≤ ls
    · rw [wsl_lim hl, wsl_lim hl]
    · have hb := ws_facts (hws b (by simp))
      rw [List.cons_append, wsl_cons, if_neg hl]
      simp only [beq_byte, hb.2.2.2.1, hb.2.2.1, if_false, hws b (by simp), if_true, Bool.not_false,
        Bool.and_self]
      rw [ih (fun x hx => hws x (by simp [hx]))]
      congr 1; simp; omega

/-- inside a line that is not whitespace-only: on to the next line start -/
theorem wsl_skip {Y : List Byte} (hY : NoLF Y) (lim : Nat) {ls o : Nat} (hlo : ls ≤ o) (c : Bool) (r : List Byte) :
    wsl lim ls o false c (Y ++ LF :: r) = wsl lim (o + Y.length + 1) (o + Y.length + 1) true false r := by
  by_cases hl : lim ≤ ls
  · rw [wsl_lim hl, wsl_lim (by omega)]
  · induction Y generalizing o c with
    | nil =>
      rw [List.nil_append, wsl_cons, if_neg hl]
      simp
    | cons b Y ih =>
      have hb : b ≠ LF := hY b (by simp)
      have hY' : NoLF Y := fun x hx => hY x (by simp [hx])
      rw [List.cons_append, wsl_cons, if_neg hl]
      simp only [beq_byte, hb, if_false, Bool.false_and]
      have e : o + (b :: Y).length + 1 = (o + 1) + Y.length + 1 := by simp; omega
      rw [e]
      split
      · exact ih hY' (by omega) _
      · split
        · exact ih hY' (by omega) _
        · exact ih hY' (by omega) _

/-- a physical line that starts with a byte other than SP/HTAB/CR/LF -/
theorem wsl_line {x : Byte} {Y : List Byte} (hx : isWs x = false) (hx1 : x ≠ CR) (hx2 : x ≠ LF) (hY : NoLF Y)
    (lim : Nat) {ls o : Nat} (hlo : ls ≤ o) (a c : Bool) (r : List Byte) :
    wsl lim ls o a c (x :: Y ++ LF :: r) =
      wsl lim (o + (x :: Y).length + 1) (o + (x :: Y).length + 1) true false r := by
  by_cases hl : lim ≤ ls
  · rw [wsl_lim hl, wsl_lim (by omega)]
  · rw [List.cons_append, wsl_cons, if_neg hl]
    simp only [beq_byte, hx1, hx2, hx, if_false, Bool.false_eq_true]
    rw [wsl_skip hY lim (by omega)]
    congr 1 <;> (simp; omega)

/-- no LF left: nothing is found -/
theorem wsl_noLF {l : List Byte} (h : NoLF l) (lim ls o : Nat) (a c : Bool) : wsl lim ls o a c l = none := by
  induction l generalizing o a c with
  | nil => exact wsl_nil ..
  | cons b l ih =>
    have hb : b ≠ LF := h b (by simp)
    have hl : NoLF l := fun x hx => h x (by simp [hx])
    rw [wsl_cons]
    simp only [beq_byte, hb, if_false]
    split
    · rfl
    · split
      · exact ih hl ..
      · split
        · exact ih hl ..
        · exact ih hl ..

/-- the scan commutes with shifting all offsets -/
theorem wsl_shift (d lim : Nat) (l : List Byte) : ∀ (ls o : Nat) (a c : Bool),
    wsl (lim + d) (ls + d) (o + d) a c l = (wsl lim ls o a c l).map (· + d) := by
  induction l with
  | nil => intro ls o a c; rw [wsl_nil, wsl_nil]; rfl
  | cons b l ih =>
    intro ls o a c
    rw [wsl_cons, wsl_cons]
    have e : o + d + 1 = (o + 1) + d := by omega
    by_cases hl : lim ≤ ls
    · rw [if_pos hl, if_pos (by omega)]; rfl
    · rw [if_neg hl, if_neg (by omega), e]
      split
      · split
        · rfl
        · exact ih ..
      · split
        · exact ih ..
        · split
          · exact ih ..
          · exact ih ..

/-! ### without folding an iteration consumes one physical line -/

theorem NoLF.allWs {l : List Byte} (h : AllWs l) : NoLF l := fun b hb => (ws_facts (h b hb)).2.2.2.1
theorem NoLF.tchars {l : List Byte} (h : ∀ b ∈ l, isTchar b = true) : NoLF l := fun b hb => tchar_ne_lf (h b hb)
theorem NoLF.values {l : List Byte} (h : ∀ b ∈ l, isValue b = true) : NoLF l := fun b hb => (value_facts (h b hb)).2.1
theorem NoLF.noCtl {l : List Byte} (h : NoCtl l) : NoLF l := fun b hb => (h b hb).2.1
theorem NoLF.colon {l : List Byte} (h : NoLF l) : NoLF (COLON :: l) := .cons (by decide) h

theorem NoLF.tail {b : Byte} {l : List Byte} (h : NoLF (b :: l)) : NoLF l := fun x hx => h x (by simp [hx])

theorem lead_nofold {l : List Byte} (h : Lead false l) : AllWs l := by simpa [Lead] using h
theorem valRest_nofold {l : List Byte} (h : ValRest false l) : ∀ b ∈ l, isValue b = true := by
  simpa [ValRest] using h

theorem NoLF.namePart {san : Bool} {name ws₁ : List Byte} (h : NamePart san name ws₁) : NoLF (name ++ ws₁) :=
  (NoLF.tchars h.name_tchar).append (.allWs h.ws₁_ok)

/-- `A ++ eol` is one line when `A` has no LF -/
theorem line_of_eol {A e : List Byte} (hA : NoLF A) (he : IsEol e) : ∃ Y, A ++ e = Y ++ [LF] ∧ NoLF Y := by
  rcases he with rfl | rfl
  · exact ⟨A ++ [CR], by simp, hA.append (.cons CR_ne_LF .nil)⟩
  · exact ⟨A, rfl, hA⟩

theorem FailPoint.noLF {hc : HCfg} (hf : hc.fold = false) {k : Nat} {good : List Byte} {b : Byte}
    (h : FailPoint hc k good b) : NoLF good := by
  cases h with
  | lineStart => exact .nil
  | afterName _ htc => exact .tchars htc
  | afterNameWs _ _ htc _ hws => exact (NoLF.tchars htc).append (.allWs hws)
  | afterColon hnp hlead =>
    rw [hf] at hlead
    exact (NoLF.namePart hnp).append (.colon (.allWs (lead_nofold hlead)))
  | inValue hnp hlead hv _ hrest =>
    rw [hf] at hlead hrest
    have h1 : NoLF (COLON :: _) := .colon (.allWs (lead_nofold hlead))
    exact ((NoLF.namePart hnp).append h1).append (.cons (value_facts hv).2.1 (.values (valRest_nofold hrest)))

theorem FailPoint.nil_inv {hc : HCfg} {k : Nat} {good : List Byte} {b : Byte} (h : FailPoint hc k good b)
    (hg : good = []) : ¬ (hc.sbf = true ∧ k = 0 ∧ isWs b = true) := by
  cases h with
  | lineStart _ _ _ h => exact h
  | afterName hn => exact absurd hg hn
  | afterNameWs _ hn => simp at hg; exact absurd hg.1 hn
  | afterColon hnp => simp at hg
  | inValue hnp => simp at hg

theorem BodySpec.noLF {body : List Byte} {valOff : Nat} {value : List Byte} (h : BodySpec false body valOff value) :
    ∃ A e, body = A ++ e ∧ NoLF A ∧ IsEol e := by
  cases h with
  | @empty lead eol hlead he => exact ⟨lead, eol, rfl, .allWs (lead_nofold hlead), he⟩
  | @value lead rest eol v hlead hv _ hrest he =>
    exact ⟨lead ++ v :: rest, eol, by simp, (NoLF.allWs (lead_nofold hlead)).append
      (.cons (value_facts hv).2.1 (.values (valRest_nofold hrest))), he⟩

/-- without folding: what a non-terminating iteration consumed is either the SP/HTAB run of
`allow_space_before_first_header_name` or exactly one physical line, which — while that option is on
and no header is stored — does not start with SP/HTAB -/
theorem LineSpec.line1 {hc : HCfg} (hf : hc.fold = false) {k off : Nat} {consumed after : List Byte} {res : Line}
    (h : LineSpec hc k off consumed after res) (hne : res ≠ .eoh) :
    (res = .skipped ∧ hc.sbf = true ∧ k = 0 ∧ AllWs consumed) ∨
    ∃ x Y, consumed = x :: Y ++ [LF] ∧ x ≠ CR ∧ x ≠ LF ∧ NoLF Y ∧ (hc.sbf = true → k = 0 → isWs x = false) := by
  cases h with
  | eoh => exact absurd rfl hne
  | leadingWs hsbf hk _ hall _ => exact .inl ⟨rfl, hsbf, hk, hall⟩
  | @header name ws₁ body _ _ _ hnp hbody _ =>
    right
    rw [hf] at hbody
    obtain ⟨A, e, rfl, hA, he⟩ := hbody.noLF
    cases hn : name with
    | nil => exact absurd hn hnp.name_ne
    | cons x N =>
      have hx : isTchar x = true := hnp.name_tchar x (by simp [hn])
      have hN : NoLF (N ++ ws₁) := by
        have := NoLF.namePart hnp
        rw [hn] at this
        exact this.tail
      obtain ⟨Y, hY, hYn⟩ := line_of_eol (A := N ++ ws₁ ++ COLON :: A) (hN.append (.colon hA)) he
      refine ⟨x, Y, ?_, tchar_ne_cr hx, tchar_ne_lf hx, hYn, fun _ _ => (tchar_facts hx).2.1⟩
      simpa using congrArg (x :: ·) hY
  | @ignored good junk eol _ b _ hj he hhead hfp =>
    right
    have hgj : NoLF (good ++ junk) := (hfp.noLF hf).append (.noCtl hj)
    rcases hfp.good_head with ⟨rfl, hb1, hb2⟩ | ⟨x, G, rfl, hx⟩
    · cases junk with
      | nil =>
        rcases he with rfl | rfl <;> simp at hhead <;> subst hhead
        · exact absurd rfl hb1
        · exact absurd rfl hb2
      | cons x J =>
        simp at hhead; subst hhead
        obtain ⟨Y, hY, hYn⟩ := line_of_eol (A := J) (by simpa using hgj.tail) he
        refine ⟨x, Y, ?_, hb1, hb2, hYn, fun h1 h2 => ?_⟩
        · simpa using congrArg (x :: ·) hY
        · have := hfp.nil_inv rfl
          cases hw : isWs x
          · rfl
          · exact absurd ⟨h1, h2, hw⟩ this
    · obtain ⟨Y, hY, hYn⟩ := line_of_eol (A := G ++ junk) (by simpa using hgj.tail) he
      refine ⟨x, Y, ?_, tchar_ne_cr hx, tchar_ne_lf hx, hYn, fun _ _ => (tchar_facts hx).2.1⟩
      simpa using congrArg (x :: ·) hY

/-! ### Complete -/

theorem LineSpec.header_name {hc : HCfg} {k off : Nat} {consumed after : List Byte} {name value : Slice}
    (h : LineSpec hc k off consumed after (.header name value)) : name.off = off ∧ name.bytes ≠ [] := by
  cases h with
  | header hnp => exact ⟨rfl, hnp.name_ne⟩

/-- `allow_space_before_first_header_name`, no folding: walking a completed block from its start (`ls` =
start of the physical line the block starts in) — if no header is stored the scan ends exactly where the
block ends; if one is, the scan finds no whitespace-only line that starts before it -/
theorem BlockSpec.wsl_first {hc : HCfg} (hsbf : hc.sbf = true) (hf : hc.fold = false) {cap off k : Nat}
    {input : List Byte} {n : Nat} {hs : List Hdr} (h : BlockSpec hc cap off k input n hs) :
    k = 0 → ∀ ls, ls ≤ off →
      (hs = [] → ∀ lim, off + n ≤ lim → wsl lim ls off true false input = some (off + n)) ∧
      (∀ h0 t, hs = h0 :: t → h0.name.bytes ≠ [] ∧ off ≤ h0.name.off ∧
        wsl h0.name.off ls off true false input = none) := by
  induction h with
  | @eoh off k e after hls =>
    intro _ ls hls'
    refine ⟨fun _ lim hlim => ?_, fun h0 t e => by cases e⟩
    rcases hls.eoh_isEol with rfl | rfl
    · simp only [List.length_cons, List.length_nil] at hlim
      exact wsl_crlf (by omega) _ _
    · simp only [List.length_cons, List.length_nil] at hlim
      exact wsl_lf (by omega) _ _ _
  | @skipped off k n consumed after hs hls hb ih =>
    intro hk ls hlo
    rcases hls.line1 hf (by simp) with ⟨-, -, -, hall⟩ | ⟨x, Y, rfl, hx1, hx2, hY, hws⟩
    · obtain ⟨ih1, ih2⟩ := ih hk ls (by omega)
      refine ⟨fun he lim hlim => ?_, fun h0 t he => ?_⟩
      · rw [wsl_ws_run hall, ih1 he lim (by omega)]; congr 1; omega
      · obtain ⟨h1, h2, h3⟩ := ih2 h0 t he
        exact ⟨h1, by omega, by rw [wsl_ws_run hall]; exact h3⟩
    · have hlen : off + (x :: Y).length + 1 = off + (x :: Y ++ [LF]).length := by simp; omega
      have hstep : ∀ lim, wsl lim ls off true false (x :: Y ++ [LF] ++ after) =
          wsl lim (off + (x :: Y ++ [LF]).length) (off + (x :: Y ++ [LF]).length) true false after := by
        intro lim
        have := wsl_line (hws hsbf hk) hx1 hx2 hY lim hlo true false after
        rw [hlen] at this
        simpa using this
      obtain ⟨ih1, ih2⟩ := ih hk (off + (x :: Y ++ [LF]).length) (Nat.le_refl _)
      refine ⟨fun he lim hlim => ?_, fun h0 t he => ?_⟩
      · rw [hstep, ih1 he lim (by omega)]; congr 1; omega
      · obtain ⟨h1, h2, h3⟩ := ih2 h0 t he
        exact ⟨h1, by omega, by rw [hstep]; exact h3⟩
  | @header off k n consumed after name value hs hls hlt hb ih =>
    intro hk ls hlo
    refine ⟨fun he => absurd he (by simp), fun h0 t he => ?_⟩
    obtain ⟨hoff, hne⟩ := hls.header_name
    simp only [List.cons.injEq] at he
    obtain ⟨rfl, -⟩ := he
    refine ⟨hne, by simp [hoff], ?_⟩
    rcases hls.line1 hf (by simp) with ⟨hres, -⟩ | ⟨x, Y, rfl, hx1, hx2, hY, hws⟩
    · cases hres
    · have := wsl_line (hws hsbf hk) hx1 hx2 hY name.off hlo true false after
      have e : x :: Y ++ [LF] ++ after = x :: Y ++ LF :: after := by simp
      rw [e, this]
      exact wsl_lim (by omega) ..

/-! ### Partial without folding: the unfinished line has no LF -/

theorem invalidLoop_noLF (e : Error) (start : Nat) : ∀ (rest : List Byte) (b : Byte) (tok : List Byte),
    invalidLoop e start b tok rest = .part → NoLF (b :: rest) := by
  intro rest
  induction rest with
  | nil =>
    intro b tok h
    rw [SA.invalidLoop_unfold] at h
    by_cases h1 : b = CR
    · subst h1; exact .cons CR_ne_LF .nil
    · by_cases h2 : b = LF
      · subst h2; simp [LF_ne_CR] at h
      · exact .cons h2 .nil
  | cons b2 r2 ih =>
    intro b tok h
    rw [SA.invalidLoop_unfold] at h
    by_cases h1 : b = CR
    · subst h1
      by_cases h4 : b2 = LF
      · subst h4; simp at h
      · simp [h4] at h
    · by_cases h2 : b = LF
      · subst h2; simp [LF_ne_CR] at h
      · by_cases h3 : b = NUL
        · subst h3; simp [h1, h2] at h
        · simp only [beq_byte, h1, h2, h3, if_false] at h
          exact .cons h2 (ih b2 _ h)

theorem handleInvalid_noLF {hc : HCfg} {e : Error} {b : Byte} {s : Nat} {tok rest : List Byte}
    (h : (handleInvalid hc e b).run ⟨s, tok, rest⟩ = .part) : NoLF (b :: rest) := by
  unfold handleInvalid at h
  cases hi : hc.ign
  · simp [hi] at h
  · simp only [hi, Bool.not_true, Bool.false_eq_true, if_false, run_mk] at h
    exact invalidLoop_noLF e s rest b tok h

theorem handleInvalid_then_noLF {α : Type} {hc : HCfg} {e : Error} {b : Byte} {x : α} {s : Nat}
    {tok rest : List Byte} (h : (do handleInvalid hc e b; pure x : P α).run ⟨s, tok, rest⟩ = .part) :
    NoLF (b :: rest) := by
  rcases bind_part h with h | ⟨_, _, _, h⟩
  · exact handleInvalid_noLF h
  · simp at h

theorem sanLoop_noLF (start : Nat) : ∀ (rest tok : List Byte), sanLoop start tok rest = .part → NoLF rest := by
  intro rest
  induction rest with
  | nil => intro _ _; exact .nil
  | cons b r ih =>
    intro tok h
    rw [sanLoop] at h
    by_cases h1 : b = COLON
    · subst h1; simp at h
    · cases hw : isWs b
      · simp [h1, hw] at h
      · simp only [beq_byte, h1, hw, if_false, if_true] at h
        exact .cons (ws_facts hw).2.2.2.1 (ih _ h)

theorem nameTail_noLF {hc : HCfg} {name : Slice} {d : Byte} {s : Nat} {r' : List Byte}
    (h : (nameTail hc name d).run ⟨s, [], r'⟩ = .part) : NoLF (d :: r') := by
  unfold nameTail at h
  by_cases h1 : d = COLON
  · subst h1; simp at h
  · simp only [beq_byte, h1, if_false] at h
    cases hsw : (hc.san && isWs d)
    · simp only [hsw, Bool.false_eq_true, if_false] at h
      exact handleInvalid_then_noLF h
    · simp only [hsw, if_true] at h
      have hw : isWs d = true := by simp at hsw; exact hsw.2
      have hd : d ≠ LF := (ws_facts hw).2.2.2.1
      rcases bind_part h with h | ⟨res, c', hok, h⟩
      · exact .cons hd (sanLoop_noLF _ _ _ h)
      · dsimp only at hok
        obtain ⟨ws, b, r'', rfl, hws, hb, hcase⟩ := (sanLoop_ok_iff s r' [] res c').mp hok
        rcases hcase with ⟨_, rfl, _⟩ | ⟨_, rfl, rfl⟩
        · simp at h
        · have := handleInvalid_then_noLF h
          exact .cons hd ((NoLF.allWs hws).append this)

theorem nameStage_noLF {be : Backend} (hbe : be.Exact) {hc : HCfg} {off : Nat} {t r : List Byte}
    (h : (nameStage be hc).run ⟨off, t, r⟩ = .part) : NoLF r := by
  rcases split_cls isTchar r with hall | ⟨l, d, r', rfl, hl, hd⟩
  · exact .tchars hall
  · rw [nameStage_run hbe hc off t l d r' hl hd] at h
    exact (NoLF.tchars hl).append (nameTail_noLF h)

theorem wsAfterColon_noLF {hc : HCfg} (hf : hc.fold = false) : ∀ (rest : List Byte) (start : Nat) (tok : List Byte),
    wsAfterColon hc start tok rest = .part → NoLF rest := by
  intro rest
  induction rest with
  | nil => intro _ _ _; exact .nil
  | cons b r ih =>
    intro start tok h
    rw [SA.wsAfterColon_cons] at h
    cases hw : isWs b
    · cases hv : isValue b
      · simp only [hw, hv, Bool.false_eq_true, if_false] at h
        by_cases h1 : b = CR
        · subst h1
          simp only [beq_self_eq_true, if_true] at h
          cases r with
          | nil => exact .cons CR_ne_LF .nil
          | cons b2 r2 =>
            by_cases h2 : b2 = LF
            · subst h2; simp [hf] at h
            · simp [h2] at h
        · by_cases h2 : b = LF
          · subst h2; simp [LF_ne_CR, hf] at h
          · simp only [beq_byte, h1, h2, if_false] at h
            cases hh : (handleInvalid hc .headerValue b).run ⟨start, tok ++ [b], r⟩ with
            | part => exact handleInvalid_noLF hh
            | ok x => rw [hh] at h; cases h
            | err x => rw [hh] at h; cases h
            | ub x => rw [hh] at h; cases h
      · simp [hw, hv] at h
    · simp only [hw, if_true] at h
      exact .cons (ws_facts hw).2.2.2.1 (ih _ _ h)

theorem valueLines_noLF {be : Backend} (hbe : be.Exact) {hc : HCfg} (hf : hc.fold = false) :
    ∀ (fuel s : Nat) (t r : List Byte), (valueLines be hc fuel).run ⟨s, t, r⟩ = .part → NoLF r := by
  intro fuel
  cases fuel with
  | zero => intro s t r h; simp [valueLines] at h
  | succ fuel =>
    intro s t r h
    rcases split_cls isValue r with hall | ⟨l, b, r1, rfl, hl, hb⟩
    · exact .values hall
    · rw [valueLines_run hbe hc fuel s t l b r1 hl hb] at h
      refine (NoLF.values hl).append ?_
      by_cases h1 : b = CR
      · subst h1
        rw [valTail_cr] at h
        cases r1 with
        | nil => exact .cons CR_ne_LF .nil
        | cons b2 r2 =>
          by_cases h2 : b2 = LF
          · subst h2; simp [hf] at h
          · simp [h2] at h
      · by_cases h2 : b = LF
        · subst h2
          rw [valTail_lf] at h
          simp [hf] at h
        · rw [valTail_other be hc fuel b h1 h2] at h
          exact handleInvalid_then_noLF h

theorem afterNameTail_noLF {be : Backend} (hbe : be.Exact) {hc : HCfg} (hf : hc.fold = false) {name : Slice}
    {st : Nat} {rest : List Byte} (h : (afterNameTail be hc name).run ⟨st, [], rest⟩ = .part) : NoLF rest := by
  unfold afterNameTail at h
  rcases bind_part h with h | ⟨w, c', hok, h⟩
  · exact wsAfterColon_noLF hf rest _ _ h
  · dsimp only at hok
    have hspec := (wsAfterColon_ok_iff hc st rest w c').mp hok
    cases w with
    | skipped => simp at h
    | empty v => simp at h
    | value =>
      obtain ⟨lead, v, r, rfl, h2, h3, rfl⟩ := hspec.value_inv
      dsimp only at h
      rcases bind_part h with h | ⟨vr, c'', _, h⟩
      · dsimp only at h
        have := valueLines_noLF hbe hf _ _ _ _ h
        have hl : AllWs lead := by
          have := (lead_iff _ _).mpr h2
          rw [hf] at this
          exact lead_nofold this
        exact (NoLF.allWs hl).append (.cons (value_facts h3).2.1 this)
      · cases vr <;> simp at h

/-- without folding, an iteration returns Partial only when no LF is left -/
theorem headerLine_noLF {be : Backend} (hbe : be.Exact) {hc : HCfg} (hf : hc.fold = false) (k off : Nat)
    (input : List Byte) (h : (headerLine be hc k).run ⟨off, [], input⟩ = .part) : NoLF input := by
  cases input with
  | nil => exact .nil
  | cons b r =>
    rw [headerLine_cons] at h
    cases hb : isTchar b
    · unfold headerRest at h
      by_cases h1 : b = CR
      · subst h1
        cases r with
        | nil => exact .cons CR_ne_LF .nil
        | cons b2 r2 =>
          by_cases h2 : b2 = LF
          · subst h2; simp [expect, next] at h
          · simp [expect, next, h2] at h
      · by_cases h2 : b = LF
        · subst h2; simp [LF_ne_CR] at h
        · simp only [beq_byte, h1, h2, if_false, hb, Bool.not_false, if_true] at h
          split at h
          · simp [skipWsRun, slice] at h
          · exact handleInvalid_then_noLF h
    · have h2 := tchar_ne_lf hb
      rw [headerRest_tchar be hc k b hb] at h
      unfold tcharTail at h
      rcases bind_part h with h | ⟨nm, c', hok, h⟩
      · exact .cons h2 (nameStage_noLF hbe h)
      · rcases (nameStage_ok_iff hbe hc off b hb r nm c').mp hok with
          ⟨name, ws₁, after, hsplit, hnp, rfl, rfl⟩ | ⟨rfl, _⟩
        · simp only at h
          rw [hsplit]
          have := afterNameTail_noLF hbe hf h
          have hm : NoLF (name ++ ws₁ ++ [COLON]) := (NoLF.namePart hnp).append (.colon .nil)
          have := hm.append this
          simpa using this
        · simp at h

/-- `allow_space_before_first_header_name`, no folding: Partial from the header loop started with nothing
stored — the scan finds no whitespace-only line that starts before the first header stored so far (none
at all when nothing is stored) -/
theorem headersLoop_part_wsl {be : Backend} (hbe : be.Exact) {hc : HCfg} (hsbf : hc.sbf = true)
    (hf : hc.fold = false) (cap : Nat) :
    ∀ (fuel off : Nat) (input : List Byte) (hs' : List Hdr),
      headersLoop be hc cap fuel ⟨off, [], input⟩ [] = (.part, hs') → ∀ ls, ls ≤ off →
      (hs' = [] → ∀ lim, wsl lim ls off true false input = none) ∧
      (∀ h0 t, hs' = h0 :: t → h0.name.bytes ≠ [] ∧ off ≤ h0.name.off ∧
        wsl h0.name.off ls off true false input = none) := by
  intro fuel
  induction fuel with
  | zero => intro off input hs' h; simp [headersLoop] at h
  | succ fuel ih =>
    intro off input hs' h ls hlo
    rw [headersLoop] at h
    split at h
    · simp at h
    · rename_i c1 hrun
      obtain ⟨consumed, after, rfl, rfl, hls⟩ := (headerLine_iff be hbe hc _ off input _ _).mp hrun
      rcases hls.line1 hf (by simp) with ⟨-, -, -, hall⟩ | ⟨x, Y, rfl, hx1, hx2, hY, hws⟩
      · obtain ⟨ih1, ih2⟩ := ih _ _ _ h ls (by omega)
        refine ⟨fun he lim => ?_, fun h0 t he => ?_⟩
        · rw [wsl_ws_run hall]; exact ih1 he lim
        · obtain ⟨h1, h2, h3⟩ := ih2 h0 t he
          exact ⟨h1, by omega, by rw [wsl_ws_run hall]; exact h3⟩
      · have hlen : off + (x :: Y).length + 1 = off + (x :: Y ++ [LF]).length := by simp; omega
        have hstep : ∀ lim, wsl lim ls off true false (x :: Y ++ [LF] ++ after) =
            wsl lim (off + (x :: Y ++ [LF]).length) (off + (x :: Y ++ [LF]).length) true false after := by
          intro lim
          have := wsl_line (hws hsbf rfl) hx1 hx2 hY lim hlo true false after
          rw [hlen] at this
          simpa using this
        obtain ⟨ih1, ih2⟩ := ih _ _ _ h (off + (x :: Y ++ [LF]).length) (Nat.le_refl _)
        refine ⟨fun he lim => ?_, fun h0 t he => ?_⟩
        · rw [hstep]; exact ih1 he lim
        · obtain ⟨h1, h2, h3⟩ := ih2 h0 t he
          exact ⟨h1, by omega, by rw [hstep]; exact h3⟩
    · rename_i nm v c1 hrun
      obtain ⟨consumed, after, rfl, rfl, hls⟩ := (headerLine_iff be hbe hc _ off input _ _).mp hrun
      split at h
      · obtain ⟨t', ht'⟩ := headersLoop_prefix be hc cap fuel
          (if Line.header nm v = Line.eoh then ⟨off, consumed, after⟩ else ⟨off + consumed.length, [], after⟩)
          ([] ++ [⟨nm, trimValue v⟩])
        rw [h] at ht'
        simp only [List.nil_append, List.cons_append] at ht'
        subst ht'
        refine ⟨fun he => absurd he (by simp), fun h0 t he => ?_⟩
        obtain ⟨hoff, hne⟩ := hls.header_name
        simp only [List.cons.injEq] at he
        obtain ⟨rfl, -⟩ := he
        refine ⟨hne, by simp [hoff], ?_⟩
        rcases hls.line1 hf (by simp) with ⟨hres, -⟩ | ⟨x, Y, rfl, hx1, hx2, hY, hws⟩
        · cases hres
        · have := wsl_line (hws hsbf rfl) hx1 hx2 hY nm.off hlo true false after
          have e : x :: Y ++ [LF] ++ after = x :: Y ++ LF :: after := by simp
          rw [e, this]
          exact wsl_lim (by omega) ..
      · simp at h
    · rename_i hrun
      have hn := headerLine_noLF hbe hf _ off input hrun
      simp only [Prod.mk.injEq, true_and] at h
      subst h
      exact ⟨fun _ lim => wsl_noLF hn .., fun h0 t he => by cases he⟩
    · simp at h
    · simp at h

end Hx
