/-
  Hx.Lemmas.BlockGrammar — the header loop against `BlockSpec` (C14), the default grammar spelled
  out as `IsHeaderLine` sequences (C08), and the cleanliness / widening facts of `LineSpec`.
-/
import Hx.Spec.Grammar
import Hx.Spec.Chk
import Hx.Parse.Entry
import Hx.Lemmas.LineGrammar
namespace Hx

/-! ### the header loop -/

theorem LineSpec.eoh_isEol {hc : HCfg} {k off : Nat} {e after : List Byte} (h : LineSpec hc k off e after .eoh) :
    IsEol e := by
  cases h with
  | eoh he => exact he

/-- the loop completes only on a `BlockSpec` block; the final cursor stands just after the block, the
terminating line end still uncommitted -/
theorem headersLoop_sound {be : Backend} (hbe : be.Exact) (hc : HCfg) (cap : Nat) :
    ∀ (fuel off : Nat) (input : List Byte) (hs₀ hs' : List Hdr) (c' : Cur),
      headersLoop be hc cap fuel ⟨off, [], input⟩ hs₀ = (.ok c', hs') →
      ∃ n hs, BlockSpec hc cap off hs₀.length input n hs ∧ hs' = hs₀ ++ hs ∧
        c'.pos = off + n ∧ c'.rest = input.drop n ∧ IsEol c'.tok := by
  intro fuel
  induction fuel with
  | zero => intro off input hs₀ hs' c' h; simp [headersLoop] at h
  | succ fuel ih =>
    intro off input hs₀ hs' c' h
    rw [headersLoop] at h
    split at h
    · rename_i c1 hrun
      simp only [Prod.mk.injEq, Outcome.ok.injEq] at h
      obtain ⟨rfl, rfl⟩ := h
      obtain ⟨consumed, after, rfl, rfl, hls⟩ := (headerLine_iff be hbe hc _ off input _ _).mp hrun
      refine ⟨consumed.length, [], .eoh hls, by simp, ?_, ?_, ?_⟩
      · simp [Cur.pos]
      · simp
      · simpa using hls.eoh_isEol
    · rename_i c1 hrun
      obtain ⟨consumed, after, rfl, rfl, hls⟩ := (headerLine_iff be hbe hc _ off input _ _).mp hrun
      simp only [reduceCtorEq, if_false] at h
      obtain ⟨n, hs, hb, rfl, hpos, hrest, htok⟩ := ih _ _ _ _ _ h
      refine ⟨consumed.length + n, hs, .skipped hls hb, rfl, by omega, ?_, htok⟩
      rw [hrest]; simp [List.drop_append]
    · rename_i nm v c1 hrun
      obtain ⟨consumed, after, rfl, rfl, hls⟩ := (headerLine_iff be hbe hc _ off input _ _).mp hrun
      simp only [reduceCtorEq, if_false] at h
      split at h
      · rename_i hlt
        obtain ⟨n, hs, hb, rfl, hpos, hrest, htok⟩ := ih _ _ _ _ _ h
        rw [List.length_append, List.length_singleton] at hb
        refine ⟨consumed.length + n, _ :: hs, .header hls hlt hb, by simp, by omega, ?_, htok⟩
        rw [hrest]; simp [List.drop_append]
      · simp at h
    · simp at h
    · simp at h
    · simp at h

theorem headersLoop_complete {be : Backend} (hbe : be.Exact) (hc : HCfg) (cap : Nat) :
    ∀ (fuel off : Nat) (input : List Byte) (hs₀ : List Hdr) (n : Nat) (hs : List Hdr), input.length < fuel →
      BlockSpec hc cap off hs₀.length input n hs →
      ∃ c', headersLoop be hc cap fuel ⟨off, [], input⟩ hs₀ = (.ok c', hs₀ ++ hs) ∧
        c'.pos = off + n ∧ c'.rest = input.drop n := by
  intro fuel
  induction fuel with
  | zero => intro off input hs₀ n hs hlt; omega
  | succ fuel ih =>
    intro off input hs₀ n hs hlt hb
    generalize hk : hs₀.length = k at hb
    cases hb with
    | @eoh _ _ e after hls =>
      subst hk
      have hrun := headerLine_complete hbe hc _ off e after _ hls
      rw [headersLoop]
      simp only [hrun, if_true]
      exact ⟨⟨off, e, after⟩, by simp, by simp [Cur.pos], by simp⟩
    | @skipped _ _ n' consumed after _ hls hb' =>
      subst hk
      have hrun := headerLine_complete hbe hc _ off consumed after _ hls
      have hlt' := headerLine_sat hbe hc hs₀.length ⟨off, [], consumed ++ after⟩
      rw [hrun] at hlt'
      simp only [reduceCtorEq, if_false, Sat_ok] at hlt'
      have hlen : after.length < fuel := by simp at hlt hlt'; omega
      obtain ⟨c', h1, h2, h3⟩ := ih (off + consumed.length) after hs₀ n' _ hlen hb'
      rw [headersLoop]
      simp only [hrun, reduceCtorEq, if_false]
      refine ⟨c', h1, by omega, ?_⟩
      rw [h3]; simp [List.drop_append]
    | @header _ _ n' consumed after name value hs' hls hlt2 hb' =>
      subst hk
      have hrun := headerLine_complete hbe hc _ off consumed after _ hls
      have hlt' := headerLine_sat hbe hc hs₀.length ⟨off, [], consumed ++ after⟩
      rw [hrun] at hlt'
      simp only [reduceCtorEq, if_false, Sat_ok] at hlt'
      have hlen : after.length < fuel := by simp at hlt hlt'; omega
      obtain ⟨c', h1, h2, h3⟩ := ih (off + consumed.length) after (hs₀ ++ [⟨name, trimValue value⟩]) n' hs' hlen
        (by simpa using hb')
      rw [headersLoop]
      simp only [hrun, reduceCtorEq, if_false, hlt2, if_true]
      refine ⟨c', by simpa using h1, by omega, ?_⟩
      rw [h3]; simp [List.drop_append]

/-- C14: the header loop completes having consumed `n` bytes ⇔ the input starts with a `BlockSpec` block
of `n` bytes; the headers stored are the block's, appended to those stored before. -/
theorem headersLoop_iff (be : Backend) (hbe : be.Exact) (hc : HCfg) (cap off : Nat) (input : List Byte)
    (hs₀ hs' : List Hdr) (fuel : Nat) (hf : input.length < fuel) (n : Nat) :
    (∃ c', headersLoop be hc cap fuel ⟨off, [], input⟩ hs₀ = (.ok c', hs') ∧ c'.pos = off + n ∧
        c'.rest = input.drop n) ↔
      ∃ hs, BlockSpec hc cap off hs₀.length input n hs ∧ hs' = hs₀ ++ hs := by
  constructor
  · rintro ⟨c', h, hpos, -⟩
    obtain ⟨n', hs, hb, rfl, hpos', -, -⟩ := headersLoop_sound hbe hc cap fuel off input hs₀ hs' c' h
    have : n' = n := by omega
    subst this
    exact ⟨hs, hb, rfl⟩
  · rintro ⟨hs, hb, rfl⟩
    exact headersLoop_complete hbe hc cap fuel off input hs₀ n hs hf hb

/-! ### `parse_headers_iter_uninit` and the entry points -/

theorem parseHeadersIter_ok_iff {be : Backend} (hbe : be.Exact) (hc : HCfg) (cap off : Nat) (input : List Byte)
    (n : Nat) (hs : List Hdr) :
    (∃ c', parseHeadersIter be hc cap ⟨off, [], input⟩ = (.ok (n, c'), hs)) ↔
      BlockSpec hc cap off 0 input n hs := by
  unfold parseHeadersIter
  constructor
  · rintro ⟨c', h⟩
    split at h
    · rename_i c1 hs1 hrun
      simp only [Prod.mk.injEq, Outcome.ok.injEq] at h
      obtain ⟨⟨rfl, rfl⟩, rfl⟩ := h
      obtain ⟨n', hs, hb, rfl, hpos, -, -⟩ := headersLoop_sound hbe hc cap _ off input [] _ _ hrun
      have : c1.pos - (⟨off, [], input⟩ : Cur).pos = n' := by simp [Cur.pos] at hpos ⊢; omega
      rw [this]; simpa using hb
    · simp at h
    · simp at h
    · simp at h
  · intro hb
    obtain ⟨c', h1, h2, -⟩ := headersLoop_complete hbe hc cap (input.length + 1) off input [] n hs
      (Nat.lt_succ_self _) (by simpa using hb)
    refine ⟨c', ?_⟩
    simp only [h1, List.nil_append]
    simp [Cur.pos] at h2 ⊢
    omega

theorem finishHeaders_ok_iff {V : Type} (be : Backend) (hbe : be.Exact) (hc : HCfg) (cap : Nat) (buf : List Byte)
    (c : Cur) (v : V) (n : Nat) (hw : c.Wf buf) (ht : c.tok = []) :
    (finishHeaders be hc cap buf c v).status = .ok n ↔
      ∃ k hs, BlockSpec hc cap c.start 0 c.rest k hs ∧ n = c.start + k ∧
        (finishHeaders be hc cap buf c v).hdrs = hs ∧ (finishHeaders be hc cap buf c v).val = v := by
  obtain ⟨start, tok, rest⟩ := c
  simp only at ht
  subst ht
  have hlen : buf.length - (⟨start, [], rest⟩ : Cur).len = start := by
    have := hw.pos_le
    simp [Cur.pos, Cur.len] at this ⊢
    omega
  unfold finishHeaders
  simp only [hlen]
  constructor
  · intro h
    split at h
    · rename_i hl c1 hs1 hrun
      simp only [Outcome.ok.injEq] at h
      subst h
      have hb := (parseHeadersIter_ok_iff hbe hc cap start rest hl hs1).mp ⟨c1, hrun⟩
      refine ⟨hl, hs1, hb, rfl, ?_, ?_⟩ <;> simp
    · simp at h
    · simp at h
    · simp at h
  · rintro ⟨k, hs, hb, rfl, -, -⟩
    obtain ⟨c', hrun⟩ := (parseHeadersIter_ok_iff hbe hc cap start rest k hs).mpr hb
    simp [hrun]

theorem parseHeaders_block_iff {be : Backend} (hbe : be.Exact) (cap : Nat) (buf : List Byte) (n : Nat)
    (hs : List Hdr) :
    parseHeaders be cap buf = (.ok n, hs) ↔ BlockSpec HCfg.default cap 0 0 buf n hs := by
  rw [← parseHeadersIter_ok_iff hbe]
  unfold parseHeaders Cur.new
  constructor
  · intro h
    split at h
    · rename_i n1 c1 hs1 hrun
      simp only [Prod.mk.injEq, Outcome.ok.injEq] at h
      obtain ⟨rfl, rfl⟩ := h
      exact ⟨c1, hrun⟩
    · simp at h
    · simp at h
    · simp at h
  · rintro ⟨c', hrun⟩
    simp [hrun]

/-! ### what a completed line consumed is clean (C14) -/

/-- `l` can be put in front of a clean byte string: no NUL, every CR followed by LF inside `l` -/
def Pre (l : List Byte) : Prop := ∀ r, headClean r = true → headClean (l ++ r) = true

theorem Pre.nil : Pre [] := fun _ h => h

theorem Pre.append {a b : List Byte} (ha : Pre a) (hb : Pre b) : Pre (a ++ b) := by
  intro r hr; rw [List.append_assoc]; exact ha _ (hb _ hr)

theorem Pre.cons {b : Byte} {l : List Byte} (h1 : b ≠ NUL) (h2 : b ≠ CR) (hl : Pre l) : Pre (b :: l) := by
  intro r hr
  have e1 : (b != NUL) = true := by simpa using h1
  have e2 : (b != CR) = true := by simpa using h2
  simp only [List.cons_append, headClean, e1, e2, Bool.true_or, Bool.and_self, Bool.true_and]
  exact hl r hr

theorem Pre.of_all {l : List Byte} (h : ∀ b ∈ l, b ≠ NUL ∧ b ≠ CR) : Pre l := by
  induction l with
  | nil => exact .nil
  | cons b l ih => exact .cons (h b (by simp)).1 (h b (by simp)).2 (ih fun y hy => h y (by simp [hy]))

theorem Pre.eol {e : List Byte} (he : IsEol e) : Pre e := by
  rcases he with rfl | rfl
  · intro r hr
    simp [headClean, hr, CR_ne_NUL, LF_ne_NUL, LF_ne_CR]
  · exact .cons LF_ne_NUL LF_ne_CR .nil

theorem Pre.ws {b : Byte} (h : isWs b = true) {l : List Byte} (hl : Pre l) : Pre (b :: l) :=
  .cons (ws_facts h).2.2.2.2.1 (ws_facts h).2.2.1 hl

theorem Pre.allWs {l : List Byte} (h : AllWs l) : Pre l :=
  .of_all fun b hb => ⟨(ws_facts (h b hb)).2.2.2.2.1, (ws_facts (h b hb)).2.2.1⟩

theorem Pre.leadI {fold : Bool} {l : List Byte} (h : LeadI fold l) : Pre l := by
  induction h with
  | nil => exact .nil
  | ws hb _ ih => exact .ws hb ih
  | fold _ he hb _ ih => exact (Pre.eol he).append (.ws hb ih)

theorem Pre.valRestI {fold : Bool} {l : List Byte} (h : ValRestI fold l) : Pre l := by
  induction h with
  | nil => exact .nil
  | ch hb _ ih => exact .cons (value_facts hb).2.2 (value_facts hb).1 ih
  | fold _ he hb _ ih => exact (Pre.eol he).append (.ws hb ih)

theorem Pre.tchars {l : List Byte} (h : ∀ b ∈ l, isTchar b = true) : Pre l :=
  .of_all fun b hb => ⟨(tchar_facts (h b hb)).2.2.2.2.1, (tchar_facts (h b hb)).2.2.1⟩

theorem Pre.colon {l : List Byte} (hl : Pre l) : Pre (COLON :: l) := .cons (by decide) (by decide) hl

theorem Pre.noCtl {l : List Byte} (h : NoCtl l) : Pre l :=
  .of_all fun b hb => ⟨(h b hb).2.2, (h b hb).1⟩

theorem Pre.namePart {san : Bool} {name ws₁ : List Byte} (h : NamePart san name ws₁) : Pre (name ++ ws₁) :=
  (Pre.tchars h.name_tchar).append (.allWs h.ws₁_ok)

theorem Pre.value {v : Byte} (hv : isValue v = true) {l : List Byte} (hl : Pre l) : Pre (v :: l) :=
  .cons (value_facts hv).2.2 (value_facts hv).1 hl

theorem Pre.failPoint {hc : HCfg} {k : Nat} {good : List Byte} {b : Byte} (h : FailPoint hc k good b) :
    Pre good := by
  cases h with
  | lineStart => exact .nil
  | afterName _ htc => exact .tchars htc
  | afterNameWs _ _ htc _ hws => exact (Pre.tchars htc).append (.allWs hws)
  | afterColon hnp hlead => exact (Pre.namePart hnp).append (.colon (.leadI ((lead_iff _ _).mp hlead)))
  | inValue hnp hlead hv _ hrest =>
    have h1 : Pre (COLON :: _) := .colon (.leadI ((lead_iff _ _).mp hlead))
    exact ((Pre.namePart hnp).append h1).append (.value hv (.valRestI ((valRest_iff _ _).mp hrest)))

theorem Pre.bodySpec {fold : Bool} {body : List Byte} {valOff : Nat} {value : List Byte}
    (h : BodySpec fold body valOff value) : Pre body := by
  cases h with
  | empty hlead heol => exact (Pre.leadI ((lead_iff _ _).mp hlead)).append (.eol heol)
  | value hlead hv _ hrest heol =>
    exact ((Pre.leadI ((lead_iff _ _).mp hlead)).append (.value hv (.valRestI ((valRest_iff _ _).mp hrest)))).append
      (.eol heol)

theorem Pre.lineSpec {hc : HCfg} {k off : Nat} {consumed after : List Byte} {res : Line}
    (h : LineSpec hc k off consumed after res) : Pre consumed := by
  cases h with
  | eoh he => exact .eol he
  | leadingWs _ _ _ hws => exact .allWs hws
  | header hnp hbody => exact (Pre.namePart hnp).append (.colon (.bodySpec hbody))
  | ignored _ hj he _ hfp => exact ((Pre.failPoint hfp).append (.noCtl hj)).append (.eol he)

/-- C14: what a completed line consumed contains no NUL and no CR that is not immediately followed by
LF, under every option set, also for dropped lines. -/
theorem lineSpec_headClean (hc : HCfg) (k off : Nat) (consumed after : List Byte) (res : Line)
    (h : LineSpec hc k off consumed after res) : headClean consumed = true := by
  have := Pre.lineSpec h [] rfl
  simpa using this

theorem headClean_no_nul : ∀ (l : List Byte), headClean l = true → ∀ b ∈ l, b ≠ NUL
  | [], _, b, hb => by simp at hb
  | x :: l, h, b, hb => by
    simp only [headClean, Bool.and_eq_true, bne_iff_ne, ne_eq] at h
    rcases List.mem_cons.mp hb with rfl | hb
    · exact h.1.1
    · exact headClean_no_nul l h.2 b hb

theorem lineSpec_no_nul (hc : HCfg) (k off : Nat) (consumed after : List Byte) (res : Line)
    (h : LineSpec hc k off consumed after res) : ∀ b ∈ consumed, b ≠ NUL :=
  headClean_no_nul consumed (lineSpec_headClean hc k off consumed after res h)

/-! ### the options only widen the grammar (C14) -/

theorem LeadI.widen {fold : Bool} {l : List Byte} (h : LeadI false l) : LeadI fold l := by
  induction h with
  | nil => exact .nil
  | ws hb _ ih => exact .ws hb ih
  | fold hf => cases hf

theorem ValRestI.widen {fold : Bool} {l : List Byte} (h : ValRestI false l) : ValRestI fold l := by
  induction h with
  | nil => exact .nil
  | ch hb _ ih => exact .ch hb ih
  | fold hf => cases hf

theorem lineSpec_default_widen (hc : HCfg) (k off : Nat) (consumed after : List Byte) (res : Line)
    (h : LineSpec HCfg.default k off consumed after res) (hl : LookOk hc.fold after) :
    LineSpec hc k off consumed after res := by
  cases h with
  | eoh he => exact .eoh he
  | leadingWs hsbf => cases hsbf
  | ignored hign => cases hign
  | header hnp hbody _ =>
    have hws : _ = [] := hnp.ws₁_san rfl
    have hnp' : NamePart hc.san _ _ := ⟨hnp.name_ne, hnp.name_tchar, hnp.ws₁_ok, fun _ => hws⟩
    have hlead : ∀ {l}, Lead HCfg.default.fold l → Lead hc.fold l := fun h =>
      (lead_iff _ _).mpr (LeadI.widen ((lead_iff _ _).mp h))
    have hrest : ∀ {l}, ValRest HCfg.default.fold l → ValRest hc.fold l := fun h =>
      (valRest_iff _ _).mpr (ValRestI.widen ((valRest_iff _ _).mp h))
    refine .header hnp' ?_ hl
    cases hbody with
    | empty h1 h2 => exact .empty (hlead h1) h2
    | value h1 h2 h3 h4 h5 => exact .value (hlead h1) h2 h3 (hrest h4) h5

/-! ### the default grammar, spelled out (C08) -/

theorem ws_trim {b : Byte} (h : isWs b = true) : isTrimWs b = true := by
  have := allBytesB_spec (f := fun b => !isWs b || isTrimWs b) (by decide +kernel) b
  simpa [h] using this

theorem value_trim_ws {b : Byte} (hv : isValue b = true) (ht : isTrimWs b = true) : isWs b = true := by
  have := allBytesB_spec (f := fun b => !(isValue b && isTrimWs b) || isWs b) (by decide +kernel) b
  simpa [hv, ht] using this

theorem trimValue_append (o : Nat) (value ows₂ : List Byte) (hne : value ≠ [])
    (hlast : ∀ b, value.getLast? = some b → isTrimWs b = false) (hows : ∀ b ∈ ows₂, isTrimWs b = true) :
    trimValue ⟨o, value ++ ows₂⟩ = ⟨o, value⟩ := by
  cases hr : value.reverse with
  | nil => simp at hr; exact absurd hr hne
  | cons z ri =>
    have hv : value = ri.reverse ++ [z] := by
      have := congrArg List.reverse hr; simpa using this
    have hz : isTrimWs z = false := hlast z (by rw [hv]; simp)
    have hall : (value ++ ows₂).all isTrimWs = false := by
      rw [hv]; simp [hz]
    have hd : ((value ++ ows₂).reverse.dropWhile isTrimWs) = z :: ri := by
      rw [List.reverse_append, List.dropWhile_append_of_pos (fun a ha => hows a (by simpa using ha)), hr]
      simp [hz]
    unfold trimValue
    simp only [hall, Bool.false_eq_true, if_false, hd]
    rw [hv]; simp

theorem trim_split (u : List Byte) (hall : u.all isTrimWs = false) :
    ∃ value ows, u = value ++ ows ∧ value ≠ [] ∧ (∀ b, value.getLast? = some b → isTrimWs b = false) ∧
      (∀ b ∈ ows, isTrimWs b = true) ∧ ∀ o, trimValue ⟨o, u⟩ = ⟨o, value⟩ := by
  have hdne : u.reverse.dropWhile isTrimWs ≠ [] := by
    intro h
    have h2 : u.reverse.takeWhile isTrimWs = u.reverse := by
      have := List.takeWhile_append_dropWhile (p := isTrimWs) (l := u.reverse)
      rw [h, List.append_nil] at this; exact this
    have h3 : u.all isTrimWs = true := by
      rw [List.all_eq_true]
      intro b hb
      exact all_takeWhile isTrimWs u.reverse b (by rw [h2]; simpa using hb)
    rw [h3] at hall; cases hall
  refine ⟨(u.reverse.dropWhile isTrimWs).reverse, (u.reverse.takeWhile isTrimWs).reverse, ?_, ?_, ?_, ?_, ?_⟩
  · rw [← List.reverse_append, List.takeWhile_append_dropWhile, List.reverse_reverse]
  · intro h; exact hdne (by simpa using h)
  · intro b hb
    rw [List.getLast?_reverse, List.head?_eq_some_head hdne, Option.some.injEq] at hb
    rw [← hb]; exact List.head_dropWhile_not isTrimWs hdne
  · intro b hb
    exact all_takeWhile isTrimWs u.reverse b (by simpa using hb)
  · intro o
    simp only [trimValue, hall, Bool.false_eq_true, if_false]

theorem hline_of_spec {nm ws₁ body : List Byte} {valOff : Nat} {val : List Byte} (off : Nat)
    (hnp : NamePart false nm ws₁) (hbody : BodySpec false body valOff val) :
    ∃ l : HLine, l.ok ∧ l.bytes = nm ++ ws₁ ++ COLON :: body ∧ l.name = nm ∧
      trimValue ⟨off + nm.length + ws₁.length + 1 + valOff, val⟩ = ⟨off + l.name.length + 1 + l.ows₁.length, l.value⟩ := by
  have hws : ws₁ = [] := hnp.ws₁_san rfl
  subst hws
  cases hbody with
  | @empty lead eol hlead heol =>
    simp only [Lead, Bool.false_eq_true, if_false] at hlead
    refine ⟨⟨nm, lead, [], [], eol⟩, ⟨hnp.name_ne, hnp.name_tchar, hlead, by simp, by simp, by simp, by simp [AllWs],
      fun _ => rfl, heol⟩, by simp [HLine.bytes, headerLineBytes], rfl, ?_⟩
    simp [trimValue]
  | @value lead rest eol v hlead hv hvw hrest heol =>
    simp only [Lead, Bool.false_eq_true, if_false] at hlead
    simp only [ValRest, Bool.false_eq_true, if_false] at hrest
    have hu : ∀ b ∈ v :: rest, isValue b = true := by
      intro b hb; rcases List.mem_cons.mp hb with rfl | hb
      · exact hv
      · exact hrest b hb
    have hvt : isTrimWs v = false := by
      cases h : isTrimWs v
      · rfl
      · rw [value_trim_ws hv h] at hvw; cases hvw
    have hall : (v :: rest).all isTrimWs = false := by simp [hvt]
    obtain ⟨value, ows, hsplit, hne, hlast, hows, htrim⟩ := trim_split (v :: rest) hall
    refine ⟨⟨nm, lead, value, ows, eol⟩, ⟨hnp.name_ne, hnp.name_tchar, hlead, ?_, ?_, ?_, ?_, ?_, heol⟩, ?_, rfl, ?_⟩
    · intro b hb
      apply hu; rw [hsplit]; exact List.mem_append_left _ hb
    · intro b hb
      cases value with
      | nil => exact absurd rfl hne
      | cons x xs =>
        simp only [List.cons_append, List.cons.injEq] at hsplit
        simp only [List.head?_cons, Option.some.injEq] at hb
        rw [← hb, ← hsplit.1]; exact hvw
    · intro b hb
      have := hlast b hb
      cases h : isWs b
      · rfl
      · rw [ws_trim h] at this; cases this
    · intro b hb
      have : b ∈ v :: rest := by rw [hsplit]; exact List.mem_append_right _ hb
      exact value_trim_ws (hu b this) (hows b hb)
    · intro h; exact absurd h hne
    · simp only [HLine.bytes, headerLineBytes]
      have : nm ++ COLON :: lead ++ value ++ ows ++ eol = nm ++ COLON :: lead ++ (v :: rest) ++ eol := by
        rw [List.append_assoc (nm ++ COLON :: lead), ← hsplit]
      rw [this]; simp
    · rw [htrim]; simp

theorem spec_of_hline {l : HLine} (hl : l.ok) (k off : Nat) (after : List Byte) :
    ∃ v, LineSpec HCfg.default k off l.bytes after (.header ⟨off, l.name⟩ v) ∧
      trimValue v = ⟨off + l.name.length + 1 + l.ows₁.length, l.value⟩ := by
  obtain ⟨name, ows₁, value, ows₂, eol⟩ := l
  obtain ⟨h1, h2, h3, h4, h5, h6, h7, h8, h9⟩ := hl
  simp only at h1 h2 h3 h4 h5 h6 h7 h8 h9
  have hnp : NamePart HCfg.default.san name [] := ⟨h1, h2, by simp [AllWs], fun _ => rfl⟩
  have hlook : LookOk HCfg.default.fold after := by intro h; cases h
  have hlead : Lead HCfg.default.fold ows₁ := by simpa [Lead, HCfg.default] using h3
  cases value with
  | nil =>
    have := h8 rfl; subst this
    have hb : BodySpec HCfg.default.fold (ows₁ ++ eol) ows₁.length [] := .empty hlead h9
    refine ⟨⟨off + name.length + ([] : List Byte).length + 1 + ows₁.length, []⟩, ?_, ?_⟩
    · have := LineSpec.header (hc := HCfg.default) (nStored := k) (off := off) (after := after) hnp hb hlook
      simpa [HLine.bytes, headerLineBytes] using this
    · simp [trimValue]
  | cons x vs =>
    have hx : isValue x = true := h4 x (by simp)
    have hxw : isWs x = false := h5 x rfl
    have hrest : ValRest HCfg.default.fold (vs ++ ows₂) := by
      simp only [ValRest, HCfg.default, Bool.false_eq_true, if_false]
      intro b hb
      rcases List.mem_append.mp hb with hb | hb
      · exact h4 b (by simp [hb])
      · exact (ws_facts (h7 b hb)).1
    have hb : BodySpec HCfg.default.fold (ows₁ ++ x :: (vs ++ ows₂) ++ eol) ows₁.length (x :: (vs ++ ows₂)) :=
      .value hlead hx hxw hrest h9
    refine ⟨⟨off + name.length + ([] : List Byte).length + 1 + ows₁.length, x :: (vs ++ ows₂)⟩, ?_, ?_⟩
    · have := LineSpec.header (hc := HCfg.default) (nStored := k) (off := off) (after := after) hnp hb hlook
      simpa [HLine.bytes, headerLineBytes] using this
    · have := trimValue_append (off + name.length + ([] : List Byte).length + 1 + ows₁.length) (x :: vs) ows₂
        (by simp) ?_ (fun b hb => ws_trim (h7 b hb))
      · simpa using this
      · intro b hb
        have hbw := h6 b hb
        have hbv : isValue b = true := h4 b (List.mem_of_getLast? hb)
        cases h : isTrimWs b
        · rfl
        · rw [value_trim_ws hbv h] at hbw; cases hbw

theorem blockSpec_default_sound {cap off k : Nat} {input : List Byte} {n : Nat} {hs : List Hdr}
    (h : BlockSpec HCfg.default cap off k input n hs) (hk : k ≤ cap) :
    ∃ (lines : List HLine) (eol rest : List Byte), (∀ l ∈ lines, l.ok) ∧ IsEol eol ∧
      input = (lines.map HLine.bytes).flatten ++ eol ++ rest ∧ k + lines.length ≤ cap ∧
      n = ((lines.map HLine.bytes).flatten ++ eol).length ∧ hs = linesHeaders off lines := by
  induction h with
  | @eoh off k e after hls =>
    exact ⟨[], e, after, by simp, hls.eoh_isEol, by simp, by simpa using hk, by simp, rfl⟩
  | @skipped off k n consumed after hs hls _ _ =>
    cases hls with
    | leadingWs hsbf => cases hsbf
    | ignored hign => cases hign
  | @header off k n consumed after name value hs hls hlt _ ih =>
    obtain ⟨lines, eol, rest, hok, heol, rfl, hcap, rfl, rfl⟩ := ih (by omega)
    cases hls with
    | @header nm ws₁ body _ valOff val hnp hbody hlook =>
      obtain ⟨l, hl, hbytes, hname, htrim⟩ := hline_of_spec off hnp hbody
      refine ⟨l :: lines, eol, rest, ?_, heol, ?_, by simp; omega, ?_, ?_⟩
      · intro x hx; rcases List.mem_cons.mp hx with rfl | hx
        · exact hl
        · exact hok x hx
      · simp [hbytes]
      · simp [hbytes]; omega
      · simp only [linesHeaders, hbytes]
        rw [htrim, hname]

theorem blockSpec_default_complete (cap : Nat) : ∀ (lines : List HLine) (off k : Nat) (eol rest : List Byte),
    (∀ l ∈ lines, l.ok) → IsEol eol → k + lines.length ≤ cap →
    BlockSpec HCfg.default cap off k ((lines.map HLine.bytes).flatten ++ eol ++ rest)
      ((lines.map HLine.bytes).flatten ++ eol).length (linesHeaders off lines) := by
  intro lines
  induction lines with
  | nil =>
    intro off k eol rest _ heol _
    simpa [linesHeaders] using BlockSpec.eoh (hc := HCfg.default) (cap := cap) (off := off) (k := k) (after := rest)
      (LineSpec.eoh heol)
  | cons l lines ih =>
    intro off k eol rest hok heol hcap
    simp only [List.length_cons] at hcap
    have hl := hok l (by simp)
    have ih' := ih (off + l.bytes.length) (k + 1) eol rest (fun x hx => hok x (by simp [hx])) heol (by omega)
    obtain ⟨v, hls, htrim⟩ := spec_of_hline hl k off ((lines.map HLine.bytes).flatten ++ eol ++ rest)
    have := BlockSpec.header hls (by omega) ih'
    rw [htrim] at this
    simpa [linesHeaders, Nat.add_assoc] using this

/-- C08: under the default options a block is a sequence of `IsHeaderLine` lines and an empty line -/
theorem blockSpec_default_iff (cap off k : Nat) (input : List Byte) (n : Nat) (hs : List Hdr) (hk : k ≤ cap) :
    BlockSpec HCfg.default cap off k input n hs ↔
      ∃ (lines : List HLine) (eol rest : List Byte), (∀ l ∈ lines, l.ok) ∧ IsEol eol ∧
        input = (lines.map HLine.bytes).flatten ++ eol ++ rest ∧ k + lines.length ≤ cap ∧
        n = ((lines.map HLine.bytes).flatten ++ eol).length ∧ hs = linesHeaders off lines := by
  constructor
  · intro h; exact blockSpec_default_sound h hk
  · rintro ⟨lines, eol, rest, hok, heol, rfl, hcap, rfl, rfl⟩
    exact blockSpec_default_complete cap lines off k eol rest hok heol hcap

theorem parseHeaders_iff (be : Backend) (hbe : be.Exact) (cap : Nat) (buf : List Byte) (n : Nat) (hs : List Hdr) :
    parseHeaders be cap buf = (.ok n, hs) ↔
      ∃ (lines : List HLine) (eol rest : List Byte), (∀ l ∈ lines, l.ok) ∧ IsEol eol ∧
        buf = (lines.map HLine.bytes).flatten ++ eol ++ rest ∧ lines.length ≤ cap ∧
        n = ((lines.map HLine.bytes).flatten ++ eol).length ∧ hs = linesHeaders 0 lines := by
  rw [parseHeaders_block_iff hbe, blockSpec_default_iff cap 0 0 buf n hs (Nat.zero_le _)]
  simp only [Nat.zero_add]

/-! ### uniqueness of the decomposition -/

/-- a block is determined by the input (the parser is a function) -/
theorem BlockSpec.unique {hc : HCfg} {cap off k : Nat} {input : List Byte} {n n' : Nat} {hs hs' : List Hdr}
    (h : BlockSpec hc cap off k input n hs) (h' : BlockSpec hc cap off k input n' hs') : n = n' ∧ hs = hs' := by
  have hbe : specBackend.Exact := ⟨fun _ => rfl, fun _ => rfl, fun _ => rfl⟩
  let hs₀ : List Hdr := List.replicate k default
  have hk : hs₀.length = k := by simp [hs₀]
  obtain ⟨c1, h1, p1, -⟩ := headersLoop_complete hbe hc cap (input.length + 1) off input hs₀ n hs
    (Nat.lt_succ_self _) (by rw [hk]; exact h)
  obtain ⟨c2, h2, p2, -⟩ := headersLoop_complete hbe hc cap (input.length + 1) off input hs₀ n' hs'
    (Nat.lt_succ_self _) (by rw [hk]; exact h')
  rw [h1] at h2
  simp only [Prod.mk.injEq, Outcome.ok.injEq, List.append_cancel_left_eq] at h2
  obtain ⟨rfl, rfl⟩ := h2
  exact ⟨by omega, rfl⟩

theorem linesHeaders_inj : ∀ (lines lines' : List HLine) (off off' : Nat),
    linesHeaders off lines = linesHeaders off' lines' →
    lines.map (fun l => (l.name, l.value)) = lines'.map (fun l => (l.name, l.value))
  | [], [], _, _, _ => rfl
  | [], _ :: _, _, _, h => by simp [linesHeaders] at h
  | _ :: _, [], _, _, h => by simp [linesHeaders] at h
  | l :: ls, l' :: ls', off, off', h => by
    simp only [linesHeaders, List.cons.injEq, Hdr.mk.injEq, Slice.mk.injEq] at h
    obtain ⟨⟨⟨_, h1⟩, _, h2⟩, h3⟩ := h
    simp only [List.map_cons, List.cons.injEq, Prod.mk.injEq]
    exact ⟨⟨h1, h2⟩, linesHeaders_inj ls ls' _ _ h3⟩

theorem headerLines_unique {lines lines' : List HLine} {eol eol' rest rest' : List Byte}
    (h : ∀ l ∈ lines, l.ok) (h' : ∀ l ∈ lines', l.ok) (he : IsEol eol) (he' : IsEol eol')
    (e : (lines.map HLine.bytes).flatten ++ eol ++ rest = (lines'.map HLine.bytes).flatten ++ eol' ++ rest') :
    lines.map (fun l => (l.name, l.value)) = lines'.map (fun l => (l.name, l.value)) ∧
    ((lines.map HLine.bytes).flatten ++ eol).length = ((lines'.map HLine.bytes).flatten ++ eol').length := by
  have b1 := blockSpec_default_complete (lines.length + lines'.length) lines 0 0 eol rest h he (by omega)
  have b2 := blockSpec_default_complete (lines.length + lines'.length) lines' 0 0 eol' rest' h' he' (by omega)
  rw [← e] at b2
  obtain ⟨hn, hh⟩ := b1.unique b2
  exact ⟨linesHeaders_inj _ _ _ _ hh, hn⟩

end Hx
