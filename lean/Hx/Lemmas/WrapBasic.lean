/-
  Hx.Lemmas.WrapBasic — the wrappers `callInit` / `callUninit`, the observation built from them,
  history independence of the cores (C18), init/uninit agreement (C16) and the storage law (C17).
-/
import Hx.Obs
import Hx.Spec.Chk
import Hx.Lemmas.NoUB
import Hx.Lemmas.FwdAll
namespace Hx

/-! ### C18: the cores do not depend on the previous field values -/

/-- `a` (run on any value) agrees with `b` (run on a fresh value) -/
def HistRel {V : Type} (a b : Res V) : Prop :=
  a.status = b.status ∧ a.hdrs = b.hdrs ∧ (∀ n, b.status = .ok n → a.val = b.val)

theorem HistRel.refl {V : Type} (a : Res V) : HistRel a a := ⟨rfl, rfl, fun _ _ => rfl⟩

theorem step_histRel {α V : Type} (o : Outcome (α × Cur)) (v v' : V) (k k' : α → Cur → Res V)
    (h : ∀ a c, HistRel (k a c) (k' a c)) : HistRel (step o v k) (step o v' k') := by
  unfold step
  split
  · exact h _ _
  · exact ⟨rfl, rfl, fun n hn => by simp at hn⟩
  · exact ⟨rfl, rfl, fun n hn => by simp at hn⟩
  · exact ⟨rfl, rfl, fun n hn => by simp at hn⟩

theorem reqCore_histRel (be : Backend) (cfg : Config) (cap : Nat) (buf : List Byte) (v v' : ReqVal) :
    HistRel (reqCore be cfg cap buf v) (reqCore be cfg cap buf v') := by
  unfold reqCore
  repeat (first | exact HistRel.refl _ | (apply step_histRel; intro _ _))

theorem respCore_histRel (be : Backend) (cfg : Config) (cap : Nat) (buf : List Byte) (v v' : RespVal) :
    HistRel (respCore be cfg cap buf v) (respCore be cfg cap buf v') := by
  unfold respCore
  repeat (first | exact HistRel.refl _ | (apply step_histRel; intro _ _))

theorem reqCore_history_free (be : Backend) (cfg : Config) (cap : Nat) (buf : List Byte) (v : ReqVal) :
    let r := reqCore be cfg cap buf v
    let f := reqCore be cfg cap buf ReqVal.fresh
    r.status = f.status ∧ r.hdrs = f.hdrs ∧ (∀ n, f.status = .ok n → r.val = f.val) :=
  reqCore_histRel be cfg cap buf v ReqVal.fresh

theorem respCore_history_free (be : Backend) (cfg : Config) (cap : Nat) (buf : List Byte) (v : RespVal) :
    let r := respCore be cfg cap buf v
    let f := respCore be cfg cap buf RespVal.fresh
    r.status = f.status ∧ r.hdrs = f.hdrs ∧ (∀ n, f.status = .ok n → r.val = f.val) :=
  respCore_histRel be cfg cap buf v RespVal.fresh

/-! ### histories (C18) -/

/-- one earlier call: configuration and buffer -/
structure Call where
  cfg : Config
  buf : List Byte

/-- state of a reused value: its fields, the current `headers.len()`, and the array -/
structure Reused (V : Type) where
  h : Handle V
  arr : Arr

def runHistReq (be : Backend) (s : Reused ReqVal) : List Call → Reused ReqVal
  | [] => s
  | c :: cs =>
    let r := callInit (fun n v => reqCore be c.cfg n c.buf v) s.h s.arr
    runHistReq be ⟨⟨r.val, r.viewLen⟩, r.arr⟩ cs

def runHistResp (be : Backend) (s : Reused RespVal) : List Call → Reused RespVal
  | [] => s
  | c :: cs =>
    let r := callInit (fun n v => respCore be c.cfg n c.buf v) s.h s.arr
    runHistResp be ⟨⟨r.val, r.viewLen⟩, r.arr⟩ cs

/-- observation of a probe call on a (possibly reused) value -/
def probeReq (be : Backend) (cfg : Config) (buf : List Byte) (s : Reused ReqVal) : Obs :=
  Obs.ofCall ReqVal.spans ReqVal.nums (callInit (fun n v => reqCore be cfg n buf v) s.h s.arr) true []

def probeResp (be : Backend) (cfg : Config) (buf : List Byte) (s : Reused RespVal) : Obs :=
  Obs.ofCall RespVal.spans RespVal.nums (callInit (fun n v => respCore be cfg n buf v) s.h s.arr) true []

/-- the filter that `Obs.ofCall` uses to expose headers -/
def hdrOf : SlotO → Option HdrO
  | .hdr h => some h
  | _ => none

theorem ofCall_hdrs_eq {V : Type} (spans : V → List Sp) (nums : V → List (Option Nat))
    (r : CallRes V) (isInit : Bool) (other : Arr) :
    (Obs.ofCall spans nums r isInit other).hdrs =
      if (St.ofOutcome r.status).isC then ((r.arr.take r.viewLen).map SlotO.ofSlot).filterMap hdrOf else [] := by
  unfold Obs.ofCall
  simp only
  split
  · congr 1
  · rfl

theorem take_write (a : Arr) (hs : List Hdr) :
    ((List.take hs.length (Arr.write a hs)).map SlotO.ofSlot).filterMap hdrOf = hs.map HdrO.ofHdr :=
  hdrs_of_write hdrOf (fun _ => rfl) a hs

theorem probe_history_free {V : Type} (spans : V → List Sp) (nums : V → List (Option Nat))
    (core : Nat → V → Res V) (v v₀ : V) (n : Nat) (arr arr' : Arr)
    (h : HistRel (core n v) (core n v₀)) :
    chkC18 (Obs.ofCall spans nums (callInit core ⟨v, n⟩ arr) true [])
           (Obs.ofCall spans nums (callInit core ⟨v₀, n⟩ arr') true []) = true := by
  unfold chkC18
  rw [ofCall_hdrs_eq, ofCall_hdrs_eq]
  unfold callInit
  dsimp only
  generalize core n v = r at h
  generalize core n v₀ = f at h
  obtain ⟨st, val, hs⟩ := r
  obtain ⟨st', val', hs'⟩ := f
  obtain ⟨h1, h2, h3⟩ := h
  simp only at h1 h2 h3
  subst h1 h2
  cases st with
  | ok m =>
    have := h3 m rfl
    subst this
    simp only [St.ofOutcome, St.isC, if_true, take_write]
    simp [Obs.ofCall, St.ofOutcome]
  | part => simp [Obs.ofCall, St.ofOutcome, St.isC]
  | err e => simp [Obs.ofCall, St.ofOutcome, St.isC]
  | ub u => simp [Obs.ofCall, St.ofOutcome, St.isC]

theorem probe_history_free_req (be : Backend) (cfg : Config) (buf : List Byte) (v : ReqVal) (viewLen : Nat)
    (arr : Arr) :
    chkC18 (Obs.ofCall ReqVal.spans ReqVal.nums
              (callInit (fun n v => reqCore be cfg n buf v) ⟨v, viewLen⟩ arr) true [])
           (Obs.ofCall ReqVal.spans ReqVal.nums
              (callInit (fun n v => reqCore be cfg n buf v) ⟨ReqVal.fresh, viewLen⟩ (sentinels 0 viewLen)) true [])
      = true :=
  probe_history_free _ _ _ _ _ _ _ _ (reqCore_histRel be cfg viewLen buf v ReqVal.fresh)

theorem probe_history_free_resp (be : Backend) (cfg : Config) (buf : List Byte) (v : RespVal) (viewLen : Nat)
    (arr : Arr) :
    chkC18 (Obs.ofCall RespVal.spans RespVal.nums
              (callInit (fun n v => respCore be cfg n buf v) ⟨v, viewLen⟩ arr) true [])
           (Obs.ofCall RespVal.spans RespVal.nums
              (callInit (fun n v => respCore be cfg n buf v) ⟨RespVal.fresh, viewLen⟩ (sentinels 0 viewLen)) true [])
      = true :=
  probe_history_free _ _ _ _ _ _ _ _ (respCore_histRel be cfg viewLen buf v RespVal.fresh)

theorem callInit_view_le {V : Type} (core : Nat → V → Res V) (h : Handle V) (arr : Arr)
    (hle : (core h.viewLen h.val).hdrs.length ≤ h.viewLen) : (callInit core h arr).viewLen ≤ h.viewLen := by
  unfold callInit
  dsimp only
  split
  · exact hle
  · exact Nat.le_refl _

theorem runHistReq_view_le (be : Backend) (s : Reused ReqVal) (hist : List Call) :
    (runHistReq be s hist).h.viewLen ≤ s.h.viewLen := by
  induction hist generalizing s with
  | nil => exact Nat.le_refl _
  | cons c cs ih =>
    rw [runHistReq]
    refine Nat.le_trans (ih _) ?_
    exact callInit_view_le _ _ _ (reqCore_hdrs_le be c.cfg _ c.buf _)

theorem runHistResp_view_le (be : Backend) (s : Reused RespVal) (hist : List Call) :
    (runHistResp be s hist).h.viewLen ≤ s.h.viewLen := by
  induction hist generalizing s with
  | nil => exact Nat.le_refl _
  | cons c cs ih =>
    rw [runHistResp]
    refine Nat.le_trans (ih _) ?_
    exact callInit_view_le _ _ _ (respCore_hdrs_le be c.cfg _ c.buf _)

/-! ### C16: initialised vs. uninitialised array -/

theorem take_write_slots (a : Arr) (hs : List Hdr) :
    List.take hs.length (Arr.write a hs) = hs.map Slot.hdr := by
  unfold Arr.write
  rw [List.take_left' (by simp)]

theorem wrappers_any_core {V : Type} (core : Nat → V → Res V) (v : V) (acap cap : Nat) (arr uarr : Arr) :
    let a := callInit core ⟨v, cap⟩ arr
    let b := callUninit core ⟨v, acap⟩ cap uarr
    a.status = b.status ∧ a.val = b.val ∧
    (∀ n, a.status = .ok n → a.viewLen = b.viewLen ∧ (a.arr.take a.viewLen) = (b.arr.take b.viewLen)) := by
  unfold callInit callUninit
  dsimp only
  generalize core cap v = r
  obtain ⟨st, val, hs⟩ := r
  cases st with
  | ok m => simp [take_write_slots]
  | part => simp
  | err e => simp
  | ub u => simp

theorem sameResult_init_uninit {V : Type} (spans : V → List Sp) (nums : V → List (Option Nat))
    (core : Nat → V → Res V) (v : V) (acap cap : Nat) (arr uarr oa ou : Arr) :
    sameResult (Obs.ofCall spans nums (callInit core ⟨v, cap⟩ arr) true oa)
      (Obs.ofCall spans nums (callUninit core ⟨v, acap⟩ cap uarr) false ou) = true := by
  unfold sameResult
  rw [ofCall_hdrs_eq, ofCall_hdrs_eq]
  unfold callInit callUninit
  dsimp only
  generalize core cap v = r
  obtain ⟨st, val, hs⟩ := r
  cases st with
  | ok m =>
    simp only [St.ofOutcome, St.isC, if_true, take_write]
    simp [Obs.ofCall, St.ofOutcome]
  | part => simp [Obs.ofCall, St.ofOutcome, St.isC]
  | err e => simp [Obs.ofCall, St.ofOutcome, St.isC]
  | ub u => simp [Obs.ofCall, St.ofOutcome, St.isC]

theorem req_init_uninit (be : Backend) (cfg : Config) (acap cap : Nat) (buf : List Byte) :
    sameResult (reqObs be cfg cap buf) (reqObsU be cfg acap cap buf) = true :=
  sameResult_init_uninit _ _ _ _ _ _ _ _ _ _

theorem resp_init_uninit (be : Backend) (cfg : Config) (acap cap : Nat) (buf : List Byte) :
    sameResult (respObs be cfg cap buf) (respObsU be cfg acap cap buf) = true :=
  sameResult_init_uninit _ _ _ _ _ _ _ _ _ _

end Hx
