/-
  Hx.Lemmas.FwdAll — S2 (`Fwd`) for every stage of the model, and what C04 / C20 need from it.

  The working notion is slightly stronger than `Fwd`: the slices of a stage result, *in the order
  they are listed by `HasSlices`*, form a `Chain` between the entry and exit commit points
  (each slice lies in the buffer, carries the buffer's bytes, and starts at or after the end of
  the previous one).  `FwdC S f` threads a list `S` of slices obtained by earlier stages, so that
  `pure (.header name value)` after several binds is covered by the generic bind rule.
-/
import Hx.Lemmas.Stage
import Hx.Obs
import Hx.Spec.Chk
namespace Hx
set_option linter.unusedVariables false

open HasSlices (slices)

/-! ### `slices` unfolding -/

@[simp] theorem slices_unit (a : Unit) : slices a = [] := rfl
@[simp] theorem slices_nat (a : Nat) : slices a = [] := rfl
@[simp] theorem slices_byte (a : Byte) : slices a = [] := rfl
@[simp] theorem slices_bool (a : Bool) : slices a = [] := rfl
@[simp] theorem slices_slice (s : Slice) : slices s = [s] := rfl
@[simp] theorem slices_str_slice (s : Slice) : slices (Str.slice s) = [s] := rfl
@[simp] theorem slices_str_static : slices Str.staticEmpty = [] := rfl
@[simp] theorem slices_some {α : Type} [HasSlices α] (a : α) : slices (some a) = slices a := rfl
@[simp] theorem slices_none {α : Type} [HasSlices α] : slices (none : Option α) = [] := rfl
@[simp] theorem slices_opt_byte (o : Option Byte) : slices o = [] := by cases o <;> rfl
@[simp] theorem slices_pair {α β : Type} [HasSlices α] [HasSlices β] (a : α) (b : β) :
    slices (a, b) = slices a ++ slices b := rfl
@[simp] theorem slices_line_header (n v : Slice) : slices (Line.header n v) = [n, v] := rfl
@[simp] theorem slices_line_eoh : slices Line.eoh = [] := rfl
@[simp] theorem slices_line_skipped : slices Line.skipped = [] := rfl
@[simp] theorem slices_ws_empty (v : Slice) : slices (WsRes.empty v) = [v] := rfl
@[simp] theorem slices_ws_value : slices WsRes.value = [] := rfl
@[simp] theorem slices_ws_skipped : slices WsRes.skipped = [] := rfl

/-! ### the cursor invariant -/

theorem Cur.Wf.start_le_pos (c : Cur) : c.start ≤ c.pos := by simp [Cur.pos]

theorem Cur.Wf.pos_le_len {buf : List Byte} {c : Cur} (h : c.Wf buf) : c.pos ≤ buf.length := by
  have := h.pos_le; omega

theorem Cur.Wf.start_le_len {buf : List Byte} {c : Cur} (h : c.Wf buf) : c.start ≤ buf.length := by
  have := h.pos_le_len; simp [Cur.pos] at this; omega

/-- moving bytes from `rest` to `tok` -/
theorem Cur.Wf.split {buf : List Byte} {s : Nat} {tok r1 r2 : List Byte}
    (h : Cur.Wf buf ⟨s, tok, r1 ++ r2⟩) : Cur.Wf buf ⟨s, tok ++ r1, r2⟩ := by
  obtain ⟨pre, hl, hb⟩ := h
  exact ⟨pre, hl, by simpa [List.append_assoc] using hb⟩

theorem Cur.Wf.snoc {buf : List Byte} {s : Nat} {tok r : List Byte} {b : Byte}
    (h : Cur.Wf buf ⟨s, tok, b :: r⟩) : Cur.Wf buf ⟨s, tok ++ [b], r⟩ :=
  Cur.Wf.split (r1 := [b]) h

theorem Cur.Wf.snoc2 {buf : List Byte} {s : Nat} {tok r : List Byte} {b b2 : Byte}
    (h : Cur.Wf buf ⟨s, tok, b :: b2 :: r⟩) : Cur.Wf buf ⟨s, tok ++ [b, b2], r⟩ :=
  Cur.Wf.split (r1 := [b, b2]) h

theorem Cur.Wf.adv {buf : List Byte} {s : Nat} {tok r : List Byte} (n : Nat)
    (h : Cur.Wf buf ⟨s, tok, r⟩) : Cur.Wf buf ⟨s, tok ++ r.take n, r.drop n⟩ :=
  Cur.Wf.split (by simpa using h)

/-- `commit()` -/
theorem Cur.Wf.commit {buf : List Byte} {s : Nat} {tok r : List Byte}
    (h : Cur.Wf buf ⟨s, tok, r⟩) : Cur.Wf buf ⟨s + tok.length, [], r⟩ := by
  obtain ⟨pre, hl, hb⟩ := h
  exact ⟨pre ++ tok, by simp at hl ⊢; omega, by simpa using hb⟩

/-! ### `Slice.In` -/

theorem Slice.In.mono {buf : List Byte} {lo hi lo' hi' : Nat} {s : Slice}
    (h : Slice.In buf lo hi s) (hlo : lo' ≤ lo) (hhi : hi ≤ hi') : Slice.In buf lo' hi' s :=
  ⟨by have := h.1; omega, by have := h.2.1; omega, h.2.2⟩

/-- a prefix of a slice is a slice -/
theorem Slice.In.prefix {buf : List Byte} {lo hi off : Nat} {p q : List Byte}
    (h : Slice.In buf lo hi ⟨off, p ++ q⟩) : Slice.In buf lo hi ⟨off, p⟩ := by
  obtain ⟨h1, h2, h3⟩ := h
  refine ⟨h1, by simp at h2 ⊢; omega, ?_⟩
  have := congrArg (List.take p.length) h3
  simp only [List.take_left', List.length_append, List.take_take] at this
  simpa [Nat.min_eq_left (Nat.le_add_right _ _)] using this

/-- the uncommitted bytes of a well-formed cursor are a slice of the buffer -/
theorem Cur.Wf.tok_in {buf : List Byte} {s : Nat} {tok r : List Byte}
    (h : Cur.Wf buf ⟨s, tok, r⟩) : Slice.In buf s (s + tok.length) ⟨s, tok⟩ := by
  obtain ⟨pre, hl, hb⟩ := h
  refine ⟨Nat.le_refl _, Nat.le_refl _, ?_⟩
  simp only at hl hb ⊢
  subst hb; subst hl
  simp [List.append_assoc]

/-! ### chains of slices -/

/-- the slices of `l` lie in `[lo, hi)` of `buf`, carry the buffer's bytes, and each starts at or
after the end of the previous one -/
def Chain (buf : List Byte) : Nat → Nat → List Slice → Prop
  | lo, hi, [] => lo ≤ hi
  | lo, hi, s :: t => Slice.In buf lo hi s ∧ Chain buf (s.off + s.bytes.length) hi t

theorem Chain.le {buf : List Byte} : ∀ {l : List Slice} {lo hi : Nat}, Chain buf lo hi l → lo ≤ hi
  | [], _, _, h => h
  | _ :: _, _, _, h => by have := h.1.1; have := h.1.2.1; omega

theorem Chain.mono {buf : List Byte} : ∀ {l : List Slice} {lo hi lo' hi' : Nat},
    Chain buf lo hi l → lo' ≤ lo → hi ≤ hi' → Chain buf lo' hi' l
  | [], _, _, _, _, h, h1, h2 => by simp only [Chain] at h ⊢; omega
  | _ :: _, _, _, _, _, h, h1, h2 => ⟨h.1.mono h1 h2, h.2.mono (Nat.le_refl _) h2⟩

theorem Chain.append {buf : List Byte} : ∀ {l1 l2 : List Slice} {lo mid hi : Nat},
    Chain buf lo mid l1 → Chain buf mid hi l2 → Chain buf lo hi (l1 ++ l2)
  | [], _, _, _, _, h1, h2 => h2.mono h1 (Nat.le_refl _)
  | _ :: _, _, _, _, _, h1, h2 =>
    ⟨h1.1.mono (Nat.le_refl _) h2.le, Chain.append h1.2 h2⟩

theorem Chain.sublist {buf : List Byte} {l l' : List Slice} (hs : l'.Sublist l) :
    ∀ {lo hi : Nat}, Chain buf lo hi l → Chain buf lo hi l' := by
  induction hs with
  | slnil => intro lo hi h; exact h
  | cons a _ ih =>
    intro lo hi h
    exact (ih h.2).mono (by have := h.1.1; omega) (Nat.le_refl _)
  | cons_cons a _ ih =>
    intro lo hi h
    exact ⟨h.1, ih h.2⟩

theorem Chain.mem {buf : List Byte} : ∀ {l : List Slice} {lo hi : Nat} {s : Slice},
    Chain buf lo hi l → s ∈ l → Slice.In buf lo hi s
  | [], _, _, _, _, hm => by cases hm
  | a :: t, lo, hi, s, h, hm => by
    rcases List.mem_cons.1 hm with rfl | hm
    · exact h.1
    · exact (Chain.mem h.2 hm).mono (by have := h.1.1; omega) (Nat.le_refl _)

theorem Chain.single {buf : List Byte} {lo hi : Nat} {s : Slice} (h : Slice.In buf lo hi s) :
    Chain buf lo hi [s] := ⟨h, h.2.1⟩

/-! ### outcomes that respect the invariant -/

/-- if `o` is Complete, the new cursor is a cursor of `buf` not behind `c`, and the slices of the
result form a chain from `lo` to the new commit point -/
def OkAtC {α : Type} [HasSlices α] (buf : List Byte) (lo : Nat) (c : Cur) (o : Outcome (α × Cur)) : Prop :=
  ∀ a c', o = .ok (a, c') →
    c'.Wf buf ∧ c.start ≤ c'.start ∧ c.pos ≤ c'.pos ∧ Chain buf lo c'.start (slices a)

section OkAtC
variable {α : Type} [HasSlices α] {buf : List Byte}

theorem OkAtC.part {lo : Nat} {c : Cur} : OkAtC buf lo c (.part : Outcome (α × Cur)) := by
  intro a c' h; cases h
theorem OkAtC.err {lo : Nat} {c : Cur} {e : Error} : OkAtC buf lo c (.err e : Outcome (α × Cur)) := by
  intro a c' h; cases h
theorem OkAtC.ub {lo : Nat} {c : Cur} {u : UB} : OkAtC buf lo c (.ub u : Outcome (α × Cur)) := by
  intro a c' h; cases h

theorem OkAtC.ok {lo : Nat} {c c' : Cur} {a : α} (h1 : c'.Wf buf) (h2 : c.start ≤ c'.start)
    (h3 : c.pos ≤ c'.pos) (h4 : Chain buf lo c'.start (slices a)) :
    OkAtC buf lo c (.ok (a, c')) := by
  intro a' c'' h
  simp only [Outcome.ok.injEq, Prod.mk.injEq] at h
  obtain ⟨rfl, rfl⟩ := h
  exact ⟨h1, h2, h3, h4⟩

/-- weaken the entry point -/
theorem OkAtC.of_le {lo lo' : Nat} {c c1 : Cur} {o : Outcome (α × Cur)}
    (h : OkAtC buf lo c1 o) (hs : c.start ≤ c1.start) (hp : c.pos ≤ c1.pos) (hl : lo' ≤ lo) :
    OkAtC buf lo' c o := by
  intro a c' ho
  obtain ⟨h1, h2, h3, h4⟩ := h a c' ho
  exact ⟨h1, by omega, by omega, h4.mono hl (Nat.le_refl _)⟩

end OkAtC

/-- `f` respects the invariant, given a chain `S` of slices obtained before `f` runs -/
def FwdC {α : Type} [HasSlices α] (S : List Slice) (f : P α) : Prop :=
  ∀ (buf : List Byte) (c : Cur) (lo : Nat), c.Wf buf → Chain buf lo c.start S →
    OkAtC buf lo c (f.run c)

/-- ordered `Fwd`: the slices of the result form a chain between the entry and exit commit points -/
def FwdO {α : Type} [HasSlices α] (f : P α) : Prop :=
  ∀ (buf : List Byte) (c : Cur), c.Wf buf → OkAtC buf c.start c (f.run c)

section Comb
variable {α β : Type} [HasSlices α] [HasSlices β]

theorem FwdO.toC {f : P α} (h : FwdO f) (S : List Slice) : FwdC S f := by
  intro buf c lo hwf hch
  exact (h buf c hwf).of_le (Nat.le_refl _) (Nat.le_refl _) hch.le

theorem FwdC.toO {f : P α} (h : FwdC [] f) : FwdO f := by
  intro buf c hwf
  exact h buf c c.start hwf (Nat.le_refl _)

/-- the statement of `Hx.Lemmas.Stage` -/
theorem FwdO.fwd {f : P α} (h : FwdO f) : Fwd f := by
  intro buf c a c' hwf hr
  obtain ⟨h1, h2, h3, h4⟩ := h buf c hwf a c' hr
  exact ⟨h1, h2, h3, fun s hs => h4.mem hs⟩

theorem FwdC.pure {S : List Slice} (a : α) (h : (slices a).Sublist S) : FwdC S (pure a : P α) := by
  intro buf c lo hwf hch
  rw [run_pure]
  exact OkAtC.ok hwf (Nat.le_refl _) (Nat.le_refl _) (hch.sublist h)

theorem FwdC.fail {S : List Slice} (e : Error) : FwdC S (P.fail e : P α) := by
  intro buf c lo _ _; exact OkAtC.err
theorem FwdC.partial_ {S : List Slice} : FwdC S (P.partial_ : P α) := by
  intro buf c lo _ _; exact OkAtC.part
theorem FwdC.undefined {S : List Slice} (u : UB) : FwdC S (P.undefined u : P α) := by
  intro buf c lo _ _; exact OkAtC.ub

theorem FwdC.bind {S : List Slice} {f : P α} {g : α → P β} (hf : FwdO f)
    (hg : ∀ a, FwdC (S ++ slices a) (g a)) : FwdC S (f >>= g) := by
  intro buf c lo hwf hch
  rw [run_bind]
  have hf' := hf buf c hwf
  cases hfc : f.run c with
  | ok p =>
    obtain ⟨a, c1⟩ := p
    obtain ⟨h1, h2, h3, h4⟩ := hf' a c1 hfc
    exact (hg a buf c1 lo h1 (hch.append h4)).of_le h2 h3 (Nat.le_refl _)
  | part => exact OkAtC.part
  | err e => exact OkAtC.err
  | ub u => exact OkAtC.ub

theorem FwdO.bind {f : P α} {g : α → P β} (hf : FwdO f)
    (hg : ∀ a, FwdC (slices a) (g a)) : FwdO (f >>= g) :=
  (FwdC.bind (S := []) hf (by simpa using hg)).toO

theorem FwdC.ite {S : List Slice} {p : Prop} [Decidable p] {f g : P α} (hf : FwdC S f) (hg : FwdC S g) :
    FwdC S (if p then f else g) := by
  split <;> assumption

/-- a stage given by a function on the cursor -/
theorem FwdC.mk {S : List Slice} {f : Cur → Outcome (α × Cur)}
    (h : ∀ buf c, c.Wf buf → OkAtC buf c.start c (f c)) : FwdC S (P.mk f) :=
  FwdO.toC (f := P.mk f) (fun buf c hwf => by rw [run_mk]; exact h buf c hwf) S

/-- `match bytes.peek() { None => Partial, Some(p) => if ws(p) then f else g }` without consuming -/
theorem FwdC.peekIf {S : List Slice} {q : Byte → Bool} {f g : P α} (hf : FwdC S f) (hg : FwdC S g) :
    FwdC S (P.mk fun c => match c.rest with
      | [] => .part
      | p :: _ => if q p then f.run c else g.run c) := by
  intro buf c lo hwf hch
  rw [run_mk]
  split
  · exact OkAtC.part
  · split
    · exact hf buf c lo hwf hch
    · exact hg buf c lo hwf hch

end Comb

/-! ### primitives -/

theorem next_fwd : FwdO next := by
  intro buf c hwf
  rcases c with ⟨s, tok, rest⟩
  cases rest with
  | nil => exact OkAtC.part
  | cons b r =>
    simp only [next, run_mk]
    exact OkAtC.ok hwf.snoc (Nat.le_refl _) (by simp [Cur.pos]) (by simp [Chain])

/-- `next` consumes exactly one byte -/
theorem next_pos {c c' : Cur} {b : Byte} (h : next.run c = .ok (b, c')) : c'.pos = c.pos + 1 := by
  rcases c with ⟨s, tok, rest⟩
  cases rest with
  | nil => simp [next] at h
  | cons b r =>
    simp only [next, run_mk, Outcome.ok.injEq, Prod.mk.injEq] at h
    obtain ⟨_, rfl⟩ := h
    simp [Cur.pos]; omega

theorem advance_fwd (n : Nat) : FwdO (advance n) := by
  intro buf c hwf
  rcases c with ⟨s, tok, rest⟩
  simp only [advance, run_mk]
  split
  · exact OkAtC.ok (hwf.adv n) (Nat.le_refl _) (by simp [Cur.pos]) (by simp [Chain])
  · exact OkAtC.ub

theorem slice_fwd : FwdO slice := by
  intro buf c hwf
  rcases c with ⟨s, tok, rest⟩
  simp only [slice, run_mk]
  exact OkAtC.ok hwf.commit (by simp) (by simp [Cur.pos]) (Chain.single hwf.tok_in)

theorem sliceSkip_fwd (k : Nat) : FwdO (sliceSkip k) := by
  intro buf c hwf
  rcases c with ⟨s, tok, rest⟩
  simp only [sliceSkip, run_mk]
  split
  · refine OkAtC.ok hwf.commit (by simp) (by simp [Cur.pos]) (Chain.single ?_)
    have h : Slice.In buf s (s + tok.length)
        ⟨s, tok.take (tok.length - k) ++ tok.drop (tok.length - k)⟩ := by
      rw [List.take_append_drop]; exact hwf.tok_in
    exact h.prefix
  · exact OkAtC.ub

theorem expect_fwd (p : Byte → Bool) (e : Error) : FwdO (expect p e) :=
  FwdO.bind next_fwd fun _ => FwdC.ite (FwdC.pure _ (by simp)) (FwdC.fail _)

theorem scan_fwd (sc : Scanner) : FwdO (scan sc) := by
  intro buf c hwf
  rcases c with ⟨s, tok, rest⟩
  simp only [scan, run_mk]
  split
  · exact OkAtC.ub
  · split
    · exact OkAtC.ok (hwf.adv _) (Nat.le_refl _) (by simp [Cur.pos]) (by simp [Chain])
    · exact OkAtC.ub

theorem scanNext_fwd (sc : Scanner) : FwdO (scanNext sc) :=
  FwdO.bind (scan_fwd sc) fun _ => FwdC.bind next_fwd fun _ => FwdC.pure _ (by simp)

theorem peekAhead_fwd (n : Nat) : FwdO (peekAhead n) := by
  intro buf c hwf
  simp only [peekAhead, run_mk]
  split
  · exact OkAtC.ok hwf (Nat.le_refl _) (Nat.le_refl _) (by simp [Chain])
  · exact OkAtC.ub

theorem peekOrPart_fwd : FwdO peekOrPart := by
  intro buf c hwf
  simp only [peekOrPart, run_mk]
  split
  · exact OkAtC.part
  · exact OkAtC.ok hwf (Nat.le_refl _) (Nat.le_refl _) (by simp [Chain])

theorem skipWsRun_fwd : FwdO skipWsRun := by
  intro buf c hwf
  rcases c with ⟨s, tok, rest⟩
  simp only [skipWsRun, run_mk]
  refine OkAtC.ok (Cur.Wf.split ?_) (Nat.le_refl _) (by simp [Cur.pos]) (by simp [Chain])
  rw [List.takeWhile_append_dropWhile]; exact hwf

theorem space_fwd (e : Error) : FwdO (space e) :=
  FwdO.bind (expect_fwd _ _) fun _ => FwdC.bind slice_fwd fun _ => FwdC.pure _ (by simp)

theorem newline_fwd : FwdO newline :=
  FwdO.bind next_fwd fun _ =>
    FwdC.ite (FwdC.bind (expect_fwd _ _) fun _ => FwdC.bind slice_fwd fun _ => FwdC.pure _ (by simp))
      (FwdC.ite (FwdC.bind slice_fwd fun _ => FwdC.pure _ (by simp)) (FwdC.fail _))

/-! ### automation -/

/-- closes `c.pos ≤ c'.pos`-style goals on literal cursors -/
macro "pos_tac" : tactic =>
  `(tactic| (simp only [Cur.pos, List.length_append, List.length_cons, List.length_nil]; omega))

/-- the stage lemmas proved so far -/
syntax "fwd_prim" : tactic
macro_rules | `(tactic| fwd_prim) => `(tactic| first
  | exact next_fwd | exact advance_fwd _ | exact slice_fwd | exact sliceSkip_fwd _
  | exact expect_fwd _ _ | exact scan_fwd _ | exact scanNext_fwd _ | exact peekAhead_fwd _
  | exact peekOrPart_fwd | exact skipWsRun_fwd | exact space_fwd _ | exact newline_fwd)

macro "fwd_step" : tactic => `(tactic| first
  | exact FwdC.fail _ | exact FwdC.partial_ | exact FwdC.undefined _
  | exact FwdC.pure _ (by simp)
  | (refine FwdC.bind (by fwd_prim) ?_; intro _)
  | exact FwdO.toC (by fwd_prim) _
  | split)

/-- proves `FwdC S f` / `FwdO f` for a `do` block built from known stages -/
macro "fwd" : tactic => `(tactic| ((try apply FwdC.toO); repeat fwd_step))

theorem FwdO.run {α : Type} [HasSlices α] {f : P α} {buf : List Byte} {c : Cur} (h : FwdO f)
    (hwf : c.Wf buf) : OkAtC buf c.start c (f.run c) := h buf c hwf

/-! ### start line -/

theorem skipEmptyLinesGo_ok {buf : List Byte} (start : Nat) (tok rest : List Byte)
    (hwf : Cur.Wf buf ⟨start, tok, rest⟩) :
    OkAtC buf start ⟨start, tok, rest⟩ (skipEmptyLinesGo start tok rest) := by
  fun_induction skipEmptyLinesGo start tok rest
  case case1 | case2 | case4 => first | exact OkAtC.part | exact OkAtC.err
  case case3 ih => exact (ih hwf.snoc2).of_le (Nat.le_refl _) (by pos_tac) (Nat.le_refl _)
  case case5 ih => exact (ih hwf.snoc).of_le (Nat.le_refl _) (by pos_tac) (Nat.le_refl _)
  case case6 => exact OkAtC.ok hwf.commit (by simp) (by pos_tac) (by simp [Chain])

theorem skipEmptyLines_fwd : FwdO skipEmptyLines := fun _ c hwf => skipEmptyLinesGo_ok c.start c.tok c.rest hwf

theorem skipSpacesGo_ok {buf : List Byte} (start : Nat) (tok rest : List Byte)
    (hwf : Cur.Wf buf ⟨start, tok, rest⟩) :
    OkAtC buf start ⟨start, tok, rest⟩ (skipSpacesGo start tok rest) := by
  fun_induction skipSpacesGo start tok rest
  case case1 => exact OkAtC.part
  case case2 ih => exact (ih hwf.snoc).of_le (Nat.le_refl _) (by pos_tac) (Nat.le_refl _)
  case case3 => exact OkAtC.ok hwf.commit (by simp) (by pos_tac) (by simp [Chain])

theorem skipSpaces_fwd : FwdO skipSpaces := fun _ c hwf => skipSpacesGo_ok c.start c.tok c.rest hwf

macro_rules | `(tactic| fwd_prim) => `(tactic| first | exact skipEmptyLines_fwd | exact skipSpaces_fwd)

theorem optSkipSpaces_fwd (on : Bool) : FwdO (optSkipSpaces on) := by
  unfold optSkipSpaces; fwd

theorem parseVersion_fwd : FwdO parseVersion := by
  intro buf c hwf
  simp only [parseVersion, run_mk]
  split
  · refine FwdO.run ?_ hwf; fwd
  · refine FwdO.run ?_ hwf; fwd

theorem tokenLoop_ok {buf : List Byte} (start : Nat) (tok rest : List Byte)
    (hwf : Cur.Wf buf ⟨start, tok, rest⟩) :
    OkAtC buf start ⟨start, tok, rest⟩ (tokenLoop start tok rest) := by
  fun_induction tokenLoop start tok rest
  case case1 => exact OkAtC.part
  case case2 => exact ((sliceSkip_fwd 1).run hwf.snoc).of_le (Nat.le_refl _) (by pos_tac) (Nat.le_refl _)
  case case3 => exact OkAtC.err
  case case4 ih => exact (ih hwf.snoc).of_le (Nat.le_refl _) (by pos_tac) (Nat.le_refl _)

theorem tokenLoopP_fwd : FwdO (P.mk fun c => tokenLoop c.start c.tok c.rest) :=
  fun _ c hwf => tokenLoop_ok c.start c.tok c.rest hwf

macro_rules | `(tactic| fwd_prim) => `(tactic| first | exact optSkipSpaces_fwd _ | exact parseVersion_fwd | exact tokenLoopP_fwd)

theorem parseToken_fwd : FwdO parseToken := by
  unfold parseToken; fwd

theorem parseMethod_fwd : FwdO parseMethod := by
  intro buf c hwf
  simp only [parseMethod, run_mk]
  split
  · split
    · refine FwdO.run ?_ hwf; fwd
    · split
      · split
        · split
          · refine FwdO.run ?_ hwf; fwd
          · exact parseToken_fwd.run hwf
        · exact OkAtC.part
        · exact OkAtC.err
        · exact OkAtC.ub
      · exact parseToken_fwd.run hwf
  · exact parseToken_fwd.run hwf

theorem parseUri_fwd (be : Backend) : FwdO (parseUri be) := by
  unfold parseUri; fwd

theorem parseCode_fwd : FwdO parseCode := by
  unfold parseCode; fwd

theorem reasonFinish_fwd (seen : Bool) (k : Nat) : FwdO (reasonFinish seen k) := by
  unfold reasonFinish; fwd

theorem reasonLoop_ok {buf : List Byte} (start : Nat) (seen : Bool) (tok rest : List Byte)
    (hwf : Cur.Wf buf ⟨start, tok, rest⟩) :
    OkAtC buf start ⟨start, tok, rest⟩ (reasonLoop start seen tok rest) := by
  fun_induction reasonLoop start seen tok rest
  case case1 | case2 | case4 | case6 => first | exact OkAtC.part | exact OkAtC.err
  case case3 => exact ((reasonFinish_fwd _ 2).run hwf.snoc2).of_le (Nat.le_refl _) (by pos_tac) (Nat.le_refl _)
  case case5 => exact ((reasonFinish_fwd _ 1).run hwf.snoc).of_le (Nat.le_refl _) (by pos_tac) (Nat.le_refl _)
  case case7 ih => exact (ih hwf.snoc).of_le (Nat.le_refl _) (by pos_tac) (Nat.le_refl _)

theorem parseReason_fwd : FwdO parseReason := fun _ c hwf => reasonLoop_ok c.start false c.tok c.rest hwf

macro_rules | `(tactic| fwd_prim) => `(tactic| first
  | exact parseToken_fwd | exact parseMethod_fwd | exact parseUri_fwd _ | exact parseCode_fwd
  | exact reasonFinish_fwd _ _ | exact parseReason_fwd)

theorem reasonBranch_fwd (multi : Bool) : FwdO (reasonBranch multi) := by
  unfold reasonBranch; fwd

macro_rules | `(tactic| fwd_prim) => `(tactic| exact reasonBranch_fwd _)

/-! ### header block -/

macro "wf_tac" : tactic => `(tactic| first
  | assumption
  | exact Cur.Wf.snoc (by assumption)
  | exact Cur.Wf.snoc2 (by assumption)
  | exact Cur.Wf.commit (by assumption)
  | exact Cur.Wf.commit (Cur.Wf.snoc (by assumption))
  | exact Cur.Wf.commit (Cur.Wf.snoc2 (by assumption)))

macro "le_tac" : tactic => `(tactic| first | exact Nat.le_refl _ | pos_tac | omega)

/-- closes the non-recursive cases of the byte loops -/
macro "loop_close" : tactic => `(tactic| first
  | exact OkAtC.part | exact OkAtC.err | exact OkAtC.ub
  | exact OkAtC.ok (by wf_tac) (by le_tac) (by le_tac) (by simp [Chain, Slice.In]))

/-- closes a recursive case from the induction hypothesis `ih` -/
macro "loop_ih " ih:ident : tactic =>
  `(tactic| exact OkAtC.of_le ($ih (by wf_tac)) (by le_tac) (by le_tac) (by le_tac))

theorem invalidLoop_ok {buf : List Byte} (e : Error) (start : Nat) (b : Byte) (tok rest : List Byte)
    (hwf : Cur.Wf buf ⟨start, tok, rest⟩) :
    OkAtC buf start ⟨start, tok, rest⟩ (invalidLoop e start b tok rest) := by
  fun_induction invalidLoop e start b tok rest
  case case7 ih => loop_ih ih
  all_goals loop_close

theorem handleInvalid_fwd (hc : HCfg) (e : Error) (b : Byte) : FwdO (handleInvalid hc e b) := by
  unfold handleInvalid
  split
  · exact (FwdC.fail (S := []) e).toO
  · exact fun _ c hwf => invalidLoop_ok e c.start b c.tok c.rest hwf

theorem sanLoop_ok {buf : List Byte} (start : Nat) (tok rest : List Byte)
    (hwf : Cur.Wf buf ⟨start, tok, rest⟩) :
    OkAtC buf start ⟨start, tok, rest⟩ (sanLoop start tok rest) := by
  fun_induction sanLoop start tok rest
  case case3 ih => loop_ih ih
  all_goals loop_close

theorem sanLoopP_fwd : FwdO (P.mk fun c => sanLoop c.start c.tok c.rest) :=
  fun _ c hwf => sanLoop_ok c.start c.tok c.rest hwf

macro_rules | `(tactic| fwd_prim) => `(tactic| first | exact handleInvalid_fwd _ _ _ | exact sanLoopP_fwd)

theorem nameStage_fwd (be : Backend) (hc : HCfg) : FwdO (nameStage be hc) := by
  unfold nameStage; fwd

theorem wsAfterColon_ok {buf : List Byte} (hc : HCfg) (start : Nat) (tok rest : List Byte)
    (hwf : Cur.Wf buf ⟨start, tok, rest⟩) :
    OkAtC buf start ⟨start, tok, rest⟩ (wsAfterColon hc start tok rest) := by
  fun_induction wsAfterColon hc start tok rest
  case case2 ih => loop_ih ih
  case case6 ih => loop_ih ih
  case case11 ih => loop_ih ih
  case case14 c heq =>
    obtain ⟨h1, h2, h3, _⟩ := (handleInvalid_fwd hc .headerValue _).run hwf.snoc _ _ heq
    exact OkAtC.ok h1 h2 (by revert h3; pos_tac) (by simpa [Chain] using h2)
  all_goals loop_close

theorem wsAfterColonP_fwd (hc : HCfg) : FwdO (P.mk fun c => wsAfterColon hc c.start c.tok c.rest) :=
  fun _ c hwf => wsAfterColon_ok hc c.start c.tok c.rest hwf

theorem valueLines_fwd (be : Backend) (hc : HCfg) : ∀ fuel, FwdO (valueLines be hc fuel)
  | 0 => (FwdC.undefined (S := []) _).toO
  | fuel + 1 => by
    have ih := valueLines_fwd be hc fuel
    unfold valueLines
    apply FwdC.toO
    refine FwdC.bind (scanNext_fwd _) ?_
    rintro ⟨n, b⟩
    dsimp only
    split
    · refine FwdC.bind (expect_fwd _ _) fun _ => ?_
      split
      · exact FwdC.peekIf (ih.toC _) (by fwd)
      · fwd
    · split
      · split
        · exact FwdC.peekIf (ih.toC _) (by fwd)
        · fwd
      · fwd

theorem valueLinesP_fwd (be : Backend) (hc : HCfg) :
    FwdO (P.mk fun c => (valueLines be hc (c.rest.length + 1)).run c) :=
  fun buf c hwf => by rw [run_mk]; exact valueLines_fwd be hc _ buf c hwf

macro_rules | `(tactic| fwd_prim) => `(tactic| first
  | exact nameStage_fwd _ _ | exact wsAfterColonP_fwd _ | exact valueLinesP_fwd _ _)

/-- the body of `headerLine` after its first byte -/
def headerRest (be : Backend) (hc : HCfg) (nStored : Nat) (b : Byte) : P Line :=
  if b == CR then do
    let _ ← expect (· == LF) .newLine
    pure .eoh
  else if b == LF then pure .eoh
  else if !isTchar b then
    if hc.sbf && nStored == 0 && isWs b then do
      skipWsRun
      let _ ← slice
      pure .skipped
    else do handleInvalid hc .headerName b; pure .skipped
  else do
    let nm ← nameStage be hc
    match nm with
    | none => pure .skipped
    | some name =>
      let w ← (⟨fun c => wsAfterColon hc c.start c.tok c.rest⟩ : P WsRes)
      match w with
      | .skipped => pure .skipped
      | .empty v => pure (.header name v)
      | .value =>
        let v ← (⟨fun c => (valueLines be hc (c.rest.length + 1)).run c⟩ : P (Option Slice))
        match v with
        | none => pure .skipped
        | some v => pure (.header name v)

theorem headerLine_eq (be : Backend) (hc : HCfg) (k : Nat) :
    headerLine be hc k = next >>= headerRest be hc k := rfl

theorem headerRest_fwd (be : Backend) (hc : HCfg) (k : Nat) (b : Byte) : FwdO (headerRest be hc k b) := by
  unfold headerRest; fwd

theorem headerLine_fwd (be : Backend) (hc : HCfg) (k : Nat) : FwdO (headerLine be hc k) := by
  rw [headerLine_eq]
  exact FwdO.bind next_fwd fun b => (headerRest_fwd be hc k b).toC _

/-! ### the header loop -/

/-- the slices of a header list, in order -/
def hdrSl (hs : List Hdr) : List Slice := hs.flatMap fun h => [h.name, h.value]

@[simp] theorem hdrSl_nil : hdrSl [] = [] := rfl
@[simp] theorem hdrSl_snoc (hs : List Hdr) (h : Hdr) : hdrSl (hs ++ [h]) = hdrSl hs ++ [h.name, h.value] := by
  simp [hdrSl]

theorem mem_hdrSl {hs : List Hdr} {h : Hdr} (hm : h ∈ hs) : h.name ∈ hdrSl hs ∧ h.value ∈ hdrSl hs := by
  simp only [hdrSl, List.mem_flatMap]
  exact ⟨⟨h, hm, by simp⟩, ⟨h, hm, by simp⟩⟩

theorem trimValue_off (v : Slice) : (trimValue v).off = v.off := by
  unfold trimValue; split <;> rfl

theorem trimValue_prefix (v : Slice) : ∃ q, v.bytes = (trimValue v).bytes ++ q := by
  unfold trimValue
  split
  · exact ⟨[], by simp⟩
  · obtain ⟨t, ht⟩ := List.dropWhile_suffix (l := v.bytes.reverse) isTrimWs
    refine ⟨t.reverse, ?_⟩
    have := congrArg List.reverse ht
    simpa using this.symm

theorem Slice.In.trim {buf : List Byte} {lo hi : Nat} {v : Slice} (h : Slice.In buf lo hi v) :
    Slice.In buf lo hi (trimValue v) := by
  obtain ⟨q, hq⟩ := trimValue_prefix v
  have h' : Slice.In buf lo hi ⟨(trimValue v).off, (trimValue v).bytes ++ q⟩ := by
    rw [← hq, trimValue_off]; exact h
  exact h'.prefix

theorem Chain.trim {buf : List Byte} {lo hi : Nat} {n v : Slice} (h : Chain buf lo hi [n, v]) :
    Chain buf lo hi [n, trimValue v] := by
  obtain ⟨h1, h2, h3⟩ := h
  exact ⟨h1, h2.trim, h2.trim.2.1⟩

theorem headersLoop_inv (be : Backend) (hc : HCfg) (cap : Nat) {buf : List Byte} :
    ∀ (fuel : Nat) (c : Cur) (hs : List Hdr) (lo : Nat), c.Wf buf → Chain buf lo c.start (hdrSl hs) →
      ∃ hi, hi ≤ buf.length ∧ Chain buf lo hi (hdrSl (headersLoop be hc cap fuel c hs).2) ∧
        ∀ c', (headersLoop be hc cap fuel c hs).1 = .ok c' → c'.Wf buf ∧ c.pos ≤ c'.pos ∧ hi ≤ c'.start
  | 0, c, hs, lo, hwf, hch => ⟨c.start, hwf.start_le_len, hch, fun c' h => by simp [headersLoop] at h⟩
  | fuel + 1, c, hs, lo, hwf, hch => by
    have hL := headerLine_fwd be hc hs.length buf c hwf
    have hfail : ∀ o : Outcome Cur, (∀ c', o ≠ .ok c') →
        ∃ hi, hi ≤ buf.length ∧ Chain buf lo hi (hdrSl (o, hs).2) ∧
          ∀ c', (o, hs).1 = .ok c' → c'.Wf buf ∧ c.pos ≤ c'.pos ∧ hi ≤ c'.start :=
      fun o ho => ⟨c.start, hwf.start_le_len, hch, fun c' h => absurd h (ho c')⟩
    unfold headersLoop
    split
    · rename_i c' heq
      obtain ⟨h1, h2, h3, h4⟩ := hL _ _ heq
      refine ⟨c'.start, h1.start_le_len, hch.mono (Nat.le_refl _) h2, fun c'' h => ?_⟩
      simp only [Outcome.ok.injEq] at h; subst h
      exact ⟨h1, h3, Nat.le_refl _⟩
    · rename_i c' heq
      obtain ⟨h1, h2, h3, h4⟩ := hL _ _ heq
      obtain ⟨hi, g1, g2, g3⟩ := headersLoop_inv be hc cap fuel c' hs lo h1 (hch.mono (Nat.le_refl _) h2)
      exact ⟨hi, g1, g2, fun c'' h => by have := g3 c'' h; exact ⟨this.1, by omega, this.2.2⟩⟩
    · rename_i n v c' heq
      obtain ⟨h1, h2, h3, h4⟩ := hL _ _ heq
      split
      · have hch' : Chain buf lo c'.start (hdrSl (hs ++ [⟨n, trimValue v⟩])) := by
          rw [hdrSl_snoc]; exact hch.append (Chain.trim h4)
        obtain ⟨hi, g1, g2, g3⟩ := headersLoop_inv be hc cap fuel c' _ lo h1 hch'
        exact ⟨hi, g1, g2, fun c'' h => by have := g3 c'' h; exact ⟨this.1, by omega, this.2.2⟩⟩
      · exact hfail _ (by simp)
    · exact hfail _ (by simp)
    · exact hfail _ (by simp)
    · exact hfail _ (by simp)

/-- `parse_headers_iter_uninit`: the headers written form a chain after the entry commit point; on
Complete the reported length is the distance travelled -/
theorem parseHeadersIter_inv (be : Backend) (hc : HCfg) (cap : Nat) {buf : List Byte} (c : Cur)
    (hwf : c.Wf buf) :
    ∃ hi, hi ≤ buf.length ∧ Chain buf c.start hi (hdrSl (parseHeadersIter be hc cap c).2) ∧
      ∀ n c', (parseHeadersIter be hc cap c).1 = .ok (n, c') →
        c'.Wf buf ∧ c.pos + n = c'.pos ∧ hi ≤ c'.start := by
  obtain ⟨hi, g1, g2, g3⟩ := headersLoop_inv be hc cap (c.rest.length + 1) c [] c.start hwf
    (by simp [Chain])
  unfold parseHeadersIter
  split
  · rename_i c' hs heq
    rw [heq] at g2 g3
    refine ⟨hi, g1, g2, fun n c'' h => ?_⟩
    simp only [Outcome.ok.injEq, Prod.mk.injEq] at h
    obtain ⟨rfl, rfl⟩ := h
    have := g3 c' rfl
    exact ⟨this.1, by omega, this.2.2⟩
  all_goals
    rename_i heq
    rw [heq] at g2
    exact ⟨hi, g1, g2, fun n c'' h => by simp at h⟩

/-! ### the core parsers -/

theorem finishHeaders_inv {V : Type} (be : Backend) (hc : HCfg) (cap : Nat) {buf : List Byte}
    (c : Cur) (v : V) (hwf : c.Wf buf) :
    (finishHeaders be hc cap buf c v).val = v ∧
    ∃ hi, hi ≤ buf.length ∧ Chain buf c.start hi (hdrSl (finishHeaders be hc cap buf c v).hdrs) ∧
      ∀ n, (finishHeaders be hc cap buf c v).status = .ok n → hi ≤ n ∧ n ≤ buf.length := by
  obtain ⟨hi, g1, g2, g3⟩ := parseHeadersIter_inv be hc cap c hwf
  unfold finishHeaders
  dsimp only
  split
  · rename_i hl c' hs heq
    rw [heq] at g2 g3
    refine ⟨rfl, hi, g1, g2, fun n h => ?_⟩
    simp only [Outcome.ok.injEq] at h
    obtain ⟨h1, h2, h3⟩ := g3 hl c' rfl
    have := hwf.pos_le
    have := h1.pos_le_len
    have : c'.start ≤ c'.pos := Cur.Wf.start_le_pos c'
    simp only [Cur.len] at h
    omega
  all_goals
    rename_i heq
    rw [heq] at g2
    exact ⟨rfl, hi, g1, g2, fun n h => by simp at h⟩

theorem finishHeaders_status {V : Type} (be : Backend) (hc : HCfg) (cap : Nat) (buf : List Byte)
    (c : Cur) (v v' : V) :
    (finishHeaders be hc cap buf c v).status = (finishHeaders be hc cap buf c v').status := by
  unfold finishHeaders
  try dsimp only
  split <;> rfl

theorem step_status_congr {α V : Type} (o : Outcome (α × Cur)) (v v' : V) (k k' : α → Cur → Res V)
    (h : ∀ a c, (k a c).status = (k' a c).status) : (step o v k).status = (step o v' k').status := by
  unfold step
  split <;> first | exact h _ _ | rfl

theorem step_ind {α V : Type} {Q : Res V → Prop} {o : Outcome (α × Cur)} {v : V} {k : α → Cur → Res V}
    (hfail : ∀ st : Outcome Nat, (∀ n, st ≠ .ok n) → Q ⟨st, v, []⟩)
    (hok : ∀ a c, o = .ok (a, c) → Q (k a c)) : Q (step o v k) := by
  unfold step
  split
  · exact hok _ _ rfl
  · exact hfail _ (by simp)
  · exact hfail _ (by simp)
  · exact hfail _ (by simp)

/-- one stage of a core parser: the chain of field slices is extended by the stage's slices -/
theorem walk {α : Type} [HasSlices α] {f : P α} (hf : FwdO f) {buf : List Byte} {c c' : Cur} {a : α}
    {S : List Slice} (hwf : c.Wf buf) (hch : Chain buf 0 c.start S) (h : f.run c = .ok (a, c')) :
    c'.Wf buf ∧ Chain buf 0 c'.start (S ++ slices a) := by
  obtain ⟨h1, h2, h3, h4⟩ := hf buf c hwf a c' h
  exact ⟨h1, hch.append h4⟩

/-- the status of a request parse does not depend on the previous field values -/
theorem reqCore_status (be : Backend) (cfg : Config) (cap : Nat) (buf : List Byte) (v v' : ReqVal) :
    (reqCore be cfg cap buf v).status = (reqCore be cfg cap buf v').status := by
  unfold reqCore
  repeat (first | exact finishHeaders_status .. | (apply step_status_congr; intro _ _))

theorem respCore_status (be : Backend) (cfg : Config) (cap : Nat) (buf : List Byte) (v v' : RespVal) :
    (respCore be cfg cap buf v).status = (respCore be cfg cap buf v').status := by
  unfold respCore
  repeat (first | exact finishHeaders_status .. | (apply step_status_congr; intro _ _))

/-- what C04 / C20 need from a request parse on a fresh `Request` -/
def ReqGood (buf : List Byte) (r : Res ReqVal) : Prop :=
  ∃ hi, hi ≤ buf.length ∧
    Chain buf 0 hi (slices r.val.method ++ slices r.val.path ++ hdrSl r.hdrs) ∧
    ∀ n, r.status = .ok n → hi ≤ n ∧ n ≤ buf.length ∧ r.val.method.isSome ∧ r.val.path.isSome

theorem ReqGood.fail {buf : List Byte} {st : Outcome Nat} {v : ReqVal} {c : Cur}
    (hst : ∀ n, st ≠ .ok n) (hwf : c.Wf buf)
    (hch : Chain buf 0 c.start (slices v.method ++ slices v.path)) : ReqGood buf ⟨st, v, []⟩ :=
  ⟨c.start, hwf.start_le_len, by simpa using hch, fun n h => absurd h (hst n)⟩

theorem reqCore_good (be : Backend) (cfg : Config) (cap : Nat) (buf : List Byte) :
    ReqGood buf (reqCore be cfg cap buf ReqVal.fresh) := by
  unfold reqCore
  have hwf0 := Cur.Wf.new buf
  have hch0 : Chain buf 0 (Cur.new buf).start [] := by simp [Chain]
  refine step_ind (Q := ReqGood buf)
    (fun st hst => ReqGood.fail hst hwf0 (by simpa [ReqVal.fresh] using hch0)) fun _ c1 e1 => ?_
  obtain ⟨hwf1, hch1⟩ := walk skipEmptyLines_fwd hwf0 hch0 e1
  refine step_ind (Q := ReqGood buf)
    (fun st hst => ReqGood.fail hst hwf1 (by simpa [ReqVal.fresh] using hch1)) fun m c2 e2 => ?_
  obtain ⟨hwf2, hch2⟩ := walk parseMethod_fwd hwf1 hch1 e2
  try dsimp only
  refine step_ind (Q := ReqGood buf)
    (fun st hst => ReqGood.fail hst hwf2 (by simpa [ReqVal.fresh] using hch2)) fun _ c3 e3 => ?_
  obtain ⟨hwf3, hch3⟩ := walk (optSkipSpaces_fwd _) hwf2 hch2 e3
  refine step_ind (Q := ReqGood buf)
    (fun st hst => ReqGood.fail hst hwf3 (by simpa [ReqVal.fresh] using hch3)) fun p c4 e4 => ?_
  obtain ⟨hwf4, hch4⟩ := walk (parseUri_fwd be) hwf3 hch3 e4
  try dsimp only
  refine step_ind (Q := ReqGood buf)
    (fun st hst => ReqGood.fail hst hwf4 (by simpa [ReqVal.fresh] using hch4)) fun _ c5 e5 => ?_
  obtain ⟨hwf5, hch5⟩ := walk (optSkipSpaces_fwd _) hwf4 hch4 e5
  refine step_ind (Q := ReqGood buf)
    (fun st hst => ReqGood.fail hst hwf5 (by simpa [ReqVal.fresh] using hch5)) fun ver c6 e6 => ?_
  obtain ⟨hwf6, hch6⟩ := walk parseVersion_fwd hwf5 hch5 e6
  try dsimp only
  refine step_ind (Q := ReqGood buf)
    (fun st hst => ReqGood.fail hst hwf6 (by simpa [ReqVal.fresh] using hch6)) fun _ c7 e7 => ?_
  obtain ⟨hwf7, hch7⟩ := walk newline_fwd hwf6 hch6 e7
  obtain ⟨hv, hi, g1, g2, g3⟩ := finishHeaders_inv be cfg.reqH cap c7
    ({ method := some m, path := some p, version := some ver } : ReqVal) hwf7
  refine ⟨hi, g1, ?_, fun n h => ⟨(g3 n h).1, (g3 n h).2, ?_, ?_⟩⟩
  · rw [hv]; simpa using hch7.append g2
  · rw [hv]; rfl
  · rw [hv]; rfl

/-- what C04 / C20 need from a response parse on a fresh `Response` -/
def RespGood (buf : List Byte) (r : Res RespVal) : Prop :=
  ∃ hi, hi ≤ buf.length ∧
    Chain buf 0 hi (slices r.val.reason ++ hdrSl r.hdrs) ∧
    ∀ n, r.status = .ok n → hi ≤ n ∧ n ≤ buf.length ∧ r.val.reason.isSome

theorem RespGood.fail {buf : List Byte} {st : Outcome Nat} {v : RespVal} {c : Cur}
    (hst : ∀ n, st ≠ .ok n) (hwf : c.Wf buf)
    (hch : Chain buf 0 c.start (slices v.reason)) : RespGood buf ⟨st, v, []⟩ :=
  ⟨c.start, hwf.start_le_len, by simpa using hch, fun n h => absurd h (hst n)⟩

theorem respCore_good (be : Backend) (cfg : Config) (cap : Nat) (buf : List Byte) :
    RespGood buf (respCore be cfg cap buf RespVal.fresh) := by
  unfold respCore
  have hwf0 := Cur.Wf.new buf
  have hch0 : Chain buf 0 (Cur.new buf).start [] := by simp [Chain]
  refine step_ind (Q := RespGood buf)
    (fun st hst => RespGood.fail hst hwf0 (by simpa [RespVal.fresh] using hch0)) fun _ c1 e1 => ?_
  obtain ⟨hwf1, hch1⟩ := walk skipEmptyLines_fwd hwf0 hch0 e1
  refine step_ind (Q := RespGood buf)
    (fun st hst => RespGood.fail hst hwf1 (by simpa [RespVal.fresh] using hch1)) fun ver c2 e2 => ?_
  obtain ⟨hwf2, hch2⟩ := walk parseVersion_fwd hwf1 hch1 e2
  try dsimp only
  refine step_ind (Q := RespGood buf)
    (fun st hst => RespGood.fail hst hwf2 (by simpa [RespVal.fresh] using hch2)) fun _ c3 e3 => ?_
  obtain ⟨hwf3, hch3⟩ := walk (space_fwd _) hwf2 hch2 e3
  refine step_ind (Q := RespGood buf)
    (fun st hst => RespGood.fail hst hwf3 (by simpa [RespVal.fresh] using hch3)) fun _ c4 e4 => ?_
  obtain ⟨hwf4, hch4⟩ := walk (optSkipSpaces_fwd _) hwf3 hch3 e4
  refine step_ind (Q := RespGood buf)
    (fun st hst => RespGood.fail hst hwf4 (by simpa [RespVal.fresh] using hch4)) fun code c5 e5 => ?_
  obtain ⟨hwf5, hch5⟩ := walk parseCode_fwd hwf4 hch4 e5
  try dsimp only
  refine step_ind (Q := RespGood buf)
    (fun st hst => RespGood.fail hst hwf5 (by simpa [RespVal.fresh] using hch5)) fun reason c6 e6 => ?_
  obtain ⟨hwf6, hch6⟩ := walk (reasonBranch_fwd _) hwf5 hch5 e6
  try dsimp only
  obtain ⟨hv, hi, g1, g2, g3⟩ := finishHeaders_inv be cfg.respH cap c6
    ({ version := some ver, code := some code, reason := some reason } : RespVal) hwf6
  refine ⟨hi, g1, ?_, fun n h => ⟨(g3 n h).1, (g3 n h).2, ?_⟩⟩
  · rw [hv]; simpa using hch6.append g2
  · rw [hv]; rfl

/-! ### results for the Props files: slices and offsets -/

theorem reqCore_slices_in (be : Backend) (hbe : be.Exact) (cfg : Config) (cap : Nat) (buf : List Byte)
    (v : ReqVal) (hv : v = ReqVal.fresh) :
    let r := reqCore be cfg cap buf v
    (∀ s, r.val.method = some s → Slice.In buf 0 buf.length s) ∧
    (∀ s, r.val.path = some s → Slice.In buf 0 buf.length s) ∧
    (∀ h ∈ r.hdrs, Slice.In buf 0 buf.length h.name ∧ Slice.In buf 0 buf.length h.value) := by
  subst hv
  obtain ⟨hi, g1, g2, _⟩ := reqCore_good be cfg cap buf
  have key : ∀ s, s ∈ slices (reqCore be cfg cap buf ReqVal.fresh).val.method ++
      slices (reqCore be cfg cap buf ReqVal.fresh).val.path ++
      hdrSl (reqCore be cfg cap buf ReqVal.fresh).hdrs → Slice.In buf 0 buf.length s :=
    fun s hs => (g2.mem hs).mono (Nat.le_refl _) g1
  refine ⟨fun s h => key s ?_, fun s h => key s ?_, fun h hm => ⟨key _ ?_, key _ ?_⟩⟩
  · simp [h]
  · simp [h]
  · simp [(mem_hdrSl hm).1]
  · simp [(mem_hdrSl hm).2]

theorem respCore_slices_in (be : Backend) (hbe : be.Exact) (cfg : Config) (cap : Nat) (buf : List Byte)
    (v : RespVal) (hv : v = RespVal.fresh) :
    let r := respCore be cfg cap buf v
    (∀ s, r.val.reason = some (.slice s) → Slice.In buf 0 buf.length s) ∧
    (∀ h ∈ r.hdrs, Slice.In buf 0 buf.length h.name ∧ Slice.In buf 0 buf.length h.value) := by
  subst hv
  obtain ⟨hi, g1, g2, _⟩ := respCore_good be cfg cap buf
  have key : ∀ s, s ∈ slices (respCore be cfg cap buf RespVal.fresh).val.reason ++
      hdrSl (respCore be cfg cap buf RespVal.fresh).hdrs → Slice.In buf 0 buf.length s :=
    fun s hs => (g2.mem hs).mono (Nat.le_refl _) g1
  refine ⟨fun s h => key s ?_, fun h hm => ⟨key _ ?_, key _ ?_⟩⟩
  · simp [h]
  · simp [(mem_hdrSl hm).1]
  · simp [(mem_hdrSl hm).2]

theorem reqCore_n_le (be : Backend) (hbe : be.Exact) (cfg : Config) (cap : Nat) (buf : List Byte)
    (v : ReqVal) (n : Nat) (h : (reqCore be cfg cap buf v).status = .ok n) : n ≤ buf.length := by
  rw [reqCore_status be cfg cap buf v ReqVal.fresh] at h
  obtain ⟨hi, _, _, g3⟩ := reqCore_good be cfg cap buf
  exact (g3 n h).2.1

theorem respCore_n_le (be : Backend) (hbe : be.Exact) (cfg : Config) (cap : Nat) (buf : List Byte)
    (v : RespVal) (n : Nat) (h : (respCore be cfg cap buf v).status = .ok n) : n ≤ buf.length := by
  rw [respCore_status be cfg cap buf v RespVal.fresh] at h
  obtain ⟨hi, _, _, g3⟩ := respCore_good be cfg cap buf
  exact (g3 n h).2.1

/-- `parse_headers`: the headers written form a chain; on Complete(n) it ends at or before `n` -/
theorem parseHeaders_good (be : Backend) (cap : Nat) (buf : List Byte) :
    ∃ hi, hi ≤ buf.length ∧ Chain buf 0 hi (hdrSl (parseHeaders be cap buf).2) ∧
      ∀ n, (parseHeaders be cap buf).1 = .ok n → hi ≤ n ∧ n ≤ buf.length := by
  obtain ⟨hi, g1, g2, g3⟩ := parseHeadersIter_inv be HCfg.default cap (Cur.new buf) (Cur.Wf.new buf)
  unfold parseHeaders
  split
  · rename_i n c' hs heq
    rw [heq] at g2 g3
    refine ⟨hi, g1, g2, fun n' h => ?_⟩
    simp only [Outcome.ok.injEq] at h
    obtain ⟨h1, h2, h3⟩ := g3 n c' rfl
    have := h1.pos_le_len
    have : c'.start ≤ c'.pos := Cur.Wf.start_le_pos c'
    simp only [Cur.new, Cur.pos, List.length_nil] at h2
    simp only [Cur.pos] at *
    omega
  all_goals
    rename_i heq
    rw [heq] at g2
    exact ⟨hi, g1, g2, fun n h => by simp at h⟩

theorem parseHeaders_n_le (be : Backend) (hbe : be.Exact) (cap : Nat) (buf : List Byte)
    (n : Nat) (h : (parseHeaders be cap buf).1 = .ok n) : n ≤ buf.length := by
  obtain ⟨hi, _, _, g3⟩ := parseHeaders_good be cap buf
  exact (g3 n h).2

theorem headerLine_progress (be : Backend) (hbe : be.Exact) (hc : HCfg) (k : Nat) (buf : List Byte)
    (c c' : Cur) (l : Line) (hw : c.Wf buf) (h : (headerLine be hc k).run c = .ok (l, c')) :
    c'.Wf buf ∧ c.pos < c'.pos := by
  rw [headerLine_eq, run_bind] at h
  cases hn : next.run c with
  | ok p =>
    obtain ⟨b, c1⟩ := p
    rw [hn] at h
    obtain ⟨h1, _, _, _⟩ := next_fwd buf c hw b c1 hn
    obtain ⟨g1, _, g3, _⟩ := headerRest_fwd be hc k b buf c1 h1 l c' h
    have := next_pos hn
    exact ⟨g1, by omega⟩
  | part => rw [hn] at h; cases h
  | err e => rw [hn] at h; cases h
  | ub u => rw [hn] at h; cases h

theorem chunkLoop_n_le (dbg : Bool) : ∀ (r : List Byte) (pos size count : Nat) (inSize inExt : Bool)
    (n sz : Nat), chunkLoop dbg pos size count inSize inExt r = .ok (n, sz) → n ≤ pos + r.length := by
  intro r pos size count inSize inExt
  fun_induction chunkLoop dbg pos size count inSize inExt r
  all_goals intro n sz h
  all_goals first
    | (cases h; done)
    | (simp only [Outcome.ok.injEq, Prod.mk.injEq] at h; simp only [List.length_cons]; omega)
    | (rename_i ih; have := ih n sz h; simp only [List.length_cons]; omega)

theorem parseChunkSize_n_le (dbg : Bool) (buf : List Byte) (n size : Nat)
    (h : parseChunkSize dbg buf = .ok (n, size)) : n ≤ buf.length := by
  have := chunkLoop_n_le dbg buf 0 0 0 true false n size h
  omega

/-! ### from chains to `chkC04` -/

theorem Sp.inBuf_ofSlice {buf : List Byte} {lo hi L : Nat} {s : Slice} (h : Slice.In buf lo hi s)
    (hh : hi ≤ L) : (Sp.ofSlice s).inBuf L = true := by
  unfold Sp.ofSlice
  split
  · rfl
  · have := h.2.1
    simp only [Sp.inBuf, decide_eq_true_eq]; omega

theorem Sp.ofSlice_cases (s : Slice) :
    Sp.ofSlice s = .empty ∨ Sp.ofSlice s = .at s.off s.bytes.length := by
  unfold Sp.ofSlice; split <;> simp

theorem chain_spans {buf : List Byte} : ∀ {l : List Slice} {lo hi : Nat}, Chain buf lo hi l →
    (l.map Sp.ofSlice).all (Sp.inHead hi) = true ∧ orderedFrom lo (l.map Sp.ofSlice) = true
  | [], _, _, _ => by simp [orderedFrom]
  | s :: t, lo, hi, h => by
    have h1 := h.1.1
    have h2 := h.1.2.1
    obtain ⟨ih1, ih2⟩ := chain_spans h.2
    obtain ⟨_, ih3⟩ := chain_spans (h.2.mono (by omega : lo ≤ s.off + s.bytes.length) (Nat.le_refl _))
    simp only [List.map_cons, List.all_cons, ih1, Bool.and_true]
    rcases Sp.ofSlice_cases s with e | e <;> rw [e]
    · exact ⟨rfl, by simpa [orderedFrom] using ih3⟩
    · simp only [Sp.inHead, orderedFrom, ih2, Bool.and_true, decide_eq_true_eq]
      exact ⟨h2, h1⟩

theorem hdrs_of_write (f : SlotO → Option HdrO) (hf : ∀ h, f (.hdr h) = some h) (a : Arr)
    (hs : List Hdr) :
    ((List.take hs.length (Arr.write a hs)).map SlotO.ofSlot).filterMap f = hs.map HdrO.ofHdr := by
  unfold Arr.write
  rw [List.take_left' (by simp)]
  induction hs with
  | nil => rfl
  | cons h t ih =>
    simp only [List.map_cons, SlotO.ofSlot, List.filterMap_cons, hf]
    exact congrArg _ ih

theorem hdrO_spans (hs : List Hdr) :
    (hs.map HdrO.ofHdr).flatMap (fun h => [h.name, h.value]) = (hdrSl hs).map Sp.ofSlice := by
  induction hs with
  | nil => rfl
  | cons h t ih => simp [hdrSl, HdrO.ofHdr, List.flatMap_cons] at ih ⊢; exact ih

theorem arr_inBuf (L base cap : Nat) (hs : List Hdr)
    (hh : ∀ h ∈ hs, (Sp.ofSlice h.name).inBuf L = true ∧ (Sp.ofSlice h.value).inBuf L = true) :
    ((Arr.write (sentinels base cap) hs).map SlotO.ofSlot).all
      (fun s => s.spans.all (Sp.inBuf L)) = true := by
  simp only [List.all_eq_true, List.mem_map]
  rintro _ ⟨slot, hm, rfl⟩
  unfold Arr.write at hm
  rcases List.mem_append.1 hm with h | h
  · obtain ⟨hd, hdm, rfl⟩ := List.mem_map.1 h
    intro sp hsp
    simp only [SlotO.ofSlot, SlotO.spans, HdrO.ofHdr, List.mem_cons, List.not_mem_nil, or_false] at hsp
    rcases hsp with rfl | rfl
    · exact (hh hd hdm).1
    · exact (hh hd hdm).2
  · have := List.mem_of_mem_drop h
    unfold sentinels at this
    obtain ⟨k, _, rfl⟩ := List.mem_map.1 this
    simp [SlotO.ofSlot, SlotO.spans]

theorem chkC04_ofCall {V : Type} (spans : V → List Sp) (nums : V → List (Option Nat))
    (core : Nat → V → Res V) (v0 : V) (cap : Nat) (buf : List Byte)
    (hsp : ∀ sp ∈ spans (core cap v0).val, sp.inBuf buf.length = true)
    (hh : ∀ h ∈ (core cap v0).hdrs, (Sp.ofSlice h.name).inBuf buf.length = true ∧
      (Sp.ofSlice h.value).inBuf buf.length = true)
    (hc : ∀ n, (core cap v0).status = .ok n →
      (spans (core cap v0).val ++ (hdrSl (core cap v0).hdrs).map Sp.ofSlice).all (Sp.inHead n) = true ∧
      orderedFrom 0 (spans (core cap v0).val ++ (hdrSl (core cap v0).hdrs).map Sp.ofSlice) = true) :
    chkC04 buf (Obs.ofCall spans nums (callInit core ⟨v0, cap⟩ (sentinels 0 cap)) true []) = true := by
  unfold callInit
  dsimp only
  generalize core cap v0 = r at *
  rcases r with ⟨st, val, hs⟩
  have harr := arr_inBuf buf.length 0 cap hs hh
  have hsp' : (spans val).all (Sp.inBuf buf.length) = true := List.all_eq_true.2 hsp
  cases st with
  | ok n =>
    obtain ⟨c1, c2⟩ := hc n rfl
    dsimp only at c1 c2
    simp only [chkC04, Obs.ofCall, Obs.allSpans, St.ofOutcome, St.isC, if_true, List.map_nil,
      List.append_nil, hsp', harr, Bool.and_true, Bool.true_and]
    rw [hdrs_of_write _ (fun _ => rfl), hdrO_spans, c1, c2]
    rfl
  | part => simp [chkC04, Obs.ofCall, St.ofOutcome, hsp', harr]
  | err e => simp [chkC04, Obs.ofCall, St.ofOutcome, hsp', harr]
  | ub u => simp [chkC04, Obs.ofCall, St.ofOutcome, hsp', harr]

/-! ### results for the Props files: `chkC04`, `chkC20` -/

theorem hdrs_inBuf {buf : List Byte} {hi : Nat} {S : List Slice} {hs : List Hdr}
    (g1 : hi ≤ buf.length) (g2 : Chain buf 0 hi (S ++ hdrSl hs)) :
    ∀ h ∈ hs, (Sp.ofSlice h.name).inBuf buf.length = true ∧
      (Sp.ofSlice h.value).inBuf buf.length = true := fun h hm =>
  ⟨Sp.inBuf_ofSlice (g2.mem (List.mem_append_right _ (mem_hdrSl hm).1)) g1,
   Sp.inBuf_ofSlice (g2.mem (List.mem_append_right _ (mem_hdrSl hm).2)) g1⟩

theorem chkC04_reqObs (be : Backend) (hbe : be.Exact) (cfg : Config) (cap : Nat) (buf : List Byte) :
    chkC04 buf (reqObs be cfg cap buf) = true := by
  unfold reqObs
  obtain ⟨hi, g1, g2, g3⟩ := reqCore_good be cfg cap buf
  refine chkC04_ofCall ReqVal.spans ReqVal.nums (fun n v => reqCore be cfg n buf v) ReqVal.fresh cap buf
    ?_ ?_ ?_
  · intro sp hsp
    simp only [ReqVal.spans, List.mem_cons, List.not_mem_nil, or_false] at hsp
    rcases hsp with rfl | rfl
    · cases hm : (reqCore be cfg cap buf ReqVal.fresh).val.method with
      | none => rfl
      | some s => exact Sp.inBuf_ofSlice (g2.mem (by simp [hm])) g1
    · cases hm : (reqCore be cfg cap buf ReqVal.fresh).val.path with
      | none => rfl
      | some s => exact Sp.inBuf_ofSlice (g2.mem (by simp [hm])) g1
  · exact hdrs_inBuf g1 g2
  · intro n hn
    obtain ⟨k1, k2, k3, k4⟩ := g3 n hn
    obtain ⟨m, hm⟩ := Option.isSome_iff_exists.1 k3
    obtain ⟨p, hp⟩ := Option.isSome_iff_exists.1 k4
    rw [hm, hp] at g2
    have := chain_spans (g2.mono (Nat.le_refl _) k1)
    simpa [ReqVal.spans, hm, hp, Sp.ofOptSlice] using this

theorem chkC04_respObs (be : Backend) (hbe : be.Exact) (cfg : Config) (cap : Nat) (buf : List Byte) :
    chkC04 buf (respObs be cfg cap buf) = true := by
  unfold respObs
  obtain ⟨hi, g1, g2, g3⟩ := respCore_good be cfg cap buf
  refine chkC04_ofCall RespVal.spans RespVal.nums (fun n v => respCore be cfg n buf v) RespVal.fresh cap buf
    ?_ ?_ ?_
  · intro sp hsp
    simp only [RespVal.spans, List.mem_cons, List.not_mem_nil, or_false] at hsp
    subst hsp
    cases hm : (respCore be cfg cap buf RespVal.fresh).val.reason with
    | none => rfl
    | some str =>
      cases str with
      | staticEmpty => rfl
      | slice s => exact Sp.inBuf_ofSlice (g2.mem (by simp [hm])) g1
  · exact hdrs_inBuf g1 g2
  · intro n hn
    obtain ⟨k1, k2, k3⟩ := g3 n hn
    obtain ⟨str, hm⟩ := Option.isSome_iff_exists.1 k3
    rw [hm] at g2
    have := chain_spans (g2.mono (Nat.le_refl _) k1)
    cases str with
    | staticEmpty => simpa [RespVal.spans, hm, Sp.ofOptStr, Sp.ofStr, Sp.inHead, orderedFrom] using this
    | slice s => simpa [RespVal.spans, hm, Sp.ofOptStr, Sp.ofStr] using this

theorem chkC04_hdrsObs (be : Backend) (hbe : be.Exact) (cap : Nat) (buf : List Byte) :
    chkC04 buf (hdrsObs be cap buf) = true := by
  obtain ⟨hi, g1, g2, g3⟩ := parseHeaders_good be cap buf
  unfold hdrsObs
  rcases h : parseHeaders be cap buf with ⟨o, hs⟩
  rw [h] at g2 g3
  dsimp only at g2 g3 ⊢
  have harr := arr_inBuf buf.length 0 cap hs (hdrs_inBuf (S := []) g1 (by simpa using g2))
  cases o with
  | ok n =>
    obtain ⟨c1, c2⟩ := chain_spans (g2.mono (Nat.le_refl _) (g3 n rfl).1)
    simp only [chkC04, Obs.allSpans, St.ofOutcome, St.isC, if_true, List.nil_append, List.all_nil,
      List.append_nil, harr, Bool.and_true, hdrO_spans, c1, c2]
  | part => simp [chkC04, St.ofOutcome, harr]
  | err e => simp [chkC04, St.ofOutcome, harr]
  | ub u => simp [chkC04, St.ofOutcome, harr]

theorem callInit_status {V : Type} (core : Nat → V → Res V) (h : Handle V) (arr : Arr) :
    (callInit core h arr).status = (core h.viewLen h.val).status := by
  unfold callInit
  dsimp only
  split
  · rename_i heq; rw [heq]
  · rfl

theorem chkC20_reqObs (be : Backend) (hbe : be.Exact) (cfg : Config) (cap : Nat) (buf : List Byte) (n : Nat)
    (h : (reqObs be cfg cap buf).st = .c n) : chkC20 buf.length (reqObs be cfg cap buf).st n = true := by
  rw [h]
  have hst : (reqCore be cfg cap buf ReqVal.fresh).status = .ok n := by
    have h' : St.ofOutcome (callInit (fun n v => reqCore be cfg n buf v) ⟨ReqVal.fresh, cap⟩
        (sentinels 0 cap)).status = .c n := h
    rw [callInit_status] at h'
    dsimp only at h'
    cases hs : (reqCore be cfg cap buf ReqVal.fresh).status with
    | ok m => rw [hs] at h'; simp only [St.ofOutcome, St.c.injEq] at h'; rw [h']
    | part => rw [hs] at h'; cases h'
    | err e => rw [hs] at h'; cases h'
    | ub u => rw [hs] at h'; cases h'
  have := reqCore_n_le be hbe cfg cap buf _ n hst
  simp [chkC20, this]

/-! ### `Fwd` (the statement of `Hx.Lemmas.Stage`) for every stage -/

theorem next_Fwd : Fwd next := next_fwd.fwd
theorem advance_Fwd (n : Nat) : Fwd (advance n) := (advance_fwd n).fwd
theorem slice_Fwd : Fwd slice := slice_fwd.fwd
theorem sliceSkip_Fwd (k : Nat) : Fwd (sliceSkip k) := (sliceSkip_fwd k).fwd
theorem expect_Fwd (p : Byte → Bool) (e : Error) : Fwd (expect p e) := (expect_fwd p e).fwd
theorem scan_Fwd (sc : Scanner) : Fwd (scan sc) := (scan_fwd sc).fwd
theorem scanNext_Fwd (sc : Scanner) : Fwd (scanNext sc) := (scanNext_fwd sc).fwd
theorem peekAhead_Fwd (n : Nat) : Fwd (peekAhead n) := (peekAhead_fwd n).fwd
theorem peekOrPart_Fwd : Fwd peekOrPart := peekOrPart_fwd.fwd
theorem skipWsRun_Fwd : Fwd skipWsRun := skipWsRun_fwd.fwd
theorem space_Fwd (e : Error) : Fwd (space e) := (space_fwd e).fwd
theorem newline_Fwd : Fwd newline := newline_fwd.fwd
theorem skipEmptyLines_Fwd : Fwd skipEmptyLines := skipEmptyLines_fwd.fwd
theorem skipSpaces_Fwd : Fwd skipSpaces := skipSpaces_fwd.fwd
theorem optSkipSpaces_Fwd (on : Bool) : Fwd (optSkipSpaces on) := (optSkipSpaces_fwd on).fwd
theorem parseVersion_Fwd : Fwd parseVersion := parseVersion_fwd.fwd
theorem parseToken_Fwd : Fwd parseToken := parseToken_fwd.fwd
theorem parseMethod_Fwd : Fwd parseMethod := parseMethod_fwd.fwd
theorem parseUri_Fwd (be : Backend) : Fwd (parseUri be) := (parseUri_fwd be).fwd
theorem parseCode_Fwd : Fwd parseCode := parseCode_fwd.fwd
theorem parseReason_Fwd : Fwd parseReason := parseReason_fwd.fwd
theorem reasonBranch_Fwd (multi : Bool) : Fwd (reasonBranch multi) := (reasonBranch_fwd multi).fwd
theorem handleInvalid_Fwd (hc : HCfg) (e : Error) (b : Byte) : Fwd (handleInvalid hc e b) :=
  (handleInvalid_fwd hc e b).fwd
theorem nameStage_Fwd (be : Backend) (hc : HCfg) : Fwd (nameStage be hc) := (nameStage_fwd be hc).fwd
theorem wsAfterColon_Fwd (hc : HCfg) : Fwd (P.mk fun c => wsAfterColon hc c.start c.tok c.rest) :=
  (wsAfterColonP_fwd hc).fwd
theorem valueLines_Fwd (be : Backend) (hc : HCfg) (fuel : Nat) : Fwd (valueLines be hc fuel) :=
  (valueLines_fwd be hc fuel).fwd
theorem headerLine_Fwd (be : Backend) (hc : HCfg) (k : Nat) : Fwd (headerLine be hc k) :=
  (headerLine_fwd be hc k).fwd

/-- for a header line the name ends at or before the start of the (untrimmed) value -/
theorem headerLine_ordered (be : Backend) (hc : HCfg) (k : Nat) (buf : List Byte) (c c' : Cur)
    (n v : Slice) (hw : c.Wf buf) (h : (headerLine be hc k).run c = .ok (.header n v, c')) :
    c.start ≤ n.off ∧ n.off + n.bytes.length ≤ v.off ∧ v.off + v.bytes.length ≤ c'.start := by
  obtain ⟨_, _, _, h4⟩ := headerLine_fwd be hc k buf c hw _ _ h
  exact ⟨h4.1.1, h4.2.1.1, h4.2.1.2.1⟩

end Hx
